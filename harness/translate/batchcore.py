"""Symbolic TENSOR interpreter used by harness/translate/geombatch.py.

Where geomcore.py treats every batch dimension as "broadcasting only", this interpreter keeps the shape of every array:
a dimension is a concrete integer, a batch symbol (`M` rays, `K` triangles, ...), the row-major product of several dimensions
(`flatten`, `view(-1, ...)`, `repeat`), the sub-list of a dimension selected by a boolean mask (`x[mask]`, `masked_select`) or
the concatenation over a loop (`torch.cat` in a `for`).  An array is a shape and a function from an index (one entry per axis) to
the scalar term of that element, so `unsqueeze`, `repeat`, `expand`, `reshape`, `permute`, `.T`, `[:, None, 0]`, broadcasting,
`mm`, `bmm`, slice stores ... are executed on indices, and the generated Lean text says WHICH ray and WHICH triangle every output
element is computed from.  No execution of odak, no NumPy: only `ast`.

Terms are hash-consed nodes.  Every assigned Python variable that holds a computed array becomes a `let`-bound FUNCTION of its batch
indices (`let f_2 : Fin k → Fin m → Vec3 α := fun j i => ...`).  `expand` inlines the lets: two runs of the same function under
different assumptions on the batch sizes (`K = 1` or not: `if normal.shape[0] == 1: normal = normal.view((2, 3))`) are compared on
the expanded element terms."""
import ast
import itertools
from .pyexpr import TranslateError
from .constants import sci


# ====================================================================================================== terms
class N:
    __slots__ = ('op', 'args')
    pool = {}

    def __repr__(self):
        return 'N(%s %r)' % (self.op, self.args)


def _key(a):
    if isinstance(a, N):
        return ('#', id(a))
    if isinstance(a, tuple):
        return tuple(_key(x) for x in a)
    return a


def mk(op, *args):
    key = (op,) + tuple(_key(a) for a in args)
    n = N.pool.get(key)
    if n is None:
        n = N()
        n.op, n.args = op, args
        N.pool[key] = n
    return n


def var(name, sym):
    return mk('var', name, sym)


def lit(text):
    return mk('lit', text)


def mknot(x):
    return x.args[0] if x.op == 'not' else mk('not', x)


# ====================================================================================================== dimensions
class Sym:
    """a batch dimension: `name` 'K', Lean size variable `lean` 'k', canonical index variable `var` 'j'"""

    def __init__(self, name, lean, var):
        self.name, self.lean, self.var = name, lean, var

    def __repr__(self):
        return self.name


class Prod:
    """row-major product of dimensions (an index is a tuple)"""

    def __init__(self, factors):
        self.factors = tuple(factors)

    def __repr__(self):
        return '(' + '*'.join(map(repr, self.factors)) + ')'


class Sel:
    """the indices of `base` (in order) at which `pred(index)` is true"""

    def __init__(self, base, pred):
        self.base, self.pred = base, pred

    def __repr__(self):
        return 'Sel(%r)' % (self.base,)


class Acc:
    """the rows a loop-carried accumulator holds at the start of an iteration"""

    def __init__(self, name):
        self.name = name

    def __repr__(self):
        return 'Acc(%s)' % self.name


class Cat:
    """concatenation of dimensions (an index is (part number, index in the part))"""

    def __init__(self, parts):
        self.parts = tuple(parts)

    def __repr__(self):
        return 'Cat%r' % (self.parts,)


class Flat:
    """concatenation over the iterations `var` of a loop over `sym` of a dimension that may depend on the iteration"""

    def __init__(self, sym, inner):
        self.sym, self.inner = sym, inner

    def __repr__(self):
        return 'Flat(%r, %r)' % (self.sym, self.inner)


class Maybe:
    """a test the translator cannot decide (`x.shape[0] > 0` for a masked selection)"""

    def __init__(self, dim):
        self.dim = dim


class Opaque:
    def __repr__(self):
        return 'Opaque'


class Shape(list):
    pass


class PList(list):
    pass


class PType:
    def __init__(self, name):
        self.name = name

    def __eq__(self, o):
        return isinstance(o, PType) and o.name == self.name

    def __hash__(self):
        return hash(self.name)


class T:
    """array: `shape` (list of dimensions), `fn(index list) -> N`, `kind` 's' (scalar of type α) | 'b' (Bool)"""

    def __init__(self, shape, fn, kind='s', atomic=False):
        self.shape, self.fn, self.kind, self.atomic = list(shape), fn, kind, atomic

    def __repr__(self):
        return 'T%r%s' % (self.shape, self.kind)


class RowCounts:
    """`check.sum(dim=1)`: for every row of a [K, M] boolean array the number of true entries; times `factor`"""

    def __init__(self, t, factor=1):
        self.t, self.factor = t, factor


class CountVar:
    def __init__(self, rc, factor=1):
        self.rc, self.factor = rc, factor


class Selected:
    """`torch.masked_select(x, mask)` with a mask that is constant over the trailing `core` axes of `x`: the selected rows"""

    def __init__(self, t, core):
        self.t, self.core = t, list(core)           # t.shape = [Sel(P, pred)] + core

    def numel(self):
        n = 1
        for c in self.core:
            n *= c
        return n


class Groups:
    """`torch.split(selected, sizes)`"""

    def __init__(self, counts, sel, viewed=False, nonempty=False):
        self.counts, self.sel, self.viewed, self.nonempty = counts, sel, viewed, nonempty


class GroupVar:
    def __init__(self, groups, viewed=False):
        self.groups, self.viewed = groups, viewed


class Guarded:
    """`if flag == False: return 0, 0` followed by `return value`"""

    def __init__(self, flag, value):
        self.flag, self.value = flag, value


class LoopIdx:
    """the counter of `for index, row in enumerate(array)`, plus a constant"""

    def __init__(self, node, sym, off=0):
        self.node, self.sym, self.off = node, sym, off


class Returned(Exception):
    def __init__(self, value):
        self.value = value


STRUCTS = {(): None, (3,): 'Vec3', (2, 3): 'Ray', (3, 3): 'Tri'}
PATHS = {
    None: {(): ()},
    'Vec3': {(c,): ('xyz'[c],) for c in range(3)},
    'Ray': {(r, c): ('od'[r], 'xyz'[c]) for r in range(2) for c in range(3)},
    'Tri': {(r, c): ('p%d' % r, 'xyz'[c]) for r in range(3) for c in range(3)},
}
LAYOUT_IDENT = ('to', 'float', 'double', 'clone', 'detach', 'contiguous', 'copy', 'cpu')
IDENT_FUNCS = ('np.asarray', 'np.copy', 'np.array', 'torch.as_tensor', 'torch.tensor', 'np.float64', 'torch.clone')
IGNORED_KW = ('device', 'dtype', 'requires_grad')


def prime(name, used):
    while name in used:
        name += "'"
    used.add(name)
    return name


class Engine:
    """one run = one function under one `world` (sym name -> 'many' | 'one')"""

    def __init__(self, world, resolve, registry=None):
        self.world = world
        self.resolve = resolve               # (file, python name) -> (file, ast.FunctionDef) of a callee or None
        self.registry = registry or {}       # (file, python name) -> [RegDef]
        self.lets = {}                       # id -> dict
        self.order = []                      # let ids in creation order
        self.calls = {}                      # call id -> dict
        self.counter = 0
        self.ambient = []                    # [(index node, Sym)] of the enclosing loops
        self.notes = []
        self.depth = 0

    # -------------------------------------------------------------------------------------------------- dimensions
    def is_one(self, d):
        if isinstance(d, int):
            return d == 1
        if isinstance(d, Sym):
            return self.world.get(d.name, 'many') != 'many'
        if isinstance(d, Prod):
            return all(self.is_one(f) for f in d.factors)
        return False

    def c0(self, s):
        """index 0 of a batch axis: with a single element it IS the (only) index `var`"""
        if self.is_one(s):
            return var(s.var, s.name)
        return mk('c0', s.name)

    def zero_idx(self, d):
        if isinstance(d, int):
            return 0
        if isinstance(d, Sym):
            return self.c0(d)
        if isinstance(d, Prod):
            return tuple(self.zero_idx(f) for f in d.factors)
        raise TranslateError('no first index for the dimension %r' % (d,))

    def canon_idx(self, d, used):
        if isinstance(d, int):
            if d == 1:
                return 0
            raise TranslateError('internal: canonical index of a concrete axis')
        if isinstance(d, Sym):
            return var(prime(d.var, used), d.name)
        if isinstance(d, Prod):
            return tuple(self.canon_idx(f, used) for f in d.factors)
        if isinstance(d, Sel):
            return self.canon_idx(d.base, used)
        if isinstance(d, Flat):
            if d.sym.var in used:
                raise TranslateError('loop variable used twice')
            used.add(d.sym.var)
            return (var(d.sym.var, d.sym.name), self.canon_idx(d.inner, used))
        raise TranslateError('no canonical index for the dimension %r' % (d,))

    def deq(self, a, b):
        if isinstance(a, int) or isinstance(b, int):
            return isinstance(a, int) and isinstance(b, int) and a == b
        if type(a) is not type(b):
            return False
        if isinstance(a, Sym):
            return a.name == b.name
        if isinstance(a, Prod):
            return len(a.factors) == len(b.factors) and all(self.deq(x, y) for x, y in zip(a.factors, b.factors))
        if isinstance(a, Sel):
            if not self.deq(a.base, b.base):
                return False
            i = self.canon_idx(a, set())
            return self.expand(a.pred(i)) is self.expand(b.pred(i))
        if isinstance(a, Acc):
            return a.name == b.name
        if isinstance(a, Flat):
            return a.sym.name == b.sym.name and self.deq(a.inner, b.inner)
        if isinstance(a, Cat):
            return len(a.parts) == len(b.parts) and all(self.deq(x, y) for x, y in zip(a.parts, b.parts))
        return False

    def syms_of(self, d):
        """the batch symbols an index of this dimension is made of, in order"""
        if isinstance(d, Sym):
            return [d]
        if isinstance(d, Prod):
            return [s for f in d.factors for s in self.syms_of(f)]
        if isinstance(d, Sel):
            return self.syms_of(d.base)
        if isinstance(d, int):
            return []
        raise TranslateError('an array with the dimension %r cannot be bound' % (d,))

    def atoms_of(self, d, i):
        if isinstance(d, Sym):
            return [i]
        if isinstance(d, Prod):
            return [a for f, x in zip(d.factors, i) for a in self.atoms_of(f, x)]
        if isinstance(d, Sel):
            return self.atoms_of(d.base, i)
        return []

    def rebuild_idx(self, d, atoms):
        """inverse of atoms_of: consumes from the list `atoms`"""
        if isinstance(d, int) and d == 1:
            return 0
        if isinstance(d, Sym):
            return atoms.pop(0)
        if isinstance(d, Prod):
            return tuple(self.rebuild_idx(f, atoms) for f in d.factors)
        if isinstance(d, Sel):
            return self.rebuild_idx(d.base, atoms)
        raise TranslateError('internal: rebuild_idx')

    def same_factors(self, a, b):
        """two row-major products of the same batch axes in a different order: as many elements, matched by flat position"""
        return isinstance(a, Prod) and isinstance(b, Prod) and all(isinstance(f, Sym) for f in a.factors + b.factors) and \
            sorted(f.name for f in a.factors) == sorted(f.name for f in b.factors) and not self.deq(a, b)

    def reflat(self, frm, to, idx):
        """index of the dimension `to` at the flat position of the index `idx` of the dimension `frm`"""
        fn, tn = tuple(f.name for f in frm.factors), tuple(f.name for f in to.factors)
        return tuple(mk('reflat', fn, tn, tuple(idx), pos) for pos in range(len(tn)))

    def dim_max(self, a, b):
        if self.deq(a, b):
            return a
        if isinstance(a, int) and isinstance(b, int):
            return max(a, b)
        if self.is_one(a):
            return b
        if self.is_one(b):
            return a
        raise TranslateError('maximum of the unrelated sizes %r and %r' % (a, b))

    # -------------------------------------------------------------------------------------------------- broadcasting
    def bshape(self, sa, sb, what=''):
        n = max(len(sa), len(sb))
        out = []
        for k in range(1, n + 1):
            a = sa[-k] if k <= len(sa) else 1
            b = sb[-k] if k <= len(sb) else 1
            if self.deq(a, b):
                d = a
            elif self.is_one(a) and self.is_one(b):
                d = b if isinstance(a, int) else a
            elif self.is_one(a):
                d = b
            elif self.is_one(b):
                d = a
            elif self.same_factors(a, b):
                d = a
            else:
                raise TranslateError('shapes %r and %r do not broadcast%s' % (sa, sb, what))
            out.append(d)
        return out[::-1]

    def bidx(self, shape, outshape, idx):
        off = len(outshape) - len(shape)
        if off < 0:
            raise TranslateError('internal: bidx')
        res = []
        for k, d in enumerate(shape):
            if self.deq(d, outshape[k + off]):
                res.append(idx[k + off])
            elif self.same_factors(outshape[k + off], d):
                res.append(self.reflat(outshape[k + off], d, idx[k + off]))
            else:
                res.append(self.zero_idx(d))
        return res

    def broadcast_to(self, t, shape, what=''):
        bs = self.bshape(t.shape, shape, what)
        if len(bs) != len(shape) or not all(self.deq(x, y) or (self.is_one(x) and self.is_one(y)) or self.same_factors(x, y)
                                            for x, y in zip(bs, shape)):
            raise TranslateError('a %r array does not fit into %r%s' % (t.shape, shape, what))
        return T(shape, lambda idx, t=t, shape=list(shape): t.fn(self.bidx(t.shape, shape, idx)), t.kind, t.atomic)

    def as_t(self, v, what=''):
        if isinstance(v, T):
            return v
        if isinstance(v, bool):
            raise TranslateError('a Python bool where an array is expected' + what)
        if isinstance(v, (int, float)):
            n = lit(sci(v))
            return T([], lambda idx, n=n: n, 's', True)
        raise TranslateError('expected an array, got %s%s' % (type(v).__name__, what))

    def ew(self, f, a, b, kind='s', what=''):
        a, b = self.as_t(a, what), self.as_t(b, what)
        shape = self.bshape(a.shape, b.shape, what)
        return T(shape, lambda idx: f(a.fn(self.bidx(a.shape, shape, idx)), b.fn(self.bidx(b.shape, shape, idx))), kind)

    def ew1(self, f, a, kind=None):
        return T(a.shape, lambda idx: f(a.fn(idx)), kind or a.kind)

    # -------------------------------------------------------------------------------------------------- lets
    def fresh(self, base):
        self.counter += 1
        return '%s_%d' % (base, self.counter)

    def bind(self, base, t):
        """a computed array becomes a let-bound function of its batch indices"""
        if not isinstance(t, T) or t.atomic:
            return t
        conc = tuple(d for d in t.shape if isinstance(d, int) and d != 1)
        if conc not in STRUCTS:
            return t                # left unbound (inlined where used)
        try:
            syms = [s for d in t.shape for s in self.syms_of(d)]
        except TranslateError:
            return t
        lid = len(self.lets)
        used = set(n.args[0] for n, _ in self.ambient)
        params = [(n.args[0], s) for n, s in self.ambient] + [(prime(s.var, used), s) for s in syms]
        shape = list(t.shape)
        namb = len(self.ambient)

        def full_idx(atoms, comp):
            atoms = list(atoms)[namb:]
            comp = list(comp)
            idx = []
            for d in shape:
                if isinstance(d, int):
                    idx.append(0 if d == 1 else comp.pop(0))
                else:
                    idx.append(self.rebuild_idx(d, atoms))
            return idx
        self.lets[lid] = {'name': self.fresh(base), 'params': params, 'struct': STRUCTS[conc], 'kind': t.kind, 'conc': conc,
                          'fn': t.fn, 'full_idx': full_idx}
        self.order.append(lid)
        amb = [n for n, _ in self.ambient]

        def fn(idx):
            atoms, comp = list(amb), []
            for d, i in zip(shape, idx):
                if isinstance(d, int):
                    if d != 1:
                        comp.append(i)
                else:
                    atoms += self.atoms_of(d, i)
            return mk('let', lid, tuple(atoms), tuple(comp))
        return T(shape, fn, t.kind, True)

    def let_body(self, lid):
        """{component: node} of a let at its own parameters"""
        L = self.lets[lid]
        atoms = [var(n, s.name) for n, s in L['params']]
        return {comp: L['fn'](L['full_idx'](atoms, comp)) for comp in itertools.product(*[range(c) for c in L['conc']])}

    # -------------------------------------------------------------------------------------------------- expansion
    def expand(self, n, memo=None):
        """inline every let and every reference to a generated definition"""
        if memo is None:
            memo = self.__dict__.setdefault('_memo', {})
        if not isinstance(n, N):
            if isinstance(n, tuple):
                return tuple(self.expand(x, memo) for x in n)
            return n
        r = memo.get(id(n))
        if r is not None:
            return r
        if n.op == 'let':
            lid, atoms, comp = n.args
            L = self.lets[lid]
            r = self.expand(L['fn'](L['full_idx'](atoms, comp)), memo)
        elif n.op == 'call':
            r = self.expand(n.args[3], memo)
        elif n.op in ('var', 'c0', 'lit'):
            r = n
        else:
            r = mk(n.op, *[self.expand(a, memo) for a in n.args])
        memo[id(n)] = r
        return r

    # -------------------------------------------------------------------------------------------------- layout operations
    def norm_axis(self, k, rank, what):
        if not isinstance(k, int) or isinstance(k, bool):
            raise TranslateError('axis %r in %s' % (k, what))
        if k < 0:
            k += rank
        if not 0 <= k < rank:
            raise TranslateError('axis out of range in ' + what)
        return k

    def unsqueeze(self, t, k):
        k = k + len(t.shape) + 1 if k < 0 else k
        if not 0 <= k <= len(t.shape):
            raise TranslateError('unsqueeze axis out of range')
        return T(t.shape[:k] + [1] + t.shape[k:], lambda idx: t.fn(idx[:k] + idx[k + 1:]), t.kind, t.atomic)

    def squeeze(self, t, k=None):
        if k is None:
            keep = [i for i, d in enumerate(t.shape) if not (isinstance(d, int) and d == 1) and not self.is_one(d)]
        else:
            k = self.norm_axis(k, len(t.shape), 'squeeze')
            if not self.is_one(t.shape[k]):
                if isinstance(t.shape[k], int):
                    return t            # squeeze of an axis that is not 1 is a no-op
                raise TranslateError('squeeze of the batch axis %r' % (t.shape[k],))
            keep = [i for i in range(len(t.shape)) if i != k]
        shape = [t.shape[i] for i in keep]
        dropped = [i for i in range(len(t.shape)) if i not in keep]

        def fn(idx):
            full = [None] * len(t.shape)
            for i, x in zip(keep, idx):
                full[i] = x
            for i in dropped:
                full[i] = self.zero_idx(t.shape[i])
            return t.fn(full)
        return T(shape, fn, t.kind, t.atomic)

    def permute(self, t, axes):
        axes = [self.norm_axis(a, len(t.shape), 'permute') for a in axes]
        if sorted(axes) != list(range(len(t.shape))):
            raise TranslateError('permute%r of a rank %d array' % (tuple(axes), len(t.shape)))

        def fn(idx):
            full = [None] * len(axes)
            for new, old in enumerate(axes):
                full[old] = idx[new]
            return t.fn(full)
        return T([t.shape[a] for a in axes], fn, t.kind, t.atomic)

    def transpose(self, t):
        return self.permute(t, list(range(len(t.shape)))[::-1])

    def merge_dims(self, dims):
        fs = []
        for d in dims:
            if self.is_one(d):          # an axis with a single element contributes nothing to a row-major product
                continue
            if isinstance(d, Prod):
                fs += list(d.factors)
            elif isinstance(d, (int, Sym)):
                fs.append(d)
            else:
                raise TranslateError('cannot flatten the dimension %r' % (d,))
        if not fs:
            return 1
        if len(fs) == 1:
            return fs[0]
        if any(isinstance(f, int) for f in fs):
            raise TranslateError('flattening a component axis into a batch axis: %r' % (dims,))
        return Prod(fs)

    def split_idx(self, dims, i):
        """index of the merged dimension -> indices of `dims`"""
        fs = []
        for d in dims:
            if self.is_one(d):
                continue
            fs.append(d)
        if not fs:
            return [self.zero_idx(d) for d in dims]
        if len(fs) == 1 and not isinstance(fs[0], Prod):
            parts = [i]
        elif len(fs) == 1:
            parts = [i]
        else:
            parts, i = [], list(i)
            for f in fs:
                if isinstance(f, Prod):
                    parts.append(tuple(i[:len(f.factors)]))
                    i = i[len(f.factors):]
                else:
                    parts.append(i.pop(0))
        out = []
        for d in dims:
            out.append(self.zero_idx(d) if self.is_one(d) else parts.pop(0))
        return out

    def reshape(self, t, new, what='reshape'):
        """only regroupings of adjacent axes and insertions / removals of axes of size one"""
        new = list(new)
        old = t.shape
        sig_old = [k for k, d in enumerate(old) if not (isinstance(d, int) and d == 1)]
        need = sum(1 for n in new if not (isinstance(n, int) and n in (1, -1)) and not (isinstance(n, Sym) and self.is_one(n)))
        plan = []        # per new axis: ('one',) | ('axis', k) | ('merge', [k...])
        p = 0            # pointer into sig_old
        for q, n in enumerate(new):
            rest_need = sum(1 for x in new[q + 1:] if not (isinstance(x, int) and x in (1, -1)) and not (isinstance(x, Sym) and self.is_one(x)))
            if isinstance(n, int) and n == -1:
                take = len(sig_old) - p - rest_need
                # one-flagged batch axes that the remaining new axes do not ask for are merged as well
                if take < 0:
                    raise TranslateError('%s%r of %r' % (what, tuple(new), old))
                plan.append(('merge', sig_old[p:p + take]))
                p += take
            elif isinstance(n, int) and n == 1:
                plan.append(('one',))
            elif isinstance(n, Sym) and self.is_one(n):
                if p < len(sig_old) and self.deq(old[sig_old[p]], n):
                    plan.append(('axis', sig_old[p]))
                    p += 1
                else:
                    plan.append(('one',))
            else:
                # skip batch axes of size one of the old shape that are not asked for
                while p < len(sig_old) and not self.deq(old[sig_old[p]], n) and self.is_one(old[sig_old[p]]):
                    p += 1
                if p >= len(sig_old) or not self.deq(old[sig_old[p]], n):
                    raise TranslateError('%s%r of a %r array is not a regrouping of its axes' % (what, tuple(new), old))
                plan.append(('axis', sig_old[p]))
                p += 1
        while p < len(sig_old) and self.is_one(old[sig_old[p]]):
            p += 1
        if p != len(sig_old):
            raise TranslateError('%s%r of a %r array is not a regrouping of its axes' % (what, tuple(new), old))
        shape = []
        for pl, n in zip(plan, new):
            if pl[0] == 'one':
                shape.append(n if isinstance(n, Sym) else 1)
            elif pl[0] == 'axis':
                shape.append(old[pl[1]])
            else:
                shape.append(self.merge_dims([old[k] for k in pl[1]]))
        used = set(k for pl in plan if pl[0] != 'one' for k in ([pl[1]] if pl[0] == 'axis' else pl[1]))

        def fn(idx):
            full = [None] * len(old)
            for pl, i in zip(plan, idx):
                if pl[0] == 'axis':
                    full[pl[1]] = i
                elif pl[0] == 'merge':
                    for k, x in zip(pl[1], self.split_idx([old[k] for k in pl[1]], i)):
                        full[k] = x
            for k, d in enumerate(old):
                if k not in used:
                    full[k] = self.zero_idx(d)
            return t.fn(full)
        return T(shape, fn, t.kind, t.atomic)

    def repeat(self, t, reps):
        reps = list(reps)
        if len(reps) < len(t.shape):
            raise TranslateError('repeat with fewer repetitions than axes')
        while len(t.shape) < len(reps):
            t = self.unsqueeze(t, 0)
        shape, modes = [], []
        for d, r in zip(t.shape, reps):
            if self.is_one(r):
                shape.append(d); modes.append('same')
            elif self.is_one(d):
                if not isinstance(r, (int, Sym)):
                    raise TranslateError('repeat by %r' % (r,))
                shape.append(r); modes.append('bcast')
            else:
                if not isinstance(r, Sym) or not isinstance(d, (Sym, Prod)):
                    raise TranslateError('repeat of the axis %r by %r' % (d, r))
                shape.append(Prod([r] + (list(d.factors) if isinstance(d, Prod) else [d]))); modes.append('tile')

        def fn(idx):
            full = []
            for d, mo, i in zip(t.shape, modes, idx):
                if mo == 'same':
                    full.append(i)
                elif mo == 'bcast':
                    full.append(self.zero_idx(d))
                else:       # tile: the element at flat position q of r copies of the axis is element q mod |axis|
                    rest = tuple(i[1:])
                    full.append(rest if isinstance(d, Prod) else rest[0])
            return t.fn(full)
        return T(shape, fn, t.kind, t.atomic)

    def getitem(self, t, items, what):
        """basic indexing and boolean masks"""
        axis = 0
        shape, plan = [], []
        for it in items:
            if isinstance(it, T) and it.kind == 'b':
                r = len(it.shape)
                if r == 0:
                    raise TranslateError('scalar mask in ' + what)
                dims = t.shape[axis:axis + r]
                if len(dims) != r:
                    raise TranslateError('mask of rank %d on %r in %s' % (r, t.shape, what))
                for a, b in zip(dims, it.shape):
                    if not (self.deq(a, b) or (self.is_one(a) and self.is_one(b))):
                        raise TranslateError('mask of shape %r on the axes %r in %s' % (it.shape, dims, what))
                base = self.merge_dims(dims)
                mask, dims_ = it, list(dims)
                sel = Sel(base, lambda i, mask=mask, dims_=dims_: mask.fn(self.split_idx(dims_, i)))
                shape.append(sel)
                plan.append(('mask', axis, dims_))
                axis += r
            elif it is None:
                shape.append(1)
                plan.append(('new',))
            elif it == 'full':
                if axis >= len(t.shape):
                    raise TranslateError('too many indices in ' + what)
                shape.append(t.shape[axis])
                plan.append(('keep', axis))
                axis += 1
            elif isinstance(it, N):           # loop variable
                plan.append(('fix', axis, it))
                axis += 1
            elif isinstance(it, int) and not isinstance(it, bool):
                if axis >= len(t.shape):
                    raise TranslateError('too many indices in ' + what)
                d = t.shape[axis]
                if isinstance(d, int):
                    c = it + d if it < 0 else it
                    if not 0 <= c < d:
                        raise TranslateError('index %d out of range for an axis of size %d in %s' % (it, d, what))
                    plan.append(('fix', axis, c))
                elif isinstance(d, Sym) and it == 0:
                    plan.append(('fix', axis, self.c0(d)))
                else:
                    raise TranslateError('index %d into the axis %r in %s' % (it, d, what))
                axis += 1
            else:
                raise TranslateError('unsupported index in ' + what)
        for k in range(axis, len(t.shape)):
            shape.append(t.shape[k])
            plan.append(('keep', k))

        def fn(idx):
            full = [None] * len(t.shape)
            p = 0
            for pl in plan:
                if pl[0] == 'new':
                    p += 1
                elif pl[0] == 'keep':
                    full[pl[1]] = idx[p]
                    p += 1
                elif pl[0] == 'fix':
                    full[pl[1]] = pl[2]
                else:
                    for k, x in enumerate(self.split_idx(pl[2], idx[p])):
                        full[pl[1] + k] = x
                    p += 1
            return t.fn(full)
        return T(shape, fn, t.kind, t.atomic)

    def setitem(self, t, items, val, what):
        """`t[items] = val` -> the new array"""
        if len(items) == 1 and isinstance(items[0], T) and items[0].kind == 'b':
            mask = items[0]
            if len(mask.shape) > len(t.shape):
                raise TranslateError('mask of higher rank than the array in ' + what)
            while len(mask.shape) < len(t.shape):       # a mask addresses the LEADING axes
                mask = self.unsqueeze(mask, len(mask.shape))
            mask = self.broadcast_to(mask, t.shape, ' (mask of ' + what + ')')
            v = self.broadcast_to(self.as_t(val), t.shape, ' (masked store ' + what + ')')
            return T(t.shape, lambda idx: mk('ite', mask.fn(idx), v.fn(idx), t.fn(idx)), t.kind)
        # the addressed sub-array: positions of the kept axes and the fixed (component) indices
        keep, fixed, axis = [], {}, 0
        for it in items:
            if it == 'full':
                keep.append(axis)
                axis += 1
            elif isinstance(it, int) and not isinstance(it, bool):
                d = t.shape[axis] if axis < len(t.shape) else None
                if not isinstance(d, int):
                    raise TranslateError('store at the index %d of the axis %r in %s' % (it, d, what))
                c = it + d if it < 0 else it
                if not 0 <= c < d:
                    raise TranslateError('index out of range in ' + what)
                fixed[axis] = c
                axis += 1
            else:
                raise TranslateError('unsupported store ' + what)
        keep += list(range(axis, len(t.shape)))
        sub = [t.shape[k] for k in keep]
        v = self.bind(what.split('[')[0] + ''.join(str(fixed[k]) for k in sorted(fixed)),
                      self.broadcast_to(self.as_t(val), sub, ' (store ' + what + ')'))

        def fn(idx):
            for k, c in fixed.items():
                if idx[k] != c:
                    return t.fn(idx)
            return v.fn([idx[k] for k in keep])
        return T(t.shape, fn, t.kind, t.atomic and v.atomic)

    # -------------------------------------------------------------------------------------------------- numerics
    @staticmethod
    def bin(op):
        return lambda a, b: mk('bin', op, a, b)

    def sum3(self, terms):
        return mk('bin', '+', mk('bin', '+', terms[0], terms[1]), terms[2])

    def reduce3(self, t, axis, f, keepdim, what):
        axis = self.norm_axis(axis, len(t.shape), what)
        if t.shape[axis] != 3:
            raise TranslateError('%s over the axis %r (only a component axis of size 3 is reduced)' % (what, t.shape[axis]))
        shape = t.shape[:axis] + ([1] if keepdim else []) + t.shape[axis + 1:]

        def fn(idx):
            rest = idx[:axis] + idx[axis + (1 if keepdim else 0):]
            return f([t.fn(rest[:axis] + [c] + rest[axis:]) for c in range(3)])
        return T(shape, fn, t.kind)

    def matmul(self, a, b, what):
        """2-D x 2-D (mm, np.dot), batched 3-D x 3-D (bmm); 1-D . 1-D inner product"""
        if len(a.shape) == 1 and len(b.shape) == 1:
            if a.shape[0] != 3 or b.shape[0] != 3:
                raise TranslateError('inner product over %r in %s' % (a.shape[0], what))
            return T([], lambda idx: self.sum3([mk('bin', '*', a.fn([c]), b.fn([c])) for c in range(3)]))
        if len(a.shape) != len(b.shape) or len(a.shape) not in (2, 3):
            raise TranslateError('matrix product of %r and %r in %s' % (a.shape, b.shape, what))
        if a.shape[-1] != 3 or b.shape[-2] != 3:
            raise TranslateError('matrix product contracts the axes %r / %r in %s (only a component axis of size 3)' % (a.shape[-1], b.shape[-2], what))
        if len(a.shape) == 2:
            return T([a.shape[0], b.shape[1]],
                     lambda idx: self.sum3([mk('bin', '*', a.fn([idx[0], c]), b.fn([c, idx[1]])) for c in range(3)]))
        if not self.deq(a.shape[0], b.shape[0]) and not (self.is_one(a.shape[0]) and self.is_one(b.shape[0])):
            raise TranslateError('bmm of batches %r and %r in %s' % (a.shape[0], b.shape[0], what))
        bd = a.shape[0] if not isinstance(a.shape[0], int) else b.shape[0]

        def fn(idx):
            ia = idx[0] if self.deq(a.shape[0], bd) else self.zero_idx(a.shape[0])
            ib = idx[0] if self.deq(b.shape[0], bd) else self.zero_idx(b.shape[0])
            return self.sum3([mk('bin', '*', a.fn([ia, idx[1], c]), b.fn([ib, c, idx[2]])) for c in range(3)])
        return T([bd, a.shape[1], b.shape[2]], fn)

    def cross(self, a, b, what):
        shape = self.bshape(a.shape, b.shape, ' (' + what + ')')
        if not shape or shape[-1] != 3:
            raise TranslateError('cross product along an axis of size %r' % (shape[-1:] or None,))

        def fn(idx):
            def A(c):
                return a.fn(self.bidx(a.shape, shape, idx[:-1] + [c]))

            def B(c):
                return b.fn(self.bidx(b.shape, shape, idx[:-1] + [c]))
            c = idx[-1]
            p, q = (c + 1) % 3, (c + 2) % 3
            return mk('bin', '-', mk('bin', '*', A(p), B(q)), mk('bin', '*', A(q), B(p)))
        return T(shape, fn)

    def zeros(self, shape):
        z = lit('(Num.ofNat 0)')
        return T(shape, lambda idx: z, 's', True)

    def cmp(self, op, a, b, what):
        def f(x, y):
            if op == '>':
                return mk('cmp', '<', y, x)
            if op == '<':
                return mk('cmp', '<', x, y)
            if op == '>=':
                return mk('cmp', '≤', y, x)
            return mk('cmp', '≤', x, y)
        return self.ew(f, a, b, 'b', what)


# ====================================================================================================== interpreter
MODULES = ('np', 'numpy', 'torch', 'math')
NAN = '(Num.nan)'


def is_module_func(func):
    n = func
    while isinstance(n, ast.Attribute):
        n = n.value
    return isinstance(n, ast.Name) and n.id in MODULES


def is_dim(v):
    return (isinstance(v, int) and not isinstance(v, bool)) or isinstance(v, (Sym, Prod, Sel, Acc, Cat, Flat))


class RegDef:
    """a generated definition a call can refer to: `params` [(python name, layout, struct)], `outs` [(position in the returned tuple or
    None, layout, {component: field path})]"""

    def __init__(self, lean, params, outs, index_syms):
        self.lean, self.params, self.outs, self.index_syms = lean, params, outs, index_syms


class Interp:
    def __init__(self, eng, env, fname, rel):
        self.e, self.env, self.fname, self.rel = eng, dict(env), fname, rel

    # -------------------------------------------------------------------------------------------------- helpers
    def as_shape(self, v, what):
        if is_dim(v):
            return [v]
        if isinstance(v, (list, tuple)):
            out = []
            for x in v:
                if not is_dim(x):
                    raise TranslateError('shape entry %r in %s' % (x, what))
                out.append(x)
            return out
        raise TranslateError('shape %r in %s' % (v, what))

    def shape_args(self, args, what):
        if len(args) == 1 and isinstance(args[0], (list, tuple)):
            return self.as_shape(args[0], what)
        return self.as_shape(list(args), what)

    def scalar_fn1(self, name):
        return lambda a: mk('fn1', name, a)

    def sig(self, shape):
        return [d for d in shape if not self.e.is_one(d)]

    def layout_matches(self, shape, layout):
        want = [x for x in layout if (isinstance(x, int) and x != 1) or (isinstance(x, str) and self.e.world.get(x, 'many') == 'many')]
        got = self.sig(shape)
        if len(want) != len(got):
            return False
        for w, g in zip(want, got):
            if isinstance(w, int):
                if g != w:
                    return False
            elif not (isinstance(g, Sym) and g.name == w):
                return False
        return True

    # -------------------------------------------------------------------------------------------------- expressions
    def ev(self, node):
        e = self.e
        if isinstance(node, ast.Constant):
            return node.value
        if isinstance(node, ast.Name):
            if node.id in self.env:
                v = self.env[node.id]
                if isinstance(v, tuple) and v and v[0] == 'poison':
                    raise TranslateError('%s is not available here (%s)' % (node.id, v[1]))
                return v
            raise TranslateError('unknown name %s in %s' % (node.id, self.fname))
        if isinstance(node, ast.Attribute):
            src = ast.unparse(node)
            if src in ('np.nan', 'math.nan', 'torch.nan', 'numpy.nan'):
                return T([], lambda idx: lit(NAN), 's', True)
            if is_module_func(node):
                return Opaque()
            v = self.ev(node.value)
            if isinstance(v, Opaque):
                return Opaque()
            if isinstance(v, T):
                if node.attr == 'shape':
                    return Shape(v.shape)
                if node.attr == 'T':
                    return e.transpose(v)
                if node.attr in ('device', 'dtype'):
                    return Opaque()
                if node.attr == 'ndim':
                    return len(v.shape)
            raise TranslateError('unsupported attribute ' + src)
        if isinstance(node, ast.UnaryOp):
            a = self.ev(node.operand)
            if isinstance(node.op, ast.USub):
                if isinstance(a, (int, float)) and not isinstance(a, bool):
                    return -a
                if isinstance(a, T):
                    return e.ew1(lambda x: mk('neg', x), a)
            if isinstance(node.op, (ast.Not, ast.Invert)):
                if isinstance(a, bool):
                    return not a
                if isinstance(a, T) and a.kind == 'b':
                    return e.ew1(mknot, a)
            raise TranslateError('unsupported unary ' + ast.unparse(node))
        if isinstance(node, ast.BinOp):
            return self.binop(node)
        if isinstance(node, ast.BoolOp):
            vals = [self.ev(x) for x in node.values]
            if all(isinstance(v, bool) for v in vals):
                return all(vals) if isinstance(node.op, ast.And) else any(vals)
            if all(isinstance(v, T) and v.kind == 'b' for v in vals):
                op = 'and' if isinstance(node.op, ast.And) else 'or'
                r = vals[0]
                for v in vals[1:]:
                    r = e.ew(lambda x, y, op=op: mk(op, x, y), r, v, 'b')
                return r
            raise TranslateError('unsupported boolean expression ' + ast.unparse(node))
        if isinstance(node, ast.Compare):
            return self.compare(node)
        if isinstance(node, ast.IfExp):
            t = self.ev(node.test)
            if isinstance(t, bool):
                return self.ev(node.body if t else node.orelse)
            raise TranslateError('data-dependent conditional expression ' + ast.unparse(node))
        if isinstance(node, (ast.List, ast.Tuple)):
            return PList(self.ev(x) for x in node.elts)
        if isinstance(node, ast.Subscript):
            return self.subscript(node)
        if isinstance(node, ast.Call):
            return self.call(node)
        if isinstance(node, ast.ListComp):
            return self.listcomp(node)
        raise TranslateError('unsupported expression ' + ast.unparse(node))

    def binop(self, node):
        e = self.e
        src = ast.unparse(node)
        if isinstance(node.op, ast.Pow):
            a = self.ev(node.left)
            p = node.right
            if isinstance(a, T) and isinstance(p, ast.Constant) and isinstance(p.value, int) and not isinstance(p.value, bool) and 1 <= p.value <= 4:
                k = p.value

                def f(x):
                    r = x
                    for _ in range(k - 1):
                        r = mk('bin', '*', r, x)
                    return r
                return e.ew1(f, a)
            if isinstance(a, T) and isinstance(p, ast.Constant) and p.value == 0.5:
                return e.ew1(self.scalar_fn1('Num.sqrt'), a)
            raise TranslateError('unsupported power ' + src)
        a, b = self.ev(node.left), self.ev(node.right)
        if isinstance(node.op, ast.BitAnd) and isinstance(a, T) and isinstance(b, T) and a.kind == 'b' and b.kind == 'b':
            return e.ew(lambda x, y: mk('and', x, y), a, b, 'b')
        if isinstance(node.op, ast.Add) and isinstance(a, (list, tuple)) and isinstance(b, (list, tuple)):
            return Shape(self.as_shape(a, src) + self.as_shape(b, src))
        if isinstance(a, LoopIdx) and isinstance(node.op, (ast.Add, ast.Sub)) and isinstance(b, int) and not isinstance(b, bool):
            return LoopIdx(a.node, a.sym, a.off + (b if isinstance(node.op, ast.Add) else -b))
        if isinstance(a, CountVar) and isinstance(node.op, ast.Mult) and isinstance(b, int) and not isinstance(b, bool):
            return CountVar(a.rc, a.factor * b)
        if isinstance(b, CountVar) and isinstance(node.op, ast.Mult) and isinstance(a, int) and not isinstance(a, bool):
            return CountVar(b.rc, b.factor * a)
        num = lambda v: isinstance(v, (int, float)) and not isinstance(v, bool)
        for t, o in ((ast.Add, '+'), (ast.Sub, '-'), (ast.Mult, '*'), (ast.Div, '/')):
            if isinstance(node.op, t):
                if num(a) and num(b):
                    return {'+': a + b, '-': a - b, '*': a * b}[o] if o != '/' else a / b
                if (isinstance(a, T) or num(a)) and (isinstance(b, T) or num(b)):
                    ta, tb = e.as_t(a), e.as_t(b)
                    if ta.kind != 's' or tb.kind != 's':
                        raise TranslateError('arithmetic on booleans in ' + src)
                    return e.ew(e.bin(o), ta, tb, 's', ' in ' + src)
        raise TranslateError('unsupported operator in ' + src)

    def compare(self, node):
        e = self.e
        src = ast.unparse(node)
        if len(node.ops) != 1:
            raise TranslateError('chained comparison ' + src)
        op = node.ops[0]
        l, r = self.ev(node.left), self.ev(node.comparators[0])
        if isinstance(op, (ast.Is, ast.IsNot)):
            if r is None:
                return (l is None) if isinstance(op, ast.Is) else (l is not None)
            raise TranslateError('unsupported comparison ' + src)
        if isinstance(l, PType) and isinstance(r, PType):
            if isinstance(op, ast.Eq):
                return l == r
            if isinstance(op, ast.NotEq):
                return l != r
        if isinstance(l, tuple) and l and l[0] == 'numel' and isinstance(op, ast.Gt) and r == 0:
            return ('nonempty', l[1])
        num = lambda v: isinstance(v, (int, float)) and not isinstance(v, bool)
        if num(l) and num(r):
            return {ast.Eq: l == r, ast.NotEq: l != r, ast.Lt: l < r, ast.LtE: l <= r, ast.Gt: l > r, ast.GtE: l >= r}[type(op)]
        if is_dim(l) and num(r):
            return self.dim_compare(l, op, r, src)
        if isinstance(l, T) and l.kind == 'b' and isinstance(r, bool) and isinstance(op, ast.Eq):
            return l if r else e.ew1(mknot, l)
        if isinstance(l, bool) and isinstance(r, bool) and isinstance(op, ast.Eq):
            return l == r
        if (isinstance(l, T) or num(l)) and (isinstance(r, T) or num(r)):
            for t, o in ((ast.Gt, '>'), (ast.Lt, '<'), (ast.GtE, '>='), (ast.LtE, '<=')):
                if isinstance(op, t):
                    return e.cmp(o, e.as_t(l), e.as_t(r), ' in ' + src)
        raise TranslateError('unsupported comparison ' + src)

    def dim_compare(self, d, op, c, src):
        e = self.e
        if isinstance(d, Sym):
            one = e.is_one(d)
            if isinstance(op, ast.Eq) and c == 1:
                return one
            if isinstance(op, ast.NotEq) and c == 1:
                return not one
            if isinstance(op, ast.Gt) and c == 0:
                return True
            if isinstance(op, ast.Gt) and c == 1:
                return not one
            if isinstance(op, ast.Eq) and c == 0:
                return False
            if one:
                return {ast.Eq: 1 == c, ast.NotEq: 1 != c, ast.Lt: 1 < c, ast.LtE: 1 <= c, ast.Gt: 1 > c, ast.GtE: 1 >= c}[type(op)]
            raise TranslateError('the test `%s` on a batch size' % src)
        if isinstance(d, (Sel, Flat, Cat, Prod)) and isinstance(op, ast.Gt) and c == 0:
            return Maybe(d)
        raise TranslateError('the test `%s` on the size %r' % (src, d))

    def items_of(self, sl):
        """subscript of an array -> list of items for Engine.getitem"""
        out = []
        for x in (sl.elts if isinstance(sl, ast.Tuple) else [sl]):
            if isinstance(x, ast.Slice):
                if x.lower is None and x.upper is None and x.step is None:
                    out.append('full')
                    continue
                raise TranslateError('unsupported slice ' + ast.unparse(x))
            v = self.ev(x)
            if isinstance(v, LoopIdx):
                if v.off == 0:
                    out.append(v.node)
                elif v.off == -1:       # Python wraps the index -1 of the first pass around to the last row
                    out.append(mk('prev', v.node, v.sym.name))
                else:
                    raise TranslateError('row %+d relative to the loop counter' % v.off)
            elif v is None or (isinstance(v, int) and not isinstance(v, bool)) or (isinstance(v, T) and v.kind == 'b'):
                out.append(v)
            elif isinstance(v, bool):
                raise TranslateError('boolean index')
            else:
                raise TranslateError('unsupported index ' + ast.unparse(x))
        return out

    def subscript(self, node):
        src = ast.unparse(node)
        base = self.ev(node.value)
        if isinstance(base, T):
            return self.e.getitem(base, self.items_of(node.slice), src)
        if isinstance(base, (list, tuple)):
            if isinstance(node.slice, ast.Slice):
                lo = self.ev(node.slice.lower) if node.slice.lower is not None else None
                hi = self.ev(node.slice.upper) if node.slice.upper is not None else None
                return type(base)(base[lo:hi]) if isinstance(base, (Shape, PList)) else base[lo:hi]
            i = self.ev(node.slice)
            if isinstance(i, int) and not isinstance(i, bool) and -len(base) <= i < len(base):
                return base[i]
        raise TranslateError('unsupported subscript ' + src)

    def listcomp(self, node):
        src = ast.unparse(node)
        if len(node.generators) != 1 or not isinstance(node.generators[0].target, ast.Name):
            raise TranslateError('unsupported comprehension ' + src)
        g = node.generators[0]
        it = self.ev(g.iter)
        name = g.target.id
        saved = self.env.get(name)
        try:
            if isinstance(it, RowCounts):
                if g.ifs:
                    raise TranslateError('filtered comprehension over the counts ' + src)
                self.env[name] = CountVar(it, it.factor)
                r = self.ev(node.elt)
                if not isinstance(r, CountVar):
                    raise TranslateError('unsupported comprehension ' + src)
                return RowCounts(it.t, r.factor)
            if isinstance(it, Groups):
                gv = GroupVar(it, it.viewed)
                self.env[name] = gv
                nonempty = it.nonempty
                for c in g.ifs:
                    t = self.ev(c)
                    if not (isinstance(t, tuple) and t[0] == 'nonempty' and t[1] is gv):
                        raise TranslateError('unsupported filter in ' + src)
                    nonempty = True
                r = self.ev(node.elt)
                if not isinstance(r, GroupVar) or r.groups is not it:
                    raise TranslateError('unsupported comprehension ' + src)
                return Groups(it.counts, it.sel, r.viewed, nonempty)
            raise TranslateError('unsupported comprehension ' + src)
        finally:
            if saved is None:
                self.env.pop(name, None)
            else:
                self.env[name] = saved

    # -------------------------------------------------------------------------------------------------- calls
    def call(self, node):
        e = self.e
        src = ast.unparse(node)
        f = ast.unparse(node.func)
        kws = {k.arg: k.value for k in node.keywords if k.arg not in IGNORED_KW}
        if f == 'float' and len(node.args) == 1 and isinstance(node.args[0], ast.Constant) and node.args[0].value == 'nan':
            return T([], lambda idx: lit(NAN), 's', True)
        if f == 'isinstance' and len(node.args) == 2:
            v = self.ev(node.args[0])
            cls = ast.unparse(node.args[1])
            if cls in ('torch.Tensor', 'np.ndarray'):
                return isinstance(v, T)
            if cls == 'type(None)':
                return v is None
            raise TranslateError('unsupported isinstance ' + src)
        if f == 'type' and len(node.args) == 1:
            v = self.ev(node.args[0])
            return PType('None' if v is None else 'array' if isinstance(v, T) else type(v).__name__)
        # ---- methods
        if isinstance(node.func, ast.Attribute) and not is_module_func(node.func):
            recv = self.ev(node.func.value)
            args = [self.ev(a) for a in node.args]
            return self.method(recv, node.func.attr, args, kws, src)
        args = [self.ev(a) for a in node.args]
        if isinstance(node.func, ast.Name) and node.func.id not in ('len', 'int', 'max', 'abs', 'float', 'type', 'isinstance'):
            target = e.resolve(self.rel, node.func.id)
            if target is None:
                raise TranslateError('call of the unknown function %s in %s' % (node.func.id, self.fname))
            kwv = {k: self.ev(v) for k, v in kws.items()}
            return self.call_function(target, args, kwv, src)
        return self.builtin(f, args, kws, src)

    def method(self, recv, m, args, kws, src):
        e = self.e
        if isinstance(recv, Opaque):
            if m == 'get_triangles' and '__triangles__' in self.env:
                return self.env['__triangles__']
            raise TranslateError('unsupported call ' + src)
        if isinstance(recv, GroupVar):
            if m == 'numel' and not args:
                return ('numel', recv)
            if m == 'view':
                want = self.shape_args(args, src)
                if want[:1] != [-1] or want[1:] != recv.groups.sel.core:
                    raise TranslateError('%s: the groups hold rows of shape %r' % (src, recv.groups.sel.core))
                return GroupVar(recv.groups, True)
            raise TranslateError('unsupported call ' + src)
        if isinstance(recv, RowCounts) and m == 'tolist':
            return recv
        if not isinstance(recv, T):
            raise TranslateError('unsupported call ' + src)
        t = recv
        if m in LAYOUT_IDENT:
            return t
        if m == 'unsqueeze' and len(args) == 1:
            return e.unsqueeze(t, args[0])
        if m == 'squeeze':
            return e.squeeze(t, args[0] if args else None)
        if m in ('view', 'reshape'):
            return e.reshape(t, self.shape_args(args, src), m)
        if m == 'permute':
            return e.permute(t, args[0] if len(args) == 1 and isinstance(args[0], (list, tuple)) else args)
        if m == 'transpose' and len(args) == 2:
            ax = list(range(len(t.shape)))
            a, b = e.norm_axis(args[0], len(ax), src), e.norm_axis(args[1], len(ax), src)
            ax[a], ax[b] = ax[b], ax[a]
            return e.permute(t, ax)
        if m == 'repeat':
            return e.repeat(t, self.shape_args(args, src))
        if m == 'expand':
            want = self.shape_args(args, src)
            if len(want) < len(t.shape):
                raise TranslateError('unsupported expand ' + src)
            cur = [1] * (len(want) - len(t.shape)) + t.shape
            return e.broadcast_to(t, [c if w == -1 else w for w, c in zip(want, cur)], ' in ' + src)
        if m == 'flatten' and not args:
            return e.reshape(t, [-1], 'flatten')
        if m == 'size':
            if not args:
                return Shape(t.shape)
            return t.shape[e.norm_axis(args[0], len(t.shape), src)]
        if m == 'dim' and not args:
            return len(t.shape)
        if m == 'abs' and not args:
            return e.ew1(self.scalar_fn1('Num.abs'), t)
        if m == 'sum':
            ax = kws.get('dim', kws.get('axis'))
            ax = self.ev(ax) if ax is not None else (args[0] if args else None)
            return self.total(t, ax, src)
        raise TranslateError('unsupported method ' + src)

    def total(self, t, ax, src):
        e = self.e
        if t.kind == 'b':
            if len(t.shape) != 2 or ax is None or e.norm_axis(ax, 2, src) != 1:
                raise TranslateError('%s: only the row counts of a [K, M] boolean array are modelled' % src)
            return RowCounts(t)
        if ax is None:
            if len(t.shape) != 1:
                raise TranslateError('%s: total of a %r array' % (src, t.shape))
            ax = 0
        return e.reduce3(t, ax, e.sum3, False, src)

    def builtin(self, f, args, kws, src):
        e = self.e
        kw = lambda *names: next((self.ev(kws[n]) for n in names if n in kws), None)
        if f == 'len' and len(args) == 1:
            if isinstance(args[0], T):
                if not args[0].shape:
                    raise TranslateError('len of a scalar')
                return args[0].shape[0]
            if isinstance(args[0], (list, tuple)):
                return len(args[0])
        if f in ('int', 'np.int64') and len(args) == 1 and is_dim(args[0]):
            return args[0]
        if f in IDENT_FUNCS and len(args) == 1:
            return args[0]
        if f in ('torch.amax', 'np.amax', 'np.max', 'max', 'torch.max') and len(args) == 1 and isinstance(args[0], (list, tuple)) \
                and args[0] and all(is_dim(x) for x in args[0]):
            r = args[0][0]
            for x in args[0][1:]:
                r = e.dim_max(r, x)
            return r
        if f in ('np.zeros', 'torch.zeros', 'torch.empty', 'np.empty'):
            return e.zeros(self.shape_args(args, src))
        if f in ('np.zeros_like', 'torch.zeros_like') and len(args) == 1 and isinstance(args[0], T):
            return e.zeros(args[0].shape)
        if f in ('np.reshape', 'torch.reshape') and len(args) == 2 and isinstance(args[0], T):
            return e.reshape(args[0], self.as_shape(args[1], src))
        if f in ('torch.unsqueeze', 'np.expand_dims') and len(args) == 2 and isinstance(args[0], T):
            return e.unsqueeze(args[0], args[1])
        if f in ('np.subtract', 'torch.subtract', 'torch.sub', 'np.add', 'torch.add', 'np.multiply', 'torch.mul', 'torch.multiply') and len(args) == 2:
            o = '-' if 'sub' in f else '+' if 'add' in f else '*'
            return e.ew(e.bin(o), args[0], args[1], 's', ' in ' + src)
        if f in ('torch.mm', 'torch.bmm', 'torch.matmul', 'np.matmul', 'np.dot', 'torch.dot', 'np.inner') and len(args) == 2 \
                and all(isinstance(a, T) for a in args):
            if f == 'torch.mm' and (len(args[0].shape) != 2 or len(args[1].shape) != 2):
                raise TranslateError('torch.mm of %r and %r' % (args[0].shape, args[1].shape))
            if f == 'torch.bmm' and (len(args[0].shape) != 3 or len(args[1].shape) != 3):
                raise TranslateError('torch.bmm of %r and %r' % (args[0].shape, args[1].shape))
            return e.matmul(args[0], args[1], src)
        if f in ('np.cross', 'torch.cross', 'torch.linalg.cross') and len(args) == 2:
            return e.cross(args[0], args[1], src)
        if f in ('np.linalg.norm', 'torch.linalg.norm', 'torch.norm') and len(args) == 1 and isinstance(args[0], T):
            extra = set(kws) - {'axis', 'dim', 'keepdims', 'keepdim'}
            if extra:
                raise TranslateError('unsupported norm ' + src)
            ax = kw('axis', 'dim')
            keep = bool(kw('keepdims', 'keepdim'))
            if ax is None:
                if len(args[0].shape) != 1:
                    raise TranslateError('norm of a whole %r array in %s' % (args[0].shape, src))
                ax = 0
            return e.reduce3(args[0], ax, lambda xs: mk('fn1', 'Num.sqrt', e.sum3([mk('bin', '*', x, x) for x in xs])), keep, src)
        if f in ('np.mean', 'torch.mean') and len(args) == 1 and isinstance(args[0], T):
            ax = kw('axis', 'dim')
            if ax is None:
                raise TranslateError('mean of a whole array in ' + src)
            return e.reduce3(args[0], ax, lambda xs: mk('bin', '/', e.sum3(xs), lit('(Num.ofNat 3)')), bool(kw('keepdims', 'keepdim')), src)
        if f in ('np.sum', 'torch.sum') and len(args) >= 1 and isinstance(args[0], T):
            ax = kw('axis', 'dim')
            if ax is None and len(args) == 2:
                ax = args[1]
            return self.total(args[0], ax, src)
        if f in ('np.sqrt', 'torch.sqrt', 'math.sqrt') and len(args) == 1 and isinstance(args[0], T):
            return e.ew1(self.scalar_fn1('Num.sqrt'), args[0])
        if f in ('np.abs', 'torch.abs', 'abs', 'np.absolute') and len(args) == 1 and isinstance(args[0], T):
            return e.ew1(self.scalar_fn1('Num.abs'), args[0])
        if f in ('torch.nan_to_num', 'np.nan_to_num') and len(args) == 1:
            targets = {k: ast.unparse(v) for k, v in kws.items()}
            if set(targets) == {'nan', 'posinf', 'neginf'} and all(t in ("float('nan')", 'np.nan', 'torch.nan') for t in targets.values()):
                e.notes.append('nan_to_num(nan, +inf, -inf -> nan) is the identity up to the kind of non-finite value')
                return args[0]
            raise TranslateError('nan_to_num with finite replacement values: ' + src)
        if f in ('np.nonzero', 'torch.nonzero') and len(args) == 1 and isinstance(args[0], T) and args[0].kind == 'b':
            return args[0]          # only ever used as the index of a store: the mask itself
        if f == 'torch.masked_select' and len(args) == 2:
            return self.masked_select(args[0], args[1], src)
        if f == 'torch.split' and len(args) == 2:
            sel, rc = args
            if not isinstance(sel, Selected) or not isinstance(rc, RowCounts):
                raise TranslateError('unsupported split ' + src)
            if rc.factor != sel.numel():
                raise TranslateError('%s: chunks of %d x count elements, but a row has %d elements' % (src, rc.factor, sel.numel()))
            return Groups(rc, sel)
        if f in ('torch.cat', 'np.concatenate') and len(args) == 1 and isinstance(args[0], (list, tuple)):
            d = kw('dim', 'axis')
            if d not in (None, 0):
                raise TranslateError('unsupported cat ' + src)
            return self.cat(list(args[0]), src)
        raise TranslateError('unsupported call ' + src)

    def masked_select(self, x, mask, src):
        e = self.e
        if not (isinstance(x, T) and isinstance(mask, T) and mask.kind == 'b' and x.shape):
            raise TranslateError('unsupported masked_select ' + src)
        core = x.shape[1:]
        if not all(isinstance(c, int) for c in core):
            raise TranslateError('masked_select of a %r array' % (x.shape,))
        m = e.broadcast_to(mask, x.shape, ' in ' + src)
        i0 = e.canon_idx(x.shape[0], set())
        vals = set(id(e.expand(m.fn([i0] + list(c)))) for c in itertools.product(*[range(c) for c in core]))
        if len(vals) != 1:
            raise TranslateError('%s: the mask is not constant over the components of a row' % src)
        zero = [0] * len(core)
        d = Sel(x.shape[0], lambda i: m.fn([i] + zero))
        return Selected(T([d] + core, x.fn, x.kind, x.atomic), core)

    def cat(self, ts, src):
        e = self.e
        if not ts or not all(isinstance(t, T) and t.shape for t in ts):
            raise TranslateError('unsupported cat ' + src)
        tail = ts[0].shape[1:]
        for t in ts:
            if len(t.shape) != len(tail) + 1 or not all(e.deq(a, b) for a, b in zip(t.shape[1:], tail)):
                raise TranslateError('cat of arrays with rows of different shape in ' + src)
        ts = [t for t in ts if not (isinstance(t.shape[0], int) and t.shape[0] == 0)]
        if not ts:
            return T([0] + tail, lambda idx: lit('(Num.ofNat 0)'), 's', True)
        if len(ts) == 1:
            return ts[0]
        parts = list(ts)
        return T([Cat([t.shape[0] for t in parts])] + tail, lambda idx: parts[idx[0][0]].fn([idx[0][1]] + idx[1:]), parts[0].kind,
                 all(t.atomic for t in parts))

    def call_function(self, target, args, kwv, src):
        e = self.e
        rel, fn = target
        name = fn.name
        params = fn.args.args
        if params and params[0].arg == 'self':
            params = params[1:]
        defaults = fn.args.defaults
        off = len(fn.args.args) - len(defaults)
        env = {}
        for i, a in enumerate(params):
            k = i + (len(fn.args.args) - len(params))
            if i < len(args):
                env[a.arg] = args[i]
            elif a.arg in kwv:
                env[a.arg] = kwv[a.arg]
            elif k >= off and isinstance(defaults[k - off], ast.Constant):
                env[a.arg] = defaults[k - off].value
            else:
                raise TranslateError('argument %s of %s is missing in %s' % (a.arg, name, src))
        if len(args) > len(params) or set(kwv) - set(a.arg for a in params):
            raise TranslateError('unexpected arguments in ' + src)
        if e.depth > 8:
            raise TranslateError('call depth in ' + src)
        sub = Interp(e, env, name, rel)
        e.depth += 1
        try:
            sub.exec_block(fn.body)
            raise TranslateError('%s: no return statement' % name)
        except Returned as r:
            res = r.value
        finally:
            e.depth -= 1
        for rd in e.registry.get((rel, name), []):
            w = self.reference(rd, params, env, res)
            if w is not None:
                return w
        return res

    def reference(self, rd, params, env, res):
        """the result of the inlined call, re-expressed as a reference to the generated definition `rd` (None if the layouts differ)"""
        e = self.e
        given = [a.arg for a in params if not (env.get(a.arg) is None)]
        if given != [p for p, _, _ in rd.params]:
            return None
        argts = []
        for p, layout, struct in rd.params:
            t = env[p]
            if not isinstance(t, T) or not self.layout_matches(t.shape, layout):
                return None
            argts.append(t)
        items = res if isinstance(res, (list, tuple)) else [res]
        for pos, layout, paths in rd.outs:
            k = 0 if pos is None else pos
            if (pos is None and isinstance(res, (list, tuple))) or k >= len(items) or not isinstance(items[k], T) \
                    or not self.layout_matches(items[k].shape, layout):
                return None
        cid = len(e.calls)
        e.calls[cid] = {'def': rd, 'args': argts}
        out = list(items)
        for pos, layout, paths in rd.outs:
            k = 0 if pos is None else pos
            t = items[k]
            shape = list(t.shape)

            def fn(idx, t=t, shape=shape, paths=paths):
                atoms, comp = [], []
                for s in rd.index_syms:
                    hit = [i for d, i in zip(shape, idx) if isinstance(d, Sym) and d.name == s.name]
                    atoms.append(hit[0] if hit else e.c0(s))
                for d, i in zip(shape, idx):
                    if isinstance(d, int) and d != 1:
                        comp.append(i)
                return mk('call', cid, tuple(atoms), paths[tuple(comp)], t.fn(idx))
            out[k] = T(shape, fn, t.kind, True)
        return PList(out) if isinstance(res, (list, tuple)) else out[0]

    # -------------------------------------------------------------------------------------------------- statements
    def assign_name(self, name, val):
        if isinstance(val, T):
            val = self.e.bind(name, val)
        elif isinstance(val, PList):
            val = PList(self.e.bind('%s%d' % (name, i), x) if isinstance(x, T) else x for i, x in enumerate(val))
        self.env[name] = val

    def exec_block(self, stmts):
        for k, st in enumerate(stmts):
            if isinstance(st, ast.Expr):
                if isinstance(st.value, ast.Constant):
                    continue
                raise TranslateError('unsupported expression statement ' + ast.unparse(st)[:60])
            if isinstance(st, ast.Return):
                raise Returned(self.ev(st.value) if st.value is not None else None)
            if isinstance(st, ast.Assign) and len(st.targets) == 1:
                t = st.targets[0]
                if isinstance(t, ast.Name):
                    self.assign_name(t.id, self.ev(st.value))
                    continue
                if isinstance(t, ast.Subscript) and isinstance(t.value, ast.Name):
                    base = self.ev(t.value)
                    if not isinstance(base, T):
                        raise TranslateError('unsupported store ' + ast.unparse(t))
                    self.env[t.value.id] = self.e.setitem(base, self.items_of(t.slice), self.ev(st.value), ast.unparse(t))
                    continue
                if isinstance(t, ast.Tuple) and all(isinstance(x, ast.Name) for x in t.elts):
                    v = self.ev(st.value)
                    if not isinstance(v, (list, tuple)) or len(v) != len(t.elts):
                        raise TranslateError('unsupported unpacking ' + ast.unparse(st)[:80])
                    for x, y in zip(t.elts, v):
                        self.assign_name(x.id, y)
                    continue
            if isinstance(st, ast.If):
                return self.exec_if(st, stmts[k + 1:])
            if isinstance(st, ast.For):
                self.exec_for(st)
                continue
            raise TranslateError('unsupported statement ' + ast.unparse(st)[:80])

    def fork(self):
        return Interp(self.e, self.env, self.fname, self.rel)

    def exec_if(self, st, rest):
        t = self.ev(st.test)
        if isinstance(t, bool):
            return self.exec_block((st.body if t else st.orelse) + rest)
        if isinstance(t, Maybe):
            # `if x.shape[0] > 0:` guarding only `acc = torch.cat((acc, y))` with as many rows in y as in x: a no-op when empty
            if st.orelse:
                raise TranslateError('`%s` with an else branch' % ast.unparse(st.test))
            for s in st.body:
                ok = isinstance(s, ast.Assign) and len(s.targets) == 1 and isinstance(s.targets[0], ast.Name) and \
                    isinstance(s.value, ast.Call) and ast.unparse(s.value.func) in ('torch.cat', 'np.concatenate')
                if not ok:
                    raise TranslateError('`%s` guards something else than an accumulation by cat' % ast.unparse(st.test))
                v = self.ev(s.value)
                if not (isinstance(v, T) and isinstance(v.shape[0], Cat) and len(v.shape[0].parts) == 2 and
                        isinstance(v.shape[0].parts[0], Acc) and v.shape[0].parts[0].name == s.targets[0].id and
                        self.e.deq(v.shape[0].parts[1], t.dim)):
                    raise TranslateError('`%s` guards an accumulation of a different number of rows' % ast.unparse(st.test))
                self.env[s.targets[0].id] = v
            return self.exec_block(rest)
        if isinstance(t, T) and t.kind == 'b' and not t.shape:
            res = []
            for arm in (st.body, st.orelse):
                f = self.fork()
                n0 = len(self.e.order)
                try:
                    f.exec_block(arm + rest)
                    raise TranslateError('data-dependent branch `%s` without a return on every path' % ast.unparse(st.test))
                except Returned as r:
                    res.append((r.value, len(self.e.order) - n0))
            (a, _), (b, _) = res
            c = t.fn([])
            if a is True and b is False:
                raise Returned(t)
            if a is False and b is True:
                raise Returned(self.e.ew1(mknot, t))
            zero = lambda v: isinstance(v, (list, tuple)) and all(x == 0 and not isinstance(x, bool) for x in v)
            if zero(a) and not zero(b):
                raise Returned(Guarded(self.e.ew1(mknot, t), b))
            if zero(b) and not zero(a):
                raise Returned(Guarded(t, a))
            raise TranslateError('unsupported results of the data-dependent branch `%s`' % ast.unparse(st.test))
        raise TranslateError('unsupported test ' + ast.unparse(st.test))

    def exec_for(self, st):
        """`for row in array:` with accumulators `acc = torch.cat((acc, rows))`"""
        e = self.e
        src = 'for %s in %s' % (ast.unparse(st.target), ast.unparse(st.iter))
        target, counter, iter_node = st.target, None, st.iter
        if isinstance(target, ast.Tuple) and len(target.elts) == 2 and all(isinstance(x, ast.Name) for x in target.elts) and \
                isinstance(iter_node, ast.Call) and ast.unparse(iter_node.func) == 'enumerate' and len(iter_node.args) == 1 and not iter_node.keywords:
            counter, target, iter_node = target.elts[0].id, target.elts[1], iter_node.args[0]
        if st.orelse or not isinstance(target, ast.Name):
            raise TranslateError('unsupported loop ' + src)
        it = self.ev(iter_node)
        if not (isinstance(it, T) and it.shape and isinstance(it.shape[0], Sym)):
            raise TranslateError('%s: only loops over the first (batch) axis of an array are modelled' % src)
        s = it.shape[0]
        if any(a.args[0] == s.var for a, _ in e.ambient):
            raise TranslateError('nested loops over the same axis')
        j = var(s.var, s.name)
        assigned = set()
        for n in ast.walk(ast.Module(body=st.body, type_ignores=[])):
            if isinstance(n, ast.Name) and isinstance(n.ctx, ast.Store):
                assigned.add(n.id)
        carried = sorted(a for a in assigned if a in self.env)
        before = dict(self.env)
        for a in carried:
            v = self.env[a]
            if not (isinstance(v, T) and v.shape):
                raise TranslateError('%s: the loop-carried %s is not an array' % (src, a))
            self.env[a] = T([Acc(a)] + v.shape[1:], v.fn, v.kind, True)
        self.env[target.id] = e.getitem(it, [j], src)
        if counter is not None:
            self.env[counter] = LoopIdx(j, s)
        e.ambient.append((j, s))
        try:
            self.exec_block(st.body)
        except Returned:
            raise TranslateError('return inside ' + src)
        finally:
            e.ambient.pop()
        after = self.env
        self.env = dict(before)
        for a in assigned:
            if a not in carried:
                self.env[a] = ('poison', 'assigned inside `%s`' % src)
        if counter is not None:
            self.env[counter] = ('poison', 'the counter of `%s`' % src)
        for a in carried:
            v, init = after[a], before[a]
            if not (isinstance(v, T) and v.shape and isinstance(v.shape[0], Cat) and len(v.shape[0].parts) == 2 and
                    isinstance(v.shape[0].parts[0], Acc) and v.shape[0].parts[0].name == a):
                raise TranslateError('%s: %s is not accumulated by `%s = torch.cat((%s, rows))`' % (src, a, a, a))
            if not (isinstance(init.shape[0], int) and init.shape[0] == 0):
                raise TranslateError('%s: %s does not start empty' % (src, a))
            inner = v.shape[0].parts[1]

            def fn(idx, v=v):
                jj, sub = idx[0]
                if jj is not j:
                    raise TranslateError('internal: loop rows read at another iteration')
                return v.fn([(1, sub)] + idx[1:])
            self.env[a] = T([Flat(s, inner)] + v.shape[1:], fn, v.kind, v.atomic)
