"""Regenerates Generated/Colour.lean: the colour-conversion functions of
odak/learn/perception/color_conversion.py translated statement by statement by a small symbolic tensor
interpreter (values are scalars, 3-channel vectors or 3x3 matrices of Lean terms over [Num α])."""
import ast
import os
from .pyexpr import TranslateError, find_function
from .constants import sci

REPO = os.environ.get('ODAK_REPO', '/repo')
FILE = 'Colour.lean'
SRC = 'odak/learn/perception/color_conversion.py'
IDENT = ('permute', 'reshape', 'unsqueeze', 'squeeze', 'to', 'double', 'float', 'clone', 'detach', 'contiguous')


class Interp:
    def __init__(self, fn, inputs):
        self.fn = fn
        self.env = dict(inputs)       # name -> value
        self.lets = []                # (lean name, lean expr)
        self.counter = 0

    # ---- values
    def bind(self, base, val):
        """name every component with a let so later uses stay small"""
        self.counter += 1
        tag = '%s_%d' % (base, self.counter)
        if val[0] == 'o':
            return val
        if val[0] == 's':
            self.lets.append((tag, val[1]))
            return ('s', tag)
        if val[0] == 'v':
            names = []
            for k, e in enumerate(val[1]):
                self.lets.append(('%s_%d' % (tag, k), e))
                names.append('%s_%d' % (tag, k))
            return ('v', names)
        return val

    def lift(self, a, b):
        if a[0] == 'v' and b[0] == 'v':
            return 'v'
        if a[0] == 'm' or b[0] == 'm':
            raise TranslateError('matrix in an elementwise operation')
        return 'v' if 'v' in (a[0], b[0]) else 's'

    def comp(self, a, k):
        return a[1][k] if a[0] == 'v' else a[1]

    def ew(self, a, b, f):
        kind = self.lift(a, b)
        if kind == 's':
            return ('s', f(a[1], b[1]))
        return ('v', [f(self.comp(a, k), self.comp(b, k)) for k in range(3)])

    def ev(self, node):
        if isinstance(node, ast.Constant) and isinstance(node.value, (int, float)) and not isinstance(node.value, bool):
            return ('s', sci(node.value))
        if isinstance(node, ast.Name):
            if node.id in self.env:
                return self.env[node.id]
            raise TranslateError('unknown name ' + node.id)
        if isinstance(node, ast.Attribute) and ast.unparse(node) in ('math.pi', 'torch.pi', 'np.pi'):
            return ('s', 'Num.pi')
        if isinstance(node, ast.UnaryOp) and isinstance(node.op, ast.USub):
            a = self.ev(node.operand)
            return ('s', '(-%s)' % a[1]) if a[0] == 's' else ('v', ['(-%s)' % e for e in a[1]])
        if isinstance(node, ast.BinOp):
            if isinstance(node.op, ast.Pow):
                return self.power(self.ev(node.left), node.right)
            a, b = self.ev(node.left), self.ev(node.right)
            if a[0] == 'o' or b[0] == 'o':
                return ('o', None)
            ops = {ast.Add: '+', ast.Sub: '-', ast.Mult: '*', ast.Div: '/'}
            for t, o in ops.items():
                if isinstance(node.op, t):
                    return self.ew(a, b, lambda x, y, o=o: '(%s %s %s)' % (x, o, y))
            raise TranslateError('unsupported operator in ' + ast.unparse(node))
        if isinstance(node, ast.Subscript):
            return self.subscript(node)
        if isinstance(node, ast.Call):
            return self.call(node)
        raise TranslateError('unsupported expression ' + ast.unparse(node))

    def power(self, a, expo_node):
        if isinstance(expo_node, ast.Constant) and isinstance(expo_node.value, int) and 1 <= expo_node.value <= 4:
            n = expo_node.value
            f = lambda x: '(' + ' * '.join([x] * n) + ')'
            return ('s', f(a[1])) if a[0] == 's' else ('v', [f(e) for e in a[1]])
        e = self.ev(expo_node)
        if e[0] != 's':
            raise TranslateError('non-scalar exponent')
        f = lambda x: '(Num.powPos %s %s)' % (x, e[1])
        return ('s', f(a[1])) if a[0] == 's' else ('v', [f(x) for x in a[1]])

    def subscript(self, node):
        base = self.ev(node.value)
        if base[0] == 'o':
            return base
        sl = node.slice
        elts = sl.elts if isinstance(sl, ast.Tuple) else [sl]
        idx = None
        for e in elts:
            if isinstance(e, ast.Constant) and isinstance(e.value, int):
                idx = e.value
                break
            if isinstance(e, ast.Slice) and isinstance(e.lower, ast.Constant) and isinstance(e.upper, ast.Constant) \
                    and e.upper.value == e.lower.value + 1:
                idx = e.lower.value
                break
        if base[0] == 'v':
            if idx is None:
                return base
            return ('s', base[1][idx])
        raise TranslateError('unsupported subscript ' + ast.unparse(node))

    def literal(self, node):
        """nested list literal -> python nested list of scalar Lean terms"""
        if isinstance(node, (ast.List, ast.Tuple)):
            return [self.literal(e) for e in node.elts]
        v = self.ev(node)
        if v[0] != 's':
            raise TranslateError('non-scalar in tensor literal')
        return v[1]

    def call(self, node):
        f = ast.unparse(node.func)
        if isinstance(node.func, ast.Attribute) and node.func.attr in ('size', 'dim'):
            return ('o', None)            # shapes are opaque: only used to reshape
        if isinstance(node.func, ast.Attribute) and node.func.attr in IDENT:
            return self.ev(node.func.value)        # layout-only operations: arguments (shapes, axes) ignored
        if isinstance(node.func, ast.Attribute) and node.func.attr == 'clamp':
            a = self.ev(node.func.value)
            lo = [k.value for k in node.keywords if k.arg == 'min']
            if len(lo) != 1 or len(node.keywords) != 1:
                raise TranslateError('unsupported clamp ' + ast.unparse(node))
            m = self.ev(lo[0])
            return self.ew(a, m, lambda x, y: '(Num.maxN %s %s)' % (x, y))
        if f in ('torch.tensor', 'torch.as_tensor'):
            lit = self.literal(node.args[0])

            def flat(x):
                while isinstance(x, list) and len(x) == 1:
                    x = x[0]
                return x
            if len(lit) == 3 and all(isinstance(r, list) and len(r) == 3 and all(isinstance(c, str) for c in r) for r in lit):
                return ('m', lit)
            if len(lit) == 3 and all(isinstance(flat(r), str) for r in lit):
                return ('v', [flat(r) for r in lit])
            raise TranslateError('unsupported tensor literal ' + ast.unparse(node))
        if f in ('torch.matmul', 'torch.mm'):
            m, v = self.ev(node.args[0]), self.ev(node.args[1])
            if m[0] == 'm' and v[0] == 'v':
                return ('v', ['(%s)' % ' + '.join('%s * %s' % (m[1][i][j], v[1][j]) for j in range(3)) for i in range(3)])
            raise TranslateError('unsupported matmul ' + ast.unparse(node))
        if f == 'torch.pow':
            return self.power(self.ev(node.args[0]), node.args[1])
        if f == 'torch.where':
            c, a, b = node.args
            if not (isinstance(c, ast.Compare) and len(c.ops) == 1 and isinstance(c.ops[0], (ast.Gt, ast.Lt, ast.GtE, ast.LtE))):
                raise TranslateError('unsupported condition ' + ast.unparse(c))
            l, r = self.ev(c.left), self.ev(c.comparators[0])
            op = {ast.Gt: lambda x, y: '%s < %s' % (y, x), ast.Lt: lambda x, y: '%s < %s' % (x, y),
                  ast.GtE: lambda x, y: '%s ≤ %s' % (y, x), ast.LtE: lambda x, y: '%s ≤ %s' % (x, y)}[type(c.ops[0])]
            va, vb = self.ev(a), self.ev(b)
            kinds = [x[0] for x in (l, r, va, vb)]
            if 'v' in kinds:
                return ('v', ['(Num.select (decide (%s)) %s %s)' % (op(self.comp(l, k), self.comp(r, k)), self.comp(va, k), self.comp(vb, k))
                              for k in range(3)])
            return ('s', '(Num.select (decide (%s)) %s %s)' % (op(l[1], r[1]), va[1], vb[1]))
        if f == 'torch.cat':
            parts = [self.ev(e) for e in node.args[0].elts]
            if all(p[0] == 's' for p in parts) and len(parts) == 3:
                return ('v', [p[1] for p in parts])
            raise TranslateError('unsupported cat ' + ast.unparse(node))
        if f in ('torch.zeros', 'torch.zeros_like'):
            return ('v', ['(Num.ofNat 0)'] * 3)
        raise TranslateError('unsupported call ' + ast.unparse(node))

    def run(self):
        """returns the value of the return statement"""
        for st in self.fn.body:
            if isinstance(st, ast.Expr):
                continue
            if isinstance(st, ast.If):
                # rank / layout normalisation (`if len(shape) == 3`, `if shape[-1] == 3`): not per-pixel arithmetic.
                # An else branch that just renames the input is executed so the name exists.
                for sub in st.orelse:
                    if isinstance(sub, ast.Assign) and isinstance(sub.targets[0], ast.Name):
                        self.env[sub.targets[0].id] = self.ev(sub.value)
                continue
            if isinstance(st, ast.Return):
                return self.ev(st.value)
            if isinstance(st, ast.Assign) and len(st.targets) == 1:
                t = st.targets[0]
                if isinstance(t, ast.Name):
                    self.env[t.id] = self.bind(t.id, self.ev(st.value))
                    continue
                if isinstance(t, ast.Subscript) and isinstance(t.value, ast.Name) and t.value.id in self.env:
                    base = self.env[t.value.id]
                    elts = t.slice.elts if isinstance(t.slice, ast.Tuple) else [t.slice]
                    idx = [e.value for e in elts if isinstance(e, ast.Constant) and isinstance(e.value, int)]
                    if base[0] == 'v' and len(idx) == 1:
                        v = self.bind('%s%d' % (t.value.id, idx[0]), self.ev(st.value))
                        if v[0] != 's':
                            raise TranslateError('vector stored into a channel')
                        comps = list(base[1])
                        comps[idx[0]] = v[1]
                        self.env[t.value.id] = ('v', comps)
                        continue
            raise TranslateError('unsupported statement ' + ast.unparse(st)[:80])
        raise TranslateError('no return statement')


def default_value(fn, name):
    args, defaults = fn.args.args, fn.args.defaults
    off = len(args) - len(defaults)
    for i, a in enumerate(args):
        if a.arg == name and i >= off and isinstance(defaults[i - off], ast.Constant):
            return defaults[i - off].value
    raise TranslateError('no default for ' + name)


def emit(name, params, interp, result, scalar):
    lines = ['def %s %s : %s :=' % (name, params, 'α' if scalar else 'Vec3 α')]
    for n, e in interp.lets:
        lines.append('  let %s : α := %s' % (n, e))
    if scalar:
        if result[0] != 's':
            raise TranslateError('%s: expected a scalar result' % name)
        lines.append('  ' + result[1])
    else:
        if result[0] != 'v':
            raise TranslateError('%s: expected a 3-channel result' % name)
        lines.append('  ⟨%s, %s, %s⟩' % tuple(result[1]))
    return '\n'.join(lines)


def generate():
    errors, out = [], ['/- GENERATED by harness/translate/colour.py from %s – do not edit. -/' % SRC,
                       'import OdakModel.Vec3', 'namespace Odak.Gen', 'variable {α : Type} [Num α]', '']
    try:
        with open(os.path.join(REPO, SRC)) as f:
            tree = ast.parse(f.read())
    except (OSError, SyntaxError) as e:
        return '\n'.join(out + ['end Odak.Gen', '']), ['%s: %s' % (SRC, e)]
    vec_in = {'image': ('v', ['c.x', 'c.y', 'c.z'])}
    jobs = [('rgb2ycrcb', 'rgb_2_ycrcb', None, vec_in, False), ('ycrcb2rgb', 'ycrcb_2_rgb', None, vec_in, False),
            ('linearRgbToXyz', 'linear_rgb_to_xyz', None, vec_in, False), ('xyzToLinearRgb', 'xyz_to_linear_rgb', None, vec_in, False),
            ('srgbToLab', 'srgb_to_lab', None, vec_in, False), ('labToSrgb', 'lab_to_srgb', None, vec_in, False),
            ('srgbToLinear', 'rgb_to_linear_rgb', None, {'image': ('s', 'x')}, True),
            ('linearToSrgb', 'linear_rgb_to_rgb', None, {'image': ('s', 'x')}, True),
            ('opponentStage', 'second_to_third_stage', 'display_color_hvs', {'lms_image': ('v', ['c.x', 'c.y', 'c.z'])}, False)]
    for lean, pyname, cls, inputs, scalar in jobs:
        try:
            fn = find_function(tree, pyname, cls)
            inp = dict(inputs)
            for a in fn.args.args:
                if a.arg == 'threshold':
                    inp['threshold'] = ('s', sci(default_value(fn, 'threshold')))
            it = Interp(fn, inp)
            res = it.run()
            out.append('/-- `%s` per pixel -/' % pyname)
            out.append(emit(lean, '(x : α)' if scalar else '(c : Vec3 α)', it, res, scalar))
            out.append('')
        except (TranslateError, KeyError, IndexError, AttributeError) as e:
            errors.append('%s: %s' % (pyname, e))
            out.append('def %s %s : %s := %s' % (lean, '(x : α)' if scalar else '(c : Vec3 α)', 'α' if scalar else 'Vec3 α',
                                                 'x' if scalar else 'c'))
            out.append('')
    out += ['end Odak.Gen', '']
    return '\n'.join(out), errors


if __name__ == '__main__':
    t, e = generate()
    print(t)
    print(e)
