"""Regenerates Generated/GeometryBatch.lean: the BATCHED ray / triangle routines of odak (torch: odak/learn/raytracing/boundary.py,
primitives.py, mesh.py; NumPy: odak/raytracing/boundary.py) translated statement by statement by the symbolic tensor interpreter of
batchcore.py.  No execution of odak.

A batch of m rays is `Fin m → Ray α`, a batch of k triangles `Fin k → Tri α`; every generated definition takes the indices of the
output element it describes (`(j : Fin k) (i : Fin m)` for the element `[j, i, ...]`) and every assigned Python array the result
depends on becomes a `let`-bound function of its batch indices, so the text shows which ray and which triangle an element is
computed from.  Lists (`masked_select` + `split`, `torch.cat` in a loop) become `List`s.

Every definition is translated under each assumption on the batch sizes the source distinguishes (`shape[0] == 1`, a `[2, 3]` ray
instead of `[1, 2, 3]`); the element terms must agree, otherwise the definition is not generated (translator error).

The tie theorems (batch element = the single-pair definition of Generated/GeometryGen.lean at that ray and that triangle) are in
lean/OdakProofs/Lemmas/GenGeometryBatch.lean; the executable tie is harness/props/gengeombatch.py."""
import ast
import itertools
import os
import re
from .pyexpr import TranslateError, find_function
from . import batchcore as bc
from .batchcore import Engine, Interp, T, Sym, Prod, Sel, Flat, PList, mk, var, N

REPO = os.environ.get('ODAK_REPO', '/repo')
FILE = 'GeometryBatch.lean'
LB, LP, LM, LV = ('odak/learn/raytracing/boundary.py', 'odak/learn/raytracing/primitives.py', 'odak/learn/raytracing/mesh.py',
                  'odak/learn/tools/vector.py')
NB, NP, NV = ('odak/raytracing/boundary.py', 'odak/raytracing/primitives.py', 'odak/tools/vector.py')

SYMS = {'K': Sym('K', 'k', 'j'), 'M': Sym('M', 'm', 'i'), 'N': Sym('N', 'n', 'i')}
STRUCT_TYPE = {None: 'α', 'Vec3': 'Vec3 α', 'Ray': 'Ray α', 'Tri': 'Tri α'}
STRUCT_DIMS = {None: [], 'Vec3': [3], 'Ray': [2, 3], 'Tri': [3, 3]}
_trees = {}


def tree(rel):
    if rel not in _trees:
        with open(os.path.join(REPO, rel)) as f:
            _trees[rel] = ast.parse(f.read())
    return _trees[rel]


def resolve(rel, name):
    """the function a bare name refers to inside the module `rel`: defined there, or imported with `from .x import name`"""
    try:
        tr = tree(rel)
    except (OSError, SyntaxError):
        return None
    for n in tr.body:
        if isinstance(n, ast.FunctionDef) and n.name == name:
            return rel, n
    for n in tr.body:
        if isinstance(n, ast.ImportFrom) and n.level > 0 and n.module:
            for a in n.names:
                if (a.asname or a.name) == name:
                    d = os.path.dirname(rel)
                    for _ in range(n.level - 1):
                        d = os.path.dirname(d)
                    cand = os.path.join(d, *n.module.split('.')) + '.py'
                    if os.path.exists(os.path.join(REPO, cand)):
                        return resolve(cand, a.name)
                    init = os.path.join(d, *n.module.split('.'), '__init__.py')
                    if os.path.exists(os.path.join(REPO, init)):
                        return resolve(init, a.name)
    return None


# ====================================================================================================== printing
def ident(t):
    return re.fullmatch(r"[A-Za-z_][A-Za-z0-9_']*", t) is not None


class Printer:
    def __init__(self, eng):
        self.e = eng
        self.memo = {}

    def atoms(self, atoms):
        return ''.join(' ' + self.pr(a) for a in atoms)

    def pr(self, n):
        r = self.memo.get(id(n))
        if r is None:
            r = self.memo[id(n)] = self.pr_(n)
        return r

    def pr_(self, n):
        op, a = n.op, n.args
        if op == 'lit':
            return a[0]
        if op == 'var':
            return a[0]
        if op == 'c0':
            return '(0 : Fin %s)' % SYMS[a[0]].lean
        if op == 'in':
            name, atoms, path = a
            base = name if not atoms else '(%s%s)' % (name, self.atoms(atoms))
            return base + ''.join('.' + p for p in path)
        if op == 'prev':
            return '(Batch.prevIdx %s)' % self.pr(a[0])
        if op == 'reflat':
            frm, to, atoms, pos = a
            if len(frm) != 2 or to != frm[::-1]:
                raise TranslateError('arrays flattened over the axes %r and %r are combined position by position' % (frm, to))
            return '(Batch.transposePos (%s, %s)).%d' % (self.pr(atoms[0]), self.pr(atoms[1]), pos + 1)
        if op == 'bin':
            return '(%s %s %s)' % (self.pr(a[1]), a[0], self.pr(a[2]))
        if op == 'neg':
            return '(-%s)' % self.pr(a[0])
        if op == 'fn1':
            return '(%s %s)' % (a[0], self.pr(a[1]))
        if op == 'cmp':
            return '(decide (%s %s %s))' % (self.pr(a[1]), a[0], self.pr(a[2]))
        if op == 'and':
            return '(%s && %s)' % (self.pr(a[0]), self.pr(a[1]))
        if op == 'or':
            return '(%s || %s)' % (self.pr(a[0]), self.pr(a[1]))
        if op == 'not':
            return '(!%s)' % self.pr(a[0])
        if op == 'ite':
            return '(if %s = true then %s else %s)' % (self.pr(a[0]), self.pr(a[1]), self.pr(a[2]))
        if op == 'let':
            lid, atoms, comp = a
            L = self.e.lets[lid]
            base = L['name'] if not atoms else '(%s%s)' % (L['name'], self.atoms(atoms))
            return base + ''.join('.' + p for p in bc.PATHS[L['struct']][comp])
        if op == 'call':
            cid, atoms, path, _ = a
            c = self.e.calls[cid]
            args = ''.join(' ' + self.arg_text(t, layout, struct) for t, (_, layout, struct) in zip(c['args'], c['def'].params))
            return '(%s%s%s)' % (c['def'].lean, args, self.atoms(atoms)) + ''.join('.' + p for p in path)
        raise TranslateError('internal: cannot print ' + op)

    # ---- structures
    @staticmethod
    def compact(texts, fields):
        """`X.a, X.b, X.c` -> `X`"""
        pre = None
        for t, f in zip(texts, fields):
            if not t.endswith('.' + f):
                return None
            p = t[:-len(f) - 1]
            if pre is not None and p != pre:
                return None
            pre = p
        return pre

    def vec(self, c):
        return self.compact(c, 'xyz') or '(⟨%s, %s, %s⟩ : Vec3 α)' % tuple(c)

    def struct_text(self, struct, comps):
        """comps: {component index tuple: text}"""
        if struct is None:
            return comps[()]
        if struct == 'Vec3':
            return self.vec([comps[(c,)] for c in range(3)])
        rows = [self.vec([comps[(r, c)] for c in range(3)]) for r in range(3 if struct == 'Tri' else 2)]
        if struct == 'Ray':
            return self.compact(rows, ['o', 'd']) or '(⟨%s, %s⟩ : Ray α)' % tuple(rows)
        return self.compact(rows, ['p0', 'p1', 'p2']) or '(⟨%s, %s, %s⟩ : Tri α)' % tuple(rows)

    def arg_text(self, t, layout, struct):
        comps, binders = eval_tensor(self.e, t, layout)
        body = self.struct_text(struct, {c: self.pr(n) for c, n in comps.items()})
        if not binders:
            return body if ident(body) or body.startswith('(') else '(' + body + ')'
        m = re.fullmatch(r"\(([A-Za-z_][A-Za-z0-9_']*) (.*)\)", body)
        if m and m.group(2) == ' '.join(binders):
            return m.group(1)
        return '(fun %s => %s)' % (' '.join(binders), body)

    def list_text(self, d, row):
        """`row(index) -> text`; the Lean list that enumerates the dimension `d` in order"""
        e = self.e
        if isinstance(d, Sym):
            return '((List.finRange %s).map (fun %s => %s))' % (d.lean, d.var, row(var(d.var, d.name)))
        if isinstance(d, Prod) and len(d.factors) == 2 and all(isinstance(f, Sym) for f in d.factors):
            a, b = d.factors
            return '((Batch.flatIdx %s %s).map (fun p => %s))' % (a.lean, b.lean, row((var('p.1', a.name), var('p.2', b.name))))
        if isinstance(d, Sel):
            b = d.base
            if isinstance(b, Sym):
                i = var(b.var, b.name)
                return '(((List.finRange %s).filter (fun %s => %s)).map (fun %s => %s))' % (b.lean, b.var, self.pr(d.pred(i)), b.var, row(i))
            if isinstance(b, Prod) and len(b.factors) == 2 and all(isinstance(f, Sym) for f in b.factors):
                i = (var('p.1', b.factors[0].name), var('p.2', b.factors[1].name))
                return '(((Batch.flatIdx %s %s).filter (fun p => %s)).map (fun p => %s))' % (
                    b.factors[0].lean, b.factors[1].lean, self.pr(d.pred(i)), row(i))
        if isinstance(d, Flat):
            j = var(d.sym.var, d.sym.name)
            return '((List.finRange %s).flatMap (fun %s => %s))' % (d.sym.lean, d.sym.var, self.list_text(d.inner, lambda sub: row((j, sub))))
        raise TranslateError('a list over the dimension %r cannot be written' % (d,))


def eval_tensor(eng, t, layout):
    """element nodes of `t` at the canonical indices of `layout` -> ({component: node}, [binder names])"""
    it = Interp(eng, {}, '', '')
    if not it.layout_matches(t.shape, layout):
        raise TranslateError('an array of shape %r where the layout %r is expected' % (t.shape, layout))
    binders = [SYMS[x].var for x in layout if isinstance(x, str)]
    if len(set(binders)) != len(binders):
        raise TranslateError('layout %r repeats a batch axis' % (layout,))
    conc = [d for d in t.shape if isinstance(d, int) and d != 1]
    comps = {}
    for comp in itertools.product(*[range(c) for c in conc]):
        cl, idx = list(comp), []
        for d in t.shape:
            if isinstance(d, int):
                idx.append(0 if d == 1 else cl.pop(0))
            elif isinstance(d, Sym):
                idx.append(var(d.var, d.name))
            else:
                raise TranslateError('an array of shape %r where the layout %r is expected' % (t.shape, layout))
        comps[comp] = t.fn(idx)
    return comps, binders


def dim_sig(eng, d):
    """description of a list dimension"""
    if isinstance(d, int):
        return None if d == 1 else ('n', d)
    if isinstance(d, Sym):
        return ('sym', d.name)
    if isinstance(d, Prod):
        return ('prod',) + tuple(dim_sig(eng, f) for f in d.factors)
    if isinstance(d, Sel):
        return ('sel', dim_sig(eng, d.base), eng.expand(d.pred(eng.canon_idx(d, set()))))
    if isinstance(d, Flat):
        return ('flat', d.sym.name, dim_sig(eng, d.inner))
    raise TranslateError('unsupported list dimension %r' % (d,))


def squeeze_dim_sig(s, ones):
    """the description with the batch axes that have a single element removed"""
    if s is None or s[0] == 'n':
        return s
    if s[0] == 'sym':
        return None if s[1] in ones else s
    if s[0] == 'prod':
        fs = [x for x in (squeeze_dim_sig(f, ones) for f in s[1:]) if x is not None]
        return None if not fs else fs[0] if len(fs) == 1 else ('prod',) + tuple(fs)
    if s[0] == 'sel':
        return ('sel', squeeze_dim_sig(s[1], ones), s[2])
    if s[0] == 'flat':
        inner = squeeze_dim_sig(s[2], ones)
        return inner if s[1] in ones else ('flat', s[1], inner)
    raise TranslateError('internal: squeeze_dim_sig')


def only_index(n, ones, memo):
    """the term with the index 0 of a batch axis that has a single element replaced by the (only) index variable"""
    if not isinstance(n, N):
        if isinstance(n, tuple):
            return tuple(only_index(x, ones, memo) for x in n)
        return n
    r = memo.get(id(n))
    if r is None:
        if n.op == 'c0' and n.args[0] in ones:
            r = var(SYMS[n.args[0]].var, n.args[0])
        elif n.op == 'prev' and n.args[1] in ones:          # the row before the only row is that row
            r = only_index(n.args[0], ones, memo)
        elif n.op == 'reflat' and set(n.args[0]) & ones:     # with a single row (or column) the flat position IS the other index
            t = n.args[1][n.args[3]]
            r = var(SYMS[t].var, t)
        elif n.op in ('var', 'c0', 'lit'):
            r = n
        else:
            r = mk(n.op, *[only_index(a, ones, memo) for a in n.args])
        memo[id(n)] = r
    return r


def freeze(x, ones, memo):
    """nodes -> identities (after `only_index`)"""
    if isinstance(x, N):
        return ('#', id(only_index(x, ones, memo)))
    if isinstance(x, tuple):
        return tuple(freeze(y, ones, memo) for y in x)
    return x


def squeeze_signature(sg, ones):
    return freeze(squeeze_signature_(sg, ones), ones, {})


def squeeze_signature_(sg, ones):
    if sg[0] == 'rows':
        return ('rows', squeeze_dim_sig(sg[1], ones)) + sg[2:]
    if sg[0] == 'groups':
        return sg[:2] + (squeeze_dim_sig(sg[2], ones),) + sg[3:]
    if sg[0] == 'pair':
        return ('pair', squeeze_signature_(sg[1], ones), squeeze_signature_(sg[2], ones))
    if sg[0] == 'option':
        return sg[:2] + (squeeze_signature_(sg[2], ones),)
    return sg


# ====================================================================================================== jobs
class Job:
    """params: [(python name, layout, struct[, options])]; layout = batch symbols ('K', 'M') and component sizes.
    options: 'sq' = the batch axis may be absent when it has one element; 'lead1' = a single item may come with a leading axis of
    size one; 'synthetic' = not a parameter of the Python function (the result of `self.get_triangles()`).
    index: the batch symbols the definition is indexed by, in the order of the output layout.
    result: see `assemble`."""

    def __init__(self, lean, rel, py, params, index, result, cls=None, doc=None, register=None, variants=None):
        self.lean, self.rel, self.py, self.params, self.index, self.result = lean, rel, py, params, index, result
        self.cls, self.doc, self.register, self.variants = cls, doc, register, variants


def leaves(job):
    """the parameters with a packed list (`circle = [points, center, radius]`) replaced by its entries"""
    out = []
    for p in job.params:
        out += list(p[2]) if p[1] == 'list' else [p]
    return out


def worlds(job):
    syms = job_syms(job)
    opts = {}
    for p in leaves(job):
        o = p[3] if len(p) > 3 else ()
        for x in p[1]:
            if isinstance(x, str) and 'sq' in o:
                opts.setdefault(x, []).append(p[0])
    leads = [p[0] for p in leaves(job) if len(p) > 3 and 'lead1' in p[3]]
    out = []
    for combo in itertools.product(*[['many', 'one'] for _ in syms]):
        w = dict(zip(syms, combo))
        sq = [(s, n) for s in syms if w[s] == 'one' for n in opts.get(s, [])]
        for mask in itertools.product(*[[False, True] for _ in sq]):
            for lm in itertools.product(*[[True, False] for _ in leads]):
                ww = dict(w)
                ww['_sq'] = set(n for (s, n), b in zip(sq, mask) if b)
                ww['_lead'] = set(n for n, b in zip(leads, lm) if b)
                out.append(ww)
    out.sort(key=lambda w: (sum(1 for s in syms if w[s] != 'many'), len(w['_sq']), -len(w['_lead'])))
    return out


def input_tensor(eng, world, p):
    name, layout, struct = p[0], p[1], p[2]
    shape, sympos = [], []
    for x in layout:
        if isinstance(x, str):
            if name in world['_sq']:
                sympos.append(None)
                continue
            shape.append(SYMS[x])
            sympos.append(len(shape) - 1)
        else:
            shape.append(x)
    if name in world['_lead']:
        shape = [1] + shape
        sympos = [None if q is None else q + 1 for q in sympos]
    lsyms = [SYMS[x] for x in layout if isinstance(x, str)]
    concpos = [k for k, d in enumerate(shape) if isinstance(d, int) and d != 1]

    def fn(idx):
        atoms = tuple(idx[q] if q is not None else eng.c0(s) for q, s in zip(sympos, lsyms))
        comp = tuple(idx[k] for k in concpos)
        return mk('in', name, atoms, bc.PATHS[struct][comp])
    return T(shape, fn, 's', True)


def run_world(job, world, registry):
    fn = find_function(tree(job.rel), job.py, job.cls)
    eng = Engine(world, resolve, registry)
    env = {}
    for p in job.params:
        if p[1] == 'list':
            env[p[0]] = PList(input_tensor(eng, world, q) for q in p[2])
            continue
        t = input_tensor(eng, world, p)
        if len(p) > 3 and 'synthetic' in p[3]:
            env['__' + p[0] + '__'] = t
        else:
            env[p[0]] = t
    args = [a.arg for a in fn.args.args]
    if args and args[0] == 'self':
        env['self'] = bc.Opaque()
        args = args[1:]
    defaults = fn.args.defaults
    off = len(fn.args.args) - len(defaults)
    for i, a in enumerate(fn.args.args):
        if a.arg not in env and i >= off and isinstance(defaults[i - off], ast.Constant):
            env[a.arg] = defaults[i - off].value
    missing = [a for a in args if a not in env]
    if missing:
        raise TranslateError('%s: parameters %s are not described' % (job.py, missing))
    real = [p[0] for p in job.params if not (len(p) > 3 and 'synthetic' in p[3])]
    if [a for a in args if isinstance(env[a], (T, PList))] != real:
        raise TranslateError('%s: parameter list changed to %s' % (job.py, args))
    it = Interp(eng, env, job.py, job.rel)
    try:
        it.exec_block(fn.body)
        raise TranslateError('%s: no return statement' % job.py)
    except bc.Returned as r:
        return eng, r.value


# ---- results
def pick(val, pos, what):
    if pos is None:
        return val
    if not isinstance(val, (list, tuple)) or pos >= len(val):
        raise TranslateError('%s: the function does not return a tuple with an entry %d' % (what, pos))
    return val[pos]


def out_layout(job, struct):
    return list(job.index) + bc_dims(struct)


def bc_dims(struct):
    return STRUCT_DIMS[struct]


def tensor_nodes(eng, job, val, pos, struct, kind, what):
    t = pick(val, pos, what)
    if not isinstance(t, T):
        raise TranslateError('%s: entry %r of the result is not an array' % (what, pos))
    if t.kind != kind:
        raise TranslateError('%s: entry %r of the result is %s' % (what, pos, 'boolean' if t.kind == 'b' else 'numeric'))
    comps, _ = eval_tensor(eng, t, out_layout(job, struct))
    return comps


def signature(eng, job, spec, val):
    """what a result computes, with every let inlined: compared between the assumptions on the batch sizes"""
    k = spec[0]
    what = job.lean
    ex = lambda comps: tuple(sorted(((c, eng.expand(n)) for c, n in comps.items()), key=lambda x: x[0]))
    if k == 'hit':
        return ('hit', ex(tensor_nodes(eng, job, val, spec[1], 'Ray', 's', what)), ex(tensor_nodes(eng, job, val, spec[2], None, 's', what)))
    if k in ('ray', 'vec', 's', 'b'):
        struct = {'ray': 'Ray', 'vec': 'Vec3', 's': None, 'b': None}[k]
        return (k, ex(tensor_nodes(eng, job, val, spec[1], struct, 'b' if k == 'b' else 's', what)))
    if k == 'pair':
        return ('pair', signature(eng, job, spec[1], val), signature(eng, job, spec[2], val))
    if k == 'rows':
        t = pick(val, spec[1], what)
        rows, d, core = rows_of(eng, t, spec[2], what)
        return ('rows', dim_sig(eng, d), ex(rows(eng.canon_idx(d, set()))))
    if k == 'groups':
        g = pick(val, spec[1], what)
        counts, sel, d, rows = groups_of(eng, g, spec[2], what)
        cc, _ = eval_tensor(eng, counts, ['K', 'M'])
        return ('groups', ex(cc), dim_sig(eng, d), ex(rows(eng.canon_idx(d, set()))), g.nonempty)
    if k == 'option':
        if not isinstance(val, bc.Guarded):
            raise TranslateError('%s: no `return 0, 0` guard' % what)
        return ('option', eng.expand(val.flag.fn([])), signature(eng, job, spec[1], val.value))
    raise TranslateError('unknown result kind ' + k)


def rows_of(eng, t, struct, what):
    if not isinstance(t, T) or not t.shape:
        raise TranslateError('%s: a list of rows is expected' % what)
    d, core = t.shape[0], t.shape[1:]
    if [c for c in core if c != 1] != STRUCT_DIMS[struct]:
        raise TranslateError('%s: rows of shape %r where %s is expected' % (what, core, STRUCT_TYPE[struct]))

    def rows(i):
        comps = {}
        for comp in itertools.product(*[range(c) for c in STRUCT_DIMS[struct]]):
            cl = list(comp)
            comps[comp] = t.fn([i] + [0 if c == 1 else cl.pop(0) for c in core])
        return comps
    return rows, d, core


def groups_of(eng, g, struct, what):
    if not isinstance(g, bc.Groups):
        raise TranslateError('%s: the grouped result of masked_select + split is expected' % what)
    if g.viewed != (struct is not None):
        raise TranslateError('%s: the groups are %sreshaped to rows' % (what, '' if g.viewed else 'not '))
    if g.sel.core != STRUCT_DIMS[struct]:
        raise TranslateError('%s: rows of shape %r' % (what, g.sel.core))
    rows, d, _ = rows_of(eng, g.sel.t, struct, what)
    if len(g.counts.t.shape) != 2:
        raise TranslateError('%s: counts of a %r array' % (what, g.counts.t.shape))
    return g.counts.t, g.sel, d, rows


def result_type(spec):
    k = spec[0]
    if k == 'hit':
        return 'Hit α'
    if k in ('ray', 'vec', 's', 'b'):
        return {'ray': 'Ray α', 'vec': 'Vec3 α', 's': 'α', 'b': 'Bool'}[k]
    if k == 'pair':
        return '(%s × %s)' % (result_type(spec[1]), result_type(spec[2]))
    if k == 'rows':
        return 'List (%s)' % STRUCT_TYPE[spec[2]]
    if k == 'groups':
        return 'List (List (%s))' % STRUCT_TYPE[spec[2]]
    if k == 'option':
        return 'Option (%s)' % result_type(spec[1])
    raise TranslateError('unknown result kind ' + k)


def result_text(eng, pr, job, spec, val, roots):
    """Lean term of the result; `roots` collects the nodes it is made of (for the selection of the lets)"""
    k = spec[0]
    what = job.lean

    def txt(comps):
        roots.extend(comps.values())
        return {c: pr.pr(n) for c, n in comps.items()}
    if k == 'hit':
        r = txt(tensor_nodes(eng, job, val, spec[1], 'Ray', 's', what))
        d = txt(tensor_nodes(eng, job, val, spec[2], None, 's', what))
        parts = [pr.vec([r[(0, c)] for c in range(3)]), pr.vec([r[(1, c)] for c in range(3)]), d[()]]
        return pr.compact(parts, ['point', 'normal', 'distance']) or '(⟨%s, %s, %s⟩ : Hit α)' % tuple(parts)
    if k in ('ray', 'vec', 's', 'b'):
        struct = {'ray': 'Ray', 'vec': 'Vec3', 's': None, 'b': None}[k]
        return pr.struct_text(struct, txt(tensor_nodes(eng, job, val, spec[1], struct, 'b' if k == 'b' else 's', what)))
    if k == 'pair':
        return '(%s, %s)' % (result_text(eng, pr, job, spec[1], val, roots), result_text(eng, pr, job, spec[2], val, roots))
    if k == 'rows':
        rows, d, _ = rows_of(eng, pick(val, spec[1], what), spec[2], what)
        collect_dim(eng, d, roots)
        return pr.list_text(d, lambda i: pr.struct_text(spec[2], txt(rows(i))))
    if k == 'groups':
        g = pick(val, spec[1], what)
        counts, sel, d, rows = groups_of(eng, g, spec[2], what)
        cc, binders = eval_tensor(eng, counts, ['K', 'M'])
        collect_dim(eng, d, roots)
        t = '(Batch.splitSizes (Batch.rowCounts (fun %s => %s)) %s)' % (
            ' '.join(binders), txt(cc)[()], pr.list_text(d, lambda i: pr.struct_text(spec[2], txt(rows(i)))))
        return '(Batch.nonEmpty %s)' % t if g.nonempty else t
    if k == 'option':
        if not isinstance(val, bc.Guarded):
            raise TranslateError('%s: no `return 0, 0` guard' % what)
        f = val.flag.fn([])
        roots.append(f)
        return '(if %s = true then some %s else none)' % (pr.pr(f), result_text(eng, pr, job, spec[1], val.value, roots))
    raise TranslateError('unknown result kind ' + k)


def collect_dim(eng, d, roots):
    if isinstance(d, Sel):
        roots.append(d.pred(eng.canon_idx(d, set())))
        collect_dim(eng, d.base, roots)
    elif isinstance(d, Flat):
        collect_dim(eng, d.inner, roots)
    elif isinstance(d, Prod):
        for f in d.factors:
            collect_dim(eng, f, roots)


def reachable_lets(eng, roots):
    seen_nodes, lets = set(), set()
    stack = list(roots)
    while stack:
        n = stack.pop()
        if not isinstance(n, N):
            if isinstance(n, tuple):
                stack.extend(n)
            continue
        if id(n) in seen_nodes:
            continue
        seen_nodes.add(id(n))
        if n.op == 'let':
            lid, atoms, _ = n.args
            stack.extend(atoms)
            if lid not in lets:
                lets.add(lid)
                stack.extend(eng.let_body(lid).values())
        elif n.op == 'call':
            cid, atoms, _, _ = n.args
            stack.extend(atoms)
            c = eng.calls[cid]
            for t, (_, layout, struct) in zip(c['args'], c['def'].params):
                stack.extend(eval_tensor(eng, t, layout)[0].values())
        else:
            stack.extend(n.args)
    return lets


def let_text(eng, pr, lid):
    L = eng.lets[lid]
    body = pr.struct_text(L['struct'], {c: pr.pr(n) for c, n in eng.let_body(lid).items()})
    ty = 'Bool' if L['kind'] == 'b' else STRUCT_TYPE[L['struct']]
    if not L['params']:
        return '  let %s : %s := %s' % (L['name'], ty, body)
    return '  let %s : %s := fun %s => %s' % (L['name'], ' → '.join(['Fin %s' % s.lean for _, s in L['params']] + [ty]),
                                             ' '.join(n for n, _ in L['params']), body)


def binder(p):
    name, layout, struct = p[0], p[1], p[2]
    return '(%s : %s)' % (name, ' → '.join(['Fin %s' % SYMS[x].lean for x in layout if isinstance(x, str)] + [STRUCT_TYPE[struct]]))


def job_syms(job):
    out = []
    for p in leaves(job):
        for x in p[1]:
            if isinstance(x, str) and x not in out:
                out.append(x)
    return out


def run_job(job, registry):
    sigs = []
    text = None
    for w in worlds(job):
        eng, val = run_world(job, w, registry)
        sg = signature(eng, job, job.result, val)
        desc = ', '.join(['%s = 1' % s for s in job_syms(job) if w[s] != 'many'] + ['%s without its batch axis' % n for n in sorted(w['_sq'])] +
                         ['%s as [1, ...]' % n for n in sorted(w['_lead'])]) or 'general batch sizes'
        ones = set(s for s in job_syms(job) if w[s] != 'many')
        if os.environ.get('GEOMBATCH_DEBUG') and sigs and squeeze_signature(sg, ones) != squeeze_signature(sigs[0][1], ones):
            print('DEBUG', job.lean, desc, '\n ', sg, '\n ', sigs[0][1])
        if sigs and squeeze_signature(sg, ones) != squeeze_signature(sigs[0][1], ones):
            raise TranslateError('the result for (%s) is not the result for (%s) at the only index' % (desc, sigs[0][0]))
        sigs.append((desc, sg))
        if text is None:
            pr = Printer(eng)
            roots = []
            res = result_text(eng, pr, job, job.result, val, roots)
            need = reachable_lets(eng, roots)
            syms = job_syms(job)
            head = 'def %s' % job.lean
            if syms:
                head += ' {%s : Nat}' % ' '.join(SYMS[s].lean for s in syms) + ''.join(' [NeZero %s]' % SYMS[s].lean for s in syms)
            head += ''.join(' ' + binder(p) for p in leaves(job))
            head += ''.join(' (%s : Fin %s)' % (SYMS[s].var, SYMS[s].lean) for s in job.index)
            lines = ['/-- %s -/' % (job.doc or '`%s` (%s)' % (job.py, job.rel)), head + ' : %s :=' % result_type(job.result)]
            lines += [let_text(eng, pr, lid) for lid in eng.order if lid in need]
            lines.append('  ' + res)
            text = '\n'.join(lines)
            notes = list(eng.notes)
    if job.register:
        registry.setdefault((job.rel, job.py), []).append(regdef(job))
    return text, notes, [d for d, _ in sigs]


def regdef(job):
    k = job.result[0]
    idx = list(job.index)
    if k == 'hit':
        paths = {(r, c): (('point', 'normal')[r], 'xyz'[c]) for r in range(2) for c in range(3)}
        outs = [(job.result[1], idx + [2, 3], paths), (job.result[2], idx, {(): ('distance',)})]
    elif k in ('ray', 'vec', 's', 'b'):
        struct = {'ray': 'Ray', 'vec': 'Vec3', 's': None, 'b': None}[k]
        outs = [(job.result[1], idx + STRUCT_DIMS[struct], bc.PATHS[struct])]
    else:
        raise TranslateError('internal: a %s result cannot be referred to' % k)
    params = [(p[0], p[1], p[2]) for p in job.params if not (len(p) > 3 and 'synthetic' in p[3])]
    return bc.RegDef(job.lean, params, outs, [SYMS[s] for s in job.index])


def jobs():
    ray = lambda n='ray': (n, ['M', 2, 3], 'Ray', ('sq',))
    tris = ('triangle', ['K', 3, 3], 'Tri', ('sq',))
    tri1 = lambda n: (n, [3, 3], 'Tri', ('lead1',))
    T = [
        Job('centerOfTriangleBatchT', LP, 'center_of_triangle', [tris], ['K'], ('vec', None), register=True),
        Job('getTriangleNormalBatchT', LB, 'get_triangle_normal', [tris], ['K'], ('ray', None), register=True),
        Job('intersectSurfaceBatchT', LB, 'intersect_w_surface_batch', [ray(), tris], ['K', 'M'], ('hit', 0, 1), register=True),
        Job('isOnTriangleBatchT', LP, 'is_it_on_triangle_batch', [('point_to_check', ['K', 'M', 3], 'Vec3'), tris], ['K', 'M'], ('b', None),
            register=True),
        Job('intersectTriangleBatchNormalT', LB, 'intersect_w_triangle_batch', [ray(), tris], ['K', 'M'], ('ray', 0),
            doc='`intersect_w_triangle_batch`: the returned `normal[j, i]`'),
        Job('intersectTriangleBatchCheckT', LB, 'intersect_w_triangle_batch', [ray(), tris], ['K', 'M'], ('b', 4),
            doc='`intersect_w_triangle_batch`: the returned `check[j, i]`'),
        Job('intersectTriangleBatchDistancesT', LB, 'intersect_w_triangle_batch', [ray(), tris], [], ('groups', 1, None),
            doc='`intersect_w_triangle_batch`: the returned list of distance groups (masked_select, split by the row counts, empty groups dropped)'),
        Job('intersectTriangleBatchRaysT', LB, 'intersect_w_triangle_batch', [ray(), tris], [], ('groups', 2, 'Ray'),
            doc='`intersect_w_triangle_batch`: the returned list of groups of intersecting rays'),
        Job('intersectTriangleBatchNormalsT', LB, 'intersect_w_triangle_batch', [ray(), tris], [], ('groups', 3, 'Ray'),
            doc='`intersect_w_triangle_batch`: the returned list of groups of intersecting normals'),
        Job('intersectSurfaceRaysT', LB, 'intersect_w_surface', [ray(), tri1('points')], ['M'], ('hit', 0, 1), register=True,
            doc='`intersect_w_surface` for a batch of rays and ONE triangle'),
        Job('isOnTriangleRaysT', LP, 'is_it_on_triangle', [('point_to_check', ['M', 3], 'Vec3', ('sq',)), tri1('triangle')], ['M'], ('b', None),
            register=True, doc='`is_it_on_triangle` for a batch of points and ONE triangle'),
        Job('intersectTriangleRaysHitT', LB, 'intersect_w_triangle', [ray(), tri1('triangle')], ['M'], ('hit', 0, 1),
            doc='`intersect_w_triangle` (batch of rays, one triangle): the returned `normal[i]`, `distance[i]`'),
        Job('intersectTriangleRaysCheckT', LB, 'intersect_w_triangle', [ray(), tri1('triangle')], ['M'], ('b', 4),
            doc='`intersect_w_triangle` (batch of rays, one triangle): the returned `check[i]`'),
        Job('intersectTriangleRaysHitRaysT', LB, 'intersect_w_triangle', [ray(), tri1('triangle')], [], ('rows', 2, 'Ray'),
            doc='`intersect_w_triangle` (batch of rays, one triangle): `intersecting_ray`, the rays restricted to those that hit'),
        Job('intersectTriangleRaysHitNormalsT', LB, 'intersect_w_triangle', [ray(), tri1('triangle')], [], ('rows', 3, 'Ray'),
            doc='`intersect_w_triangle` (batch of rays, one triangle): `intersecting_normal`, the normals restricted to the rays that hit'),
        Job('reflectBatchT', LB, 'reflect', [('input_ray', ['N', 2, 3], 'Ray', ('sq',)), ('normal', ['N', 2, 3], 'Ray', ('sq',))], ['N'],
            ('ray', None), doc='`reflect` for n rays and n normals'),
        Job('mirrorT', LM, 'mirror', [('rays', ['M', 2, 3], 'Ray', ('sq',)), ('triangles', ['K', 3, 3], 'Tri', ('synthetic',))], [],
            ('pair', ('rows', 0, 'Ray'), ('rows', 1, 'Ray')), cls='planar_mesh',
            doc='`planar_mesh.mirror` with `triangles = self.get_triangles()`: (reflected_rays, reflected_normals)'),
    ]
    one = lambda n: (n, [2, 3], 'Ray', ('lead1',))
    many = lambda n: (n, ['N', 2, 3], 'Ray', ('sq',))
    T += [Job('reflectRaysT', LB, 'reflect', [many('input_ray'), one('normal')], ['N'], ('ray', None), doc='`reflect` for n rays and ONE normal'),
          Job('reflectNormalsT', LB, 'reflect', [one('input_ray'), many('normal')], ['N'], ('ray', None), doc='`reflect` for ONE ray and n normals')]
    T.append(Job('intersectCircleRaysT', LB, 'intersect_w_circle',
                 [ray(), ('circle', 'list', [('circle0', [3, 3], 'Tri'), ('circle1', [3], 'Vec3'), ('circle2', [1], None)])], ['M'], ('hit', 0, 1),
                 doc='`intersect_w_circle` for a batch of rays: the plane hit, the distance masked by the radius, ray by ray'))
    Nn = [
        Job('intersectSurfaceRaysN', NB, 'intersect_w_surface', [ray(), ('points', [3, 3], 'Tri')], ['M'], ('hit', 0, 1), register=True,
            doc='NumPy `intersect_w_surface` for an [m x 2 x 3] batch of rays and one triangle'),
        Job('reflectBatchN', NB, 'reflect', [('input_ray', ['N', 2, 3], 'Ray', ('sq',)), ('normal', ['N', 2, 3], 'Ray', ('sq',))], ['N'],
            ('ray', None), doc='NumPy `reflect` for n rays and n normals'),
        Job('reflectRaysN', NB, 'reflect', [many('input_ray'), one('normal')], ['N'], ('ray', None), doc='NumPy `reflect` for n rays and ONE normal'),
        Job('reflectNormalsN', NB, 'reflect', [one('input_ray'), many('normal')], ['N'], ('ray', None), doc='NumPy `reflect` for ONE ray and n normals'),
        Job('intersectCircleRaysN', NB, 'intersect_w_circle',
            [ray(), ('circle', 'list', [('circle0', [3, 3], 'Tri'), ('circle1', [3], 'Vec3'), ('circle2', [], None)])], ['M'], ('hit', 0, 1),
            doc='NumPy `intersect_w_circle` for an [m x 2 x 3] batch of rays: the distance masked by the radius, ray by ray'),
        Job('intersectTriangleN', NB, 'intersect_w_triangle', [('ray', [2, 3], 'Ray'), ('triangle', [3, 3], 'Tri')], [], ('option', ('hit', 0, 1)),
            doc='NumPy `intersect_w_triangle` (ONE ray, one triangle): `none` stands for the returned `0, 0`'),
    ]
    return T, Nn


def generate():
    out = ['/- GENERATED by harness/translate/geombatch.py from odak/learn/raytracing/{boundary,primitives,mesh}.py and',
           '   odak/raytracing/boundary.py – do not edit.',
           '   The BATCHED routines with their batch structure explicit: a batch of m rays is `Fin m → Ray α`, a batch of k triangles',
           '   `Fin k → Tri α`; a definition takes the indices of the output element it describes.  `…T` = torch, `…N` = NumPy. -/',
           'import OdakModel.GenBatchPrelude', 'namespace Odak.Gen', 'variable {α : Type} [Num α]', '']
    errors, notes = [], []
    _trees.clear()
    N.pool.clear()
    for api, js in zip(('torch', 'numpy'), jobs()):
        registry = {}
        out.append('/-! ### %s -/' % api)
        out.append('')
        for job in js:
            try:
                text, nts, ws = run_job(job, registry)
                out += [text, '-- translated under: ' + '; '.join(ws), '']
                notes += ['%s: %s' % (job.lean, n) for n in nts]
            except (TranslateError, OSError, SyntaxError, KeyError, IndexError, AttributeError, TypeError, ValueError, RecursionError) as e:
                errors.append('%s (%s in %s): %s' % (job.lean, job.py, job.rel, e))
    for n in sorted(set(notes)):
        out.append('-- note: ' + n)
    out += ['', 'end Odak.Gen', '']
    return '\n'.join(out), errors


if __name__ == '__main__':
    t, e = generate()
    print(t)
    for x in e:
        print('ERROR', x)
