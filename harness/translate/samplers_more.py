"""Regenerates Generated/SamplersMore.lean: the generators of odak/tools/sample.py that build their result in Python loops

    circular_uniform_sample          rings: `for i in range(no[0])`, `int(no[1] * i / no[0])` points on ring i (so the COUNT depends on both
                                     entries of `no`: the sum of those quotients; ring 0 - the centre - holds no point)
    circular_uniform_random_sample   `no[0]` radii x `no[1]` angles; the two `np.random.uniform` calls are inputs (`rand0`, `rand1`: the k-th
                                     variate of the first / second call), their `(low, high, size)` arguments are regenerated
    random_sample_point_cloud        WHICH `np.random.choice` call with WHICH arguments in which positions; the drawn index list is an input
    batch_of_rays                    entry / exit rows -> rays (which row meets which, `np.repeat` of the shorter side, order)

translated statement by statement by the loop interpreter of loopcore.py (odak is never executed): every `for` is a `List.flatMap`, the
result is the list of returned rows in order.  How `rotate_points` is called (angles, mode, origin, offset - defaults read off its
signature in odak/tools/transformation.py) is in the generated text (`npRotatePointsCall`, as in Generated/Samplers.lean);
`create_ray_from_two_points` is `twoPointsN` of Generated/GeometryGen.lean.

Tie theorems: lean/OdakProofs/Lemmas/GenSamplersMore.lean; executable tie: harness/props/gensamplersmore.py."""
import ast
import os
from .pyexpr import TranslateError, find_function
from .loopcore import Interp, Hooks, V, Returned, definition, par, ty, as_s, lit, safe

REPO = os.environ.get('ODAK_REPO', '/repo')
FILE = 'SamplersMore.lean'
NS, NT = 'odak/tools/sample.py', 'odak/tools/transformation.py'
CHOICE_PARAMS = ['a', 'size', 'replace', 'p']      # documented signature of numpy.random.choice(a, size=None, replace=True, p=None)
_trees = {}


def tree(rel):
    if rel not in _trees:
        with open(os.path.join(REPO, rel)) as f:
            _trees[rel] = ast.parse(f.read())
    return _trees[rel]


def lean_str(s):
    return '"' + s.replace('\\', '\\\\').replace('"', '\\"') + '"'


def vec_default(node):
    """a default such as `[0, 0, 0]` -> Vec3 term"""
    if isinstance(node, (ast.List, ast.Tuple)) and len(node.elts) == 3 and all(
            isinstance(e, ast.Constant) and isinstance(e.value, (int, float)) and not isinstance(e.value, bool) for e in node.elts):
        return '(⟨%s, %s, %s⟩ : Vec3 α)' % tuple(lit(e.value) for e in node.elts)
    raise TranslateError('unsupported default ' + ast.unparse(node))


class SHooks(Hooks):
    def __init__(self):
        self.draws = []            # (low term, high term, size term, source text)
        self.choice = None         # positional / keyword arguments of np.random.choice as written
        self.uses_zero = False

    def vec(self, v, what):
        if v.kind == 'v':
            return v.term
        raise TranslateError('%s is not a 3-vector' % what)

    def call(self, it, node, f):
        src = ast.unparse(node)
        if f == 'np.random.uniform':
            if node.keywords or len(node.args) != 3:
                raise TranslateError('unsupported call ' + src)
            lo, hi, size = (it.ev(a) for a in node.args)
            if size.kind != 'nat':
                raise TranslateError('the size of %s is not an integer' % src)
            k = len(self.draws)
            self.draws.append((as_s(lo, src), as_s(hi, src), size.term, src))
            return V('list', '((List.range %s).map fun k => rand%d k)' % (par(size.term), k), elem=V('s'))
        if f == 'np.random.choice':
            self.choice = [ast.unparse(a) for a in node.args], [(k.arg, ast.unparse(k.value)) for k in node.keywords]
            return V('list', 'choice', elem=V('nat'))
        if f == 'rotate_points':
            fn = find_function(tree(NT), 'rotate_points')
            names = [a.arg for a in fn.args.args]
            defaults = dict(zip(names[len(names) - len(fn.args.defaults):], fn.args.defaults))
            if names[1:] != ['angles', 'mode', 'origin', 'offset']:
                raise TranslateError('rotate_points now has the parameters %s' % names)
            given = {}
            for k, a in enumerate(node.args):
                given[names[k]] = it.finalize(a) if isinstance(a, ast.Name) and it.name(a.id).kind == 'acc' else it.ev(a)
            for kw in node.keywords:
                if kw.arg not in names or kw.arg in given:
                    raise TranslateError('unexpected argument %s in %s' % (kw.arg, src))
                given[kw.arg] = it.ev(kw.value)
            pts = given.get('points')
            if pts is None or pts.kind != 'list' or pts.elem.kind != 'v':
                raise TranslateError('unsupported rotate_points call ' + src)
            mode = given['mode'].const if 'mode' in given else defaults['mode'].value
            if not isinstance(mode, str):
                raise TranslateError('unsupported mode in ' + src)
            terms = [self.vec(given[n], n) if n in given else vec_default(defaults[n]) for n in ('angles', 'origin', 'offset')]
            self.uses_zero = True
            return V('list', '(%s.map fun p => npRotatePointsCall %s %s %s %s p anglesZero)'
                     % (par(pts.term), lean_str(mode), par(terms[0]), par(terms[1]), par(terms[2])), elem=V('v'))
        if f == 'create_ray_from_two_points':
            if node.keywords or len(node.args) != 2:
                raise TranslateError('unsupported call ' + src)
            a, b = (it.ev(x) for x in node.args)
            return V('ray', '(twoPointsN %s %s)' % (par(self.vec(a, src)), par(self.vec(b, src))))
        return None


class Job:
    def __init__(self, lean, py, params, extra_binders=(), doc=None):
        self.lean, self.py, self.params, self.extra, self.doc = lean, py, params, extra_binders, doc


def make_param(pyname, kind):
    n = safe(pyname)
    if kind == 's':
        return '(%s : α)' % n, V('s', n)
    if kind == 'v':
        return '(%s : Vec3 α)' % n, V('v', n)
    if kind == 'nat':
        return '(%s : Nat)' % n, V('nat', n)
    if isinstance(kind, tuple) and kind[0] == 'natlist':
        names = ['%s%d' % (n, i) for i in range(kind[1])]
        return '(%s : Nat)' % ' '.join(names), V('tuple', items=[V('nat', x) for x in names])
    if isinstance(kind, tuple) and kind[0] == 'rows':          # [len x 3] array of points
        return '(%s : Nat) (%s : Nat → Vec3 α)' % (kind[1], n), V('fn1', n, elem=V('v'), len=kind[1])
    if kind == 'o':
        return '', V('o')
    raise TranslateError('unknown parameter kind %r' % (kind,))


def run_job(job):
    fn = find_function(tree(NS), job.py)
    if [a.arg for a in fn.args.args] != [p for p, _ in job.params]:
        raise TranslateError('%s: parameter list changed to %s' % (job.py, [a.arg for a in fn.args.args]))
    binders, env = [], {}
    for pyname, kind in job.params:
        b, v = make_param(pyname, kind)
        binders.append(b)
        env[pyname] = v
    hooks = SHooks()
    it = Interp(env, hooks)
    try:
        it.exec_block(fn.body)
        raise TranslateError('%s: no return statement' % job.py)
    except Returned as r:
        val = r.value
    if val.kind != 'list':
        raise TranslateError('%s: the returned value is not a list of rows' % job.py)
    if hooks.uses_zero:
        binders.append('(anglesZero : Bool)')
    if hooks.draws:
        binders.append('(%s : Nat → α)' % ' '.join('rand%d' % k for k in range(len(hooks.draws))))
    if hooks.choice is not None:
        binders.append('(choice : List Nat)')
    text = definition(job.lean, binders, ty(val), it.scopes[0].lets, val.term,
                      job.doc or '`%s` (%s): the returned rows in order' % (job.py, NS))
    out = [text, '']
    if hooks.draws:
        import re as _re

        def used(terms, suffixes):
            toks = set(_re.findall(r"[^\W\d][\w']*", ' '.join(terms)))
            keep = []
            for b in binders:
                if b.endswith(suffixes):
                    names = [x for x in b[1:b.index(':')].split() if x in toks]
                    if names:
                        keep.append('(%s %s' % (' '.join(names), b[b.index(':'):]))
            return ' '.join(keep)
        natb = used([s for _, _, s, _ in hooks.draws], (': Nat)',))
        sb = used([lo + ' ' + hi for lo, hi, _, _ in hooks.draws], (': α)', ': Vec3 α)'))
        out += ['/-- the `np.random.uniform(low, high, size)` calls of `%s` in order: `(low, high)` of call k (`randk` holds its variates) -/' % job.py,
                'def %sDrawBounds %s : List (α × α) := [%s]' % (job.lean, sb, ', '.join('(%s, %s)' % (lo, hi) for lo, hi, _, _ in hooks.draws)),
                '/-- … and the number of variates each call draws -/',
                'def %sDrawSizes %s : List Nat := [%s]' % (job.lean, natb, ', '.join(s for _, _, s, _ in hooks.draws)), '']
    if hooks.choice is not None:
        pos, kws = hooks.choice
        if len(pos) > len(CHOICE_PARAMS):
            raise TranslateError('%s: too many arguments of np.random.choice' % job.py)
        table = list(zip(CHOICE_PARAMS, pos)) + kws
        out += ['/-- the one `np.random.choice` call of `%s`: which expression lands in which parameter of' % job.py,
                '    `numpy.random.choice(a, size, replace, p)` (positional arguments are matched by position) -/',
                'def %sChoiceCall : List (String × String) := [%s]' % (job.lean, ', '.join('(%s, %s)' % (lean_str(a), lean_str(b)) for a, b in table)), '']
    return '\n'.join(out), it.notes


def jobs():
    no2 = ('natlist', 2)
    return [
        Job('circularUniformSampleN', 'circular_uniform_sample', [('no', no2), ('radius', 's'), ('center', 'v'), ('angles', 'v')]),
        Job('circularUniformRandomSampleN', 'circular_uniform_random_sample', [('no', no2), ('radius', 's'), ('center', 'v'), ('angles', 'v')]),
        Job('randomSamplePointCloudN', 'random_sample_point_cloud', [('point_cloud', ('rows', 'n')), ('no', 'nat'), ('p', 'o')]),
        Job('batchOfRaysN', 'batch_of_rays', [('entry', ('rows', 'm')), ('exit', ('rows', 'n'))],
            doc='`batch_of_rays` (%s): the returned rays in order; `entry` has `m` rows, `exit` has `n` rows (a single point is one row)' % NS),
    ]


def generate():
    _trees.clear()
    out = ['/- GENERATED by harness/translate/samplers_more.py from %s (and the signature of rotate_points in %s) – do not edit.' % (NS, NT),
           '   The returned rows IN ORDER as a list.  `anglesZero` is the test `angles[0] == 0 and angles[1] == 0 and angles[2] == 0` of NumPy',
           '   `rotate_points`; `rand0`, `rand1` are the variates of the first / second `np.random.uniform` call; `choice` is the index list',
           '   `np.random.choice` returned. -/',
           'import OdakModel.GenLoopPrelude', 'namespace Odak.Gen', 'variable {α : Type} [Num α]', '']
    errors, notes = [], []
    for job in jobs():
        try:
            text, nts = run_job(job)
            out += [text]
            notes += ['%s: %s' % (job.lean, n) for n in nts]
        except (TranslateError, OSError, SyntaxError, KeyError, IndexError, AttributeError, TypeError, ValueError) as e:
            errors.append('%s (%s in %s): %s' % (job.lean, job.py, NS, e))
    for n in sorted(set(notes)):
        out.append('-- note: ' + n)
    out += ['', 'end Odak.Gen', '']
    return '\n'.join(out), errors


if __name__ == '__main__':
    t, e = generate()
    print(t)
    print(e)
