"""Typed translation of Python integer index expressions (AST) to Lean `Int` terms.

A value is either ('int', lean) or ('rat', lean_numerator, positive_int_denominator) – the latter
arises only from true division by a positive literal.  Python `//` by a positive literal is Lean's
`Int` `/` (Euclidean = floor for positive divisors); `int(x)` of a rational truncates toward zero
(`Int.tdiv`); `ceil` of `n/d` is `-((-n)/d)`.
Anything outside this grammar raises TranslateError – reported as `translator: cannot extract`.
"""
import ast


class TranslateError(Exception):
    pass


class Sym:
    """symbolic list value"""
    def __init__(self, elts):
        self.elts = elts


def par(s):
    return s if s.replace('_', '').isalnum() else '(' + s + ')'


def mulden(a, b):
    if a == '1':
        return b
    if b == '1':
        return a
    if a.isdigit() and b.isdigit():
        return str(int(a) * int(b))
    return '%s * %s' % (par(a), par(b))


def lit_value(node):
    if isinstance(node, ast.Constant) and isinstance(node.value, (int, float)) and not isinstance(node.value, bool):
        v = node.value
        if float(v) == int(v):
            return int(v)
    return None


class ExprTranslator:
    def __init__(self, symbols, env=None, positive=()):
        # symbols: {unparsed python expr: lean variable}; env: {local name: value};
        # positive: lean variables assumed > 0 (may be used as divisors)
        self.symbols = dict(symbols)
        self.env = env if env is not None else {}
        self.positive = set(positive)

    def divisor(self, node):
        c = lit_value(node)
        if c is not None and c > 0:
            return str(c)
        try:
            v = self.tr(node)
        except TranslateError:
            return None
        if v[0] == 'int' and v[1] in self.positive:
            return v[1]
        return None

    def tr(self, node):
        src = ast.unparse(node)
        local_list = isinstance(node, ast.Subscript) and isinstance(node.value, ast.Name) \
            and isinstance(self.env.get(node.value.id), Sym)
        if src in self.symbols and not local_list:
            return ('int', self.symbols[src])
        if isinstance(node, ast.Constant):
            v = lit_value(node)
            if v is None:
                raise TranslateError('non-integer literal ' + src)
            if isinstance(node.value, float):
                return ('rat', str(v) if v >= 0 else '(%d)' % v, '1')
            return ('int', str(v) if v >= 0 else '(%d)' % v)
        if isinstance(node, ast.Name):
            if node.id in self.env and not isinstance(self.env[node.id], Sym):
                return self.env[node.id]
            raise TranslateError('unknown name ' + node.id)
        if isinstance(node, ast.Subscript):
            base = node.value
            if isinstance(base, ast.Name) and base.id in self.env and isinstance(self.env[base.id], Sym):
                idx = lit_value(node.slice)
                if idx is None and isinstance(node.slice, ast.UnaryOp) and isinstance(node.slice.op, ast.USub):
                    v = lit_value(node.slice.operand)
                    idx = -v if v is not None else None
                if idx is None:
                    raise TranslateError('non-literal index ' + src)
                return self.env[base.id].elts[idx]
            raise TranslateError('unknown subscript ' + src)
        if isinstance(node, ast.UnaryOp) and isinstance(node.op, ast.USub):
            v = self.tr(node.operand)
            if v[0] == 'int':
                return ('int', '-' + par(v[1]))
            return ('rat', '-' + par(v[1]), v[2])
        if isinstance(node, ast.BinOp):
            return self.binop(node)
        if isinstance(node, ast.Call):
            return self.call(node)
        raise TranslateError('unsupported expression ' + src)

    def binop(self, node):
        a, b = self.tr(node.left), self.tr(node.right)
        op = node.op
        if isinstance(op, (ast.Add, ast.Sub)):
            o = '+' if isinstance(op, ast.Add) else '-'
            if a[0] == 'int' and b[0] == 'int':
                return ('int', '%s %s %s' % (par(a[1]), o, par(b[1])))
            # bring to common denominator
            an, ad = (a[1], '1') if a[0] == 'int' else (a[1], a[2])
            bn, bd = (b[1], '1') if b[0] == 'int' else (b[1], b[2])
            if ad == bd:
                return ('rat', '%s %s %s' % (par(an), o, par(bn)), ad)
            return ('rat', '%s * %s %s %s * %s' % (par(an), par(bd), o, par(bn), par(ad)), mulden(ad, bd))
        if isinstance(op, ast.Mult):
            if a[0] == 'int' and b[0] == 'int':
                return ('int', '%s * %s' % (par(a[1]), par(b[1])))
            if a[0] == 'rat' and b[0] == 'int':
                return ('rat', '%s * %s' % (par(a[1]), par(b[1])), a[2])
            if a[0] == 'int' and b[0] == 'rat':
                return ('rat', '%s * %s' % (par(a[1]), par(b[1])), b[2])
            return ('rat', '%s * %s' % (par(a[1]), par(b[1])), mulden(a[2], b[2]))
        if isinstance(op, ast.FloorDiv):
            c = self.divisor(node.right)
            if a[0] == 'int' and c is not None:
                return ('int', '%s / %s' % (par(a[1]), par(c)))
            if a[0] == 'int' and b[0] == 'int':
                return ('int', 'Int.fdiv %s %s' % (par(a[1]), par(b[1])))
            if a[0] == 'rat' and c is not None:  # floor((n/d)/c) as a float-valued integer
                return ('rat', '%s / %s' % (par(a[1]), par(mulden(a[2], c))), '1')
            raise TranslateError('unsupported floor division ' + ast.unparse(node))
        if isinstance(op, ast.Div):
            c = self.divisor(node.right)
            if c is None:
                raise TranslateError('true division by something not known positive ' + ast.unparse(node))
            if a[0] == 'int':
                return ('rat', a[1], c)
            return ('rat', a[1], mulden(a[2], c))
        raise TranslateError('unsupported operator ' + ast.unparse(node))

    def call(self, node):
        f = ast.unparse(node.func)
        if len(node.args) != 1:
            raise TranslateError('unsupported call ' + ast.unparse(node))
        v = self.tr(node.args[0])
        if f == 'int':
            if v[0] == 'int':
                return v
            return ('int', v[1]) if v[2] == '1' else ('int', 'Int.tdiv %s %s' % (par(v[1]), par(v[2])))
        if f in ('np.ceil', 'math.ceil', 'torch.ceil', 'ceil'):
            if v[0] == 'int':
                return ('rat', v[1], '1')
            return ('rat', v[1], '1') if v[2] == '1' else ('rat', '-(-%s / %s)' % (par(v[1]), par(v[2])), '1')
        if f in ('np.floor', 'math.floor', 'torch.floor', 'floor'):
            if v[0] == 'int':
                return ('rat', v[1], '1')
            return ('rat', v[1], '1') if v[2] == '1' else ('rat', '%s / %s' % (par(v[1]), par(v[2])), '1')
        raise TranslateError('unsupported call ' + ast.unparse(node))

    def as_int(self, node):
        v = self.tr(node)
        if v[0] == 'int':
            return v[1]
        if v[2] == '1':
            return v[1]
        raise TranslateError('expression is not integer-valued: ' + ast.unparse(node))


def find_function(tree, name, cls=None):
    """first FunctionDef `name` at module level (or inside class `cls`)"""
    scope = tree.body
    if cls is not None:
        for n in tree.body:
            if isinstance(n, ast.ClassDef) and n.name == cls:
                scope = n.body
                break
        else:
            raise TranslateError('class %s not found' % cls)
    for n in scope:
        if isinstance(n, ast.FunctionDef) and n.name == name:
            return n
    raise TranslateError('function %s not found' % name)


def symexec(body, tr, choose, hook):
    """Straight-line symbolic execution of `body`.
    choose(test_src) -> True/False/None(=skip the statement); hook(stmt, tr) is called for every
    non-If statement after local assignments have been recorded in tr.env."""
    for st in body:
        if isinstance(st, ast.If):
            c = choose(ast.unparse(st.test))
            if c is True:
                symexec(st.body, tr, choose, hook)
            elif c is False:
                symexec(st.orelse, tr, choose, hook)
            continue
        if isinstance(st, ast.Assign) and len(st.targets) == 1 and isinstance(st.targets[0], ast.Name):
            name = st.targets[0].id
            val = st.value
            try:
                if isinstance(val, (ast.List, ast.Tuple)):
                    tr.env[name] = Sym([tr.tr(e) for e in val.elts])
                else:
                    tr.env[name] = tr.tr(val)
            except TranslateError:
                tr.env.pop(name, None)
        hook(st, tr)
