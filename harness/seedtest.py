"""Apply a seeded change to /repo, run the given checks, restore /repo.   python -m harness.seedtest <patch> C01 C02 ...
Prints one line per check: property, exit code, first VIOLATION / KNOWN-FINDING lines."""
import subprocess
import sys
import os

VERIF = os.path.dirname(os.path.dirname(os.path.abspath(__file__)))


def main():
    patch, props = sys.argv[1], sys.argv[2:]
    assert subprocess.run(['git', '-C', '/repo', 'status', '--porcelain'], capture_output=True, text=True).stdout.strip() == '', '/repo not clean'
    subprocess.run(['git', '-C', '/repo', 'apply', patch], check=True)
    res = {}
    try:
        for p in props:
            r = subprocess.run([os.path.join(VERIF, 'check'), p], capture_output=True, text=True, cwd=VERIF)
            lines = [l for l in r.stdout.split('\n') if l.startswith('VIOLATION') or l.startswith('violation detail') or l.startswith('alarm')]
            res[p] = r.returncode
            print(p, 'exit', r.returncode, '|', ' || '.join(l[:160] for l in lines[:3]))
    finally:
        subprocess.run(['git', '-C', '/repo', 'checkout', '--', '.'], check=True)
        # evidence written by runs on the changed tree must not replace the committed evidence of the unchanged tree
        subprocess.run(['git', '-C', VERIF, 'checkout', '--', 'evidence'], check=False)
        # regenerate translator outputs for the clean tree
        subprocess.run(['/venv/bin/python', '-m', 'harness.translate.generate_all'], cwd=VERIF,
                       env=dict(os.environ, PYTHONPATH=VERIF + ':/repo'), capture_output=True)
    return res


if __name__ == '__main__':
    main()
