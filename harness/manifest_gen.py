"""Writes MANIFEST.json from the table below (kept in one place so it stays valid)."""
import json
import os

VERIF = os.path.dirname(os.path.dirname(os.path.abspath(__file__)))

CHECKS = {
    'C08': dict(
        text='Lean theorems (all side lengths, parities, explicit sizes) over axis-map semantics whose integer index '
             'expressions are regenerated from the source by a translator on every run; hand-written store/load/np.pad '
             'semantics and layout logic tied by exact correspondence on index-tagged arrays.',
        note='Trusted: Lean kernel (axioms propext/Classical.choice/Quot.sound at most), the AST translator for index '
             'expressions, np.pad / slicing semantics as modelled (validated by correspondence), layout heuristic modelled by hand.',
        technique='Lean 4 proof (omega over regenerated index expressions) + translator + exact correspondence',
        ref='3/C08'),
}

NOT_YET = {}


def main():
    checks = []
    for pid in sorted(CHECKS):
        c = CHECKS[pid]
        checks.append({
            'property_id': pid,
            'quick_cmd': './check %s --tier quick' % pid,
            'thorough_cmd': './check %s --tier thorough' % pid,
            'evidence_file': 'evidence/%s.json' % pid,
            'replay_cmd_template': './check %s --replay {path}' % pid,
            'engine': 'odak-lean',
            'level_claimed': {'category': 'proof', 'text': c['text'], 'design_ref': 'DESIGN.md section ' + c['ref']},
            'level_note': c['note'],
            'technique': c['technique'],
        })
    allp = ['C%02d' % i for i in range(1, 21)]
    na = [{'property_id': p, 'reason': NOT_YET.get(p, 'not claimed yet: model, theorems and correspondence for this '
                                                   'property are still being built (see DESIGN.md section 8)')}
          for p in allp if p not in CHECKS]
    m = {
        'version': 1,
        'setup_cmd': './setup.sh',
        'hooks': {'guard': 'ODAK_VERIF', 'enable': 'no hooks are needed: checks import odak from /repo in-process',
                  'baseline_off_cmd': 'cd /repo && /venv/bin/python -m pytest -ra -q -p no:cacheprovider --timeout=900 --continue-on-collection-errors',
                  'source_commits': [], 'add_only': True},
        'engines': [{'name': 'odak-lean', 'path': 'lean/ + harness/', 'serves_properties': sorted(CHECKS),
                     'kind_free_text': 'Lean 4 model (Float-executable, theorems at R) + Python AST translator + correspondence/monitor harness'}],
        'checks': checks,
        'not_applicable': na,
        'notes': 'See DESIGN.md. known_findings.json lists genuine defects (known / fixed).',
    }
    with open(os.path.join(VERIF, 'MANIFEST.json'), 'w') as f:
        json.dump(m, f, indent=1)


if __name__ == '__main__':
    main()
