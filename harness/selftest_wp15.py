"""Self-tests of work package 15 (calc_statsmaps statement by statement).  Each mutation of MetamericLoss.calc_statsmaps is applied to a SCRATCH
worktree of the source (never to /repo), `./check C17` runs in this copy of the framework with ODAK_REPO pointing at the worktree, and the worktree
and the Generated files are restored afterwards.

    git -C /repo worktree add --detach /tmp/vwork/wp15_repo HEAD
    WP15_WORKTREE=/tmp/vwork/wp15_repo /venv/bin/python harness/selftest_wp15.py [1 2 3 4 control]
    git -C /repo worktree remove --force /tmp/vwork/wp15_repo

Expected: 1-4 change the regenerated text, break a named tie theorem (1 gen_metamericLossCalcStatsmapsFullG_rel, 2 gen_calcStatsmapsK1_rel,
3 gen_calcStatsmapsK2_rel, 4 gen_findStats_rel), give a concrete failing input and exit 1; the control changes the text, everything proves, exit 0."""
import os, subprocess, sys, re, json, time
WT = os.environ.get('WP15_WORKTREE', '/tmp/vwork/wp15_repo')
V = os.path.dirname(os.path.dirname(os.path.abspath(__file__)))
assert os.path.realpath(WT) != '/repo', 'never mutate /repo'
F = WT + '/odak/learn/perception/metameric_loss.py'
ORIG = open(F).read()

def sub(s, old, new, count=1):
    assert s.count(old) >= 1, old
    return s.replace(old, new, count)

def m1(s):   # pyramid maker re-created only when it is None
    return sub(s, """        if self.pyramid_maker is None or \\
                self.pyramid_maker.device != self.device or \\
                len(self.pyramid_maker.band_filters) != self.n_orientations or\\
                self.pyramid_maker.filt_h0.size(0) != image.size(1):
            self.pyramid_maker = SpatialSteerablePyramid(""", """        if self.pyramid_maker is None:
            self.pyramid_maker = SpatialSteerablePyramid(""")

def m2(s):   # blur list created once
    return sub(s, "        if self.blurs is None or len(self.blurs) != self.n_pyramid_levels:\n", "        if self.blurs is None:\n")

def m3(s):   # fovea mask stored on the first call and reused
    s = sub(s, "        self.blurs = None\n", "        self.blurs = None\n        self.fovea_mask = None\n")
    old = """            self.fovea_mask = torch.zeros(image.size(), device=image.device)
            for i in range(self.fovea_mask.size(1)):
                self.fovea_mask[0, i, ...] = 1.0 - \\
                    (self.blurs[0].lod_map / torch.max(self.blurs[0].lod_map))
                self.fovea_mask[0, i, self.blurs[0].lod_map < 1e-6] = 1.0
            self.fovea_mask = torch.pow(self.fovea_mask, 10.0)
"""
    new = """            if self.fovea_mask is None:
                self.fovea_mask = torch.zeros(image.size(), device=image.device)
                for i in range(self.fovea_mask.size(1)):
                    self.fovea_mask[0, i, ...] = 1.0 - \\
                        (self.blurs[0].lod_map / torch.max(self.blurs[0].lod_map))
                    self.fovea_mask[0, i, self.blurs[0].lod_map < 1e-6] = 1.0
                self.fovea_mask = torch.pow(self.fovea_mask, 10.0)
"""
    return sub(s, old, new)

def m4(s):   # the blurs are called with the gaze of the previous call
    s = sub(s, "        self.blurs = None\n", "        self.blurs = None\n        self.last_gaze = None\n")
    s = sub(s, "        def find_stats(image_pyr_level, blur):\n", "        if self.last_gaze is None:\n            self.last_gaze = gaze\n\n        def find_stats(image_pyr_level, blur):\n")
    s = s.replace("real_image_width, real_viewing_distance, centre=gaze, mode=mode, equi=self.equi)", "real_image_width, real_viewing_distance, centre=self.last_gaze, mode=mode, equi=self.equi)")
    s = s.replace("real_image_width, real_viewing_distance, centre=gaze, mode=mode, equi=self.equi)", "real_image_width, real_viewing_distance, centre=self.last_gaze, mode=mode, equi=self.equi)")
    s = sub(s, "        return output_stats\n", "        self.last_gaze = gaze\n        return output_stats\n")
    return s

def control(s):   # locals renamed in calc_statsmaps
    i, j = s.index("    def calc_statsmaps"), s.index("    def metameric_loss_stats")
    body = s[i:j]
    body = re.sub(r"\boutput_stats\b", "stats_out", body)
    body = re.sub(r"\bmeans, variances\b", "mu, sd", body)
    body = re.sub(r"\bmeans\b(?! \*)", "mu", body).replace("means *", "mu *")
    body = re.sub(r"\bvariances\b", "sd", body)
    body = body.replace("image_mu", "image_means")
    return s[:i] + body + s[j:]

TESTS = [('1 pyramid maker only when None', m1), ('2 blur list never rebuilt', m2), ('3 fovea mask stored once', m3),
         ('4 blurs called with the previous gaze', m4), ('control: locals renamed', control)]

def run(cmd, env=None, cwd=None):
    e = dict(os.environ); e.update(env or {})
    p = subprocess.run(cmd, shell=True, cwd=cwd, env=e, capture_output=True, text=True)
    return p.returncode, p.stdout + p.stderr

only = sys.argv[1:] 
results = []
for name, fn in TESTS:
    if only and not any(name.startswith(o) for o in only):
        continue
    open(F, 'w').write(fn(ORIG))
    try:
        # is the python still valid, and what do the translators say?
        rc, out = run('/venv/bin/python -c "import ast,sys; ast.parse(open(sys.argv[1]).read())" ' + F)
        assert rc == 0, out
        gen_before = open(V + '/lean/OdakModel/Generated/StatsMaps.lean').read()
        sm_before = open(V + '/lean/OdakModel/Generated/StateMachines.lean').read()
        rc, out = run('PYTHONPATH=%s /venv/bin/python -c "from harness.translate import statsmaps, statemachines as s; t,e=statsmaps.generate(); t2,e2=s.generate(); import sys; sys.stdout.write(repr((e, e2, len(t), len(t2))))"' % V, env={'ODAK_REPO': WT}, cwd=V)
        trans = out.strip().split('\n')[-1]
        t0 = time.time()
        rc, out = run('./check C17', env={'ODAK_REPO': WT}, cwd=V)
        wall = time.time() - t0
        lines = [l for l in out.split('\n') if l.startswith('alarm') or l.startswith('VIOLATION') or l.startswith('violation detail') or 'exit ' in l or 'translator' in l.lower()]
        ev = json.load(open(V + '/evidence/C17.json'))
        tie = ev['coverage'].get('model_tie', '')
        results.append((name, rc, trans, tie, lines, wall))
        print('=' * 100)
        print(name, '-> exit', rc, '(%.0f s)' % wall)
        print('translators (errors StatsMaps, errors StateMachines, sizes):', trans[:600])
        print('model tie:', tie[:700])
        for l in lines[:14]:
            print('   ', l[:700])
    finally:
        open(F, 'w').write(ORIG)
        run('git checkout lean/OdakModel/Generated && rm -rf lean/.lake/accepted_generated', cwd=V)
print('worktree clean:', run('git status --short', cwd=WT)[1].strip() == '')
