"""Run checks against a seeded change WITHOUT touching /repo (so several can run side by side and nothing else that reads /repo is disturbed):

    python -m harness.seedtest2 <patch.diff> <slot> C01 C02 ...

* /tmp/vseed/<slot>        = rsync copy of /verif as it is now (own lean/.lake, own Generated files, own evidence)
* /tmp/vseed/<slot>_repo   = scratch git worktree of /repo HEAD with the patch applied (ODAK_REPO points at it)
Both are removed afterwards (the verif copy is kept with KEEP=1 to speed up the next use of the slot).
Prints one line per check: property, exit code, first VIOLATION / alarm lines.  The official confirmation of a seeded change is still
`python -m harness.seedtest` (git -C /repo apply ...; ./check ...; git -C /repo checkout -- .)."""
import os
import subprocess
import sys

VERIF = os.path.dirname(os.path.dirname(os.path.abspath(__file__)))


def main():
    patch, slot, props = os.path.abspath(sys.argv[1]), sys.argv[2], sys.argv[3:]
    base = '/tmp/vseed'
    os.makedirs(base, exist_ok=True)
    vdir, rdir = os.path.join(base, slot), os.path.join(base, slot + '_repo')
    subprocess.run(['rsync', '-a', '--delete', '--exclude', '.git', '--exclude', 'replays', VERIF + '/', vdir + '/'], check=True)
    subprocess.run(['git', '-C', '/repo', 'worktree', 'remove', '--force', rdir], capture_output=True)
    subprocess.run(['git', '-C', '/repo', 'worktree', 'add', '--detach', rdir, 'HEAD'], check=True, capture_output=True)
    try:
        if patch != '/dev/null':
            subprocess.run(['git', '-C', rdir, 'apply', patch], check=True)
        env = dict(os.environ, ODAK_REPO=rdir)
        for p in props:
            r = subprocess.run([os.path.join(vdir, 'check'), p], capture_output=True, text=True, cwd=vdir, env=env)
            lines = [l for l in r.stdout.split('\n') if l.startswith(('VIOLATION', 'violation detail', 'alarm', 'KNOWN-FINDING'))]
            print(p, 'exit', r.returncode, '|', ' || '.join(l[:200] for l in lines[:4]), flush=True)
            if r.returncode not in (0, 1):
                print('   stderr tail:', r.stderr[-400:])
    finally:
        subprocess.run(['git', '-C', '/repo', 'worktree', 'remove', '--force', rdir], capture_output=True)
        if not os.environ.get('KEEP'):
            subprocess.run(['rm', '-rf', vdir])


if __name__ == '__main__':
    main()
