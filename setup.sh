#!/bin/bash
# Build the framework offline from files on disk: regenerate the translator outputs from /repo,
# then build the model, the proofs and the compiled model driver.
set -e
cd "$(dirname "$0")"
export PYTHONPATH="$(pwd)":${ODAK_REPO:-/repo} PYTHONDONTWRITEBYTECODE=1
/venv/bin/python -m harness.translate.generate_all
cd lean
lake build OdakModel odakdrv
lake build OdakProofs || echo "setup: some proof modules did not build (each check reports its own)"
