import OdakModel.Vec3
/-!
  Ray / triangle geometry, reflection, refraction (`odak/learn/raytracing/boundary.py`, `primitives.py`
  and the NumPy twins).  A ray is (origin, direction cosines); a surface normal is (point, direction).
-/
namespace Odak
variable {α : Type} [Num α]
open Num

/-- `center_of_triangle`: mean of the three corners -/
def centerOfTriangle (p0 p1 p2 : Vec3 α) : Vec3 α := Vec3.sdiv (p0 + p1 + p2) (Num.ofNat 3)

/-- un-normalised normal: `cross(p0 - p1, p2 - p1)` -/
def triangleCross (p0 p1 p2 : Vec3 α) : Vec3 α := Vec3.cross (p0 - p1) (p2 - p1)

/-- `get_triangle_normal(...)[1]`: the cross product divided by its Euclidean length -/
def triangleNormalDir (p0 p1 p2 : Vec3 α) : Vec3 α :=
  let c := triangleCross p0 p1 p2
  Vec3.sdiv c (Vec3.norm c)

/-- result of `intersect_w_surface` for one ray and one triangle -/
structure Hit (α : Type) where
  point : Vec3 α
  normal : Vec3 α
  distance : α

/-- signed ray parameter `t = n·(c - o) / (n·d)` -/
def rayParam (o d c n : Vec3 α) : α := Vec3.dot n (c - o) / Vec3.dot n d

/-- torch `intersect_w_surface`: hit point `o + t d`, normal direction, signed distance `t` -/
def intersectSurface (o d p0 p1 p2 : Vec3 α) : Hit α :=
  let n := triangleNormalDir p0 p1 p2
  let t := rayParam o d (centerOfTriangle p0 p1 p2) n
  ⟨o + Vec3.smul t d, n, t⟩

/-- NumPy `intersect_w_surface`: same hit point and normal, but the distance is returned as `|t|` -/
def npIntersectSurface (o d p0 p1 p2 : Vec3 α) : Hit α :=
  let h := intersectSurface o d p0 p1 p2
  ⟨h.point, h.normal, Num.abs h.distance⟩

/-- torch `is_it_on_triangle`: barycentric coordinates `(u, v)` w.r.t. `v0 = p2 - p0`, `v1 = p1 - p0` -/
def baryUV (pt p0 p1 p2 : Vec3 α) : α × α :=
  let v0 := p2 - p0
  let v1 := p1 - p0
  let v2 := pt - p0
  let d00 := Vec3.dot v0 v0; let d01 := Vec3.dot v0 v1; let d02 := Vec3.dot v0 v2
  let d11 := Vec3.dot v1 v1; let d12 := Vec3.dot v1 v2
  let inv := (1 : α) / (d00 * d11 - d01 * d01)
  ((d11 * d02 - d01 * d12) * inv, (d00 * d12 - d01 * d02) * inv)

def isOnTriangle (pt p0 p1 p2 : Vec3 α) : Bool :=
  let (u, v) := baryUV pt p0 p1 p2
  decide ((0 : α) ≤ u) && decide ((0 : α) ≤ v) && decide (u + v < 1)

/-- NumPy `same_side(p1, p2, a, b)` and the three-sided test -/
def sameSide (p1 p2 a b : Vec3 α) : Bool :=
  decide ((0 : α) ≤ Vec3.dot (Vec3.cross (b - a) (p1 - a)) (Vec3.cross (b - a) (p2 - a)))
def npIsOnTriangle (pt p0 p1 p2 : Vec3 α) : Bool :=
  sameSide pt p0 p1 p2 && sameSide pt p1 p0 p2 && sameSide pt p2 p0 p1

/-- `reflect`: `d - 2 (d·n / (n·n + ε)) n`; ε = 0 in NumPy, 1e-8 in torch (regenerated constant) -/
def reflectDir (eps : α) (d n : Vec3 α) : Vec3 α :=
  d - Vec3.smul (Num.two * (Vec3.dot d n / (Vec3.dot n n + eps))) n

/-! ### refraction (Spencer–Murty): `out = μ d + τ n`, `τ² + 2 a τ + b = 0` solved by Newton -/

def refrA (mu : α) (d n : Vec3 α) : α := mu * Vec3.dot d n / Vec3.dot n n
def refrB (mu : α) (n : Vec3 α) : α := (sq mu - 1) / Vec3.dot n n
/-- the code's start value `-b/(2a)` -/
def refrStart (a b : α) : α := -b * Num.half / a
/-- one pass of the loop body: `to - v/deltav` -/
def refrStep (a b t : α) : α := t - (sq t + Num.two * a * t + b) / (Num.two * (t + a))

inductive RefrResult (α : Type) where
  | tir                       -- total internal reflection: flagged (NaN direction)
  | noConvergence             -- fuel exhausted (the real loop would still be running)
  | ok (tau : α) (iters : Nat)

/-- the `while eps > error` loop with fuel -/
def refrLoop (a b err : α) : Nat → Nat → α → α → RefrResult α
  | 0, it, t, eps => if err < eps then .noConvergence else .ok t it
  | k + 1, it, t, eps =>
    if err < eps then
      let t' := refrStep a b t
      refrLoop a b err k (it + 1) t' (Num.abs (t - t'))
    else .ok t it

/-- torch `refract` for one ray: TIR flag first (a² - b < 0), then the loop started with `eps = 2·error` -/
def refractTau (mu err : α) (d n : Vec3 α) (fuel : Nat) : RefrResult α :=
  let a := refrA mu d n
  let b := refrB mu n
  if sq a - b < 0 then .tir else refrLoop a b err fuel 0 (refrStart a b) (err * Num.two)

def refractDir (mu tau : α) (d n : Vec3 α) : Vec3 α := Vec3.smul mu d + Vec3.smul tau n

end Odak
