import OdakModel.Num
/-! 3-vectors and 3×3 matrices over the scalar class. -/
namespace Odak

structure Vec3 (α : Type) where
  x : α
  y : α
  z : α
deriving Repr

namespace Vec3
variable {α : Type} [Num α]
def add (a b : Vec3 α) : Vec3 α := ⟨a.x + b.x, a.y + b.y, a.z + b.z⟩
def sub (a b : Vec3 α) : Vec3 α := ⟨a.x - b.x, a.y - b.y, a.z - b.z⟩
def neg (a : Vec3 α) : Vec3 α := ⟨-a.x, -a.y, -a.z⟩
def smul (c : α) (a : Vec3 α) : Vec3 α := ⟨c * a.x, c * a.y, c * a.z⟩
def sdiv (a : Vec3 α) (c : α) : Vec3 α := ⟨a.x / c, a.y / c, a.z / c⟩
def dot (a b : Vec3 α) : α := a.x * b.x + a.y * b.y + a.z * b.z
def cross (a b : Vec3 α) : Vec3 α :=
  ⟨a.y * b.z - a.z * b.y, a.z * b.x - a.x * b.z, a.x * b.y - a.y * b.x⟩
def normSq (a : Vec3 α) : α := dot a a
def norm (a : Vec3 α) : α := Num.sqrt (normSq a)
def compSum (a : Vec3 α) : α := a.x + a.y + a.z
def zero : Vec3 α := ⟨0, 0, 0⟩
instance : Add (Vec3 α) := ⟨add⟩
instance : Sub (Vec3 α) := ⟨sub⟩
instance : Neg (Vec3 α) := ⟨neg⟩
end Vec3

/-- row-major 3×3 matrix -/
structure Mat3 (α : Type) where
  a00 : α
  a01 : α
  a02 : α
  a10 : α
  a11 : α
  a12 : α
  a20 : α
  a21 : α
  a22 : α
deriving Repr

namespace Mat3
variable {α : Type} [Num α]
def one : Mat3 α := ⟨1, 0, 0, 0, 1, 0, 0, 0, 1⟩
def mul (A B : Mat3 α) : Mat3 α :=
  ⟨A.a00*B.a00 + A.a01*B.a10 + A.a02*B.a20, A.a00*B.a01 + A.a01*B.a11 + A.a02*B.a21, A.a00*B.a02 + A.a01*B.a12 + A.a02*B.a22,
   A.a10*B.a00 + A.a11*B.a10 + A.a12*B.a20, A.a10*B.a01 + A.a11*B.a11 + A.a12*B.a21, A.a10*B.a02 + A.a11*B.a12 + A.a12*B.a22,
   A.a20*B.a00 + A.a21*B.a10 + A.a22*B.a20, A.a20*B.a01 + A.a21*B.a11 + A.a22*B.a21, A.a20*B.a02 + A.a21*B.a12 + A.a22*B.a22⟩
def transpose (A : Mat3 α) : Mat3 α :=
  ⟨A.a00, A.a10, A.a20, A.a01, A.a11, A.a21, A.a02, A.a12, A.a22⟩
def mulVec (A : Mat3 α) (v : Vec3 α) : Vec3 α :=
  ⟨A.a00*v.x + A.a01*v.y + A.a02*v.z, A.a10*v.x + A.a11*v.y + A.a12*v.z, A.a20*v.x + A.a21*v.y + A.a22*v.z⟩
def det (A : Mat3 α) : α :=
  A.a00 * (A.a11 * A.a22 - A.a12 * A.a21) - A.a01 * (A.a10 * A.a22 - A.a12 * A.a20)
    + A.a02 * (A.a10 * A.a21 - A.a11 * A.a20)
instance : Mul (Mat3 α) := ⟨mul⟩
end Mat3

end Odak
