import OdakModel.Num
import OdakModel.Generated.Caches
/-!
  Losses (`odak/learn/tools/loss.py`, `odak/learn/wave/loss.py`, `odak/learn/perception/image_quality_losses.py`)
  as functions of flattened images (lists of samples), and the lazily refreshed caches of the
  gaze-contingent losses as a generic keyed cache.
-/
namespace Odak
variable {α : Type} [Num α]
open Num

def sumL (xs : List α) : α := xs.foldl (· + ·) 0
/-- `torch.nn.MSELoss()(a, b)` on flattened tensors of equal length -/
def mse (a b : List α) : α := sumL (List.zipWith (fun x y => sq (x - y)) a b) / Num.ofNat a.length
/-- `multiplane_loss.__call__`: `w0·MSE(img, tgt) + w1·MSE(img·mask, tgt·mask) + w2·MSE(img·tgt, tgt·tgt)` -/
def multiplaneLoss (w0 w1 w2 : α) (img tgt mask : List α) : α :=
  w0 * mse img tgt + w1 * mse (List.zipWith (· * ·) img mask) (List.zipWith (· * ·) tgt mask)
    + w2 * mse (List.zipWith (· * ·) img tgt) (List.zipWith (· * ·) tgt tgt)
/-- `wrapped_mean_squared_error(image, ground_truth, 'mean')` -/
def wrappedMse (a b : List α) : α :=
  sumL (List.zipWith (fun x y => sq (Num.sin x - Num.sin y) + sq (Num.cos x - Num.cos y)) a b) / Num.ofNat a.length
/-- `total_variation_loss` of a 1-row-major grid given as list of rows -/
def tvLoss (rows : List (List α)) : α :=
  let dx := rows.map fun r => sumL (List.zipWith (fun a b => sq (b - a)) r r.tail)
  let dy := List.zipWith (fun r s => sumL (List.zipWith (fun a b => sq (b - a)) r s)) rows rows.tail
  (sumL dx + sumL dy) / Num.ofNat (rows.length * (rows.headD []).length)
/-- `PSNR.forward`: `20 log10(peak / sqrt(mse))` -/
def psnr (peak m : α) : α := Num.ofNat 20 * (Num.log (peak / Num.sqrt m) / Num.log (Num.ofNat 10))
/-- `histogram_loss`: MSE of the bin counts -/
def histogramLoss (countsA countsB : List α) : α := mse countsA countsB
/-- `speckle_contrast` of one window with mean `mu` and mean of squares `m2`: `sqrt(m2 - mu²)/mu` -/
def speckleWindow (mu m2 : α) : α := Num.sqrt (m2 - sq mu) / mu

/-! ### a lazily refreshed cache keyed by `k`: `if key ≠ stored key: recompute` -/

/-- one use of the cache: returns the value used for key `k` and the new cache -/
def cacheStep {K V : Type} [DecidableEq K] (f : K → V) (s : Option (K × V)) (k : K) : Option (K × V) × V :=
  match s with
  | some (k', v) => if k' = k then (s, v) else (some (k, f k), f k)
  | none => (some (k, f k), f k)

/-- did this step recompute? (the observable "decision") -/
def cacheMiss {K V : Type} [DecidableEq K] (s : Option (K × V)) (k : K) : Bool :=
  match s with
  | some (k', _) => decide (k' ≠ k)
  | none => true

def cacheRun {K V : Type} [DecidableEq K] (f : K → V) : Option (K × V) → List K → Option (K × V) × List V
  | s, [] => (s, [])
  | s, k :: ks =>
    let (s', v) := cacheStep f s k
    let (s'', vs) := cacheRun f s' ks
    (s'', v :: vs)

end Odak
