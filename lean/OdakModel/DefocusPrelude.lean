import OdakModel.Kernels
/-!
  Vocabulary of `Generated/Defocus.lean` (the output of `harness/translate/defocus.py`).  Hand-written, Mathlib-free.

  * `gridSumR n m K`     – `torch.sum` of an `n × m` array of reals (rows outside, columns inside, left folds from 0).
  * `convSame n m K inp` – ONE output pixel of `torch.nn.functional.conv2d(input, kernel, padding = 'same')` (stride 1, one channel):
                           the cross-correlation `Σ_{a,b} K[a,b] · input[y + a - ⌊(n-1)/2⌋, x + b - ⌊(m-1)/2⌋]`.  `inp dy dx` is the input
                           displaced by `(dy, dx)` rows / columns from the output pixel; the zero padding is the caller's `inp`
                           being `0` outside the image.  (For an even side torch pads `⌊(n-1)/2⌋` in front and the rest behind.)
                           This is the external-library semantics of `conv2d` the C16 theorems take as given: a weighted sum over
                           the taps.
-/
namespace Odak
variable {α : Type} [Num α]

def gridSumR (n m : Nat) (K : Fin n → Fin m → α) : α := sumFinR n fun a => sumFinR m fun b => K a b

def convSame (n m : Nat) (K : Fin n → Fin m → α) (inp : Int → Int → α) : α :=
  gridSumR n m fun a b => K a b * inp ((a.val : Int) - (((n - 1) / 2 : Nat) : Int)) ((b.val : Int) - (((m - 1) / 2 : Nat) : Int))

end Odak
