import OdakModel.Propagate
import OdakModel.Index
/-!
  `odak.learn.wave.propagator`: the forward model object with its lazily filled kernel cache
  (`odak/learn/wave/propagators.py`).  State machine: `callStep`; `reconstruct` is the triple loop of calls.
-/
namespace Odak
variable {α : Type} [Num α]
open CGrid

/-- propagation method of the propagator (the three transfer-function methods) -/
inductive PMethod where | as | tf | bl
deriving DecidableEq, Repr

structure PropCfg (α : Type) where
  backAndForth : Bool
  method : PMethod
  dx : α
  wavelengths : List α
  distances : List α
  offset : α          -- image_location_offset
  z0 : α              -- zero_mode_distance (back_and_forth_distance)

/-- `get_propagation_kernel` for the configured method -/
def methodKernel (n m : Nat) (meth : PMethod) (dx lam z : α) : CGrid α n m :=
  match meth with
  | .as => asKernel n m dx lam z
  | .tf => tfKernel n m dx lam (wavenumber lam) z
  | .bl => blKernel n m dx lam z

/-- the kernel `__call__` builds for plane `d`, channel `c` -/
def kernelFor (n m : Nat) (cfg : PropCfg α) (d c : Nat) : CGrid α n m :=
  let lam := cfg.wavelengths.getD c 0
  let dist := cfg.distances.getD d 0
  if cfg.backAndForth then
    mul (methodKernel n m cfg.method cfg.dx lam cfg.z0)
        (methodKernel n m cfg.method cfg.dx lam (-(cfg.z0 + cfg.offset - dist)))
  else methodKernel n m cfg.method cfg.dx lam dist

/-- cache: association list keyed by (depth_id, channel_id) – `kernels` + `generated_kernels` -/
structure PState (α : Type) (n m : Nat) where
  cache : List ((Nat × Nat) × CGrid α n m)

def PState.init : PState α n m := ⟨[]⟩
def PState.generated (s : PState α n m) (d c : Nat) : Bool := (s.cache.lookup (d, c)).isSome

/-- one `__call__` at the padded resolution: look the kernel up, build and store it on a miss -/
def callStep {n m : Nat} (kf : Nat → Nat → CGrid α n m) (A : CGrid α n m) (s : PState α n m) (d c : Nat)
    (u : CGrid α n m) : PState α n m × CGrid α n m :=
  match s.cache.lookup (d, c) with
  | some H => (s, custom u H A)
  | none => let H := kf d c; (⟨((d, c), H) :: s.cache⟩, custom u H A)

/-- what a freshly built propagator returns for the same arguments -/
def freshCall {n m : Nat} (kf : Nat → Nat → CGrid α n m) (A : CGrid α n m) (d c : Nat) (u : CGrid α n m) : CGrid α n m :=
  custom u (kf d c) A

/-- run a sequence of calls, collecting the outputs -/
def runCalls {n m : Nat} (kf : Nat → Nat → CGrid α n m) (A : CGrid α n m) :
    PState α n m → List (Nat × Nat × CGrid α n m) → PState α n m × List (CGrid α n m)
  | s, [] => (s, [])
  | s, (d, c, u) :: rest =>
    let (s', o) := callStep kf A s d c u
    let (s'', os) := runCalls kf A s' rest
    (s'', o :: os)

/-- the calls `reconstruct` makes: frames × depths × channels, in that nesting order -/
def reconstructOps {β : Type} (frames depths channels : Nat) (field : Nat → Nat → β) : List (Nat × Nat × β) :=
  (List.range frames).flatMap fun f => (List.range depths).flatMap fun d => (List.range channels).map fun c => (d, c, field f c)

/-! ### zero-pad / crop of grids through the regenerated index maps -/

def padGrid {h w : Nat} (u : CGrid α h w) : CGrid α (2 * h) (2 * w) :=
  let m0 := (Index.torchPad false 0 h w 0 0).2
  let m1 := (Index.torchPad false 1 h w 0 0).2
  Grid.ofFn fun i j =>
    match m0.src i.val, m1.src j.val with
    | some a, some b => if ha : a < h then if hb : b < w then u.get ⟨a, ha⟩ ⟨b, hb⟩ else 0 else 0
    | _, _ => 0

def cropGrid {h w : Nat} (v : CGrid α (2 * h) (2 * w)) : CGrid α h w :=
  let m0 := Index.torchCrop false 0 (2 * h) (2 * w) 0 0
  let m1 := Index.torchCrop false 1 (2 * h) (2 * w) 0 0
  Grid.ofFn fun i j =>
    match m0.src i.val, m1.src j.val with
    | some a, some b => if ha : a < 2 * h then if hb : b < 2 * w then v.get ⟨a, ha⟩ ⟨b, hb⟩ else 0 else 0
    | _, _ => 0

end Odak
