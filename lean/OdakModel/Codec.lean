import OdakModel.Num
import OdakModel.Generated.Codec
/-!
  Value-level model of the save/load helpers (`odak/tools/file.py`, `odak/learn/tools/file.py`, `odak/tools/asset.py`).
  The codecs themselves (PNG via cv2, JSON, plyfile, torch.save) and the file system are parameters (trusted lossless
  byte stores); what is modelled is what odak does around them.
-/
namespace Odak
variable {α : Type} [Num α]
open Odak.Gen

/-- `save_image` level of one sample: clip to `[cmin, cmax]`, divide by `cmax`, scale by `2^depth - 1`, truncate -/
def saveLevel (cmin cmax : α) (depth : Nat) (v : α) : α :=
  let c := if v < cmin then cmin else if cmax < v then cmax else v
  Num.trunc (c / cmax * Num.ofNat (2 ^ depth - 1))

/-- apply channel copies `dst[a] = src[b]` (others kept) to a channel index map: which source channel ends up in `k` -/
def swapSource (swaps : List (Nat × Nat)) (k : Nat) : Nat :=
  match swaps.find? (fun p => p.1 = k) with
  | some p => p.2
  | none => k

/-- the channel of the original image that ends up in channel `k` after `save_image` then `load_image` -/
def saveLoadChannel (k : Nat) : Nat := swapSource saveImageSwaps (swapSource loadImageSwaps k)

/-- torch `save_image`: CHW → HWC: flat index of (c, i, j) in CHW and of (i, j, c) in HWC -/
def chwIndex (C H W c i j : Nat) : Nat := (c * H + i) * W + j
def hwcIndex (C H W i j c : Nat) : Nat := (i * W + j) * C + c

/-- `write_PLY`: triangle `t` uses vertex rows `3t, 3t+1, 3t+2`; `read_PLY` looks vertex `ids[k]` up -/
def plyFace (t : Nat) : List Nat := [3 * t, 3 * t + 1, 3 * t + 2]
def plyVertexRow (t k : Nat) : Nat := 3 * t + k

/-! ### text files: `write_to_text_file` / `read_text_file` on character lists -/

/-- every line followed by a newline (format `"{}\n"`) -/
def writeLines : List (List Char) → List Char
  | [] => []
  | l :: ls => l ++ '\n' :: writeLines ls

/-- the `readline()` loop: split after every newline; a trailing fragment without newline is a last line;
    each returned line still carries its terminator, as `readline` returns it -/
def readLinesRaw : List Char → List Char → List (List Char)
  | [], acc => if acc.isEmpty then [] else [acc.reverse]
  | c :: cs, acc => if c = '\n' then ('\n' :: acc).reverse :: readLinesRaw cs [] else readLinesRaw cs (c :: acc)

/-- Python `str.rstrip(chars)`: drop trailing characters that satisfy `p` -/
def rstripBy (p : Char → Bool) (l : List Char) : List Char := (l.reverse.dropWhile p).reverse

/-- the strip predicate `read_text_file` uses (regenerated): `rstrip("\n")` strips newlines only, `rstrip()` all whitespace -/
def readStripPred : Char → Bool :=
  match readTextStrip with
  | ("rstrip", some cs) => fun c => cs.toList.contains c
  | ("rstrip", none) => fun c => c.isWhitespace
  | _ => fun _ => false

/-- the characters `str.splitlines()` treats as line boundaries (besides `\r\n`): \n \r \x0b \x0c \x1c \x1d \x1e \x85 U+2028 U+2029 -/
def isUnicodeLineBreak (c : Char) : Bool :=
  c = '\n' || c = '\r' || c.toNat = 0x0b || c.toNat = 0x0c || c.toNat = 0x1c || c.toNat = 0x1d || c.toNat = 0x1e ||
  c.toNat = 0x85 || c.toNat = 0x2028 || c.toNat = 0x2029

/-- `str.splitlines()` / `str.split('\n')`-style cutting: boundaries are dropped; `keepLast` says whether a final empty piece is kept
    (`split` keeps it, `splitlines` does not) -/
def splitOnBreaks (isBreak : Char → Bool) (keepLast : Bool) : List Char → List Char → List (List Char)
  | [], acc => if acc.isEmpty && !keepLast then [] else [acc.reverse]
  | c :: cs, acc => if isBreak c then acc.reverse :: splitOnBreaks isBreak keepLast cs [] else splitOnBreaks isBreak keepLast cs (c :: acc)

/-- `read_text_file`: the way the content is cut into lines is regenerated from the source (`readTextSplitter`), so is the strip -/
def readLines (s : List Char) : List (List Char) :=
  if readTextSplitter = "readline" then (readLinesRaw s []).map (rstripBy readStripPred)
  else if readTextSplitter = "splitlines" then (splitOnBreaks isUnicodeLineBreak false s []).map (rstripBy readStripPred)
  else (splitOnBreaks (fun c => c = '\n') true s []).map (rstripBy readStripPred)

/-! ### a ten-line file system for `copy_file` -/

abbrev FS := String → Option (List Nat)

/-- `shutil.copyfile(from, to)`: `none` when the source does not exist or both paths are the same file -/
def copyfile (fs : FS) (frm to : String) : Option FS :=
  if frm = to then none else
  match fs frm with
  | none => none
  | some bytes => some (fun p => if p = to then some bytes else fs p)

/-- `copy_file(source, destination)` with the argument wiring regenerated from the source -/
def copyFile (fs : FS) (source destination : String) : Option FS :=
  let pick := fun (nm : String) => if nm = "source" then source else if nm = "destination" then destination else ""
  copyfile fs (pick (copyFileArgs.getD 0 "")) (pick (copyFileArgs.getD 1 ""))

end Odak
