import OdakModel.Ten
import OdakModel.Generated.Pipelines
import OdakModel.Generated.WaveKernels
import OdakModel.PropagatorObjectTie
/-!
  Work package 16: the operations record `PropOps` of the REGENERATED propagator object, INSTANTIATED with the grid model - every field
  is an existing model definition on tensors `Ten α`:

  * `zeroPad` / `cropCenter`: the regenerated index maps (`padGrid` / `cropGrid` of `OdakModel/Propagator.lean`);
  * `custom`: the regenerated pipeline `Gen.customT` (`OdakModel/Generated/Pipelines.lean`);
  * `kernel`: the regenerated dispatch `Gen.propagationKernelT` with the regenerated kernels (scale = 1: the translator of the pipelines
    models `get_propagation_kernel` for `resolution_factor = 1`; a propagation type the dispatch does not know gives a zero kernel here,
    where the source raises);
  * `field`, `amplitude`, `phase`: the regenerated `Gen.genFieldT`, `Gen.calcAmplitudeT`, `Gen.calcPhaseT` per element;
  * indexing, arithmetic with broadcasting of 0-d operands, `zeros`, `eye`, `linspace`, `circular_binary_mask`: `OdakModel/Ten.lean`.

  Polymorphic over the scalar class: at `Float` it is what the driver op `gpi_seq` runs against the real `odak.learn.wave.propagator`,
  at `ℝ` it is what `C06_gen_object_documented_model_every_call_list` is about.  No Mathlib.
-/
namespace Odak
open Gen
variable {α : Type} [Num α]

/-- a float literal of the source, by its text (`1.0`, `2.0`, and any `digits.digits`) -/
def litNum (s : String) : α :=
  if s = "1.0" then Num.ofNat 1 else if s = "2.0" then Num.ofNat 2 else
  match s.splitOn "." with
  | [a, b] =>
    match a.toNat?, b.toNat? with
    | some x, some y => Num.ofSci (x * 10 ^ b.length + y) true b.length
    | _, _ => Num.ofNat 0
  | [a] => match a.toNat? with | some x => Num.ofNat x | none => Num.ofNat 0
  | _ => Num.ofNat 0

namespace Ten

/-- `get_propagation_kernel(nu, nv, dx, wavelength, distance, propagation_type, samples)` as a tensor; sizes as naturals -/
def kernelGridTen (ptype : String) (n m : Nat) (dx lam z : α) (s0 s1 s2 s3 : Nat) : Ten α :=
  match propagationKernelT ptype n m dx lam z s0 s1 s2 s3 with
  | some g => ofGrid g
  | none => zeros [n, m]

/-- `custom(field, kernel, aperture = aperture)` for a 2-d field of sides `n, m` -/
def customGridTen (n m : Nat) (u H A : Ten α) : Ten α := ofGrid (customT (toGrid n m u) (toGrid n m H) (toGrid n m A))

def customTen (u H A : Ten α) : Ten α :=
  match u.shape with
  | [n, m] => customGridTen n m u H A
  | _ => u

/-- `circular_binary_mask(px, py, r)`: `x = linspace(-px/2, px/2, px)`, `y` alike, 1 where `sqrt(x² + y²) < r` -/
def circMaskGrid (px py : Nat) (r : α) : CGrid α px py := Grid.ofFn fun i j =>
  let x := linspace (-(Num.ofNat px) / Num.two) (Num.ofNat px / Num.two) px i.val
  let y := linspace (-(Num.ofNat py) / Num.two) (Num.ofNat py / Num.two) py j.val
  if Num.sqrt (x * x + y * y) < r then ⟨1, 0⟩ else 0

/-- `x.squeeze(0)` -/
def squeeze0 (t : Ten α) : Ten α :=
  match t.shape with
  | 1 :: _ => getIdx t [0]
  | _ => t

/-- `torch.fft.ifftshift(x)` without `dim`: every axis is rolled by `-(n // 2)` -/
def ifftshiftAll (t : Ten α) : Ten α :=
  ⟨t.sh, fun r => t.el ((r.zip t.shape).map fun p => if p.2 = 0 then p.1 else (p.1 + ((p.2 / 2 : Nat) : Int)) % (p.2 : Int))⟩

/-- `torch.fft.ifft2(x)`: the last two axes -/
def ifft2Last (t : Ten α) : Ten α :=
  match t.shape.reverse with
  | m :: n :: _ =>
    ⟨t.sh, fun r =>
      let lead := r.take (r.length - 2)
      match r.drop (r.length - 2) with
      | [i, j] => (ofGrid (CGrid.ifft2 (toGrid n m (getIdx t lead)))).el [i, j]
      | _ => 0⟩
  | _ => t

/-- the statements of `reconstruct` between the allocation of the result and the loops: the amplitude (default: ones on the strided
    lattice) and the phases (scattered onto that lattice when `resolution_factor != 1`) -/
def prepareReconstruct (amp : Option (Ten α)) (ph : Ten α) (nch : Int) (res : List Int) (rf : Int) : Ten α × Ten α :=
  let h := (res.getD 0 0 * rf).toNat
  let w := (res.getD 1 0 * rf).toNat
  let onLattice : List Int → Bool := fun r =>
    match r with
    | [_, i, j] => i % rf == 0 && j % rf == 0
    | _ => false
  let a : Ten α := match amp with
    | some a => a
    | none => ofFn [nch.toNat, h, w] fun r => if onLattice r then ⟨1, 0⟩ else 0
  let p : Ten α :=
    if rf != 1 then ⟨a.sh, fun r =>
      match r with
      | [f, i, j] => if onLattice r then ph.el [f, i / rf, j / rf] else 0
      | _ => 0⟩
    else ph
  (a, p)

end Ten

open Ten in
/-- **the operations of the regenerated propagator object, interpreted in the grid model** -/
def propOpsGrid : PropOps (Ten α) α :=
  { lit := litNum
    scalar := Ten.real
    int := fun i => Ten.real (Num.int i)
    ofBool := Ten.ofBool
    truthy := Ten.truthy
    rofInt := Num.int
    rtruthy := fun r => !(decide (r ≤ 0 ∧ 0 ≤ r))
    radd := (· + ·), rsub := (· - ·), rmul := (· * ·), rdiv := (· / ·), rneg := fun a => -a
    add := Ten.zip (· + ·), sub := Ten.zip (· - ·), mul := Ten.zip (· * ·), div := Ten.zip Ten.cdiv, neg := Ten.map (fun z => -z)
    powInt := fun a n => Ten.map (fun z => Ten.cpow z n) a
    getIdx := Ten.getIdx, setIdx := Ten.setIdx, dim := Ten.dim, rank := Ten.rank
    tensorOfFloat := Ten.real
    tensorOfList := Ten.ofList
    tensorOfInts := fun l => Ten.ofList (l.map Num.int)
    linspace := fun a b n => Ten.ofFn [n.toNat] fun r =>
      match r with
      | [i] => ⟨Odak.linspace a b n.toNat i.toNat, 0⟩
      | _ => 0
    zeros := fun s _ => Ten.zeros (s.map Int.toNat)
    zerosLike := fun t => ⟨t.sh, fun _ => 0⟩
    eye := fun n m => Ten.ofFn [n.toNat, m.toNat] fun r =>
      match r with
      | [i, j] => if i = j then ⟨1, 0⟩ else 0
      | _ => 0
    maxAll := Ten.maxAll
    circularMask := fun r c s => Ten.ofGrid (circMaskGrid r.toNat c.toNat s.val.re)
    zeroPad := Ten.zeroPad
    cropCenter := Ten.cropCenter
    kernel := fun nu nv dx lam z pt s _ =>
      kernelGridTen pt nu.toNat nv.toNat dx lam z.val.re (s.getD 0 0).toNat (s.getD 1 0).toNat (s.getD 2 0).toNat (s.getD 3 0).toNat
    custom := Ten.customTen
    field := Ten.zip fun a p => genFieldT a.re p.re
    amplitude := Ten.map fun u => ⟨calcAmplitudeT u, 0⟩
    phase := Ten.map fun u => ⟨calcPhaseT u, 0⟩
    abs := Ten.map fun u => ⟨Cx.abs u, 0⟩
    cos := Ten.map fun u => ⟨Num.cos u.re, 0⟩
    ifftshift := Ten.ifftshiftAll
    ifft2 := Ten.ifft2Last
    squeeze := fun t k => if k = 0 then Ten.squeeze0 t else t
    prepareReconstruct := Ten.prepareReconstruct }

end Odak
