import OdakModel.Rotation
import OdakModel.Generated.Constants
/-! Ray construction and sample-point generators (`odak/learn/raytracing/ray.py`, `odak/raytracing/ray.py`,
    `odak/tools/sample.py`, `odak/learn/tools/sample.py`). -/
namespace Odak
variable {α : Type} [Num α]
open Num

/-- `create_ray_from_two_points`: direction cosines `(p1 - p0)/|p1 - p0|`; coincident points give a
    zero length which the code replaces by NaN (modelled as `none`) -/
def rayDirTwoPoints (p0 p1 : Vec3 α) : Vec3 α := Vec3.sdiv (p1 - p0) (Vec3.norm (p1 - p0))

/-- torch `create_ray(xyz, abg)`: direction cosines `cos(deg2rad(abg))` per component (`direction = False`) -/
def createRayDir (abg : Vec3 α) : Vec3 α :=
  let c := fun (a : α) => Num.cos (a * Num.pi / Num.ofNat 180)
  ⟨c abg.x, c abg.y, c abg.z⟩

/-- `propagate_ray`: new start point `distance · d + o` -/
def propagateRay (o d : Vec3 α) (t : α) : Vec3 α := ⟨t * d.x + o.x, t * d.y + o.y, t * d.z + o.z⟩

/-- `create_ray_from_all_pairs`: start index and end index of ray number `idx` among `m·n` rays -/
def allPairsIndex (n idx : Nat) : Nat × Nat := (idx / n, idx % n)

/-- luminous-angle cone: `cos θ = 1 - c·U·(1 - cos α)`; `c` is regenerated from the source -/
def coneCosTheta (c U cosAlpha : α) : α := 1 - c * U * (1 - cosAlpha)
/-- local direction `(sin θ cos φ, sin θ sin φ, cos θ)` -/
def coneLocal (θ φ : α) : Vec3 α := ⟨Num.sin θ * Num.cos φ, Num.sin θ * Num.sin φ, Num.cos θ⟩
/-- tilt matrix `Rz · Ry · Rx` of the generators (tilt in degrees) -/
def coneTilt (tilt : Vec3 α) : Mat3 α := rotFromOrder .torch [.z, .y, .x] tilt
/-- direction of one emitted ray: uniform variates `U, V ∈ [0,1)`, limit in degrees -/
def coneDir (c : α) (tilt : Vec3 α) (limitDeg U V : α) : Vec3 α :=
  let cosA := Num.cos (limitDeg * Num.pi / Num.ofNat 180)
  (coneTilt tilt).mulVec (coneLocal (Num.acos (coneCosTheta c U cosA)) (Num.two * Num.pi * V))

/-! ### sample generators before the final `rotate_points(samples, angles, offset = center)` -/

/-- NumPy `grid_sample` point `(i, j)`: `x = i·size0/(no0-1) - size0/2` -/
def gridPoint (no0 no1 : Nat) (s0 s1 : α) (i j : Nat) : Vec3 α :=
  ⟨Num.ofNat i * (s0 / Num.ofNat (no0 - 1)) - s0 / Num.two, Num.ofNat j * (s1 / Num.ofNat (no1 - 1)) - s1 / Num.two, 0⟩

/-- NumPy `box_volume_sample` point: cell centres -/
def boxPoint (no0 no1 no2 : Nat) (s0 s1 s2 : α) (i j k : Nat) : Vec3 α :=
  let c := fun (no : Nat) (s : α) (t : Nat) => Num.ofNat t * (s / Num.ofNat no) + (s / Num.ofNat no) / Num.two - s / Num.two
  ⟨c no0 s0 i, c no1 s1 j, c no2 s2 k⟩

/-- NumPy `circular_sample` point `(a, r)`, `1 ≤ a ≤ no0`, `1 ≤ r ≤ no1` -/
def circularPoint (no0 no1 : Nat) (radius : α) (a r : Nat) : Vec3 α :=
  let rr := Num.ofNat r / Num.ofNat no1 * radius
  let ang := Num.ofNat a / Num.ofNat no0 * Num.pi * Num.two
  ⟨rr * Num.cos ang, rr * Num.sin ang, 0⟩

/-- NumPy `sphere_sample` point `(i, j)` -/
def spherePoint (no0 no1 : Nat) (radius : α) (center : Vec3 α) (k0 k1 : α) (i j : Nat) : Vec3 α :=
  let psi := k0 * Num.pi / Num.ofNat no0 * Num.ofNat i
  let teta := k1 * Num.pi / Num.ofNat no1 * Num.ofNat j
  ⟨center.x + radius * Num.sin psi * Num.cos teta, center.y + radius * Num.sin psi * Num.sin teta,
   center.z + radius * Num.cos psi⟩

/-- the final placement shared by the generators: NumPy `rotate_points(samples, angles, offset = center)` (mode XYZ, origin 0) -/
def placeSample (angles center p : Vec3 α) (anglesZero : Bool) : Vec3 α :=
  npRotatePoints [.z, .y, .x] angles ⟨0, 0, 0⟩ center p anglesZero

end Odak
