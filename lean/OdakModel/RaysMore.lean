import OdakModel.GenSamplePrelude
/-!
  Hand-written model of the ray-creation routines of `odak/raytracing/ray.py` that `OdakModel/Rays.lean` does not cover
  (`create_ray_from_angles`, `find_nearest_points`), as closed formulas.  The definitions REGENERATED from the source
  (`Generated/RayCreate.lean`) are tied to these in `OdakProofs/Lemmas/GenRayCreate.lean`.  Mathlib-free.
-/
namespace Odak
variable {α : Type} [Num α]

/-- NumPy `create_ray_from_angles(point, angles, mode)` for one start point: the point `(0, 0, 5)` is rotated about the origin with the
    matrix order of `mode` and shifted by the START POINT (`offset = point`); the ray goes from the start point to that point.
    `anglesZero` is the early return of `rotate_points` (no rotation at all). -/
def rayFromAngles (order : List Gen.Axis) (point angles : Vec3 α) (anglesZero : Bool) : Ray α :=
  ⟨point, rayDirTwoPoints point (npRotatePoints order angles ⟨0, 0, 0⟩ point ⟨0, 0, Num.ofNat 5⟩ anglesZero)⟩

/-- the mutually nearest points of two lines `o₀ + t d₀`, `o₁ + s d₁` (the `else` branch of `find_nearest_points`):
    with `n = d₀ × d₁`, `c₀ = o₀ + ((o₁ - o₀)·(d₁ × n) / d₀·(d₁ × n)) d₀` and symmetrically `c₁` -/
def nearestPoints (r0 r1 : Ray α) : Vec3 α × Vec3 α :=
  let n := Vec3.cross r0.d r1.d
  let n0 := Vec3.cross r0.d n
  let n1 := Vec3.cross r1.d n
  (r0.o + Vec3.smul (Vec3.dot (r1.o - r0.o) n1 / Vec3.dot r0.d n1) r0.d,
   r1.o + Vec3.smul (Vec3.dot (r0.o - r1.o) n0 / Vec3.dot r1.d n0) r1.d)

/-- the branch test of `find_nearest_points`, `np.all(n) == 0`: TRUE as soon as ONE component of `n = d₀ × d₁` is zero
    (not only for parallel rays) -/
def someCrossComponentZero (r0 r1 : Ray α) : Bool :=
  let n := Vec3.cross r0.d r1.d
  !((!(decide (n.x ≤ 0 ∧ 0 ≤ n.x))) && (!(decide (n.y ≤ 0 ∧ 0 ≤ n.y))) && (!(decide (n.z ≤ 0 ∧ 0 ≤ n.z))))

end Odak
