import OdakModel.Generated.PropagatorObject
/-!
  Hand-written counterpart of the REGENERATED propagator object (`OdakModel/Generated/PropagatorObject.lean`, written by
  `harness/translate/propobject.py` from `odak/learn/wave/propagators.py`): the values of all attributes of a constructed object
  (`PropObj`: one field per attribute - `PropObj.toSelf` lists every field of the regenerated structure, so an attribute the source gains or
  loses stops this file from compiling), the object `__init__` builds, the invariant of the lazily filled kernel buffers, the DOCUMENTED value
  of every call (what an object without any cached kernel returns), the calls a user can make (`PCall`) and one call of the regenerated
  step functions (`pStep`).  No Mathlib.
-/
namespace Odak
open Gen
variable {T R : Type} [DecidableEq R]

/-- the value of every attribute of a constructed `propagator`; tensors that are OBJECTS (written in place, taken over from the caller or
    handed out by reference) are heap locations -/
structure PropObj (T R : Type) where
  pixel_pitch : R
  wavelengths : List R
  resolution : List Int
  propagation_type : String
  resolution_factor : Int
  number_of_frames : Int
  number_of_depth_layers : Int
  number_of_channels : Int
  volume_depth : R
  image_location_offset : R
  propagator_type : String
  aperture_samples : List Int
  zero_mode_distance : T
  method : String
  aperture : Nat
  distances : Nat
  generated_kernels : Nat
  kernels : Nat
  channel_power : Nat
  phase_scale : T

/-- the attributes of the object: EVERY field of the regenerated structure -/
def PropObj.toSelf (o : PropObj T R) : PropagatorAttrs T R :=
  { device := some (), pixel_pitch := some o.pixel_pitch, wavelengths := some o.wavelengths, resolution := some o.resolution,
    propagation_type := some o.propagation_type, resolution_factor := some o.resolution_factor, number_of_frames := some o.number_of_frames,
    number_of_depth_layers := some o.number_of_depth_layers, number_of_channels := some o.number_of_channels,
    volume_depth := some o.volume_depth, image_location_offset := some o.image_location_offset, propagator_type := some o.propagator_type,
    aperture_samples := some o.aperture_samples, zero_mode_distance := some o.zero_mode_distance, method := some o.method,
    aperture := some o.aperture, distances := some o.distances, generated_kernels := some o.generated_kernels, kernels := some o.kernels,
    channel_power := some o.channel_power, phase_scale := some o.phase_scale }

/-- the attribute names, in the order of the source: must be the regenerated field list -/
def propObjFields : List String :=
  ["device", "pixel_pitch", "wavelengths", "resolution", "propagation_type", "resolution_factor", "number_of_frames", "number_of_depth_layers",
   "number_of_channels", "volume_depth", "image_location_offset", "propagator_type", "aperture_samples", "zero_mode_distance", "method",
   "aperture", "distances", "generated_kernels", "kernels", "channel_power", "phase_scale"]

/-- laws of the uninterpreted tensor numerics the theorems use: reading an element after an element store (the kernel buffer is
    `complex64`: the cast on the store is rounding, outside the exact model), the truth value of a stored bool, a new flag buffer is all
    false -/
structure PropLaws (E : PropOps T R) : Prop where
  get_set : ∀ (K : T) (i j : List Int) (v : T), i.length = j.length → E.getIdx (E.setIdx K i v) j = if i = j then v else E.getIdx K j
  truthy_ofBool : ∀ b, E.truthy (E.ofBool b) = b
  truthy_zeros : ∀ (shape : List Int) (dt : String) (i : List Int), E.truthy (E.getIdx (E.zeros shape dt) i) = false

/-! ### the documented values -/

/-- the kernel `__call__` builds for (depth, channel) given the content of `distances`; `none` = the source raises (unknown propagator
    type, no such wavelength, `resolution` shorter than two) -/
def pKernel (E : PropOps T R) (o : PropObj T R) (dists : T) (c d : Int) : Option T := do
  let r0 ← o.resolution[0]?
  let r1 ← o.resolution[1]?
  let lam ← o.wavelengths[c.toNat]?
  let k := fun z => E.kernel (r0 * 2) (r1 * 2) o.pixel_pitch lam z o.propagation_type o.aperture_samples o.resolution_factor
  if o.propagator_type = "forward" then some (k (E.getIdx dists [d]))
  else if o.propagator_type = "back and forth" then
    some (E.mul (k o.zero_mode_distance) (k (E.neg (E.sub (E.add o.zero_mode_distance (E.scalar o.image_location_offset)) (E.getIdx dists [d])))))
  else none

/-- pad, `custom` with the kernel and the aperture, crop -/
def pOut (E : PropOps T R) (ap H u : T) : T := E.cropCenter (E.custom (E.zeroPad u) H ap)

/-- the laser powers `reconstruct` reads, given the content of `channel_power` -/
def pPowers (E : PropOps T R) (o : PropObj T R) (cp : T) : Option T :=
  if o.method = "multi-color" then some (E.abs (E.cos cp)) else if o.method = "conventional" then some cp else none

/-- content of slot [frame, depth, channel] of what `reconstruct` returns -/
def pSlot (E : PropOps T R) (o : PropObj T R) (dists ap cp phases amp : T) (gc : Bool) (f d c : Int) : Option T := do
  let lp ← pPowers E o cp
  let H ← pKernel E o dists c d
  let r := pOut E ap H (E.field (E.mul (E.getIdx (E.getIdx lp [f]) [c]) (E.getIdx amp [c])) (E.mul (E.getIdx phases [f]) (E.getIdx o.phase_scale [c])))
  some (if gc then r else E.powInt (E.amplitude r) 2)

/-- `reconstruct` before its loops: (phases after the `squeeze`, dtype of the result, the new buffer, amplitude and phases after the
    resolution-factor plumbing) -/
def pReconHead (E : PropOps T R) (o : PropObj T R) (phases : T) (amp : Option T) (gc : Bool) : Option (T × T × T) := do
  let ph := if E.rank phases > 3 then E.squeeze phases 0 else phases
  let r0 ← o.resolution[0]?
  let r1 ← o.resolution[1]?
  let z := E.zeros [o.number_of_frames, o.number_of_depth_layers, o.number_of_channels, r0 * o.resolution_factor, r1 * o.resolution_factor]
    (if gc then "torch.complex64" else "torch.float32")
  let g := E.prepareReconstruct amp ph o.number_of_channels o.resolution o.resolution_factor
  some (z, g.1, g.2)

/-- the content of the buffer `reconstruct` returns: every slot [frame, depth, channel] of a NEW zero buffer is written once, with the field
    (or intensity) a propagator WITHOUT any cached kernel produces for that slot -/
def pRecon (E : PropOps T R) (o : PropObj T R) (dists ap cp phases : T) (amp : Option T) (gc : Bool) : Option T := do
  let hd ← pReconHead E o phases amp gc
  (List.range o.number_of_frames.toNat).foldlM (fun buf (f : Nat) => (List.range o.number_of_depth_layers.toNat).foldlM (fun buf (d : Nat) =>
    (List.range o.number_of_channels.toNat).foldlM (fun buf (c : Nat) =>
      (pSlot E o dists ap cp hd.2.2 hd.2.1 gc f d c).map (E.setIdx buf [(f : Int), (d : Int), (c : Int)])) buf) buf) hd.1

/-! ### the invariant -/

/-- a constructed propagator `o` in the heap `h`: `distances`, `aperture`, `channel_power` hold `dists`, `ap`, `cp`; the two cache buffers
    are objects of their own; every slot flagged as generated holds the kernel the source builds for it -/
structure PInv (E : PropOps T R) (o : PropObj T R) (h : Heap T) (dists ap cp : T) : Prop where
  hd : h.get o.distances = some dists
  ha : h.get o.aperture = some ap
  hc : h.get o.channel_power = some cp
  kg : o.kernels ≠ o.generated_kernels
  dk : o.distances ≠ o.kernels
  dg : o.distances ≠ o.generated_kernels
  ak : o.aperture ≠ o.kernels
  ag : o.aperture ≠ o.generated_kernels
  ck : o.channel_power ≠ o.kernels
  cg : o.channel_power ≠ o.generated_kernels
  coh : ∃ K G, h.get o.kernels = some K ∧ h.get o.generated_kernels = some G ∧
    ∀ d c, E.truthy (E.getIdx G [d, c]) = true → pKernel E o dists c d = some (E.getIdx K [d, c])

/-- the heap a `__call__` leaves: on a miss the kernel is written into its slot and the slot is flagged -/
def pCallHeap (E : PropOps T R) (o : PropObj T R) (h : Heap T) (K G H : T) (c d : Int) : Heap T :=
  if E.truthy (E.getIdx G [d, c]) then h
  else (h.set o.kernels (E.setIdx K [d, c] H)).set o.generated_kernels (E.setIdx G [d, c] (E.ofBool true))

/-! ### construction -/

/-- the constructor arguments (objects the caller passes: heap locations) -/
structure PropArgs (T R : Type) where
  resolution : List Int
  wavelengths : List R
  pixel_pitch : R
  resolution_factor : Int
  number_of_frames : Int
  number_of_depth_layers : Int
  volume_depth : R
  image_location_offset : R
  propagation_type : String
  propagator_type : String
  back_and_forth_distance : R
  laser_channel_power : Option Nat
  aperture : Option Nat
  aperture_size : Option T
  distances : Option Nat
  aperture_samples : List Int
  method : String

def PropArgs.rf (a : PropArgs T R) : Int := if a.propagation_type ≠ "Impulse Response Fresnel" then 1 else a.resolution_factor

/-- one call of the regenerated `__init__` on an object without attributes -/
def pInitCall (E : PropOps T R) (a : PropArgs T R) (h : Heap T) : Option (PropagatorAttrs T R × Heap T × Unit × List String) :=
  propagatorInitG E PropagatorAttrs.empty h a.resolution a.wavelengths a.pixel_pitch a.resolution_factor a.number_of_frames a.number_of_depth_layers
    a.volume_depth a.image_location_offset a.propagation_type a.propagator_type a.back_and_forth_distance a.laser_channel_power a.aperture
    a.aperture_size a.distances a.aperture_samples a.method ()

/-- the aperture `set_aperture` stores: the padded argument, or a circular mask of the given or the default size -/
def pApertureValue (E : PropOps T R) (resolution : List Int) (rf : Int) (apv : Option T) (size : Option T) : Option T :=
  match apv with
  | some v => some (E.mul (E.zeroPad v) (E.scalar (E.lit "1.0")))
  | none => do
    let r0 ← resolution[0]?
    let r1 ← resolution[1]?
    let sz := match size with
      | some s => s
      | none => E.maxAll (E.tensorOfInts [r0 * rf, r1 * rf])
    some (E.mul (E.circularMask (r0 * rf * 2) (r1 * rf * 2) sz) (E.scalar (E.lit "1.0")))

/-- `init_distances`: (heap, the object that holds the distances, number of depth layers): the CALLER'S tensor when one is passed -/
def pInitDistances (E : PropOps T R) (a : PropArgs T R) (h : Heap T) : Option (Heap T × Nat × Int) :=
  match a.distances with
  | none => some ((h.alloc (E.add (E.linspace (E.rdiv (E.rneg a.volume_depth) (E.lit "2.0")) (E.rdiv a.volume_depth (E.lit "2.0"))
      a.number_of_depth_layers) (E.scalar a.image_location_offset))).1, h.size, a.number_of_depth_layers)
  | some d => (h.get d).map fun dv => (h, d, E.dim dv 0)

/-- `init_channel_power`: (heap, the object that holds the laser powers): the CALLER'S tensor when one is passed -/
def pInitPowers (E : PropOps T R) (nf nch : Int) (lcp : Option Nat) (h : Heap T) : Heap T × Nat :=
  match lcp with
  | none => ((h.alloc (E.eye nf nch)).1, h.size)
  | some p => (h, p)

/-- what `__init__` builds: the attribute values and the heap.  New objects, in this order: the default distances (when none are
    passed), the flag buffer, the kernel buffer, the default channel powers (when none are passed), the aperture (always: the caller's
    aperture is padded into a new object) -/
def pInit (E : PropOps T R) (a : PropArgs T R) (h : Heap T) : Option (PropObj T R × Heap T) := do
  let nch : Int := a.wavelengths.length
  let dres ← pInitDistances E a h
  let h1 := dres.1
  let nd := dres.2.2
  let r0 ← a.resolution[0]?
  let r1 ← a.resolution[1]?
  let h2 := (h1.alloc (E.zeros [nd, nch] "")).1
  let h3 := (h2.alloc (E.zeros [nd, nch, r0 * a.rf * 2, r1 * a.rf * 2] "torch.complex64")).1
  let cres := pInitPowers E a.number_of_frames nch a.laser_channel_power h3
  let h4 := cres.1
  let apv ← h4.getOpt a.aperture
  let av ← pApertureValue E a.resolution a.rf apv a.aperture_size
  some ({ pixel_pitch := a.pixel_pitch, wavelengths := a.wavelengths, resolution := a.resolution, propagation_type := a.propagation_type,
          resolution_factor := a.rf, number_of_frames := a.number_of_frames, number_of_depth_layers := nd, number_of_channels := nch,
          volume_depth := a.volume_depth, image_location_offset := a.image_location_offset, propagator_type := a.propagator_type,
          aperture_samples := a.aperture_samples, zero_mode_distance := E.tensorOfFloat a.back_and_forth_distance, method := a.method,
          aperture := h4.size, distances := dres.2.1, generated_kernels := h1.size, kernels := h2.size, channel_power := cres.2,
          phase_scale := E.tensorOfList [E.lit "1.0", E.lit "1.0", E.lit "1.0"] },
        (h4.alloc av).1)

/-! ### the calls a user can make -/

inductive PCall (T : Type) where
  | forward (u : T) (c d : Int)
  | reconstruct (phases : T) (amp : Option T) (noGrad getComplex : Bool)
  | setPowers (p : Nat)
  | getPowers
  | getKernels
  | setAperture (ap : Option T) (size : Option T)

/-- what a call returns: its value(s), and the object when an object (not a value) is handed out -/
structure PRet (T : Type) where
  vals : List T
  obj : Option Nat

/-- one call of the regenerated step functions -/
def pStep (E : PropOps T R) (s : PropagatorAttrs T R × Heap T) : PCall T → Option ((PropagatorAttrs T R × Heap T) × PRet T)
  | .forward u c d => (propagatorCallG E s.1 s.2 u c d).map fun r => ((r.1, r.2.1), ⟨[r.2.2.1], none⟩)
  | .reconstruct ph amp ng gc =>
    (propagatorReconstructG E s.1 s.2 ph amp ng gc).bind fun r => (r.2.1.get r.2.2.1).map fun v => ((r.1, r.2.1), ⟨[v], some r.2.2.1⟩)
  | .setPowers p => (propagatorSetLaserPowersG E s.1 s.2 p).map fun r => ((r.1, r.2.1), ⟨[], none⟩)
  | .getPowers => (propagatorGetLaserPowersG E s.1 s.2).bind fun r => (r.2.1.get r.2.2.1).map fun v => ((r.1, r.2.1), ⟨[v], some r.2.2.1⟩)
  | .getKernels => (propagatorGetKernelsG E s.1 s.2).map fun r => ((r.1, r.2.1), ⟨[r.2.2.1.1, r.2.2.1.2], none⟩)
  | .setAperture ap size => (propagatorSetApertureG E s.1 s.2 ap size).map fun r => ((r.1, r.2.1), ⟨[], none⟩)

/-- the configuration a user can change after construction: WHICH object holds the laser powers, and the aperture -/
structure PRef (T : Type) where
  powers : Nat
  ap : T

/-- the REFERENCE semantics of a call - no kernel cache anywhere: the value is computed from the constructor configuration `o`, the
    content `dists` of the distances, the heap `h0` the caller's objects live in, the powers object and the aperture in force, and the
    arguments of the call.  `getKernels` is an observer of the cache and has no reference value (it is not listed here: `none`) -/
def pRefStep (E : PropOps T R) (o : PropObj T R) (dists : T) (h0 : Heap T) (g : PRef T) : PCall T → Option (PRef T × List T)
  | .forward u c d => (pKernel E o dists c d).map fun H => (g, [pOut E g.ap H u])
  | .reconstruct ph amp _ gc => (h0.get g.powers).bind fun cp => (pRecon E o dists g.ap cp ph amp gc).map fun v => (g, [v])
  | .setPowers p => some ({ g with powers := p }, [])
  | .getPowers => (h0.get g.powers).bind fun cp => (pPowers E o cp).map fun v => (g, [v])
  | .getKernels => none
  | .setAperture ap size => (pApertureValue E o.resolution o.resolution_factor ap size).map fun v => ({ g with ap := v }, [])

/-- the calls that change the configuration -/
def PCall.isSetter : PCall T → Bool
  | .setPowers _ => true
  | .setAperture _ _ => true
  | _ => false

end Odak
