import OdakModel.TensorPrelude
/-!
  Extension of the tensor vocabulary (`OdakModel/TensorPrelude.lean`) for `Generated/PadCrop.lean`, the output of
  `harness/translate/padcrop.py` (`zero_pad` / `crop_center` of `odak/learn/tools/matrix.py` and `odak/tools/matrix.py`):
  Python slices with INTEGER bounds (`a[lo:hi]`, negative bounds count from the end, bounds are clamped), reading such a
  window (`t[:, :, a:b, c:d]`), storing into it (`t[:, :, a:b, c:d] = v`, the stored value is broadcast to the window),
  `np.pad` with constant mode, `squeeze()` without an axis, and the conditions under which Python accepts the store / the pad
  (`storeOk`, `padOk`: when they are false Python raises; the tensor value is then unspecified).
  Hand-written, Mathlib-free, every definition executable at `Float`.  These semantics are the trusted model of torch / NumPy;
  they are validated on every run by the executable tie (`harness/props/genpadcrop.py`).
-/
namespace Odak
namespace Tensor
variable {α : Type}

/-- Python's reading of one bound `b` of a slice on an axis of length `n`: a negative bound counts from the end, the result is
    clamped to `0 .. n` -/
def sliceBound (n : Nat) (b : Int) : Nat :=
  if b < 0 then (b + (n : Int)).toNat else if (n : Int) < b then n else b.toNat

/-- one entry of a subscript: `none` is `:`, `some (lo, hi)` is `lo:hi` -/
abbrev Slice := Option (Int × Int)

/-- first position of the window on every axis (axes without an entry are taken whole) -/
def winLo : List Nat → List Slice → List Nat
  | [], _ => []
  | _ :: ss, [] => 0 :: winLo ss []
  | _ :: ss, none :: sl => 0 :: winLo ss sl
  | s :: ss, some (lo, _) :: sl => sliceBound s lo :: winLo ss sl

/-- shape of the window -/
def winShape : List Nat → List Slice → List Nat
  | [], _ => []
  | s :: ss, [] => s :: winShape ss []
  | s :: ss, none :: sl => s :: winShape ss sl
  | s :: ss, some (lo, hi) :: sl => (sliceBound s hi - sliceBound s lo) :: winShape ss sl

/-- is the multi-index inside the window that starts at `lo` and has the shape `w` -/
def inWin : List Nat → List Nat → List Nat → Bool
  | l :: ls, w :: ws, i :: is => decide (l ≤ i ∧ i < l + w) && inWin ls ws is
  | _, _, _ => true

def addIdx : List Nat → List Nat → List Nat
  | i :: is, l :: ls => (i + l) :: addIdx is ls
  | is, [] => is
  | [], _ => []

def subIdx : List Nat → List Nat → List Nat
  | i :: is, l :: ls => (i - l) :: subIdx is ls
  | is, [] => is
  | [], _ => []

/-- `t[s0, s1, …]` with slices only: the window, re-indexed from 0 -/
def slices (t : Tensor α) (sl : List Slice) : Tensor α :=
  ⟨winShape t.shape sl, fun idx => t.get (addIdx idx (winLo t.shape sl))⟩

/-- `t[s0, s1, …] = v` with slices only: the new value of `t` (`v` is broadcast to the window, right-aligned) -/
def setSlices (t : Tensor α) (sl : List Slice) (v : Tensor α) : Tensor α :=
  ⟨t.shape, fun idx =>
    if inWin (winLo t.shape sl) (winShape t.shape sl) idx then v.get (bidx v.shape (subIdx idx (winLo t.shape sl)))
    else t.get idx⟩

/-- can a value of shape `src` be broadcast to the shape `dst` (both given last axis first) -/
def bcastToRev : List Nat → List Nat → Bool
  | [], _ => true
  | _ :: _, [] => false
  | s :: ss, d :: ds => (decide (s = d) || decide (s = 1)) && bcastToRev ss ds

/-- Python accepts `t[s0, s1, …] = v` (otherwise: RuntimeError / ValueError "shape mismatch") -/
def storeOk (t : Tensor α) (sl : List Slice) (v : Tensor α) : Bool :=
  bcastToRev v.shape.reverse (winShape t.shape sl).reverse

/-! ### `np.pad(t, ((b0, a0), (b1, a1), …), constant_values = c)` -/

def padShape : List Nat → List (Int × Int) → List Nat
  | s :: ss, (b, a) :: ws => (b + (s : Int) + a).toNat :: padShape ss ws
  | _, _ => []

/-- does the output multi-index read the content (and not the constant) -/
def padInside : List Nat → List (Int × Int) → List Nat → Bool
  | s :: ss, (b, _) :: ws, i :: is => decide (b ≤ (i : Int) ∧ (i : Int) < b + (s : Int)) && padInside ss ws is
  | _, _, _ => true

def padSrc : List (Int × Int) → List Nat → List Nat
  | (b, _) :: ws, i :: is => ((i : Int) - b).toNat :: padSrc ws is
  | _, _ => []

def padConst (t : Tensor α) (w : List (Int × Int)) (c : α) : Tensor α :=
  ⟨padShape t.shape w, fun idx => if padInside t.shape w idx then t.get (padSrc w idx) else c⟩

/-- NumPy accepts the pad: one pair of non-negative widths per axis (a list of pairs is not broadcast over further axes) -/
def padOk (t : Tensor α) (w : List (Int × Int)) : Bool :=
  decide (w.length = t.shape.length) && w.all (fun p => decide (0 ≤ p.1 ∧ 0 ≤ p.2))

/-! ### `squeeze()` without an axis: every axis of length 1 goes -/

def squeezeAllShape : List Nat → List Nat
  | [] => []
  | s :: ss => if s = 1 then squeezeAllShape ss else s :: squeezeAllShape ss

/-- the multi-index of the original tensor that a multi-index of the squeezed tensor reads -/
def unsqueezeIdx : List Nat → List Nat → List Nat
  | [], _ => []
  | s :: ss, [] => if s = 1 then 0 :: unsqueezeIdx ss [] else 0 :: unsqueezeIdx ss []
  | s :: ss, i :: is => if s = 1 then 0 :: unsqueezeIdx ss (i :: is) else i :: unsqueezeIdx ss is

def squeezeAll (t : Tensor α) : Tensor α :=
  ⟨squeezeAllShape t.shape, fun idx => t.get (unsqueezeIdx t.shape idx)⟩

/-- Python list indexing with a possibly negative literal index -/
def pyGet (l : List Nat) (k : Int) : Nat := getAt l (nd k l.length)

end Tensor
end Odak
