import OdakModel.TensorPadPrelude
/-!
  Extension of the tensor vocabulary for `Generated/ImageCodec.lean`, the output of `harness/translate/imagecodec.py`
  (`save_image` / `load_image` of `odak/tools/file.py` and `odak/learn/tools/file.py`): dtype casts, boolean-mask assignment,
  a `for i in range(n)` loop as a fold, `torch.argmin` of a shape, `np.moveaxis`, floor division, and the one thing assumed about
  `cv2.imwrite` / `cv2.imread(…, IMREAD_UNCHANGED)`: a lossless codec on unsigned-integer arrays that returns an `[m x n x 1]`
  array as `[m x n]` (`pngRoundTrip`).

  Casts: `astype(np.float32)`, `astype(float)`, `.float()` are the IDENTITY on every scalar type (rounding to float32 is outside
  the exact-real abstraction; the executable tie uses values whose stored level does not depend on it).  `astype(np.uint8 / uint16)`
  truncates toward zero; the cast of a negative value or of a value ≥ 2^bits is undefined in C / wraps in NumPy: it is FLAGGED
  (`castUIntOk = false`), the theorems are stated where the flag is true.
  Hand-written, Mathlib-free, every definition executable at `Float`; validated on every run by `harness/props/genimagecodec.py`.
-/
namespace Odak
namespace Tensor
variable {α : Type}

/-- `astype(np.float32)` / `astype(float)` / `.float()`: identity (see the header) -/
def castFloat (_bits : Nat) (t : Tensor α) : Tensor α := t

/-- `astype(np.uint8)` / `astype(np.uint16)`: truncation toward zero -/
def castUInt [Num α] (_bits : Nat) (t : Tensor α) : Tensor α := map Num.trunc t

/-- every element (row-major positions `0 .. prod shape - 1`) satisfies `p` -/
def allElems (t : Tensor α) (p : α → Bool) : Bool :=
  (List.range (prod t.shape)).all (fun f => p (t.get (unravel t.shape f)))

/-- the unsigned cast is defined for every element: `0 ≤ x < 2^bits` -/
def castUIntOk [Num α] (bits : Nat) (t : Tensor α) : Bool :=
  allElems t (fun x => decide (Num.ofNat 0 ≤ x) && decide (x < Num.ofNat (2 ^ bits)))

/-- `t[mask] = v` for a boolean mask of the shape of `t` and a scalar `v`: the new value of `t` -/
def maskedFill (t : Tensor α) (m : Tensor Bool) (v : α) : Tensor α :=
  ⟨t.shape, fun idx => if m.get idx = true then v else t.get idx⟩

/-- `for i in range(n): acc = f i acc` -/
def forRange : Nat → (Nat → Tensor α → Tensor α) → Tensor α → Tensor α
  | 0, _, init => init
  | n + 1, f, init => f n (forRange n f init)

def minList : List Nat → Nat
  | [] => 0
  | [x] => x
  | x :: y :: ys => if minList (y :: ys) < x then minList (y :: ys) else x

/-- `torch.argmin(torch.tensor(shape))`: the FIRST position of the smallest entry -/
def argminList (l : List Nat) : Nat := posOf l (minList l)

/-- `t.permute(p)` with the axes given as naturals -/
def permuteN (t : Tensor α) (pn : List Nat) : Tensor α :=
  ⟨pn.map (getAt t.shape), fun idx => t.get (tabulate t.shape.length (fun a => getAt idx (posOf pn a)))⟩

/-- `np.moveaxis(t, s, d)`: axis `s` goes to position `d`, the other axes keep their order -/
def moveaxis (t : Tensor α) (s d : Int) : Tensor α :=
  let r := t.shape.length
  let s' := nd s r
  let d' := nd d r
  permuteN t (insAt (remAt (tabulate r (fun a => a)) s') d' s')

/-- `a // b` on arrays (floor of the quotient) -/
def floorDiv [Num α] (a b : Tensor α) : Tensor α := zipB (fun x y => Num.floor (x / y)) a b

/-- `cv2.imread(fn, cv2.IMREAD_UNCHANGED)` of what `cv2.imwrite(fn, t)` wrote, for an unsigned-integer array `t` of rank 2 or of
    rank 3 with 1, 3 or 4 channels: the same array, except that a single channel `[m x n x 1]` comes back as `[m x n]` -/
def pngRoundTrip (t : Tensor α) : Tensor α :=
  if t.shape.length = 3 ∧ getAt t.shape 2 = 1 then squeeze t 2 else t

end Tensor
end Odak
