import OdakModel.Generated.RotModes
/-!
  Rotations: axis matrices and mode tables come from `Generated/RotModes.lean` (regenerated from
  /repo); this file gives them their meaning: degrees → radians, product in table order,
  `rotate p = R (p - origin) + origin + offset`.
-/
namespace Odak
open Odak.Gen
variable {α : Type} [Num α]

inductive Api where | np | torch
deriving DecidableEq, Repr

/-- axis matrix for an angle in DEGREES, as `rotmatx/y/z` of the given API -/
def rotmat (api : Api) (ax : Axis) (deg : α) : Mat3 α :=
  let a := Num.radians deg
  match api, ax with
  | .np, .x => npRotmatX a | .np, .y => npRotmatY a | .np, .z => npRotmatZ a
  | .torch, .x => torchRotmatX a | .torch, .y => torchRotmatY a | .torch, .z => torchRotmatZ a

/-- the angle (degrees) a given axis letter uses: x ↦ angles[0], y ↦ angles[1], z ↦ angles[2] -/
def angleOf (ang : Vec3 α) : Axis → α
  | .x => ang.x | .y => ang.y | .z => ang.z

/-- product of axis rotations in list order (first element is the outermost = applied last) -/
def rotFromOrder (api : Api) (order : List Axis) (ang : Vec3 α) : Mat3 α :=
  order.foldr (fun ax acc => rotmat api ax (angleOf ang ax) * acc) Mat3.one

/-- look a mode string up in a regenerated table -/
def modeOrder (tbl : List (String × List Axis)) (mode : String) : Option (List Axis) := tbl.lookup mode

/-- `rotate_point` / `rotate_points` for one point: `R (p - origin) + origin + offset` -/
def rotatePoint (api : Api) (order : List Axis) (ang origin offset p : Vec3 α) : Vec3 α :=
  (rotFromOrder api order ang).mulVec (p - origin) + origin + offset

/-- NumPy `rotate_points` has an early return for all-zero angles: `offset + points` (origin ignored) -/
def npRotatePoints (order : List Axis) (ang origin offset p : Vec3 α) (anglesAreZero : Bool) : Vec3 α :=
  if anglesAreZero then offset + p else rotatePoint .np order ang origin offset p

/-- the order a mode string "ABC" is documented to mean: rotate about A first, then B, then C,
    i.e. the matrix product `R_C · R_B · R_A` -/
def documentedOrder (mode : String) : List Axis :=
  (mode.toList.reverse.filterMap fun c => if c = 'X' then some Axis.x else if c = 'Y' then some Axis.y
    else if c = 'Z' then some Axis.z else none)

/-- `tilt_towards(location, lookat)`: `[0, degrees(acos(dz/dist)), degrees(atan2(dy, dx))]` -/
def tiltTowards (loc look : Vec3 α) : Vec3 α :=
  let d := loc - look
  let dist := Num.sqrt (Num.sq d.x + Num.sq d.y + Num.sq d.z)
  let toDeg := fun (r : α) => r * Num.ofNat 180 / Num.pi
  ⟨0, toDeg (Num.acos (d.z / dist)), toDeg (Num.atan2 d.y d.x)⟩

end Odak
