import OdakModel.Cx
/-! n × m grids, materialised (`Vector`) so that every stage of a pipeline is computed once. -/
namespace Odak

abbrev Grid (β : Type) (n m : Nat) := Vector (Vector β m) n

namespace Grid
variable {β γ : Type} {n m : Nat}

def ofFn (f : Fin n → Fin m → β) : Grid β n m := Vector.ofFn fun i => Vector.ofFn (f i)
def get (g : Grid β n m) (i : Fin n) (j : Fin m) : β := g[i][j]

@[simp] theorem get_ofFn (f : Fin n → Fin m → β) (i : Fin n) (j : Fin m) : (ofFn f).get i j = f i j := by
  simp [ofFn, get]

theorem ext_get {g h : Grid β n m} (e : ∀ i j, g.get i j = h.get i j) : g = h := by
  apply Vector.ext; intro i hi
  apply Vector.ext; intro j hj
  exact e ⟨i, hi⟩ ⟨j, hj⟩

def map (f : β → γ) (g : Grid β n m) : Grid γ n m := ofFn fun i j => f (g.get i j)
def zipWith {δ : Type} (f : β → γ → δ) (g : Grid β n m) (h : Grid γ n m) : Grid δ n m :=
  ofFn fun i j => f (g.get i j) (h.get i j)
def toList (g : Grid β n m) : List β := (List.ofFn fun i => List.ofFn fun j => g.get i j).flatten

end Grid

abbrev CGrid (α : Type) (n m : Nat) := Grid (Cx α) n m

namespace CGrid
variable {α : Type} [Num α] {n m : Nat}

def add (g h : CGrid α n m) : CGrid α n m := Grid.zipWith (· + ·) g h
def mul (g h : CGrid α n m) : CGrid α n m := Grid.zipWith (· * ·) g h
def smul (c : Cx α) (g : CGrid α n m) : CGrid α n m := Grid.map (c * ·) g
def zero : CGrid α n m := Grid.ofFn fun _ _ => 0
def const (c : Cx α) : CGrid α n m := Grid.ofFn fun _ _ => c
/-- total energy `Σ |u|²` -/
def energy (g : CGrid α n m) : α := sumFinR n fun i => sumFinR m fun j => Cx.normSq (g.get i j)

end CGrid
end Odak
