import OdakModel.PropagateBeam
import OdakModel.Generated.Pipelines
/-!
  The configuration of the hand-written propagator model (`PropCfg`, `OdakModel/Propagator.lean`) as the attribute record
  `Gen.PropagatorSelf` that the REGENERATED `propagator.__call__` (`Gen.propagatorCallT`) reads.  Hand-written, no Mathlib.
-/
namespace Odak
variable {α : Type} [Num α]

/-- `propagator_type` string of the hand model's flag -/
def propagatorTypeName (backAndForth : Bool) : String := if backAndForth then "back and forth" else "forward"

/-- the propagator object a `PropCfg` and a (padded-size) aperture describe; `aperture_samples` only matter for the impulse
    response, which `PMethod` does not contain -/
def PropCfg.toSelf {h w : Nat} (cfg : PropCfg α) (A : CGrid α (2 * h) (2 * w)) (s0 s1 s2 s3 : Nat) : Gen.PropagatorSelf α h w :=
  { distances := cfg.distances, wavelengths := cfg.wavelengths, pixel_pitch := cfg.dx,
    propagation_type := cfg.method.name, propagator_type := propagatorTypeName cfg.backAndForth,
    zero_mode_distance := cfg.z0, image_location_offset := cfg.offset, s0 := s0, s1 := s1, s2 := s2, s3 := s3, aperture := A }

end Odak
