import OdakModel.Geometry
/-!
  Vocabulary of `Generated/GeometryGen.lean` (the output of `harness/translate/geometry.py`): the few notions of the
  Python geometry code that the scalar class does not have a word for.  Hand-written, Mathlib-free.

  * `Ray α`   – the `[2 x 3]` array "start point, direction cosines"; a surface normal has the same layout.
  * `Num.nan` – the literal `float('nan')` / `np.nan`.  It is written `0 / 0`: in IEEE arithmetic that IS NaN, and over ℝ
                (`x / 0 = 0`) it is `0`.  The source only ever stores it where the replaced value is `0`
                (`s[s == 0] = nan`) or behind a flag (`torch.where(a**2 - b < 0, nan, to)`), which is what the tie
                theorems in `OdakProofs/Lemmas/GenGeometry.lean` use.
  * `Num.maskEq x c v` – one element of the masked store `x[x == c] = v`.
  * `Num.isNaN` – `np.isnan`: the only value that is not `≤` itself.
-/
namespace Odak

structure Ray (α : Type) where
  o : Vec3 α
  d : Vec3 α

namespace Num
variable {α : Type} [Num α]

def nan : α := (0 : α) / 0
def isNaN (x : α) : Bool := !(decide (x ≤ x))
def maskEq (x c v : α) : α := if x ≤ c ∧ c ≤ x then v else x

end Num

namespace Vec3
variable {α : Type} [Num α]
/-- elementwise product `a * b` of two `[3]` arrays -/
def hmul (a b : Vec3 α) : Vec3 α := ⟨a.x * b.x, a.y * b.y, a.z * b.z⟩
end Vec3

end Odak
