import OdakModel.Generated.Colour
/-!
  Colour conversions.  The matrix / piecewise-gamma conversions are regenerated from the source
  (`Odak.Gen.rgb2ycrcb`, `ycrcb2rgb`, `srgbToLinear`, `linearToSrgb`, `linearRgbToXyz`, `xyzToLinearRgb`,
  `srgbToLab`, `labToSrgb`, `opponentStage`).  This file adds what is modelled by hand: the hexcone
  HSV model (gather on the arg-max channel) and the LMS matrix round trip.
-/
namespace Odak
variable {α : Type} [Num α]
open Num

/-- index of the first maximal channel, as `torch.max(-3)` returns it -/
def argmax3 (c : Vec3 α) : Nat :=
  if c.x < c.y then (if c.y < c.z then 2 else 1) else (if c.x < c.z then 2 else 0)

def max3 (c : Vec3 α) : α := Num.maxN (Num.maxN c.x c.y) c.z
def min3 (c : Vec3 α) : α := Num.minN (Num.minN c.x c.y) c.z

/-- `rgb_to_hsv(image, eps)`: returns `(h ∈ [0, 2π), s, v)` -/
def rgbToHsv (eps : α) (c : Vec3 α) : Vec3 α :=
  let mx := max3 c
  let mn := min3 c
  let deltac := mx - mn
  let s := deltac / (mx + eps)
  let dc : α := if deltac < 0 ∨ 0 < deltac then deltac else 1
  let rc := mx - c.x; let gc := mx - c.y; let bc := mx - c.z
  let h1 := bc - gc
  let h2 := rc - bc + Num.two * dc
  let h3 := gc - rc + Num.ofNat 4 * dc
  let hsel : α := match argmax3 c with
    | 0 => h1 / dc
    | 1 => h2 / dc
    | _ => h3 / dc
  let h := Num.fmod (hsel / Num.ofNat 6) 1
  ⟨Num.two * Num.pi * h, s, mx⟩

/-- `hsv_to_rgb(image)` -/
def hsvToRgb (c : Vec3 α) : Vec3 α :=
  let h := c.x / (Num.two * Num.pi)
  let s := c.y
  let v := c.z
  let hi := Num.fmod (Num.floor (h * Num.ofNat 6)) (Num.ofNat 6)
  let f := Num.fmod (h * Num.ofNat 6) (Num.ofNat 6) - hi
  let p := v * (1 - s)
  let q := v * (1 - f * s)
  let t := v * (1 - (1 - f) * s)
  if hi < 1 then ⟨v, t, p⟩
  else if hi < Num.two then ⟨q, v, p⟩
  else if hi < Num.ofNat 3 then ⟨p, v, t⟩
  else if hi < Num.ofNat 4 then ⟨p, q, v⟩
  else if hi < Num.ofNat 5 then ⟨t, p, v⟩
  else ⟨v, p, q⟩

end Odak
