import OdakModel.Losses
/-!
  Vocabulary of `Generated/LossesGen.lean` (the output of `harness/translate/losses.py`): tensors as nested lists and the few torch
  notions the scalar class and `OdakModel/Losses.lean` have no word for.  Hand-written, Mathlib-free.

  A tensor of rank `r` is a `List` nested `r` times (`T1 α … T4 α`); `OdakModel/Losses.lean` works on flattened tensors (rank 1) and on
  grids given as lists of rows (rank 2).

  * `Tn.map_r f x` / `Tn.zip_r f x y` – elementwise unary / binary operations (`zip` stops at the shorter operand, like `List.zipWith`);
  * `Tn.sum_r`, `Tn.numel_r`          – `x.sum()`, the number of elements; `Tn.mean_r = sum / numel` is `x.mean()`;
  * `Tn.at_k f x`                     – apply the list operation `f` to axis `k`: `x[:, :, :, 1:]` is `Tn.at3 List.tail x`,
                                        `x[:, :, :-1, :]` is `Tn.at2 List.dropLast x`, `x[:, :, a:b, :]` is `Tn.at2 (Tn.slice a b) x`;
  * `Tn.dim_k x`                      – `x.shape[k]` (of the first entry along the outer axes);
  * `Tn.down2`                        – `torch.nn.Upsample(scale_factor = 0.5, mode = 'nearest')` on the last two axes: every other sample;
  * `l1`                              – `torch.nn.L1Loss()`; `Num.log10`; `histc` – `torch.histc`.
-/
namespace Odak
variable {α : Type} [Num α]

abbrev T1 (α : Type) := List α
abbrev T2 (α : Type) := List (List α)
abbrev T3 (α : Type) := List (List (List α))
abbrev T4 (α : Type) := List (List (List (List α)))

namespace Num
def log10 (x : α) : α := Num.log x / Num.log (Num.ofNat 10)
end Num

/-- `torch.nn.L1Loss()(a, b)` on flattened tensors of equal length -/
def l1 (a b : List α) : α := sumL (List.zipWith (fun x y => Num.abs (x - y)) a b) / Num.ofNat a.length

namespace Tn

def map1 (f : α → α) (x : T1 α) : T1 α := x.map f
def map2 (f : α → α) (x : T2 α) : T2 α := x.map (map1 f)
def map3 (f : α → α) (x : T3 α) : T3 α := x.map (map2 f)
def map4 (f : α → α) (x : T4 α) : T4 α := x.map (map3 f)

def zip1 (f : α → α → α) (x y : T1 α) : T1 α := List.zipWith f x y
def zip2 (f : α → α → α) (x y : T2 α) : T2 α := List.zipWith (zip1 f) x y
def zip3 (f : α → α → α) (x y : T3 α) : T3 α := List.zipWith (zip2 f) x y
def zip4 (f : α → α → α) (x y : T4 α) : T4 α := List.zipWith (zip3 f) x y

def sum1 (x : T1 α) : α := sumL x
def sum2 (x : T2 α) : α := sumL (x.map sum1)
def sum3 (x : T3 α) : α := sumL (x.map sum2)
def sum4 (x : T4 α) : α := sumL (x.map sum3)

def natSum (l : List Nat) : Nat := l.foldl (· + ·) 0
def numel1 (x : T1 α) : Nat := x.length
def numel2 (x : T2 α) : Nat := natSum (x.map numel1)
def numel3 (x : T3 α) : Nat := natSum (x.map numel2)
def numel4 (x : T4 α) : Nat := natSum (x.map numel3)

def mean1 (x : T1 α) : α := sum1 x / Num.ofNat (numel1 x)
def mean2 (x : T2 α) : α := sum2 x / Num.ofNat (numel2 x)
def mean3 (x : T3 α) : α := sum3 x / Num.ofNat (numel3 x)
def mean4 (x : T4 α) : α := sum4 x / Num.ofNat (numel4 x)

/-- apply a list operation along axis `k` (element type arbitrary: the inner axes are untouched) -/
def at0 {β : Type} (f : List β → List β) (x : List β) : List β := f x
def at1 {β : Type} (f : List β → List β) (x : List (List β)) : List (List β) := x.map f
def at2 {β : Type} (f : List β → List β) (x : List (List (List β))) : List (List (List β)) := x.map (at1 f)
def at3 {β : Type} (f : List β → List β) (x : List (List (List (List β)))) : List (List (List (List β))) := x.map (at2 f)

/-- Python `l[a:b]` for `0 ≤ a`, `0 ≤ b` -/
def slice {β : Type} (a b : Nat) (l : List β) : List β := (l.take b).drop a

/-- `x.shape[k]` -/
def dim0 {β : Type} (x : List β) : Nat := x.length
def dim1 {β : Type} (x : List (List β)) : Nat := (x.headD []).length
def dim2 {β : Type} (x : List (List (List β))) : Nat := ((x.headD []).headD []).length
def dim3 {β : Type} (x : List (List (List (List β)))) : Nat := (((x.headD []).headD []).headD []).length

/-- every other entry, starting with the first, `floor(n / 2)` of them: nearest-neighbour down-sampling by 2 -/
def everyOther {β : Type} : List β → List β
  | a :: _ :: rest => a :: everyOther rest
  | _ => []

/-- `torch.nn.Upsample(scale_factor = 0.5, mode = 'nearest')` on a `[N, C, H, W]` tensor -/
def down2 {β : Type} (x : List (List (List (List β)))) : List (List (List (List β))) := at3 everyOther (at2 everyOther x)

/-- mean over the last two axes of a rank-4 tensor: `torch.mean(x, dim = (2, 3))` -/
def meanLast2 (x : T4 α) : T2 α := x.map fun c => c.map mean2

/-- flatten -/
def flat2 {β : Type} (x : List (List β)) : List β := x.flatten
def flat3 {β : Type} (x : List (List (List β))) : List β := (x.flatten).flatten
def flat4 {β : Type} (x : List (List (List (List β)))) : List β := ((x.flatten).flatten).flatten

end Tn

/-- `torch.histc(x, bins, min = lo, max = hi)`: counts per bin of equal width; values outside `[lo, hi]` are ignored, `hi` itself
    falls into the last bin -/
def histc (x : List α) (bins : Nat) (lo hi : α) : List α :=
  (List.range bins).map fun k =>
    sumL (x.map fun v =>
      let t := (v - lo) / (hi - lo) * Num.ofNat bins
      let inBin := (decide (Num.ofNat k ≤ t) && decide (t < Num.ofNat (k + 1))) || (decide (k + 1 = bins) && decide (hi ≤ v) && decide (v ≤ hi))
      if (decide (lo ≤ v) && decide (v ≤ hi) && inBin) then (1 : α) else 0)

end Odak
