import OdakModel.Propagator
/-!
  `Ten α`: ONE type for the tensors of every rank the regenerated OBJECT models of work package 13 handle (`PropOps`, `LossObjOps`,
  `MeshOps` are records of operations over a single tensor type `T`), so that those records can be INSTANTIATED with the grid model
  (work package 16).  Hand-written, no Mathlib.

  A tensor is its element function on index paths together with the shape of the sub-tensor at every path (`sh []` = the shape of the
  tensor itself).  `x[i, j, ..]` (`getIdx`) is the sub-tensor at a path, `x[i, j, ..] = v` (`setIdx`) replaces the sub-tensor at a path by
  `v` - the two laws of the kernel buffer (`PropLaws.get_set`) hold for EVERY index path and every stored value:

  * the model never rejects a store: where torch raises (an index out of range, a value whose shape is not the slot's shape) the model
    stores anyway;
  * an index is taken as written: Python's negative indices (`x[-1]` is `x[n - 1]`) are NOT modelled - `[-1]` and `[n - 1]` are different
    slots here.  The object theorems are therefore about non-negative, in-range channel / depth / frame ids (the regenerated `__call__`
    already reads `wavelengths[channel_id]` with `channel_id.toNat`).

  For the tensors the propagator handles in range (rectangular, every store of the slot's shape) `getIdx` / `setIdx` are torch's
  integer indexing; the executable tie (`gpi_seq`, `harness/props/genobjects_inst.py`) compares every call with the real object.
-/
namespace Odak

structure Ten (α : Type) where
  /-- shape of the sub-tensor at an index path -/
  sh : List Int → List Nat
  /-- the element at a (full) index path -/
  el : List Int → Cx α

namespace Ten
variable {α : Type} [Num α]

def shape (t : Ten α) : List Nat := t.sh []
def rank (t : Ten α) : Int := t.shape.length
def dim (t : Ten α) (k : Int) : Int := (t.shape.getD k.toNat 0 : Nat)
/-- the value of a 0-d tensor -/
def val (t : Ten α) : Cx α := t.el []

/-- a rectangular tensor from its shape and element function -/
def ofFn (s : List Nat) (f : List Int → Cx α) : Ten α := ⟨fun p => s.drop p.length, f⟩
def scalar (z : Cx α) : Ten α := ofFn [] fun _ => z
def real (x : α) : Ten α := scalar ⟨x, 0⟩
def zeros (s : List Nat) : Ten α := ofFn s fun _ => 0

/-- `x[i, j, ..]` -/
def getIdx (t : Ten α) (i : List Int) : Ten α := ⟨fun p => t.sh (i ++ p), fun r => t.el (i ++ r)⟩
/-- the content of `x` after `x[i, j, ..] = v` -/
def setIdx (t : Ten α) (i : List Int) (v : Ten α) : Ten α :=
  ⟨fun p => if i.isPrefixOf p then v.sh (p.drop i.length) else t.sh p,
   fun r => if i.isPrefixOf r then v.el (r.drop i.length) else t.el r⟩

def map (f : Cx α → Cx α) (a : Ten α) : Ten α := ⟨a.sh, fun r => f (a.el r)⟩
/-- element-wise operation; a 0-d operand (a Python number, a tensor element) is broadcast -/
def zip (f : Cx α → Cx α → Cx α) (a b : Ten α) : Ten α :=
  if a.shape.isEmpty then ⟨b.sh, fun r => f (a.el []) (b.el r)⟩
  else if b.shape.isEmpty then ⟨a.sh, fun r => f (a.el r) (b.el [])⟩
  else ⟨a.sh, fun r => f (a.el r) (b.el r)⟩

/-- complex division -/
def cdiv (a b : Cx α) : Cx α := Cx.divR (a * Cx.conj b) (Cx.normSq b)
/-- `z ** n` for a literal integer `n` -/
def cpow (z : Cx α) (n : Int) : Cx α :=
  match n with
  | Int.ofNat k => (List.replicate k z).foldl (· * ·) 1
  | Int.negSucc k => cdiv 1 ((List.replicate (k + 1) z).foldl (· * ·) 1)

/-- the truth value of a tensor element: non-zero (NaN counts as true, as in Python) -/
def truthy (t : Ten α) : Bool := !(decide (t.val.re ≤ 0 ∧ 0 ≤ t.val.re ∧ t.val.im ≤ 0 ∧ 0 ≤ t.val.im))
def ofBool (b : Bool) : Ten α := real (if b then 1 else 0)

/-! ### grids -/

/-- an `n × m` grid as a tensor of shape `[n, m]` (zero outside the index range) -/
def ofGrid {n m : Nat} (g : CGrid α n m) : Ten α := ofFn [n, m] fun r =>
  match r with
  | [i, j] => if hi : 0 ≤ i ∧ i.toNat < n then if hj : 0 ≤ j ∧ j.toNat < m then g.get ⟨i.toNat, hi.2⟩ ⟨j.toNat, hj.2⟩ else 0 else 0
  | _ => 0
/-- the elements `[0..n) × [0..m)` of a tensor as a grid -/
def toGrid (n m : Nat) (t : Ten α) : CGrid α n m := Grid.ofFn fun i j => t.el [(i.val : Int), (j.val : Int)]

/-- a list of numbers as a 1-d tensor -/
def ofList (l : List α) : Ten α := ofFn [l.length] fun r =>
  match r with
  | [i] => if 0 ≤ i then match l[i.toNat]? with | some x => ⟨x, 0⟩ | none => 0 else 0
  | _ => 0

/-- `zero_pad` of an `[h, w]` tensor (default size: twice the sides), through the regenerated index maps of `padGrid` -/
def padTen (h w : Nat) (t : Ten α) : Ten α := ofGrid (padGrid (toGrid h w t))
/-- `crop_center` of a `[2 k, 2 l]` tensor, through the regenerated index maps of `cropGrid` -/
def cropTen (k l : Nat) (t : Ten α) : Ten α := ofGrid (cropGrid (toGrid (2 * k) (2 * l) t))
/-- `zero_pad(x)` of a 2-d tensor (other ranks are outside this model: the propagator pads fields and apertures `[h, w]`) -/
def zeroPad (t : Ten α) : Ten α :=
  match t.shape with
  | [h, w] => padTen h w t
  | _ => t
/-- `crop_center(x)` of a 2-d tensor with even sides (what `zero_pad` produced) -/
def cropCenter (t : Ten α) : Ten α :=
  match t.shape with
  | [a, b] => cropTen (a / 2) (b / 2) t
  | _ => t

/-- every index path of a shape, row-major -/
def allIdx : List Nat → List (List Int)
  | [] => [[]]
  | n :: s => (List.range n).flatMap fun (i : Nat) => (allIdx s).map fun r => (i : Int) :: r

/-- `torch.max(x)` of a real tensor -/
def maxAll (t : Ten α) : Ten α :=
  match (allIdx t.shape).map (fun r => (t.el r).re) with
  | [] => real 0
  | x :: xs => real (xs.foldl Num.maxN x)

end Ten
end Odak
