import OdakModel.Ten
import OdakModel.PropagatorObjectInst
import OdakModel.Generated.Slicers
import OdakModel.Generated.Defocus
import OdakModel.LossObjectsTie
/-!
  Work package 16: the operations record `LossObjOps` of the REGENERATED loss objects (`multiplane_loss`, `perceptual_multiplane_loss`),
  INSTANTIATED with the grid model on tensors `Ten α`:

  * `sliceTargets` (`set_targets`): the quantised depth, the plane targets, the all-in-focus target and the plane masks, every element by the
    REGENERATED per-pixel slicers `Gen.planeDepthM`, `Gen.planeTargetM`, `Gen.focusTargetM`, `Gen.planeMaskM` of `Generated/Slicers.lean`
    (image `[C, H, W]`, depth `[H, W]`, results `[H, W]`, `[n, C, H, W]`, `[C, H, W]`, `[n, C, H, W]`);
  * `defocusTargets` (`add_defocus_blur`): every element by the regenerated `Gen.defocusTargetM` of `Generated/Defocus.lean` (the content
    written in place is the one before the final `* multiplier`);
  * `mseLoss` / `l1Loss`: mean / sum / none of the squared / absolute differences; arithmetic broadcasts a lower-rank operand along the
    leading axes (`image * masks`);
  * `perceptualLoss`: the base terms of `perceptual_multiplane_loss.__call__` are not interpreted here (the metric modules are external
    networks): it is the constant 0 and no theorem of this package reads it.
  No Mathlib.
-/
set_option linter.unusedVariables false
namespace Odak
open Gen
variable {α : Type} [Num α]

namespace Ten

/-- element-wise operation with broadcasting of a 0-d operand and of a lower-rank operand along the leading axes -/
def zipB (f : Cx α → Cx α → Cx α) (a b : Ten α) : Ten α :=
  if a.shape.isEmpty then ⟨b.sh, fun r => f (a.el []) (b.el r)⟩
  else if b.shape.isEmpty then ⟨a.sh, fun r => f (a.el r) (b.el [])⟩
  else if a.shape.length < b.shape.length then ⟨b.sh, fun r => f (a.el (r.drop (b.shape.length - a.shape.length))) (b.el r)⟩
  else if b.shape.length < a.shape.length then ⟨a.sh, fun r => f (a.el r) (b.el (r.drop (a.shape.length - b.shape.length)))⟩
  else ⟨a.sh, fun r => f (a.el r) (b.el r)⟩

/-- `torch.nn.MSELoss(reduction)(a, b)` / `L1Loss` from the element-wise term -/
def reduceLoss (term : Cx α → Cx α → α) (reduction : String) (a b : Ten α) : Ten α :=
  let d := zipB (fun x y => ⟨term x y, 0⟩) a b
  if reduction = "none" then d
  else
    let xs := (allIdx d.shape).map fun r => (d.el r).re
    let s := xs.foldl (· + ·) 0
    if reduction = "sum" then real s else real (s / Num.ofNat xs.length)

/-- `set_targets`: (quantised depth, targets, all-in-focus target, masks) from (depth `[H, W]`, number of planes, image `[C, H, W]`) -/
def sliceTargetsTen (td : Ten α) (n : Int) (ti : Ten α) : Ten α × Ten α × Ten α × Ten α :=
  let np := n.toNat
  let img : Int → Int → Nat → α := fun i j ch => (ti.el [(ch : Int), i, j]).re
  let dep : Int → Int → α := fun i j => (td.el [i, j]).re
  (ofFn td.shape fun r =>
      match r with
      | [i, j] => ⟨planeDepthM (dep i j) np (img i j), 0⟩
      | _ => 0,
   ofFn (np :: ti.shape) fun r =>
      match r with
      | [k, ch, i, j] => ⟨planeTargetM (dep i j) np (img i j) k.toNat ch.toNat, 0⟩
      | _ => 0,
   ofFn ti.shape fun r =>
      match r with
      | [ch, i, j] => ⟨focusTargetM (dep i j) np (img i j) ch.toNat, 0⟩
      | _ => 0,
   ofFn (np :: ti.shape) fun r =>
      match r with
      | [k, ch, i, j] => ⟨planeMaskM (dep i j) np (img i j) k.toNat ch.toNat, 0⟩
      | _ => 0)

/-- `add_defocus_blur`: the content written in place into the targets object, and the content of the new targets object -/
def defocusTargetsTen (blur : Int) (ti tv : Ten α) (n : Int) (ratio : α) (mv : Ten α) (mult : α) : Ten α × Ten α :=
  let np := n.toNat
  let H := tv.shape.getD 2 0
  let W := tv.shape.getD 3 0
  let inside : Int → Int → Bool := fun y x => decide (0 ≤ y) && decide (y < (H : Int)) && decide (0 ≤ x) && decide (x < (W : Int))
  let at_ : Ten α → Int → Int → Int → Int → α := fun t p ch y x => if inside y x then (t.el [p, ch, y, x]).re else Num.ofNat 0
  let cacheSum : Int → Nat → α := fun ch p =>
    ((List.range H).flatMap fun (y : Nat) => (List.range W).map fun (x : Nat) => (tv.el [(p : Int), ch, (y : Int), (x : Int)]).re).foldl (· + ·) (Num.ofNat 0)
  let value : α → List Int → Cx α := fun m r =>
    match r with
    | [i, ch, y, x] => ⟨defocusTargetM np blur.toNat ratio m (cacheSum ch) (fun p dy dx => at_ tv p ch (y + dy) (x + dx))
        (fun p dy dx => at_ mv p ch (y + dy) (x + dx)) i.toNat, 0⟩
    | _ => 0
  (⟨tv.sh, value (Num.ofNat 1)⟩, ⟨tv.sh, value mult⟩)

end Ten

open Ten in
/-- **the operations of the regenerated loss objects, interpreted in the grid model** -/
def lossOpsGrid : LossObjOps (Ten α) α :=
  { lit := litNum
    scalar := Ten.real
    int := fun i => Ten.real (Num.int i)
    ofBool := Ten.ofBool
    truthy := Ten.truthy
    rofInt := Num.int
    rtruthy := fun r => !(decide (r ≤ 0 ∧ 0 ≤ r))
    radd := (· + ·), rsub := (· - ·), rmul := (· * ·), rdiv := (· / ·), rneg := fun a => -a
    add := Ten.zipB (· + ·), sub := Ten.zipB (· - ·), mul := Ten.zipB (· * ·), div := Ten.zipB Ten.cdiv, neg := Ten.map (fun z => -z)
    powInt := fun a n => Ten.map (fun z => Ten.cpow z n) a
    getIdx := Ten.getIdx, setIdx := Ten.setIdx, dim := Ten.dim, rank := Ten.rank
    mseLoss := Ten.reduceLoss fun x y => Cx.normSq (x - y)
    l1Loss := Ten.reduceLoss fun x y => Cx.abs (x - y)
    sliceTargets := Ten.sliceTargetsTen
    defocusTargets := Ten.defocusTargetsTen
    perceptualLoss := fun _ _ _ _ _ _ _ _ _ _ _ _ _ _ _ => Ten.real 0 }

end Odak
