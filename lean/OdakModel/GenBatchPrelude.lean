import OdakModel.GenPrelude
/-!
  Vocabulary of `Generated/GeometryBatch.lean` (the output of `harness/translate/geombatch.py`): what the batched geometry code of
  odak needs beyond `GenPrelude`.  Hand-written, Mathlib-free.

  * `Tri α` – the `[3 x 3]` array of the three corners of a triangle.  A batch of `k` triangles (`[k x 3 x 3]`) is `Fin k → Tri α`,
    a batch of `m` rays (`[m x 2 x 3]`) is `Fin m → Ray α`.
  * `Batch.flatIdx k m` – the index pairs of a `[k, m]` array in the row-major order in which `flatten()` / `view(-1, ...)` /
    `repeat(k, 1, 1)` enumerate them.
  * `Batch.splitSizes sizes l` – `torch.split(l, sizes)`: consecutive chunks of the given lengths.
  * `Batch.rowCounts check` – `check.sum(dim = 1).tolist()` for a boolean `[k, m]` array.
  * `Batch.nonEmpty groups` – `[g for g in groups if g.numel() > 0]`.
  `torch.masked_select(x, mask)` with a mask that is constant along the components of a row is `filter` on the row indices followed by
  `map` (the translator checks that the mask has that form and that the chunk sizes are row counts times the row size).
-/
namespace Odak

structure Tri (α : Type) where
  p0 : Vec3 α
  p1 : Vec3 α
  p2 : Vec3 α

namespace Batch

def flatIdx (k m : Nat) : List (Fin k × Fin m) :=
  (List.finRange k).flatMap fun j => (List.finRange m).map fun i => (j, i)

def splitSizes {β : Type} : List Nat → List β → List (List β)
  | [], _ => []
  | n :: ns, l => l.take n :: splitSizes ns (l.drop n)

def rowCounts {k m : Nat} (check : Fin k → Fin m → Bool) : List Nat :=
  (List.finRange k).map fun j => ((List.finRange m).filter (check j)).length

def nonEmpty {β : Type} (l : List (List β)) : List (List β) := l.filter fun g => !g.isEmpty

end Batch
end Odak
