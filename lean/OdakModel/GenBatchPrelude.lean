import OdakModel.GenPrelude
/-!
  Vocabulary of `Generated/GeometryBatch.lean` (the output of `harness/translate/geombatch.py`): what the batched geometry code of
  odak needs beyond `GenPrelude`.  Hand-written, Mathlib-free.

  * `Tri α` – the `[3 x 3]` array of the three corners of a triangle.  A batch of `k` triangles (`[k x 3 x 3]`) is `Fin k → Tri α`,
    a batch of `m` rays (`[m x 2 x 3]`) is `Fin m → Ray α`.
  * `Batch.flatIdx k m` – the index pairs of a `[k, m]` array in the row-major order in which `flatten()` / `view(-1, ...)` /
    `repeat(k, 1, 1)` enumerate them.
  * `Batch.transposePos p` – the index pair of a `[b, a]` array that sits at the same row-major position as `p` in an `[a, b]`
    array (only needed when the source combines `x.flatten()` with `y.T.flatten()` position by position).
  * `Batch.prevIdx j` – `array[index - 1]` inside `for index, row in enumerate(array)`: the row before, the LAST row for the first.
  * `Batch.splitSizes sizes l` – `torch.split(l, sizes)`: consecutive chunks of the given lengths.
  * `Batch.rowCounts check` – `check.sum(dim = 1).tolist()` for a boolean `[k, m]` array.
  * `Batch.nonEmpty groups` – `[g for g in groups if g.numel() > 0]`.
  `torch.masked_select(x, mask)` with a mask that is constant along the components of a row is `filter` on the row indices followed by
  `map` (the translator checks that the mask has that form and that the chunk sizes are row counts times the row size).
-/
namespace Odak

structure Tri (α : Type) where
  p0 : Vec3 α
  p1 : Vec3 α
  p2 : Vec3 α

namespace Batch

def flatIdx (k m : Nat) : List (Fin k × Fin m) :=
  (List.finRange k).flatMap fun j => (List.finRange m).map fun i => (j, i)

def transposePos {a b : Nat} (p : Fin a × Fin b) : Fin b × Fin a :=
  have hq : p.1.val * b + p.2.val < a * b :=
    calc p.1.val * b + p.2.val < p.1.val * b + b := Nat.add_lt_add_left p.2.isLt _
      _ = (p.1.val + 1) * b := (Nat.succ_mul _ _).symm
      _ ≤ a * b := Nat.mul_le_mul_right b p.1.isLt
  (⟨(p.1.val * b + p.2.val) / a, Nat.div_lt_of_lt_mul hq⟩,
   ⟨(p.1.val * b + p.2.val) % a, Nat.mod_lt _ (Nat.lt_of_le_of_lt (Nat.zero_le _) p.1.isLt)⟩)

def prevIdx {k : Nat} (j : Fin k) : Fin k :=
  if j.val = 0 then ⟨k - 1, Nat.sub_lt (Nat.lt_of_le_of_lt (Nat.zero_le _) j.isLt) Nat.one_pos⟩
  else ⟨j.val - 1, Nat.lt_of_le_of_lt (Nat.sub_le _ _) j.isLt⟩

def splitSizes {β : Type} : List Nat → List β → List (List β)
  | [], _ => []
  | n :: ns, l => l.take n :: splitSizes ns (l.drop n)

def rowCounts {k m : Nat} (check : Fin k → Fin m → Bool) : List Nat :=
  (List.finRange k).map fun j => ((List.finRange m).filter (check j)).length

def nonEmpty {β : Type} (l : List (List β)) : List (List β) := l.filter fun g => !g.isEmpty

end Batch
end Odak
