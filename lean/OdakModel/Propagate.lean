import OdakModel.Kernels
/-! The propagation pipelines: torch `custom` (every torch method funnels through it) and the NumPy methods. -/
namespace Odak
variable {α : Type} [Num α] {n m : Nat}
open CGrid

/-- torch `custom(field, kernel, zero_padding=False, aperture)`:
    `H = kernel;  U1 = fftshift(fft2 u)·A;  U2 = H·U1;  ifft2(ifftshift U2)`  (kernel once, aperture once) -/
def custom (u H A : CGrid α n m) : CGrid α n m :=
  ifft2 (ifftshift (mul H (mul (fftshift (fft2 u)) A)))

/-- no aperture (`aperture = 1.`) -/
def customNoAp (u H : CGrid α n m) : CGrid α n m :=
  ifft2 (ifftshift (mul H (fftshift (fft2 u))))

/-- the documented model: multiply once by the kernel and once by the aperture -/
def customDocumented (u H A : CGrid α n m) : CGrid α n m :=
  ifft2 (ifftshift (mul (mul H A) (fftshift (fft2 u))))

/-- torch `propagate_beam` for the three transfer-function methods, `zero_padding = [False, False, False]` -/
def torchAS (u : CGrid α n m) (dx lam z : α) : CGrid α n m := customNoAp u (asKernel n m dx lam z)
def torchTF (u : CGrid α n m) (dx lam z : α) : CGrid α n m := customNoAp u (tfKernel n m dx lam (wavenumber lam) z)
def torchBL (u : CGrid α n m) (dx lam z : α) : CGrid α n m := customNoAp u (blKernel n m dx lam z)
def torchIR (u : CGrid α n m) (dx lam z : α) (s0 s1 s2 s3 : Nat) : CGrid α n m :=
  customNoAp u (irKernel n m dx lam z s0 s1 s2 s3)

/-- NumPy `angular_spectrum` / `band_limited_angular_spectrum`: same pipeline, no aperture -/
def npAS (u : CGrid α n m) (dx lam k z : α) : CGrid α n m := customNoAp u (npAsKernel n m dx lam k z)
def npBL (u : CGrid α n m) (dx lam k z : α) : CGrid α n m := customNoAp u (npBlKernel n m dx lam k z)

/-- NumPy `transfer_function_fresnel`:
    `ifftshift(ifft2(fftshift(H) · fft2(fftshift u) · c)) / c` with `c = (1/L)²`, `L = nu·dx` -/
def npTF (u : CGrid α n m) (dx lam k z : α) : CGrid α n m :=
  let c : α := Num.sq ((1 : α) / (Num.ofNat m * dx))
  let U1 := Grid.map (Cx.smul c) (fft2 (fftshift u))
  let U2 := mul (fftshift (tfKernel n m dx lam k z)) U1
  Grid.map (fun w => Cx.divR w c) (ifftshift (ifft2 U2))

/-- NumPy `impulse_response_fresnel`:
    `H = fft2(fftshift h)·dx²; U2 = H · fft2(fftshift u); ifftshift(ifft2 U2) / dx²` -/
def npIR (u : CGrid α n m) (dx lam k z : α) : CGrid α n m :=
  let H := Grid.map (Cx.smul (Num.sq dx)) (fft2 (fftshift (npIrKernel n m dx lam k z)))
  let U2 := mul H (fft2 (fftshift u))
  Grid.map (fun w => Cx.divR w (Num.sq dx)) (ifftshift (ifft2 U2))

/-- torch `fraunhofer`: `c · ifftshift(fft2(fftshift u)) · dx²` with
    `c = 1/(iλz) · exp(i k 0.5/z · (X² + Y²))`, `x = linspace(-nv dx/2, nv dx/2, nv)` -/
def torchFraunhofer (u : CGrid α n m) (dx lam k z : α) : CGrid α n m :=
  let F := ifftshift (fft2 (fftshift u))
  Grid.ofFn fun i j =>
    let X := linspace (-(Num.ofNat m) * dx / Num.two) (Num.ofNat m * dx / Num.two) m j
    let Y := linspace (-(Num.ofNat n) * dx / Num.two) (Num.ofNat n * dx / Num.two) n i
    let c : Cx α := (⟨0, -((1 : α) / (lam * z))⟩ : Cx α) * Cx.expi (k * Num.half / z * (Num.sq X + Num.sq Y))
    Cx.smul (Num.sq dx) (c * F.get i j)

/-- a list of propagation steps applied in order -/
def propagateSeq (step : α → CGrid α n m → CGrid α n m) (zs : List α) (u : CGrid α n m) : CGrid α n m :=
  zs.foldl (fun acc z => step z acc) u

end Odak
