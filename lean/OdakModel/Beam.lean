import OdakModel.Kernels
/-! Closed-form paraxial references for C04: the forward Fresnel transfer function and the Gaussian beam. -/
namespace Odak
variable {α : Type} [Num α]
open Num

/-- longitudinal wavenumber of a plane wave with spatial frequencies (fx, fy): `(2π/λ) sqrt(1 - (λfx)² - (λfy)²)` -/
def kzOf (lam fx fy : α) : α := Num.two * Num.pi / lam * Num.sqrt (asRadicand lam fx fy)

/-- first-order (paraxial) expansion of `z·kz` in `ρ = fx² + fy²`: `z (k - π λ ρ)` – the phase of the FORWARD Fresnel transfer function -/
def paraxialPhase (lam k z rho : α) : α := z * (k - Num.pi * lam * rho)

/-- Gaussian beam of waist `w0` at `z = 0`, convention `exp(+i k z)`: amplitude and phase at radius² `r2`, distance `z` -/
def gaussAmp (w0 lam z r2 : α) : α :=
  let zR := Num.pi * sq w0 / lam
  let w := w0 * Num.sqrt (1 + sq (z / zR))
  w0 / w * Num.exp (-(r2 / sq w))

def gaussPhase (w0 lam z r2 : α) : α :=
  let zR := Num.pi * sq w0 / lam
  let k := Num.two * Num.pi / lam
  -- k z + k r²/(2R) - atan(z/zR), with 1/R = z / (z² + zR²)
  k * z + k * r2 * (z / (sq z + sq zR)) / Num.two - Num.atan2 z zR

def gaussBeam (w0 lam z r2 : α) : Cx α := Cx.polar (gaussAmp w0 lam z r2) (gaussPhase w0 lam z r2)

end Odak
