import OdakModel.Num
/-!
  Vocabulary of the REGENERATED state machines of the gaze-contingent losses (`OdakModel/Generated/StateMachines.lean`, written by
  `harness/translate/statemachines.py`).  Hand-written, no Mathlib.

  A Python method of a loss object is regenerated as a STEP FUNCTION in the `Option` monad (`none` = the source raises):
  `method E cfg self_ args = some (self_', returned value, names of the attributes stored, in order)`.
-/
namespace Odak

/-- `x[::2]` of a Python list -/
def everyOther {β : Type} : List β → List β
  | [] => []
  | [x] => [x]
  | x :: _ :: rest => x :: everyOther rest

/-- `torch.pow(x, n)` for a literal natural exponent: the product `x · x · … · x` (exact over ℝ and in IEEE up to the order of the
    multiplications; no logarithm, so a zero or negative base is not a special case) -/
def natPow {α : Type} [Num α] (x : α) : Nat → α
  | 0 => Num.ofNat 1
  | n + 1 => natPow x n * x

/-- a sequence of calls of a step function on one object; `none` as soon as one call raises -/
def runSteps {S X Y : Type} (step : S → X → Option (S × Y)) : S → List X → Option (S × List Y)
  | s, [] => some (s, [])
  | s, x :: xs => (step s x).bind fun r => (runSteps step r.1 xs).map fun q => (q.1, r.2 :: q.2)

end Odak
