import OdakModel.Generated.LossObjects
/-!
  Hand-written counterpart of the REGENERATED loss objects (`OdakModel/Generated/LossObjects.lean`, written by
  `harness/translate/lossobjects.py` from `odak/learn/wave/loss.py`): the values of all attributes of a constructed `multiplane_loss` /
  `perceptual_multiplane_loss` (`toSelf` lists EVERY field of the regenerated structure: an attribute the source gains - a memoised tuple, a
  cached loss - stops this file from compiling), what `multiplane_loss.__init__` builds, the DOCUMENTED values of `get_targets` and
  `__call__`, the calls a user can make.  No Mathlib.
-/
namespace Odak
open Gen
variable {T R : Type} [DecidableEq R]

/-! ### `multiplane_loss` -/

/-- the value of every attribute of a constructed `multiplane_loss`; the five tensors are OBJECTS: `target_image` is the caller's own tensor
    when it is float32 on the right device (`.float().to(device)` keep the object), the other four are created by `set_targets` -/
structure MplObj (T R : Type) where
  target_image : Nat
  target_depth : Nat
  target_blur_size : Int
  number_of_planes : Int
  multiplier : R
  weights : List R
  reduction : String
  blur_ratio : R
  loss_function : String
  targets : Nat
  focus_target : Nat
  masks : Nat

def MplObj.toSelf (o : MplObj T R) : MultiplaneLossAttrs T R :=
  { device := some (), target_image := some o.target_image, target_depth := some o.target_depth, target_blur_size := some o.target_blur_size,
    number_of_planes := some o.number_of_planes, multiplier := some o.multiplier, weights := some o.weights, reduction := some o.reduction,
    blur_ratio := some o.blur_ratio, loss_function := some o.loss_function, targets := some o.targets, focus_target := some o.focus_target,
    masks := some o.masks }

def mplObjFields : List String :=
  ["device", "target_image", "target_depth", "target_blur_size", "number_of_planes", "multiplier", "weights", "reduction", "blur_ratio",
   "loss_function", "targets", "focus_target", "masks"]

structure MplArgs (R : Type) where
  target_image : Nat
  target_depth : Nat
  blur_ratio : R
  target_blur_size : Int
  number_of_planes : Int
  weights : List R
  multiplier : R
  scheme : String
  reduction : String

def MplArgs.blurSize (a : MplArgs R) : Int := if a.target_blur_size % 2 = 0 then a.target_blur_size + 1 else a.target_blur_size

def mplInitCall (E : LossObjOps T R) (a : MplArgs R) (h : Heap T) : Option (MultiplaneLossAttrs T R × Heap T × Unit × List String) :=
  mplInitG E MultiplaneLossAttrs.empty h a.target_image a.target_depth a.blur_ratio a.target_blur_size a.number_of_planes a.weights a.multiplier
    a.scheme a.reduction ()

/-- what `__init__` builds.  `set_targets` creates FOUR new objects (quantised depth, targets, all-in-focus target, masks) from the contents
    of the caller's image and depth; with `scheme = 'defocus'`, `add_defocus_blur` writes into that targets object and then replaces it
    by a FIFTH new object.  The caller's image stays referenced (`target_image`), the caller's depth does not -/
def mplInit (E : LossObjOps T R) (a : MplArgs R) (h : Heap T) : Option (MplObj T R × Heap T) := do
  let ti ← h.get a.target_image
  let td ← h.get a.target_depth
  let r := E.sliceTargets td a.number_of_planes ti
  let h4 := ((((h.alloc r.1).1.alloc r.2.1).1.alloc r.2.2.1).1.alloc r.2.2.2).1
  let o : MplObj T R :=
    { target_image := a.target_image, target_depth := h.size, target_blur_size := a.blurSize, number_of_planes := a.number_of_planes,
      multiplier := a.multiplier, weights := a.weights, reduction := a.reduction, blur_ratio := a.blur_ratio, loss_function := a.reduction,
      targets := h.size + 1, focus_target := h.size + 2, masks := h.size + 3 }
  if a.scheme = "defocus" then
    let r2 := E.defocusTargets a.blurSize ti r.2.1 a.number_of_planes a.blur_ratio r.2.2.2 a.multiplier
    some ({ o with targets := h.size + 4 }, ((h4.set (h.size + 1) r2.1).alloc r2.2).1)
  else some (o, h4)

def mplInitLog (a : MplArgs R) : List String :=
  ["device", "target_image", "target_depth", "target_blur_size"] ++ (if a.target_blur_size % 2 = 0 then ["target_blur_size"] else []) ++
  ["number_of_planes", "multiplier", "weights", "reduction", "blur_ratio", "target_depth", "targets", "focus_target", "masks"] ++
  (if a.scheme = "defocus" then ["targets[]", "targets"] else []) ++ ["loss_function"]

/-- the objects `get_targets` and `__call__` read hold these contents -/
structure MplInv (o : MplObj T R) (h : Heap T) (tv fv dv mv : T) : Prop where
  ht : h.get o.targets = some tv
  hf : h.get o.focus_target = some fv
  hd : h.get o.target_depth = some dv
  hm : h.get o.masks = some mv

/-- `get_targets`: (targets, all-in-focus target, quantised depth divided by `number_of_planes - 1`, or by 1 for a single plane) -/
def mplTargets (E : LossObjOps T R) (o : MplObj T R) (tv fv dv : T) : T × T × T :=
  (tv, fv, E.div dv (E.int (if o.number_of_planes - 1 = 0 then 1 else o.number_of_planes - 1)))

/-- `__call__`: weighted sum of the plain, the masked and the correlation term -/
def mplLoss (E : LossObjOps T R) (o : MplObj T R) (mv : T) (image target : T) (plane : Option Int) : Option T := do
  let w0 ← o.weights[0]?
  let w1 ← o.weights[1]?
  let w2 ← o.weights[2]?
  let mask := match plane with
    | none => mv
    | some p => E.getIdx mv [p]
  some (E.add (E.add (E.mul (E.scalar w0) (E.mseLoss o.loss_function image target))
    (E.mul (E.scalar w1) (E.mseLoss o.loss_function (E.mul image mask) (E.mul target mask))))
    (E.mul (E.scalar w2) (E.mseLoss o.loss_function (E.mul image target) (E.mul target target))))

/-- the calls a user can make; `scribble l v` = the caller writes into a tensor of his own (his image, his depth map, anything he built
    from what was handed out) -/
inductive LCall (T : Type) where
  | getTargets
  | call (image target : T) (plane : Option Int)
  | scribble (l : Nat) (v : T)

inductive LRet (T : Type) where
  | targets (a b c : T)
  | loss (v : T)
  | unit

def mplStep (E : LossObjOps T R) (s : MultiplaneLossAttrs T R × Heap T) : LCall T → Option ((MultiplaneLossAttrs T R × Heap T) × LRet T)
  | .getTargets => (mplGetTargetsG E s.1 s.2).map fun r => ((r.1, r.2.1), .targets r.2.2.1.1 r.2.2.1.2.1 r.2.2.1.2.2)
  | .call i t p => (mplCallG E s.1 s.2 i t p).map fun r => ((r.1, r.2.1), .loss r.2.2.1)
  | .scribble l v => some ((s.1, s.2.set l v), .unit)

/-- reference semantics: every value from the constructed object and the arguments of the call alone -/
def mplRefStep (E : LossObjOps T R) (o : MplObj T R) (tv fv dv mv : T) (_ : Unit) : LCall T → Option (Unit × LRet T)
  | .getTargets => some ((), .targets (mplTargets E o tv fv dv).1 (mplTargets E o tv fv dv).2.1 (mplTargets E o tv fv dv).2.2)
  | .call i t p => (mplLoss E o mv i t p).map fun v => ((), .loss v)
  | .scribble _ _ => some ((), .unit)

/-- the caller does not write into the four objects the loss created for itself (he has no way to name them: `get_targets` hands out copies) -/
def LCall.valid (o : MplObj T R) : LCall T → Prop
  | .scribble l _ => l ≠ o.targets ∧ l ≠ o.focus_target ∧ l ≠ o.target_depth ∧ l ≠ o.masks
  | _ => True

/-! ### `perceptual_multiplane_loss` -/

structure PmplObj (T R : Type) where
  target_image : Nat
  target_depth : Nat
  target_blur_size : Int
  number_of_planes : Int
  multiplier : R
  reduction : String
  blur_ratio : R
  base_loss_weights : List (String × R)
  additional_loss_weights : List (String × R)
  return_components : Bool
  l1_loss_fn : String
  l2_loss_fn : String
  cvvdp : Option String
  fvvdp : Option String
  lpips : Option String
  psnr : Option String
  ssim : Option String
  msssim : Option String
  targets : Nat
  focus_target : Nat
  masks : Nat

def PmplObj.toSelf (o : PmplObj T R) : PerceptualMultiplaneLossAttrs T R :=
  { device := some (), target_image := some o.target_image, target_depth := some o.target_depth, target_blur_size := some o.target_blur_size,
    number_of_planes := some o.number_of_planes, multiplier := some o.multiplier, reduction := some o.reduction, blur_ratio := some o.blur_ratio,
    base_loss_weights := some o.base_loss_weights, additional_loss_weights := some o.additional_loss_weights,
    return_components := some o.return_components, l1_loss_fn := some o.l1_loss_fn, l2_loss_fn := some o.l2_loss_fn, cvvdp := o.cvvdp,
    fvvdp := o.fvvdp, lpips := o.lpips, psnr := o.psnr, ssim := o.ssim, msssim := o.msssim, targets := some o.targets,
    focus_target := some o.focus_target, masks := some o.masks }

def pmplObjFields : List String :=
  ["device", "target_image", "target_depth", "target_blur_size", "number_of_planes", "multiplier", "reduction", "blur_ratio", "base_loss_weights",
   "additional_loss_weights", "return_components", "l1_loss_fn", "l2_loss_fn", "cvvdp", "fvvdp", "lpips", "psnr", "ssim", "msssim", "targets",
   "focus_target", "masks"]

def pmplTargets (E : LossObjOps T R) (o : PmplObj T R) (tv fv dv : T) : T × T × T :=
  (tv, fv, E.div dv (E.int (if o.number_of_planes - 1 = 0 then 1 else o.number_of_planes - 1)))

def pmplLoss (E : LossObjOps T R) (o : PmplObj T R) (mv : T) (image target : T) (plane : Option Int) : T :=
  E.perceptualLoss o.base_loss_weights mv o.return_components o.additional_loss_weights o.l1_loss_fn o.l2_loss_fn o.cvvdp o.fvvdp o.lpips o.psnr
    o.ssim o.msssim image target plane

def pmplStep (E : LossObjOps T R) (s : PerceptualMultiplaneLossAttrs T R × Heap T) :
    LCall T → Option ((PerceptualMultiplaneLossAttrs T R × Heap T) × LRet T)
  | .getTargets => (pmplGetTargetsG E s.1 s.2).map fun r => ((r.1, r.2.1), .targets r.2.2.1.1 r.2.2.1.2.1 r.2.2.1.2.2)
  | .call i t p => (pmplCallG E s.1 s.2 i t p).map fun r => ((r.1, r.2.1), .loss r.2.2.1)
  | .scribble l v => some ((s.1, s.2.set l v), .unit)

def pmplRefStep (E : LossObjOps T R) (o : PmplObj T R) (tv fv dv mv : T) (_ : Unit) : LCall T → Option (Unit × LRet T)
  | .getTargets => some ((), .targets (pmplTargets E o tv fv dv).1 (pmplTargets E o tv fv dv).2.1 (pmplTargets E o tv fv dv).2.2)
  | .call i t p => some ((), .loss (pmplLoss E o mv i t p))
  | .scribble _ _ => some ((), .unit)

def LCall.validP (o : PmplObj T R) : LCall T → Prop
  | .scribble l _ => l ≠ o.targets ∧ l ≠ o.focus_target ∧ l ≠ o.target_depth ∧ l ≠ o.masks
  | _ => True

end Odak
