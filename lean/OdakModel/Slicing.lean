import OdakModel.Num
/-! Depth-plane slicing (`odak/learn/wave/loss.py: multiplane_loss.set_targets`, `perceptual_multiplane_loss.set_targets`,
    `odak/learn/perception/util.py: slice_rgbd_targets`). -/
namespace Odak
variable {α : Type} [Num α]

/-- the plane a depth value `d ∈ [0,1]` is assigned to among `n` planes: `round(d · (n-1))` (half to even) -/
def planeOf (n : Nat) (d : α) : α := Num.round (d * Num.ofNat (n - 1))

/-- mask of plane `i` at a pixel of depth `d`: 1 iff the rounded depth equals `i` -/
def planeMask (n i : Nat) (d : α) : α :=
  if planeOf n d < Num.ofNat i ∨ Num.ofNat i < planeOf n d then 0 else 1

/-- in-focus target of plane `i` at a pixel: `image · mask` -/
def planeTarget (n i : Nat) (d img : α) : α := img * planeMask n i d

/-- the all-in-focus target accumulated by `set_targets` for one channel: `Σ_i image · mask_i` -/
def focusTarget (n : Nat) (d img : α) : α := (List.range n).foldl (fun acc i => acc + planeTarget n i d img) 0

/-- `slice_rgbd_targets` condition for interval `i` (1-based, `i ≤ cnt`) over plane positions `ps`:
    half-open `[p_{i-1}, p_i)` except the last interval which is closed -/
def inSlice (ps : List α) (i : Nat) (d : α) : Bool :=
  let cnt := ps.length - 1
  match ps[i - 1]?, ps[i]? with
  | some prev, some pos =>
    if i + 1 ≤ cnt then decide (prev ≤ d) && decide (d < pos) else decide (prev ≤ d) && decide (d ≤ pos)
  | _, _ => false

/-- the list of intervals (1-based) that contain `d` -/
def slicesContaining (ps : List α) (d : α) : List Nat :=
  (List.range (ps.length - 1)).filterMap fun k => if inSlice ps (k + 1) d then some (k + 1) else none

end Odak
