import OdakModel.Num
/-!
  `Chk β`: a fourth instantiation of the scalar class.  Running a model function at `Chk β` computes its value together with
  a flag that is `true` iff every primitive met on the way has a FINITE local derivative at the value it was given – the real-number
  shadow of "autograd returns no NaN/Inf".  The rules are those of the torch backward formulas:

  * `a / b`      needs `b ≠ 0`;  `sqrt a` needs `0 < a` (slope `1/(2√a)`);  `log a` needs `0 < a`;  `acos a` needs `-1 < a < 1`;
    `atan2 y x`  needs `x² + y² ≠ 0`;  `exp, sin, cos, +, -, ·, floor, round, abs` never produce an infinite slope;
  * `select c a b` (`torch.where`) needs BOTH branches fine: autograd multiplies the gradient of the unselected branch by 0, and
    `0 · inf = NaN` (this is the mechanism behind `x ** (1/2.4)` at `x = 0` inside a `where`);
  * `if … then … else` in the model (Python-level control flow, `clamp`) evaluates one branch only.

  `x ** y` is modelled as `powPos x y = exp (y · log x)`, so it is flagged for `x ≤ 0` whatever `y` is (conservative for `y ≥ 1`).
-/
namespace Odak

structure Chk (β : Type) where
  v : β
  ok : Bool

namespace Chk
variable {β : Type} [Num β]

def var (x : β) : Chk β := ⟨x, true⟩
def const (x : β) : Chk β := ⟨x, true⟩
/-- `x ≠ 0` through the order (NaN counts as zero: flagged) -/
def nz (x : β) : Bool := decide (x < 0) || decide (0 < x)
def pos (x : β) : Bool := decide (0 < x)

instance : Num (Chk β) where
  zero := ⟨0, true⟩
  one := ⟨1, true⟩
  add a b := ⟨a.v + b.v, a.ok && b.ok⟩
  sub a b := ⟨a.v - b.v, a.ok && b.ok⟩
  mul a b := ⟨a.v * b.v, a.ok && b.ok⟩
  div a b := ⟨a.v / b.v, a.ok && b.ok && nz b.v⟩
  neg a := ⟨-a.v, a.ok⟩
  lt a b := a.v < b.v
  le a b := a.v ≤ b.v
  ofNat n := ⟨Num.ofNat n, true⟩
  ofSci m s e := ⟨Num.ofSci m s e, true⟩
  pi := ⟨Num.pi, true⟩
  sqrt a := ⟨Num.sqrt a.v, a.ok && pos a.v⟩
  sin a := ⟨Num.sin a.v, a.ok⟩
  cos a := ⟨Num.cos a.v, a.ok⟩
  exp a := ⟨Num.exp a.v, a.ok⟩
  log a := ⟨Num.log a.v, a.ok && pos a.v⟩
  acos a := ⟨Num.acos a.v, a.ok && decide (-1 < a.v) && decide (a.v < 1)⟩
  floor a := ⟨Num.floor a.v, a.ok⟩
  round a := ⟨Num.round a.v, a.ok⟩
  abs a := ⟨Num.abs a.v, a.ok⟩
  atan2 y x := ⟨Num.atan2 y.v x.v, y.ok && x.ok && nz (x.v * x.v + y.v * y.v)⟩
  decLt a b := inferInstanceAs (Decidable (a.v < b.v))
  decLe a b := inferInstanceAs (Decidable (a.v ≤ b.v))
  select c a b := ⟨bif c then a.v else b.v, a.ok && b.ok⟩

end Chk
end Odak
