import OdakModel.GazeStateTie
import OdakModel.Generated.StatsMaps
/-!
  The hand-written, CACHE-FREE reference of `MetamericLoss.calc_statsmaps` / `MetamericLossUniform.calc_statsmaps` - what an object that
  keeps nothing between calls computes: every blur is rendered with the level-of-detail map of ITS OWN call (`rbFresh`), the pyramid is
  that of a pyramid maker built for THIS image's channel count on the current device, the fovea mask is that of THIS call's level-of-detail
  map - and the packaging of the REGENERATED `calc_statsmaps` (`OdakModel/Generated/StatsMaps.lean`) as the `statsCore` /
  `uniformStatsCore` / `synthMetamer` of a `GazeOps` record (`fullOps`, `fullOpsU`), so that the regenerated `__call__` step functions of
  `Generated/StateMachines.lean` run on an object whose state CONTAINS the sub-objects (pyramid maker, one blur object per level, masks).
  Hand-written, no Mathlib.
-/
namespace Odak
open Gen
variable {T G R Shape Sub : Type} [DecidableEq G] [DecidableEq R] [DecidableEq Shape]

/-! ### `RadiallyVaryingBlur` objects after a call -/

/-- the attributes of a blur object after ANY call with the arguments `x` (whatever it held before, provided that was consistent) -/
def rbAfter (E : GazeOps T G R Shape Sub) (x : BlurArgs T G R) : RadiallyVaryingBlurSelf T G R Shape Sub :=
  rbToSelf (some (rbKey E x, rbValue E (rbKey E x)))

/-! ### `MetamericLoss.calc_statsmaps` -/

/-- the blur call `find_stats` makes on a pyramid band: foveation parameters and gaze of THIS `calc_statsmaps` call, `equi` of the object -/
def fsArgs (cfg : MetamericLossCfg R) (img : T) (g : G) (a w d : R) (m : String) : BlurArgs T G R := ⟨img, a, w, d, g, m, cfg.equi⟩

/-- `find_stats(level, blur)` without a cache: (local means, local standard deviations), `none` = "NaN in image means / stdevs" -/
def findStatsRef (E : GazeOps T G R Shape Sub) (S : StatsOps T R Shape) (cfg : MetamericLossCfg R) (g : G) (a w d : R) (m : String)
    (lvl : T) : Option (T × T) :=
  let means := rbFresh E (fsArgs cfg lvl g a w d m)
  let x2 := fsArgs cfg (E.mul lvl lvl) g a w d m
  let std := S.sqrt (S.fillWhereLt (E.sub (rbFresh E x2) (E.mul means means)) (E.lit "1e-07") (E.lit "1e-07"))
  if S.anyNan means then none else
  if S.anyNan std then none else
  if cfg.use_fullres_l0 then
    let m0 := S.unsqueeze2 (S.gtScalar (rbValue E (rbKey E x2)).1 (E.lit "1e-06"))
    let mask := if E.channels means > 1 then S.repeatC m0 (E.channels means) else m0
    let matte := S.fillWhere (S.zerosLike means) mask (E.lit "1.0")
    some (E.mul means matte, E.mul std matte)
  else some (means, std)

/-- one band `o` of level `l`: loop-carried = (statistics so far, periphery mask at this level's resolution) -/
def statsInnerRef (E : GazeOps T G R Shape Sub) (S : StatsOps T R Shape) (cfg : MetamericLossCfg R) (g : G) (a w d : R) (m : String)
    (pyr : List (PyrLevel T)) (l : Nat) (st : List T × Option T) (o : Nat) : Option (List T × Option T) := do
  let lv ← pyr[l]?
  let b ← lv.b
  let x ← b[o]?
  if ¬ l < cfg.n_pyramid_levels then none
  let r ← findStatsRef E S cfg g a w d m x
  if cfg.use_l2_foveal_loss then
    let p ← st.2
    pure (st.1 ++ [E.mul r.1 p] ++ [E.mul r.2 p], st.2)
  else pure (st.1 ++ [r.1] ++ [r.2], st.2)

/-- one level `l`: all its bands, then the periphery mask is halved -/
def statsOuterRef (E : GazeOps T G R Shape Sub) (S : StatsOps T R Shape) (cfg : MetamericLossCfg R) (g : G) (a w d : R) (m : String)
    (pyr : List (PyrLevel T)) (st : List T × Option T) (l : Nat) : Option (List T × Option T) := do
  let lv ← pyr[l]?
  let b ← lv.b
  let st' ← (List.range b.length).foldlM (statsInnerRef E S cfg g a w d m pyr l) st
  if cfg.use_l2_foveal_loss then
    let p ← st'.2
    pure (st'.1, some (S.areaHalf p))
  else pure st'

/-- the pyramid maker `calc_statsmaps` works with: built for THIS image's channel count, the configured orientations, the current device -/
def statsMaker (E : GazeOps T G R Shape Sub) (n_orientations : Nat) (device : Nat) (image : T) : Option SpatialSteerablePyramidSelf :=
  spatialSteerablePyramidInitG false (E.channels image) 5 n_orientations "cropped" device

/-- `calc_statsmaps` once the pyramid maker `pm` is there: (returned statistics, `self.fovea_mask` it leaves if `use_l2_foveal_loss`) -/
def statsRefTail (E : GazeOps T G R Shape Sub) (S : StatsOps T R Shape) (cfg : MetamericLossCfg R) (pm : SpatialSteerablePyramidSelf)
    (image : T) (g : G) (a w d : R) (m : String) : Option (List T × Option T) := do
  let pyr := S.constructPyramid pm image cfg.n_pyramid_levels
  let lv0 ← pyr[0]?
  let h ← lv0.h
  if cfg.n_pyramid_levels = 0 then none
  let r ← findStatsRef E S cfg g a w d m h
  let fm := S.foveaMask (rbValue E (rbKey E (fsArgs cfg (E.mul h h) g a w d m))).1 (E.shape image)
  let per := E.sub (E.scalar (E.lit "1.0")) fm
  let st0 : List T × Option T := if cfg.use_l2_foveal_loss then ([E.mul r.1 per, E.mul r.2 per], some per) else ([r.1, r.2], none)
  let st ← (List.range (pyr.length - 1)).foldlM (statsOuterRef E S cfg g a w d m pyr) st0
  if cfg.use_l2_foveal_loss then
    let last ← pyLast pyr
    let ll ← last.l
    let p ← st.2
    pure (st.1 ++ [E.mul ll p], some fm)
  else if cfg.use_fullres_l0 then
    pure (st.1 ++ [rbFresh E ⟨image, a, w, d, g, m, false⟩], none)
  else
    let last ← pyLast pyr
    let ll ← last.l
    pure (st.1 ++ [ll], none)

/-- `calc_statsmaps(image, gaze, alpha, width, distance, mode)` of an object that keeps NOTHING between calls:
    (returned statistics, `self.fovea_mask` it leaves if `use_l2_foveal_loss`, the pyramid maker it used); `none` = raises -/
def statsRef (E : GazeOps T G R Shape Sub) (S : StatsOps T R Shape) (cfg : MetamericLossCfg R) (device : Nat) (image : T) (g : G)
    (a w d : R) (m : String) : Option (List T × Option T × SpatialSteerablePyramidSelf) := do
  let pm ← statsMaker E cfg.n_orientations device image
  let r ← statsRefTail E S cfg pm image g a w d m
  pure (r.1, r.2, pm)

/-- what a NEW object's `calc_statsmaps` returns (`[]` when it raises) / the fovea mask it leaves for `__call__` (only read with
    `use_l2_foveal_loss`; the image itself otherwise) -/
def statsNew (E : GazeOps T G R Shape Sub) (S : StatsOps T R Shape) (cfg : MetamericLossCfg R) (device : Nat) (a w d : R) (m : String)
    (x : T) (g : G) : List T :=
  match statsRef E S cfg device x g a w d m with
  | some r => r.1
  | none => []

def maskNew (E : GazeOps T G R Shape Sub) (S : StatsOps T R Shape) (cfg : MetamericLossCfg R) (device : Nat) (a w d : R) (m : String)
    (x : T) (g : G) : T :=
  match statsRef E S cfg device x g a w d m with
  | some r => if cfg.use_l2_foveal_loss then r.2.1.getD x else x
  | none => x

/-! ### `MetamericLossUniform.calc_statsmaps` -/

/-- `find_stats(level, pooling_size)`: (local means, local standard deviations) of uniform pooling; `none` = "NaN in image means / stdevs" -/
def uFindStatsRef (E : GazeOps T G R Shape Sub) (S : StatsOps T R Shape) (lvl : T) (ps : R) : Option (T × T) :=
  let means := S.uniformBlur lvl ps
  let std := S.sqrt (S.fillWhereLt (E.sub (S.uniformBlur (E.mul lvl lvl) ps) (E.mul means means)) (E.lit "1e-07") (E.lit "1e-07"))
  if S.anyNan means then none else if S.anyNan std then none else some (means, std)

def uInnerRef (E : GazeOps T G R Shape Sub) (S : StatsOps T R Shape) (pyr : List (PyrLevel T)) (l : Nat) (st : List T × R) (o : Nat) :
    Option (List T × R) := do
  let lv ← pyr[l]?
  let b ← lv.b
  let x ← b[o]?
  let r ← uFindStatsRef E S x st.2
  pure (st.1 ++ [r.1] ++ [r.2], st.2)

/-- one level: all its bands with the current pooling size, which is then halved -/
def uOuterRef (E : GazeOps T G R Shape Sub) (S : StatsOps T R Shape) (pyr : List (PyrLevel T)) (st : List T × R) (l : Nat) :
    Option (List T × R) := do
  let lv ← pyr[l]?
  let b ← lv.b
  let st' ← (List.range b.length).foldlM (uInnerRef E S pyr l) st
  pure (st'.1, S.divNat st'.2 2)

def uStatsRefTail (E : GazeOps T G R Shape Sub) (S : StatsOps T R Shape) (cfg : MetamericLossUniformCfg R)
    (pm : SpatialSteerablePyramidSelf) (image : T) (pooling_size : Nat) : Option (List T) := do
  let pyr := S.constructPyramid pm image cfg.n_pyramid_levels
  let lv0 ← pyr[0]?
  let h ← lv0.h
  let r ← uFindStatsRef E S h (S.ofNat pooling_size)
  let st ← (List.range (pyr.length - 1)).foldlM (uOuterRef E S pyr) ([r.1, r.2], S.ofNat pooling_size)
  let last ← pyLast pyr
  let ll ← last.l
  pure (st.1 ++ [ll])

/-- `MetamericLossUniform.calc_statsmaps(image, pooling_size)` of an object that keeps nothing between calls: (statistics, pyramid maker) -/
def uStatsRef (E : GazeOps T G R Shape Sub) (S : StatsOps T R Shape) (cfg : MetamericLossUniformCfg R) (device : Nat) (image : T)
    (pooling_size : Nat) : Option (List T × SpatialSteerablePyramidSelf) := do
  let pm ← statsMaker E cfg.n_orientations device image
  let r ← uStatsRefTail E S cfg pm image pooling_size
  pure (r, pm)

def uStatsNew (E : GazeOps T G R Shape Sub) (S : StatsOps T R Shape) (cfg : MetamericLossUniformCfg R) (device : Nat) (ps : Nat) (x : T) :
    List T :=
  match uStatsRef E S cfg device x ps with
  | some r => r.1
  | none => []

/-! ### the regenerated `calc_statsmaps` as the `statsCore` of the regenerated `__call__`

  The sub-state `Sub` of the `__call__` step functions becomes the record of sub-objects of the regenerated `calc_statsmaps`, paired with
  the names of the attributes the sub-objects stored (for the executable tie).  `statsCore` is total: a `calc_statsmaps` that raises is
  marked by the entry `"RAISE"`, returns no statistics and leaves the sub-objects as they were. -/

def fullStatsCore (E : GazeOps T G R Shape Sub) (S : StatsOps T R Shape) (device : Nat) (cfg : MetamericLossCfg R)
    (sub : MetamericLossStatsSelf T G R Shape Sub × List String) (x : T) (g : G) (a w d : R) (m : String) :
    (MetamericLossStatsSelf T G R Shape Sub × List String) × List T × T :=
  match metamericLossCalcStatsmapsFullG E S cfg device sub.1 x g a w d m false with
  | some r => ((r.1, sub.2 ++ r.2.2), r.2.1, if cfg.use_l2_foveal_loss then r.1.fovea_mask.getD x else x)
  | none => ((sub.1, sub.2 ++ ["RAISE"]), [], x)

/-- the numerics `E` with `MetamericLoss.calc_statsmaps` INTERPRETED: `statsCore` is the regenerated method, `synthMetamer` synthesises
    with the pyramid maker the sub-state holds -/
def fullOps (E : GazeOps T G R Shape Sub) (S : StatsOps T R Shape) (device : Nat) :
    GazeOps T G R Shape (MetamericLossStatsSelf T G R Shape Sub × List String) :=
  E.withSub (fullStatsCore E S device) (fun _ s _ _ => (s, []))
    (fun cfg sub a b n x sz => S.synthWith cfg sub.1.pyramid_maker a b n x sz)

def fullUniformStatsCore (E : GazeOps T G R Shape Sub) (S : StatsOps T R Shape) (device : Nat) (cfg : MetamericLossUniformCfg R)
    (sub : MetamericLossUniformStatsSelf T G R Shape Sub × List String) (x : T) (ps : Nat) :
    (MetamericLossUniformStatsSelf T G R Shape Sub × List String) × List T :=
  match metamericLossUniformCalcStatsmapsFullG E S cfg device sub.1 x ps with
  | some r => ((r.1, sub.2 ++ r.2.2), r.2.1)
  | none => ((sub.1, sub.2 ++ ["RAISE"]), [])

/-- the numerics `E` with `MetamericLossUniform.calc_statsmaps` INTERPRETED -/
def fullOpsU (E : GazeOps T G R Shape Sub) (S : StatsOps T R Shape) (device : Nat) :
    GazeOps T G R Shape (MetamericLossUniformStatsSelf T G R Shape Sub × List String) :=
  E.withSub (fun _ s x _ _ _ _ _ => (s, [], x)) (fullUniformStatsCore E S device) (fun _ _ _ _ _ x _ => x)

/-! ### call lists of `calc_statsmaps` itself: configuration and device may change between calls (attribute assignment, `to(device)`) -/

structure StatsCall (T G R : Type) where
  cfg : MetamericLossCfg R
  device : Nat
  image : T
  gaze : G
  alpha : R
  real_image_width : R
  real_viewing_distance : R
  mode : String
  equi : Bool

def statsStep (E : GazeOps T G R Shape Sub) (S : StatsOps T R Shape) (s : MetamericLossStatsSelf T G R Shape Sub) (c : StatsCall T G R) :
    Option (MetamericLossStatsSelf T G R Shape Sub × List T) :=
  (metamericLossCalcStatsmapsFullG E S c.cfg c.device s c.image c.gaze c.alpha c.real_image_width c.real_viewing_distance c.mode c.equi).map
    fun r => (r.1, r.2.1)

/-- documented value of one `calc_statsmaps` call (`none` = raises) -/
def statsFresh (E : GazeOps T G R Shape Sub) (S : StatsOps T R Shape) (c : StatsCall T G R) : Option (List T) :=
  (statsRef E S c.cfg c.device c.image c.gaze c.alpha c.real_image_width c.real_viewing_distance c.mode).map (·.1)

structure UStatsCall (T R : Type) where
  cfg : MetamericLossUniformCfg R
  device : Nat
  image : T
  pooling_size : Nat

def uStatsStep (E : GazeOps T G R Shape Sub) (S : StatsOps T R Shape) (s : MetamericLossUniformStatsSelf T G R Shape Sub) (c : UStatsCall T R) :
    Option (MetamericLossUniformStatsSelf T G R Shape Sub × List T) :=
  (metamericLossUniformCalcStatsmapsFullG E S c.cfg c.device s c.image c.pooling_size).map fun r => (r.1, r.2.1)

def uStatsFresh (E : GazeOps T G R Shape Sub) (S : StatsOps T R Shape) (c : UStatsCall T R) : Option (List T) :=
  (uStatsRef E S c.cfg c.device c.image c.pooling_size).map (·.1)

end Odak
