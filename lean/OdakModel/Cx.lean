import OdakModel.Num
/-! Complex numbers over the scalar class (model-side; `toC : Cx ℝ → ℂ` lives in OdakProofs). -/
namespace Odak

structure Cx (α : Type) where
  re : α
  im : α
deriving Repr

namespace Cx
variable {α : Type} [Num α]

def zero : Cx α := ⟨0, 0⟩
def one : Cx α := ⟨1, 0⟩
def ofReal (x : α) : Cx α := ⟨x, 0⟩
def add (a b : Cx α) : Cx α := ⟨a.re + b.re, a.im + b.im⟩
def sub (a b : Cx α) : Cx α := ⟨a.re - b.re, a.im - b.im⟩
def neg (a : Cx α) : Cx α := ⟨-a.re, -a.im⟩
def mul (a b : Cx α) : Cx α := ⟨a.re * b.re - a.im * b.im, a.re * b.im + a.im * b.re⟩
def smul (c : α) (a : Cx α) : Cx α := ⟨c * a.re, c * a.im⟩
def conj (a : Cx α) : Cx α := ⟨a.re, -a.im⟩
def normSq (a : Cx α) : α := a.re * a.re + a.im * a.im
/-- `|a|` as `numpy.abs` / `torch.abs` -/
def abs (a : Cx α) : α := Num.sqrt (normSq a)
/-- `numpy.angle` / `torch.angle` -/
def arg (a : Cx α) : α := Num.atan2 a.im a.re
/-- `cos θ + i sin θ` -/
def expi (θ : α) : Cx α := ⟨Num.cos θ, Num.sin θ⟩
/-- `generate_complex_field`: `a cos φ + i a sin φ` -/
def polar (a φ : α) : Cx α := ⟨a * Num.cos φ, a * Num.sin φ⟩
/-- complex division by a real scalar -/
def divR (a : Cx α) (c : α) : Cx α := ⟨a.re / c, a.im / c⟩

instance : Add (Cx α) := ⟨add⟩
instance : Sub (Cx α) := ⟨sub⟩
instance : Mul (Cx α) := ⟨mul⟩
instance : Neg (Cx α) := ⟨neg⟩
instance : Zero (Cx α) := ⟨zero⟩
instance : One (Cx α) := ⟨one⟩

/-- left fold sum over `Fin n` (materialised list; at ℝ equal to a `Finset.sum`) -/
def sumFin (n : Nat) (f : Fin n → Cx α) : Cx α := (List.ofFn f).foldl (· + ·) zero

end Cx

/-- real left-fold sum over `Fin n` -/
def sumFinR {α : Type} [Num α] (n : Nat) (f : Fin n → α) : α := (List.ofFn f).foldl (· + ·) 0

end Odak
