import OdakModel.Parametric
import OdakModel.Rays
import OdakModel.Generated.CylinderGen
/-!
  NumPy ray-cylinder intersection (`odak/raytracing/boundary.py: intersect_w_cylinder`, `get_cylinder_normal`;
  `odak/raytracing/primitives.py: cylinder_function`; `odak/tools/vector.py: point_to_ray_distance`, `closest_point_to_a_ray`).

  Hand-written model definitions, in the terms the property speaks about (a point's squared distance from the axis LINE, the foot of
  the perpendicular on the axis, the unit normal away from the axis), and the instantiation of the secant loop of
  `OdakModel/Parametric.lean` with the REGENERATED `Gen.cylinderFunctionN` (`Generated/CylinderGen.lean`).
  `Lemmas/GenCylinder.lean` ties the regenerated definitions to these; `Props/C12.lean` states the corollaries.
-/
namespace Odak
variable {α : Type} [Num α]

/-- the packed array `[cx, cy, cz, r, px, py, pz]`: a point `c` of the axis, the radius, a second point `p` of the axis -/
structure Cylinder (α : Type) where
  c : Vec3 α
  r : α
  p : Vec3 α

/-- squared distance of `q` from the line through `a` and `b`: `|(q - a) × (q - b)|² / |b - a|²` -/
def lineDistSq (q a b : Vec3 α) : α := Vec3.normSq (Vec3.cross (q - a) (q - b)) / Vec3.normSq (b - a)

/-- `cylinder_function`: squared distance from the axis minus the squared radius (zero on the surface) -/
def cylinderFunction (q : Vec3 α) (cyl : Cylinder α) : α := lineDistSq q cyl.c cyl.p - cyl.r * cyl.r

/-- `closest_point_to_a_ray`: the point `o + t d` of the ray's line with `t = (q - o)·d / |d|²` -/
def closestPointOnRay (q : Vec3 α) (ray : Ray α) : Vec3 α :=
  ray.o + Vec3.smul (Vec3.dot (q - ray.o) ray.d / Vec3.normSq ray.d) ray.d

/-- the axis as `create_ray_from_two_points(cylinder[0:3], cylinder[4:7])` builds it -/
def Cylinder.axis (cyl : Cylinder α) : Ray α := ⟨cyl.c, rayDirTwoPoints cyl.c cyl.p⟩

/-- `get_cylinder_normal`: the ray from the foot of the perpendicular on the axis towards the point, unit direction -/
def cylinderNormal (q : Vec3 α) (cyl : Cylinder α) : Ray α :=
  ⟨closestPointOnRay q cyl.axis, rayDirTwoPoints (closestPointOnRay q cyl.axis) q⟩

/-- the regenerated `cylinder_function` on the packed parameters -/
def Gen.cylinderFn (cyl : Cylinder α) (q : Vec3 α) : α :=
  Gen.cylinderFunctionN q cyl.c.x cyl.c.y cyl.c.z cyl.r cyl.p.x cyl.p.y cyl.p.z

/-- the regenerated `get_cylinder_normal` on the packed parameters -/
def Gen.cylinderNormalOf (cyl : Cylinder α) (q : Vec3 α) : Ray α :=
  Gen.getCylinderNormalN q cyl.c.x cyl.c.y cyl.c.z cyl.r cyl.p.x cyl.p.y cyl.p.z

/-- `intersect_parametric(ray, cylinder, cylinder_function, get_cylinder_normal, target_error, iter_no_limit)`: the secant loop of
    `Parametric.lean` with the regenerated cylinder function as the surface function -/
def intersectCylinderWith (ray : Ray α) (cyl : Cylinder α) (target : α) (limit : Nat) : ParamResult α :=
  intersectParametricWith (Gen.cylinderFn cyl) ray target limit

/-- `intersect_w_cylinder(ray, cylinder)`: the defaults of `intersect_parametric` -/
def intersectCylinder (ray : Ray α) (cyl : Cylinder α) : ParamResult α :=
  intersectCylinderWith ray cyl Gen.parametricTargetErrorN Gen.parametricIterLimitN

/-- the surface normal `intersect_w_cylinder` returns with a hit: the regenerated normal function at the returned point -/
def ParamResult.cylinderNormal (cyl : Cylinder α) : ParamResult α → Option (Ray α)
  | .hit _ pt _ => some (Gen.cylinderNormalOf cyl pt)
  | _ => none

end Odak
