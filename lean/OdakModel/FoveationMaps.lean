import OdakModel.FovPrelude
import OdakModel.Vec3
/-!
  The geometry behind the pooling-size maps of `odak/learn/perception/foveation.py`, which `OdakModel/Foveation.lean` takes as
  inputs (`ecc`, `eccC`, `dist`): where a pixel sits on the screen, where the gaze point sits, the angle between the two viewing
  directions (the eccentricity), the equirectangular variant, the radial map, and the composite per-pixel level-of-detail maps.
  Hand-written, Mathlib-free; `Generated/FoveationGen.lean` (regenerated from the source on every run) is proved equal to these
  definitions in `OdakProofs/Lemmas/GenFoveation.lean`.
-/
namespace Odak
variable {α : Type} [Num α]

/-- real height of an `h × w` image shown `width` wide -/
def screenHeight (h w : Nat) (width : α) : α := width / Num.ofNat w * Num.ofNat h

/-- `make_3d_location_map`: the point of the screen that shows pixel `[i, j]` of an `h × w` image; the screen is `width` wide,
    centred on the viewing axis, `dist` away (x to the right along the columns, y along the rows) -/
def screenPoint (h w : Nat) (width dist : α) (i j : Nat) : Vec3 α :=
  ⟨linspace (-Num.half) Num.half w j * width, linspace (-Num.half) Num.half h i * screenHeight h w width, dist⟩

/-- the point of the screen the user looks at: normalised image coordinates `(g0, g1)` = (across, down) in `[0, 1]²` -/
def gazePoint (g0 g1 : α) (h w : Nat) (width dist : α) : Vec3 α :=
  ⟨(g0 * Num.two - 1) * width * Num.half, (g1 * Num.two - 1) * screenHeight h w width * Num.half, dist⟩

/-- angle between the directions of two points seen from the origin, as coded: `acos` of the dot product of the
    normalised vectors, clamped to `[-1, 1]` -/
def angleBetween (a b : Vec3 α) : α :=
  Num.acos (Num.clamp (Vec3.dot (Vec3.sdiv a (Vec3.norm a)) (Vec3.sdiv b (Vec3.norm b))) (-1) 1)

/-- `make_eccentricity_distance_maps`, first result: eccentricity of pixel `[i, j]` for the gaze `(g0, g1)` -/
def eccentricityAt (g0 g1 : α) (h w : Nat) (width dist : α) (i j : Nat) : α :=
  angleBetween (gazePoint g0 g1 h w width dist) (screenPoint h w width dist i j)

/-- `make_eccentricity_distance_maps`, second result: distance from the eye to pixel `[i, j]` -/
def distanceAt (h w : Nat) (width dist : α) (i j : Nat) : α := Vec3.norm (screenPoint h w width dist i j)

/-- `make_pooling_size_map_pixels` at pixel `[i, j]` -/
def poolingPixelsAt (quadratic : Bool) (g0 g1 : α) (h w : Nat) (alpha width dist : α) (i j : Nat) : α :=
  poolingPixel quadratic alpha (eccentricityAt g0 g1 h w width dist i j) (eccentricityAt Num.half Num.half h w width dist i j)
    (distanceAt h w width dist i j) width dist w

/-- `make_pooling_size_map_lod` at pixel `[i, j]` -/
def poolingLodAt (quadratic : Bool) (g0 g1 : α) (h w : Nat) (alpha width dist : α) (i j : Nat) : α :=
  lodOf (poolingPixelsAt quadratic g0 g1 h w alpha width dist i j)

/-- unit vector of yaw `yaw` (around the vertical axis) and pitch `pitch` -/
def equiDirection (yaw pitch : α) : Vec3 α :=
  ⟨Num.sin yaw * Num.cos pitch, Num.sin pitch, Num.cos yaw * Num.cos pitch⟩

/-- yaw / pitch of pixel `[i, j]` of an `h × w` equirectangular image -/
def equiYaw (w j : Nat) : α := linspace (-Num.pi) Num.pi w j
def equiPitch (h i : Nat) : α := linspace (-Num.pi * Num.half) (Num.pi * Num.half) h i

/-- eccentricity of an equirectangular pixel for the gaze angles `(a0, a1)` = (yaw, pitch); the dot product is clamped to `[-1, 1]` (source: since the repair of finding F38) -/
def equiEccentricityAt (a0 a1 : α) (h w : Nat) (i j : Nat) : α :=
  Num.acos (Num.clamp (Vec3.dot (equiDirection a0 a1) (equiDirection (equiYaw w j) (equiPitch h i))) (-1) 1)

/-- `make_equi_pooling_size_map_pixels` / `_lod` at pixel `[i, j]` -/
def equiPoolingPixelsAt (quadratic : Bool) (a0 a1 : α) (h w : Nat) (alpha : α) (i j : Nat) : α :=
  equiPoolingPixel quadratic alpha (equiEccentricityAt a0 a1 h w i j) h w
def equiPoolingLodAt (quadratic : Bool) (a0 a1 : α) (h w : Nat) (alpha : α) (i j : Nat) : α :=
  lodOf (equiPoolingPixelsAt quadratic a0 a1 h w alpha i j)

/-- `make_radial_map` before normalisation: distance in pixels of `[i, j]` from the gaze `(g0, g1)` = (down, across) -
    rows and columns are `linspace(0, size, size)` -/
def radialRadius (s0 s1 : Nat) (g0 g1 : α) (i j : Nat) : α :=
  Num.sqrt (Num.sq (linspace 0 (Num.ofNat s0) s0 i - g0 * Num.ofNat s0) + Num.sq (linspace 0 (Num.ofNat s1) s1 j - g1 * Num.ofNat s1))

/-- `make_radial_map`: radii divided by the largest radius of the image -/
def radialMap (s0 s1 : Nat) (g0 g1 : α) (i j : Nat) : α :=
  radialRadius s0 s1 g0 g1 i j / gridMax s0 s1 fun i j => radialRadius s0 s1 g0 g1 i j

/-! ### `RadiallyVaryingBlur.blur` -/

/-- the blend fraction used by the blur: the fractional part of the level of detail -/
def lodFraction (lod : α) : α := lod - Num.floor lod

/-- what one output pixel of the blur is when its level of detail lies in level `l` of `levels`: the coarsest level as it is,
    any other level blended with the next coarser one by `frac` -/
def blurSelect (levels l : Nat) (frac : α) (mip : Nat → α) : α :=
  if l = levels - 1 then mip l else blend frac (mip l) (mip (l + 1))

end Odak
