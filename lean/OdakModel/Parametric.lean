import OdakModel.Generated.GeometryGen
/-!
  NumPy secant intersector `odak/raytracing/boundary.py: intersect_parametric` (used by `intersect_w_sphere` and
  `intersect_w_cylinder`), as an executable total function with the surface function as a parameter.

  Python (one ray):
  ```
  error = [150, 100]; distance = [0, 0.1]; iter_no = 0
  while np.abs(np.max(np.asarray(error[1]))) > target_error:
      error[1], point = intersection_kernel_for_parametric_surfaces(distance[1], ray, surface, surface_function)
      distance, error = propagate_parametric_intersection_error(distance, error)
      iter_no += 1
      if iter_no > iter_no_limit: return False, False
      if np.isnan(np.sum(point)): return False, False
  normal = surface_normal_function(point, surface)
  return distance[1], normal
  ```
  The loop (order of the statements, the three exits) is written by hand here; everything inside it is REGENERATED from the
  source: the start values `Gen.parametricInitN`, the guard `Gen.parametricGuardN`, the kernel `Gen.kernelParametricN`
  (with `Gen.propagateARayN`), the secant update `Gen.secantUpdateN`, the defaults `Gen.parametricTargetErrorN`,
  `Gen.parametricIterLimitN`.  `Gen.parametricLoopShape` is the loop's control structure as text; a theorem in
  `Props/C12.lean` pins it to the structure modelled here.

  State = the two Python lists (`distance`, `error`) and the counter.  Note what the exit returns: `point` is the point at
  the PREVIOUS `distance[1]` (the one whose residual passed the test), `distance[1]` is already one secant step further.
-/
namespace Odak
variable {α : Type} [Num α]

/-- the lists `distance = [d0, d1]`, `error = [e0, e1]` -/
structure SecantState (α : Type) where
  d0 : α
  d1 : α
  e0 : α
  e1 : α

inductive MissKind where
  | limit      -- `iter_no > iter_no_limit`
  | nan        -- `np.isnan(np.sum(point))`
deriving DecidableEq, Repr

/-- what `intersect_parametric` returns: `(distance[1], normal at point)` – or `(False, False)` – after `iters` passes;
    `unbound`: the guard is false on entry, the loop body never runs and `point` is an unbound local (Python raises) -/
inductive ParamResult (α : Type) where
  | hit (distance : α) (point : Vec3 α) (iters : Nat)
  | miss (why : MissKind) (iters : Nat)
  | unbound

def ParamResult.iters : ParamResult α → Nat
  | .hit _ _ k => k
  | .miss _ k => k
  | .unbound => 0

def ParamResult.isHit : ParamResult α → Bool
  | .hit _ _ _ => true
  | _ => false

/-- the first two statements of the loop body: kernel at `distance[1]` (overwrites `error[1]`), then the secant update.
    Returns the new lists and `point`. -/
def secantPass (f : Vec3 α → α) (ray : Ray α) (s : SecantState α) : SecantState α × Vec3 α :=
  let k := Gen.kernelParametricN s.d1 ray f
  let u := Gen.secantUpdateN s.d0 s.d1 s.e0 k.1
  (⟨u.1.1, u.1.2, u.2.1, u.2.2⟩, k.2)

/-- the loop, entered with a true guard: body, counter, limit exit, NaN exit, guard -/
def paramLoop (f : Vec3 α → α) (ray : Ray α) (target : α) (limit : Nat) (iter : Nat) (s : SecantState α) : ParamResult α :=
  if limit < iter + 1 then .miss .limit (iter + 1)
  else if Num.isNaN (Vec3.compSum (secantPass f ray s).2) then .miss .nan (iter + 1)
  else if Gen.parametricGuardN (secantPass f ray s).1.e0 (secantPass f ray s).1.e1 target then
    paramLoop f ray target limit (iter + 1) (secantPass f ray s).1
  else .hit (secantPass f ray s).1.d1 (secantPass f ray s).2 (iter + 1)
termination_by limit + 1 - iter
decreasing_by omega

def secantInit : SecantState α :=
  let i : (α × α) × (α × α) := Gen.parametricInitN
  ⟨i.1.1, i.1.2, i.2.1, i.2.2⟩

/-- `intersect_parametric(ray, surface, f, normal_function, target_error, iter_no_limit)` -/
def intersectParametricWith (f : Vec3 α → α) (ray : Ray α) (target : α) (limit : Nat) : ParamResult α :=
  if Gen.parametricGuardN (secantInit (α := α)).e0 (secantInit (α := α)).e1 target then paramLoop f ray target limit 0 secantInit
  else .unbound

/-- with the defaults of the source -/
def intersectParametric (f : Vec3 α → α) (ray : Ray α) : ParamResult α :=
  intersectParametricWith f ray Gen.parametricTargetErrorN Gen.parametricIterLimitN

/-- `intersect_w_sphere`: the regenerated `sphere_function` as the surface function -/
def intersectSphereWith (ray : Ray α) (c : Vec3 α) (r target : α) (limit : Nat) : ParamResult α :=
  intersectParametricWith (fun p => Gen.sphereFunctionN p c.x c.y c.z r) ray target limit

end Odak
