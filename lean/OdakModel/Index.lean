import OdakModel.Generated.IndexExprs
/-!
  Index semantics of `zero_pad` / `crop_center` (NumPy and torch) and of `pad_image_for_pyramid`.
  The integer expressions come from `Generated/IndexExprs.lean` (regenerated from /repo on every
  run); this file gives them their array meaning: which output sample reads which input sample.
-/
namespace Odak.Index

/-- one axis of an index map: output length and, per output position, the input position it
    copies (`none` = a zero written by padding) -/
structure AxisMap where
  len : Nat
  src : Nat → Option Nat

/-- `out = zeros(res); out[lo:hi] = field` on one axis (`field` has `h` samples).
    `ok` is false when Python would raise or wrap (negative bound, `hi > res`, or a length mismatch). -/
def storeAxis (res lo hi h : Int) : Bool × AxisMap :=
  (decide (0 ≤ lo ∧ hi ≤ res ∧ hi - lo = h ∧ 0 ≤ res),
   { len := res.toNat,
     src := fun i => if lo ≤ (i : Int) ∧ (i : Int) < hi then some ((i : Int) - lo).toNat else none })

/-- Python `a[lo:hi]` for an axis of length `n` (negative bounds wrap, then clamp) -/
def pySliceBounds (n lo hi : Int) : Int × Int :=
  let norm := fun (b : Int) => if b < 0 then max (b + n) 0 else min b n
  (norm lo, norm hi)

/-- `field[lo:hi]` on one axis of length `n` -/
def loadAxis (n lo hi : Int) : AxisMap :=
  let (a, b) := pySliceBounds n lo hi
  { len := (b - a).toNat, src := fun i => some ((i : Int) + a).toNat }

/-- `np.pad(field, [b, a])` on one axis of length `h`; `ok` false when NumPy raises (negative width) -/
def npPadAxis (h b a : Int) : Bool × AxisMap :=
  (decide (0 ≤ b ∧ 0 ≤ a),
   { len := (b + h + a).toNat,
     src := fun i => if b ≤ (i : Int) ∧ (i : Int) < b + h then some ((i : Int) - b).toNat else none })

/-- `m` copies input position `i` to output position `i`, for an input of `n` samples -/
def AxisMap.IsId (m : AxisMap) (n : Nat) : Prop := m.len = n ∧ ∀ i, i < n → m.src i = some i

/-- `m` is "`h` samples of content starting at `start`, zeros elsewhere", total length `len` -/
def AxisMap.IsPad (m : AxisMap) (h start len : Nat) : Prop :=
  m.len = len ∧ start + h ≤ len ∧
    ∀ i, i < len → m.src i = if start ≤ i ∧ i < start + h then some (i - start) else none

/-- composition: first `f`, then `g` reads from `f`'s output -/
def AxisMap.comp (g f : AxisMap) : AxisMap :=
  { len := g.len, src := fun i => (g.src i).bind f.src }

open Odak.Gen

/-- torch `zero_pad`, axis 0 or 1 of the two spatial axes; `explicit` = `size` given -/
def torchPad (explicit : Bool) (axis : Nat) (H W S0 S1 : Int) : Bool × AxisMap :=
  match explicit, axis with
  | false, 0 => storeAxis (torchPadDef_res0 H W S0 S1) (torchPadDef_lo0 H W S0 S1) (torchPadDef_hi0 H W S0 S1) H
  | false, _ => storeAxis (torchPadDef_res1 H W S0 S1) (torchPadDef_lo1 H W S0 S1) (torchPadDef_hi1 H W S0 S1) W
  | true, 0 => storeAxis (torchPadExp_res0 H W S0 S1) (torchPadExp_lo0 H W S0 S1) (torchPadExp_hi0 H W S0 S1) H
  | true, _ => storeAxis (torchPadExp_res1 H W S0 S1) (torchPadExp_lo1 H W S0 S1) (torchPadExp_hi1 H W S0 S1) W

/-- torch `crop_center` -/
def torchCrop (explicit : Bool) (axis : Nat) (H W S0 S1 : Int) : AxisMap :=
  match explicit, axis with
  | false, 0 => loadAxis H (torchCropDef_lo0 H W S0 S1) (torchCropDef_hi0 H W S0 S1)
  | false, _ => loadAxis W (torchCropDef_lo1 H W S0 S1) (torchCropDef_hi1 H W S0 S1)
  | true, 0 => loadAxis H (torchCropExp_lo0 H W S0 S1) (torchCropExp_hi0 H W S0 S1)
  | true, _ => loadAxis W (torchCropExp_lo1 H W S0 S1) (torchCropExp_hi1 H W S0 S1)

/-- NumPy `zero_pad` (`np.pad` then, for an explicit size, `[0:size]`) -/
def npPad (explicit : Bool) (axis : Nat) (H W S0 S1 : Int) : Bool × AxisMap :=
  match explicit, axis with
  | false, 0 => npPadAxis H (npPadDef_b0 H W S0 S1) (npPadDef_a0 H W S0 S1)
  | false, _ => npPadAxis W (npPadDef_b1 H W S0 S1) (npPadDef_a1 H W S0 S1)
  | true, 0 =>
    let (ok, p) := npPadAxis H (npPadExp_b0 H W S0 S1) (npPadExp_a0 H W S0 S1)
    (ok, (loadAxis p.len (npPadExp_cutlo0 p.len 0 S0 S1) (npPadExp_cuthi0 p.len 0 S0 S1)).comp p)
  | true, _ =>
    let (ok, p) := npPadAxis W (npPadExp_b1 H W S0 S1) (npPadExp_a1 H W S0 S1)
    (ok, (loadAxis p.len (npPadExp_cutlo1 0 p.len S0 S1) (npPadExp_cuthi1 0 p.len S0 S1)).comp p)

/-- NumPy `crop_center` -/
def npCrop (explicit : Bool) (axis : Nat) (H W S0 S1 : Int) : AxisMap :=
  match explicit, axis with
  | false, 0 => loadAxis H (npCropDef_lo0 H W S0 S1) (npCropDef_hi0 H W S0 S1)
  | false, _ => loadAxis W (npCropDef_lo1 H W S0 S1) (npCropDef_hi1 H W S0 S1)
  | true, 0 => loadAxis H (npCropExp_lo0 H W S0 S1) (npCropExp_hi0 H W S0 S1)
  | true, _ => loadAxis W (npCropExp_lo1 H W S0 S1) (npCropExp_hi1 H W S0 S1)

/-- the crop NumPy `gerchberg_saxton` applies to its padded hologram -/
def npGsCrop (axis : Nat) (P0 P1 H W : Int) : AxisMap :=
  match axis with
  | 0 => loadAxis P0 (npGsCrop_lo0 P0 P1 H W) (npGsCrop_hi0 P0 P1 H W)
  | _ => loadAxis P1 (npGsCrop_lo1 P0 P1 H W) (npGsCrop_hi1 P0 P1 H W)

/-! ### rank / layout logic of the torch functions (shapes only) -/

/-- which two axes of the *input* shape the torch functions treat as spatial.
    `none` for ranks outside 2..4.  Mirrors: unsqueeze to 4-D, `if shape[-1] < 5: permute(0,3,1,2)`. -/
def torchSpatialAxes (shape : List Nat) : Option (Nat × Nat) :=
  let r := shape.length
  if r < 2 ∨ 4 < r then none else
  let s4 := List.replicate (4 - r) 1 ++ shape
  let lastSmall := decide (s4.getD 3 0 < 5)
  let (a, b) := if lastSmall then (1, 2) else (2, 3)
  -- back to input axes
  let off := 4 - r
  if a < off then none else some (a - off, b - off)

/-! ### pyramid padding (`torch.nn.ReflectionPad2d((left, right, top, bottom))`) -/

/-- reflection pad on one axis of length `n` with `before`/`after` extra samples (needs both < n) -/
def reflectAxis (n before after : Int) : Bool × AxisMap :=
  (decide (0 ≤ before ∧ 0 ≤ after ∧ before < n ∧ after < n),
   { len := (before + n + after).toNat,
     src := fun i =>
       let j := (i : Int) - before
       some (if j < 0 then -j else if n ≤ j then 2 * (n - 1) - j else j).toNat })

/-- does `pad_image_for_pyramid` pad at all (the `if` guarding the pad) -/
def pyrNeedsPad (H W D : Int) : Bool := decide (pyrReqH H W D > H ∨ pyrReqW H W D > W)

/-- `pad_image_for_pyramid` on the height axis (axis 0) or width axis (axis 1) -/
def pyrPad (axis : Nat) (H W D : Int) : Bool × AxisMap :=
  if pyrNeedsPad H W D then
    match axis with
    | 0 => reflectAxis H (pyrPadTop H W D) (pyrPadBottom H W D)
    | _ => reflectAxis W (pyrPadLeft H W D) (pyrPadRight H W D)
  else
    (true, { len := (if axis = 0 then H else W).toNat, src := fun i => some i })

end Odak.Index
