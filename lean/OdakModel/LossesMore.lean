import OdakModel.LossPrelude
/-!
  Hand-written model of the loss helpers of `odak/learn/tools/loss.py` that `OdakModel/Losses.lean` has no definition for:
  `radial_basis_function`, `weber_contrast`, `michelson_contrast`, `total_variation_loss` of a batched multi-channel frame and
  `multi_scale_total_variation_loss`.  Mathlib-free; `Generated/LossesGen.lean` (regenerated from the source on every run) is proved
  equal to these definitions in `OdakProofs/Lemmas/GenLosses.lean`, where their property statements (non-negative, zero at
  identity / on uniform images) are proved too.
-/
namespace Odak
variable {α : Type} [Num α]

/-- `radial_basis_function`: the Gaussian `exp(-(ε · x)²)` -/
def radialBasis (value epsilon : α) : α := Num.exp (-(Num.sq (epsilon * value)))

/-- mean of the block `rows r0 … r1 - 1`, `columns c0 … c1 - 1` of a grid -/
def regionMean (img : T2 α) (r0 r1 c0 c1 : Nat) : α := Tn.mean2 ((Tn.slice r0 r1 img).map (Tn.slice c0 c1))

/-- Weber contrast `(high - low) / low` and Michelson contrast `(high - low) / (high + low)` of two region means -/
def weber (high low : α) : α := (high - low) / low
def michelson (high low : α) : α := (high - low) / (high + low)

/-- squared differences of horizontally / vertically adjacent samples of one grid, summed (`tvLoss = (tvDx + tvDy) / pixels`) -/
def tvDx (rows : T2 α) : α := sumL (rows.map fun r => sumL (List.zipWith (fun a b => Num.sq (b - a)) r r.tail))
def tvDy (rows : T2 α) : α :=
  sumL (List.zipWith (fun r s => sumL (List.zipWith (fun a b => Num.sq (b - a)) r s)) rows rows.tail)

/-- `total_variation_loss` of a `[N, C, H, W]` frame: the same sums over every image and channel, over `N · C · H · W` -/
def tvLoss4 (frame : T4 α) : α :=
  (sumL (frame.map fun img => sumL (img.map tvDx)) + sumL (frame.map fun img => sumL (img.map tvDy)))
    / Num.ofNat (Tn.dim0 frame * Tn.dim1 frame * Tn.dim2 frame * Tn.dim3 frame)

/-- `multi_scale_total_variation_loss`: the total variations of the frame and of its `levels - 1` successive nearest-neighbour
    down-samplings by 2, added up -/
def multiScaleTv (frame : T4 α) : Nat → α
  | 0 => 0
  | n + 1 => tvLoss4 frame + multiScaleTv (Tn.down2 frame) n

end Odak
