import OdakModel.Num
/-! Foveation plumbing: pooling-size maps (`odak/learn/perception/foveation.py`) and the blending step of
    `RadiallyVaryingBlur.blur`.  (Pyramid padding lives in `OdakModel/Index.lean`.) -/
namespace Odak
variable {α : Type} [Num α]
open Num

/-- `tan` from the class's `sin`/`cos` -/
def tanN (x : α) : α := Num.sin x / Num.cos x

/-- `make_pooling_size_map_pixels` at one pixel: eccentricity `ecc` of the pixel w.r.t. the gaze, eccentricity
    `eccC` w.r.t. the image centre, distance `dist` to the pixel; `quadratic` mode squares the eccentricity -/
def poolingPixel (quadratic : Bool) (alpha ecc eccC dist width viewDist : α) (npix : Nat) : α :=
  let rad0 := alpha * ecc
  let rad := if quadratic then rad0 * ecc else rad0
  let angleMin := eccC - rad * Num.half
  let angleMax := eccC + rad * Num.half
  let major := (tanN angleMax - tanN angleMin) * viewDist
  let minor := Num.two * dist * tanN (rad * Num.half)
  let area := Num.abs (Num.pi * major * minor * Num.ofSci 25 true 2)
  Num.sqrt area / width * Num.ofNat npix

/-- `make_pooling_size_map_lod`: `log2(1e-6 + pixels)` clamped below at 0 -/
def lodOf (px : α) : α :=
  let l := Num.log (Num.ofSci 1 true 6 + px) / Num.log Num.two
  if l < 0 then 0 else l

/-- equirectangular variant: `sqrt |π · (rad · ppx) · (rad · ppy) / 4|` -/
def equiPoolingPixel (quadratic : Bool) (alpha ecc : α) (h w : Nat) : α :=
  let rad0 := alpha * ecc
  let rad := if quadratic then rad0 * ecc else rad0
  let ppx := Num.ofNat w / (Num.two * Num.pi)
  let ppy := Num.ofNat h / Num.pi
  Num.sqrt (Num.abs (Num.pi * (rad * ppx) * (rad * ppy) * Num.ofSci 25 true 2))

/-- blending of two mip levels by the fractional level -/
def blend (f a b : α) : α := (1 - f) * a + f * b

/-- which mip level a pixel of level-of-detail `lod` reads from, among `levels` levels: `floor lod` capped -/
def mipLevel (levels : Nat) (lod : α) : α :=
  Num.minN (Num.floor lod) (Num.ofNat (levels - 1))

end Odak
