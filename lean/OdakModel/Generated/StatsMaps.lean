import OdakModel.StatsPrelude
import OdakModel.Generated.StateMachines
set_option linter.unusedVariables false
/- HAND-WRITTEN TARGET (to be replaced by the translator output) -/
namespace Odak.Gen

/-- the constructor arguments of a `SpatialSteerablePyramid` -/
structure SpatialSteerablePyramidSelf where
  use_bilinear_downup : Bool
  n_channels : Nat
  filter_size : Nat
  n_orientations : Nat
  filter_type : String
  device : Nat
deriving DecidableEq

def steerableFilterTableG (n_orientations : Nat) : Option (Nat × Nat) :=
  if n_orientations = 1 then some (1, 1) else
  if n_orientations = 2 then some (2, 1) else
  if n_orientations = 4 then some (4, 1) else
  if n_orientations = 6 then some (6, 1) else none

def spatialSteerablePyramidInitG (use_bilinear_downup : Bool) (n_channels : Nat) (filter_size : Nat) (n_orientations : Nat) (filter_type : String) (device : Nat) : Option SpatialSteerablePyramidSelf := do
  let t_ ← steerableFilterTableG n_orientations
  return { use_bilinear_downup := use_bilinear_downup, n_channels := n_channels, filter_size := filter_size, n_orientations := n_orientations, filter_type := filter_type, device := device }

def spatialSteerablePyramidDeviceG (pm : SpatialSteerablePyramidSelf) : Option Nat := some pm.device
def spatialSteerablePyramidBandFiltersLenG (pm : SpatialSteerablePyramidSelf) : Option Nat := (steerableFilterTableG pm.n_orientations).map (·.1)
def spatialSteerablePyramidFiltH0Size0G (pm : SpatialSteerablePyramidSelf) : Option Nat :=
  if pm.n_channels ≠ 1 then some pm.n_channels else (steerableFilterTableG pm.n_orientations).map (·.2)

structure StatsOps (T R Shape : Type) where
  constructPyramid : SpatialSteerablePyramidSelf → T → Nat → List (PyrLevel T)
  anyNan : T → Bool
  sqrt : T → T
  fillWhereLt : T → R → R → T
  gtScalar : T → R → T
  unsqueeze2 : T → T
  repeatC : T → Nat → T
  zerosLike : T → T
  fillWhere : T → T → R → T
  foveaMask : T → Shape → T
  areaHalf : T → T
  uniformBlur : T → R → T
  ofNat : Nat → R
  divNat : R → Nat → R
  synthWith : MetamericLossCfg R → Option SpatialSteerablePyramidSelf → List T → List T → T → T → Shape → T

variable {T G R Shape Sub : Type} [DecidableEq G] [DecidableEq R] [DecidableEq Shape]

/-- the same numerics with another representation of the sub-objects: the fields of `GazeOps` that mention `Sub` are given, every other field is copied -/
def GazeOps.withSub {Sub' : Type} (E : GazeOps T G R Shape Sub) (statsCore' : MetamericLossCfg R → Sub' → T → G → R → R → R → String → Sub' × List T × T) (uniformStatsCore' : MetamericLossUniformCfg R → Sub' → T → Nat → Sub' × List T) (synthMetamer' : MetamericLossCfg R → Sub' → List T → List T → T → T → Shape → T) : GazeOps T G R Shape Sub' :=
  { height := E.height, width := E.width, channels := E.channels, shape := E.shape, allEq := E.allEq, same := E.same, inputsOk := E.inputsOk, pad := E.pad, ycrcb := E.ycrcb, rgb := E.rgb, zeros := E.zeros, randLike := E.randLike, lit := E.lit, scalar := E.scalar, nat := E.nat, add := E.add, sub := E.sub, mul := E.mul, div := E.div, mse := E.mse, fmod := E.fmod, repeatChannels := E.repeatChannels, lodPlain := E.lodPlain, lodEqui := E.lodEqui, radialMap := E.radialMap, renderBlur := E.renderBlur, statsCore := statsCore', visualise := E.visualise, uniformStatsCore := uniformStatsCore', synthMetamer := synthMetamer' }

structure MetamericLossStatsSelf (T G R Shape Sub : Type) where
  pyramid_maker : Option SpatialSteerablePyramidSelf
  blurs : Option (List (RadiallyVaryingBlurSelf T G R Shape Sub))
  fovea_mask : Option T
  periphery_mask : Option T

def MetamericLossStatsSelf.init : MetamericLossStatsSelf T G R Shape Sub := { pyramid_maker := none, blurs := none, fovea_mask := none, periphery_mask := none }

def metamericLossCalcStatsmapsFindStatsG (E : GazeOps T G R Shape Sub) (S : StatsOps T R Shape) (cfg : MetamericLossCfg R) (gaze : G) (alpha : R) (real_image_width : R) (real_viewing_distance : R) (mode : String) (image_pyr_level : T) (blur : RadiallyVaryingBlurSelf T G R Shape Sub) : Option (RadiallyVaryingBlurSelf T G R Shape Sub × (T × T) × List String) := do
  let mut blur := blur
  let mut log_ : List String := []
  let r_1 ← radiallyVaryingBlurBlurG E blur image_pyr_level alpha real_image_width real_viewing_distance gaze mode cfg.equi
  blur := r_1.1
  log_ := log_ ++ r_1.2.2
  let mut image_means : T := r_1.2.1
  let r_2 ← radiallyVaryingBlurBlurG E blur (E.mul image_pyr_level image_pyr_level) alpha real_image_width real_viewing_distance gaze mode cfg.equi
  blur := r_2.1
  log_ := log_ ++ r_2.2.2
  let mut image_meansq : T := r_2.2.1
  let mut image_vars : T := (E.sub image_meansq (E.mul image_means image_means))
  image_vars := (S.fillWhereLt image_vars (E.lit "1e-07") (E.lit "1e-07"))
  let mut image_std : T := (S.sqrt image_vars)
  if (S.anyNan image_means) then
    none
  if (S.anyNan image_std) then
    none
  if cfg.use_fullres_l0 then
    let v_3 ← blur.lod_map
    let mut mask : T := (S.gtScalar v_3 (E.lit "1e-06"))
    mask := (S.unsqueeze2 mask)
    if (decide ((E.channels image_means) > 1)) then
      mask := (S.repeatC mask (E.channels image_means))
    let mut matte : T := (S.zerosLike image_means)
    matte := (S.fillWhere matte mask (E.lit "1.0"))
    return (blur, ((E.mul image_means matte), (E.mul image_std matte)), log_)
  return (blur, (image_means, image_std), log_)

def metamericLossCalcStatsmapsFor1For1G (E : GazeOps T G R Shape Sub) (S : StatsOps T R Shape) (cfg : MetamericLossCfg R) (gaze : G) (alpha : R) (real_image_width : R) (real_viewing_distance : R) (mode : String) (image_pyramid : List (PyrLevel T)) (l : Nat)
    (st_ : MetamericLossStatsSelf T G R Shape Sub × List String × T × T × List T × Option T) (o : Nat) :
    Option (MetamericLossStatsSelf T G R Shape Sub × List String × T × T × List T × Option T) := do
  let mut self_ := st_.1
  let mut log_ := st_.2.1
  let mut means := st_.2.2.1
  let mut variances := st_.2.2.2.1
  let mut output_stats := st_.2.2.2.2.1
  let mut periphery_mask := st_.2.2.2.2.2
  let v_1 ← image_pyramid[l]?
  let v_2 ← v_1.b
  let v_3 ← v_2[o]?
  let v_4 ← self_.blurs
  let v_5 ← v_4[l]?
  let r_6 ← metamericLossCalcStatsmapsFindStatsG E S cfg gaze alpha real_image_width real_viewing_distance mode v_3 v_5
  self_ := { self_ with blurs := some (v_4.set l r_6.1) }
  log_ := log_ ++ r_6.2.2.map (fun s_ => "blurs[" ++ toString l ++ "]." ++ s_)
  means := r_6.2.1.1
  variances := r_6.2.1.2
  if cfg.use_l2_foveal_loss then
    let v_7 ← periphery_mask
    output_stats := output_stats ++ [(E.mul means v_7)]
    let v_8 ← periphery_mask
    output_stats := output_stats ++ [(E.mul variances v_8)]
  else
    output_stats := output_stats ++ [means]
    output_stats := output_stats ++ [variances]
  return (self_, log_, means, variances, output_stats, periphery_mask)

def metamericLossCalcStatsmapsFor1G (E : GazeOps T G R Shape Sub) (S : StatsOps T R Shape) (cfg : MetamericLossCfg R) (gaze : G) (alpha : R) (real_image_width : R) (real_viewing_distance : R) (mode : String) (image_pyramid : List (PyrLevel T))
    (st_ : MetamericLossStatsSelf T G R Shape Sub × List String × T × T × List T × Option T) (l : Nat) :
    Option (MetamericLossStatsSelf T G R Shape Sub × List String × T × T × List T × Option T) := do
  let mut self_ := st_.1
  let mut log_ := st_.2.1
  let mut means := st_.2.2.1
  let mut variances := st_.2.2.2.1
  let mut output_stats := st_.2.2.2.2.1
  let mut periphery_mask := st_.2.2.2.2.2
  let v_1 ← image_pyramid[l]?
  let v_2 ← v_1.b
  let st_3 ← (List.range v_2.length).foldlM (metamericLossCalcStatsmapsFor1For1G E S cfg gaze alpha real_image_width real_viewing_distance mode image_pyramid l) (self_, log_, means, variances, output_stats, periphery_mask)
  self_ := st_3.1
  log_ := st_3.2.1
  means := st_3.2.2.1
  variances := st_3.2.2.2.1
  output_stats := st_3.2.2.2.2.1
  periphery_mask := st_3.2.2.2.2.2
  if cfg.use_l2_foveal_loss then
    let v_4 ← periphery_mask
    periphery_mask := some (S.areaHalf v_4)
  return (self_, log_, means, variances, output_stats, periphery_mask)

def metamericLossCalcStatsmapsFullK2G (E : GazeOps T G R Shape Sub) (S : StatsOps T R Shape) (cfg : MetamericLossCfg R) (device : Nat) (self_ : MetamericLossStatsSelf T G R Shape Sub) (log_ : List String) (image : T) (gaze : G) (alpha : R) (real_image_width : R) (real_viewing_distance : R) (mode : String) (equi : Bool) : Option (MetamericLossStatsSelf T G R Shape Sub × (List T) × List String) := do
  let mut self_ := self_
  let mut log_ := log_
  let mut output_stats : (List T) := []
  let v_11 ← self_.pyramid_maker
  let mut image_pyramid : (List (PyrLevel T)) := (S.constructPyramid v_11 image cfg.n_pyramid_levels)
  let v_12 ← image_pyramid[0]?
  let v_13 ← v_12.h
  let v_14 ← self_.blurs
  let v_15 ← v_14[0]?
  let r_16 ← metamericLossCalcStatsmapsFindStatsG E S cfg gaze alpha real_image_width real_viewing_distance mode v_13 v_15
  self_ := { self_ with blurs := some (v_14.set 0 r_16.1) }
  log_ := log_ ++ r_16.2.2.map (fun s_ => "blurs[0]." ++ s_)
  let mut means : T := r_16.2.1.1
  let mut variances : T := r_16.2.1.2
  let mut periphery_mask : Option T := none
  if cfg.use_l2_foveal_loss then
    let v_17 ← self_.blurs
    let v_18 ← v_17[0]?
    let v_19 ← v_18.lod_map
    self_ := { self_ with fovea_mask := some (S.foveaMask v_19 (E.shape image)) }
    log_ := log_ ++ ["fovea_mask", "fovea_mask"]
    let v_20 ← self_.fovea_mask
    periphery_mask := some (E.sub (E.scalar (E.lit "1.0")) v_20)
    let v_21 ← periphery_mask
    self_ := { self_ with periphery_mask := some v_21 }
    log_ := log_ ++ ["periphery_mask"]
    let v_22 ← periphery_mask
    output_stats := output_stats ++ [(E.mul means v_22)]
    let v_23 ← periphery_mask
    output_stats := output_stats ++ [(E.mul variances v_23)]
  else
    output_stats := output_stats ++ [means]
    output_stats := output_stats ++ [variances]
  let st_24 ← (List.range (image_pyramid.length - 1)).foldlM (metamericLossCalcStatsmapsFor1G E S cfg gaze alpha real_image_width real_viewing_distance mode image_pyramid) (self_, log_, means, variances, output_stats, periphery_mask)
  self_ := st_24.1
  log_ := st_24.2.1
  means := st_24.2.2.1
  variances := st_24.2.2.2.1
  output_stats := st_24.2.2.2.2.1
  periphery_mask := st_24.2.2.2.2.2
  if cfg.use_l2_foveal_loss then
    let v_25 ← pyLast image_pyramid
    let v_26 ← v_25.l
    let v_27 ← periphery_mask
    output_stats := output_stats ++ [(E.mul v_26 v_27)]
  else
    if cfg.use_fullres_l0 then
      let v_28 ← self_.blurs
      let v_29 ← v_28[0]?
      let r_30 ← radiallyVaryingBlurBlurG E v_29 image alpha real_image_width real_viewing_distance gaze mode false
      self_ := { self_ with blurs := some (v_28.set 0 r_30.1) }
      log_ := log_ ++ r_30.2.2.map (fun s_ => "blurs[0]." ++ s_)
      output_stats := output_stats ++ [r_30.2.1]
    else
      let v_31 ← pyLast image_pyramid
      let v_32 ← v_31.l
      output_stats := output_stats ++ [v_32]
  return (self_, output_stats, log_)

def metamericLossCalcStatsmapsFullK1G (E : GazeOps T G R Shape Sub) (S : StatsOps T R Shape) (cfg : MetamericLossCfg R) (device : Nat) (self_ : MetamericLossStatsSelf T G R Shape Sub) (log_ : List String) (image : T) (gaze : G) (alpha : R) (real_image_width : R) (real_viewing_distance : R) (mode : String) (equi : Bool) : Option (MetamericLossStatsSelf T G R Shape Sub × (List T) × List String) := do
  let mut self_ := self_
  let mut log_ := log_
  let c_10 ← (do
    if self_.blurs.isNone then pure true else do
    let v_9 ← self_.blurs
    pure (decide (v_9.length ≠ cfg.n_pyramid_levels)))
  if c_10 then
    self_ := { self_ with blurs := some (List.replicate cfg.n_pyramid_levels RadiallyVaryingBlurSelf.init) }
    log_ := log_ ++ ["blurs"]
  metamericLossCalcStatsmapsFullK2G E S cfg device self_ log_ image gaze alpha real_image_width real_viewing_distance mode equi

def metamericLossCalcStatsmapsFullG (E : GazeOps T G R Shape Sub) (S : StatsOps T R Shape) (cfg : MetamericLossCfg R) (device : Nat) (self_ : MetamericLossStatsSelf T G R Shape Sub) (image : T) (gaze : G) (alpha : R) (real_image_width : R) (real_viewing_distance : R) (mode : String) (equi : Bool) : Option (MetamericLossStatsSelf T G R Shape Sub × (List T) × List String) := do
  let mut self_ := self_
  let mut log_ : List String := []
  let c_7 ← (do
    if self_.pyramid_maker.isNone then pure true else do
    let v_1 ← self_.pyramid_maker
    let v_2 ← spatialSteerablePyramidDeviceG v_1
    if (decide (v_2 ≠ device)) then pure true else do
    let v_3 ← self_.pyramid_maker
    let v_4 ← spatialSteerablePyramidBandFiltersLenG v_3
    if (decide (v_4 ≠ cfg.n_orientations)) then pure true else do
    let v_5 ← self_.pyramid_maker
    let v_6 ← spatialSteerablePyramidFiltH0Size0G v_5
    pure (decide (v_6 ≠ (E.channels image))))
  if c_7 then
    let r_8 ← spatialSteerablePyramidInitG false (E.channels image) 5 cfg.n_orientations "cropped" device
    self_ := { self_ with pyramid_maker := some r_8 }
    log_ := log_ ++ ["pyramid_maker"]
  metamericLossCalcStatsmapsFullK1G E S cfg device self_ log_ image gaze alpha real_image_width real_viewing_distance mode equi

structure MetamericLossUniformStatsSelf (T G R Shape Sub : Type) where
  pyramid_maker : Option SpatialSteerablePyramidSelf

def MetamericLossUniformStatsSelf.init : MetamericLossUniformStatsSelf T G R Shape Sub := { pyramid_maker := none }

def metamericLossUniformCalcStatsmapsFindStatsG (E : GazeOps T G R Shape Sub) (S : StatsOps T R Shape) (cfg : MetamericLossUniformCfg R) (image_pyr_level : T) (pooling_size : R) : Option (T × T) := do
  let mut image_means : T := (S.uniformBlur image_pyr_level pooling_size)
  let mut image_meansq : T := (S.uniformBlur (E.mul image_pyr_level image_pyr_level) pooling_size)
  let mut image_vars : T := (E.sub image_meansq (E.mul image_means image_means))
  image_vars := (S.fillWhereLt image_vars (E.lit "1e-07") (E.lit "1e-07"))
  let mut image_std : T := (S.sqrt image_vars)
  if (S.anyNan image_means) then
    none
  if (S.anyNan image_std) then
    none
  return (image_means, image_std)

def metamericLossUniformCalcStatsmapsFor1For1G (E : GazeOps T G R Shape Sub) (S : StatsOps T R Shape) (cfg : MetamericLossUniformCfg R) (image_pyramid : List (PyrLevel T)) (curr_pooling_size : R) (l : Nat)
    (st_ : MetamericLossUniformStatsSelf T G R Shape Sub × List String × T × T × List T) (o : Nat) :
    Option (MetamericLossUniformStatsSelf T G R Shape Sub × List String × T × T × List T) := do
  let mut self_ := st_.1
  let mut log_ := st_.2.1
  let mut means := st_.2.2.1
  let mut variances := st_.2.2.2.1
  let mut output_stats := st_.2.2.2.2
  let v_1 ← image_pyramid[l]?
  let v_2 ← v_1.b
  let v_3 ← v_2[o]?
  let r_4 ← metamericLossUniformCalcStatsmapsFindStatsG E S cfg v_3 curr_pooling_size
  means := r_4.1
  variances := r_4.2
  output_stats := output_stats ++ [means]
  output_stats := output_stats ++ [variances]
  return (self_, log_, means, variances, output_stats)

def metamericLossUniformCalcStatsmapsFor1G (E : GazeOps T G R Shape Sub) (S : StatsOps T R Shape) (cfg : MetamericLossUniformCfg R) (image_pyramid : List (PyrLevel T))
    (st_ : MetamericLossUniformStatsSelf T G R Shape Sub × List String × R × T × T × List T) (l : Nat) :
    Option (MetamericLossUniformStatsSelf T G R Shape Sub × List String × R × T × T × List T) := do
  let mut self_ := st_.1
  let mut log_ := st_.2.1
  let mut curr_pooling_size := st_.2.2.1
  let mut means := st_.2.2.2.1
  let mut variances := st_.2.2.2.2.1
  let mut output_stats := st_.2.2.2.2.2
  let v_1 ← image_pyramid[l]?
  let v_2 ← v_1.b
  let st_3 ← (List.range v_2.length).foldlM (metamericLossUniformCalcStatsmapsFor1For1G E S cfg image_pyramid curr_pooling_size l) (self_, log_, means, variances, output_stats)
  self_ := st_3.1
  log_ := st_3.2.1
  means := st_3.2.2.1
  variances := st_3.2.2.2.1
  output_stats := st_3.2.2.2.2
  curr_pooling_size := (S.divNat curr_pooling_size 2)
  return (self_, log_, curr_pooling_size, means, variances, output_stats)

def metamericLossUniformCalcStatsmapsFullK1G (E : GazeOps T G R Shape Sub) (S : StatsOps T R Shape) (cfg : MetamericLossUniformCfg R) (device : Nat) (self_ : MetamericLossUniformStatsSelf T G R Shape Sub) (log_ : List String) (image : T) (pooling_size : Nat) : Option (MetamericLossUniformStatsSelf T G R Shape Sub × (List T) × List String) := do
  let mut self_ := self_
  let mut log_ := log_
  let mut output_stats : (List T) := []
  let v_1 ← self_.pyramid_maker
  let mut image_pyramid : (List (PyrLevel T)) := (S.constructPyramid v_1 image cfg.n_pyramid_levels)
  let mut curr_pooling_size : R := (S.ofNat pooling_size)
  let v_2 ← image_pyramid[0]?
  let v_3 ← v_2.h
  let r_4 ← metamericLossUniformCalcStatsmapsFindStatsG E S cfg v_3 curr_pooling_size
  let mut means : T := r_4.1
  let mut variances : T := r_4.2
  output_stats := output_stats ++ [means]
  output_stats := output_stats ++ [variances]
  let st_5 ← (List.range (image_pyramid.length - 1)).foldlM (metamericLossUniformCalcStatsmapsFor1G E S cfg image_pyramid) (self_, log_, curr_pooling_size, means, variances, output_stats)
  self_ := st_5.1
  log_ := st_5.2.1
  curr_pooling_size := st_5.2.2.1
  means := st_5.2.2.2.1
  variances := st_5.2.2.2.2.1
  output_stats := st_5.2.2.2.2.2
  let v_6 ← pyLast image_pyramid
  let v_7 ← v_6.l
  output_stats := output_stats ++ [v_7]
  return (self_, output_stats, log_)

def metamericLossUniformCalcStatsmapsFullG (E : GazeOps T G R Shape Sub) (S : StatsOps T R Shape) (cfg : MetamericLossUniformCfg R) (device : Nat) (self_ : MetamericLossUniformStatsSelf T G R Shape Sub) (image : T) (pooling_size : Nat) : Option (MetamericLossUniformStatsSelf T G R Shape Sub × (List T) × List String) := do
  let mut self_ := self_
  let mut log_ : List String := []
  let c_7 ← (do
    if self_.pyramid_maker.isNone then pure true else do
    let v_1 ← self_.pyramid_maker
    let v_2 ← spatialSteerablePyramidDeviceG v_1
    if (decide (v_2 ≠ device)) then pure true else do
    let v_3 ← self_.pyramid_maker
    let v_4 ← spatialSteerablePyramidBandFiltersLenG v_3
    if (decide (v_4 ≠ cfg.n_orientations)) then pure true else do
    let v_5 ← self_.pyramid_maker
    let v_6 ← spatialSteerablePyramidFiltH0Size0G v_5
    pure (decide (v_6 ≠ (E.channels image))))
  if c_7 then
    let r_8 ← spatialSteerablePyramidInitG false (E.channels image) 5 cfg.n_orientations "cropped" device
    self_ := { self_ with pyramid_maker := some r_8 }
    log_ := log_ ++ ["pyramid_maker"]
  metamericLossUniformCalcStatsmapsFullK1G E S cfg device self_ log_ image pooling_size

end Odak.Gen
