import OdakModel.Num
/-!
  Dual numbers `v + d·ε` (`ε² = 0`) as a third instantiation of the scalar class: running any model
  function at `Dual β` computes its value and its directional derivative (forward-mode AD).
  At `β := Float` this is the executable gradient oracle of C05; at `β := ℝ` each primitive is related to
  Mathlib's `HasDerivAt` in `OdakProofs/Lemmas/DRel.lean`.
  Non-smooth primitives (`floor`, `round`, comparisons, `abs` at 0) take the derivative of the branch the
  value falls in – correct away from the jump, which is exactly the "documented non-smooth points" caveat.
-/
namespace Odak

structure Dual (β : Type) where
  v : β
  d : β
deriving Repr

namespace Dual
variable {β : Type} [Num β]

def const (x : β) : Dual β := ⟨x, 0⟩
def var (x : β) : Dual β := ⟨x, 1⟩

instance : Num (Dual β) where
  zero := ⟨0, 0⟩
  one := ⟨1, 0⟩
  add a b := ⟨a.v + b.v, a.d + b.d⟩
  sub a b := ⟨a.v - b.v, a.d - b.d⟩
  mul a b := ⟨a.v * b.v, a.d * b.v + a.v * b.d⟩
  div a b := ⟨a.v / b.v, (a.d * b.v - a.v * b.d) / (b.v * b.v)⟩
  neg a := ⟨-a.v, -a.d⟩
  lt a b := a.v < b.v
  le a b := a.v ≤ b.v
  ofNat n := ⟨Num.ofNat n, 0⟩
  ofSci m s e := ⟨Num.ofSci m s e, 0⟩
  pi := ⟨Num.pi, 0⟩
  sqrt a := ⟨Num.sqrt a.v, a.d / (Num.two * Num.sqrt a.v)⟩
  sin a := ⟨Num.sin a.v, a.d * Num.cos a.v⟩
  cos a := ⟨Num.cos a.v, -(a.d * Num.sin a.v)⟩
  exp a := ⟨Num.exp a.v, a.d * Num.exp a.v⟩
  log a := ⟨Num.log a.v, a.d / a.v⟩
  acos a := ⟨Num.acos a.v, -(a.d / Num.sqrt (1 - a.v * a.v))⟩
  floor a := ⟨Num.floor a.v, 0⟩
  round a := ⟨Num.round a.v, 0⟩
  abs a := ⟨Num.abs a.v, if a.v < 0 then -a.d else a.d⟩
  atan2 y x := ⟨Num.atan2 y.v x.v, (x.v * y.d - y.v * x.d) / (x.v * x.v + y.v * y.v)⟩
  decLt a b := inferInstanceAs (Decidable (a.v < b.v))
  decLe a b := inferInstanceAs (Decidable (a.v ≤ b.v))
  -- torch.where: value of the chosen branch, gradient = mask · (grad a) + (1 - mask) · (grad b), both evaluated
  select c a b := ⟨bif c then a.v else b.v, (bif c then 1 else 0) * a.d + (bif c then 0 else 1) * b.d⟩

end Dual
end Odak
