import OdakModel.Stack
import OdakModel.Generated.WaveKernels
/-!
  Vocabulary of `Generated/PipelinesMore.lean` (the output of `harness/translate/pipelines_more.py`).  Hand-written, Mathlib-free.

  * `Cx.div a b`       – complex division `a / b` (textbook formula; NumPy uses Smith's algorithm: the same complex number up to rounding).
  * `CGrid.divC g c`   – `g / c`, element by element, for two complex arrays.
  * `Cx.isZero a`      – the test `a == 0` of `if field[i, j] != 0`.
  * `CGrid.getN g r c` – element `[r, c]` of an array by natural-number indices (0 outside: only used for indices the source reads).
-/
namespace Odak
variable {α : Type} [Num α]

namespace Cx
def div (a b : Cx α) : Cx α :=
  ⟨(a.re * b.re + a.im * b.im) / (b.re * b.re + b.im * b.im), (a.im * b.re - a.re * b.im) / (b.re * b.re + b.im * b.im)⟩
def isZero (a : Cx α) : Prop := (a.re ≤ 0 ∧ 0 ≤ a.re) ∧ (a.im ≤ 0 ∧ 0 ≤ a.im)
instance (a : Cx α) : Decidable (isZero a) := by unfold isZero; exact inferInstance
end Cx

namespace CGrid
variable {n m : Nat}
def divC (g c : CGrid α n m) : CGrid α n m := Grid.zipWith Cx.div g c
def getN (g : CGrid α n m) (r c : Nat) : Cx α :=
  if h : r < n then (if h' : c < m then g.get ⟨r, h⟩ ⟨c, h'⟩ else 0) else 0
end CGrid

end Odak
