import OdakModel.StepPrelude
/-!
  Vocabulary of the REGENERATED `calc_statsmaps` methods of `MetamericLoss` / `MetamericLossUniform`
  (`OdakModel/Generated/StatsMaps.lean`, written by `harness/translate/statsmaps.py`).  Hand-written, no Mathlib.

  * a steerable pyramid is the Python list of dicts `construct_pyramid` returns: one `PyrLevel` per entry, a key that the entry does not
    have is `none` (reading it raises `KeyError`);
  * a `torch.device` is a token (`Nat`): devices are only compared (`!=`) and passed on;
  * a `for` loop is `List.foldlM` of a separately defined pass function over the loop-carried variables (`none` = a pass raises).
-/
namespace Odak

/-- one entry of the list `SpatialSteerablePyramid.construct_pyramid` returns: `level['h']`, `level['b']`, `level['l']` -/
structure PyrLevel (T : Type) where
  h : Option T
  b : Option (List T)
  l : Option T

/-- `x[-1]` of a Python list (`none` = IndexError) -/
def pyLast {β : Type} (l : List β) : Option β := l.getLast?

end Odak
