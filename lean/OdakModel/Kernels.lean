import OdakModel.Fourier
/-!
  Propagation kernels exactly as coded in `odak/learn/wave/classical.py` (torch) and
  `odak/wave/classical.py` (NumPy).  The field is not an argument of anything in this file:
  kernels depend only on `(n, m, dx, λ, z, samples)` (C03, `kernel_input_independent`).
-/
namespace Odak
variable {α : Type} [Num α]
open Num

/-- `linspace(a, b, n)[i]` -/
def linspace (a b : α) (n i : Nat) : α :=
  if n ≤ 1 then a else a + (b - a) * Num.ofNat i / Num.ofNat (n - 1)

/-- the frequency grid of the angular-spectrum and Fresnel kernels: `linspace(-1/2/dx, 1/2/dx, n)` -/
def freq (dx : α) (n i : Nat) : α := linspace (-(1 : α) / Num.two / dx) ((1 : α) / Num.two / dx) n i

/-- `1 - (λ fx)² - (λ fy)²`: the quantity under the square root; the kernel is defined iff it is ≥ 0 -/
def asRadicand (lam fa fb : α) : α := 1 - sq (lam * fa) - sq (lam * fb)

/-- every grid frequency is propagating (what `dx ≥ λ/√2` buys) -/
def asDefined (n m : Nat) (dx lam : α) : Prop :=
  ∀ i : Fin n, ∀ j : Fin m, (0 : α) ≤ asRadicand lam (freq dx m j) (freq dx n i)

/-- torch `get_angular_spectrum_kernel`: `exp(i z · 2(π (1/λ) sqrt(1 - (λ FX)² - (λ FY)²)))`,
    `FY[i,j] = fx[i]`, `FX[i,j] = fy[j]` -/
def asPhase (n m : Nat) (dx lam z : α) (i : Fin n) (j : Fin m) : α :=
  z * (Num.two * (Num.pi * ((1 : α) / lam) * Num.sqrt (asRadicand lam (freq dx m j) (freq dx n i))))

def asKernel (n m : Nat) (dx lam z : α) : CGrid α n m :=
  Grid.ofFn fun i j => Cx.expi (asPhase n m dx lam z i j)

/-- NumPy `angular_spectrum` kernel: `exp(i k z (1 - (FX λ)² - (FY λ)²)^0.5)` with the caller's `k` -/
def npAsKernel (n m : Nat) (dx lam k z : α) : CGrid α n m :=
  Grid.ofFn fun i j => Cx.expi (k * z * Num.sqrt (asRadicand lam (freq dx m j) (freq dx n i)))

/-- Fresnel transfer function phase as coded: `-z (k - π λ (FX² + FY²))` (both APIs) -/
def tfPhase (n m : Nat) (dx lam k z : α) (i : Fin n) (j : Fin m) : α :=
  -(z * (k - Num.pi * lam * (sq (freq dx m j) + sq (freq dx n i))))

def tfKernel (n m : Nat) (dx lam k z : α) : CGrid α n m :=
  Grid.ofFn fun i j => Cx.expi (tfPhase n m dx lam k z i j)

/-- `wavenumber λ = 2π/λ` -/
def wavenumber (lam : α) : α := Num.two * Num.pi / lam

/-- band limit of the band-limited angular spectrum: `1 / sqrt((2 z / L)² + 1) / λ`; depends on `z²` only -/
def blLimit (L lam z : α) : α := (1 : α) / Num.sqrt (sq (Num.two * z * ((1 : α) / L)) + 1) / lam

/-- torch band-limited grid: `linspace(-1/(2dx) + 0.5/(2L), 1/(2dx) - 0.5/(2L), n)` with `L = dx n` -/
def blFreq (dx : α) (n i : Nat) : α :=
  let L := dx * Num.ofNat n
  linspace (-(1 : α) / (Num.two * dx) + Num.half / (Num.two * L)) ((1 : α) / (Num.two * dx) - Num.half / (Num.two * L)) n i

/-- torch `get_band_limited_angular_spectrum_kernel`.  Note (mirrors the code): `FX[i,j] = fy[j]` is
    compared with `fx_max` (built from `x = dx·nu`), `FY[i,j] = fx[i]` with `fy_max` (from `y = dx·nv`). -/
def blMask (n m : Nat) (dx lam z : α) (i : Fin n) (j : Fin m) : Bool :=
  let x := dx * Num.ofNat n
  let y := dx * Num.ofNat m
  decide (Num.abs (blFreq dx m j) < blLimit x lam z) && decide (Num.abs (blFreq dx n i) < blLimit y lam z)

def blPhase (n m : Nat) (dx lam z : α) (i : Fin n) (j : Fin m) : α :=
  Num.two * Num.pi * Num.sqrt ((1 : α) / sq lam - (sq (blFreq dx m j) + sq (blFreq dx n i))) * z

def blKernel (n m : Nat) (dx lam z : α) : CGrid α n m :=
  Grid.ofFn fun i j => Cx.polar (if blMask n m dx lam z i j then 1 else 0) (blPhase n m dx lam z i j)

/-- NumPy band-limited kernel: standard grid, `mask * exp(i k z sqrt(...))`.
    `nv, nu = field.shape`: `x = dx·nu` is the *second* axis length, `FX[i,j] = fx[j]`. -/
def npBlMask (n m : Nat) (dx lam z : α) (i : Fin n) (j : Fin m) : Bool :=
  let x := dx * Num.ofNat m
  let y := dx * Num.ofNat n
  decide (Num.abs (freq dx m j) < blLimit x lam z) && decide (Num.abs (freq dx n i) < blLimit y lam z)

def npBlKernel (n m : Nat) (dx lam k z : α) : CGrid α n m :=
  Grid.ofFn fun i j =>
    Cx.smul (if npBlMask n m dx lam z i j then 1 else 0)
      (Cx.expi (k * z * Num.sqrt (asRadicand lam (freq dx m j) (freq dx n i))))

/-- NumPy `impulse_response_fresnel` spatial kernel `1/(iλz) exp(i k/(2z) (X²+Y²))`,
    `x = linspace(-nu/2 dx, nu/2 dx, nu)` -/
def npIrKernel (n m : Nat) (dx lam k z : α) : CGrid α n m :=
  Grid.ofFn fun i j =>
    let X := linspace (-(Num.ofNat m) / Num.two * dx) (Num.ofNat m / Num.two * dx) m j
    let Y := linspace (-(Num.ofNat n) / Num.two * dx) (Num.ofNat n / Num.two * dx) n i
    -- 1/(i λ z) = -i/(λ z)
    (⟨0, -((1 : α) / (lam * z))⟩ : Cx α) * Cx.expi (k / (Num.two * z) * (sq X + sq Y))

/-- torch `get_impulse_response_fresnel_kernel` spatial part `h` (before the FFT), for `scale = 1`:
    sum over the four aperture-sample loops of `1/(iλz) exp(i k/(2z) r)` -/
def irSpatial (n m : Nat) (dx lam z : α) (s0 s1 s2 s3 : Nat) : CGrid α n m :=
  let k : α := wavenumber lam
  Grid.ofFn fun i j =>
    let X := linspace (-(dx * Num.ofNat n) / Num.two) (dx * Num.ofNat n / Num.two) n i
    let Y := linspace (-(dx * Num.ofNat m) / Num.two) (dx * Num.ofNat m / Num.two) m j
    let lo : α := -dx / Num.two
    let hi : α := dx / Num.two
    Cx.sumFin s0 fun a => Cx.sumFin s1 fun b => Cx.sumFin s2 fun c => Cx.sumFin s3 fun d =>
      let wx := linspace lo hi s0 a
      let wy := linspace lo hi s1 b
      let px := linspace lo hi s2 c
      let py := linspace lo hi s3 d
      let r := sq (X + px - wx) + sq (Y + py - wy)
      (⟨0, -((1 : α) / (lam * z))⟩ : Cx α) * Cx.expi (k / (Num.two * z) * r)

/-- … and its Fourier-domain kernel `H = fftshift(fft2(fftshift h)) · dx² / (s0 s1 s2 s3)` -/
def irKernel (n m : Nat) (dx lam z : α) (s0 s1 s2 s3 : Nat) : CGrid α n m :=
  let c : α := sq dx / Num.ofNat s0 / Num.ofNat s1 / Num.ofNat s2 / Num.ofNat s3
  Grid.map (Cx.smul c) (CGrid.fftshift (CGrid.fft2 (CGrid.fftshift (irSpatial n m dx lam z s0 s1 s2 s3))))

/-- thin-lens phase of `quadratic_phase_function`: `exp(-i k r² / (2 f))` at squared radius `r2` -/
def lensPhase (k f r2 : α) : Cx α := Cx.expi (-(k / (Num.two * f)) * r2)

/-- Fresnel chirp of the impulse-response kernels: `exp(+i k r² / (2 z))` -/
def irChirp (k z r2 : α) : Cx α := Cx.expi (k / (Num.two * z) * r2)

end Odak
