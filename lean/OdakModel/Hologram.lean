import OdakModel.Polar
import OdakModel.Propagator
/-!
  Return contracts of the hologram-synthesis routines (`odak/learn/wave/classical.py`, `optimizers.py`,
  `odak/wave/classical.py`).  The optimiser dynamics (Adam steps, random initial phases) are NOT modelled:
  the routines are modelled as functions of an arbitrary parameter state, which is what their return
  statements are.
-/
namespace Odak
variable {α : Type} [Num α]

/-- torch `gerchberg_saxton`: `n` iterations of (back-propagate, forward, set amplitude), then the final
    reconstruction is recomputed from the last hologram.  `bwd`/`fwd` are the two `propagate_beam` calls. -/
def gsTorchLoop {F : Type} (fwd bwd : F → F) (setAmp : F → F → F) (field : F) : Nat → F → F × F
  | 0, recon => (bwd recon, recon)                       -- unreachable for n ≥ 1 (kept total)
  | 1, recon => let h := bwd recon; (h, setAmp (fwd h) field)
  | k + 2, recon =>
    let h := bwd recon
    gsTorchLoop fwd bwd setAmp field (k + 1) (setAmp (fwd h) field)

/-- what the function returns for `n ≥ 1` iterations: `(hologram, propagate(hologram))` -/
def gsTorch {F : Type} (fwd bwd : F → F) (setAmp : F → F → F) (field : F) (n : Nat) : F × F :=
  let h := (gsTorchLoop fwd bwd setAmp field n field).1
  (h, fwd h)

/-- `stochastic_gradient_descent` return statement for a final phase state `φ` (one sample): the hologram sample -/
def sgdHologram (φ : α) : Cx α := genField 1 φ

/-- `multi_color_hologram_optimizer.optimize`: wrap to `[0, 2π)`, quantise to `2^bits` levels, map back to radians -/
def quantizedPhase (bits : Nat) (φ : α) : α :=
  quantize (Num.fmod φ (Num.two * Num.pi)) bits 0 (Num.two * Num.pi) / Num.pow2 bits * Num.two * Num.pi

/-- `shift_w_double_phase`: the global phase factor of the shift (after the repair: `cos θ + i sin θ`, `θ = -2π d/λ`) -/
def shiftFactor (d lam : α) : Cx α := Cx.expi (-(Num.two * Num.pi * d / lam))

/-- double-phase encoding of one sample: amplitude normalised by the maximum, `offset = arccos(a / amax)` -/
def doublePhaseOffset (a amax : α) : α := Num.acos (a / amax)

/-- which of the two phases pixel `(i, j)` receives on the checkerboard: `true` = low, `false` = high -/
def checkerLow (i j : Nat) : Bool := (i % 2 == 0 && j % 2 == 0) || (i % 2 == 1 && j % 2 == 1)

/-- the four strided assignments of the code, as (row parity, column parity, takes-low) -/
def checkerAssignments : List (Nat × Nat × Bool) := [(0, 0, true), (0, 1, false), (1, 0, false), (1, 1, true)]

end Odak
