import OdakModel.Losses
import OdakModel.Generated.StateMachines
/-!
  The hand-written model of the lazily refreshed caches of the gaze-contingent losses (`cacheStep` of `OdakModel/Losses.lean`: a cache
  keyed by `k`, refreshed exactly when the key differs from the stored key) as the attribute records the REGENERATED step functions of
  `OdakModel/Generated/StateMachines.lean` work on: for every class the KEY (the inputs the cached value depends on), the cached VALUE as
  a function of the key, the embedding `…ToSelf` of an abstract cache into the object's attributes, the arguments of one call, and the
  DOCUMENTED value of a call (what a newly built object returns).  Hand-written, no Mathlib.
-/
namespace Odak
open Gen
variable {T G R Shape Sub : Type} [DecidableEq G] [DecidableEq R] [DecidableEq Shape]

/-! ### `RadiallyVaryingBlur` -/

/-- everything the level-of-detail map and the blend fraction depend on -/
structure RBKey (R G : Type) where
  size : Nat × Nat
  n_channels : Nat
  alpha : R
  real_image_width : R
  real_viewing_distance : R
  centre : G
  mode : String
  equi : Bool
deriving DecidableEq

/-- the arguments of one `blur` call -/
structure BlurArgs (T G R : Type) where
  image : T
  alpha : R
  real_image_width : R
  real_viewing_distance : R
  centre : G
  mode : String
  equi : Bool

def rbKey (E : GazeOps T G R Shape Sub) (x : BlurArgs T G R) : RBKey R G :=
  ⟨(E.height x.image, E.width x.image), E.channels x.image, x.alpha, x.real_image_width, x.real_viewing_distance, x.centre, x.mode, x.equi⟩

/-- (level-of-detail map, blend fraction repeated over the channels) for a key -/
def rbValue (E : GazeOps T G R Shape Sub) (k : RBKey R G) : T × T :=
  let l := if k.equi then E.lodEqui k.centre k.size k.alpha k.mode
    else E.lodPlain k.centre k.size k.alpha k.real_image_width k.real_viewing_distance k.mode
  (l, E.repeatChannels (E.fmod l (E.lit "1.0")) k.n_channels)

/-- the attributes of a blur object whose cache is `c` -/
def rbToSelf : Option (RBKey R G × (T × T)) → RadiallyVaryingBlurSelf T G R Shape Sub
  | none => RadiallyVaryingBlurSelf.init
  | some (k, v) =>
    { lod_map := some v.1, equi := some k.equi, size := some k.size, n_channels := some k.n_channels, alpha := some k.alpha,
      real_image_width := some k.real_image_width, real_viewing_distance := some k.real_viewing_distance, centre := some k.centre,
      mode := some k.mode, lod_fraction := some v.2 }

/-- the attributes a refresh stores, in the order of the source -/
def rbRefreshLog : List String :=
  ["lod_map", "size", "n_channels", "alpha", "real_image_width", "real_viewing_distance", "centre", "lod_map", "lod_fraction", "lod_fraction",
   "mode", "equi"]

/-- documented value of a call: the image rendered with the map and fraction of THIS call's arguments -/
def rbFresh (E : GazeOps T G R Shape Sub) (x : BlurArgs T G R) : T :=
  E.renderBlur x.image (rbValue E (rbKey E x)).1 (rbValue E (rbKey E x)).2

/-- one call of the regenerated `blur` (value only) -/
def rbStep (E : GazeOps T G R Shape Sub) (s : RadiallyVaryingBlurSelf T G R Shape Sub) (x : BlurArgs T G R) :
    Option (RadiallyVaryingBlurSelf T G R Shape Sub × T) :=
  (radiallyVaryingBlurBlurG E s x.image x.alpha x.real_image_width x.real_viewing_distance x.centre x.mode x.equi).map fun r => (r.1, r.2.1)

/-! ### `BlurLoss` -/

structure LossArgs (T G : Type) where
  image : T
  target : T
  gaze : G

/-- the blur call `blur_image(img, gaze)` makes -/
def blKey (cfg : BlurLossCfg R) (img : T) (gaze : G) : BlurArgs T G R :=
  ⟨img, cfg.alpha, cfg.real_image_width, cfg.real_viewing_distance, gaze, cfg.mode, cfg.equi⟩

/-- documented value: `MSE(image or blurred image, blurred target)`, every blur with the map of ITS OWN image and this call's gaze -/
def blFresh (E : GazeOps T G R Shape Sub) (cfg : BlurLossCfg R) (x : LossArgs T G) : T :=
  if cfg.blur_source then E.mse (rbFresh E (blKey cfg x.image x.gaze)) (rbFresh E (blKey cfg x.target x.gaze))
  else E.mse x.image (rbFresh E (blKey cfg x.target x.gaze))

/-- the attributes of a BlurLoss object: no blur object yet (`none`), or a blur object whose cache is `c` -/
def blToSelf (b : Option (Option (RBKey R G × (T × T)))) : BlurLossSelf T G R Shape Sub := { blur := b.map rbToSelf }

def blStep (E : GazeOps T G R Shape Sub) (cfg : BlurLossCfg R) (s : BlurLossSelf T G R Shape Sub) (x : LossArgs T G) :
    Option (BlurLossSelf T G R Shape Sub × T) :=
  (blurLossCallG E cfg s x.image x.target x.gaze).map fun r => (r.1, r.2.1)

/-! ### `MetamericLoss` -/

/-- one summand of `metameric_loss_stats` -/
def mlTerm (E : GazeOps T G R Shape Sub) (cfg : MetamericLossCfg R) (gaze : G) (a b : T) : T :=
  if cfg.use_radial_weight then
    let radii := E.radialMap (E.height a, E.width a) gaze
    let w := E.repeatChannels (E.sub (E.scalar (E.lit "1.1")) (E.mul (E.mul (E.mul radii radii) radii) radii)) (E.channels a)
    E.mse (E.mul w a) (E.mul w b)
  else E.mse a b

/-- `metameric_loss_stats`: mean over the statistics maps of the (radially weighted) MSE; the weights are those of THIS call's gaze -/
def mlLossStats (E : GazeOps T G R Shape Sub) (cfg : MetamericLossCfg R) (A B : List T) (gaze : G) : T :=
  E.div ((List.zip A B).foldl (fun l p => E.add l (mlTerm E cfg gaze p.1 p.2)) (E.scalar (E.lit "0.0"))) (E.nat A.length)

structure MLArgs (T G : Type) where
  image : T
  target : T
  gaze : G
  image_colorspace : String
  visualise_loss : Bool

/-- padding and colour conversion of (image, target) at the head of `__call__` -/
def mlPrep (E : GazeOps T G R Shape Sub) (levels : Nat) (image target : T) (colorspace : String) : T × T :=
  if E.channels (E.pad image levels) = 3 ∧ colorspace = "RGB" then (E.ycrcb (E.pad image levels), E.ycrcb (E.pad target levels))
  else (E.pad image levels, E.pad target levels)

/-- the loss expression of `__call__` given the target statistics `ts` that are used (cached or freshly computed); `stats` / `mask` = what
    `calc_statsmaps` returns / leaves in `self.fovea_mask` for (image, gaze) -/
def mlValueOf (E : GazeOps T G R Shape Sub) (cfg : MetamericLossCfg R) (stats : T → G → List T) (mask : T → G → T) (x : MLArgs T G)
    (ts : List T) : T :=
  let p := mlPrep E cfg.n_pyramid_levels x.image x.target x.image_colorspace
  let per := mlLossStats E cfg (stats p.1 x.gaze) ts x.gaze
  if cfg.use_l2_foveal_loss then
    E.add per (E.mul (E.scalar cfg.fovea_weight) (E.mse (E.mul (mask p.1 x.gaze) p.1) (E.mul (mask p.1 x.gaze) p.2)))
  else per

/-- documented value of a call: the statistics of the prepared image against the statistics of the prepared target, both for THIS
    call's gaze (plus, with `use_l2_foveal_loss`, the masked MSE with the fovea mask of THIS call's image and gaze) -/
def mlFresh (E : GazeOps T G R Shape Sub) (cfg : MetamericLossCfg R) (stats : T → G → List T) (mask : T → G → T) (x : MLArgs T G) : T :=
  mlValueOf E cfg stats mask x (stats (mlPrep E cfg.n_pyramid_levels x.image x.target x.image_colorspace).2 x.gaze)

/-- cache key of a call: (gaze, prepared target) -/
def mlKey (E : GazeOps T G R Shape Sub) (cfg : MetamericLossCfg R) (x : MLArgs T G) : G × T :=
  (x.gaze, (mlPrep E cfg.n_pyramid_levels x.image x.target x.image_colorspace).2)

/-- the attributes of a MetamericLoss object whose target cache is `c` (key = (gaze, prepared target), value = its statistics) -/
def mlToSelf (c : Option ((G × T) × List T)) (fm lm : Option T) (sub : Sub) : MetamericLossSelf T G R Shape Sub :=
  match c with
  | none => { target := none, fovea_mask := fm, loss_map := lm, target_gaze := none, target_stats := none, sub := sub }
  | some (k, v) => { target := some k.2, fovea_mask := fm, loss_map := lm, target_gaze := some k.1, target_stats := some v, sub := sub }

def mlStep (E : GazeOps T G R Shape Sub) (cfg : MetamericLossCfg R) (s : MetamericLossSelf T G R Shape Sub) (x : MLArgs T G) :
    Option (MetamericLossSelf T G R Shape Sub × T) :=
  (metamericLossCallG E cfg s x.image x.target x.gaze x.image_colorspace x.visualise_loss).map fun r => (r.1, r.2.1)

/-! ### `MetamericLossUniform` -/

def muLossStats (E : GazeOps T G R Shape Sub) (A B : List T) : T :=
  E.div ((List.zip A B).foldl (fun l p => E.add l (E.mse p.1 p.2)) (E.scalar (E.lit "0.0"))) (E.nat A.length)

structure MUArgs (T : Type) where
  image : T
  target : T
  image_colorspace : String
  visualise_loss : Bool

/-- the loss given the target statistics `ts` that are used -/
def muValueOf (E : GazeOps T G R Shape Sub) (cfg : MetamericLossUniformCfg R) (stats : T → List T) (x : MUArgs T) (ts : List T) : T :=
  muLossStats E (stats (mlPrep E cfg.n_pyramid_levels x.image x.target x.image_colorspace).1) ts

/-- documented value of a call -/
def muFresh (E : GazeOps T G R Shape Sub) (cfg : MetamericLossUniformCfg R) (stats : T → List T) (x : MUArgs T) : T :=
  muValueOf E cfg stats x (stats (mlPrep E cfg.n_pyramid_levels x.image x.target x.image_colorspace).2)

/-- cache key of a call: the prepared target -/
def muKey (E : GazeOps T G R Shape Sub) (cfg : MetamericLossUniformCfg R) (x : MUArgs T) : T :=
  (mlPrep E cfg.n_pyramid_levels x.image x.target x.image_colorspace).2

def muToSelf (c : Option (T × List T)) (lm : Option T) (sub : Sub) : MetamericLossUniformSelf T G R Shape Sub :=
  match c with
  | none => { target := none, loss_map := lm, target_stats := none, sub := sub }
  | some (k, v) => { target := some k, loss_map := lm, target_stats := some v, sub := sub }

def muStep (E : GazeOps T G R Shape Sub) (cfg : MetamericLossUniformCfg R) (s : MetamericLossUniformSelf T G R Shape Sub) (x : MUArgs T) :
    Option (MetamericLossUniformSelf T G R Shape Sub × T) :=
  (metamericLossUniformCallG E cfg s x.image x.target x.image_colorspace x.visualise_loss).map fun r => (r.1, r.2.1)

/-! ### `MetamerMSELoss` -/

/-- the metamer `gen_metamer` builds for a (padded) target and a gaze, `stats` being what the inner `calc_statsmaps` returns for the
    converted, padded image with the arguments `gen_metamer` passes, `synth` the synthesis with the pyramid maker that call leaves -/
def mmMetamer (E : GazeOps T G R Shape Sub) (levels : Nat) (stats : T → G → List T) (synth : List T → List T → T → T → Shape → T)
    (target : T) (gaze : G) : T :=
  let img := E.pad (E.ycrcb target) levels
  synth (everyOther (stats img gaze)) (everyOther (stats img gaze).tail) (E.randLike img) img (E.shape (E.ycrcb target))

def mmFresh (E : GazeOps T G R Shape Sub) (levels : Nat) (stats : T → G → List T) (synth : List T → List T → T → T → Shape → T)
    (x : LossArgs T G) : T :=
  E.mse (E.pad x.image levels) (mmMetamer E levels stats synth (E.pad x.target levels) x.gaze)

/-- the attributes of a MetamerMSELoss object whose metamer cache is `c` (key = (gaze, padded target)) and whose inner object is `inner` -/
def mmToSelf (c : Option ((G × T) × T)) (inner : MetamericLossSelf T G R Shape Sub) : MetamerMSELossSelf T G R Shape Sub :=
  match c with
  | none => { target := none, target_metamer := none, noise := none, metameric_loss := some inner, target_gaze := none }
  | some (k, v) => { target := some k.2, target_metamer := some v, noise := none, metameric_loss := some inner, target_gaze := some k.1 }

def mmStep (E : GazeOps T G R Shape Sub) (cfgI : MetamericLossCfg R) (s : MetamerMSELossSelf T G R Shape Sub) (x : LossArgs T G) :
    Option (MetamerMSELossSelf T G R Shape Sub × T) :=
  (metamerMSELossCallG E cfgI s x.image x.target x.gaze).map fun r => (r.1, r.2.1)

end Odak
