import OdakModel.Generated.SphereSearch
/-!
  torch `odak/learn/raytracing/boundary.py: intersect_w_sphere`, one ray, as an executable total function.

  Python:
  ```
  distance = torch.zeros(m, requires_grad = True)
  loss_l2 = torch.nn.MSELoss(reduction = 'sum');  optimizer = torch.optim.AdamW([distance], lr = learning_rate)
  for step in range(number_of_steps):
      optimizer.zero_grad()
      propagated_ray = propagate_ray(ray, distance)
      test = |(x - cx)^2 + (y - cy)^2 + (z - cz)^2 - r^2|
      loss = loss_l2(test, zeros_like(test));  loss.backward(retain_graph = True)
      optimizer.step()
  check = test < error_threshold
  return propagate_ray(ray[check], distance[check]), normals, distance, check
  ```
  Written by hand here: the loop (a fixed number of passes; `test` is computed BEFORE the optimiser step of its pass, so the flag
  is about the distance before the last update while the returned distance and point are after it; with `number_of_steps = 0`
  `test` is an unbound local and Python raises), the gradient `torch.autograd` hands to the optimiser (`sphereLossGrad`, proved to
  be the derivative of the regenerated loss in `Props/C12.lean`), and the optimiser `torch.optim.AdamW` with torch's defaults
  (external library).  REGENERATED from the source (`Generated/SphereSearch.lean`): the start value, the residual `test`, the loss,
  the flag test, the returned ray, the defaults, the optimiser call and the control structure as text (pinned by theorems).

  The rays of a batch do not interact: the loss is a `sum` over the rays (so `d loss / d distance[k]` is the derivative of ray k's
  term) and AdamW updates element by element.
-/
namespace Odak
variable {α : Type} [Num α]

/-- `d/d distance` of `Gen.sphereLossT`: with `q = |p - c|^2 - r^2` the loss is `|q|^2 = q^2` and `dq/dt = 2 (p - c)·d`.
    (Autograd differentiates `|q|` as `sign q`, `sign 0 = 0`: `2 |q| sign(q) q' = 2 q q'` also at `q = 0`.) -/
def sphereLossGrad (ray : Ray α) (c0 c1 c2 r : α) (t : α) : α :=
  let px := t * ray.d.x + ray.o.x - c0
  let py := t * ray.d.y + ray.o.y - c1
  let pz := t * ray.d.z + ray.o.z - c2
  let q := px * px + py * py + pz * pz - r * r
  Num.ofNat 2 * q * (Num.ofNat 2 * (px * ray.d.x + py * ray.d.y + pz * ray.d.z))

/-- the state of `torch.optim.AdamW` for one scalar parameter: first and second moment, step count -/
structure AdamState (α : Type) where
  m : α
  v : α
  k : Nat

def npow (x : α) : Nat → α
  | 0 => Num.ofNat 1
  | n + 1 => npow x n * x

/-- one `optimizer.step()` of `torch.optim.AdamW(lr, betas = (0.9, 0.999), eps = 1e-8, weight_decay = 1e-2, amsgrad = False)`
    (torch 2.x `_single_tensor_adam`, decoupled weight decay) on one scalar parameter `p` with gradient `g` -/
def adamWStep (lr : α) (s : AdamState α) (p g : α) : AdamState α × α :=
  let beta1 : α := Num.ofSci 9 true 1
  let beta2 : α := Num.ofSci 999 true 3
  let eps : α := Num.ofSci 1 true 8
  let wd : α := Num.ofSci 1 true 2
  let k := s.k + 1
  let p1 := p * (Num.ofNat 1 - lr * wd)
  let m := s.m + (g - s.m) * (Num.ofNat 1 - beta1)
  let v := s.v * beta2 + (Num.ofNat 1 - beta2) * (g * g)
  let bc1 := Num.ofNat 1 - npow beta1 k
  let bc2 := Num.ofNat 1 - npow beta2 k
  let stepSize := lr / bc1
  let denom := Num.sqrt v / Num.sqrt bc2 + eps
  (⟨m, v, k⟩, p1 - stepSize * (m / denom))

def adamInit : AdamState α := ⟨Num.ofNat 0, Num.ofNat 0, 0⟩

/-- loop state: `distance`, optimiser state, the `test` of the last pass (unbound before the first), number of optimiser steps made -/
structure SearchState (σ α : Type) where
  dist : α
  opt : σ
  test : Option α
  steps : Nat

/-- one pass of the loop body, for any optimiser `optStep : state → parameter → gradient → state × parameter` -/
def sphereSearchPass {σ : Type} (optStep : σ → α → α → σ × α) (ray : Ray α) (c0 c1 c2 r : α) (s : SearchState σ α) : SearchState σ α :=
  let test := Gen.sphereResidualT ray c0 c1 c2 r s.dist
  let g := sphereLossGrad ray c0 c1 c2 r s.dist
  let u := optStep s.opt s.dist g
  ⟨u.2, u.1, some test, s.steps + 1⟩

/-- `n` passes -/
def sphereSearchRun {σ : Type} (optStep : σ → α → α → σ × α) (ray : Ray α) (c0 c1 c2 r : α) : Nat → SearchState σ α → SearchState σ α
  | 0, s => s
  | n + 1, s => sphereSearchRun optStep ray c0 c1 c2 r n (sphereSearchPass optStep ray c0 c1 c2 r s)

/-- what `intersect_w_sphere` returns for the ray: `check`, `distance`, the propagated ray (meaningful when flagged), and how many
    optimiser steps were made; `unbound`: `number_of_steps = 0`, `test` is an unbound local and Python raises -/
inductive SearchResult (α : Type) where
  | done (check : Bool) (distance : α) (hit : Ray α) (steps : Nat)
  | unbound

def SearchResult.steps : SearchResult α → Nat
  | .done _ _ _ k => k
  | .unbound => 0

def sphereSearchInit {σ : Type} (init : σ) : SearchState σ α := ⟨Gen.sphereSearchInitT, init, none, 0⟩

/-- `intersect_w_sphere(ray, sphere, learning_rate, number_of_steps, error_threshold)` for one ray and any optimiser -/
def sphereSearchWith {σ : Type} (optStep : σ → α → α → σ × α) (init : σ) (ray : Ray α) (c0 c1 c2 r : α) (threshold : α) (steps : Nat) :
    SearchResult α :=
  let s := sphereSearchRun optStep ray c0 c1 c2 r steps (sphereSearchInit init)
  match s.test with
  | none => .unbound
  | some t => .done (Gen.sphereFlagT t threshold) s.dist (Gen.sphereHitRayT ray c0 c1 c2 r s.dist) s.steps

/-- with the optimiser of the source, `torch.optim.AdamW([distance], lr = learning_rate)` -/
def sphereSearch (ray : Ray α) (c0 c1 c2 r : α) (lr threshold : α) (steps : Nat) : SearchResult α :=
  sphereSearchWith (adamWStep lr) adamInit ray c0 c1 c2 r threshold steps

/-- the control structure and the optimiser call this file models (compared with the regenerated text in `Props/C12.lean`) -/
def sphereSearchModelledShape : List String := [
  "for step in range(number_of_steps)",
  "optimizer.zero_grad()",
  "propagated_ray = propagate_ray(ray, distance)",
  "test = <sphereResidualT>",
  "loss = loss_l2(test, torch.zeros_like(test))",
  "loss.backward(retain_graph=True)",
  "optimizer.step()",
  "after: check = test < error_threshold",
  "after: intersecting_ray = <sphereHitRayT>",
  "after: intersecting_normal = <sphereNormalT>",
  "after: return (intersecting_ray, intersecting_normal, distance, check)"
]
def sphereSearchModelledOptimizer : List String := ["torch.optim.AdamW", "[distance]", "lr=learning_rate"]

end Odak
