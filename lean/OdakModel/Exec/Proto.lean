import OdakModel.Exec.FloatInst
/-! Line protocol helpers: every token is a decimal integer; floats travel as IEEE-754 bit patterns. -/
namespace Odak.Exec

def fl (z : Int) : Float := Float.ofBits z.toNat.toUInt64
def bits (f : Float) : String := toString f.toBits.toNat
def joinS (l : List String) : String := " ".intercalate l
def outF (l : List Float) : String := joinS (l.map bits)
def outI (l : List Int) : String := joinS (l.map toString)
def optI (o : Option Nat) : Int := match o with | some k => (k : Int) | none => -1

abbrev Handler := List Int → String

end Odak.Exec
