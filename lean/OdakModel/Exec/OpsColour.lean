import OdakModel.Exec.OpsGeom
import OdakModel.Colour
namespace Odak.Exec
open Odak
def vecOp (f : Vec3 Float → Vec3 Float) : Handler := fun a => showV (f (v3 a.toArray 0))
def opsColour : List (String × Handler) := [
  ("rgb2ycrcb", vecOp Gen.rgb2ycrcb), ("ycrcb2rgb", vecOp Gen.ycrcb2rgb),
  ("lin2xyz", vecOp Gen.linearRgbToXyz), ("xyz2lin", vecOp Gen.xyzToLinearRgb),
  ("srgb2lab", vecOp Gen.srgbToLab), ("lab2srgb", vecOp Gen.labToSrgb),
  ("opponent", vecOp Gen.opponentStage),
  ("rgb2hsv", vecOp (rgbToHsv (Num.ofSci 1 true 8))), ("hsv2rgb", vecOp hsvToRgb),
  ("srgb2lin", fun a => outF [Gen.srgbToLinear (fl (a.getD 0 0))]),
  ("lin2srgb", fun a => outF [Gen.linearToSrgb (fl (a.getD 0 0))])
]
end Odak.Exec
