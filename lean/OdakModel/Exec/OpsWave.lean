import OdakModel.Exec.Proto
import OdakModel.Propagate
import OdakModel.Beam
namespace Odak.Exec
open Odak

def readGrid (n m : Nat) (xs : Array Int) (off : Nat) : CGrid Float n m :=
  Grid.ofFn fun i j =>
    let p := off + 2 * (i.val * m + j.val)
    ⟨fl (xs.getD p 0), fl (xs.getD (p + 1) 0)⟩

def showGrid {n m : Nat} (g : CGrid Float n m) : String :=
  outF ((Grid.toList g).flatMap fun z => [z.re, z.im])

/-- args: n m then `np` float parameters then the field -/
def waveOp (np : Nat) (f : (n m : Nat) → Array Float → CGrid Float n m → CGrid Float n m) : Handler := fun a =>
  let xs := a.toArray
  let n := (xs.getD 0 0).toNat
  let m := (xs.getD 1 0).toNat
  if xs.size ≠ 2 + np + 2 * n * m then "bad-args" else
  let ps := (xs.extract 2 (2 + np)).map fl
  showGrid (f n m ps (readGrid n m xs (2 + np)))

/-- kernel ops: n m then float parameters (ints passed as plain ints in `ia`) -/
def kernOp (np : Nat) (f : (n m : Nat) → Array Float → CGrid Float n m) : Handler := fun a =>
  let xs := a.toArray
  let n := (xs.getD 0 0).toNat
  let m := (xs.getD 1 0).toNat
  if xs.size ≠ 2 + np then "bad-args" else
  showGrid (f n m ((xs.extract 2 (2 + np)).map fl))

def P (ps : Array Float) (i : Nat) : Float := ps.getD i 0.0
def N (ps : Array Float) (i : Nat) : Nat := (ps.getD i 0.0).toUInt64.toNat

def opsWave : List (String × Handler) := [
  ("t_as", waveOp 3 fun _ _ p u => torchAS u (P p 0) (P p 1) (P p 2)),
  ("t_tf", waveOp 3 fun _ _ p u => torchTF u (P p 0) (P p 1) (P p 2)),
  ("t_bl", waveOp 3 fun _ _ p u => torchBL u (P p 0) (P p 1) (P p 2)),
  ("t_ir", waveOp 7 fun _ _ p u => torchIR u (P p 0) (P p 1) (P p 2) (N p 3) (N p 4) (N p 5) (N p 6)),
  ("t_fraun", waveOp 4 fun _ _ p u => torchFraunhofer u (P p 0) (P p 1) (P p 2) (P p 3)),
  ("np_as", waveOp 4 fun _ _ p u => npAS u (P p 0) (P p 1) (P p 2) (P p 3)),
  ("np_bl", waveOp 4 fun _ _ p u => npBL u (P p 0) (P p 1) (P p 2) (P p 3)),
  ("np_tf", waveOp 4 fun _ _ p u => npTF u (P p 0) (P p 1) (P p 2) (P p 3)),
  ("np_ir", waveOp 4 fun _ _ p u => npIR u (P p 0) (P p 1) (P p 2) (P p 3)),
  ("k_as", kernOp 3 fun n m p => asKernel n m (P p 0) (P p 1) (P p 2)),
  ("k_tf", kernOp 3 fun n m p => tfKernel n m (P p 0) (P p 1) (wavenumber (P p 1)) (P p 2)),
  ("k_bl", kernOp 3 fun n m p => blKernel n m (P p 0) (P p 1) (P p 2)),
  ("k_ir", kernOp 7 fun n m p => irKernel n m (P p 0) (P p 1) (P p 2) (N p 3) (N p 4) (N p 5) (N p 6)),
  ("fft2", waveOp 0 fun _ _ _ u => CGrid.fft2 u),
  ("ifft2", waveOp 0 fun _ _ _ u => CGrid.ifft2 u),
  ("fftshift", waveOp 0 fun _ _ _ u => CGrid.fftshift u),
  ("ifftshift", waveOp 0 fun _ _ _ u => CGrid.ifftshift u),
  -- custom: n m, field, kernel, aperture (three grids)
  ("custom", fun a =>
    let xs := a.toArray
    let n := (xs.getD 0 0).toNat
    let m := (xs.getD 1 0).toNat
    if xs.size ≠ 2 + 6 * n * m then "bad-args" else
    showGrid (custom (readGrid n m xs 2) (readGrid n m xs (2 + 2 * n * m)) (readGrid n m xs (2 + 4 * n * m))))
]

end Odak.Exec

namespace Odak.Exec
open Odak
def showC' (z : Cx Float) : String := outF [z.re, z.im]
def opsBeam : List (String × Handler) := [
  -- gauss w0 lam z r2
  ("gauss", fun a => showC' (gaussBeam (fl (a.getD 0 0)) (fl (a.getD 1 0)) (fl (a.getD 2 0)) (fl (a.getD 3 0))))
]
end Odak.Exec
