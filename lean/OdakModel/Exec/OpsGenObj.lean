import OdakModel.Exec.OpsGenState
import OdakModel.Generated.PropagatorObject
import OdakModel.Generated.LossObjects
import OdakModel.Generated.MeshObject
import OdakModel.Generated.OptimizerAttrs
import OdakModel.AttrFlow
/-! Driver ops that RUN the object models regenerated from the Python source (work package 13) on abstract tensors - tokens carrying a
    content number, a shape and the elements stored into them - and print, per call, the attributes the step function stored (`x`), the
    attribute objects it wrote in place (`x[]`), and what kind of thing it returned: `V` a value (a new tensor), `N` a new object, `A:x`
    the object the attribute `x` holds, `O` another object that existed before the call.  `harness/props/genobjects.py` compares that with
    the real objects (attribute replacement by identity, in-place writes by the version counter, the returned tensor by identity and
    storage).  This file: the token numerics and the propagator. -/
namespace Odak.Exec
open Odak Odak.Gen

/-- an abstract tensor: content, shape, elements stored into it -/
inductive OTok where
  | mk (val : Int) (shape : List Int) (slots : List (List Int × OTok))
deriving Inhabited

namespace OTok
def val : OTok → Int | mk v _ _ => v
def shape : OTok → List Int | mk _ s _ => s
def slots : OTok → List (List Int × OTok) | mk _ _ l => l
def leaf (v : Int) : OTok := mk v [] []
def hashIdx (i : List Int) : Int := i.foldl (fun a x => a * 37 + x + 3) 11
def get (t : OTok) (i : List Int) : OTok :=
  match t.slots.lookup i with
  | some v => v
  | none => mk (if t.val = 0 then 0 else t.val * 131 + hashIdx i) (t.shape.drop i.length) []
def set (t : OTok) (i : List Int) (v : OTok) : OTok := mk t.val t.shape ((i, v) :: t.slots)
def mix (a b : OTok) : OTok := mk (a.val * 31 + b.val * 17 + 5) a.shape []
def map1 (k : Int) (a : OTok) : OTok := mk (a.val * 29 + k) a.shape []
end OTok

def microDiv (a b : Int) : Int := if b = 0 then 0 else a * 1000000 / b

def propTokOps : PropOps OTok Int :=
  { lit := litMicro, scalar := OTok.leaf, int := fun i => OTok.leaf (i * 1000000), ofBool := fun b => OTok.leaf (if b then 1 else 0),
    truthy := fun t => t.val != 0, rofInt := fun i => i * 1000000, rtruthy := fun r => r != 0,
    radd := fun a b => a + b, rsub := fun a b => a - b, rmul := fun a b => a * b / 1000000, rdiv := microDiv, rneg := fun a => -a,
    add := OTok.mix, sub := fun a b => OTok.map1 1 (OTok.mix a b), mul := fun a b => OTok.map1 2 (OTok.mix a b),
    div := fun a b => OTok.map1 3 (OTok.mix a b), neg := OTok.map1 4, powInt := fun a n => OTok.map1 (5 + n) a,
    getIdx := OTok.get, setIdx := OTok.set, dim := fun t k => t.shape.getD k.toNat 0, rank := fun t => t.shape.length,
    tensorOfFloat := OTok.leaf, tensorOfList := fun l => .mk (l.foldl (fun a x => a * 7 + x) 1) [l.length] [],
    tensorOfInts := fun l => .mk (l.foldl (fun a x => a * 7 + x) 2) [l.length] [],
    linspace := fun a b n => .mk (a * 3 + b * 5 + n + 1) [n] [], zeros := fun s _ => .mk 0 s [], zerosLike := fun t => .mk 0 t.shape [],
    eye := fun n m => .mk (n * 100 + m + 7) [n, m] [], maxAll := OTok.map1 6,
    circularMask := fun r c s => .mk (r * 1000 + c + s.val) [r, c] [], zeroPad := fun t => .mk (t.val * 3 + 1) (t.shape.map (· * 2)) [],
    cropCenter := fun t => .mk (t.val * 3 + 2) (t.shape.map (· / 2)) [],
    kernel := fun nu nv dx lam z pt s sc => .mk (nu * 7 + nv * 11 + dx + lam * 13 + z.val * 17 + pt.length + s.length + sc) [nu, nv] [],
    custom := fun u H a => OTok.mix (OTok.mix u H) a, field := fun a p => OTok.map1 7 (OTok.mix a p), amplitude := OTok.map1 8, phase := OTok.map1 9,
    abs := OTok.map1 10, cos := OTok.map1 11, ifftshift := OTok.map1 12, ifft2 := OTok.map1 13,
    squeeze := fun t _ => .mk t.val (t.shape.drop 1) [],
    prepareReconstruct := fun amp ph n res rf => (match amp with | some a => a | none => .mk (n + 41) (n :: res) [], ph) }

def showRet (l : Nat) (before : Nat) (attrs : List (String × Option Nat)) : String :=
  if l ≥ before then "N"
  else match attrs.find? (fun p => p.2 == some l) with
    | some p => "A:" ++ p.1
    | none => "O"

def propObjAttrs (s : PropagatorAttrs OTok Int) : List (String × Option Nat) :=
  [("aperture", s.aperture), ("distances", s.distances), ("generated_kernels", s.generated_kernels), ("kernels", s.kernels),
   ("channel_power", s.channel_power)]

def propMethod (k : Int) : String := if k = 0 then "conventional" else if k = 1 then "multi-color" else "other"
def propType (k : Int) : String := if k = 0 then "forward" else if k = 1 then "back and forth" else "other"

/-- the calls of a sequence: `(state, heap) -> Option (state, heap, text)`; arguments start at `off`, the number consumed is returned too -/
def propCall (x : Array Int) (off : Nat) (s : PropagatorAttrs OTok Int) (h : Heap OTok) : Option (PropagatorAttrs OTok Int × Heap OTok × String) × Nat :=
  let kind := x.getD off 0
  let E := propTokOps
  if kind = 0 then      -- forward: channel depth content
    ((propagatorCallG E s h (.mk (x.getD (off + 3) 0) [4, 4] []) (x.getD (off + 1) 0) (x.getD (off + 2) 0)).map
      fun r => (r.1, r.2.1, showLog r.2.2.2 ++ ";V"), 4)
  else if kind = 1 then -- reconstruct: get_complex no_grad amplitude_given content
    let amp : Option OTok := if x.getD (off + 3) 0 != 0 then some (.mk 77 [3, 4, 4] []) else none
    ((propagatorReconstructG E s h (.mk (x.getD (off + 4) 0) [1, 4, 4] []) amp (x.getD (off + 2) 0 != 0) (x.getD (off + 1) 0 != 0)).map
      fun r => (r.1, r.2.1, showLog r.2.2.2 ++ ";" ++ showRet r.2.2.1 h.size (propObjAttrs r.1)), 5)
  else if kind = 2 then -- set_laser_powers with a NEW object of the caller: content
    let a := h.alloc (.mk (x.getD (off + 1) 0) [3, 3] [])
    ((propagatorSetLaserPowersG E s a.1 a.2).map fun r => (r.1, r.2.1, showLog r.2.2.2 ++ ";V"), 2)
  else if kind = 3 then -- get_laser_powers
    ((propagatorGetLaserPowersG E s h).map fun r => (r.1, r.2.1, showLog r.2.2.2 ++ ";" ++ showRet r.2.2.1 h.size (propObjAttrs r.1)), 1)
  else if kind = 4 then -- get_kernels
    ((propagatorGetKernelsG E s h).map fun r => (r.1, r.2.1, showLog r.2.2.2 ++ ";V"), 1)
  else                  -- set_aperture: given content
    let ap : Option OTok := if x.getD (off + 1) 0 != 0 then some (.mk (x.getD (off + 2) 0) [4, 4] []) else none
    ((propagatorSetApertureG E s h ap none).map fun r => (r.1, r.2.1, showLog r.2.2.2 ++ ";V"), 3)

/-- the slots of the flag buffer that are set: "d.c d.c .." -/
def propFlags (s : PropagatorAttrs OTok Int) (h : Heap OTok) : String :=
  match s.generated_kernels.bind h.get with
  | none => "?"
  | some g =>
    let on := (g.slots.reverse.foldl (fun (m : List (List Int × Bool)) p => (p.1, p.2.val != 0) :: m.filter (fun q => q.1 != p.1)) []).filter (·.2)
    " ".intercalate ((on.map fun p => ".".intercalate (p.1.map toString)).mergeSort (· ≤ ·))

def propRun (x : Array Int) (off : Nat) : Nat → PropagatorAttrs OTok Int → Heap OTok → List String → List String
  | 0, _, _, acc => acc.reverse
  | n + 1, s, h, acc =>
    match propCall x off s h with
    | (none, _) => ("RAISE" :: acc).reverse
    | (some (s', h', t), k) => propRun x (off + k) n s' h' ((t ++ ";" ++ propFlags s' h') :: acc)

/-! ### the loss objects -/

def lossTokOps : LossObjOps OTok Int :=
  { lit := litMicro, scalar := OTok.leaf, int := fun i => OTok.leaf (i * 1000000), ofBool := fun b => OTok.leaf (if b then 1 else 0),
    truthy := fun t => t.val != 0, rofInt := fun i => i * 1000000, rtruthy := fun r => r != 0,
    radd := fun a b => a + b, rsub := fun a b => a - b, rmul := fun a b => a * b / 1000000, rdiv := microDiv, rneg := fun a => -a,
    add := OTok.mix, sub := fun a b => OTok.map1 1 (OTok.mix a b), mul := fun a b => OTok.map1 2 (OTok.mix a b),
    div := fun a b => OTok.map1 3 (OTok.mix a b), neg := OTok.map1 4, powInt := fun a n => OTok.map1 (5 + n) a,
    getIdx := OTok.get, setIdx := OTok.set, dim := fun t k => t.shape.getD k.toNat 0, rank := fun t => t.shape.length,
    mseLoss := fun r a b => OTok.map1 (20 + r.length) (OTok.mix a b), l1Loss := fun r a b => OTok.map1 (40 + r.length) (OTok.mix a b),
    sliceTargets := fun d n i => (OTok.map1 (n + 1) d, .mk (i.val * 3 + d.val + n) (n :: i.shape) [], OTok.map1 51 i, .mk (d.val + n + 52) (n :: i.shape) []),
    defocusTargets := fun b i t n r m mu => (OTok.map1 (b + 60) t, OTok.map1 (b + 61 + mu) (OTok.mix t m)),
    perceptualLoss := fun bw m rc aw l1 l2 a b c d e f i t p =>
      OTok.map1 (bw.length + aw.length + l1.length + l2.length + (if rc then 1 else 0) + (match p with | some q => q + 2 | none => 0)) (OTok.mix (OTok.mix i t) m) }

def lossCallArgs (x : Array Int) (off : Nat) : OTok × OTok × Option Int :=
  (.mk (x.getD (off + 3) 0) [3, 6, 6] [], .mk (x.getD (off + 3) 0 + 1) [3, 6, 6] [], if x.getD (off + 1) 0 != 0 then some (x.getD (off + 2) 0) else none)

def mplRun (x : Array Int) (off : Nat) : Nat → MultiplaneLossAttrs OTok Int → Heap OTok → List String → List String
  | 0, _, _, acc => acc.reverse
  | n + 1, s, h, acc =>
    if x.getD off 0 = 0 then
      match mplGetTargetsG lossTokOps s h with
      | none => ("RAISE" :: acc).reverse
      | some r => mplRun x (off + 1) n r.1 r.2.1 ((showLog r.2.2.2 ++ ";V,V,V") :: acc)
    else
      let a := lossCallArgs x off
      match mplCallG lossTokOps s h a.1 a.2.1 a.2.2 with
      | none => ("RAISE" :: acc).reverse
      | some r => mplRun x (off + 4) n r.1 r.2.1 ((showLog r.2.2.2 ++ ";V") :: acc)

def pmplRun (x : Array Int) (off : Nat) : Nat → PerceptualMultiplaneLossAttrs OTok Int → Heap OTok → List String → List String
  | 0, _, _, acc => acc.reverse
  | n + 1, s, h, acc =>
    if x.getD off 0 = 0 then
      match pmplGetTargetsG lossTokOps s h with
      | none => ("RAISE" :: acc).reverse
      | some r => pmplRun x (off + 1) n r.1 r.2.1 ((showLog r.2.2.2 ++ ";V,V,V") :: acc)
    else
      let a := lossCallArgs x off
      match pmplCallG lossTokOps s h a.1 a.2.1 a.2.2 with
      | none => ("RAISE" :: acc).reverse
      | some r => pmplRun x (off + 4) n r.1 r.2.1 ((showLog r.2.2.2 ++ ";V") :: acc)

def opsGenObjLoss : List (String × Handler) := [
  -- glo_fields class  ->  the field names of the regenerated structure
  ("glo_fields", fun a => ",".intercalate (if a.getD 0 0 = 0 then mplFields else pmplFields)),
  -- glo_seq class defocus planes blur_size psnr n {0 | 1 plane_given plane content}*n  ->  init log | per call: stored attributes ; kinds returned
  ("glo_seq", fun a => let x := a.toArray
    let h0 : Heap OTok := ⟨[.mk 601 [3, 6, 6] [], .mk 602 [6, 6] []]⟩
    let scheme := if x.getD 1 0 != 0 then "defocus" else "naive"
    let n := (x.getD 5 0).toNat
    if x.getD 0 0 = 0 then
      match mplInitG lossTokOps MultiplaneLossAttrs.empty h0 0 1 250000 (x.getD 3 10) (x.getD 2 4) [1000000, 2100000, 600000] 1000000 scheme "mean" () with
      | none => "RAISE"
      | some r => "|".intercalate (showLog r.2.2.2 :: mplRun x 6 n r.1 r.2.1 [])
    else
      match pmplInitG lossTokOps PerceptualMultiplaneLossAttrs.empty h0 0 1 250000 (x.getD 3 10) (x.getD 2 4) 1000000 scheme
          [("base_l2_loss", 1000000), ("loss_l2_mask", 1000000), ("loss_l2_cor", 1000000), ("base_l1_loss", 1000000), ("loss_l1_mask", 1000000), ("loss_l1_cor", 1000000)]
          (if x.getD 4 0 != 0 then [("psnr", 1000000)] else []) "mean" false () with
      | none => "RAISE"
      | some r => "|".intercalate (showLog r.2.2.2 :: pmplRun x 6 n r.1 r.2.1 []))
]

/-! ### the planar mesh -/

def meshTokOps : MeshOps OTok Int :=
  { lit := litMicro, scalar := OTok.leaf, int := fun i => OTok.leaf (i * 1000000), ofBool := fun b => OTok.leaf (if b then 1 else 0),
    truthy := fun t => t.val != 0, rofInt := fun i => i * 1000000, rtruthy := fun r => r != 0,
    radd := fun a b => a + b, rsub := fun a b => a - b, rmul := fun a b => a * b / 1000000, rdiv := microDiv, rneg := fun a => -a,
    add := OTok.mix, sub := fun a b => OTok.map1 1 (OTok.mix a b), mul := fun a b => OTok.map1 2 (OTok.mix a b),
    div := fun a b => OTok.map1 3 (OTok.mix a b), neg := OTok.map1 4, powInt := fun a n => OTok.map1 (5 + n) a,
    getIdx := OTok.get, setIdx := OTok.set, dim := fun t k => t.shape.getD k.toNat 0, rank := fun t => t.shape.length,
    toInt := fun t => t.val, zerosT := fun l => .mk 0 (l.map OTok.val) [], linspaceT := fun a b n => .mk (a.val * 3 + b.val * 5 + n.val + 1) [n.val] [],
    meshgridIJ := fun x y => (.mk (x.val * 7 + 1) (x.shape ++ y.shape) [], .mk (y.val * 7 + 2) (x.shape ++ y.shape) []),
    unsqueeze := fun t k => .mk t.val (if k = 0 then 1 :: t.shape else t.shape ++ [1]) [], view := fun t s => .mk (t.val * 3 + 4) s [],
    cat := fun l k => .mk (l.foldl (fun a t => a * 41 + t.val) (k + 9)) [] [],
    triangulate := fun s n a => OTok.map1 71 (OTok.mix (OTok.mix s n) a), mirrorLoop := fun r t => (OTok.map1 72 (OTok.mix r t), OTok.map1 73 (OTok.mix r t)) }

def meshRun (x : Array Int) (off : Nat) : Nat → PlanarMeshAttrs OTok Int → Heap OTok → List String → List String
  | 0, _, _, acc => acc.reverse
  | n + 1, s, h, acc =>
    let kind := x.getD off 0
    if kind = 0 then
      match meshMirrorG meshTokOps s h (.mk (x.getD (off + 1) 0) [2, 2, 3] []) with
      | none => ("RAISE" :: acc).reverse
      | some r => meshRun x (off + 2) n r.1 r.2.1 ((showLog r.2.2.2 ++ ";V,V") :: acc)
    else if kind = 1 then
      match meshGetTrianglesG meshTokOps s h with
      | none => ("RAISE" :: acc).reverse
      | some r => meshRun x (off + 1) n r.1 r.2.1 ((showLog r.2.2.2 ++ ";V") :: acc)
    else if kind = 2 then
      match meshGetSquaresG meshTokOps s h with
      | none => ("RAISE" :: acc).reverse
      | some r => meshRun x (off + 1) n r.1 r.2.1 ((showLog r.2.2.2 ++ ";V") :: acc)
    else      -- an optimiser step: the heights tensor is written in place by the caller
      match s.heights with
      | none => ("RAISE" :: acc).reverse
      | some l => meshRun x (off + 2) n s (h.set l (.mk (x.getD (off + 1) 0) [3, 3, 1] [])) ("-;X" :: acc)

def opsGenObjMesh : List (String × Handler) := [
  -- goa_tables  ->  attributes assigned by __init__ | assigned by optimize | written in place by optimize | handed to the torch optimiser | no stale read
  ("goa_tables", fun _ => "|".intercalate [",".intercalate (attrsWritten optInitTrace), ",".intercalate (attrsWritten optimizeTrace),
    ",".intercalate (attrsInPlace optimizeTrace), ",".intercalate (optimizeVariables.map (·.1)), toString (noStaleRead optimizeTrace)]),
  ("gmo_fields", fun _ => ",".intercalate meshFields),
  -- gmo_seq heights_given n {0 content | 1 | 2 | 3 content}*n  ->  init log | per call: stored attributes ; kinds returned
  ("gmo_seq", fun a => let x := a.toArray
    let h0 : Heap OTok := ⟨[.mk 701 [2] [], .mk 702 [2] [], .mk 703 [3] [], .mk 704 [3] [], .mk 705 [3, 3, 1] []]⟩
    match meshInitG meshTokOps PlanarMeshAttrs.empty h0 0 1 2 3 () (if x.getD 0 0 != 0 then some 4 else none) with
    | none => "RAISE"
    | some r => "|".intercalate (showLog r.2.2.2 :: meshRun x 2 (x.getD 1 0).toNat r.1 r.2.1 []))
]

def opsGenObj : List (String × Handler) := [
  -- gpo_fields  ->  the field names of the regenerated structure
  ("gpo_fields", fun _ => ",".intercalate propagatorFields),
  -- gpo_seq method type channels depths frames distances_given powers_given aperture_given impulse n {calls}
  --   ->  init log | per call: stored attributes ; kind of the returned thing ; the slots (depth.channel) of the flag buffer that are set
  ("gpo_seq", fun a => let x := a.toArray
    let nch := (x.getD 2 1).toNat
    let nd := x.getD 3 1
    -- the caller's objects: distances, laser powers, aperture (when given) live in the heap before the constructor runs
    let h0 : Heap OTok := ⟨[.mk 501 [nd] [], .mk 502 [x.getD 4 1, nch] [], .mk 503 [4, 4] []]⟩
    let ds : Option Nat := if x.getD 5 0 != 0 then some 0 else none
    let pw : Option Nat := if x.getD 6 0 != 0 then some 1 else none
    let ap : Option Nat := if x.getD 7 0 != 0 then some 2 else none
    match propagatorInitG propTokOps PropagatorAttrs.empty h0 [4, 4] ((List.range nch).map fun (k : Nat) => (500 + 10 * (k : Int))) 8 1 (x.getD 4 1) nd 10000 5000
        (if x.getD 8 0 != 0 then "Impulse Response Fresnel" else "Bandlimited Angular Spectrum") (propType (x.getD 1 0)) 300000 pw ap none ds
        [20, 20, 5, 5] (propMethod (x.getD 0 0)) () with
    | none => "RAISE"
    | some r => "|".intercalate (showLog r.2.2.2 :: propRun x 10 (x.getD 9 0).toNat r.1 r.2.1 []))
]

end Odak.Exec
