import OdakModel.Exec.OpsGenGeom
import OdakModel.SphereSearch
/-! Driver operations for the torch ray-sphere search: the regenerated residual / loss / flag (`Generated/SphereSearch.lean`), the
    hand-written gradient and AdamW step, and the loop model `sphereSearch` (`OdakModel/SphereSearch.lean`) at `Float`. -/
namespace Odak.Exec
open Odak Odak.Gen

/-- (distance, gradient) seen by the optimiser at every pass -/
def sphereTrajectory (ray : Ray Float) (c0 c1 c2 r lr : Float) : Nat → SearchState (AdamState Float) Float → List Float → List Float
  | 0, _, acc => acc.reverse
  | n + 1, s, acc =>
    sphereTrajectory ray c0 c1 c2 r lr n (sphereSearchPass (adamWStep lr) ray c0 c1 c2 r s)
      (sphereLossGrad ray c0 c1 c2 r s.dist :: s.dist :: acc)

def opsGenSphere : List (String × Handler) := [
  -- gs_point ray(6) sphere(4) t -> residual loss gradient
  ("gs_point", fun a => let x := a.toArray
    let ray := rayAt x 0; let t := fl (x.getD 10 0)
    let c0 := fl (x.getD 6 0); let c1 := fl (x.getD 7 0); let c2 := fl (x.getD 8 0); let r := fl (x.getD 9 0)
    outF [sphereResidualT ray c0 c1 c2 r t, sphereLossT ray c0 c1 c2 r t, sphereLossGrad ray c0 c1 c2 r t]),
  -- gs_traj ray(6) sphere(4) lr steps -> distance_0 grad_0 distance_1 grad_1 ... (what the optimiser sees at every pass)
  ("gs_traj", fun a => let x := a.toArray
    let ray := rayAt x 0
    let c0 := fl (x.getD 6 0); let c1 := fl (x.getD 7 0); let c2 := fl (x.getD 8 0); let r := fl (x.getD 9 0)
    let lr := fl (x.getD 10 0)
    outF (sphereTrajectory ray c0 c1 c2 r lr (x.getD 11 0).toNat (sphereSearchInit adamInit) [])),
  -- gs_search ray(6) sphere(4) lr threshold steps -> kind(0 done, 1 unbound) check steps | distance hit(6) normal(6) residual-at-returned-distance
  ("gs_search", fun a => let x := a.toArray
    let ray := rayAt x 0
    let c0 := fl (x.getD 6 0); let c1 := fl (x.getD 7 0); let c2 := fl (x.getD 8 0); let r := fl (x.getD 9 0)
    match sphereSearch ray c0 c1 c2 r (fl (x.getD 10 0)) (fl (x.getD 11 0)) (x.getD 12 0).toNat with
    | .unbound => "1 0 0"
    | .done chk d hit k => "0 " ++ (if chk then "1 " else "0 ") ++ toString k ++ " " ++ outF [d] ++ " " ++ showR hit ++ " " ++
        showR (sphereNormalT ray c0 c1 c2 r d) ++ " " ++ outF [sphereResidualT ray c0 c1 c2 r d]),
  -- gs_defaults -> lr threshold steps
  ("gs_defaults", fun _ => outF [(sphereSearchLrT : Float), (sphereSearchThresholdT : Float)] ++ " " ++ toString sphereSearchStepsT)
]
end Odak.Exec
