import OdakModel.Exec.OpsGeom
import OdakModel.Geometry
import OdakModel.Generated.Constants
namespace Odak.Exec
open Odak

def b2i (b : Bool) : Float := if b then 1.0 else 0.0

def opsRay : List (String × Handler) := [
  ("tri_normal", fun a => let x := a.toArray
    let p0 := v3 x 0; let p1 := v3 x 3; let p2 := v3 x 6
    let c := centerOfTriangle p0 p1 p2; let n := triangleNormalDir p0 p1 p2
    outF [c.x, c.y, c.z, n.x, n.y, n.z]),
  -- intersect api(0 numpy,1 torch) o d p0 p1 p2
  ("intersect", fun a => let x := a.toArray
    let api := x.getD 0 0
    let o := v3 x 1; let d := v3 x 4; let p0 := v3 x 7; let p1 := v3 x 10; let p2 := v3 x 13
    let h := if api = 0 then npIntersectSurface o d p0 p1 p2 else intersectSurface o d p0 p1 p2
    let flag := if api = 0 then npIsOnTriangle h.point p0 p1 p2 else isOnTriangle h.point p0 p1 p2
    outF [h.point.x, h.point.y, h.point.z, h.normal.x, h.normal.y, h.normal.z, h.distance, b2i flag]),
  ("reflect", fun a => let x := a.toArray
    let eps : Float := if x.getD 0 0 = 0 then Gen.reflectEpsNumpy else Gen.reflectEpsTorch
    showV (reflectDir eps (v3 x 1) (v3 x 4))),
  -- refract d n mu err
  ("refract", fun a => let x := a.toArray
    let d := v3 x 0; let n := v3 x 3; let mu := fl (x.getD 6 0); let err := fl (x.getD 7 0)
    match refractTau mu err d n 100000 with
    | .tir => "1 0 0 0 0 0"
    | .noConvergence => "2 0 0 0 0 0"
    | .ok t it => let o := refractDir mu t d n
      "0 " ++ toString it ++ " " ++ outF [t, o.x, o.y, o.z])
]
end Odak.Exec
