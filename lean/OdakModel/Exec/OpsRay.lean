import OdakModel.Exec.OpsGeom
import OdakModel.Geometry
import OdakModel.Rays
import OdakModel.Generated.Constants
namespace Odak.Exec
open Odak

def b2i (b : Bool) : Float := if b then 1.0 else 0.0

def opsRay : List (String × Handler) := [
  ("tri_normal", fun a => let x := a.toArray
    let p0 := v3 x 0; let p1 := v3 x 3; let p2 := v3 x 6
    let c := centerOfTriangle p0 p1 p2; let n := triangleNormalDir p0 p1 p2
    outF [c.x, c.y, c.z, n.x, n.y, n.z]),
  -- intersect api(0 numpy,1 torch) o d p0 p1 p2
  ("intersect", fun a => let x := a.toArray
    let api := x.getD 0 0
    let o := v3 x 1; let d := v3 x 4; let p0 := v3 x 7; let p1 := v3 x 10; let p2 := v3 x 13
    let h := if api = 0 then npIntersectSurface o d p0 p1 p2 else intersectSurface o d p0 p1 p2
    let flag := if api = 0 then npIsOnTriangle h.point p0 p1 p2 else isOnTriangle h.point p0 p1 p2
    outF [h.point.x, h.point.y, h.point.z, h.normal.x, h.normal.y, h.normal.z, h.distance, b2i flag]),
  ("reflect", fun a => let x := a.toArray
    let eps : Float := if x.getD 0 0 = 0 then Gen.reflectEpsNumpy else Gen.reflectEpsTorch
    showV (reflectDir eps (v3 x 1) (v3 x 4))),
  -- refract d n mu err
  ("refract", fun a => let x := a.toArray
    let d := v3 x 0; let n := v3 x 3; let mu := fl (x.getD 6 0); let err := fl (x.getD 7 0)
    match refractTau mu err d n 100000 with
    | .tir => "1 0 0 0 0 0"
    | .noConvergence => "2 0 0 0 0 0"
    | .ok t it => let o := refractDir mu t d n
      "0 " ++ toString it ++ " " ++ outF [t, o.x, o.y, o.z])
]
end Odak.Exec

namespace Odak.Exec
open Odak
def opsRays : List (String × Handler) := [
  ("ray2", fun a => let x := a.toArray; showV (rayDirTwoPoints (v3 x 0) (v3 x 3))),
  ("allpairs", fun a => match a with
    | [n, idx] => let (i, j) := allPairsIndex n.toNat idx.toNat; outI [i, j]
    | _ => "bad-args"),
  -- cone which(0 point,1 grid) tilt(3) limit U V
  ("cone", fun a => let x := a.toArray
    let c : Float := if x.getD 0 0 = 0 then Gen.coneCoeffPoint else Gen.coneCoeffGrid
    showV (coneDir c (v3 x 1) (fl (x.getD 4 0)) (fl (x.getD 5 0)) (fl (x.getD 6 0)))),
  -- sample kind no0 no1 no2 | floats…  then angles(3) center(3) zeroflag
  ("grid_pt", fun a => let x := a.toArray
    let p := gridPoint (x.getD 0 0).toNat (x.getD 1 0).toNat (fl (x.getD 2 0)) (fl (x.getD 3 0)) (x.getD 4 0).toNat (x.getD 5 0).toNat
    showV (placeSample (v3 x 6) (v3 x 9) p (x.getD 12 0 != 0))),
  ("box_pt", fun a => let x := a.toArray
    let p := boxPoint (x.getD 0 0).toNat (x.getD 1 0).toNat (x.getD 2 0).toNat (fl (x.getD 3 0)) (fl (x.getD 4 0)) (fl (x.getD 5 0))
      (x.getD 6 0).toNat (x.getD 7 0).toNat (x.getD 8 0).toNat
    showV (placeSample (v3 x 9) (v3 x 12) p (x.getD 15 0 != 0))),
  ("circ_pt", fun a => let x := a.toArray
    let p := circularPoint (x.getD 0 0).toNat (x.getD 1 0).toNat (fl (x.getD 2 0)) (x.getD 3 0).toNat (x.getD 4 0).toNat
    showV (placeSample (v3 x 5) (v3 x 8) p (x.getD 11 0 != 0))),
  ("sphere_pt", fun a => let x := a.toArray
    showV (spherePoint (x.getD 0 0).toNat (x.getD 1 0).toNat (fl (x.getD 2 0)) (v3 x 3) (fl (x.getD 6 0)) (fl (x.getD 7 0))
      (x.getD 8 0).toNat (x.getD 9 0).toNat))
]
end Odak.Exec
