import OdakModel.Exec.OpsGenSamp
import OdakModel.Generated.SamplersMore
/-! Driver operations that evaluate the REGENERATED loop-built generators of `odak/tools/sample.py` (`Generated/SamplersMore.lean`) at
    `Float`.  Every operation prints ALL returned rows in order (three / six numbers per row).
    `harness/props/gensamplersmore.py` compares them with the real functions of /repo. -/
namespace Odak.Exec
open Odak Odak.Gen

def listV (l : List (Vec3 Float)) : String := joinS (l.map showV)
def listR (l : List (Ray Float)) : String := joinS (l.map showR)

def opsGenSampMore : List (String × Handler) := [
  -- gm_circ_uniform no0 no1 radius center(3) angles(3) anglesZero
  ("gm_circ_uniform", fun a => let x := a.toArray
    listV (circularUniformSampleN (nat x 0) (nat x 1) (fl (x.getD 2 0)) (v3 x 3) (v3 x 6) (x.getD 9 0 != 0))),
  -- gm_circ_random no0 no1 radius center(3) angles(3) anglesZero U(no0) V(no1)
  ("gm_circ_random", fun a => let x := a.toArray
    let no0 := nat x 0; let no1 := nat x 1
    listV (circularUniformRandomSampleN no0 no1 (fl (x.getD 2 0)) (v3 x 3) (v3 x 6) (x.getD 9 0 != 0) (flAt x 10) (flAt x (10 + no0)))),
  -- gm_circ_random_draws -> low0 high0 low1 high1
  ("gm_circ_random_draws", fun _ =>
    outF ((circularUniformRandomSampleNDrawBounds (α := Float)).flatMap fun b => [b.1, b.2])),
  -- gm_cloud n no k cloud(3n) choice(k)
  ("gm_cloud", fun a => let x := a.toArray
    let n := nat x 0; let k := nat x 2
    listV (randomSamplePointCloudN n (ptsAt x 3) (nat x 1) ((List.range k).map fun t => nat x (3 + 3 * n + t)))),
  -- gm_cloud_call -> the np.random.choice call as regenerated: parameter=expression tokens joined by '|'
  ("gm_cloud_call", fun _ => "|".intercalate (randomSamplePointCloudNChoiceCall.map fun p => p.1 ++ "=" ++ p.2.replace " " "")),
  -- gm_batch m n entry(3m) exit(3n)
  ("gm_batch", fun a => let x := a.toArray
    let m := nat x 0; let n := nat x 1
    listR (batchOfRaysN m (ptsAt x 2) n (ptsAt x (2 + 3 * m))))
]
end Odak.Exec
