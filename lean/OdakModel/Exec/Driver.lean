import OdakModel.Exec.OpsIndex
import OdakModel.Exec.OpsWave
import OdakModel.Exec.OpsGeom
import OdakModel.Exec.OpsPolar
import OdakModel.Exec.OpsRay
import OdakModel.Exec.OpsColour
import OdakModel.Exec.OpsSlicing
import OdakModel.Exec.OpsFovea
import OdakModel.Exec.OpsProp
import OdakModel.Exec.OpsLoss
import OdakModel.Exec.OpsCodec
import OdakModel.Exec.OpsDual
import OdakModel.Exec.OpsGen
import OdakModel.Exec.OpsGenGeom
import OdakModel.Exec.OpsGenSamp
import OdakModel.Exec.OpsGenSlice
import OdakModel.Exec.OpsGenQuant
import OdakModel.Exec.OpsGenFovea
import OdakModel.Exec.OpsGenLoss
import OdakModel.Exec.OpsGenPipe
import OdakModel.Exec.OpsGenGeomBatch
import OdakModel.Exec.OpsGenDefocus
import OdakModel.Exec.OpsGenSphere
import OdakModel.Exec.OpsGenPipeMore
import OdakModel.Exec.OpsGenColour
import OdakModel.Exec.OpsGenPadCrop
import OdakModel.Exec.OpsGenImageCodec
import OdakModel.Exec.OpsGenState
import OdakModel.Exec.OpsGenRay
import OdakModel.Exec.OpsGenHolo
import OdakModel.Exec.OpsGenCyl
import OdakModel.Exec.OpsGenSampMore
import OdakModel.Exec.OpsGenPly
import OdakModel.Exec.OpsGenObj
import OdakModel.Exec.OpsGenObjInst
import OdakModel.Exec.OpsGenStats
/-! `odakdrv`: reads one operation per line on stdin, prints the model's answer per line. -/
namespace Odak.Exec

def allOps : List (String × Handler) := opsIndex ++ opsWave ++ opsBeam ++ opsRot ++ opsPolar ++ opsRay ++ opsRays ++ opsColour ++ opsSlicing ++ opsFovea ++ opsProp ++ opsLoss ++ opsCodec ++ opsHolo ++ opsDual ++ opsGen ++ opsGenGeom ++ opsGenSamp ++ opsGenSlice ++ opsGenQuant ++ opsGenFovea ++ opsGenLoss ++ opsGenPipe ++ opsGenGeomBatch ++ opsGenDefocus ++ opsGenSphere ++ opsGenPipeMore ++ opsGenColour ++ opsGenPadCrop ++ opsGenImageCodec ++ opsGenState ++ opsGenRay ++ opsGenHolo ++ opsGenCyl ++ opsGenSampMore ++ opsGenPly ++ opsGenObj ++ opsGenObjLoss ++ opsGenObjMesh ++ opsGenObjInst ++ opsGenStats

def step (line : String) : String :=
  match (line.trimAscii.toString.splitOn " ").filter (· ≠ "") with
  | [] => "bad-op"
  | op :: args =>
    match allOps.lookup op with
    | none => "bad-op"
    | some h =>
      match args.mapM String.toInt? with
      | none => "bad-args"
      | some xs => h xs

partial def loop (h : IO.FS.Stream) (out : IO.FS.Stream) : IO Unit := do
  let line ← h.getLine
  if line.isEmpty then return ()
  out.putStrLn (step line)
  loop h out

end Odak.Exec

def main : IO Unit := do
  let i ← IO.getStdin
  let o ← IO.getStdout
  Odak.Exec.loop i o
  o.flush
