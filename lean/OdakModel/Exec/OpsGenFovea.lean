import OdakModel.Exec.OpsIndex
import OdakModel.Generated.FoveationGen
/-! Driver ops that evaluate, at `Float`, the foveation definitions REGENERATED from the Python source
    (`OdakModel/Generated/FoveationGen.lean`).  `harness/props/genfoveation.py` compares them with the implementation. -/
namespace Odak.Exec
open Odak

/-- the `(i, j)` pairs that follow the first `k` arguments -/
def pixelPairs (x : Array Int) (k : Nat) : List (Nat × Nat) :=
  (List.range ((x.size - k) / 2)).map fun t => ((x.getD (k + 2 * t) 0).toNat, (x.getD (k + 2 * t + 1) 0).toNat)

def opsGenFovea : List (String × Handler) := [
  -- g_pool q h w g0 g1 alpha width dist (i j)*  ->  per pixel: x y z eccentricity distance pixels lod
  ("g_pool", fun a => let x := a.toArray
    let q := x.getD 0 0 != 0; let h := (x.getD 1 0).toNat; let w := (x.getD 2 0).toNat
    let g0 := fl (x.getD 3 0); let g1 := fl (x.getD 4 0); let al := fl (x.getD 5 0); let wd := fl (x.getD 6 0); let ds := fl (x.getD 7 0)
    outF ((pixelPairs x 8).flatMap fun (i, j) =>
      let p := Gen.locationMapG h w wd ds i j
      let e := Gen.eccDistG g0 g1 h w wd ds i j
      [p.1, p.2.1, p.2.2, e.1, e.2, Gen.poolingPixelsG g0 g1 h w al wd ds q i j, Gen.poolingLodG g0 g1 h w al wd ds q i j])),
  -- g_equi q h w a0 a1 alpha (i j)*  ->  per pixel: pixels lod
  ("g_equi", fun a => let x := a.toArray
    let q := x.getD 0 0 != 0; let h := (x.getD 1 0).toNat; let w := (x.getD 2 0).toNat
    let a0 := fl (x.getD 3 0); let a1 := fl (x.getD 4 0); let al := fl (x.getD 5 0)
    outF ((pixelPairs x 6).flatMap fun (i, j) =>
      [Gen.equiPoolingPixelsG a0 a1 h w al q i j, Gen.equiPoolingLodG a0 a1 h w al q i j])),
  -- g_radial s0 s1 g0 g1 (i j)*  ->  per pixel: radius, normalised value
  ("g_radial", fun a => let x := a.toArray
    let s0 := (x.getD 0 0).toNat; let s1 := (x.getD 1 0).toNat; let g0 := fl (x.getD 2 0); let g1 := fl (x.getD 3 0)
    let mx := gridMax s0 s1 fun i j => Gen.radialRadiiG s0 s1 g0 g1 i j
    outF ((pixelPairs x 4).flatMap fun (i, j) =>
      [Gen.radialRadiiG s0 s1 g0 g1 i j, Gen.radialRadiiG s0 s1 g0 g1 i j / mx, Gen.radialMapG s0 s1 g0 g1 i j])),
  -- g_blur levels lod frac mip_0 .. mip_(levels-1)  ->  fraction(lod), output pixel
  ("g_blur", fun a => let x := a.toArray
    let levels := (x.getD 0 0).toNat; let lod := fl (x.getD 1 0); let frac := fl (x.getD 2 0)
    outF [Gen.blurFractionG lod, Gen.blurPixelG levels lod frac fun k => fl (x.getD (3 + k) 0)]),
  -- g_mips fuel H W  ->  h0 w0 h1 w1 ...
  ("g_mips", fun a => match a with
    | [fuel, H, W] => outI ((Gen.mipSizesG fuel.toNat H.toNat W.toNat).flatMap fun s => [(s.1 : Int), (s.2 : Int)])
    | _ => "bad-args"),
  -- g_pyr axis H W D  ->  ok len src...      g_pyr_info H W D  ->  needsPad mode(0 reflect, 1 constant) top bottom left right
  ("g_pyr", fun a => match a with
    | [ax, H, W, D] => let (ok, m) := Gen.pyrPadG ax.toNat H W D; showAxis ok m
    | _ => "bad-args"),
  ("g_pyr_info", fun a => match a with
    | [H, W, D] => outI [if Gen.pyrNeedsPadG H W D then 1 else 0,
        (match Gen.pyrPadModeG with | .reflect => 0 | .constant => 1),
        Gen.pyrTopG H W D, Gen.pyrBottomG H W D, Gen.pyrLeftG H W D, Gen.pyrRightG H W D]
    | _ => "bad-args")
]

end Odak.Exec
