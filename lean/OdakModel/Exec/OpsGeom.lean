import OdakModel.Exec.Proto
import OdakModel.Rotation
namespace Odak.Exec
open Odak Odak.Gen

def v3 (a : Array Int) (i : Nat) : Vec3 Float := ⟨fl (a.getD i 0), fl (a.getD (i+1) 0), fl (a.getD (i+2) 0)⟩
def showV (v : Vec3 Float) : String := outF [v.x, v.y, v.z]
def showM (m : Mat3 Float) : String := outF [m.a00, m.a01, m.a02, m.a10, m.a11, m.a12, m.a20, m.a21, m.a22]
def modeNames : List String := ["XYZ", "XZY", "YXZ", "ZXY", "ZYX"]
def tables : List (List (String × List Axis)) :=
  [npRotatePointModes, npRotatePointsModes, torchRotatePointsModes, torchGetRotationMatrixModes]
def apiOf (i : Int) : Api := if i = 0 then .np else .torch
def axisOf (i : Int) : Axis := if i = 0 then .x else if i = 1 then .y else .z

def opsRot : List (String × Handler) := [
  ("rotmat", fun a => match a with
    | [api, ax, d] => showM (rotmat (apiOf api) (axisOf ax) (fl d))
    | _ => "bad-args"),
  -- rotate api tbl mode  ang(3) origin(3) offset(3) p(3) zeroflag
  ("rotate", fun a =>
    let xs := a.toArray
    if xs.size ≠ 16 then "bad-args" else
    let api := apiOf (xs.getD 0 0)
    let tbl := tables.getD (xs.getD 1 0).toNat []
    match modeOrder tbl (modeNames.getD (xs.getD 2 0).toNat "") with
    | none => "no-mode"
    | some order =>
      let ang := v3 xs 3; let origin := v3 xs 6; let offset := v3 xs 9; let p := v3 xs 12
      if xs.getD 1 0 = 1 then showV (npRotatePoints order ang origin offset p (xs.getD 15 0 != 0))
      else showV (rotatePoint api order ang origin offset p)),
  ("rotmatrix", fun a =>
    let xs := a.toArray
    if xs.size ≠ 4 then "bad-args" else
    match modeOrder torchGetRotationMatrixModes (modeNames.getD (xs.getD 0 0).toNat "") with
    | none => "no-mode"
    | some order => showM (rotFromOrder .torch order (v3 xs 1))),
  ("tilt", fun a =>
    let xs := a.toArray
    if xs.size ≠ 6 then "bad-args" else showV (tiltTowards (v3 xs 0) (v3 xs 3)))
]
end Odak.Exec
