import OdakModel.Exec.Proto
import OdakModel.Dual
import OdakModel.Chk
import OdakModel.Polar
import OdakModel.Kernels
import OdakModel.Geometry
import OdakModel.Rays
import OdakModel.Colour
import OdakModel.Losses
/-! Forward-mode derivatives of model entry points: `dual <name> <k> x_1..x_k v_1..v_k p_1..` evaluates the entry point at
    `x + ε v` (parameters `p` are constants) and prints value and derivative of every output component. -/
namespace Odak.Exec
open Odak

abbrev DF := Dual Float
def dv (xs : Array DF) (i : Nat) : DF := xs.getD i ⟨0.0, 0.0⟩
def dvec (xs : Array DF) (i : Nat) : Vec3 DF := ⟨dv xs i, dv xs (i+1), dv xs (i+2)⟩
def cst (x : Float) : DF := ⟨x, 0.0⟩
def vout (v : Vec3 DF) : List DF := [v.x, v.y, v.z]

/-- entry points: differentiated inputs `xs`, constant parameters `ps` -/
def dualFns : List (String × (Array DF → Array Float → List DF)) := [
  ("gen_field", fun xs _ => let z := genField (dv xs 0) (dv xs 1); [z.re, z.im]),
  ("amp_phase", fun xs _ => let u : Cx DF := ⟨dv xs 0, dv xs 1⟩; [calcAmplitude u, calcPhase u]),
  ("set_amp", fun xs _ => let z := setAmplitude (⟨dv xs 0, dv xs 1⟩ : Cx DF) ⟨dv xs 2, dv xs 3⟩; [z.re, z.im]),
  -- kernels as functions of the distance z: ps = [meth, n, m, dx, lam]
  ("kernel_z", fun xs ps =>
    let n := (ps.getD 1 0.0).toUInt64.toNat; let m := (ps.getD 2 0.0).toUInt64.toNat
    let dx := cst (ps.getD 3 0.0); let lam := cst (ps.getD 4 0.0); let z := dv xs 0
    let g : CGrid DF n m := if ps.getD 0 0.0 == 0.0 then asKernel n m dx lam z else tfKernel n m dx lam (wavenumber lam) z
    (Grid.toList g).flatMap fun c => [c.re, c.im]),
  ("reflect0", fun xs _ => vout (reflectDir 0 (dvec xs 0) (dvec xs 3))),
  ("reflect_eps", fun xs _ => vout (reflectDir Gen.reflectEpsTorch (dvec xs 0) (dvec xs 3))),
  -- refract: xs = d(3) n(3); ps = [mu, err]
  ("refract", fun xs ps =>
    let d := dvec xs 0; let n := dvec xs 3; let mu := cst (ps.getD 0 1.0); let err := cst (ps.getD 1 0.01)
    match refractTau mu err d n 10000 with
    | .ok t _ => vout (refractDir mu t d n)
    | _ => [⟨0.0 / 0.0, 0.0⟩, ⟨0.0 / 0.0, 0.0⟩, ⟨0.0 / 0.0, 0.0⟩]),
  -- intersect: xs = o(3) d(3) p0 p1 p2 (15)
  ("intersect", fun xs _ =>
    let h := intersectSurface (dvec xs 0) (dvec xs 3) (dvec xs 6) (dvec xs 9) (dvec xs 12)
    vout h.point ++ [h.distance] ++ vout h.normal),
  ("create_ray", fun xs _ => vout (createRayDir (dvec xs 0))),
  -- propagate_ray: xs = o(3) d(3) t
  ("propagate_ray", fun xs _ => vout (propagateRay (dvec xs 0) (dvec xs 3) (dv xs 6))),
  ("ray2", fun xs _ => vout (rayDirTwoPoints (dvec xs 0) (dvec xs 3))),
  ("rgb2ycrcb", fun xs _ => vout (Gen.rgb2ycrcb (dvec xs 0))),
  ("ycrcb2rgb", fun xs _ => vout (Gen.ycrcb2rgb (dvec xs 0))),
  ("lin2xyz", fun xs _ => vout (Gen.linearRgbToXyz (dvec xs 0))),
  ("xyz2lin", fun xs _ => vout (Gen.xyzToLinearRgb (dvec xs 0))),
  ("srgb2lab", fun xs _ => vout (Gen.srgbToLab (dvec xs 0))),
  ("lab2srgb", fun xs _ => vout (Gen.labToSrgb (dvec xs 0))),
  ("srgb2lin", fun xs _ => [Gen.srgbToLinear (dv xs 0)]),
  ("lin2srgb", fun xs _ => [Gen.linearToSrgb (dv xs 0)]),
  ("rgb2hsv", fun xs _ => vout (rgbToHsv (Num.ofSci 1 true 8) (dvec xs 0))),
  ("mse", fun xs _ => let n := xs.size / 2; [mse (xs.toList.take n) (xs.toList.drop n)]),
  ("wrapped_mse", fun xs _ => let n := xs.size / 2; [wrappedMse (xs.toList.take n) (xs.toList.drop n)]),
  -- tv: ps = [rows, cols]
  ("tv", fun xs ps => let r := (ps.getD 0 0.0).toUInt64.toNat; let c := (ps.getD 1 0.0).toUInt64.toNat
    [tvLoss ((List.range r).map fun i => (List.range c).map fun j => dv xs (i * c + j))])
]

/-- dual name k x.. v.. p.. : the first token after the op is the index of the entry point in `dualFns` -/
def dualOp (a : List Int) : String :=
  let x := a.toArray
  let idx := (x.getD 0 0).toNat
  let k := (x.getD 1 0).toNat
  match dualFns[idx]? with
  | none => "bad-args"
  | some (_, f) =>
    let xs : Array DF := (Array.range k).map fun i => ⟨fl (x.getD (2 + i) 0), fl (x.getD (2 + k + i) 0)⟩
    let ps : Array Float := (x.extract (2 + 2 * k) x.size).map fl
    let outs := f xs ps
    outF (outs.flatMap fun o => [o.v, o.d])

/-! `chk <idx> <k> x_1..x_k`: the entry point run at `Chk Float`; prints, per output component, the value and 1/0 for
    "every local derivative on the autograd graph is finite" (both branches of every `torch.where` included). -/
abbrev CF := Chk Float
def cv (xs : Array CF) (i : Nat) : CF := xs.getD i ⟨0.0, true⟩
def cvec (xs : Array CF) (i : Nat) : Vec3 CF := ⟨cv xs i, cv xs (i+1), cv xs (i+2)⟩
def cout (v : Vec3 CF) : List CF := [v.x, v.y, v.z]
def chkFns : List (String × (Array CF → List CF)) := [
  ("rgb2ycrcb", fun xs => cout (Gen.rgb2ycrcb (cvec xs 0))),
  ("ycrcb2rgb", fun xs => cout (Gen.ycrcb2rgb (cvec xs 0))),
  ("lin2xyz", fun xs => cout (Gen.linearRgbToXyz (cvec xs 0))),
  ("xyz2lin", fun xs => cout (Gen.xyzToLinearRgb (cvec xs 0))),
  ("srgb2lab", fun xs => cout (Gen.srgbToLab (cvec xs 0))),
  ("lab2srgb", fun xs => cout (Gen.labToSrgb (cvec xs 0))),
  ("srgb2lin", fun xs => [Gen.srgbToLinear (cv xs 0)]),
  ("lin2srgb", fun xs => [Gen.linearToSrgb (cv xs 0)])
]
def chkOp (a : List Int) : String :=
  let x := a.toArray
  let idx := (x.getD 0 0).toNat
  let k := (x.getD 1 0).toNat
  match chkFns[idx]? with
  | none => "bad-args"
  | some (_, f) =>
    let xs : Array CF := (Array.range k).map fun i => ⟨fl (x.getD (2 + i) 0), true⟩
    outF ((f xs).flatMap fun o => [o.v, if o.ok then 1.0 else 0.0])

def opsDual : List (String × Handler) := [
  ("dual", dualOp),
  ("dual_names", fun _ => joinS (dualFns.map (·.1))),
  ("chk", chkOp),
  ("chk_names", fun _ => joinS (chkFns.map (·.1)))
]
end Odak.Exec
