import OdakModel.Exec.Proto
import OdakModel.Index
namespace Odak.Exec
open Odak.Index

def showAxis (ok : Bool) (m : AxisMap) : String :=
  outI ((if ok then 1 else 0) :: (m.len : Int) :: (List.range m.len).map (fun i => optI (m.src i)))

def opsIndex : List (String × Handler) := [
  ("torch_pad", fun a => match a with
    | [e, ax, H, W, S0, S1] => let (ok, m) := torchPad (e != 0) ax.toNat H W S0 S1; showAxis ok m
    | _ => "bad-args"),
  ("torch_crop", fun a => match a with
    | [e, ax, H, W, S0, S1] => showAxis true (torchCrop (e != 0) ax.toNat H W S0 S1)
    | _ => "bad-args"),
  ("np_pad", fun a => match a with
    | [e, ax, H, W, S0, S1] => let (ok, m) := npPad (e != 0) ax.toNat H W S0 S1; showAxis ok m
    | _ => "bad-args"),
  ("np_crop", fun a => match a with
    | [e, ax, H, W, S0, S1] => showAxis true (npCrop (e != 0) ax.toNat H W S0 S1)
    | _ => "bad-args"),
  ("np_gs_crop", fun a => match a with
    | [ax, P0, P1, H, W] => showAxis true (npGsCrop ax.toNat P0 P1 H W)
    | _ => "bad-args"),
  ("torch_axes", fun a => match torchSpatialAxes (a.map Int.toNat) with
    | some (x, y) => outI [x, y]
    | none => "none"),
  ("pyr_pad", fun a => match a with
    | [ax, H, W, D] => let (ok, m) := pyrPad ax.toNat H W D; showAxis ok m
    | _ => "bad-args")
]

end Odak.Exec
