import OdakModel.Exec.OpsGenColour
import OdakModel.Generated.ImageCodec
/-! Driver operation that evaluates the REGENERATED tensor programs of `save_image` / `load_image` (`Generated/ImageCodec.lean`) at
    `Float` on whole arrays, so that `harness/props/genimagecodec.py` can compare the array handed to `cv2.imwrite` (captured) and the
    array the loaders return with the real functions of `/repo`.
    `ic fn k a b rank dims… data…`  ->  `ok rank dims… data…`
    `fn`: 0 NumPy save_image (k = color_depth, a = cmin, b = cmax), 1 torch save_image (same), 2 NumPy load_image (k = torch_style as
    0 / 1, a = normalizeby, data = what `cv2.imread` returned), 3 torch load_image (same).  `ok` = 0: a value outside `0 .. 2^bits - 1`
    is cast to an unsigned integer. -/
namespace Odak.Exec
open Odak Odak.Tensor

def runImageCodecFn (fn k : Nat) (a b : Float) (x : Tensor Float) : Option (Bool × Tensor Float) :=
  match fn with
  | 0 => some (GenIC.np_save_image_ok x a b k, GenIC.np_save_image x a b k)
  | 1 => some (GenIC.torch_save_image_ok x a b k, GenIC.torch_save_image x a b k)
  | 2 => some (true, GenIC.np_load_image x a (k == 1))
  | 3 => some (true, GenIC.torch_load_image x a (k == 1))
  | _ => none

def opsGenImageCodec : List (String × Handler) := [
  ("ic", fun a => let x := a.toArray
    let fn := (x.getD 0 0).toNat
    let k := (x.getD 1 0).toNat
    let r := (x.getD 4 0).toNat
    let shape := (List.range r).map (fun i => (x.getD (5 + i) 0).toNat)
    let n := prod shape
    let data : Array Float := ((List.range n).map (fun i => fl (x.getD (5 + r + i) 0))).toArray
    match runImageCodecFn fn k (fl (x.getD 2 0)) (fl (x.getD 3 0)) (tensorOfData shape data) with
    | some (ok, t) => (if ok then "1 " else "0 ") ++ showTensor t
    | none => "bad-args")
]
end Odak.Exec
