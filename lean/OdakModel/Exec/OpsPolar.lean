import OdakModel.Exec.Proto
import OdakModel.Polar
namespace Odak.Exec
open Odak
def cxOf (a : Array Int) (i : Nat) : Cx Float := ⟨fl (a.getD i 0), fl (a.getD (i+1) 0)⟩
def showC (z : Cx Float) : String := outF [z.re, z.im]
def opsPolar : List (String × Handler) := [
  ("amp_phase", fun a => let u := cxOf a.toArray 0; outF [calcAmplitude u, calcPhase u]),
  ("gen_field", fun a => let x := a.toArray; showC (genField (fl (x.getD 0 0)) (fl (x.getD 1 0)))),
  ("set_amp", fun a => let x := a.toArray; showC (setAmplitude (cxOf x 0) (cxOf x 2))),
  ("add_phase", fun a => let x := a.toArray; showC (addPhase (cxOf x 0) (fl (x.getD 2 0)))),
  ("slm", fun a => let x := a.toArray
    let u := cxOf x 0; let r := fl (x.getD 2 0); let b := (x.getD 3 0).toNat
    outF ([slmLevel (Cx.arg u) r b] ++ (let p := slmPattern u r b 1.0; [p.re, p.im]))),
  ("quantize", fun a => let x := a.toArray
    outF [quantize (fl (x.getD 0 0)) (x.getD 1 0).toNat (fl (x.getD 2 0)) (fl (x.getD 3 0))])
]
end Odak.Exec
