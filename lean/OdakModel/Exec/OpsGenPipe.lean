import OdakModel.Exec.OpsWave
import OdakModel.Exec.OpsProp
import OdakModel.PipelineTie
/-! Driver ops that evaluate, at `Float`, the PIPELINES regenerated from the Python source
    (`OdakModel/Generated/Pipelines.lean`).  `harness/props/genpipelines.py` compares them with the implementation. -/
namespace Odak.Exec
open Odak

/-- propagation-type strings by the code the harness sends (7 = a string no branch matches) -/
def ptypeOfCode (c : Int) : String :=
  match c with
  | 0 => "Angular Spectrum" | 1 => "Bandlimited Angular Spectrum" | 2 => "Transfer Function Fresnel"
  | 3 => "Impulse Response Fresnel" | 4 => "custom" | 5 => "Fraunhofer" | 6 => "Incoherent Angular Spectrum"
  | 8 => "Seperable Impulse Response Fresnel"
  | _ => "no such propagation type"

def showOpt {n m : Nat} (o : Option (CGrid Float n m)) : String :=
  match o with | some g => showGrid g | none => "none"

def showStack {k n m : Nat} (us : CStack Float k n m) : String :=
  joinS (us.toList.map showGrid)

/-- gp_beam p0 p1 p2 code n m dx lam k z s0 s1 s2 s3  field(n×m)  aperture, kernel (n×m, or 2n×2m when p0)
    (for p0 = p1 = 0, p2 = 1 the field is 2n×2m: the caller sends n m = half the sides) -/
def beamOp (a : List Int) : String :=
  let x := a.toArray
  let p0 := x.getD 0 0 != 0; let p1 := x.getD 1 0 != 0; let p2 := x.getD 2 0 != 0
  let pt := ptypeOfCode (x.getD 3 0)
  let n := (x.getD 4 0).toNat; let m := (x.getD 5 0).toNat
  let dx := fl (x.getD 6 0); let lam := fl (x.getD 7 0); let k := fl (x.getD 8 0); let z := fl (x.getD 9 0)
  let s0 := (x.getD 10 0).toNat; let s1 := (x.getD 11 0).toNat; let s2 := (x.getD 12 0).toNat; let s3 := (x.getD 13 0).toNat
  let o := 14
  let big := 2 * (2 * n) * (2 * m)
  let small := 2 * n * m
  match p0, p1, p2 with
  | false, false, false =>
    showOpt (Gen.propagateBeamT_FFF pt (readGrid n m x o) (readGrid n m x (o + small)) (readGrid n m x (o + 2 * small)) dx lam k z s0 s1 s2 s3)
  | false, false, true =>
    showOpt (Gen.propagateBeamT_FFT (n := n) (m := m) pt (readGrid _ _ x o) (readGrid _ _ x (o + big)) (readGrid _ _ x (o + 2 * big))
      dx lam k z s0 s1 s2 s3)
  | false, true, false =>
    showOpt (Gen.propagateBeamT_FTF pt (readGrid n m x o) (readGrid n m x (o + small)) (readGrid n m x (o + 2 * small)) dx lam k z s0 s1 s2 s3)
  | false, true, true =>
    showOpt (Gen.propagateBeamT_FTT pt (readGrid n m x o) (readGrid n m x (o + small)) (readGrid n m x (o + 2 * small)) dx lam k z s0 s1 s2 s3)
  | true, false, false =>
    showOpt (Gen.propagateBeamT_TFF pt (readGrid n m x o) (readGrid _ _ x (o + small)) (readGrid _ _ x (o + small + big)) dx lam k z s0 s1 s2 s3)
  | true, false, true =>
    showOpt (Gen.propagateBeamT_TFT pt (readGrid n m x o) (readGrid _ _ x (o + small)) (readGrid _ _ x (o + small + big)) dx lam k z s0 s1 s2 s3)
  | true, true, false =>
    showOpt (Gen.propagateBeamT_TTF pt (readGrid n m x o) (readGrid _ _ x (o + small)) (readGrid _ _ x (o + small + big)) dx lam k z s0 s1 s2 s3)
  | true, true, true =>
    showOpt (Gen.propagateBeamT_TTT pt (readGrid n m x o) (readGrid _ _ x (o + small)) (readGrid _ _ x (o + small + big)) dx lam k z s0 s1 s2 s3)

/-- gp_prop_seq: same arguments as `prop_seq` (OpsProp.lean), evaluated with the REGENERATED step function `Gen.propagatorCallT` -/
def genPropSeq (a : List Int) : String :=
  let x := a.toArray
  let back := x.getD 0 0 != 0
  let meth : PMethod := match x.getD 1 0 with | 0 => .as | 1 => .tf | _ => .bl
  let h := (x.getD 2 0).toNat
  let w := (x.getD 3 0).toNat
  let dx := fl (x.getD 4 0); let z0 := fl (x.getD 5 0); let off := fl (x.getD 6 0)
  let nch := (x.getD 7 0).toNat
  let lams := (List.range nch).map fun i => fl (x.getD (8 + i) 0)
  let p1 := 8 + nch
  let ndep := (x.getD p1 0).toNat
  let dists := (List.range ndep).map fun i => fl (x.getD (p1 + 1 + i) 0)
  let p2 := p1 + 1 + ndep
  let A : CGrid Float (2 * h) (2 * w) := Grid.ofFn fun i j => ⟨fl (x.getD (p2 + i.val * (2 * w) + j.val) 0), 0.0⟩
  let p3 := p2 + 4 * h * w
  let nops := (x.getD p3 0).toNat
  let cfg : PropCfg Float := ⟨back, meth, dx, lams, dists, off, z0⟩
  let slf : Gen.PropagatorSelf Float h w := cfg.toSelf A 2 2 2 2
  let stride := 2 + 2 * h * w
  let rec go (k : Nat) (s : PState Float (2 * h) (2 * w)) (acc : List String) : List String :=
    match k with
    | 0 => acc.reverse
    | k' + 1 =>
      let idx := nops - k
      let base := p3 + 1 + idx * stride
      let d := (x.getD base 0).toNat
      let c := (x.getD (base + 1) 0).toNat
      let u : CGrid Float h w := readGrid h w x (base + 2)
      let hit := s.generated d c
      match Gen.propagatorCallT slf s u c d with
      | some (s', o) => go k' s' ((toString (if hit then 1 else 0) ++ " " ++ showGrid o) :: acc)
      | none => ("none" :: acc).reverse
  joinS (go nops PState.init [])

def opsGenPipe : List (String × Handler) := [
  -- custom: n m, field, kernel, aperture
  ("gp_custom", fun a =>
    let xs := a.toArray
    let n := (xs.getD 0 0).toNat; let m := (xs.getD 1 0).toNat
    if xs.size ≠ 2 + 6 * n * m then "bad-args" else
    showGrid (Gen.customT (readGrid n m xs 2) (readGrid n m xs (2 + 2 * n * m)) (readGrid n m xs (2 + 4 * n * m)))),
  -- custom with kernel = None: n m, field, aperture
  ("gp_custom_ones", fun a =>
    let xs := a.toArray
    let n := (xs.getD 0 0).toNat; let m := (xs.getD 1 0).toNat
    if xs.size ≠ 2 + 4 * n * m then "bad-args" else
    showGrid (Gen.customOnesT (readGrid n m xs 2) (readGrid n m xs (2 + 2 * n * m)))),
  ("gp_custom_pad", fun a =>
    let xs := a.toArray
    let n := (xs.getD 0 0).toNat; let m := (xs.getD 1 0).toNat
    if xs.size ≠ 2 + 6 * n * m then "bad-args" else
    showGrid (Gen.customPadT (readGrid n m xs 2) (readGrid n m xs (2 + 2 * n * m)) (readGrid n m xs (2 + 4 * n * m)))),
  -- custom on a stack: k n m, k fields, kernel, aperture
  ("gp_custom_stack", fun a =>
    let xs := a.toArray
    let k := (xs.getD 0 0).toNat; let n := (xs.getD 1 0).toNat; let m := (xs.getD 2 0).toNat
    if xs.size ≠ 3 + 2 * n * m * (k + 2) then "bad-args" else
    let us : CStack Float k n m := Vector.ofFn fun b => readGrid n m xs (3 + 2 * n * m * b.val)
    showStack (Gen.customStackT us (readGrid n m xs (3 + 2 * n * m * k)) (readGrid n m xs (3 + 2 * n * m * (k + 1))))),
  ("gp_beam", beamOp),
  -- NumPy propagate_beam: code n m dx lam k z field
  ("gp_np", fun a =>
    let xs := a.toArray
    let n := (xs.getD 1 0).toNat; let m := (xs.getD 2 0).toNat
    if xs.size ≠ 7 + 2 * n * m then "bad-args" else
    showOpt (Gen.propagateBeamN (ptypeOfCode (xs.getD 0 0)) (readGrid n m xs 7) (fl (xs.getD 3 0)) (fl (xs.getD 4 0)) (fl (xs.getD 5 0))
      (fl (xs.getD 6 0)))),
  -- get_propagation_kernel: code n m dx lam z s0 s1 s2 s3
  ("gp_kernel", fun a =>
    let xs := a.toArray
    let n := (xs.getD 1 0).toNat; let m := (xs.getD 2 0).toNat
    showOpt (Gen.propagationKernelT (ptypeOfCode (xs.getD 0 0)) n m (fl (xs.getD 3 0)) (fl (xs.getD 4 0)) (fl (xs.getD 5 0))
      (xs.getD 6 0).toNat (xs.getD 7 0).toNat (xs.getD 8 0).toNat (xs.getD 9 0).toNat)),
  ("gp_prop_seq", genPropSeq),
  -- reconstruct: frames depths channels -> (depth channel frame' channel') per call, in call order
  ("gp_reconstruct", fun a =>
    let calls := Gen.reconstructCallsT (a.getD 0 0).toNat (a.getD 1 0).toNat (a.getD 2 0).toNat (fun f c => (f, c))
    outI (calls.flatMap fun (d, c, fc) => [(d : Int), (c : Int), (fc.1 : Int), (fc.2 : Int)]))
]

end Odak.Exec
