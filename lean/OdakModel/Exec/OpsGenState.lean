import OdakModel.Exec.Proto
import OdakModel.Generated.StateMachines
/-! Driver ops that RUN the state machines regenerated from the Python source (`OdakModel/Generated/StateMachines.lean`) on abstract
    tokens - integers standing for object identities, shapes and contents - and print, per call, the attributes the step function
    stored (or `RAISE`).  `harness/props/genstatemachines.py` compares that decision sequence with the attributes the real objects replace
    for the same argument sequence.  Also: the regenerated fovea mask formula at `Float`. -/
namespace Odak.Exec
open Odak Odak.Gen

/-- a tensor token: object identity, spatial size, channels, content -/
structure Tok where
  id : Int
  h : Nat
  w : Nat
  c : Nat
  val : Int
deriving DecidableEq, Inhabited

def roundUp (n d : Nat) : Nat := if d = 0 then n else ((n + d - 1) / d) * d

/-- value of a decimal literal text in units of 1e-6 (enough for the literals of the source; anything else: a hash of the text) -/
def litMicro (s : String) : Int :=
  match s.splitOn "." with
  | [a, b] =>
    match a.toInt?, (b ++ "000000").take 6 |>.toNat? with
    | some x, some y => x * 1000000 + (if x < 0 then -(y : Int) else y)
    | _, _ => (s.hash.toNat % 1000003 : Nat)
  | _ => (s.hash.toNat % 1000003 : Nat)

/-- the numerics on tokens: sizes, shape and content comparisons behave like the tensors they stand for; every computed tensor is a token
    whose content mixes the contents of its arguments -/
def tokOps : GazeOps Tok Int Int (Nat × Nat × Nat) Int :=
  let mix : Tok → Tok → Tok := fun a b => { id := 0, h := a.h, w := a.w, c := a.c, val := a.val * 31 + b.val * 17 + 5 }
  { height := fun x => x.h, width := fun x => x.w, channels := fun x => x.c, shape := fun x => (x.h, x.w, x.c),
    allEq := fun a b => a.val == b.val, same := fun a b => a.id == b.id,
    inputsOk := fun a b => a.h == b.h && a.w == b.w && a.c == b.c && (a.c == 1 || a.c == 3),
    pad := fun x n =>
      let d := 2 ^ n
      if roundUp x.h d > x.h ∨ roundUp x.w d > x.w then { x with id := x.id * 4 + 1, h := roundUp x.h d, w := roundUp x.w d, val := x.val * 4 + 1 } else x,
    ycrcb := fun x => { x with id := x.id * 4 + 2, val := x.val * 4 + 2 }, rgb := fun x => { x with id := x.id * 4 + 3, val := x.val * 4 + 3 },
    zeros := fun s => { id := -1, h := s.1, w := s.2.1, c := s.2.2, val := 0 },
    randLike := fun x => { x with id := -2, val := 7 },
    lit := litMicro, scalar := fun r => { id := 0, h := 0, w := 0, c := 0, val := r }, nat := fun n => { id := 0, h := 0, w := 0, c := 0, val := n },
    add := mix, sub := mix, mul := mix, div := mix, mse := mix,
    fmod := fun x _ => { x with id := 0, val := x.val + 1 }, repeatChannels := fun x n => { x with id := 0, c := n },
    lodPlain := fun g s a w d m => { id := 0, h := s.1, w := s.2, c := 1, val := g * 1000 + a + w + d + m.length },
    lodEqui := fun g s a m => { id := 0, h := s.1, w := s.2, c := 1, val := g * 1000 + a + m.length + 3 },
    radialMap := fun s g => { id := 0, h := s.1, w := s.2, c := 1, val := g },
    renderBlur := fun i l f => mix (mix i l) f,
    statsCore := fun _ s x g _ _ _ _ => (s + 1, [mix x ⟨0, 0, 0, 0, g⟩, x], ⟨0, x.h, x.w, x.c, g + 1⟩),
    visualise := fun _ _ => ⟨0, 0, 0, 0, 9⟩,
    uniformStatsCore := fun _ s x _ => (s + 1, [x, x]),
    synthMetamer := fun _ _ _ _ n x _ => mix x n }

def tokAt (x : Array Int) (off : Nat) : Tok :=
  { id := x.getD off 0, h := (x.getD (off + 1) 0).toNat, w := (x.getD (off + 2) 0).toNat, c := (x.getD (off + 3) 0).toNat, val := x.getD (off + 4) 0 }

def modeName (k : Int) : String := if k = 0 then "quadratic" else if k = 1 then "linear" else "mode" ++ toString k
def spaceName (k : Int) : String := if k = 0 then "RGB" else "YCrCb"
def showLog (l : List String) : String := if l.isEmpty then "-" else ",".intercalate l

/-- run `n` calls of a step function (the call number gives the offset of its arguments); stop at the first call that raises -/
def runLog {S : Type} (step : S → Nat → Option (S × List String)) (n : Nat) (s0 : S) : String :=
  let rec go (k fuel : Nat) (s : S) (acc : List String) : List String :=
    match fuel with
    | 0 => acc.reverse
    | fuel + 1 =>
      match step s k with
      | none => ("RAISE" :: acc).reverse
      | some (s', l) => go (k + 1) fuel s' (showLog l :: acc)
  "|".intercalate (go 0 n s0 [])

def opsGenState : List (String × Handler) := [
  -- gsm_blur n {h w c alpha width distance centre mode equi}*n
  ("gsm_blur", fun a => let x := a.toArray
    let n := (x.getD 0 0).toNat
    runLog (fun (s : RadiallyVaryingBlurSelf Tok Int Int (Nat × Nat × Nat) Int) k =>
      let o := 1 + 9 * k
      let img : Tok := { id := k, h := (x.getD o 0).toNat, w := (x.getD (o + 1) 0).toNat, c := (x.getD (o + 2) 0).toNat, val := 1 }
      (radiallyVaryingBlurBlurG tokOps s img (x.getD (o + 3) 0) (x.getD (o + 4) 0) (x.getD (o + 5) 0) (x.getD (o + 6) 0)
        (modeName (x.getD (o + 7) 0)) (x.getD (o + 8) 0 != 0)).map fun r => (r.1, r.2.2)) n RadiallyVaryingBlurSelf.init),
  -- gsm_blurloss blur_source alpha width distance mode equi n {image(5) target(5) gaze}*n
  ("gsm_blurloss", fun a => let x := a.toArray
    let cfg : BlurLossCfg Int :=
      { alpha := x.getD 1 0, real_image_width := x.getD 2 0, real_viewing_distance := x.getD 3 0,
        mode := modeName (x.getD 4 0), blur_source := x.getD 0 0 != 0, equi := x.getD 5 0 != 0 }
    runLog (fun (s : BlurLossSelf Tok Int Int (Nat × Nat × Nat) Int) k =>
      let o := 7 + 11 * k
      (blurLossCallG tokOps cfg s (tokAt x o) (tokAt x (o + 5)) (x.getD (o + 10) 0)).map fun r => (r.1, r.2.2)) (x.getD 6 0).toNat BlurLossSelf.init),
  -- gsm_metameric alpha width distance levels mode l2 radial fullres equi n {image(5) target(5) gaze colorspace visualise}*n
  ("gsm_metameric", fun a => let x := a.toArray
    let cfg : MetamericLossCfg Int :=
      { alpha := x.getD 0 0, real_image_width := x.getD 1 0, real_viewing_distance := x.getD 2 0,
        n_pyramid_levels := (x.getD 3 0).toNat, n_orientations := 2, mode := modeName (x.getD 4 0), use_l2_foveal_loss := x.getD 5 0 != 0,
        fovea_weight := 20000000, use_radial_weight := x.getD 6 0 != 0, use_fullres_l0 := x.getD 7 0 != 0, equi := x.getD 8 0 != 0 }
    runLog (fun (s : MetamericLossSelf Tok Int Int (Nat × Nat × Nat) Int) k =>
      let o := 10 + 13 * k
      (metamericLossCallG tokOps cfg s (tokAt x o) (tokAt x (o + 5)) (x.getD (o + 10) 0) (spaceName (x.getD (o + 11) 0)) (x.getD (o + 12) 0 != 0)).map
        fun r => (r.1, r.2.2)) (x.getD 9 0).toNat (MetamericLossSelf.init 0)),
  -- gsm_uniform pooling levels n {image(5) target(5) colorspace visualise}*n
  ("gsm_uniform", fun a => let x := a.toArray
    let cfg : MetamericLossUniformCfg Int := { pooling_size := (x.getD 0 0).toNat, n_pyramid_levels := (x.getD 1 0).toNat, n_orientations := 2 }
    runLog (fun (s : MetamericLossUniformSelf Tok Int Int (Nat × Nat × Nat) Int) k =>
      let o := 3 + 12 * k
      (metamericLossUniformCallG tokOps cfg s (tokAt x o) (tokAt x (o + 5)) (spaceName (x.getD (o + 10) 0)) (x.getD (o + 11) 0 != 0)).map
        fun r => (r.1, r.2.2)) (x.getD 2 0).toNat (MetamericLossUniformSelf.init 0)),
  -- gsm_metamermse alpha width distance levels equi n {image(5) target(5) gaze}*n      (the inner MetamericLoss: no foveal L2 term)
  ("gsm_metamermse", fun a => let x := a.toArray
    let cfg : MetamericLossCfg Int :=
      { alpha := x.getD 0 0, real_image_width := x.getD 1 0, real_viewing_distance := x.getD 2 0,
        n_pyramid_levels := (x.getD 3 0).toNat, n_orientations := 2, mode := "quadratic", use_l2_foveal_loss := false,
        fovea_weight := 20000000, use_radial_weight := false, use_fullres_l0 := false, equi := x.getD 4 0 != 0 }
    runLog (fun (s : MetamerMSELossSelf Tok Int Int (Nat × Nat × Nat) Int) k =>
      let o := 6 + 11 * k
      (metamerMSELossCallG tokOps cfg s (tokAt x o) (tokAt x (o + 5)) (x.getD (o + 10) 0)).map fun r => (r.1, r.2.2))
      (x.getD 5 0).toNat (MetamerMSELossSelf.init 0)),
  -- gsm_fovea lod lodmax  ->  fovea mask, periphery mask of the pixel (Float)
  ("gsm_fovea", fun a => outF [foveaMaskPixelG (fl (a.getD 0 0)) (fl (a.getD 1 0)), peripheryMaskPixelG (fl (a.getD 0 0)) (fl (a.getD 1 0))])
]

end Odak.Exec
