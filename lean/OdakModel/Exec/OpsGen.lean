import OdakModel.Exec.OpsWave
import OdakModel.Exec.OpsPolar
import OdakModel.Generated.WaveKernels
/-! Driver ops that evaluate, at `Float`, the kernels and field utilities REGENERATED from the Python source
    (`OdakModel/Generated/WaveKernels.lean`).  `harness/props/genkernels.py` compares them with the implementation. -/
namespace Odak.Exec
open Odak

def opsGen : List (String × Handler) := [
  -- torch kernels: n m dx lam z
  ("g_as", kernOp 3 fun n m p => Gen.asKernelT n m (P p 0) (P p 1) (P p 2)),
  ("g_tf", kernOp 3 fun n m p => Gen.tfKernelT n m (P p 0) (P p 1) (P p 2)),
  ("g_bl", kernOp 3 fun n m p => Gen.blKernelT n m (P p 0) (P p 1) (P p 2)),
  -- torch impulse response, spatial part: n m dx lam z s0 s1 s2 s3
  ("g_ir", kernOp 7 fun n m p => Gen.irSpatialT n m (P p 0) (P p 1) (P p 2) (N p 3) (N p 4) (N p 5) (N p 6)),
  -- NumPy kernels: n m dx lam k z
  ("g_np_as", kernOp 4 fun n m p => Gen.asKernelN n m (P p 0) (P p 1) (P p 2) (P p 3)),
  ("g_np_tf", kernOp 4 fun n m p => Gen.tfKernelN n m (P p 0) (P p 1) (P p 2) (P p 3)),
  ("g_np_bl", kernOp 4 fun n m p => Gen.blKernelN n m (P p 0) (P p 1) (P p 2) (P p 3)),
  ("g_np_ir", kernOp 4 fun n m p => Gen.irKernelN n m (P p 0) (P p 1) (P p 2) (P p 3)),
  -- field utilities, torch (T) and NumPy (N): complex numbers as (re, im) bit patterns
  ("g_wavenumber", fun a => let x := fl (a.getD 0 0); outF [Gen.wavenumberT x, Gen.wavenumberN x]),
  ("g_amp_phase", fun a => let u := cxOf a.toArray 0
    outF [Gen.calcAmplitudeT u, Gen.calcPhaseT u, Gen.calcAmplitudeN u, Gen.calcPhaseN u]),
  ("g_gen_field", fun a => let x := a.toArray
    let t := Gen.genFieldT (fl (x.getD 0 0)) (fl (x.getD 1 0)); let v := Gen.genFieldN (fl (x.getD 0 0)) (fl (x.getD 1 0))
    outF [t.re, t.im, v.re, v.im]),
  ("g_set_amp", fun a => let x := a.toArray
    let t := Gen.setAmplitudeT (cxOf x 0) (cxOf x 2); let v := Gen.setAmplitudeN (cxOf x 0) (cxOf x 2)
    outF [t.re, t.im, v.re, v.im]),
  ("g_add_phase", fun a => let x := a.toArray; showC (Gen.addPhaseN (cxOf x 0) (fl (x.getD 2 0))))
]

end Odak.Exec
