import OdakModel.Exec.OpsGeom
import OdakModel.Generated.ColourTensors
/-! Driver operation that evaluates the REGENERATED tensor-level colour conversions (`Generated/ColourTensors.lean`) at `Float`
    on whole images (any rank / layout the harness sends), so that `harness/props/gencolour.py` can compare shape and every
    element with the real functions of `/repo`.
    `ct fn nextra extra… rank dims… data…`  ->  `rank dims… data…`
    `fn`: 0 rgb_2_ycrcb, 1 ycrcb_2_rgb, 2 rgb_to_linear_rgb, 3 linear_rgb_to_rgb, 4 linear_rgb_to_xyz, 5 xyz_to_linear_rgb,
    6 rgb_to_hsv, 7 hsv_to_rgb, 8 srgb_to_lab, 9 lab_to_srgb, 10 second_to_third_stage, 11 primaries_to_lms (extra = the 3x3 LMS
    matrix), 12 lms_to_primaries (extra = the matrix `torch.pinverse` returned: `pinv` is uninterpreted in the model). -/
namespace Odak.Exec
open Odak Odak.Tensor

def tensorOfData (shape : List Nat) (data : Array Float) : Tensor Float :=
  ⟨shape, fun idx => data.getD (ravel shape idx) 0⟩

def tensorData (t : Tensor Float) : List Float :=
  (List.range (prod t.shape)).map (fun f => t.get (unravel t.shape f))

def showTensor (t : Tensor Float) : String :=
  joinS ([toString t.shape.length] ++ t.shape.map toString ++ (tensorData t).map bits)

def runColourFn (fn : Nat) (extra : Array Float) (img : Tensor Float) : Option (Tensor Float) :=
  let mat : Tensor Float := tensorOfData [3, 3] extra
  match fn with
  | 0 => some (GenT.rgb_2_ycrcb img)
  | 1 => some (GenT.ycrcb_2_rgb img)
  | 2 => some (GenT.rgb_to_linear_rgb img GenT.rgb_to_linear_rgb_threshold)
  | 3 => some (GenT.linear_rgb_to_rgb img GenT.linear_rgb_to_rgb_threshold)
  | 4 => some (GenT.linear_rgb_to_xyz img)
  | 5 => some (GenT.xyz_to_linear_rgb img)
  | 6 => some (GenT.rgb_to_hsv img GenT.rgb_to_hsv_eps)
  | 7 => some (GenT.hsv_to_rgb img)
  | 8 => some (GenT.srgb_to_lab img)
  | 9 => some (GenT.lab_to_srgb img)
  | 10 => some (GenT.second_to_third_stage img)
  | 11 => some (GenT.primaries_to_lms mat img)
  | 12 => some (GenT.lms_to_primaries (fun _ => mat) mat img)
  | _ => none

def opsGenColour : List (String × Handler) := [
  ("ct", fun a => let x := a.toArray
    let fn := (x.getD 0 0).toNat
    let ne := (x.getD 1 0).toNat
    let extra : Array Float := ((List.range ne).map (fun k => fl (x.getD (2 + k) 0))).toArray
    let r := (x.getD (2 + ne) 0).toNat
    let shape := (List.range r).map (fun k => (x.getD (3 + ne + k) 0).toNat)
    let n := prod shape
    let data : Array Float := ((List.range n).map (fun k => fl (x.getD (3 + ne + r + k) 0))).toArray
    match runColourFn fn extra (tensorOfData shape data) with
    | some t => showTensor t
    | none => "bad-args")
]
end Odak.Exec
