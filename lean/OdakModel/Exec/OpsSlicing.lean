import OdakModel.Exec.Proto
import OdakModel.Slicing
namespace Odak.Exec
open Odak
def opsSlicing : List (String × Handler) := [
  ("plane_of", fun a => outF [planeOf (a.getD 0 0).toNat (fl (a.getD 1 0))]),
  ("focus", fun a => outF [focusTarget (a.getD 0 0).toNat (fl (a.getD 1 0)) (fl (a.getD 2 0))]),
  -- slices d p0 p1 ... pn
  ("slices", fun a => match a with
    | d :: ps => outI ((slicesContaining (ps.map fl) (fl d)).map Int.ofNat)
    | _ => "bad-args")
]
end Odak.Exec
