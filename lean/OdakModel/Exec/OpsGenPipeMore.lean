import OdakModel.Exec.OpsGenPipe
import OdakModel.Generated.PipelinesMore
/-! Driver ops that evaluate, at `Float`, the NumPy propagation routines regenerated into `Generated/PipelinesMore.lean`
    (`fraunhofer_inverse`, `rayleigh_sommerfeld`, `fraunhofer_equal_size_adjust`).  `harness/props/genpipelinesmore.py` compares them
    with the implementation. -/
namespace Odak.Exec
open Odak

def showCx2 (z : Cx Float) : String := outF [z.re, z.im]

def opsGenPipeMore : List (String × Handler) := [
  -- gm_frinv n m dx lam k z field(n×m) -> fraunhofer_inverse
  ("gm_frinv", fun a => let x := a.toArray
    let n := (x.getD 0 0).toNat; let m := (x.getD 1 0).toNat
    showGrid (Gen.fraunhoferInverseN (readGrid n m x 6) (fl (x.getD 2 0)) (fl (x.getD 3 0)) (fl (x.getD 4 0)) (fl (x.getD 5 0)))),
  -- gm_frinv_c n m dx lam k z -> the factor c
  ("gm_frinv_c", fun a => let x := a.toArray
    let n := (x.getD 0 0).toNat; let m := (x.getD 1 0).toNat
    showGrid (Gen.fraunhoferInvCoefN n m (fl (x.getD 2 0)) (fl (x.getD 3 0)) (fl (x.getD 4 0)) (fl (x.getD 5 0)))),
  -- gm_rs n dx lam k z field(n×n) -> rayleigh_sommerfeld (square fields)
  ("gm_rs", fun a => let x := a.toArray
    let n := (x.getD 0 0).toNat
    showGrid (Gen.rayleighSommerfeldN (readGrid n n x 5) (fl (x.getD 1 0)) (fl (x.getD 2 0)) (fl (x.getD 3 0)) (fl (x.getD 4 0)))),
  -- gm_fesa n m dx lam z field(n×m) -> nx px ny py, then the px × py window (when it lies inside the field)
  ("gm_fesa", fun a => let x := a.toArray
    let n := (x.getD 0 0).toNat; let m := (x.getD 1 0).toNat
    let w : (Float × Float) × (Float × Float) := Gen.equalSizeWindowN n m (fl (x.getD 2 0)) (fl (x.getD 3 0)) (fl (x.getD 4 0))
    let head := outF [w.1.1, w.1.2, w.2.1, w.2.2]
    let ok := 0 ≤ w.1.1 ∧ 0 ≤ w.1.2 ∧ 0 ≤ w.2.1 ∧ 0 ≤ w.2.2 ∧ w.1.1 + w.1.2 ≤ Float.ofNat n ∧ w.2.1 + w.2.2 ≤ Float.ofNat m
    if ok then
      let u : CGrid Float n m := readGrid n m x 5
      let r0 := w.1.1.toUInt64.toNat; let rows := w.1.2.toUInt64.toNat; let c0 := w.2.1.toUInt64.toNat; let cols := w.2.2.toUInt64.toNat
      head ++ " " ++ joinS ((List.range rows).flatMap fun r => (List.range cols).map fun c => showCx2 (Gen.equalSizeAdjustElemN u r0 c0 r c))
    else head)
]
end Odak.Exec
