import OdakModel.Exec.Proto
import OdakModel.Codec
namespace Odak.Exec
open Odak
/-- split a token list at every separator; a trailing separator closes the last line (no empty tail) -/
def splitAtSep (sep : Int) : List Int → List Int → List (List Int)
  | [], acc => if acc.isEmpty then [] else [acc.reverse]
  | x :: xs, acc => if x = sep then acc.reverse :: splitAtSep sep xs [] else splitAtSep sep xs (x :: acc)

def opsCodec : List (String × Handler) := [
  -- save_level cmin cmax depth v
  ("save_level", fun a => outF [saveLevel (fl (a.getD 0 0)) (fl (a.getD 1 0)) (a.getD 2 0).toNat (fl (a.getD 3 0))]),
  ("save_load_channel", fun a => outI [(saveLoadChannel (a.getD 0 0).toNat : Nat)]),
  -- text round trip: code points of the written text (lines joined by -1 separators: l1 -1 l2 -1 …) -> lines read back, same encoding
  ("text_roundtrip", fun a =>
    let lines : List (List Char) := (splitAtSep (-1) a []).map fun l => l.map fun c => Char.ofNat c.toNat
    let back := readLines (writeLines lines)
    outI ((back.map fun l => (l.map fun c => (c.toNat : Int)) ++ [-1]).flatten)),
  -- copy_file_dst: which path receives the bytes: 0 = source, 1 = destination, 2 = failure
  ("copy_file_wiring", fun _ =>
    let fs : FS := fun p => if p = "S" then some [1, 2, 3] else none
    match copyFile fs "S" "D" with
    | none => "2"
    | some fs' => if fs' "D" = some [1, 2, 3] then "1" else "0")
]
end Odak.Exec
