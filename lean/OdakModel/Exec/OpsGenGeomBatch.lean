import OdakModel.Exec.OpsGenGeom
import OdakModel.Generated.GeometryBatch
/-! Driver operations that evaluate the REGENERATED batched geometry definitions (`Generated/GeometryBatch.lean`) at `Float`.
    A batch arrives as `m k` followed by the `6 m` numbers of the rays and the `9 k` numbers of the triangles.
    `api`: 0 = NumPy, 1 = torch.  Lists are printed as `G c₁ … c_G` (number of groups, group sizes) followed by the numbers. -/
namespace Odak.Exec
open Odak Odak.Gen

def triAt (a : Array Int) (i : Nat) : Tri Float := ⟨v3 a i, v3 a (i + 3), v3 a (i + 6)⟩
def raysAt (a : Array Int) (off m : Nat) : Fin m → Ray Float := fun i => rayAt a (off + 6 * i.val)
def trisAt (a : Array Int) (off k : Nat) : Fin k → Tri Float := fun j => triAt a (off + 9 * j.val)
def natAt (a : Array Int) (i : Nat) : Nat := (a.getD i 0).toNat
def rayF (r : Ray Float) : List Float := [r.o.x, r.o.y, r.o.z, r.d.x, r.d.y, r.d.z]
def hitF (h : Hit Float) : List Float := [h.point.x, h.point.y, h.point.z, h.normal.x, h.normal.y, h.normal.z, h.distance]

/-- run `f` with `NeZero` instances for the two batch sizes (a batch has at least one element) -/
def withBatch (m k : Nat) (f : [NeZero m] → [NeZero k] → String) : String :=
  if hm : m = 0 then "bad-args" else if hk : k = 0 then "bad-args" else
    haveI : NeZero m := ⟨hm⟩; haveI : NeZero k := ⟨hk⟩; f

def pairs (k m : Nat) : List (Fin k × Fin m) := (List.finRange k).flatMap fun j => (List.finRange m).map fun i => (j, i)

def showGroups {β : Type} (g : List (List β)) (f : β → List Float) : String :=
  joinS ([toString g.length] ++ g.map (fun x => toString x.length) ++ (g.flatMap fun x => x.flatMap f).map bits)

def opsGenGeomBatch : List (String × Handler) := [
  -- gb_trinormal k tris -> per triangle: normal(6), centre(3)
  ("gb_trinormal", fun a => let x := a.toArray; let k := natAt x 0
    withBatch k k (outF ((List.finRange k).flatMap fun j =>
      rayF (getTriangleNormalBatchT (trisAt x 1 k) j) ++ (let c := centerOfTriangleBatchT (trisAt x 1 k) j; [c.x, c.y, c.z])))),
  -- gb_surface m k rays tris -> per (j, i): hit(7)
  ("gb_surface", fun a => let x := a.toArray; let m := natAt x 0; let k := natAt x 1
    withBatch m k (outF ((pairs k m).flatMap fun p => hitF (intersectSurfaceBatchT (raysAt x 2 m) (trisAt x (2 + 6 * m) k) p.1 p.2)))),
  -- gb_ontri m k pts(3 k m, [j][i]) tris -> per (j, i): flag
  ("gb_ontri", fun a => let x := a.toArray; let m := natAt x 0; let k := natAt x 1
    withBatch m k (outF ((pairs k m).map fun p =>
      b2i (isOnTriangleBatchT (fun j i => v3 x (2 + 3 * (j.val * m + i.val))) (trisAt x (2 + 3 * k * m) k) p.1 p.2)))),
  -- gb_triangle m k rays tris -> per (j, i): normal(6) flag
  ("gb_triangle", fun a => let x := a.toArray; let m := natAt x 0; let k := natAt x 1
    withBatch m k (outF ((pairs k m).flatMap fun p =>
      rayF (intersectTriangleBatchNormalT (raysAt x 2 m) (trisAt x (2 + 6 * m) k) p.1 p.2) ++
      [b2i (intersectTriangleBatchCheckT (raysAt x 2 m) (trisAt x (2 + 6 * m) k) p.1 p.2)]))),
  -- gb_tri_lists which(0 rays, 1 normals, 2 distances) m k rays tris -> groups
  ("gb_tri_lists", fun a => let x := a.toArray; let w := natAt x 0; let m := natAt x 1; let k := natAt x 2
    withBatch m k (
      if w = 0 then showGroups (intersectTriangleBatchRaysT (raysAt x 3 m) (trisAt x (3 + 6 * m) k)) rayF
      else if w = 1 then showGroups (intersectTriangleBatchNormalsT (raysAt x 3 m) (trisAt x (3 + 6 * m) k)) rayF
      else showGroups (intersectTriangleBatchDistancesT (raysAt x 3 m) (trisAt x (3 + 6 * m) k)) (fun d => [d]))),
  -- gb_rays_surface api m rays tri -> per i: hit(7)
  ("gb_rays_surface", fun a => let x := a.toArray; let m := natAt x 1
    withBatch m m (outF ((List.finRange m).flatMap fun i =>
      hitF (if x.getD 0 0 = 0 then intersectSurfaceRaysN (raysAt x 2 m) (triAt x (2 + 6 * m)) i
            else intersectSurfaceRaysT (raysAt x 2 m) (triAt x (2 + 6 * m)) i)))),
  -- gb_rays_triangle m rays tri -> per i: hit(7) flag ; then the two lists of intersect_w_triangle as one group each
  ("gb_rays_triangle", fun a => let x := a.toArray; let m := natAt x 0
    withBatch m m (
      outF ((List.finRange m).flatMap fun i => hitF (intersectTriangleRaysHitT (raysAt x 1 m) (triAt x (1 + 6 * m)) i) ++
        [b2i (intersectTriangleRaysCheckT (raysAt x 1 m) (triAt x (1 + 6 * m)) i)]) ++ " " ++
      showGroups [intersectTriangleRaysHitRaysT (raysAt x 1 m) (triAt x (1 + 6 * m))] rayF ++ " " ++
      showGroups [intersectTriangleRaysHitNormalsT (raysAt x 1 m) (triAt x (1 + 6 * m))] rayF)),
  -- gb_reflect api n rays normals -> per i: ray(6)
  ("gb_reflect", fun a => let x := a.toArray; let n := natAt x 1
    withBatch n n (outF ((List.finRange n).flatMap fun i =>
      rayF (if x.getD 0 0 = 0 then reflectBatchN (raysAt x 2 n) (raysAt x (2 + 6 * n) n) i
            else reflectBatchT (raysAt x 2 n) (raysAt x (2 + 6 * n) n) i)))),
  -- gb_reflect1 api which(0: n rays, one normal; 1: one ray, n normals) n many(6n) one(6) -> per i: ray(6)
  ("gb_reflect1", fun a => let x := a.toArray; let w := natAt x 1; let n := natAt x 2
    withBatch n n (outF ((List.finRange n).flatMap fun i =>
      rayF (if x.getD 0 0 = 0 then
              (if w = 0 then reflectRaysN (raysAt x 3 n) (rayAt x (3 + 6 * n)) i else reflectNormalsN (rayAt x (3 + 6 * n)) (raysAt x 3 n) i)
            else
              (if w = 0 then reflectRaysT (raysAt x 3 n) (rayAt x (3 + 6 * n)) i else reflectNormalsT (rayAt x (3 + 6 * n)) (raysAt x 3 n) i))))),
  -- gb_mirror m k rays tris -> reflected rays (one group), normals (one group)
  ("gb_mirror", fun a => let x := a.toArray; let m := natAt x 0; let k := natAt x 1
    withBatch m k (let r := mirrorT (raysAt x 2 m) (trisAt x (2 + 6 * m) k)
      showGroups [r.1] rayF ++ " " ++ showGroups [r.2] rayF)),
  -- gb_circle api m rays tri centre radius -> per i: hit(7)
  ("gb_circle", fun a => let x := a.toArray; let m := natAt x 1
    let t := triAt x (2 + 6 * m); let c := v3 x (11 + 6 * m); let r := fl (x.getD (14 + 6 * m) 0)
    withBatch m m (outF ((List.finRange m).flatMap fun i =>
      hitF (if x.getD 0 0 = 0 then intersectCircleRaysN (raysAt x 2 m) t c r i else intersectCircleRaysT (raysAt x 2 m) t c r i)))),
  -- gb_np_triangle ray tri -> flag [hit(7)]
  ("gb_np_triangle", fun a => let x := a.toArray
    match intersectTriangleN (rayAt x 0) (triAt x 6) with
    | none => outF [0.0]
    | some h => outF (1.0 :: hitF h))
]
end Odak.Exec
