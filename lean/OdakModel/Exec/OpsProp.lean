import OdakModel.Exec.OpsWave
import OdakModel.Propagator
import OdakModel.Hologram
namespace Odak.Exec
open Odak

/-- prop_seq back meth h w dx z0 offset nch lam* ndep dist* aperture(2h*2w reals) nops (d c field(2hw))* -/
def propSeq (a : List Int) : String :=
  let x := a.toArray
  let back := x.getD 0 0 != 0
  let meth : PMethod := match x.getD 1 0 with | 0 => .as | 1 => .tf | _ => .bl
  let h := (x.getD 2 0).toNat
  let w := (x.getD 3 0).toNat
  let dx := fl (x.getD 4 0); let z0 := fl (x.getD 5 0); let off := fl (x.getD 6 0)
  let nch := (x.getD 7 0).toNat
  let lams := (List.range nch).map fun i => fl (x.getD (8 + i) 0)
  let p1 := 8 + nch
  let ndep := (x.getD p1 0).toNat
  let dists := (List.range ndep).map fun i => fl (x.getD (p1 + 1 + i) 0)
  let p2 := p1 + 1 + ndep
  let A : CGrid Float (2 * h) (2 * w) := Grid.ofFn fun i j => ⟨fl (x.getD (p2 + i.val * (2 * w) + j.val) 0), 0.0⟩
  let p3 := p2 + 4 * h * w
  let nops := (x.getD p3 0).toNat
  let cfg : PropCfg Float := ⟨back, meth, dx, lams, dists, off, z0⟩
  let kf := kernelFor (2 * h) (2 * w) cfg
  let stride := 2 + 2 * h * w
  let rec go (k : Nat) (s : PState Float (2 * h) (2 * w)) (acc : List String) : List String :=
    match k with
    | 0 => acc.reverse
    | k' + 1 =>
      let idx := nops - k
      let base := p3 + 1 + idx * stride
      let d := (x.getD base 0).toNat
      let c := (x.getD (base + 1) 0).toNat
      let u : CGrid Float h w := readGrid h w x (base + 2)
      let hit := s.generated d c
      let (s', o) := callStep kf A s d c (padGrid u)
      go k' s' ((toString (if hit then 1 else 0) ++ " " ++ showGrid (cropGrid o)) :: acc)
  joinS (go nops PState.init [])

def opsProp : List (String × Handler) := [("prop_seq", propSeq)]
end Odak.Exec

namespace Odak.Exec
open Odak
/-- t_pc meth h w dx lam z field(2hw): zero-pad, propagate with the kernel of the padded size, crop  (zero_padding = [True, False, True]) -/
def padCropOp (a : List Int) : String :=
  let x := a.toArray
  let meth := x.getD 0 0
  let h := (x.getD 1 0).toNat; let w := (x.getD 2 0).toNat
  let dx := fl (x.getD 3 0); let lam := fl (x.getD 4 0); let z := fl (x.getD 5 0)
  let u : CGrid Float h w := readGrid h w x 6
  let up := padGrid u
  let H : CGrid Float (2 * h) (2 * w) := match meth with
    | 0 => asKernel _ _ dx lam z
    | 1 => tfKernel _ _ dx lam (wavenumber lam) z
    | _ => blKernel _ _ dx lam z
  showGrid (cropGrid (customNoAp up H))
def opsHolo : List (String × Handler) := [
  ("t_pc", padCropOp),
  ("quantized_phase", fun a => outF [quantizedPhase (a.getD 0 0).toNat (fl (a.getD 1 0))])
]
end Odak.Exec
