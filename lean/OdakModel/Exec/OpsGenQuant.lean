import OdakModel.Exec.OpsPolar
import OdakModel.Generated.Quantisers
/-! Driver operations that evaluate the REGENERATED SLM quantisers (`Generated/Quantisers.lean`) at `Float`, one sample per line.
    `harness/props/genquantisers.py` compares them with the real functions of /repo. -/
namespace Odak.Exec
open Odak Odak.Gen

def opsGenQuant : List (String × Handler) := [
  -- gq_slm re im range bits A -> pattern(2) level | pattern with illumination A (2) level
  ("gq_slm", fun a => let x := a.toArray
    let u := cxOf x 0; let r := fl (x.getD 2 0); let b := (x.getD 3 0).toNat
    let p := slmPatternN u r b; let q := slmPatternIllumN u r b (fl (x.getD 4 0))
    outF [p.1.re, p.1.im, p.2, q.1.re, q.1.im, q.2]),
  -- gq_quantize x bits l0 l1
  ("gq_quantize", fun a => let x := a.toArray
    outF [quantizeT (fl (x.getD 0 0)) (x.getD 1 0).toNat (fl (x.getD 2 0)) (fl (x.getD 3 0))]),
  -- gq_qphase phase bits
  ("gq_qphase", fun a => let x := a.toArray; outF [quantizedPhaseT (fl (x.getD 0 0)) (x.getD 1 0).toNat]),
  -- gq_adjust native_range working_wavelength native_wavelength
  ("gq_adjust", fun a => let x := a.toArray; outF [adjustSlmRangeN (fl (x.getD 0 0)) (fl (x.getD 1 0)) (fl (x.getD 2 0))])
]
end Odak.Exec
