import OdakModel.Exec.Proto
import OdakModel.Generated.Slicers
/-! Driver operations that evaluate the REGENERATED depth slicers (`Generated/Slicers.lean`) at `Float`, one pixel per line.
    `harness/props/genslicers.py` compares them with the real classes / function of /repo. -/
namespace Odak.Exec
open Odak Odak.Gen

def opsGenSlice : List (String × Handler) := [
  -- gl_plane cls(0 multiplane_loss, 1 perceptual_multiplane_loss) n depth image -> rounded depth, masks[0..n), targets[0..n), focus
  ("gl_plane", fun a => let x := a.toArray
    let n := (x.getD 1 0).toNat; let d := fl (x.getD 2 0); let img : Nat → Float := fun _ => fl (x.getD 3 0)
    let r := List.range n
    if x.getD 0 0 = 0 then
      outF ([planeDepthM d n img] ++ r.map (fun i => planeMaskM d n img i 0) ++ r.map (fun i => planeTargetM d n img i 0) ++
        [focusTargetM d n img 0])
    else
      outF ([planeDepthP d n img] ++ r.map (fun i => planeMaskP d n img i 0) ++ r.map (fun i => planeTargetP d n img i 0) ++
        [focusTargetP d n img 0])),
  -- gl_slice depth image p0 … pk -> masks[0..k), targets[0..k)
  ("gl_slice", fun a => match a with
    | d :: im :: ps =>
      let arr := (ps.map fl).toArray
      let pos : Nat → Float := fun k => arr.getD k 0.0
      let img : Nat → Float := fun _ => fl im
      let r := List.range (sliceTargetTCount arr.size)
      outF (r.map (fun t => sliceMaskT img (fl d) pos arr.size t 0) ++ r.map (fun t => sliceTargetT img (fl d) pos arr.size t 0))
    | _ => "bad-args")
]
end Odak.Exec
