import OdakModel.Exec.Proto
import OdakModel.Generated.Defocus
/-! Driver operations that evaluate the REGENERATED defocus definitions (`Generated/Defocus.lean`) at `Float`.
    `harness/props/gendefocus.py` compares them with `generate_2d_gaussian` and with the targets of the real loss classes.
    `cls`: 0 = multiplane_loss, 1 = perceptual_multiplane_loss. -/
namespace Odak.Exec
open Odak Odak.Gen

def gridOut (n m : Nat) (K : Fin n → Fin m → Float) : List Float :=
  (List.ofFn fun (a : Fin n) => List.ofFn fun (b : Fin m) => K a b).flatten

def opsGenDefocus : List (String × Handler) := [
  -- gd_gauss n m s0 s1 -> the n*m values of generate_2d_gaussian([n, m], [s0, s1]), row by row
  ("gd_gauss", fun a => let x := a.toArray
    let n := (x.getD 0 0).toNat; let m := (x.getD 1 0).toNat
    outF (gridOut n m (gaussian2dT n m (fl (x.getD 2 0)) (fl (x.getD 3 0))))),
  -- gd_blur cls b -> target_blur_size after __init__
  ("gd_blur", fun a => let x := a.toArray
    toString (if x.getD 0 0 = 0 then blurSizeM (x.getD 1 0).toNat else blurSizeP (x.getD 1 0).toNat)),
  -- gd_kernel cls L ratio i j -> sigma0 sigma1 then the L*L values of the kernel handed to conv2d
  ("gd_kernel", fun a => let x := a.toArray
    let L := (x.getD 1 0).toNat; let r := fl (x.getD 2 0); let i := (x.getD 3 0).toNat; let j := (x.getD 4 0).toNat
    if x.getD 0 0 = 0 then
      let s := defocusSigmaM r i j; outF ([s.1, s.2] ++ gridOut L L (defocusKernelM L r i j))
    else
      let s := defocusSigmaP r i j; outF ([s.1, s.2] ++ gridOut L L (defocusKernelP L r i j))),
  -- gd_pixel cls planes L ratio mult i | cacheSum[planes] | mask[planes] | cache[planes][L][L] (taps around the pixel, zero padded)
  --   -> self.targets[i, ch] at the pixel after add_defocus_blur
  ("gd_pixel", fun a => let x := a.toArray
    let planes := (x.getD 1 0).toNat; let L := (x.getD 2 0).toNat
    let r := fl (x.getD 3 0); let mult := fl (x.getD 4 0); let i := (x.getD 5 0).toNat
    let cs : Nat → Float := fun p => fl (x.getD (6 + p) 0)
    let c : Int := ((L - 1) / 2 : Nat)
    let mk : Nat → Int → Int → Float := fun p _ _ => fl (x.getD (6 + planes + p) 0)
    let base := 6 + 2 * planes
    let cache : Nat → Int → Int → Float := fun p dy dx =>
      let row := dy + c; let col := dx + c
      if 0 ≤ row ∧ row < (L : Int) ∧ 0 ≤ col ∧ col < (L : Int) ∧ p < planes then
        fl (x.getD (base + p * L * L + row.toNat * L + col.toNat) 0) else 0.0
    outF [if x.getD 0 0 = 0 then defocusTargetM planes L r mult cs cache mk i else defocusTargetP planes L r mult cs cache mk i])
]
end Odak.Exec
