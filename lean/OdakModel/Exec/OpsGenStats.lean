import OdakModel.Exec.OpsGenState
import OdakModel.StatsTie
/-! Driver ops that RUN the regenerated `__call__` step functions of the gaze-contingent losses ON the regenerated `calc_statsmaps`
    (`OdakModel/Generated/StatsMaps.lean`, composed by `fullOps` / `fullOpsU` of `OdakModel/StatsTie.lean` - the same terms the theorems
    `C17_gen_*_history_independent_full` are about) on abstract tokens, with configuration and device given PER CALL, and print per call the
    attributes AND sub-object attributes stored (`pyramid_maker`, `blurs`, `blurs[i].lod_map`, `periphery_mask`, ...), or `RAISE`.
    `harness/props/genstatsmaps.py` compares that with the attributes the real objects replace. -/
namespace Odak.Exec
open Odak Odak.Gen

abbrev TShape := Nat × Nat × Nat

/-- the numerics of `calc_statsmaps` on tokens: sizes and channel counts behave like the tensors they stand for (a pyramid of `max n 2`
    levels, level k at 1/2^k of the size, one band per orientation), contents are mixed -/
def tokStatsOps : StatsOps Tok Int TShape :=
  let mix : Tok → Int → Tok := fun a k => { a with id := 0, val := a.val * 29 + k }
  { constructPyramid := fun pm x n =>
      let levels := max n 2
      (List.range levels).map fun (k : Nat) =>
        let t : Tok := { id := 0, h := x.h / 2 ^ k, w := x.w / 2 ^ k, c := x.c, val := x.val * 13 + (k : Int) + (pm.n_channels : Int) * 7 }
        { h := if k = 0 then some (mix t 1) else none,
          b := if k + 1 < levels then some ((List.range pm.n_orientations).map fun (o : Nat) => mix t (10 + (o : Int))) else none,
          l := some (mix t 2) },
    anyNan := fun _ => false, sqrt := fun x => mix x 3, fillWhereLt := fun x a b => mix x (a + b), gtScalar := fun x c => mix x (c + 4),
    unsqueeze2 := fun x => x, repeatC := fun x n => { x with c := n }, zerosLike := fun x => { x with id := 0, val := 0 },
    fillWhere := fun x m c => mix x (m.val + c), foveaMask := fun lod s => { id := 0, h := s.1, w := s.2.1, c := s.2.2, val := lod.val + 11 },
    areaHalf := fun x => { x with id := 0, h := x.h / 2, w := x.w / 2, val := x.val + 1 },
    uniformBlur := fun x r => mix x r, ofNat := fun n => (n : Int) * 1000000, divNat := fun r n => r / n,
    synthWith := fun _ pm _ _ n x _ => mix x (n.val + (match pm with | some p => (p.n_channels : Int) | none => -1)) }

def flagAt (x : Array Int) (o : Nat) : Bool := x.getD o 0 != 0

/-- configuration of one call: alpha width distance levels orientations mode l2 radial fullres equi (10 numbers from offset `o`) -/
def mlCfgAt (x : Array Int) (o : Nat) : MetamericLossCfg Int :=
  { alpha := x.getD o 0, real_image_width := x.getD (o + 1) 0, real_viewing_distance := x.getD (o + 2) 0,
    n_pyramid_levels := (x.getD (o + 3) 0).toNat, n_orientations := (x.getD (o + 4) 0).toNat, mode := modeName (x.getD (o + 5) 0),
    use_l2_foveal_loss := flagAt x (o + 6), fovea_weight := 20000000, use_radial_weight := flagAt x (o + 7),
    use_fullres_l0 := flagAt x (o + 8), equi := flagAt x (o + 9) }

/-- the log of one call: what `__call__` stored, then what `calc_statsmaps` and the sub-objects stored (prefixed); `none` when
    `calc_statsmaps` raised -/
def withSubLog (main sub : List String) (pre : String) : Option (List String) :=
  if sub.contains "RAISE" then none else some (main ++ sub.map (pre ++ ·))

def opsGenStats : List (String × Handler) := [
  -- gsm_full_metameric n {device alpha width distance levels orientations mode l2 radial fullres equi image(5) target(5) gaze colorspace visualise}*n
  ("gsm_full_metameric", fun a => let x := a.toArray
    runLog (fun (s : MetamericLossSelf Tok Int Int TShape (MetamericLossStatsSelf Tok Int Int TShape Int × List String)) k =>
      let o := 1 + 24 * k
      let E := fullOps tokOps tokStatsOps (x.getD o 0).toNat
      (metamericLossCallG E (mlCfgAt x (o + 1)) { s with sub := (s.sub.1, []) } (tokAt x (o + 11)) (tokAt x (o + 16)) (x.getD (o + 21) 0)
        (spaceName (x.getD (o + 22) 0)) (flagAt x (o + 23))).bind fun r => (withSubLog r.2.2 r.1.sub.2 "").map fun l => (r.1, l))
      (x.getD 0 0).toNat (MetamericLossSelf.init (MetamericLossStatsSelf.init, []))),
  -- gsm_full_metamermse n {device alpha width distance levels orientations equi image(5) target(5) gaze}*n
  ("gsm_full_metamermse", fun a => let x := a.toArray
    runLog (fun (s : MetamerMSELossSelf Tok Int Int TShape (MetamericLossStatsSelf Tok Int Int TShape Int × List String)) k =>
      let o := 1 + 18 * k
      let E := fullOps tokOps tokStatsOps (x.getD o 0).toNat
      let cfg : MetamericLossCfg Int :=
        { alpha := x.getD (o + 1) 0, real_image_width := x.getD (o + 2) 0, real_viewing_distance := x.getD (o + 3) 0,
          n_pyramid_levels := (x.getD (o + 4) 0).toNat, n_orientations := (x.getD (o + 5) 0).toNat, mode := "quadratic",
          use_l2_foveal_loss := false, fovea_weight := 20000000, use_radial_weight := false, use_fullres_l0 := false, equi := flagAt x (o + 6) }
      let s0 := { s with metameric_loss := s.metameric_loss.map fun i => { i with sub := (i.sub.1, []) } }
      (metamerMSELossCallG E cfg s0 (tokAt x (o + 7)) (tokAt x (o + 12)) (x.getD (o + 17) 0)).bind fun r =>
        (withSubLog r.2.2 ((r.1.metameric_loss.map fun i => i.sub.2).getD []) "metameric_loss.").map fun l => (r.1, l))
      (x.getD 0 0).toNat (MetamerMSELossSelf.init (MetamericLossStatsSelf.init, []))),
  -- gsm_full_uniform n {device pooling levels orientations image(5) target(5) colorspace visualise}*n
  ("gsm_full_uniform", fun a => let x := a.toArray
    runLog (fun (s : MetamericLossUniformSelf Tok Int Int TShape (MetamericLossUniformStatsSelf Tok Int Int TShape Int × List String)) k =>
      let o := 1 + 16 * k
      let E := fullOpsU tokOps tokStatsOps (x.getD o 0).toNat
      let cfg : MetamericLossUniformCfg Int :=
        { pooling_size := (x.getD (o + 1) 0).toNat, n_pyramid_levels := (x.getD (o + 2) 0).toNat, n_orientations := (x.getD (o + 3) 0).toNat }
      (metamericLossUniformCallG E cfg { s with sub := (s.sub.1, []) } (tokAt x (o + 4)) (tokAt x (o + 9)) (spaceName (x.getD (o + 14) 0))
        (flagAt x (o + 15))).bind fun r => (withSubLog r.2.2 r.1.sub.2 "").map fun l => (r.1, l))
      (x.getD 0 0).toNat (MetamericLossUniformSelf.init (MetamericLossUniformStatsSelf.init, []))),
  -- gsm_stats n {device alpha width distance levels orientations mode l2 radial fullres equi image(5) gaze}*n : calc_statsmaps alone
  ("gsm_stats", fun a => let x := a.toArray
    runLog (fun (s : MetamericLossStatsSelf Tok Int Int TShape Int) k =>
      let o := 1 + 17 * k
      let cfg := mlCfgAt x (o + 1)
      (metamericLossCalcStatsmapsFullG tokOps tokStatsOps cfg (x.getD o 0).toNat s (tokAt x (o + 11)) (x.getD (o + 16) 0) cfg.alpha
        cfg.real_image_width cfg.real_viewing_distance cfg.mode false).map fun r => (r.1, r.2.2))
      (x.getD 0 0).toNat MetamericLossStatsSelf.init)
]

end Odak.Exec
