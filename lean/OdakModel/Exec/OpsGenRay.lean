import OdakModel.Exec.OpsGenGeomBatch
import OdakModel.Generated.RayCreate
import OdakModel.Generated.RayCreateBatch
/-! Driver operations that evaluate the REGENERATED ray-creation definitions (`Generated/RayCreate.lean`, `Generated/RayCreateBatch.lean`)
    at `Float`.  A rotation mode travels as its index in `rayModes`. -/
namespace Odak.Exec
open Odak Odak.Gen

def rayModes : List String := ["XYZ", "XZY", "YXZ", "ZXY", "ZYX"]
def grPtsAt (a : Array Int) (off m : Nat) : Fin m → Vec3 Float := fun i => v3 a (off + 3 * i.val)

def opsGenRay : List (String × Handler) := [
  -- gr_create_ray api(0 NumPy, 1 torch) direction(0/1) m pts(3m) abg(3m) -> per ray: ray(6)
  ("gr_create_ray", fun a => let x := a.toArray; let m := natAt x 2
    withBatch m m (outF ((List.finRange m).flatMap fun i =>
      rayF (if x.getD 0 0 = 0 then createRayN (v3 x (3 + 3 * i.val)) (v3 x (3 + 3 * m + 3 * i.val))
            else if x.getD 1 0 = 0 then createRayT (grPtsAt x 3 m) (grPtsAt x (3 + 3 * m) m) i
            else createRayDirectionT (grPtsAt x 3 m) (grPtsAt x (3 + 3 * m) m) i)))),
  -- gr_from_angles batch(0 single-point definition, 1 batch definition) mode anglesZero m points(3m) angles(3) -> per ray: ray(6)
  ("gr_from_angles", fun a => let x := a.toArray; let m := natAt x 3
    let mode := rayModes.getD (natAt x 1) "?"; let z := x.getD 2 0 = 1; let ang := v3 x (4 + 3 * m)
    withBatch m m (outF ((List.finRange m).flatMap fun i =>
      rayF (if x.getD 0 0 = 0 then createRayFromAnglesN (v3 x (4 + 3 * i.val)) ang mode z
            else createRayFromAnglesBatchN (grPtsAt x 4 m) ang mode z i)))),
  -- gr_intersect ray0(6) ray1(6) -> point(3) distances(2)
  ("gr_intersect", fun a => let x := a.toArray
    let r := intersectionOfTwoRaysN (rayAt x 0) (rayAt x 6)
    outF [r.1.x, r.1.y, r.1.z, r.2.1, r.2.2]),
  -- gr_nearest ray0(6) ray1(6) -> c0(3) c1(3)
  ("gr_nearest", fun a => let x := a.toArray
    let r := findNearestPointsN (rayAt x 0) (rayAt x 6)
    outF [r.1.x, r.1.y, r.1.z, r.2.x, r.2.y, r.2.z])
]

end Odak.Exec
