import OdakModel.Num
/-! `Num Float`: the executable instantiation (IEEE double, C libm).  Division by zero and
    `sqrt`/`log` of negatives give inf/NaN exactly as NumPy/torch do; nothing is defaulted. -/
namespace Odak

def roundHalfEvenF (x : Float) : Float :=
  let r := Float.floor x
  let d := x - r
  if d < 0.5 then r
  else if d > 0.5 then r + 1.0
  else if (r / 2.0).floor * 2.0 == r then r else r + 1.0

instance : Num Float where
  zero := 0.0
  one := 1.0
  add := Float.add
  sub := Float.sub
  mul := Float.mul
  div := Float.div
  neg := Float.neg
  lt := fun a b => a < b
  le := fun a b => a ≤ b
  ofNat := Float.ofNat
  ofSci := fun m s e => OfScientific.ofScientific m s e
  pi := 3.141592653589793
  sqrt := Float.sqrt
  sin := Float.sin
  cos := Float.cos
  exp := Float.exp
  log := Float.log
  acos := Float.acos
  floor := Float.floor
  round := roundHalfEvenF
  abs := Float.abs
  atan2 := Float.atan2
  decLt := fun a b => Float.decLt a b
  decLe := fun a b => Float.decLe a b

end Odak
