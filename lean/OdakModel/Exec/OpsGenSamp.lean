import OdakModel.Exec.OpsGenGeom
import OdakModel.Generated.Samplers
/-! Driver operations that evaluate the REGENERATED sample-point and ray generators (`Generated/Samplers.lean`) at `Float`.
    Every operation prints ALL rows of the returned array (row count = the generated `…Count`), three / six numbers per row.
    `harness/props/gensamplers.py` compares them with the real functions of /repo. -/
namespace Odak.Exec
open Odak Odak.Gen

def nat (a : Array Int) (i : Nat) : Nat := (a.getD i 0).toNat
def rowsV (count : Nat) (f : Nat → Vec3 Float) : String := joinS ((List.range count).map fun i => showV (f i))
def rowsR (count : Nat) (f : Nat → Ray Float) : String := joinS ((List.range count).map fun i => showR (f i))
/-- the `k`-th point of a flat list of coordinates that starts at position `base` -/
def ptsAt (a : Array Int) (base : Nat) (k : Nat) : Vec3 Float := v3 a (base + 3 * k)
def flAt (a : Array Int) (base : Nat) (k : Nat) : Float := fl (a.getD (base + k) 0)

def opsGenSamp : List (String × Handler) := [
  -- gs_grid api(0 numpy,1 torch) no0 no1 s0 s1 center(3) angles(3) anglesZero
  ("gs_grid", fun a => let x := a.toArray
    let no0 := nat x 1; let no1 := nat x 2; let s0 := fl (x.getD 3 0); let s1 := fl (x.getD 4 0)
    if x.getD 0 0 = 0 then rowsV (gridSampleNCount no0 no1) (gridSampleN no0 no1 s0 s1 (v3 x 5) (v3 x 8) (x.getD 11 0 != 0))
    else rowsV (gridSampleTCount no0 no1) (gridSampleT no0 no1 s0 s1 (v3 x 5) (v3 x 8))),
  -- gs_box no0 no1 no2 size(3) center(3) angles(3) anglesZero
  ("gs_box", fun a => let x := a.toArray
    let no0 := nat x 0; let no1 := nat x 1; let no2 := nat x 2
    rowsV (boxVolumeSampleNCount no0 no1 no2)
      (boxVolumeSampleN no0 no1 no2 (fl (x.getD 3 0)) (fl (x.getD 4 0)) (fl (x.getD 5 0)) (v3 x 6) (v3 x 9) (x.getD 12 0 != 0))),
  -- gs_circ no0 no1 radius center(3) angles(3) anglesZero
  ("gs_circ", fun a => let x := a.toArray
    let no0 := nat x 0; let no1 := nat x 1
    rowsV (circularSampleNCount no0 no1) (circularSampleN no0 no1 (fl (x.getD 2 0)) (v3 x 3) (v3 x 6) (x.getD 9 0 != 0))),
  -- gs_sphere uniform(0/1) no0 no1 radius center(3) k0 k1
  ("gs_sphere", fun a => let x := a.toArray
    let no0 := nat x 1; let no1 := nat x 2; let r := fl (x.getD 3 0); let k0 := fl (x.getD 7 0); let k1 := fl (x.getD 8 0)
    if x.getD 0 0 = 0 then rowsV (sphereSampleNCount no0 no1) (sphereSampleN no0 no1 r (v3 x 4) k0 k1)
    else rowsV (sphereSampleUniformNCount no0 no1) (sphereSampleUniformN no0 no1 r (v3 x 4) k0 k1)),
  -- gs_pairs m n starts(3m) ends(3n)
  ("gs_pairs", fun a => let x := a.toArray
    let m := nat x 0; let n := nat x 1
    rowsR (allPairsRayTCount m n) (allPairsRayT m (ptsAt x 2) n (ptsAt x (2 + 3 * m)))),
  -- gs_lum_point origin(3) num tilt(3) limit U(num) V(num)
  ("gs_lum_point", fun a => let x := a.toArray
    let num := nat x 3
    rowsR (luminousPointRayTCount num) (luminousPointRayT (v3 x 0) num (v3 x 4) (fl (x.getD 7 0)) (flAt x 8) (flAt x (8 + num)))),
  -- gs_lum_grid center(3) s0 s1 no0 no1 tilt(3) num limit U(N) V(N)   with N = num * no0 * no1
  ("gs_lum_grid", fun a => let x := a.toArray
    let no0 := nat x 5; let no1 := nat x 6; let num := nat x 10
    let cnt := luminousGridRayTCount no0 no1 num
    rowsR cnt (luminousGridRayT (v3 x 0) (fl (x.getD 3 0)) (fl (x.getD 4 0)) no0 no1 (v3 x 7) num (fl (x.getD 11 0))
      (flAt x 12) (flAt x (12 + cnt))))
]
end Odak.Exec
