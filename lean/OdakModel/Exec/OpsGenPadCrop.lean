import OdakModel.Exec.OpsGenColour
import OdakModel.Generated.PadCrop
/-! Driver operation that evaluates the REGENERATED tensor programs of `zero_pad` / `crop_center` (`Generated/PadCrop.lean`) at
    `Float` on whole arrays (any rank / layout the harness sends), so that `harness/props/genpadcrop.py` can compare the
    acceptance flag, the shape and every element with the real functions of `/repo`.
    `pc fn nsize size… rank dims… data…`  ->  `ok rank dims… data…`   (`ok` = 1: Python accepts every store / pad)
    `fn`: 0 / 1 torch zero_pad (default / explicit size), 2 / 3 the same with `method = 'left'`, 4 / 5 torch crop_center,
    6 / 7 NumPy zero_pad, 8 / 9 with `method = 'left aligned'`, 10 / 11 NumPy crop_center. -/
namespace Odak.Exec
open Odak Odak.Tensor

def runPadCropFn (fn : Nat) (size : List Nat) (x : Tensor Float) : Option (Bool × Tensor Float) :=
  match fn with
  | 0 => some (GenPC.torch_zero_pad_default_ok x, GenPC.torch_zero_pad_default x)
  | 1 => some (GenPC.torch_zero_pad_explicit_ok x size, GenPC.torch_zero_pad_explicit x size)
  | 2 => some (GenPC.torch_zero_pad_left_default_ok x, GenPC.torch_zero_pad_left_default x)
  | 3 => some (GenPC.torch_zero_pad_left_explicit_ok x size, GenPC.torch_zero_pad_left_explicit x size)
  | 4 => some (true, GenPC.torch_crop_center_default x)
  | 5 => some (true, GenPC.torch_crop_center_explicit x size)
  | 6 => some (GenPC.np_zero_pad_default_ok x, GenPC.np_zero_pad_default x)
  | 7 => some (GenPC.np_zero_pad_explicit_ok x size, GenPC.np_zero_pad_explicit x size)
  | 8 => some (GenPC.np_zero_pad_left_default_ok x, GenPC.np_zero_pad_left_default x)
  | 9 => some (GenPC.np_zero_pad_left_explicit_ok x size, GenPC.np_zero_pad_left_explicit x size)
  | 10 => some (true, GenPC.np_crop_center_default x)
  | 11 => some (true, GenPC.np_crop_center_explicit x size)
  | _ => none

def opsGenPadCrop : List (String × Handler) := [
  ("pc", fun a => let x := a.toArray
    let fn := (x.getD 0 0).toNat
    let ns := (x.getD 1 0).toNat
    let size := (List.range ns).map (fun k => (x.getD (2 + k) 0).toNat)
    let r := (x.getD (2 + ns) 0).toNat
    let shape := (List.range r).map (fun k => (x.getD (3 + ns + k) 0).toNat)
    let n := prod shape
    let data : Array Float := ((List.range n).map (fun k => fl (x.getD (3 + ns + r + k) 0))).toArray
    match runPadCropFn fn size (tensorOfData shape data) with
    | some (ok, t) => if ok then "1 " ++ showTensor t else "0"
    | none => "bad-args")
]
end Odak.Exec
