import OdakModel.Exec.OpsRay
import OdakModel.Generated.GeometryGen
import OdakModel.Parametric
/-! Driver operations that evaluate the REGENERATED geometry definitions (`Generated/GeometryGen.lean`) and the model of the
    NumPy secant intersector (`OdakModel/Parametric.lean`) at `Float`.  `api`: 0 = NumPy, 1 = torch. -/
namespace Odak.Exec
open Odak Odak.Gen

def rayAt (a : Array Int) (i : Nat) : Ray Float := ⟨v3 a i, v3 a (i + 3)⟩
def showR (r : Ray Float) : String := outF [r.o.x, r.o.y, r.o.z, r.d.x, r.d.y, r.d.z]
def showH (h : Hit Float) : String :=
  outF [h.point.x, h.point.y, h.point.z, h.normal.x, h.normal.y, h.normal.z, h.distance]

/-- the `while eps > error` loop of `refract` over the generated pieces (guard as in `Generated/Loops.lean`) -/
def genRefractLoop (a b err : Float) : Nat → Nat → Float → Float → Option (Float × Nat)
  | 0, _, _, _ => none
  | fuel + 1, it, t, eps => if err < eps then genRefractLoop a b err fuel (it + 1) (refrStepT a b t) (refrEpsT a b t) else some (t, it)

def opsGenGeom : List (String × Handler) := [
  -- gg_refract_run n1 n2 vector(6) normvector(6) error -> status(0 ok,1 flagged,2 no convergence) iters out(6)
  ("gg_refract_run", fun a => let x := a.toArray
    let mu := refrMuT (fl (x.getD 0 0)) (fl (x.getD 1 0))
    let v := rayAt x 2; let n := rayAt x 8; let err := fl (x.getD 14 0)
    let aa := refrA_T mu v n; let bb := refrB_T mu n
    if refrTirT aa bb then "1 0" else
    match genRefractLoop aa bb err 100000 0 (refrStartT aa bb) (refrEps0T err) with
    | none => "2 0"
    | some (t, it) => "0 " ++ toString it ++ " " ++ showR (refrOutT mu t v n)),
  -- gg_trinormal api tri(9)
  ("gg_trinormal", fun a => let x := a.toArray
    showR (if x.getD 0 0 = 0 then getTriangleNormalN (v3 x 1) (v3 x 4) (v3 x 7) else getTriangleNormalT (v3 x 1) (v3 x 4) (v3 x 7))),
  -- gg_surface api ray(6) tri(9)
  ("gg_surface", fun a => let x := a.toArray
    showH (if x.getD 0 0 = 0 then intersectSurfaceN (rayAt x 1) (v3 x 7) (v3 x 10) (v3 x 13)
           else intersectSurfaceT (rayAt x 1) (v3 x 7) (v3 x 10) (v3 x 13))),
  -- gg_ontri api pt(3) tri(9)  -> flag [u v]
  ("gg_ontri", fun a => let x := a.toArray
    if x.getD 0 0 = 0 then outF [b2i (isOnTriangleN (v3 x 1) (v3 x 4) (v3 x 7) (v3 x 10))]
    else let uv := baryUVT (v3 x 1) (v3 x 4) (v3 x 7) (v3 x 10)
      outF [b2i (isOnTriangleT (v3 x 1) (v3 x 4) (v3 x 7) (v3 x 10)), uv.1, uv.2]),
  ("gg_sameside", fun a => let x := a.toArray
    outF [b2i (sameSideN (v3 x 0) (v3 x 3) (v3 x 6) (v3 x 9))]),
  -- gg_reflect api ray(6) normal(6)
  ("gg_reflect", fun a => let x := a.toArray
    showR (if x.getD 0 0 = 0 then reflectN (rayAt x 1) (rayAt x 7) else reflectT (rayAt x 1) (rayAt x 7))),
  -- gg_twopoints api p0 p1
  ("gg_twopoints", fun a => let x := a.toArray
    showR (if x.getD 0 0 = 0 then twoPointsN (v3 x 1) (v3 x 4) else twoPointsT (v3 x 1) (v3 x 4))),
  -- gg_propagate api ray(6) distance
  ("gg_propagate", fun a => let x := a.toArray
    showR (if x.getD 0 0 = 0 then propagateARayN (rayAt x 1) (fl (x.getD 7 0)) else propagateRayT (rayAt x 1) (fl (x.getD 7 0)))),
  -- gg_refract n1 n2 vector(6) normvector(6) t error -> mu a b start tir step eps eps0 out(6)   (step, eps, out at `to = t`)
  ("gg_refract", fun a => let x := a.toArray
    let mu := refrMuT (fl (x.getD 0 0)) (fl (x.getD 1 0))
    let v := rayAt x 2; let n := rayAt x 8; let t := fl (x.getD 14 0)
    let aa := refrA_T mu v n; let bb := refrB_T mu n
    let o := refrOutT mu t v n
    outF [mu, aa, bb, refrStartT aa bb, b2i (refrTirT aa bb), refrStepT aa bb t, refrEpsT aa bb t, refrEps0T (fl (x.getD 15 0)),
          o.o.x, o.o.y, o.o.z, o.d.x, o.d.y, o.d.z]),
  -- gg_circle ray(6) tri(9) centre(3) radius
  ("gg_circle", fun a => let x := a.toArray
    showH (intersectCircleT (rayAt x 0) (v3 x 6) (v3 x 9) (v3 x 12) (v3 x 15) (fl (x.getD 18 0)))),
  ("gg_dist2", fun a => let x := a.toArray; outF [distanceBetweenTwoPointsT (v3 x 0) (v3 x 3)]),
  -- gg_spherefn p(3) c(3) r
  ("gg_spherefn", fun a => let x := a.toArray
    let c := v3 x 3; outF [sphereFunctionN (v3 x 0) c.x c.y c.z (fl (x.getD 6 0))]),
  -- gg_kernel t ray(6) c(3) r   (sphere function as the surface function)
  ("gg_kernel", fun a => let x := a.toArray
    let c := v3 x 7; let r := fl (x.getD 10 0)
    let k := kernelParametricN (fl (x.getD 0 0)) (rayAt x 1) (fun p => sphereFunctionN p c.x c.y c.z r)
    outF [k.1, k.2.x, k.2.y, k.2.z]),
  -- gg_secant d0 d1 e0 e1
  ("gg_secant", fun a => let x := a.toArray
    let u := secantUpdateN (fl (x.getD 0 0)) (fl (x.getD 1 0)) (fl (x.getD 2 0)) (fl (x.getD 3 0))
    outF [u.1.1, u.1.2, u.2.1, u.2.2]),
  -- param_sphere ray(6) c(3) r target limit  -> kind(0 hit,1 limit,2 nan,3 unbound) iters | distance point(3)
  ("param_sphere", fun a => let x := a.toArray
    match intersectSphereWith (rayAt x 0) (v3 x 6) (fl (x.getD 9 0)) (fl (x.getD 10 0)) (x.getD 11 0).toNat with
    | .hit d p k => "0 " ++ toString k ++ " " ++ outF [d, p.x, p.y, p.z]
    | .miss .limit k => "1 " ++ toString k
    | .miss .nan k => "2 " ++ toString k
    | .unbound => "3 0"),
  -- param_defaults -> target limit
  ("param_defaults", fun _ => outF [(parametricTargetErrorN : Float)] ++ " " ++ toString parametricIterLimitN)
]
end Odak.Exec
