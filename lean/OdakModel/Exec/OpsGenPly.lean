import OdakModel.Exec.OpsGenSampMore
import OdakModel.Generated.PlyGen
/-! Driver operations that evaluate the REGENERATED PLY index arithmetic and reader (`Generated/PlyGen.lean`) and print the regenerated
    wiring tables.  `harness/props/genply.py` compares them with what the real functions of /repo write, read and call. -/
namespace Odak.Exec
open Odak Odak.Gen

def showRefs (rows : List (List (Nat × Nat × Nat))) : String :=
  joinS (rows.map fun row => joinS (row.map fun e => s!"{e.1} {e.2.1} {e.2.2}"))
def showFaces (fs : List (List Nat × Nat × Nat × Nat)) : String :=
  joinS (fs.map fun f => joinS (f.1.map toString) ++ s!" {f.2.1} {f.2.2.1} {f.2.2.2}")
def showTable (t : List (String × String)) : String := " ;; ".intercalate (t.map fun p => p.1 ++ " := " ++ p.2)

def opsGenPly : List (String × Handler) := [
  -- gp_points_vertices m n -> 9 ints per vertex row (three element references (i, j, k))
  ("gp_points_vertices", fun a => let x := a.toArray; showRefs (plyPointsVertices (nat x 0) (nat x 1))),
  -- gp_points_faces m n -> 6 ints per face (three vertex indices, three colour columns)
  ("gp_points_faces", fun a => let x := a.toArray; showFaces (plyPointsFaces (nat x 0) (nat x 1))),
  ("gp_write_vertices", fun a => let x := a.toArray; showRefs (plyWriteVertices (nat x 0))),
  ("gp_write_faces", fun a => let x := a.toArray; showFaces (plyWriteFaces (nat x 0))),
  -- gp_read nv nf offset(3) angles(3) vertices(3 nv) faces(3 nf ints) -> 9 floats per triangle
  ("gp_read", fun a => let x := a.toArray
    let nv := nat x 0; let nf := nat x 1
    let faces := (List.range nf).map fun t => [nat x (8 + 3 * nv + 3 * t), nat x (8 + 3 * nv + 3 * t + 1), nat x (8 + 3 * nv + 3 * t + 2)]
    joinS ((plyReadTriangles (v3 x 2) (v3 x 5) (ptsAt x 8) faces).map fun tri => joinS (tri.map showV))),
  ("gp_wiring_ply", fun _ => showTable plyPointsWiring ++ " ## " ++ showTable plyWriteWiring ++ " ## " ++ showTable plyReadWiring),
  ("gp_wiring_file", fun _ => " ## ".intercalate ([saveDictionaryWiring, loadDictionaryWiring, writeToTextFileWiring, listFilesWiring,
    checkDirectoryWiring, expanduserWiring].map showTable))
]
end Odak.Exec
