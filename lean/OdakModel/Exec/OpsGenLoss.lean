import OdakModel.Exec.Proto
import OdakModel.Generated.LossesGen
/-! Driver ops that evaluate, at `Float`, the loss formulas REGENERATED from the Python source
    (`OdakModel/Generated/LossesGen.lean`).  `harness/props/genlosses.py` compares them with the implementation. -/
namespace Odak.Exec
open Odak

/-- `cnt` floats starting at argument `off` -/
def floatsAt (x : Array Int) (off cnt : Nat) : List Float := (List.range cnt).map fun k => fl (x.getD (off + k) 0)

/-- a `[n, c, h, w]` tensor stored row-major from argument `off` -/
def tensor4At (x : Array Int) (off n c h w : Nat) : T4 Float :=
  (List.range n).map fun a => (List.range c).map fun b => (List.range h).map fun i =>
    floatsAt x (off + ((a * c + b) * h + i) * w) w

def opsGenLoss : List (String × Handler) := [
  -- gl_tv h w values  ->  rank-2 definition, rank-4 definition on [[rows]]
  ("gl_tv", fun a => let x := a.toArray
    let h := (x.getD 0 0).toNat; let w := (x.getD 1 0).toNat
    let rows := (List.range h).map fun i => floatsAt x (2 + i * w) w
    outF [Gen.totalVariationLossG rows, Gen.totalVariationLoss4G [[rows]]]),
  -- gl_tv4 n c h w levels values  ->  total variation, multi-scale total variation
  ("gl_tv4", fun a => let x := a.toArray
    let t := tensor4At x 5 (x.getD 0 0).toNat (x.getD 1 0).toNat (x.getD 2 0).toNat (x.getD 3 0).toNat
    outF [Gen.totalVariationLoss4G t, Gen.multiScaleTotalVariationLossG t (x.getD 4 0).toNat]),
  -- gl_wrapped n image.. ground_truth..  ->  mean, sum
  ("gl_wrapped", fun a => let x := a.toArray; let n := (x.getD 0 0).toNat
    outF [Gen.wrappedMseMeanG (floatsAt x 1 n) (floatsAt x (1 + n) n), Gen.wrappedMseSumG (floatsAt x 1 n) (floatsAt x (1 + n) n)]),
  -- gl_multiplane n w0 w1 w2 image.. target.. mask..
  ("gl_multiplane", fun a => let x := a.toArray; let n := (x.getD 0 0).toNat
    outF [Gen.multiplaneLossG (fl (x.getD 1 0)) (fl (x.getD 2 0)) (fl (x.getD 3 0)) (floatsAt x 4 n) (floatsAt x (4 + n) n) (floatsAt x (4 + 2 * n) n)]),
  -- gl_psnr n peak predictions.. targets..
  ("gl_psnr", fun a => let x := a.toArray; let n := (x.getD 0 0).toNat
    outF [Gen.psnrG (floatsAt x 2 n) (floatsAt x (2 + n) n) (fl (x.getD 1 0))]),
  -- gl_hist n c h w bins lo hi frame.. ground_truth..  ->  loss, then the table of the frame
  ("gl_hist", fun a => let x := a.toArray
    let n := (x.getD 0 0).toNat; let c := (x.getD 1 0).toNat; let h := (x.getD 2 0).toNat; let w := (x.getD 3 0).toNat
    let bins := (x.getD 4 0).toNat; let lo := fl (x.getD 5 0); let hi := fl (x.getD 6 0)
    let f := tensor4At x 7 n c h w; let g := tensor4At x (7 + n * c * h * w) n c h w
    outF (Gen.histogramLossG f g bins lo hi :: Tn.flat2 (Gen.histogramTableG f bins lo hi))),
  -- gl_speckle mu m2 ; gl_speckle_loss c.. ; gl_phase_win h w values ; gl_phase_loss e..
  ("gl_speckle", fun a => outF [Gen.speckleWindowG (fl (a.getD 0 0)) (fl (a.getD 1 0))]),
  ("gl_speckle_loss", fun a => outF [Gen.speckleLossG (a.map fl)]),
  ("gl_phase_win", fun a => let x := a.toArray
    let h := (x.getD 0 0).toNat; let w := (x.getD 1 0).toNat
    outF [Gen.phaseGradientWindowG ((List.range h).map fun i => floatsAt x (2 + i * w) w)]),
  ("gl_phase_loss", fun a => outF [Gen.phaseGradientLossG (a.map fl)]),
  -- gl_rbf value epsilon
  ("gl_rbf", fun a => outF [Gen.radialBasisG (fl (a.getD 0 0)) (fl (a.getD 1 0))]),
  -- gl_contrast h w h0 h1 h2 h3 l0 l1 l2 l3 values  ->  weber, michelson (the single value each)
  ("gl_contrast", fun a => let x := a.toArray
    let h := (x.getD 0 0).toNat; let w := (x.getD 1 0).toNat
    let r := fun k => (x.getD (2 + k) 0).toNat
    let img := (List.range h).map fun i => floatsAt x (10 + i * w) w
    outF (Gen.weberContrastG img (r 0) (r 1) (r 2) (r 3) (r 4) (r 5) (r 6) (r 7) ++
          Gen.michelsonContrastG img (r 0) (r 1) (r 2) (r 3) (r 4) (r 5) (r 6) (r 7)))
]

end Odak.Exec
