import OdakModel.Exec.OpsGenGeom
import OdakModel.Cylinder
/-! Driver operations that evaluate the REGENERATED NumPy cylinder routines (`Generated/CylinderGen.lean`) and the secant loop of
    `OdakModel/Parametric.lean` instantiated with them (`OdakModel/Cylinder.lean`) at `Float`.
    `harness/props/gencylinder.py` compares them with the real functions of /repo. -/
namespace Odak.Exec
open Odak Odak.Gen

def cylAt (a : Array Int) (i : Nat) : Cylinder Float := ⟨v3 a i, fl (a.getD (i + 3) 0), v3 a (i + 4)⟩

def opsGenCyl : List (String × Handler) := [
  -- gc_linedist p(3) a(3) b(3)
  ("gc_linedist", fun a => let x := a.toArray; outF [pointToRayDistanceN (v3 x 0) (v3 x 3) (v3 x 6)]),
  -- gc_closest p(3) ray(6)
  ("gc_closest", fun a => let x := a.toArray; showV (closestPointToARayN (v3 x 0) (rayAt x 3))),
  -- gc_cylfn p(3) cyl(7)
  ("gc_cylfn", fun a => let x := a.toArray; outF [cylinderFn (cylAt x 3) (v3 x 0)]),
  -- gc_cylnormal p(3) cyl(7)
  ("gc_cylnormal", fun a => let x := a.toArray; showR (cylinderNormalOf (cylAt x 3) (v3 x 0))),
  -- param_cylinder ray(6) cyl(7) target limit  -> kind(0 hit,1 limit,2 nan,3 unbound) iters | distance point(3) normal(6)
  ("param_cylinder", fun a => let x := a.toArray
    let cyl := cylAt x 6
    match intersectCylinderWith (rayAt x 0) cyl (fl (x.getD 13 0)) (x.getD 14 0).toNat with
    | .hit d p k => "0 " ++ toString k ++ " " ++ outF [d, p.x, p.y, p.z] ++ " " ++ showR (cylinderNormalOf cyl p)
    | .miss .limit k => "1 " ++ toString k
    | .miss .nan k => "2 " ++ toString k
    | .unbound => "3 0"),
  -- cyl_wiring -> the call of intersect_w_cylinder as regenerated (tokens joined by '|')
  ("cyl_wiring", fun _ => "|".intercalate (cylinderIntersectCall ++ ["->"] ++ cylinderIntersectUnpack ++ ["->"] ++ cylinderIntersectReturn))
]
end Odak.Exec
