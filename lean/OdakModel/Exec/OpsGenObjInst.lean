import OdakModel.Exec.OpsGenObj
import OdakModel.Exec.OpsWave
import OdakModel.PropagatorObjectInst
/-! Driver ops that RUN the regenerated object models INSTANTIATED with the grid model (work package 16) at `Float` on real fields: the
    step functions of `Generated/PropagatorObject.lean` over a heap of tensors `Ten Float` with the operations `propOpsGrid` - the very record
    `C06_gen_object_documented_model_every_call_list` is about, at another scalar type.  `harness/props/genobjects_inst.py` compares the
    value of every call of random call lists with the real `odak.learn.wave.propagator`. -/
namespace Odak.Exec
open Odak Odak.Gen

/-- row-major position of an index path in a shape (`none`: out of range) -/
def flatPos : List Nat → List Int → Option Nat
  | [], [] => some 0
  | n :: s, i :: r => if 0 ≤ i ∧ i.toNat < n then (flatPos s r).map fun p => i.toNat * s.foldl (· * ·) 1 + p else none
  | _, _ => none

def tenOfArray (shape : List Nat) (data : Array (Cx Float)) : Ten Float :=
  Ten.ofFn shape fun r => match flatPos shape r with | some p => data.getD p 0 | none => 0

def shapeSize (shape : List Nat) : Nat := shape.foldl (· * ·) 1

/-- a real tensor: one token per element -/
def readRealTen (x : Array Int) (off : Nat) (shape : List Nat) : Ten Float :=
  tenOfArray shape (Array.ofFn (n := shapeSize shape) fun k => (⟨fl (x.getD (off + k.val) 0), 0.0⟩ : Cx Float))
/-- a complex tensor: two tokens per element -/
def readCxTen (x : Array Int) (off : Nat) (shape : List Nat) : Ten Float :=
  tenOfArray shape (Array.ofFn (n := shapeSize shape) fun k => (⟨fl (x.getD (off + 2 * k.val) 0), fl (x.getD (off + 2 * k.val + 1) 0)⟩ : Cx Float))

def showTen (shape : List Nat) (t : Ten Float) : String :=
  outF ((Ten.allIdx shape).flatMap fun r => [(t.el r).re, (t.el r).im])

def gpiPropagation (k : Int) : String :=
  if k = 0 then "Angular Spectrum" else if k = 1 then "Transfer Function Fresnel" else if k = 2 then "Bandlimited Angular Spectrum" else "other"

/-- one call: `(state, heap, text)` and the number of tokens consumed -/
def gpiCall (x : Array Int) (off : Nat) (h w nf nd nch : Nat) (s : PropagatorAttrs (Ten Float) Float) (hp : Heap (Ten Float)) :
    Option (PropagatorAttrs (Ten Float) Float × Heap (Ten Float) × String) × Nat :=
  let kind := x.getD off 0
  let E : PropOps (Ten Float) Float := propOpsGrid
  if kind = 0 then      -- forward: channel depth field
    ((propagatorCallG E s hp (readCxTen x (off + 3) [h, w]) (x.getD (off + 1) 0) (x.getD (off + 2) 0)).map
      fun r => (r.1, r.2.1, showTen [h, w] r.2.2.1), 3 + 2 * h * w)
  else if kind = 1 then -- reconstruct: get_complex amplitude_given [amplitude] phases
    let gc := x.getD (off + 1) 0 != 0
    let ag := x.getD (off + 2) 0 != 0
    let amp : Option (Ten Float) := if ag then some (readRealTen x (off + 3) [nch, h, w]) else none
    let p := off + 3 + (if ag then nch * h * w else 0)
    ((propagatorReconstructG E s hp (readRealTen x p [nf, h, w]) amp true gc).bind fun r =>
      (r.2.1.get r.2.2.1).map fun v => (r.1, r.2.1, showTen [nf, nd, nch, h, w] v), 3 + (if ag then nch * h * w else 0) + nf * h * w)
  else if kind = 2 then -- set_laser_powers with a NEW tensor of the caller
    let al := hp.alloc (readRealTen x (off + 1) [nf, nch])
    ((propagatorSetLaserPowersG E s al.1 al.2).map fun r => (r.1, r.2.1, "-"), 1 + nf * nch)
  else if kind = 3 then -- get_laser_powers
    ((propagatorGetLaserPowersG E s hp).bind fun r => (r.2.1.get r.2.2.1).map fun v => (r.1, r.2.1, showTen [nf, nch] v), 1)
  else                  -- set_aperture: given [aperture]
    let ag := x.getD (off + 1) 0 != 0
    let ap : Option (Ten Float) := if ag then some (readRealTen x (off + 2) [h, w]) else none
    ((propagatorSetApertureG E s hp ap none).map fun r => (r.1, r.2.1, "-"), 2 + (if ag then h * w else 0))

def gpiRun (x : Array Int) (h w nf nd nch : Nat) : Nat → Nat → PropagatorAttrs (Ten Float) Float → Heap (Ten Float) → List String → List String
  | 0, _, _, _, acc => acc.reverse
  | n + 1, off, s, hp, acc =>
    match gpiCall x off h w nf nd nch s hp with
    | (none, _) => ("RAISE" :: acc).reverse
    | (some (s', hp', t), k) => gpiRun x h w nf nd nch n (off + k) s' hp' (t :: acc)

/-- gpi_seq method type propagation h w dx z0 offset volume_depth nch lam*nch nd nf distances_given [dist*nd] powers_given [power*nf*nch]
      aperture_given [aperture*h*w] ncalls {calls}
    ->  per call, separated by `|`: the returned tensor (re im per element, row-major) or `-` -/
def gpiSeq (a : List Int) : String :=
  let x := a.toArray
  let h := (x.getD 3 0).toNat
  let w := (x.getD 4 0).toNat
  let dx := fl (x.getD 5 0); let z0 := fl (x.getD 6 0); let offset := fl (x.getD 7 0); let vd := fl (x.getD 8 0)
  let nch := (x.getD 9 0).toNat
  let lams := (List.range nch).map fun i => fl (x.getD (10 + i) 0)
  let p1 := 10 + nch
  let nd := (x.getD p1 0).toNat
  let nf := (x.getD (p1 + 1) 0).toNat
  let dg := x.getD (p1 + 2) 0 != 0
  let p2 := p1 + 3
  let p3 := p2 + (if dg then nd else 0)
  let pg := x.getD p3 0 != 0
  let p4 := p3 + 1
  let p5 := p4 + (if pg then nf * nch else 0)
  let ag := x.getD p5 0 != 0
  let p6 := p5 + 1
  let p7 := p6 + (if ag then h * w else 0)
  -- the caller's tensors exist before the constructor runs
  let hp0 : Heap (Ten Float) := Heap.empty
  let (hp1, ds) := if dg then (let al := hp0.alloc (readRealTen x p2 [nd]); (al.1, some al.2)) else (hp0, none)
  let (hp2, pw) := if pg then (let al := hp1.alloc (readRealTen x p4 [nf, nch]); (al.1, some al.2)) else (hp1, none)
  let (hp3, ap) := if ag then (let al := hp2.alloc (readRealTen x p6 [h, w]); (al.1, some al.2)) else (hp2, none)
  match propagatorInitG (propOpsGrid : PropOps (Ten Float) Float) PropagatorAttrs.empty hp3 [(h : Int), (w : Int)] lams dx 1 nf nd vd offset
      (gpiPropagation (x.getD 2 0)) (propType (x.getD 1 0)) z0 pw ap none ds [2, 2, 2, 2] (propMethod (x.getD 0 0)) () with
  | none => "RAISE"
  | some r =>
    let ndl := (r.1.number_of_depth_layers.getD 0).toNat
    " | ".intercalate (gpiRun x h w nf ndl nch (x.getD p7 0).toNat (p7 + 1) r.1 r.2.1 [])

def opsGenObjInst : List (String × Handler) := [("gpi_seq", gpiSeq)]

end Odak.Exec
