import OdakModel.Exec.OpsGenObj
import OdakModel.Exec.OpsWave
import OdakModel.PropagatorObjectInst
import OdakModel.LossObjectsInst
import OdakModel.MeshObjectInst
/-! Driver ops that RUN the regenerated object models INSTANTIATED with the grid model (work package 16) at `Float` on real fields: the
    step functions of `Generated/PropagatorObject.lean` over a heap of tensors `Ten Float` with the operations `propOpsGrid` - the very record
    `C06_gen_object_documented_model_every_call_list` is about, at another scalar type.  `harness/props/genobjects_inst.py` compares the
    value of every call of random call lists with the real `odak.learn.wave.propagator`. -/
namespace Odak.Exec
open Odak Odak.Gen

/-- row-major position of an index path in a shape (`none`: out of range) -/
def flatPos : List Nat → List Int → Option Nat
  | [], [] => some 0
  | n :: s, i :: r => if 0 ≤ i ∧ i.toNat < n then (flatPos s r).map fun p => i.toNat * s.foldl (· * ·) 1 + p else none
  | _, _ => none

def tenOfArray (shape : List Nat) (data : Array (Cx Float)) : Ten Float :=
  Ten.ofFn shape fun r => match flatPos shape r with | some p => data.getD p 0 | none => 0

def shapeSize (shape : List Nat) : Nat := shape.foldl (· * ·) 1

/-- a real tensor: one token per element -/
def readRealTen (x : Array Int) (off : Nat) (shape : List Nat) : Ten Float :=
  tenOfArray shape (Array.ofFn (n := shapeSize shape) fun k => (⟨fl (x.getD (off + k.val) 0), 0.0⟩ : Cx Float))
/-- a complex tensor: two tokens per element -/
def readCxTen (x : Array Int) (off : Nat) (shape : List Nat) : Ten Float :=
  tenOfArray shape (Array.ofFn (n := shapeSize shape) fun k => (⟨fl (x.getD (off + 2 * k.val) 0), fl (x.getD (off + 2 * k.val + 1) 0)⟩ : Cx Float))

def showTen (shape : List Nat) (t : Ten Float) : String :=
  outF ((Ten.allIdx shape).flatMap fun r => [(t.el r).re, (t.el r).im])

def gpiPropagation (k : Int) : String :=
  if k = 0 then "Angular Spectrum" else if k = 1 then "Transfer Function Fresnel" else if k = 2 then "Bandlimited Angular Spectrum" else "other"

/-- one call: `(state, heap, text)` and the number of tokens consumed -/
def gpiCall (x : Array Int) (off : Nat) (h w nf nd nch : Nat) (s : PropagatorAttrs (Ten Float) Float) (hp : Heap (Ten Float)) :
    Option (PropagatorAttrs (Ten Float) Float × Heap (Ten Float) × String) × Nat :=
  let kind := x.getD off 0
  let E : PropOps (Ten Float) Float := propOpsGrid
  if kind = 0 then      -- forward: channel depth field
    ((propagatorCallG E s hp (readCxTen x (off + 3) [h, w]) (x.getD (off + 1) 0) (x.getD (off + 2) 0)).map
      fun r => (r.1, r.2.1, showTen [h, w] r.2.2.1), 3 + 2 * h * w)
  else if kind = 1 then -- reconstruct: get_complex amplitude_given [amplitude] phases
    let gc := x.getD (off + 1) 0 != 0
    let ag := x.getD (off + 2) 0 != 0
    let amp : Option (Ten Float) := if ag then some (readRealTen x (off + 3) [nch, h, w]) else none
    let p := off + 3 + (if ag then nch * h * w else 0)
    ((propagatorReconstructG E s hp (readRealTen x p [nf, h, w]) amp true gc).bind fun r =>
      (r.2.1.get r.2.2.1).map fun v => (r.1, r.2.1, showTen [nf, nd, nch, h, w] v), 3 + (if ag then nch * h * w else 0) + nf * h * w)
  else if kind = 2 then -- set_laser_powers with a NEW tensor of the caller
    let al := hp.alloc (readRealTen x (off + 1) [nf, nch])
    ((propagatorSetLaserPowersG E s al.1 al.2).map fun r => (r.1, r.2.1, "-"), 1 + nf * nch)
  else if kind = 3 then -- get_laser_powers
    ((propagatorGetLaserPowersG E s hp).bind fun r => (r.2.1.get r.2.2.1).map fun v => (r.1, r.2.1, showTen [nf, nch] v), 1)
  else                  -- set_aperture: given [aperture]
    let ag := x.getD (off + 1) 0 != 0
    let ap : Option (Ten Float) := if ag then some (readRealTen x (off + 2) [h, w]) else none
    ((propagatorSetApertureG E s hp ap none).map fun r => (r.1, r.2.1, "-"), 2 + (if ag then h * w else 0))

def gpiRun (x : Array Int) (h w nf nd nch : Nat) : Nat → Nat → PropagatorAttrs (Ten Float) Float → Heap (Ten Float) → List String → List String
  | 0, _, _, _, acc => acc.reverse
  | n + 1, off, s, hp, acc =>
    match gpiCall x off h w nf nd nch s hp with
    | (none, _) => ("RAISE" :: acc).reverse
    | (some (s', hp', t), k) => gpiRun x h w nf nd nch n (off + k) s' hp' (t :: acc)

/-- gpi_seq method type propagation h w dx z0 offset volume_depth nch lam*nch nd nf distances_given [dist*nd] powers_given [power*nf*nch]
      aperture_given [aperture*h*w] ncalls {calls}
    ->  per call, separated by `|`: the returned tensor (re im per element, row-major) or `-` -/
def gpiSeq (a : List Int) : String :=
  let x := a.toArray
  let h := (x.getD 3 0).toNat
  let w := (x.getD 4 0).toNat
  let dx := fl (x.getD 5 0); let z0 := fl (x.getD 6 0); let offset := fl (x.getD 7 0); let vd := fl (x.getD 8 0)
  let nch := (x.getD 9 0).toNat
  let lams := (List.range nch).map fun i => fl (x.getD (10 + i) 0)
  let p1 := 10 + nch
  let nd := (x.getD p1 0).toNat
  let nf := (x.getD (p1 + 1) 0).toNat
  let dg := x.getD (p1 + 2) 0 != 0
  let p2 := p1 + 3
  let p3 := p2 + (if dg then nd else 0)
  let pg := x.getD p3 0 != 0
  let p4 := p3 + 1
  let p5 := p4 + (if pg then nf * nch else 0)
  let ag := x.getD p5 0 != 0
  let p6 := p5 + 1
  let p7 := p6 + (if ag then h * w else 0)
  -- the caller's tensors exist before the constructor runs
  let hp0 : Heap (Ten Float) := Heap.empty
  let (hp1, ds) := if dg then (let al := hp0.alloc (readRealTen x p2 [nd]); (al.1, some al.2)) else (hp0, none)
  let (hp2, pw) := if pg then (let al := hp1.alloc (readRealTen x p4 [nf, nch]); (al.1, some al.2)) else (hp1, none)
  let (hp3, ap) := if ag then (let al := hp2.alloc (readRealTen x p6 [h, w]); (al.1, some al.2)) else (hp2, none)
  match propagatorInitG (propOpsGrid : PropOps (Ten Float) Float) PropagatorAttrs.empty hp3 [(h : Int), (w : Int)] lams dx 1 nf nd vd offset
      (gpiPropagation (x.getD 2 0)) (propType (x.getD 1 0)) z0 pw ap none ds [2, 2, 2, 2] (propMethod (x.getD 0 0)) () with
  | none => "RAISE"
  | some r =>
    let ndl := (r.1.number_of_depth_layers.getD 0).toNat
    " | ".intercalate (gpiRun x h w nf ndl nch (x.getD p7 0).toNat (p7 + 1) r.1 r.2.1 [])

/-! ### `multiplane_loss` with `lossOpsGrid` -/

def gliRun (x : Array Int) (n c h w : Nat) : Nat → Nat → MultiplaneLossAttrs (Ten Float) Float → Heap (Ten Float) → List String → List String
  | 0, _, _, _, acc => acc.reverse
  | k + 1, off, s, hp, acc =>
    let E : LossObjOps (Ten Float) Float := lossOpsGrid
    if x.getD off 0 = 0 then
      match mplGetTargetsG E s hp with
      | none => ("RAISE" :: acc).reverse
      | some r => gliRun x n c h w k (off + 1) r.1 r.2.1
          ((showTen [n, c, h, w] r.2.2.1.1 ++ " ; " ++ showTen [c, h, w] r.2.2.1.2.1 ++ " ; " ++ showTen [h, w] r.2.2.1.2.2) :: acc)
    else
      let plane : Option Int := if x.getD (off + 1) 0 != 0 then some (x.getD (off + 2) 0) else none
      let img := readRealTen x (off + 3) [c, h, w]
      let tgt := readRealTen x (off + 3 + c * h * w) [c, h, w]
      match mplCallG E s hp img tgt plane with
      | none => ("RAISE" :: acc).reverse
      | some r => gliRun x n c h w k (off + 3 + 2 * c * h * w) r.1 r.2.1 (showTen [] r.2.2.1 :: acc)

/-- gli_seq defocus planes blur_size blur_ratio multiplier c h w image*chw depth*hw ncalls {0 | 1 plane_given plane image*chw target*chw}
    ->  per call, separated by `|`: `targets ; focus_target ; depth` or the loss -/
def gliSeq (a : List Int) : String :=
  let x := a.toArray
  let n := (x.getD 1 0).toNat
  let c := (x.getD 5 0).toNat; let h := (x.getD 6 0).toNat; let w := (x.getD 7 0).toNat
  let hp0 : Heap (Ten Float) := ⟨[readRealTen x 8 [c, h, w], readRealTen x (8 + c * h * w) [h, w]]⟩
  let p := 8 + c * h * w + h * w
  match mplInitG (lossOpsGrid : LossObjOps (Ten Float) Float) MultiplaneLossAttrs.empty hp0 0 1 (fl (x.getD 3 0)) (x.getD 2 0) (x.getD 1 0)
      [1.0, 2.1, 0.6] (fl (x.getD 4 0)) (if x.getD 0 0 != 0 then "defocus" else "naive") "mean" () with
  | none => "RAISE"
  | some r => " | ".intercalate (gliRun x n c h w (x.getD p 0).toNat (p + 1) r.1 r.2.1 [])

/-! ### `planar_mesh` with `meshOpsGrid` -/

def showRays (t : Ten Float) : String :=
  let cnt := t.shape.headD 0
  toString cnt ++ " " ++ showTen [cnt, 2, 3] t

def gmiRun (x : Array Int) (n0 n1 : Nat) : Nat → Nat → PlanarMeshAttrs (Ten Float) Float → Heap (Ten Float) → List String → List String
  | 0, _, _, _, acc => acc.reverse
  | k + 1, off, s, hp, acc =>
    let E : MeshOps (Ten Float) Float := meshOpsGrid
    let kind := x.getD off 0
    if kind = 0 then
      let m := (x.getD (off + 1) 0).toNat
      match meshMirrorG E s hp (readRealTen x (off + 2) [m, 2, 3]) with
      | none => ("RAISE" :: acc).reverse
      | some r => gmiRun x n0 n1 k (off + 2 + 6 * m) r.1 r.2.1 ((showRays r.2.2.1.1 ++ " ; " ++ showRays r.2.2.1.2) :: acc)
    else if kind = 1 then
      match meshGetTrianglesG E s hp with
      | none => ("RAISE" :: acc).reverse
      | some r => gmiRun x n0 n1 k (off + 1) r.1 r.2.1 (showTen [2 * n0 * n1, 3, 3] r.2.2.1 :: acc)
    else if kind = 2 then
      match meshGetSquaresG E s hp with
      | none => ("RAISE" :: acc).reverse
      | some r => gmiRun x n0 n1 k (off + 1) r.1 r.2.1 (showTen [n0, n1, 3] r.2.2.1 :: acc)
    else      -- an optimiser step: the heights tensor is written in place
      match s.heights with
      | none => ("RAISE" :: acc).reverse
      | some l => gmiRun x n0 n1 k (off + 1 + n0 * n1) s (hp.set l (readRealTen x (off + 1) [n0, n1, 1])) ("-" :: acc)

/-- gmi_seq n0 n1 size*2 angles*3 offset*3 heights_given [heights*n0*n1] ncalls {0 m rays*6m | 1 | 2 | 3 heights*n0*n1}
    ->  per call, separated by `|`: `count rays ; count normals`, the triangles, the squares, or `-` -/
def gmiSeq (a : List Int) : String :=
  let x := a.toArray
  let n0 := (x.getD 0 0).toNat; let n1 := (x.getD 1 0).toNat
  let nm : Ten Float := Ten.ofList [Float.ofNat n0, Float.ofNat n1]
  let hg := x.getD 10 0 != 0
  let hp0 : Heap (Ten Float) := ⟨[readRealTen x 2 [2], nm, readRealTen x 4 [3], readRealTen x 7 [3]] ++ (if hg then [readRealTen x 11 [n0, n1, 1]] else [])⟩
  let p := 11 + (if hg then n0 * n1 else 0)
  match meshInitG (meshOpsGrid : MeshOps (Ten Float) Float) PlanarMeshAttrs.empty hp0 0 1 2 3 () (if hg then some 4 else none) with
  | none => "RAISE"
  | some r => " | ".intercalate (gmiRun x n0 n1 (x.getD p 0).toNat (p + 1) r.1 r.2.1 [])

def opsGenObjInst : List (String × Handler) := [("gpi_seq", gpiSeq), ("gli_seq", gliSeq), ("gmi_seq", gmiSeq)]

end Odak.Exec
