import OdakModel.Exec.Proto
import OdakModel.Foveation
namespace Odak.Exec
open Odak
def opsFovea : List (String × Handler) := [
  -- pooling quadratic alpha ecc eccC dist width viewDist npix  ->  pixels, lod
  ("pooling", fun a => let x := a.toArray
    let px := poolingPixel (x.getD 0 0 != 0) (fl (x.getD 1 0)) (fl (x.getD 2 0)) (fl (x.getD 3 0)) (fl (x.getD 4 0))
      (fl (x.getD 5 0)) (fl (x.getD 6 0)) (x.getD 7 0).toNat
    outF [px, lodOf px])
]
end Odak.Exec
