import OdakModel.Exec.Proto
import OdakModel.Losses
namespace Odak.Exec
open Odak
/-- cache_seq k1 k2 ... : integer keys; output the miss decisions of the keyed cache -/
def cacheSeq (a : List Int) : String :=
  let rec go (s : Option (Int × Int)) (ks : List Int) (acc : List Int) : List Int :=
    match ks with
    | [] => acc.reverse
    | k :: rest => go (cacheStep (fun x => x) s k).1 rest ((if cacheMiss s k then 1 else 0) :: acc)
  outI (go none a [])
def half (xs : Array Int) (i : Nat) : List Float := let n := xs.size / 2; ((List.range n).map fun k => fl (xs.getD (i * n + k) 0))
def opsLoss : List (String × Handler) := [
  ("cache_seq", cacheSeq),
  ("mse", fun a => let x := a.toArray; outF [mse (half x 0) (half x 1)]),
  ("wrapped_mse", fun a => let x := a.toArray; outF [wrappedMse (half x 0) (half x 1)]),
  ("psnr", fun a => outF [psnr (fl (a.getD 0 0)) (fl (a.getD 1 0))]),
  -- tv rows cols values
  ("tv", fun a => let x := a.toArray
    let r := (x.getD 0 0).toNat; let c := (x.getD 1 0).toNat
    outF [tvLoss ((List.range r).map fun i => (List.range c).map fun j => fl (x.getD (2 + i * c + j) 0))])
]
end Odak.Exec
