import OdakModel.Exec.OpsWave
import OdakModel.Propagator
import OdakModel.Generated.Holograms
/-! Driver operations that evaluate the REGENERATED hologram routines (`Generated/Holograms.lean`) at `Float`, with the model's own
    propagation (`torchAS` / `torchTF`, `npAS` / `npTF` / `npIR` of `OdakModel/Propagate.lean`) as the primitive `prop`.
    `meth`: 0 = Angular Spectrum, 1 = Transfer Function Fresnel, 2 = Bandlimited Angular Spectrum (torch) / Impulse Response Fresnel (NumPy). -/
namespace Odak.Exec
open Odak Odak.Gen Odak.Holo

/-- the element function of a materialised grid (zero outside).  Kept out of line: `Fld` is a one-field structure, i.e. a bare closure at run
    time, and a `let` in front of a lambda would be re-evaluated at every element access -/
@[noinline] def fldOfGrid {R C : Nat} (r : CGrid Float R C) : Fld (Cx Float) :=
  ⟨fun i j => if h : i < R then if h' : j < C then r.get ⟨i, h⟩ ⟨j, h'⟩ else 0 else 0⟩

/-- an element function materialised on an `R x C` grid, propagated ONCE, and read back -/
@[noinline] def liftProp (f : (R C : Nat) → CGrid Float R C → CGrid Float R C) (R C : Nat) (u : Fld (Cx Float)) : Fld (Cx Float) :=
  fldOfGrid (f R C (Grid.ofFn fun i j => u.el i.val j.val))

/-- torch `propagate_beam(u, k, z, dx, wavelength, type)` with its DEFAULT `zero_padding = [True, False, True]`: zero-pad, propagate with the
    kernel of the padded size, crop (as `t_pc` of `OpsProp.lean`) -/
def torchProp (meth : Int) (dx lam : Float) : Float → Nat → Nat → Fld (Cx Float) → Fld (Cx Float) := fun z R C u =>
  liftProp (fun R C g =>
    let H : CGrid Float (2 * R) (2 * C) := if meth = 0 then asKernel _ _ dx lam z else if meth = 1 then tfKernel _ _ dx lam (wavenumber lam) z
      else blKernel _ _ dx lam z
    cropGrid (customNoAp (padGrid g) H)) R C u

def npProp (meth : Int) (dx lam : Float) : Float → Nat → Nat → Fld (Cx Float) → Fld (Cx Float) := fun z R C u =>
  liftProp (fun _ _ g => if meth = 0 then npAS g dx lam (wavenumber lam) z else if meth = 1 then npTF g dx lam (wavenumber lam) z
    else npIR g dx lam (wavenumber lam) z) R C u

def readFld (m : Nat) (xs : Array Int) (off : Nat) : Fld (Cx Float) :=
  ⟨fun i j => let p := off + 2 * (i * m + j); ⟨fl (xs.getD p 0), fl (xs.getD (p + 1) 0)⟩⟩
def readRFld (m : Nat) (xs : Array Int) (off : Nat) : Fld Float := ⟨fun i j => fl (xs.getD (off + i * m + j) 0)⟩
def showFld (R C : Nat) (u : Fld (Cx Float)) : String :=
  outF ((List.range R).flatMap fun i => (List.range C).flatMap fun j => let z := u.el i j; [z.re, z.im])
def showRFld (R C : Nat) (u : Fld Float) : String :=
  outF ((List.range R).flatMap fun i => (List.range C).map fun j => u.el i j)

def opsGenHolo : List (String × Handler) := [
  -- gh_gs_torch meth h w dx lam z iterations field(2hw) -> hologram(2hw) reconstruction(2hw)
  ("gh_gs_torch", fun a => let x := a.toArray
    let h := (x.getD 1 0).toNat; let w := (x.getD 2 0).toNat
    let r := gsTorchT (torchProp (x.getD 0 0) (fl (x.getD 3 0)) (fl (x.getD 4 0))) h w (readFld w x 7) (x.getD 6 0).toNat (fl (x.getD 5 0))
    showFld h w r.1 ++ " " ++ showFld h w r.2),
  -- gh_gs_numpy meth h w dx lam z iterations field(2hw) randomPhase(P0*P1) -> rows cols hologram reconstruction
  ("gh_gs_numpy", fun a => let x := a.toArray
    let h := (x.getD 1 0).toNat; let w := (x.getD 2 0).toNat
    let r := gsNumpyN (npProp (x.getD 0 0) (fl (x.getD 3 0)) (fl (x.getD 4 0))) h w (readFld w x 7) (x.getD 6 0).toNat (fl (x.getD 5 0))
      (readRFld (Fld.npZeroPadCols h w) x (7 + 2 * h * w))
    toString (gsNumpyNRows0 h w) ++ " " ++ toString (gsNumpyNCols0 h w) ++ " " ++
      showFld (gsNumpyNRows0 h w) (gsNumpyNCols0 h w) r.1 ++ " " ++ showFld (gsNumpyNRows1 h w) (gsNumpyNCols1 h w) r.2),
  -- gh_gs3d meth planes h w dx lam iterations distances(planes) fields(planes * 2hw) randomPhase(P0*P1) -> rows cols hologram
  ("gh_gs3d", fun a => let x := a.toArray
    let k := (x.getD 1 0).toNat; let h := (x.getD 2 0).toNat; let w := (x.getD 3 0).toNat
    let r := gs3dNumpyN (npProp (x.getD 0 0) (fl (x.getD 4 0)) (fl (x.getD 5 0))) k h w (fun p => readFld w x (7 + k + p * 2 * h * w))
      (x.getD 6 0).toNat (fun p => fl (x.getD (7 + p) 0)) (readRFld (Fld.npZeroPadCols h w) x (7 + k + k * 2 * h * w))
    toString (gs3dNumpyNRows0 k h w) ++ " " ++ toString (gs3dNumpyNCols0 k h w) ++ " " ++
      showFld (gs3dNumpyNRows0 k h w) (gs3dNumpyNCols0 k h w) r),
  -- gh_shift blur meth h w dx lam depth_shift kernel_length sigma phase(hw) -> phase_only(hw)
  ("gh_shift", fun a => let x := a.toArray
    let h := (x.getD 2 0).toNat; let w := (x.getD 3 0).toNat
    let prop := torchProp (x.getD 1 0) (fl (x.getD 4 0)) (fl (x.getD 5 0))
    let d := fl (x.getD 6 0); let lam := fl (x.getD 5 0); let L := (x.getD 7 0).toNat; let s := fl (x.getD 8 0)
    let ph := readRFld w x 9
    showRFld h w (if x.getD 0 0 = 1 then shiftWDoublePhaseT prop h w ph d lam L s else shiftWDoublePhaseNoBlurT prop h w ph d lam L s))
]

end Odak.Exec
