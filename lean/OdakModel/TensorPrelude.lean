import OdakModel.Colour
/-!
  Vocabulary of `Generated/ColourTensors.lean` (the output of `harness/translate/colourtensors.py`): a torch tensor as
  "shape + which element sits at which multi-index", and the tensor operations the colour conversions of
  `odak/learn/perception/color_conversion.py` are written with (`unsqueeze`, `permute`, `transpose`, `reshape`, `flatten`,
  slicing and slice assignment, broadcasting arithmetic, `where`, `matmul`, `sum`, `max` / `min` with indices, `stack`, `cat`,
  `gather`).  Hand-written, Mathlib-free, every definition executable at `Float`.

  The semantics written here are the trusted model of torch (row-major `reshape`, right-aligned broadcasting, `permute` moving
  axis `p[i]` to position `i`, `matmul` contracting the last axis of the left operand with the second-to-last of the right one,
  `max(dim)` returning the FIRST maximal index).  They are validated on every run by the executable tie
  (`harness/props/gencolour.py`: the regenerated definitions evaluated at `Float` on images against the real functions).

  A multi-index outside the shape reads an unspecified element; the theorems only ever read inside.
-/
namespace Odak

structure Tensor (α : Type) where
  shape : List Nat
  get : List Nat → α

namespace Tensor
variable {α β γ : Type}

/-! ### lists of sizes / indices -/

def prod : List Nat → Nat
  | [] => 1
  | s :: ss => s * prod ss

/-- row-major flat position of a multi-index -/
def ravel : List Nat → List Nat → Nat
  | _ :: ss, i :: is => i * prod ss + ravel ss is
  | _, _ => 0

/-- multi-index of a flat position -/
def unravel : List Nat → Nat → List Nat
  | [], _ => []
  | _ :: ss, f => (f / prod ss) :: unravel ss (f % prod ss)

def getAt : List Nat → Nat → Nat
  | [], _ => 0
  | x :: _, 0 => x
  | _ :: xs, n + 1 => getAt xs n

def remAt : List Nat → Nat → List Nat
  | [], _ => []
  | _ :: xs, 0 => xs
  | x :: xs, n + 1 => x :: remAt xs n

def insAt : List Nat → Nat → Nat → List Nat
  | xs, 0, v => v :: xs
  | [], _ + 1, v => [v]
  | x :: xs, n + 1, v => x :: insAt xs n v

def setAt : List Nat → Nat → Nat → List Nat
  | [], _, _ => []
  | _ :: xs, 0, v => v :: xs
  | x :: xs, n + 1, v => x :: setAt xs n v

/-- position of the first occurrence -/
def posOf : List Nat → Nat → Nat
  | [], _ => 0
  | x :: xs, a => if x = a then 0 else posOf xs a + 1

def tabulate : Nat → (Nat → Nat) → List Nat
  | 0, _ => []
  | n + 1, f => tabulate n f ++ [f n]

def takeN : List Nat → Nat → List Nat
  | _, 0 => []
  | [], _ + 1 => []
  | x :: xs, n + 1 => x :: takeN xs n

def dropN : List Nat → Nat → List Nat
  | xs, 0 => xs
  | [], _ + 1 => []
  | _ :: xs, n + 1 => dropN xs n

/-- Python's reading of a possibly negative axis / index for an axis of length `r` -/
def nd (d : Int) (r : Nat) : Nat := if d < 0 then (d + (r : Int)).toNat else d.toNat

/-- the element an operand with an axis of length `d` contributes at output position `i` of that axis (broadcasting) -/
def bsel (d i : Nat) : Nat := if d = 1 then 0 else i

/-- right-aligned broadcast index: the multi-index at which an operand of shape `s` is read for the output multi-index `idx` -/
def bidx (s idx : List Nat) : List Nat :=
  List.zipWith bsel s (dropN idx (idx.length - s.length))

def padL (n : Nat) (s : List Nat) : List Nat := List.replicate (n - s.length) 1 ++ s

/-- length of a broadcast axis -/
def bmax (x y : Nat) : Nat := if x = 1 then y else x

/-- broadcast shape -/
def bshape (a b : List Nat) : List Nat :=
  let n := if a.length < b.length then b.length else a.length
  List.zipWith bmax (padL n a) (padL n b)

def sumTo [Num α] : Nat → (Nat → α) → α
  | 0, _ => Num.ofNat 0
  | n + 1, f => sumTo n f + f n

/-- `max` over positions `0 .. n` -/
def maxFrom [Num α] (f : Nat → α) : Nat → α
  | 0 => f 0
  | n + 1 => Num.maxN (maxFrom f n) (f (n + 1))

def minFrom [Num α] (f : Nat → α) : Nat → α
  | 0 => f 0
  | n + 1 => Num.minN (minFrom f n) (f (n + 1))

/-- first position of the maximum over positions `0 .. n` -/
def argmaxFrom [Num α] (f : Nat → α) : Nat → Nat
  | 0 => 0
  | n + 1 => if maxFrom f n < f (n + 1) then n + 1 else argmaxFrom f n

def argminFrom [Num α] (f : Nat → α) : Nat → Nat
  | 0 => 0
  | n + 1 => if f (n + 1) < minFrom f n then n + 1 else argminFrom f n

/-- the integer held by a float (`.long()` of a non-negative value below `n`): the first `k` with `x < k + 1` -/
def natOf [Num α] (x : α) : Nat → Nat → Nat
  | 0, k => k
  | fuel + 1, k => if x < Num.ofNat (k + 1) then k else natOf x fuel (k + 1)

/-! ### construction -/

def scalar (x : α) : Tensor α := ⟨[], fun _ => x⟩
def full (s : List Nat) (x : α) : Tensor α := ⟨s, fun _ => x⟩
def zeros [Num α] (s : List Nat) : Tensor α := full s (Num.ofNat 0)
def zerosLike [Num α] (t : Tensor α) : Tensor α := full t.shape (Num.ofNat 0)
def onesLike [Num α] (t : Tensor α) : Tensor α := full t.shape (Num.ofNat 1)
/-- nested list literal `torch.tensor([[..], ..])`, given as its shape and its elements in row-major order -/
def ofFlat [Num α] (s : List Nat) (l : List α) : Tensor α := ⟨s, fun idx => l.getD (ravel s idx) (Num.ofNat 0)⟩

def rank (t : Tensor α) : Nat := t.shape.length
/-- `t.shape[d]`, `t.size(d)` -/
def dim (t : Tensor α) (d : Int) : Nat := getAt t.shape (nd d t.shape.length)
def numel (t : Tensor α) : Nat := prod t.shape

/-! ### layout -/

def unsqueeze (t : Tensor α) (d : Int) : Tensor α :=
  let k := nd d (t.shape.length + 1)
  ⟨insAt t.shape k 1, fun idx => t.get (remAt idx k)⟩

def squeeze (t : Tensor α) (d : Int) : Tensor α :=
  let k := nd d t.shape.length
  if getAt t.shape k = 1 then ⟨remAt t.shape k, fun idx => t.get (insAt idx k 0)⟩ else t

/-- `t.permute(p)`: axis `p[i]` of `t` becomes axis `i` -/
def permute (t : Tensor α) (p : List Int) : Tensor α :=
  let pn := p.map (fun d => nd d t.shape.length)
  ⟨pn.map (getAt t.shape), fun idx => t.get (tabulate t.shape.length (fun a => getAt idx (posOf pn a)))⟩

def swapAt (l : List Nat) (a b : Nat) : List Nat := setAt (setAt l a (getAt l b)) b (getAt l a)

def transpose (t : Tensor α) (a b : Int) : Tensor α :=
  let a' := nd a t.shape.length
  let b' := nd b t.shape.length
  ⟨swapAt t.shape a' b', fun idx => t.get (swapAt idx a' b')⟩

/-- `t.reshape(ns)` (row-major; every entry given) -/
def reshape (t : Tensor α) (ns : List Nat) : Tensor α :=
  ⟨ns, fun idx => t.get (unravel t.shape (ravel ns idx))⟩

/-- `t.reshape(pre…, -1, post…)` -/
def reshapeInfer (t : Tensor α) (pre post : List Nat) : Tensor α :=
  t.reshape (pre ++ [prod t.shape / (prod pre * prod post)] ++ post)

/-- `torch.flatten(t, start_dim = a, end_dim = b)` -/
def flatten (t : Tensor α) (a b : Int) : Tensor α :=
  let a' := nd a t.shape.length
  let b' := nd b t.shape.length
  t.reshape (takeN t.shape a' ++ [prod (takeN (dropN t.shape a') (b' + 1 - a'))] ++ dropN t.shape (b' + 1))

/-- `torch.nn.Unflatten(d, sizes)(t)` -/
def unflatten (t : Tensor α) (d : Int) (sizes : List Nat) : Tensor α :=
  let d' := nd d t.shape.length
  t.reshape (takeN t.shape d' ++ sizes ++ dropN t.shape (d' + 1))

/-- integer index `k` on axis `d` (`t[:, k]`, `t[..., k, :, :]`, one output of `unbind`) -/
def select (t : Tensor α) (d k : Int) : Tensor α :=
  let d' := nd d t.shape.length
  let k' := nd k (getAt t.shape d')
  ⟨remAt t.shape d', fun idx => t.get (insAt idx d' k')⟩

/-- slice `lo:hi` on axis `d` -/
def narrow (t : Tensor α) (d : Int) (lo hi : Nat) : Tensor α :=
  let d' := nd d t.shape.length
  let hi' := if getAt t.shape d' < hi then getAt t.shape d' else hi
  ⟨setAt t.shape d' (hi' - lo), fun idx => t.get (setAt idx d' (getAt idx d' + lo))⟩

/-- `t[..., k, ...] = v` (integer index `k` on axis `d`, full slices elsewhere): the new value of `t` -/
def setSelect (t : Tensor α) (d k : Int) (v : Tensor α) : Tensor α :=
  let d' := nd d t.shape.length
  let k' := nd k (getAt t.shape d')
  ⟨t.shape, fun idx =>
    if getAt idx d' = k' then
      (if v.shape = remAt t.shape d' then v.get (remAt idx d') else v.get (bidx v.shape (remAt idx d')))
    else t.get idx⟩

/-! ### element-wise operations with broadcasting -/

def map (f : α → β) (t : Tensor α) : Tensor β := ⟨t.shape, fun idx => f (t.get idx)⟩

/-- binary element-wise operation: right-aligned broadcasting; rank-0 operands (Python scalars, `torch.tensor(1.0)`) are spelled
    out (they agree with the general rule). -/
def zipB (f : α → β → γ) (a : Tensor α) (b : Tensor β) : Tensor γ :=
  if a.shape = [] then ⟨b.shape, fun idx => f (a.get []) (b.get idx)⟩
  else if b.shape = [] then ⟨a.shape, fun idx => f (a.get idx) (b.get [])⟩
  else ⟨bshape a.shape b.shape, fun idx => f (a.get (bidx a.shape idx)) (b.get (bidx b.shape idx))⟩

def add [Num α] (a b : Tensor α) : Tensor α := zipB (· + ·) a b
def sub [Num α] (a b : Tensor α) : Tensor α := zipB (· - ·) a b
def mul [Num α] (a b : Tensor α) : Tensor α := zipB (· * ·) a b
def div [Num α] (a b : Tensor α) : Tensor α := zipB (· / ·) a b
def neg [Num α] (a : Tensor α) : Tensor α := map (fun x => -x) a
/-- `a ** y`, `torch.pow(a, y)` for a non-integer exponent -/
def pow [Num α] (a b : Tensor α) : Tensor α := zipB Num.powPos a b
/-- Python `%` -/
def fmod [Num α] (a b : Tensor α) : Tensor α := zipB Num.fmod a b
def floor [Num α] (a : Tensor α) : Tensor α := map Num.floor a
/-- `.long()` -/
def long [Num α] (a : Tensor α) : Tensor α := map Num.trunc a
/-- `a.clamp(min = lo)` -/
def clampMin [Num α] (a lo : Tensor α) : Tensor α := zipB Num.maxN a lo
def gt [Num α] (a b : Tensor α) : Tensor Bool := zipB (fun x y => decide (y < x)) a b
def lt [Num α] (a b : Tensor α) : Tensor Bool := zipB (fun x y => decide (x < y)) a b
def ge [Num α] (a b : Tensor α) : Tensor Bool := zipB (fun x y => decide (y ≤ x)) a b
def le [Num α] (a b : Tensor α) : Tensor Bool := zipB (fun x y => decide (x ≤ y)) a b
/-- `a == b` (IEEE: false for NaN) -/
def eq [Num α] (a b : Tensor α) : Tensor Bool := zipB (fun x y => decide (x ≤ y ∧ y ≤ x)) a b

/-- `torch.where(c, a, b)` -/
def where_ [Num α] (c : Tensor Bool) (a b : Tensor α) : Tensor α :=
  ⟨bshape c.shape (bshape a.shape b.shape),
   fun idx => Num.select (c.get (bidx c.shape idx)) (a.get (bidx a.shape idx)) (b.get (bidx b.shape idx))⟩

/-! ### contractions and reductions -/

/-- `torch.matmul(a, b)` for operands of rank ≥ 2 (batch axes broadcast) -/
def matmul [Num α] (a b : Tensor α) : Tensor α :=
  let ra := a.shape.length
  let rb := b.shape.length
  let ba := takeN a.shape (ra - 2)
  let bb := takeN b.shape (rb - 2)
  let bs := bshape ba bb
  ⟨bs ++ [getAt a.shape (ra - 2), getAt b.shape (rb - 1)], fun idx =>
    let n := idx.length
    let bi := takeN idx (n - 2)
    sumTo (getAt a.shape (ra - 1)) (fun j =>
      a.get (bidx ba bi ++ [getAt idx (n - 2), j]) * b.get (bidx bb bi ++ [j, getAt idx (n - 1)]))⟩

/-- `torch.sum(t, axis = d)` -/
def sumDim [Num α] (t : Tensor α) (d : Int) : Tensor α :=
  let d' := nd d t.shape.length
  ⟨remAt t.shape d', fun idx => sumTo (getAt t.shape d') (fun j => t.get (insAt idx d' j))⟩

/-- values of `t.max(d)` -/
def maxDim [Num α] (t : Tensor α) (d : Int) : Tensor α :=
  let d' := nd d t.shape.length
  ⟨remAt t.shape d', fun idx => maxFrom (fun j => t.get (insAt idx d' j)) (getAt t.shape d' - 1)⟩

/-- indices of `t.max(d)` -/
def argmaxDim [Num α] (t : Tensor α) (d : Int) : Tensor Nat :=
  let d' := nd d t.shape.length
  ⟨remAt t.shape d', fun idx => argmaxFrom (fun j => t.get (insAt idx d' j)) (getAt t.shape d' - 1)⟩

def minDim [Num α] (t : Tensor α) (d : Int) : Tensor α :=
  let d' := nd d t.shape.length
  ⟨remAt t.shape d', fun idx => minFrom (fun j => t.get (insAt idx d' j)) (getAt t.shape d' - 1)⟩

def argminDim [Num α] (t : Tensor α) (d : Int) : Tensor Nat :=
  let d' := nd d t.shape.length
  ⟨remAt t.shape d', fun idx => argminFrom (fun j => t.get (insAt idx d' j)) (getAt t.shape d' - 1)⟩

/-! ### joining and indexing -/

/-- `torch.stack(ts, dim = d)` -/
def stack [Num α] (ts : List (Tensor α)) (d : Int) : Tensor α :=
  let s := (ts.headD (zeros [])).shape
  let k := nd d (s.length + 1)
  ⟨insAt s k ts.length, fun idx => (ts.getD (getAt idx k) (zeros [])).get (remAt idx k)⟩

def catGet (d : Nat) (idx : List Nat) (dflt : α) : List (Tensor α) → Nat → α
  | [], _ => dflt
  | t :: ts, k => if k < getAt t.shape d then t.get (setAt idx d k) else catGet d idx dflt ts (k - getAt t.shape d)

def catLen (d : Nat) : List (Tensor α) → Nat
  | [] => 0
  | t :: ts => getAt t.shape d + catLen d ts

/-- `torch.cat(ts, d)` -/
def cat [Num α] (ts : List (Tensor α)) (d : Int) : Tensor α :=
  let s := (ts.headD (zeros [])).shape
  let d' := nd d s.length
  ⟨setAt s d' (catLen d' ts), fun idx => catGet d' idx (Num.ofNat 0) ts (getAt idx d')⟩

/-- `torch.gather(t, d, index)` with the index tensor `max` / `min` returned -/
def gatherN (t : Tensor α) (d : Int) (index : Tensor Nat) : Tensor α :=
  let d' := nd d t.shape.length
  ⟨index.shape, fun idx => t.get (setAt idx d' (index.get idx))⟩

/-- `torch.gather(t, d, index)` with an index tensor made by `.long()` from floats -/
def gatherF [Num α] (t : Tensor α) (d : Int) (index : Tensor α) : Tensor α :=
  let d' := nd d t.shape.length
  ⟨index.shape, fun idx => t.get (setAt idx d' (natOf (index.get idx) (getAt t.shape d') 0))⟩

/-! ### pixels -/

/-- the colour at batch `b`, row `i`, column `j` of an `[k x 3 x m x n]` image -/
def pixel4 (t : Tensor α) (b i j : Nat) : Vec3 α := ⟨t.get [b, 0, i, j], t.get [b, 1, i, j], t.get [b, 2, i, j]⟩
/-- the colour at row `i`, column `j` of a channel-first `[3 x m x n]` image -/
def pixel3 (t : Tensor α) (i j : Nat) : Vec3 α := ⟨t.get [0, i, j], t.get [1, i, j], t.get [2, i, j]⟩
/-- the colour at row `i`, column `j` of a channel-last `[m x n x 3]` image -/
def pixelLast (t : Tensor α) (i j : Nat) : Vec3 α := ⟨t.get [i, j, 0], t.get [i, j, 1], t.get [i, j, 2]⟩

end Tensor
end Odak
