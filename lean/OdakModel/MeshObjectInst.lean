import OdakModel.Ten
import OdakModel.LossObjectsInst
import OdakModel.Rotation
import OdakModel.Generated.GeometryBatch
import OdakModel.MeshObjectTie
/-!
  Work package 16: the operations record `MeshOps` of the REGENERATED `planar_mesh` object, INSTANTIATED on tensors `Ten α`:

  * `mirrorLoop` (the loop of `mirror` over the triangles): the REGENERATED batched geometry `Gen.mirrorT` of
    `Generated/GeometryBatch.lean` - triangle after triangle, the rays whose hit flag for that triangle is set, each reflected at its hit
    point - on the rays `[m, 2, 3]` and the triangles `[k, 3, 3]` read from the tensors;
  * `triangulate` (the double loop of `get_triangles`): the two triangles of every cell of the lattice, every corner rotated by the model's
    `rotatePoint` with the REGENERATED mode table of torch `rotate_points` (mode 'XYZ', angles in degrees, origin and offset zero); the
    cells of the last row and column stay zero, as in the source;
  * `cat` along the last axis, `view` (row-major reshape), `unsqueeze(0 / -1)`, `meshgrid(indexing = 'ij')`, `linspace`, `zeros`: layout
    operations on index paths.  `offset` is the documented `[3]` vector (added to every corner).
  No Mathlib.
-/
set_option linter.unusedVariables false
namespace Odak
open Gen
variable {α : Type} [Num α]

namespace Ten

/-- a non-negative scalar as a natural number (`floor`; sizes up to 4096) -/
def natOf (x : α) : Nat := ((List.range 4097).find? fun k => decide (x < Num.ofNat (k + 1))).getD 0

/-- row-major position of an index path -/
def flatOf : List Nat → List Int → Int
  | [], _ => 0
  | _ :: _, [] => 0
  | _ :: s, i :: r => i * ((s.foldl (· * ·) 1 : Nat) : Int) + flatOf s r

/-- the index path at a row-major position -/
def unflat : List Nat → Int → List Int
  | [], _ => []
  | _ :: s, q => let st : Int := ((s.foldl (· * ·) 1 : Nat) : Int)
    (if st = 0 then 0 else q / st) :: unflat s (if st = 0 then 0 else q % st)

/-- `x.view(s)` with at most one `-1` -/
def viewTen (t : Ten α) (s : List Int) : Ten α :=
  let total : Nat := t.shape.foldl (· * ·) 1
  let known : Nat := (s.filter (fun x => decide (0 ≤ x))).foldl (fun (a : Nat) (x : Int) => a * x.toNat) 1
  let ns := s.map fun x => if x < 0 then (if known = 0 then 0 else total / known) else x.toNat
  ofFn ns fun r => t.el (unflat t.shape (flatOf ns r))

/-- `torch.cat(tensors, dim = -1)` -/
def catLast (l : List (Ten α)) : Ten α :=
  let lead := match l with | [] => [] | t :: _ => t.shape.dropLast
  let total := (l.map fun t => t.shape.getLastD 0).foldl (· + ·) 0
  let rec pick : List (Ten α) → List Int → Int → Cx α
    | [], _, _ => 0
    | t :: rest, p, q => let w : Int := ((t.shape.getLastD 0 : Nat) : Int)
      if q < w then t.el (p ++ [q]) else pick rest p (q - w)
  ofFn (lead ++ [total]) fun r => pick l r.dropLast (r.getLastD 0)

def unsqueezeTen (t : Ten α) (k : Int) : Ten α :=
  if k = 0 then ofFn (1 :: t.shape) fun r => t.el r.tail
  else if k = -1 then ofFn (t.shape ++ [1]) fun r => t.el r.dropLast
  else t

def meshgridIJTen (x y : Ten α) : Ten α × Ten α :=
  let s := [x.shape.headD 0, y.shape.headD 0]
  (ofFn s fun r => match r with | [i, _] => x.el [i] | _ => 0, ofFn s fun r => match r with | [_, j] => y.el [j] | _ => 0)

def vecAt (t : Ten α) (p : List Int) : Vec3 α := ⟨(t.el (p ++ [0])).re, (t.el (p ++ [1])).re, (t.el (p ++ [2])).re⟩
/-- ray `i` of an `[m, 2, 3]` tensor -/
def rayAt (t : Ten α) (i : Nat) : Ray α := ⟨vecAt t [(i : Int), 0], vecAt t [(i : Int), 1]⟩
/-- triangle `j` of a `[k, 3, 3]` tensor -/
def triAt (t : Ten α) (j : Nat) : Tri α := ⟨vecAt t [(j : Int), 0], vecAt t [(j : Int), 1], vecAt t [(j : Int), 2]⟩

def comp (v : Vec3 α) (c : Int) : α := if c = 0 then v.x else if c = 1 then v.y else v.z

/-- a list of rays as an `[n, 2, 3]` tensor -/
def tenOfRays (l : List (Ray α)) : Ten α := ofFn [l.length, 2, 3] fun r =>
  match r with
  | [q, a, c] => if 0 ≤ q then match l[q.toNat]? with
      | some ray => ⟨comp (if a = 0 then ray.o else ray.d) c, 0⟩
      | none => 0 else 0
  | _ => 0

/-- the double loop of `get_triangles`: `[2, n0, n1, 3, 3]` -/
def triangulateTen (sq nv av : Ten α) : Ten α :=
  let n0 := natOf (nv.el [0]).re
  let n1 := natOf (nv.el [1]).re
  let ang : Vec3 α := ⟨(av.el [0]).re, (av.el [1]).re, (av.el [2]).re⟩
  let order := (modeOrder torchRotatePointsModes "XYZ").getD []
  let rot : Vec3 α → Vec3 α := fun p => rotatePoint Api.torch order ang Vec3.zero Vec3.zero p
  let pt : Int → Int → Vec3 α := fun i j => vecAt sq [i, j]
  ofFn [2, n0, n1, 3, 3] fun r =>
    match r with
    | [t, i, j, v, c] =>
      if 0 ≤ i ∧ i + 1 < (n0 : Int) ∧ 0 ≤ j ∧ j + 1 < (n1 : Int) then
        let P : Vec3 α :=
          if t = 0 then (if v = 0 then pt (i + 1) j else if v = 1 then pt (i + 1) (j + 1) else pt i (j + 1))
          else (if v = 0 then pt (i + 1) j else if v = 1 then pt i (j + 1) else pt i j)
        ⟨comp (rot P) c, 0⟩
      else 0
    | _ => 0

/-- the loop of `mirror` over the triangles, through the regenerated batched geometry -/
def mirrorLoopTen (rays tris : Ten α) : Ten α × Ten α :=
  match rays.shape.headD 0, tris.shape.headD 0 with
  | m + 1, k + 1 =>
    let L := mirrorT (fun i : Fin (m + 1) => rayAt rays i.val) (fun j : Fin (k + 1) => triAt tris j.val)
    (tenOfRays L.1, tenOfRays L.2)
  | _, _ => (tenOfRays [], tenOfRays [])

end Ten

open Ten in
/-- **the operations of the regenerated `planar_mesh` object, interpreted with the regenerated batched geometry** -/
def meshOpsGrid : MeshOps (Ten α) α :=
  { lit := litNum
    scalar := Ten.real
    int := fun i => Ten.real (Num.int i)
    ofBool := Ten.ofBool
    truthy := Ten.truthy
    rofInt := Num.int
    rtruthy := fun r => !(decide (r ≤ 0 ∧ 0 ≤ r))
    radd := (· + ·), rsub := (· - ·), rmul := (· * ·), rdiv := (· / ·), rneg := fun a => -a
    add := Ten.zipB (· + ·), sub := Ten.zipB (· - ·), mul := Ten.zipB (· * ·), div := Ten.zipB Ten.cdiv, neg := Ten.map (fun z => -z)
    powInt := fun a n => Ten.map (fun z => Ten.cpow z n) a
    getIdx := Ten.getIdx, setIdx := Ten.setIdx, dim := Ten.dim, rank := Ten.rank
    toInt := fun t => (Ten.natOf t.val.re : Int)
    zerosT := fun l => Ten.zeros (l.map fun t => Ten.natOf t.val.re)
    linspaceT := fun a b n => Ten.ofFn [Ten.natOf n.val.re] fun r =>
      match r with
      | [i] => ⟨Odak.linspace a.val.re b.val.re (Ten.natOf n.val.re) i.toNat, 0⟩
      | _ => 0
    meshgridIJ := Ten.meshgridIJTen
    unsqueeze := Ten.unsqueezeTen
    view := Ten.viewTen
    cat := fun l _ => Ten.catLast l
    triangulate := Ten.triangulateTen
    mirrorLoop := Ten.mirrorLoopTen }

end Odak
