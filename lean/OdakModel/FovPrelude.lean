import OdakModel.Foveation
import OdakModel.Kernels
import OdakModel.Index
/-!
  Vocabulary of `Generated/FoveationGen.lean` (the output of `harness/translate/foveation.py`): the few notions of
  `odak/learn/perception/{foveation,radially_varying_blur,spatial_steerable_pyramid}.py` that the scalar class has no word for.
  Hand-written, Mathlib-free.

  * `Num.log2`   – `torch.log2`, written with the class's natural logarithm.
  * `Num.clamp`  – `torch.clamp(x, min = lo, max = hi)` = `min(max(x, lo), hi)`.
  * `Num.tfmod`  – `torch.fmod(x, r)`: the C `fmod`, remainder of the division TRUNCATED toward zero (Python's `%` on floats,
                   `Num.fmod`, rounds toward minus infinity instead; they agree for non-negative `x` and positive `r`).
  * `gridMax`    – `torch.max(t)` of a two-dimensional tensor given by its element function.
  * `Index.padAxis` – one axis of a pad call in a given mode (`ReflectionPad2d` / `F.pad(mode = 'reflect')`,
                   `ZeroPad2d` / `F.pad(mode = 'constant')`); `Index.keepAxis` – the axis of an image that is returned as it is.
-/
namespace Odak

namespace Num
variable {α : Type} [Num α]

def log2 (x : α) : α := Num.log x / Num.log Num.two
def clamp (x lo hi : α) : α := Num.minN (Num.maxN x lo) hi
def tfmod (x r : α) : α := x - r * Num.trunc (x / r)

end Num

variable {α : Type} [Num α]

/-- left fold of `max` over a list, starting from its first element (`0` for the empty list) -/
def maxL : List α → α
  | [] => 0
  | x :: xs => xs.foldl Num.maxN x

/-- `torch.max` over an `n × m` tensor whose element `[i, j]` is `f i j` -/
def gridMax (n m : Nat) (f : Nat → Nat → α) : α :=
  maxL ((List.range n).flatMap fun i => (List.range m).map fun j => f i j)

namespace Index

/-- the pad modes the translator knows -/
inductive PadMode where
  | reflect
  | constant
  deriving DecidableEq, Repr

/-- one axis (length `n`) of a pad call with `before` / `after` extra samples -/
def padAxis (mode : PadMode) (n before after : Int) : Bool × AxisMap :=
  match mode with
  | .reflect => reflectAxis n before after
  | .constant => npPadAxis n before after

/-- an axis of length `n` that is handed back unchanged (`return image`) -/
def keepAxis (n : Int) : Bool × AxisMap := (true, { len := n.toNat, src := fun i => some i })

end Index
end Odak
