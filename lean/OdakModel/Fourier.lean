import OdakModel.Grid
/-!
  Discrete Fourier transform as `numpy.fft.fft2` / `torch.fft.fft2` define it (unnormalised forward,
  `1/(nm)` inverse), `fftshift` / `ifftshift` as index permutations.  Naive sums, row pass then
  column pass, each pass materialised.
-/
namespace Odak
variable {α : Type} [Num α]

/-- twiddle factor `exp(s · 2πi k / n)` with `s = -1` (forward) or `+1` (inverse); `k` reduced mod `n` -/
def tw (fwd : Bool) (n k : Nat) : Cx α :=
  let θ : α := Num.two * Num.pi * Num.ofNat (k % n) / Num.ofNat n
  Cx.expi (if fwd then -θ else θ)

namespace CGrid
variable {n m : Nat}

/-- 1-D DFT along the second axis (within each row) -/
def dftRows (fwd : Bool) (g : CGrid α n m) : CGrid α n m :=
  Grid.ofFn fun i l => Cx.sumFin m fun j => tw fwd m (j.val * l.val) * g.get i j

/-- 1-D DFT along the first axis (within each column) -/
def dftCols (fwd : Bool) (g : CGrid α n m) : CGrid α n m :=
  Grid.ofFn fun k l => Cx.sumFin n fun i => tw fwd n (i.val * k.val) * g.get i l

/-- `fft2` -/
def fft2 (g : CGrid α n m) : CGrid α n m := dftCols true (dftRows true g)

/-- `ifft2` (`1/(n m)` normalisation) -/
def ifft2 (g : CGrid α n m) : CGrid α n m :=
  Grid.map (fun z => Cx.divR z (Num.ofNat (n * m))) (dftCols false (dftRows false g))

/-- `fftshift`: `out[i] = in[(i - n/2) mod n]` on both axes -/
def fftshift {β : Type} (g : Grid β n m) : Grid β n m :=
  Grid.ofFn fun i j =>
    g.get ⟨(i.val + n - n / 2) % n, Nat.mod_lt _ i.pos⟩ ⟨(j.val + m - m / 2) % m, Nat.mod_lt _ j.pos⟩

/-- `ifftshift`: `out[i] = in[(i + n/2) mod n]` on both axes -/
def ifftshift {β : Type} (g : Grid β n m) : Grid β n m :=
  Grid.ofFn fun i j =>
    g.get ⟨(i.val + n / 2) % n, Nat.mod_lt _ i.pos⟩ ⟨(j.val + m / 2) % m, Nat.mod_lt _ j.pos⟩

/-- circular translation by whole pixels (`numpy.roll(u, (s, t), axis=(0, 1))`): `out[i] = in[(i - s) mod n]` -/
def roll {β : Type} (s t : Nat) (g : Grid β n m) : Grid β n m :=
  Grid.ofFn fun i j =>
    g.get ⟨(i.val + n - s % n) % n, Nat.mod_lt _ i.pos⟩ ⟨(j.val + m - t % m) % m, Nat.mod_lt _ j.pos⟩

end CGrid
end Odak
