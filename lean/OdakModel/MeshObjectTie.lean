import OdakModel.Generated.MeshObject
/-!
  Hand-written counterpart of the REGENERATED `planar_mesh` object (`OdakModel/Generated/MeshObject.lean`, written by
  `harness/translate/meshobject.py` from `odak/learn/raytracing/mesh.py`): the values of all attributes of a constructed mesh
  (`MeshObj.toSelf` lists EVERY field of the regenerated structure: triangles cached on `self` stop this file from compiling), the DOCUMENTED
  values of `get_squares`, `get_triangles`, `mirror` as functions of the CURRENT content of the learned heights, and the calls a user (or an
  optimiser) can make.  No Mathlib.
-/
namespace Odak
open Gen
variable {T R : Type} [DecidableEq R]

/-- the value of every attribute of a constructed `planar_mesh`; `angles`, `offset`, `size`, `number_of_meshes` and the learned `heights`
    are the CALLER'S tensors (`.to(device)` keeps the object; an optimiser updates `heights` in place), `X`, `Y` are values computed once -/
structure MeshObj (T : Type) where
  angles : Nat
  offset : Nat
  size : Nat
  number_of_meshes : Nat
  heights : Nat
  X : T
  Y : T

def MeshObj.toSelf (o : MeshObj T) : PlanarMeshAttrs T R :=
  { device := some (), angles := some o.angles, offset := some o.offset, size := some o.size, number_of_meshes := some o.number_of_meshes,
    heights := some o.heights, X := some o.X, Y := some o.Y }

def meshObjFields : List String := ["device", "angles", "offset", "size", "number_of_meshes", "heights", "X", "Y"]

/-- the objects the mesh reads hold these contents; the learned heights are an object of their own -/
structure MeshInv (o : MeshObj T) (h : Heap T) (av ov nv : T) : Prop where
  ha : h.get o.angles = some av
  ho : h.get o.offset = some ov
  hn : h.get o.number_of_meshes = some nv
  hh : ∃ hv, h.get o.heights = some hv
  d1 : o.heights ≠ o.angles
  d2 : o.heights ≠ o.offset
  d3 : o.heights ≠ o.number_of_meshes

def meshSquares (E : MeshOps T R) (o : MeshObj T) (hv : T) : T := E.cat [o.X, o.Y, hv] (-1)

/-- the triangles: computed from the squares of the CURRENT heights on every call -/
def meshTriangles (E : MeshOps T R) (o : MeshObj T) (av ov nv hv : T) : T :=
  E.add (E.view (E.triangulate (meshSquares E o hv) nv av) [-1, 3, 3]) ov

/-- `mirror`: the rays (with a batch axis) bounced off the triangles of the CURRENT heights -/
def meshMirror (E : MeshOps T R) (o : MeshObj T) (av ov nv hv rays : T) : T × T :=
  E.mirrorLoop (if E.rank rays = 2 then E.unsqueeze rays 0 else rays) (meshTriangles E o av ov nv hv)

/-- what `init_heights` stores: the caller's heights (by reference) or a new zero tensor, and the lattice of the current `size` and
    `number_of_meshes` -/
def meshInitHeights (E : MeshOps T R) (sv nv : T) : T × T :=
  let x := E.linspaceT (E.div (E.neg (E.getIdx sv [0])) (E.scalar (E.lit "2.0"))) (E.div (E.getIdx sv [0]) (E.scalar (E.lit "2.0"))) (E.getIdx nv [0])
  let y := E.linspaceT (E.div (E.neg (E.getIdx sv [1])) (E.scalar (E.lit "2.0"))) (E.div (E.getIdx sv [1]) (E.scalar (E.lit "2.0"))) (E.getIdx nv [1])
  (E.unsqueeze (E.meshgridIJ x y).1 (-1), E.unsqueeze (E.meshgridIJ x y).2 (-1))

/-- the calls: the three readers, and `learn v` = an optimiser step writing `v` into the heights tensor IN PLACE -/
inductive MCall (T : Type) where
  | mirror (rays : T)
  | getTriangles
  | getSquares
  | learn (v : T)

inductive MRet (T : Type) where
  | pair (a b : T)
  | one (v : T)
  | unit

/-- one call of the regenerated step functions; the second component of the result: the attributes the call stored -/
def meshStep (E : MeshOps T R) (s : PlanarMeshAttrs T R × Heap T) : MCall T → Option ((PlanarMeshAttrs T R × Heap T) × (MRet T × List String))
  | .mirror rays => (meshMirrorG E s.1 s.2 rays).map fun r => ((r.1, r.2.1), (.pair r.2.2.1.1 r.2.2.1.2, r.2.2.2))
  | .getTriangles => (meshGetTrianglesG E s.1 s.2).map fun r => ((r.1, r.2.1), (.one r.2.2.1, r.2.2.2))
  | .getSquares => (meshGetSquaresG E s.1 s.2).map fun r => ((r.1, r.2.1), (.one r.2.2.1, r.2.2.2))
  | .learn v => s.1.heights.map fun l => ((s.1, s.2.set l v), (.unit, []))

/-- reference semantics: the only state is the CURRENT content of the heights -/
def meshRefStep (E : MeshOps T R) (o : MeshObj T) (av ov nv : T) (hv : T) : MCall T → Option (T × (MRet T × List String))
  | .mirror rays => some (hv, (.pair (meshMirror E o av ov nv hv rays).1 (meshMirror E o av ov nv hv rays).2, []))
  | .getTriangles => some (hv, (.one (meshTriangles E o av ov nv hv), []))
  | .getSquares => some (hv, (.one (meshSquares E o hv), []))
  | .learn v => some (v, (.unit, []))

end Odak
