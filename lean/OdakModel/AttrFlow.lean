/-!
  Checker for the ATTRIBUTE FLOW tables regenerated from a Python class (`OdakModel/Generated/OptimizerAttrs.lean`, written by
  `harness/translate/optattrs.py`): an event trace is a list of (kind, attribute) with kind `read` (the attribute is loaded), `write`
  (assigned unconditionally, at the top level of the call), `cwrite` (assigned under a condition or in a loop), `inplace` (the object it
  holds is written in place), `attrcall` (a method is called on the object it holds).  Hand-written, no Mathlib.
-/
namespace Odak

/-- the attributes a trace assigns (conditionally or not), without repetition -/
def attrsWritten (tr : List (String × String)) : List String :=
  ((tr.filter fun e => e.1 == "write" || e.1 == "cwrite").map (·.2)).eraseDups

/-- kind of the first event that mentions the attribute -/
def firstEvent (tr : List (String × String)) (a : String) : Option String := (tr.find? fun e => e.2 == a).map (·.1)

/-- no attribute that the call assigns is touched (read, written in place, called) before the call has assigned it unconditionally: whatever
    an EARLIER call of the same method left in such an attribute cannot reach this call -/
def noStaleRead (tr : List (String × String)) : Bool := (attrsWritten tr).all fun a => firstEvent tr a == some "write"

/-- the attributes whose objects a trace writes in place, without repetition -/
def attrsInPlace (tr : List (String × String)) : List String := ((tr.filter fun e => e.1 == "inplace").map (·.2)).eraseDups

/-- root attribute of a description `attr:a.b.c` / `local:x` / `f:attr:a` -/
def isAttrOf (a : String) (d : String) : Bool := d == "attr:" ++ a || d.startsWith ("attr:" ++ a ++ ".")

end Odak
