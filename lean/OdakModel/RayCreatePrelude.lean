import OdakModel.GenSamplePrelude
/-!
  Vocabulary of `Generated/RayCreate.lean` / `Generated/RayCreateBatch.lean` (the output of `harness/translate/raycreate.py`): what the
  ray-creation code of odak needs beyond `GenPrelude` / `GenSamplePrelude`.  Hand-written, Mathlib-free.

  * `Num.eqB x c`        – one element of the mask `x == c` (the test `Num.maskEq` uses): `x ≤ c ∧ c ≤ x`; NaN is equal to nothing.
  * `Num.close a b`      – one element of `np.isclose(a, b)` with the DEFAULT tolerances: `|a - b| ≤ 1e-8 + 1e-5 |b|`.
  * `Num.allclose3 x y`  – `np.allclose(x, y)` for two `[3]` arrays.
  * `Num.lstsq32 a0 a1 b` – `np.linalg.lstsq(A, b, rcond=None)[0]` for the `3 x 2` matrix with COLUMNS `a0`, `a1`: the solution of the
    normal equations `AᵀA t = Aᵀb` by Cramer's rule.  That IS the least-squares solution when `A` has full column rank (Gram determinant
    `|a0|²|a1|² - (a0·a1)² ≠ 0`, i.e. `a0`, `a1` not parallel and non-zero); for a rank-deficient `A` NumPy returns the minimum-norm
    solution, which is NOT modelled (the Float evaluation divides by zero there and the theorems carry the guard).  NumPy's routine is
    an external library whose semantics are taken as this parameter (DESIGN.md section 2, item 4); the executable tie compares it with
    `numpy.linalg.lstsq` on every generated non-parallel pair.
-/
namespace Odak
namespace Num
variable {α : Type} [Num α]

def eqB (x c : α) : Bool := decide (x ≤ c ∧ c ≤ x)

def close (a b : α) : Bool := decide (Num.abs (a - b) ≤ Num.ofSci 1 true 8 + Num.ofSci 1 true 5 * Num.abs b)

def allclose3 (x y : Vec3 α) : Bool := close x.x y.x && close x.y y.y && close x.z y.z

def lstsq32 (a0 a1 b : Vec3 α) : α × α :=
  let g00 := Vec3.dot a0 a0
  let g01 := Vec3.dot a0 a1
  let g11 := Vec3.dot a1 a1
  let r0 := Vec3.dot a0 b
  let r1 := Vec3.dot a1 b
  let det := g00 * g11 - g01 * g01
  ((r0 * g11 - g01 * r1) / det, (g00 * r1 - g01 * r0) / det)

end Num
end Odak
