import OdakModel.Codec
import OdakModel.Rotation
/-!
  Hand-written model of the PLY writers / reader of `odak/tools/asset.py` in the terms of property C19 ("triangle meshes written with the
  library's save functions are read back with identical values"): the row-major vertex table of an `m x n` grid, the two triangles of a
  grid cell by their CORNERS, how a stored table is read back.  `Lemmas/GenPly.lean` ties the REGENERATED definitions
  (`Generated/PlyGen.lean`) to these.  `plyFace` / `plyVertexRow` (triangle lists) are in `OdakModel/Codec.lean`.
-/
namespace Odak
variable {α : Type} [Num α]

/-! ### `write_PLY_from_points`: an `m x n` grid of points -/

/-- the row of the vertex table that holds grid point `(i, j)`: row-major, the row stride is the number of COLUMNS `n` -/
def plyGridRow (n i j : Nat) : Nat := i * n + j

/-- the vertex table: grid points in row-major order -/
def plyGridVertices (m n : Nat) : List (Nat × Nat) := (List.range m).flatMap fun i => (List.range n).map fun j => (i, j)

/-- the corners of the two triangles of cell `(i, j)` (`i < m - 1`, `j < n - 1`), as grid points -/
def plyCellCornersA (i j : Nat) : List (Nat × Nat) := [(i + 1, j), (i, j), (i, j + 1)]
def plyCellCornersB (i j : Nat) : List (Nat × Nat) := [(i + 1, j), (i, j + 1), (i + 1, j + 1)]

/-- … and as rows of the vertex table -/
def plyCellFaceA (n i j : Nat) : List Nat := (plyCellCornersA i j).map fun c => plyGridRow n c.1 c.2
def plyCellFaceB (n i j : Nat) : List Nat := (plyCellCornersB i j).map fun c => plyGridRow n c.1 c.2

/-- all cells in row-major order, triangle A then triangle B of each -/
def plyGridCells (m n : Nat) : List (Nat × Nat) := (List.range (m - 1)).flatMap fun i => (List.range (n - 1)).map fun j => (i, j)
def plyGridFaces (m n : Nat) : List (List Nat) := (plyGridCells m n).flatMap fun c => [plyCellFaceA n c.1 c.2, plyCellFaceB n c.1 c.2]

/-! ### what `plyfile` stores and hands back (lossless byte codec: a parameter of C19) -/

/-- the numbers a vertex table stores: row `r` holds the array elements its reference list names -/
def plyStoredRows (A : Nat → Nat → Nat → α) (rows : List (List (Nat × Nat × Nat))) : List (List α) :=
  rows.map fun row => row.map fun e => A e.1 e.2.1 e.2.2

/-- `plydata['vertex'][r].tolist()` as a point -/
def plyRowPoint (rows : List (List α)) (r : Nat) : Vec3 α :=
  ⟨(rows.getD r []).getD 0 0, (rows.getD r []).getD 1 0, (rows.getD r []).getD 2 0⟩

/-- the point an array `A` (`… x 3`) holds at `(i, j)` -/
def plyPoint (A : Nat → Nat → Nat → α) (i j : Nat) : Vec3 α := ⟨A i j 0, A i j 1, A i j 2⟩

end Odak
