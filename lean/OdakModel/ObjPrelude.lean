import OdakModel.StepPrelude
/-!
  Vocabulary of the REGENERATED object models of work package 13 (`OdakModel/Generated/PropagatorObject.lean`, `LossObjects.lean`,
  `MeshObject.lean`, written by `harness/translate/objcore.py` and its clients).  Hand-written, no Mathlib.

  A Python method becomes a STEP FUNCTION in the `Option` monad (`none` = the source raises):

      method E self_ heap_ args = some (self_', heap_', returned value, names of the attributes stored, in order)

  `self_` holds every attribute the class stores anywhere (`none` = unset or None).  Tensors come in two kinds:

  * a VALUE `T`: the anonymous result of an operation (a new Python object nobody else holds; it cannot be changed behind the back of
    whoever receives it);
  * an OBJECT: a location (`Nat`) of the heap.  Attributes that are written in place, handed out by reference or taken over from the
    caller, locals that are written in place or returned after being stored, and the parameters they come from are objects.  `x[i] = v`
    is `heap_.set`, `torch.zeros(..)` / an operation result bound to such a name is `heap_.alloc`, `.clone()` of an object is `alloc`
    of its content, `.detach()` / `.to(device)` / `.float()` / `torch.as_tensor` keep the object.

  A returned location that is `heap_.size` of the heap the call started with is a NEW object; a returned attribute is not.
-/
namespace Odak

/-- the objects that exist: location = position; objects are never freed -/
structure Heap (T : Type) where
  cells : List T

namespace Heap
variable {T : Type}

def empty : Heap T := ⟨[]⟩
def size (h : Heap T) : Nat := h.cells.length
/-- content of an object (`none` = no such object) -/
def get (h : Heap T) (l : Nat) : Option T := h.cells[l]?
/-- in-place write -/
def set (h : Heap T) (l : Nat) (v : T) : Heap T := ⟨h.cells.set l v⟩
/-- a new object holding `v` -/
def alloc (h : Heap T) (v : T) : Heap T × Nat := (⟨h.cells ++ [v]⟩, h.cells.length)

/-- content of an optional object (`None` stays `None`; an object that does not exist raises) -/
def getOpt (h : Heap T) : Option Nat → Option (Option T)
  | none => some none
  | some l => (h.get l).map some

end Heap

end Odak
