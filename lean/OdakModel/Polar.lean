import OdakModel.Cx
/-! Amplitude/phase ⇄ complex, SLM quantisation (`odak/learn/wave/util.py`, `odak/wave/utils.py`,
    `odak/wave/__init__.py`, `odak/learn/tools/matrix.py:quantize`).  The NumPy and torch versions are the
    same formulas, so both are compared with these functions. -/
namespace Odak
variable {α : Type} [Num α]

def calcAmplitude (u : Cx α) : α := Cx.abs u
def calcPhase (u : Cx α) : α := Cx.arg u
/-- `generate_complex_field(amplitude, phase)` with real amplitude -/
def genField (a φ : α) : Cx α := Cx.polar a φ
/-- `set_amplitude(field, amplitude)`: amplitude may be complex, its modulus is used -/
def setAmplitude (u a : Cx α) : Cx α := Cx.polar (Cx.abs a) (Cx.arg u)
/-- NumPy `add_phase(field, new_phase)` -/
def addPhase (u : Cx α) (φ : α) : Cx α := Cx.polar (Cx.abs u) (Cx.arg u + φ)

/-- the integer level of `produce_phase_only_slm_pattern`: `int((phase mod range) / range * 2^bits)` -/
def slmLevel (phase range : α) (bits : Nat) : α :=
  Num.trunc (Num.fmod phase range / range * Num.pow2 bits)
/-- … and the phase-only pattern sample built from it (illumination `A`) -/
def slmPattern (u : Cx α) (range : α) (bits : Nat) (A : α) : Cx α :=
  Cx.polar A (slmLevel (Cx.arg u) range bits * (range / Num.pow2 bits))

/-- torch `quantize(x, bits, limits)`: `int((x - l0)/(l1 - l0) * 2^bits)` -/
def quantize (x : α) (bits : Nat) (l0 l1 : α) : α := Num.trunc ((x - l0) / (l1 - l0) * Num.pow2 bits)

end Odak
