import OdakModel.PipelinesMorePrelude
/-!
  The NumPy propagation routines of `odak/wave/classical.py` that `OdakModel/Propagate.lean` does not cover, hand-written model.
  (`band_extended_angular_spectrum`, `adaptive_sampling_angular_spectrum` need the `finufft` package and are not modelled.)

  * `fraunhofer_inverse`: `fftshift(ifft2(ifftshift(field / dx² / c)))` – parametric in the array `c` (the regenerated
    `Gen.fraunhoferInvCoefN`, the Fraunhofer factor at `|distance|`): linearity in the field holds for every `c`.
  * `rayleigh_sommerfeld` (square `n × n` fields – the only shapes the source accepts): the direct summation
    `result[a, b] = (Σ_i Σ_j field[i, j] · w(a, b, i, j)) · 1/(iλ)`, `w = exp(i k r01) / r01 · (z / r01)`,
    `r01 = sqrt(z² + (x_b - x_j)² + (y_a - y_i)²) · int(z / |z|)`.  The source skips the samples with `field[i, j] == 0`;
    over ℝ that is the same sum.
  * `fraunhofer_equal_size_adjust`: a window `field[r0 : r0 + rows, c0 : c0 + cols]` whose position and size depend on the SHAPE of the
    field and on `(dx, λ, z)` only (`Gen.equalSizeWindowN` has no field argument).
-/
namespace Odak
open CGrid
variable {α : Type} [Num α] {n m : Nat}

def npFraunhoferInverseWith (c u : CGrid α n m) (dx : α) : CGrid α n m :=
  fftshift (ifft2 (ifftshift (CGrid.divC (CGrid.divR u (Num.sq dx)) c)))

/-- sample positions of `rayleigh_sommerfeld`: `linspace(-n dx / 2, n dx / 2, n)` -/
def rsPos (n : Nat) (dx : α) (i : Nat) : α :=
  linspace (((-(Num.ofNat n)) * dx) / (Num.ofNat 2)) (((Num.ofNat n) * dx) / (Num.ofNat 2)) n i

/-- weight of the sample `[i, j]` of the field in the element `[a, b]` of the result -/
def rsWeight (n : Nat) (dx k z : α) (a b i j : Fin n) : Cx α :=
  let r01 : α := (Num.sqrt (((Num.sq z) + (Num.sq ((rsPos n dx b.val) - (rsPos n dx j.val)))) + (Num.sq ((rsPos n dx a.val) - (rsPos n dx i.val))))) *
    (Num.trunc (z / (Num.abs z)))
  Cx.smul (z / r01) (Cx.divR (Cx.expi (k * r01)) r01)

/-- a direct summation with arbitrary weights and a final complex factor -/
def directSum (W : Fin n → Fin n → Fin n → Fin n → Cx α) (c : Cx α) (u : CGrid α n n) : CGrid α n n :=
  Grid.ofFn fun a b => (Cx.sumFin n fun i => Cx.sumFin n fun j => u.get i j * W a b i j) * c

def npRayleighSommerfeld (u : CGrid α n n) (dx lam k z : α) : CGrid α n n :=
  directSum (rsWeight n dx k z) (⟨(0 : α), (-((Num.ofNat 1) / lam))⟩ : Cx α) u

/-- `fraunhofer_equal_size_adjust`: ((first row, number of rows), (first column, number of columns)) of the copied window, as the source
    computes them: `m = (nu dx) / (λ z / dx)`, `px = int(m nu)`, `py = int(m nv)`, `nx = int(nv/2 - px/2)`, `ny = int(nu/2 - py/2)`,
    window `field[nx : nx + px, ny : ny + py]` (`nv` = rows `n`, `nu` = columns `m`).  Note what the source does: the number of ROWS of the
    window, `px`, is computed from the number of COLUMNS `nu`, and the number of columns from the number of rows (the same for square fields). -/
def equalSizeWindow (n m : Nat) (dx lam z : α) : (α × α) × (α × α) :=
  let ratio : α := ((Num.ofNat m) * dx) / ((lam * z) / dx)
  let px : α := Num.trunc (ratio * (Num.ofNat m))
  let py : α := Num.trunc (ratio * (Num.ofNat n))
  ((Num.trunc (((Num.ofNat n) / (Num.ofNat 2)) - (px / (Num.ofNat 2))), px), (Num.trunc (((Num.ofNat m) / (Num.ofNat 2)) - (py / (Num.ofNat 2))), py))

end Odak
