import OdakModel.Hologram
import OdakModel.HoloPrelude
/-!
  Hand-written model of the BODIES of `shift_w_double_phase` (torch) and of NumPy `gerchberg_saxton`, over the field vocabulary of
  `OdakModel/HoloPrelude.lean` and the propagation primitive `prop z R C u` (= `propagate_beam(u, k, z, dx, wavelength, type)` of an
  `R x C` field with the routine's own settings).  The definitions REGENERATED from the source (`Generated/Holograms.lean`) are tied to
  these in `OdakProofs/Lemmas/GenHolograms.lean`; `OdakModel/Hologram.lean` keeps the pieces the first C07 theorems are about
  (`gsTorch`, `shiftFactor`, `doublePhaseOffset`, `checkerLow`), which this file composes.  Mathlib-free.
-/
namespace Odak
open Odak.Holo
variable {α : Type} [Num α] {β : Type}

abbrev Prop' (α : Type) := α → Nat → Nat → Fld (Cx α) → Fld (Cx α)

/-! ### `shift_w_double_phase` -/

/-- the shape the double-phase stage works on: `crop_center(zero_pad(.))` of an `n x m` phase map -/
def dpRows (n m : Nat) : Nat := Fld.torchCropCenterRows (Fld.torchZeroPadRows n m) (Fld.torchZeroPadCols n m)
def dpCols (n m : Nat) : Nat := Fld.torchCropCenterCols (Fld.torchZeroPadRows n m) (Fld.torchZeroPadCols n m)

/-- pad, propagate by the depth shift, crop, multiply by the global phase factor `shiftFactor d λ` of the shift -/
def shiftedField (prop : Prop' α) (n m : Nat) (phase : Fld α) (d lam : α) : Fld (Cx α) :=
  Fld.map (fun x => x * shiftFactor d lam)
    (Fld.torchCropCenter (Fld.torchZeroPadRows n m) (Fld.torchZeroPadCols n m) 0
      (prop d (Fld.torchZeroPadRows n m) (Fld.torchZeroPadCols n m)
        (Fld.torchZeroPad n m 0 (Fld.zip genField (Fld.const (Num.ofNat 1)) phase))))

/-- the optional blur: real and imaginary part convolved separately with the `L x L` Gaussian (`conv2d(padding = 'same')`) -/
def blurredField (R C L : Nat) (sigma : α) (u : Fld (Cx α)) : Fld (Cx α) :=
  Fld.zip (fun x y => (⟨x, y⟩ : Cx α))
    (Fld.blurSame R C L L (Gen.gaussian2dT L L sigma sigma) (Fld.map (fun z => z.re) u))
    (Fld.blurSame R C L L (Gen.gaussian2dT L L sigma sigma) (Fld.map (fun z => z.im) u))

/-- double-phase encoding of an `R x C` complex field: amplitude normalised by its maximum, `offset = arccos(a / amax)`
    (`doublePhaseOffset`), phase minus its mean; pixel `(i, j)` receives `phase - offset` where `checkerLow i j`, else `phase + offset` -/
def doublePhaseEncode (R C : Nat) (u : Fld (Cx α)) : Fld α :=
  let amax := Fld.gridMax R C (Fld.map calcAmplitude u)
  let mean := Fld.gridMean R C (Fld.map calcPhase u)
  ⟨fun i j =>
    let off := doublePhaseOffset (calcAmplitude (u.el i j)) amax
    let pz := calcPhase (u.el i j) - mean
    if checkerLow i j then pz - off else pz + off⟩

/-! ### NumPy `gerchberg_saxton` -/

/-- the padded grid NumPy `gerchberg_saxton` iterates on -/
def gsPadRows (n m : Nat) : Nat := Fld.npZeroPadRows n m
def gsPadCols (n m : Nat) : Nat := Fld.npZeroPadCols n m

/-- the window `[center - orig_shape : center + orig_shape]` of the padded grid, both axes -/
def gsWindow (n m : Nat) (zero : β) (u : Fld β) : Fld β :=
  Fld.window (gsPadRows n m) (gsPadCols n m)
    (((gsPadRows n m / 2) : Int) - ((n / 2) : Int)) (((gsPadRows n m / 2) + (n / 2)) : Int)
    (((gsPadCols n m / 2) : Int) - ((m / 2) : Int)) (((gsPadCols n m / 2) + (m / 2)) : Int) zero u

/-- image-plane constraint: keep the phase, replace the amplitude inside the window by the target amplitude -/
def gsConstrain (n m : Nat) (target : Fld α) (r : Fld (Cx α)) : Fld (Cx α) :=
  Fld.zip genField
    (Fld.storeWindow (gsPadRows n m) (gsPadCols n m)
      (((gsPadRows n m / 2) : Int) - ((n / 2) : Int)) (((gsPadRows n m / 2) + (n / 2)) : Int)
      (((gsPadCols n m / 2) : Int) - ((m / 2) : Int)) (((gsPadCols n m / 2) + (m / 2)) : Int)
      (Fld.map calcAmplitude r) target)
    (Fld.map calcPhase r)

/-- hologram-plane constraint: phase only (`generate_complex_field(1, calculate_phase(.))`), cut to the window, zero-padded again -/
def gsProject (n m : Nat) (h : Fld (Cx α)) : Fld (Cx α) :=
  Fld.npZeroPad
    (Fld.windowLen (gsPadRows n m) (((gsPadRows n m / 2) : Int) - ((n / 2) : Int)) (((gsPadRows n m / 2) + (n / 2)) : Int))
    (Fld.windowLen (gsPadCols n m) (((gsPadCols n m / 2) : Int) - ((m / 2) : Int)) (((gsPadCols n m / 2) + (m / 2)) : Int)) 0
    (gsWindow n m 0 (Fld.map (fun p => genField (Num.ofNat 1) p) (Fld.map calcPhase h)))

/-- one pass of the loop on the padded hologram: forward, image-plane constraint, backward, hologram-plane constraint -/
def gsNumpyPass (prop : Prop' α) (n m : Nat) (target : Fld α) (distance : α) (h : Fld (Cx α)) : Fld (Cx α) :=
  gsProject n m (prop (-distance) (gsPadRows n m) (gsPadCols n m)
    (gsConstrain n m target (prop distance (gsPadRows n m) (gsPadCols n m) h)))

/-- the start value: unit amplitude, zero phase, zero-padded, plus the random phase -/
def gsNumpyStart (n m : Nat) (randomPhase : Fld α) : Fld (Cx α) :=
  Fld.zip addPhase (Fld.npZeroPad n m 0 (Fld.map (fun a => genField a (Num.ofNat 0)) (Fld.const (Num.ofNat 1)))) randomPhase

/-- the padded hologram after `it` passes -/
def gsNumpyPadded (prop : Prop' α) (n m : Nat) (field : Fld (Cx α)) (it : Nat) (distance : α) (randomPhase : Fld α) : Fld (Cx α) :=
  Fld.iterate (gsNumpyPass prop n m (Fld.map calcAmplitude field) distance) it (gsNumpyStart n m randomPhase)

/-- what NumPy `gerchberg_saxton` returns: the window of the padded hologram and the window of its forward propagation -/
def gsNumpy (prop : Prop' α) (n m : Nat) (field : Fld (Cx α)) (it : Nat) (distance : α) (randomPhase : Fld α) :
    Fld (Cx α) × Fld (Cx α) :=
  let h := gsNumpyPadded prop n m field it distance randomPhase
  (gsWindow n m 0 h, gsWindow n m 0 (prop distance (gsPadRows n m) (gsPadCols n m) h))

end Odak
