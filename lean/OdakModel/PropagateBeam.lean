import OdakModel.Stack
/-!
  HAND-WRITTEN model of the compositions around torch `custom`: Fourier-domain padding, the kernel each
  `propagation_type` string selects, `propagate_beam` with its three `zero_padding` flags, the NumPy dispatch, and the
  propagator step including its spatial pad / crop.  The definitions regenerated from the source
  (`OdakModel/Generated/Pipelines.lean`) are proved equal to these in `OdakProofs/Lemmas/GenPipelines.lean`.
-/
namespace Odak
variable {α : Type} [Num α] {n m : Nat}
open CGrid

/-- torch `custom(field, kernel, zero_padding = True, aperture)`: the product `H · U1` is zero-padded to twice the size in the
    Fourier domain before the inverse transform -/
def customPad (u H A : CGrid α n m) : CGrid α (2 * n) (2 * m) :=
  ifft2 (ifftshift (padGrid (mul H (mul (fftshift (fft2 u)) A))))

/-- torch `get_incoherent_angular_spectrum_kernel`: `correlation_2d(H, H) = ifftshift(ifft2(fft2 H · conj(fft2 H)))` of the
    angular-spectrum kernel `H` -/
def incoherentKernel (n m : Nat) (dx lam z : α) : CGrid α n m :=
  let H := asKernel n m dx lam z
  ifftshift (ifft2 (mul (fft2 H) (Grid.map Cx.conj (fft2 H))))

/-- the kernel `get_propagation_kernel` returns for a `propagation_type` string (scale = 1); `none`: the source raises, or
    the separable impulse response, which is not modelled -/
def torchKernel (ptype : String) (n m : Nat) (dx lam z : α) (s0 s1 s2 s3 : Nat) : Option (CGrid α n m) :=
  if ptype = "Angular Spectrum" then some (asKernel n m dx lam z)
  else if ptype = "Bandlimited Angular Spectrum" then some (blKernel n m dx lam z)
  else if ptype = "Transfer Function Fresnel" then some (tfKernel n m dx lam (wavenumber lam) z)
  else if ptype = "Impulse Response Fresnel" then some (irKernel n m dx lam z s0 s1 s2 s3)
  else if ptype = "Incoherent Angular Spectrum" then some (incoherentKernel n m dx lam z)
  else none

/-- torch `propagate_beam` between the optional spatial pad and the optional crop, `zero_padding[1] = False`: every kernel
    method is `custom` with its kernel and the aperture, 'custom' uses the caller's kernel, 'Fraunhofer' has no aperture -/
def torchBeamCore (ptype : String) (u A Kc : CGrid α n m) (dx lam k z : α) (s0 s1 s2 s3 : Nat) : Option (CGrid α n m) :=
  if ptype = "custom" then some (custom u Kc A)
  else if ptype = "Fraunhofer" then some (torchFraunhofer u dx lam k z)
  else (torchKernel ptype n m dx lam z s0 s1 s2 s3).map fun H => custom u H A

/-- … `zero_padding[1] = True` (Fourier-domain padding; 'Fraunhofer' ignores the flag and returns an `n × m` field, which
    this `2n × 2m`-typed definition leaves out) -/
def torchBeamCorePad (ptype : String) (u A Kc : CGrid α n m) (dx lam z : α) (s0 s1 s2 s3 : Nat) :
    Option (CGrid α (2 * n) (2 * m)) :=
  if ptype = "custom" then some (customPad u Kc A)
  else if ptype = "Fraunhofer" then none
  else (torchKernel ptype n m dx lam z s0 s1 s2 s3).map fun H => customPad u H A

/-- NumPy `fraunhofer`: `c · ifftshift(fft2(fftshift u)) · dx²` with
    `c = exp(i k z)/(iλz) · exp(i k/(2z) · (FX² + FY²))`, `fx = linspace(-l2/2, l2/2, nu)`, `l2 = λ z / dx` -/
def npFraunhofer (u : CGrid α n m) (dx lam k z : α) : CGrid α n m :=
  let F := ifftshift (fft2 (fftshift u))
  Grid.ofFn fun i j =>
    let l2 : α := lam * z / dx
    let FX := linspace (-l2 / Num.two) (l2 / Num.two) m j
    let FY := linspace (-l2 / Num.two) (l2 / Num.two) n i
    let c : Cx α := Cx.expi (k * z) * (⟨0, -((1 : α) / (lam * z))⟩ : Cx α) * Cx.expi (k / (Num.two * z) * (Num.sq FX + Num.sq FY))
    Cx.smul (Num.sq dx) (c * F.get i j)

/-- NumPy `propagate_beam`: the five modelled methods; `IR Fresnel` / `TR Fresnel` are the documented short names (the default of
    `propagate_beam`, `gerchberg_saxton`, `gerchberg_saxton_3d`), accepted since the repair of finding F40 -/
def npBeam (ptype : String) (u : CGrid α n m) (dx lam k z : α) : Option (CGrid α n m) :=
  if ptype = "Angular Spectrum" then some (npAS u dx lam k z)
  else if ptype = "Bandlimited Angular Spectrum" then some (npBL u dx lam k z)
  else if ptype = "Transfer Function Fresnel" ∨ ptype = "TR Fresnel" then some (npTF u dx lam k z)
  else if ptype = "Impulse Response Fresnel" ∨ ptype = "IR Fresnel" then some (npIR u dx lam k z)
  else if ptype = "Fraunhofer" then some (npFraunhofer u dx lam k z)
  else none

/-- `propagator.__call__` on an `h × w` field: zero-pad, one `callStep` at the padded resolution, crop
    (what the correspondence op `prop_seq` executes) -/
def callStepPC {h w : Nat} (kf : Nat → Nat → CGrid α (2 * h) (2 * w)) (A : CGrid α (2 * h) (2 * w))
    (s : PState α (2 * h) (2 * w)) (d c : Nat) (u : CGrid α h w) : PState α (2 * h) (2 * w) × CGrid α h w :=
  ((callStep kf A s d c (padGrid u)).1, cropGrid (callStep kf A s d c (padGrid u)).2)

end Odak
