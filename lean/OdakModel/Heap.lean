/-!
# May-mutate (alias / effect) analysis for a small heap IR

Definitions only (core Lean, no Mathlib); everything in the *analysis* part is computable and
kernel-reducible (`#eval`, `decide`).  The soundness proofs live in
`OdakProofs/Lemmas/HeapSound.lean`.

* `Instr` / `Prog`      : the IR (nested inductive through `List`)
* `State`, `Step`, `Exec` : nondeterministic concrete semantics using callee *summaries* `σ`
* `ExecReal`            : semantics where calls run the callee body from a table (bounded depth)
* `AState`, `transfer`, `mayMutate` : the abstract interpretation
* `isPostFixpoint`      : checker that a summary table is consistent with a table of bodies
-/

namespace Odak.Heap

abbrev Var := Nat
abbrev FnId := Nat
abbrev Obj := Nat

/-- Instructions.  Variables are naturals; a function with `k` parameters has them in `0 … k-1`. -/
inductive Instr where
  /-- `x :=` a newly allocated object -/
  | fresh (x : Var)
  /-- `x := y` (same object) -/
  | alias (x y : Var)
  /-- `x := x` or `x := y`, nondeterministically -/
  | join (x y : Var)
  /-- the object bound to `x` is modified in place -/
  | inplace (x : Var)
  /-- call of function `f` of the table; result bound to `ret` -/
  | call (f : FnId) (args : List Var) (ret : Var)
  /-- either branch -/
  | branch (p q : List Instr)
  /-- body executed any finite number of times -/
  | loop (p : List Instr)
  deriving Repr, Inhabited

abbrev Prog := List Instr

/-! ## Concrete semantics -/

/-- Concrete state: environment, heap of version counters, allocation pointer. -/
structure State where
  env : Var → Option Obj
  heap : Obj → Nat
  next : Obj

/-- Point update of a function on naturals. -/
def upd {β : Type} (f : Nat → β) (x : Nat) (v : β) : Nat → β :=
  fun y => if y = x then v else f y

/-- Heap effect of a call under summary `σ`: every object whose contents differ is the object of an
argument at a position listed in `σ f` (any subset of them, arbitrary new contents).
"No other object changes" is the trusted callee-encapsulation assumption. -/
def CallHeap (σ : FnId → List Nat) (f : FnId) (args : List Var)
    (env : Var → Option Obj) (h h' : Obj → Nat) : Prop :=
  ∀ o, h' o ≠ h o → ∃ i, i ∈ σ f ∧ ∃ a, args[i]? = some a ∧ env a = some o

/-- One step of a non-compound instruction (calls use the summary `σ`). -/
inductive Step (σ : FnId → List Nat) : Instr → State → State → Prop
  | fresh (x : Var) (s : State) :
      Step σ (.fresh x) s ⟨upd s.env x (some s.next), s.heap, s.next + 1⟩
  | alias (x y : Var) (s : State) :
      Step σ (.alias x y) s ⟨upd s.env x (s.env y), s.heap, s.next⟩
  | joinKeep (x y : Var) (s : State) :
      Step σ (.join x y) s s
  | joinTake (x y : Var) (s : State) :
      Step σ (.join x y) s ⟨upd s.env x (s.env y), s.heap, s.next⟩
  | inplace (x : Var) (s : State) (o : Obj) (v : Nat) :
      s.env x = some o → Step σ (.inplace x) s ⟨s.env, upd s.heap o v, s.next⟩
  | inplaceNone (x : Var) (s : State) :
      s.env x = none → Step σ (.inplace x) s s
  | callFresh (f : FnId) (args : List Var) (ret : Var) (s : State) (h' : Obj → Nat) :
      CallHeap σ f args s.env s.heap h' →
      Step σ (.call f args ret) s ⟨upd s.env ret (some s.next), h', s.next + 1⟩
  | callArg (f : FnId) (args : List Var) (ret : Var) (s : State) (h' : Obj → Nat) (a : Var) :
      CallHeap σ f args s.env s.heap h' → a ∈ args →
      Step σ (.call f args ret) s ⟨upd s.env ret (s.env a), h', s.next⟩

/-- Big-step nondeterministic execution of a program with summary semantics for calls. -/
inductive Exec (σ : FnId → List Nat) : Prog → State → State → Prop
  | nil (s : State) : Exec σ [] s s
  | step {i : Instr} {rest : Prog} {s s1 s' : State} :
      Step σ i s s1 → Exec σ rest s1 s' → Exec σ (i :: rest) s s'
  | branchL {p q rest : Prog} {s s1 s' : State} :
      Exec σ p s s1 → Exec σ rest s1 s' → Exec σ (.branch p q :: rest) s s'
  | branchR {p q rest : Prog} {s s1 s' : State} :
      Exec σ q s s1 → Exec σ rest s1 s' → Exec σ (.branch p q :: rest) s s'
  | loopDone {p rest : Prog} {s s' : State} :
      Exec σ rest s s' → Exec σ (.loop p :: rest) s s'
  | loopStep {p rest : Prog} {s s1 s' : State} :
      Exec σ p s s1 → Exec σ (.loop p :: rest) s1 s' → Exec σ (.loop p :: rest) s s'

/-- Environment of a callee with `k` parameters: parameter `i < k` is bound to the object of
`args[i]` (unbound if the argument is missing or unbound); everything else is unbound. -/
def paramEnv (k : Nat) (args : List Var) (env : Var → Option Obj) : Var → Option Obj :=
  fun x => if x < k then (args[x]?).bind env else none

/-- How the caller's state `s1` after a real call is obtained from the caller's state `s` before the
call and the callee's final state `t`: heap and allocation pointer are the callee's, the
environment is the caller's with `ret` rebound to a fresh object, to an object allocated by the
callee, or to the object of one of the arguments. -/
def RetBind (args : List Var) (ret : Var) (s t s1 : State) : Prop :=
  s1 = ⟨upd s.env ret (some t.next), t.heap, t.next + 1⟩ ∨
  (∃ o, s.next ≤ o ∧ o < t.next ∧ s1 = ⟨upd s.env ret (some o), t.heap, t.next⟩) ∨
  (∃ a, a ∈ args ∧ s1 = ⟨upd s.env ret (s.env a), t.heap, t.next⟩)

/-- A `Step` is allowed in `ExecReal` at depth `d` unless it is a call of a function that has a body
in the table and depth is left. -/
def SummaryAllowed (tbl : FnId → Option (Nat × Prog)) (d : Nat) (i : Instr) : Prop :=
  ∀ f args ret, i = .call f args ret → d = 0 ∨ tbl f = none

/-- "Real" semantics: a call of a function with a body in `tbl` runs that body (at depth `d`, when
executing at depth `d+1`) in a fresh environment.  At depth `0`, or for functions without a body,
the summary semantics of `Step` is used. -/
inductive ExecReal (σ : FnId → List Nat) (tbl : FnId → Option (Nat × Prog)) :
    Nat → Prog → State → State → Prop
  | nil (d : Nat) (s : State) : ExecReal σ tbl d [] s s
  | step {d : Nat} {i : Instr} {rest : Prog} {s s1 s' : State} :
      SummaryAllowed tbl d i → Step σ i s s1 → ExecReal σ tbl d rest s1 s' →
      ExecReal σ tbl d (i :: rest) s s'
  | callReal {d : Nat} {f : FnId} {args : List Var} {ret : Var} {k : Nat} {body rest : Prog}
      {s t s1 s' : State} :
      tbl f = some (k, body) →
      ExecReal σ tbl d body ⟨paramEnv k args s.env, s.heap, s.next⟩ t →
      RetBind args ret s t s1 →
      ExecReal σ tbl (d + 1) rest s1 s' →
      ExecReal σ tbl (d + 1) (.call f args ret :: rest) s s'
  | branchL {d : Nat} {p q rest : Prog} {s s1 s' : State} :
      ExecReal σ tbl d p s s1 → ExecReal σ tbl d rest s1 s' →
      ExecReal σ tbl d (.branch p q :: rest) s s'
  | branchR {d : Nat} {p q rest : Prog} {s s1 s' : State} :
      ExecReal σ tbl d q s s1 → ExecReal σ tbl d rest s1 s' →
      ExecReal σ tbl d (.branch p q :: rest) s s'
  | loopDone {d : Nat} {p rest : Prog} {s s' : State} :
      ExecReal σ tbl d rest s s' → ExecReal σ tbl d (.loop p :: rest) s s'
  | loopStep {d : Nat} {p rest : Prog} {s s1 s' : State} :
      ExecReal σ tbl d p s s1 → ExecReal σ tbl d (.loop p :: rest) s1 s' →
      ExecReal σ tbl d (.loop p :: rest) s s'

/-! ## Abstract domain -/

/-- `union l m` : `l` followed by the elements of `m` not already present (no new duplicates). -/
def union {α : Type} [DecidableEq α] : List α → List α → List α
  | l, [] => l
  | l, x :: m => if x ∈ l then union l m else union (l ++ [x]) m

/-- Abstract state.  `rel` contains `(x, p)` when variable `x` may denote the initial object of
parameter `p`; `muts` lists parameters whose initial object may have been modified; `top = true`
means "no information" (everything may point anywhere, everything may be mutated). -/
structure AState where
  top : Bool
  rel : List (Var × Nat)
  muts : List Nat
  deriving DecidableEq, Repr

namespace AState

/-- Entry state of a function with `k` parameters: parameter `p` denotes exactly `p`. -/
def init (k : Nat) : AState := ⟨false, (List.range k).map (fun p => (p, p)), []⟩

/-- parameters that `x` may denote -/
def get (a : AState) (x : Var) : List Nat :=
  (a.rel.filter (fun e => e.1 == x)).map (fun e => e.2)

/-- strong update `x := l` -/
def set (a : AState) (x : Var) (l : List Nat) : AState :=
  { a with rel := a.rel.filter (fun e => e.1 != x) ++ l.map (fun p => (x, p)) }

def addMut (a : AState) (l : List Nat) : AState :=
  { a with muts := union a.muts l }

def join (a b : AState) : AState :=
  ⟨a.top || b.top, union a.rel b.rel, union a.muts b.muts⟩

def toTop (a : AState) : AState := { a with top := true }

/-- decidable order check: `a` is below `b` -/
def leb (a b : AState) : Bool :=
  b.top || (!a.top && a.rel.all (fun e => b.rel.contains e) && a.muts.all (fun p => b.muts.contains p))

end AState

/-- Bounded fixpoint iteration for loops: starting from `a`, join in the body's effect until one more
application of the body adds nothing; if the fuel runs out, go to top. The result is always stable
under `f` (`(f r).leb r = true`) and above `a`. -/
def loopFix (f : AState → AState) : Nat → AState → AState
  | 0, a => if (f a).leb a then a else a.toTop
  | n + 1, a => if (f a).leb a then a else loopFix f n (a.join (f a))

/-- Parameters possibly mutated by a call: those the arguments at the positions `σ f` may denote. -/
def callMut (σf : List Nat) (args : List Var) (a : AState) : List Nat :=
  σf.flatMap (fun i => match args[i]? with | some v => a.get v | none => [])

mutual
/-- number of instructions (used for loop fuel) -/
def Instr.size : Instr → Nat
  | .branch p q => 1 + progSize p + progSize q
  | .loop p => 1 + progSize p
  | _ => 1
def progSize : List Instr → Nat
  | [] => 0
  | i :: is => i.size + progSize is
end

/-- Fuel sufficient for the loop iteration to stabilise (each unstable round adds a new
`(assigned variable, parameter)` pair or a new mutated parameter). Soundness does not depend on it. -/
def loopFuel (k : Nat) (p : Prog) : Nat := (progSize p + 1) * (k + 1) + 1

mutual
/-- abstract transfer of one instruction -/
def transferI (σ : FnId → List Nat) (k : Nat) : Instr → AState → AState
  | .fresh x, a => a.set x []
  | .alias x y, a => a.set x (a.get y)
  | .join x y, a => a.set x (union (a.get x) (a.get y))
  | .inplace x, a => a.addMut (a.get x)
  | .call f args ret, a =>
      (a.addMut (callMut (σ f) args a)).set ret (union [] (args.flatMap a.get))
  | .branch p q, a => (transfer σ k p a).join (transfer σ k q a)
  | .loop p, a => loopFix (transfer σ k p) (loopFuel k p) a
/-- abstract transfer of a program -/
def transfer (σ : FnId → List Nat) (k : Nat) : List Instr → AState → AState
  | [], a => a
  | i :: is, a => transfer σ k is (transferI σ k i a)
end

/-- abstract state at exit of a `k`-parameter function with body `prog` -/
def analyze (σ : FnId → List Nat) (k : Nat) (prog : Prog) : AState :=
  transfer σ k prog (AState.init k)

/-- Parameter indices (sorted, no duplicates, all `< k`) whose initial objects may be modified. -/
def mayMutate (σ : FnId → List Nat) (k : Nat) (prog : Prog) : List Nat :=
  let a := analyze σ k prog
  (List.range k).filter (fun p => a.top || a.muts.contains p)

/-! ## Tables -/

/-- Table of function bodies as a function, from an association list `(id, arity, body)`
(first entry wins). -/
def tblOf : List (FnId × Nat × Prog) → FnId → Option (Nat × Prog)
  | [], _ => none
  | (g, k, body) :: t, f => if g = f then some (k, body) else tblOf t f

/-- Summary table as a function, from an association list (first entry wins; default `[]`). -/
def sigmaOf : List (FnId × List Nat) → FnId → List Nat
  | [], _ => []
  | (g, l) :: t, f => if g = f then l else sigmaOf t f

/-- `σ` is a post-fixpoint for `tbl`: the analysis of every body (using `σ` for its callees) reports
only positions already in `σ`. -/
def PostFixpoint (σ : FnId → List Nat) (tbl : FnId → Option (Nat × Prog)) : Prop :=
  ∀ f k body, tbl f = some (k, body) → ∀ p, p ∈ mayMutate σ k body → p ∈ σ f

/-- Computable check of `PostFixpoint σ (tblOf table)` (checks every entry of the list). -/
def isPostFixpoint (σ : FnId → List Nat) (table : List (FnId × Nat × Prog)) : Bool :=
  table.all (fun e => (mayMutate σ e.2.1 e.2.2).all (fun p => (σ e.1).contains p))

end Odak.Heap
