/-!
# May-mutate (alias / effect) analysis for a small heap IR

Definitions only (core Lean, no Mathlib); everything in the *analysis* part is computable and
kernel-reducible (`#eval`, `decide`).  The soundness proofs live in
`OdakProofs/Lemmas/HeapSound.lean`.

* `Instr` / `Prog`      : the IR (nested inductive through `List`)
* `State`, `Step`, `Exec` : nondeterministic concrete semantics using callee *summaries*
  `σ` (argument positions possibly modified) and `ρ` (argument positions the result may alias)
* `ExecReal`            : semantics where calls run the callee body from a table (bounded depth)
* `AState`, `transfer`, `mayMutate`, `mayReturn` : the abstract interpretation
* `isPostFixpoint`      : checker that the summary tables are consistent with a table of bodies
-/

namespace Odak.Heap

abbrev Var := Nat
abbrev FnId := Nat
abbrev Obj := Nat

/-- Instructions.  Variables are naturals; a function with `k` parameters has them in `0 … k-1`. -/
inductive Instr where
  /-- `x :=` a newly allocated object -/
  | fresh (x : Var)
  /-- `x := y` (same object) -/
  | alias (x y : Var)
  /-- `x := x` or `x := y`, nondeterministically -/
  | join (x y : Var)
  /-- the object bound to `x` is modified in place -/
  | inplace (x : Var)
  /-- call of function `f` of the table; result bound to `ret` -/
  | call (f : FnId) (args : List Var) (ret : Var)
  /-- either branch -/
  | branch (p q : List Instr)
  /-- body executed any finite number of times -/
  | loop (p : List Instr)
  deriving Repr, Inhabited

abbrev Prog := List Instr

/-! ## Concrete semantics -/

/-- Concrete state: environment, heap of version counters, allocation pointer. -/
structure State where
  env : Var → Option Obj
  heap : Obj → Nat
  next : Obj

/-- Point update of a function on naturals. -/
def upd {β : Type} (f : Nat → β) (x : Nat) (v : β) : Nat → β :=
  fun y => if y = x then v else f y

/-- Heap effect of a call under summary `σ`: every object whose contents differ is the object of an
argument at a position listed in `σ f` (any subset of them, arbitrary new contents).
"No other object changes" is the trusted callee-encapsulation assumption. -/
def CallHeap (σ : FnId → List Nat) (f : FnId) (args : List Var)
    (env : Var → Option Obj) (h h' : Obj → Nat) : Prop :=
  ∀ o, h' o ≠ h o → ∃ i, i ∈ σ f ∧ ∃ a, args[i]? = some a ∧ env a = some o

/-- One step of a non-compound instruction.  Calls use the summaries: `σ f` = argument positions
whose objects `f` may modify, `ρ f` = argument positions whose objects the result of `f` may be. -/
inductive Step (σ ρ : FnId → List Nat) : Instr → State → State → Prop
  | fresh (x : Var) (s : State) :
      Step σ ρ (.fresh x) s ⟨upd s.env x (some s.next), s.heap, s.next + 1⟩
  | alias (x y : Var) (s : State) :
      Step σ ρ (.alias x y) s ⟨upd s.env x (s.env y), s.heap, s.next⟩
  | joinKeep (x y : Var) (s : State) :
      Step σ ρ (.join x y) s s
  | joinTake (x y : Var) (s : State) :
      Step σ ρ (.join x y) s ⟨upd s.env x (s.env y), s.heap, s.next⟩
  | inplace (x : Var) (s : State) (o : Obj) (v : Nat) :
      s.env x = some o → Step σ ρ (.inplace x) s ⟨s.env, upd s.heap o v, s.next⟩
  | inplaceNone (x : Var) (s : State) :
      s.env x = none → Step σ ρ (.inplace x) s s
  | callFresh (f : FnId) (args : List Var) (ret : Var) (s : State) (h' : Obj → Nat) :
      CallHeap σ f args s.env s.heap h' →
      Step σ ρ (.call f args ret) s ⟨upd s.env ret (some s.next), h', s.next + 1⟩
  | callArg (f : FnId) (args : List Var) (ret : Var) (s : State) (h' : Obj → Nat) (i : Nat)
      (a : Var) :
      CallHeap σ f args s.env s.heap h' → i ∈ ρ f → args[i]? = some a →
      Step σ ρ (.call f args ret) s ⟨upd s.env ret (s.env a), h', s.next⟩

/-- Big-step nondeterministic execution of a program with summary semantics for calls. -/
inductive Exec (σ ρ : FnId → List Nat) : Prog → State → State → Prop
  | nil (s : State) : Exec σ ρ [] s s
  | step {i : Instr} {rest : Prog} {s s1 s' : State} :
      Step σ ρ i s s1 → Exec σ ρ rest s1 s' → Exec σ ρ (i :: rest) s s'
  | branchL {p q rest : Prog} {s s1 s' : State} :
      Exec σ ρ p s s1 → Exec σ ρ rest s1 s' → Exec σ ρ (.branch p q :: rest) s s'
  | branchR {p q rest : Prog} {s s1 s' : State} :
      Exec σ ρ q s s1 → Exec σ ρ rest s1 s' → Exec σ ρ (.branch p q :: rest) s s'
  | loopDone {p rest : Prog} {s s' : State} :
      Exec σ ρ rest s s' → Exec σ ρ (.loop p :: rest) s s'
  | loopStep {p rest : Prog} {s s1 s' : State} :
      Exec σ ρ p s s1 → Exec σ ρ (.loop p :: rest) s1 s' → Exec σ ρ (.loop p :: rest) s s'

/-- Environment of a callee with `k` parameters: parameter `i < k` is bound to the object of
`args[i]` (unbound if the argument is missing or unbound); everything else is unbound. -/
def paramEnv (k : Nat) (args : List Var) (env : Var → Option Obj) : Var → Option Obj :=
  fun x => if x < k then (args[x]?).bind env else none

/-- How the caller's state `s1` after a real call is obtained from the caller's state `s` before the
call and the callee's final state `t` (`rv` = the callee's return variable): heap and allocation
pointer are the callee's, the environment is the caller's with `ret` rebound to the callee's final
`env rv` if that is an object (an entry object or one the callee allocated), and to a fresh object
if `rv` is unbound. -/
def RetBind (ret rv : Var) (s t s1 : State) : Prop :=
  (∃ o, t.env rv = some o ∧ s1 = ⟨upd s.env ret (some o), t.heap, t.next⟩) ∨
  (t.env rv = none ∧ s1 = ⟨upd s.env ret (some t.next), t.heap, t.next + 1⟩)

/-- A `Step` is allowed in `ExecReal` at depth `d` unless it is a call of a function that has a body
in the table and depth is left. -/
def SummaryAllowed (tbl : FnId → Option (Nat × Var × Prog)) (d : Nat) (i : Instr) : Prop :=
  ∀ f args ret, i = .call f args ret → d = 0 ∨ tbl f = none

/-- "Real" semantics: a call of a function with a body in `tbl` runs that body (at depth `d`, when
executing at depth `d+1`) in a fresh environment.  At depth `0`, or for functions without a body,
the summary semantics of `Step` is used. -/
inductive ExecReal (σ ρ : FnId → List Nat) (tbl : FnId → Option (Nat × Var × Prog)) :
    Nat → Prog → State → State → Prop
  | nil (d : Nat) (s : State) : ExecReal σ ρ tbl d [] s s
  | step {d : Nat} {i : Instr} {rest : Prog} {s s1 s' : State} :
      SummaryAllowed tbl d i → Step σ ρ i s s1 → ExecReal σ ρ tbl d rest s1 s' →
      ExecReal σ ρ tbl d (i :: rest) s s'
  | callReal {d : Nat} {f : FnId} {args : List Var} {ret : Var} {k : Nat} {rv : Var}
      {body rest : Prog} {s t s1 s' : State} :
      tbl f = some (k, rv, body) →
      ExecReal σ ρ tbl d body ⟨paramEnv k args s.env, s.heap, s.next⟩ t →
      RetBind ret rv s t s1 →
      ExecReal σ ρ tbl (d + 1) rest s1 s' →
      ExecReal σ ρ tbl (d + 1) (.call f args ret :: rest) s s'
  | branchL {d : Nat} {p q rest : Prog} {s s1 s' : State} :
      ExecReal σ ρ tbl d p s s1 → ExecReal σ ρ tbl d rest s1 s' →
      ExecReal σ ρ tbl d (.branch p q :: rest) s s'
  | branchR {d : Nat} {p q rest : Prog} {s s1 s' : State} :
      ExecReal σ ρ tbl d q s s1 → ExecReal σ ρ tbl d rest s1 s' →
      ExecReal σ ρ tbl d (.branch p q :: rest) s s'
  | loopDone {d : Nat} {p rest : Prog} {s s' : State} :
      ExecReal σ ρ tbl d rest s s' → ExecReal σ ρ tbl d (.loop p :: rest) s s'
  | loopStep {d : Nat} {p rest : Prog} {s s1 s' : State} :
      ExecReal σ ρ tbl d p s s1 → ExecReal σ ρ tbl d (.loop p :: rest) s1 s' →
      ExecReal σ ρ tbl d (.loop p :: rest) s s'

/-! ## Abstract domain -/

/-- `union l m` : `l` followed by the elements of `m` not already present (no new duplicates). -/
def union {α : Type} [DecidableEq α] : List α → List α → List α
  | l, [] => l
  | l, x :: m => if x ∈ l then union l m else union (l ++ [x]) m

/-- Abstract state.  `rel` contains `(x, p)` when variable `x` may denote the initial object of
parameter `p`; `muts` lists parameters whose initial object may have been modified; `top = true`
means "no information" (everything may point anywhere, everything may be mutated). -/
structure AState where
  top : Bool
  rel : List (Var × Nat)
  muts : List Nat
  deriving DecidableEq, Repr

namespace AState

/-- Entry state of a function with `k` parameters: parameter `p` denotes exactly `p`. -/
def init (k : Nat) : AState := ⟨false, (List.range k).map (fun p => (p, p)), []⟩

/-- parameters that `x` may denote -/
def get (a : AState) (x : Var) : List Nat :=
  (a.rel.filter (fun e => e.1 == x)).map (fun e => e.2)

/-- strong update `x := l` -/
def set (a : AState) (x : Var) (l : List Nat) : AState :=
  { a with rel := a.rel.filter (fun e => e.1 != x) ++ l.map (fun p => (x, p)) }

def addMut (a : AState) (l : List Nat) : AState :=
  { a with muts := union a.muts l }

def join (a b : AState) : AState :=
  ⟨a.top || b.top, union a.rel b.rel, union a.muts b.muts⟩

def toTop (a : AState) : AState := { a with top := true }

/-- decidable order check: `a` is below `b` -/
def leb (a b : AState) : Bool :=
  b.top || (!a.top && a.rel.all (fun e => b.rel.contains e) && a.muts.all (fun p => b.muts.contains p))

end AState

/-- Bounded fixpoint iteration for loops: starting from `a`, join in the body's effect until one more
application of the body adds nothing; if the fuel runs out, go to top. The result is always stable
under `f` (`(f r).leb r = true`) and above `a`. -/
def loopFix (f : AState → AState) : Nat → AState → AState
  | 0, a => if (f a).leb a then a else a.toTop
  | n + 1, a => if (f a).leb a then a else loopFix f n (a.join (f a))

/-- Parameters that the arguments at the positions `pos` may denote (used with `pos = σ f` for the
mutated set and with `pos = ρ f` for the abstract value of the result). -/
def argPts (pos : List Nat) (args : List Var) (a : AState) : List Nat :=
  pos.flatMap (fun i => match args[i]? with | some v => a.get v | none => [])

mutual
/-- number of instructions (used for loop fuel) -/
def Instr.size : Instr → Nat
  | .branch p q => 1 + progSize p + progSize q
  | .loop p => 1 + progSize p
  | _ => 1
def progSize : List Instr → Nat
  | [] => 0
  | i :: is => i.size + progSize is
end

/-- Fuel sufficient for the loop iteration to stabilise (each unstable round adds a new
`(assigned variable, parameter)` pair or a new mutated parameter). Soundness does not depend on it. -/
def loopFuel (k : Nat) (p : Prog) : Nat := (progSize p + 1) * (k + 1) + 1

mutual
/-- abstract transfer of one instruction -/
def transferI (σ ρ : FnId → List Nat) (k : Nat) : Instr → AState → AState
  | .fresh x, a => a.set x []
  | .alias x y, a => a.set x (a.get y)
  | .join x y, a => a.set x (union (a.get x) (a.get y))
  | .inplace x, a => a.addMut (a.get x)
  | .call f args ret, a =>
      (a.addMut (argPts (σ f) args a)).set ret (union [] (argPts (ρ f) args a))
  | .branch p q, a => (transfer σ ρ k p a).join (transfer σ ρ k q a)
  | .loop p, a => loopFix (transfer σ ρ k p) (loopFuel k p) a
/-- abstract transfer of a program -/
def transfer (σ ρ : FnId → List Nat) (k : Nat) : List Instr → AState → AState
  | [], a => a
  | i :: is, a => transfer σ ρ k is (transferI σ ρ k i a)
end

/-- abstract state at exit of a `k`-parameter function with body `prog` -/
def analyze (σ ρ : FnId → List Nat) (k : Nat) (prog : Prog) : AState :=
  transfer σ ρ k prog (AState.init k)

/-- Parameter indices (sorted, no duplicates, all `< k`) whose initial objects may be modified. -/
def mayMutate (σ ρ : FnId → List Nat) (k : Nat) (prog : Prog) : List Nat :=
  let a := analyze σ ρ k prog
  (List.range k).filter (fun p => a.top || a.muts.contains p)

/-- Parameter indices (sorted, no duplicates, all `< k`) whose initial objects the return variable
`rv` may denote at exit. -/
def mayReturn (σ ρ : FnId → List Nat) (k : Nat) (rv : Var) (prog : Prog) : List Nat :=
  let a := analyze σ ρ k prog
  (List.range k).filter (fun p => a.top || (a.get rv).contains p)

/-! ## Tables -/

/-- Table of function bodies as a function, from an association list
`(id, arity, return variable, body)` (first entry wins). -/
def tblOf : List (FnId × Nat × Var × Prog) → FnId → Option (Nat × Var × Prog)
  | [], _ => none
  | (g, k, rv, body) :: t, f => if g = f then some (k, rv, body) else tblOf t f

/-- Summary table as a function, from an association list (first entry wins; default `[]`). -/
def sigmaOf : List (FnId × List Nat) → FnId → List Nat
  | [], _ => []
  | (g, l) :: t, f => if g = f then l else sigmaOf t f

/-- `(σ, ρ)` is a post-fixpoint for `tbl`: the analysis of every body (using `σ`, `ρ` for its
callees) reports only mutated positions already in `σ` and returned positions already in `ρ`. -/
def PostFixpoint (σ ρ : FnId → List Nat) (tbl : FnId → Option (Nat × Var × Prog)) : Prop :=
  ∀ f k rv body, tbl f = some (k, rv, body) →
    (∀ p, p ∈ mayMutate σ ρ k body → p ∈ σ f) ∧ (∀ p, p ∈ mayReturn σ ρ k rv body → p ∈ ρ f)

/-- Computable check of `PostFixpoint σ ρ (tblOf table)` (checks every entry of the list). -/
def isPostFixpoint (σ ρ : FnId → List Nat) (table : List (FnId × Nat × Var × Prog)) : Bool :=
  table.all (fun e =>
    (mayMutate σ ρ e.2.1 e.2.2.2).all (fun p => (σ e.1).contains p) &&
    (mayReturn σ ρ e.2.1 e.2.2.1 e.2.2.2).all (fun p => (ρ e.1).contains p))

end Odak.Heap
