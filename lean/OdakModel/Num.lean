/-
  Scalar class of the odak model.  Every model function is written once over `[Num α]`.
  * `α := Float`  – executable (driver, correspondence with the Python implementation)
  * `α := ℝ`      – object of the theorems (instance in OdakProofs/RealInst.lean)
  * `α := Dual β` – forward-mode derivatives (OdakModel/Dual.lean)
  * `α := Chk β`  – value + "every derivative taken on the autograd graph is finite" flag (OdakModel/Chk.lean)
  No Mathlib import anywhere below OdakModel/.
-/
namespace Odak

class Num (α : Type) extends Zero α, One α, Add α, Sub α, Mul α, Div α, Neg α, LT α, LE α where
  ofNat : Nat → α
  /-- decimal literal `m · 10^(∓e)` (same meaning as `OfScientific.ofScientific`) -/
  ofSci : Nat → Bool → Nat → α
  pi : α
  sqrt : α → α
  sin : α → α
  cos : α → α
  exp : α → α
  log : α → α
  acos : α → α
  floor : α → α
  /-- round half to even, as `numpy.round` / `torch.round` -/
  round : α → α
  abs : α → α
  /-- `atan2 y x` -/
  atan2 : α → α → α
  decLt : ∀ a b : α, Decidable (a < b)
  decLe : ∀ a b : α, Decidable (a ≤ b)
  /-- element-wise selection `torch.where(c, a, b)`: BOTH branches have been evaluated.  The value is the chosen one; the
      instances that carry derivative information (`Dual`, `Chk`) combine both branches the way autograd does
      (mask · grad of each branch), which is where `0 · inf = NaN` comes from. -/
  select : Bool → α → α → α := fun c a b => bif c then a else b

namespace Num
variable {α : Type} [Num α]

instance (a b : α) : Decidable (a < b) := Num.decLt a b
instance (a b : α) : Decidable (a ≤ b) := Num.decLe a b

/-- natural-number literal in the scalar type -/
@[reducible] def nat (n : Nat) : α := Num.ofNat n
/-- integer literal -/
def int (z : Int) : α := match z with
  | Int.ofNat n => Num.ofNat n
  | Int.negSucc n => -(Num.ofNat (n+1))

def two : α := Num.ofNat 2
def half : α := Num.ofSci 5 true 1
def sq (x : α) : α := x * x
def maxN (a b : α) : α := if a < b then b else a
def minN (a b : α) : α := if b < a then b else a
/-- Python float `%` for a positive modulus: `x - r * floor (x / r)` -/
def fmod (x r : α) : α := x - r * Num.floor (x / r)
/-- truncation toward zero (`astype(int)`, `.int()`) -/
def trunc (x : α) : α := if x < 0 then -(Num.floor (-x)) else Num.floor x
/-- `2^b` as a scalar -/
def pow2 (b : Nat) : α := Num.ofNat (2 ^ b)
/-- `x ** y` for positive `x` (`torch.pow`): `exp (y · log x)`.  For `x = 0` IEEE gives `exp(-inf) = 0`
    like `torch.pow`; over ℝ the identity with the real power needs `0 < x` (stated where used). -/
def powPos (x y : α) : α := Num.exp (y * Num.log x)
/-- degrees → radians, as `numpy.radians` -/
def radians (d : α) : α := d * Num.pi / Num.ofNat 180

end Num
end Odak
