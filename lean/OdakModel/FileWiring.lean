import OdakModel.Codec
import OdakModel.Generated.PlyGen
/-!
  A value-level reading of the REGENERATED wiring tables of `save_dictionary` / `load_dictionary` / `check_directory`
  (`Generated/PlyGen.lean`, from `odak/tools/file.py`) over the ten-line file system `FS` of `OdakModel/Codec.lean`.
  `json.dump` / `json.load` are parameters (`enc`, `dec`: a lossless codec), `os.path.expanduser` is a parameter (`expand`).
  The model reads the tables, so a changed path expression, another dumped object or another file handle changes what it does.
-/
namespace Odak
open Odak.Gen

/-- the file an `open(...)` row of a wiring table names -/
def wiredPath (tbl : List (String × String)) (expand : String → String) (filename : String) : Option String :=
  match tbl.lookup "open file" with
  | some "expanduser(filename)" => some (expand filename)
  | some "filename" => some filename
  | _ => none

/-- `save_dictionary(settings, filename)`: `json.dump` of `settings` into the file opened for writing; `none` = the table describes something
    else (the dumped object is not `settings`, the handle is not the opened file, the mode does not truncate) -/
def saveDictionary {D : Type} (enc : D → List Nat) (expand : String → String) (fs : FS) (filename : String) (settings : D) : Option FS :=
  if saveDictionaryWiring.lookup "call" = some "json.dump" ∧ saveDictionaryWiring.lookup "dump obj" = some "settings" ∧
      saveDictionaryWiring.lookup "dump fp" = saveDictionaryWiring.lookup "file variable" ∧
      saveDictionaryWiring.lookup "open mode" = some "'w'" then
    (wiredPath saveDictionaryWiring expand filename).map fun p => fun q => if q = p then some (enc settings) else fs q
  else none

/-- `load_dictionary(filename)`: `json.load` of the file opened (default mode: reading) -/
def loadDictionary {D : Type} (dec : List Nat → Option D) (expand : String → String) (fs : FS) (filename : String) : Option D :=
  if loadDictionaryWiring.lookup "call" = some "json.load" ∧ loadDictionaryWiring.lookup "open mode" = none ∧
      loadDictionaryWiring.lookup "returns" = loadDictionaryWiring.lookup "assigned to" then
    (wiredPath loadDictionaryWiring expand filename).bind fun p => (fs p).bind dec
  else none

/-- `check_directory(directory)`: `(returned flag, directory created)` for a predicate `exists_` on expanded paths -/
def checkDirectory (exists_ : String → Bool) (expand : String → String) (directory : String) : Option (Bool × Option String) :=
  if checkDirectoryWiring.lookup "if" = some "not os.path.exists(expanduser(directory))" ∧
      checkDirectoryWiring.lookup "then" = some "os.makedirs(expanduser(directory)); return False" ∧
      checkDirectoryWiring.lookup "otherwise returns" = some "True" then
    some (if exists_ (expand directory) then (true, none) else (false, some (expand directory)))
  else none

end Odak
