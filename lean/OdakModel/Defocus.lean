import OdakModel.DefocusPrelude
/-!
  Defocus targets of the multiplane losses, hand-written model (`odak/learn/wave/loss.py: multiplane_loss.add_defocus_blur`,
  identical in `perceptual_multiplane_loss`; `odak/learn/tools/matrix.py: generate_2d_gaussian`), ONE pixel of ONE channel.

  ```
  kernel_length = [L, L]                                   # L = target_blur_size, made odd in __init__
  targets_cache = self.targets[:, ch].clone();  target = sum_p targets_cache[p]          # = the all-in-focus image
  for i in planes:  defocus = 0
      for j in planes:
          nsigma = [int(abs(i - j) * blur_ratio)] * 2
          if sum(targets_cache[j]) > 0:
              if i == j: nsigma = [0., 0.]
              kernel = generate_2d_gaussian(kernel_length, nsigma);  kernel = kernel / sum(kernel)
              defocus = defocus + conv2d(target, kernel, padding = 'same') * abs(self.masks[j, ch])
      self.targets[i, ch] = defocus
  self.targets = self.targets * multiplier
  ```
  `generate_2d_gaussian`: samples at `linspace(-L/2, L/2, L)`, a sigma equal to 0 is replaced by `1e-5`, value
  `1 / (2 pi s0 s1) * exp(-(x^2 / (2 s0^2) + y^2 / (2 s1^2)))` (`mu = [0, 0]`, `normalize = False`).

  The definitions regenerated from the source on every run are `Generated/Defocus.lean`; `OdakProofs/Lemmas/GenDefocus.lean` proves
  them equal to the definitions of this file at `α = ℝ`, and the C16 theorems are about this file.
-/
namespace Odak
variable {α : Type} [Num α]

/-- sample position `a` of `linspace(-L/2, L/2, L)` -/
def gaussPos (L a : Nat) : α := linspace ((-(Num.ofNat L)) / (Num.ofNat 2)) ((Num.ofNat L) / (Num.ofNat 2)) L a

/-- `if nsigma[k] == 0: nsigma[k] = 1e-5` -/
def sigmaFloor (s : α) : α := if s ≤ Num.ofNat 0 ∧ Num.ofNat 0 ≤ s then Num.ofSci 1 true 5 else s

/-- element `[a, b]` of `generate_2d_gaussian([n, m], [s0, s1])` -/
def gauss2d (n m : Nat) (s0 s1 : α) (a : Fin n) (b : Fin m) : α :=
  (Num.ofNat 1) / ((((Num.ofNat 2) * Num.pi) * sigmaFloor s0) * sigmaFloor s1) *
    Num.exp (-((Num.sq (gaussPos n a.val)) / ((Num.ofNat 2) * (Num.sq (sigmaFloor s0))) +
               (Num.sq (gaussPos m b.val)) / ((Num.ofNat 2) * (Num.sq (sigmaFloor s1)))))

/-- `kernel / torch.sum(kernel)` -/
def normKernel (n m : Nat) (K : Fin n → Fin m → α) (a : Fin n) (b : Fin m) : α := K a b / gridSumR n m K

/-- the sigma (both axes) of the kernel for the pair of planes `(i, j)`: `int(|i - j| * blur_ratio)`, and `0.` for `i = j` -/
def defocusSigma (ratio : α) (i j : Nat) : α :=
  if i = j then Num.ofNat 0 else Num.trunc ((Num.ofNat (Int.natAbs ((i : Int) - (j : Int)))) * ratio)

/-- the normalised `L × L` kernel for the pair of planes `(i, j)` -/
def defocusKernel (L : Nat) (ratio : α) (i j : Nat) : Fin L → Fin L → α :=
  normKernel L L (gauss2d L L (defocusSigma ratio i j) (defocusSigma ratio i j))

/-- `target = torch.sum(targets_cache, axis = 0)` at the pixel displaced by `(dy, dx)` -/
def sumTarget (planes : Nat) (cache : Nat → Int → Int → α) (dy dx : Int) : α :=
  (List.range planes).foldl (fun acc p => acc + cache p dy dx) (Num.ofNat 0)

/-- `self.targets[i, ch]` at the pixel after `add_defocus_blur` -/
def defocusAt (planes L : Nat) (ratio mult : α) (cacheSum : Nat → α) (cache mask : Nat → Int → Int → α) (i : Nat) : α :=
  (List.range planes).foldl (fun acc j =>
    if Num.ofNat 0 < cacheSum j then
      acc + convSame L L (defocusKernel L ratio i j) (sumTarget planes cache) * Num.abs (mask j 0 0)
    else acc) (Num.ofNat 0) * mult

/-- `if self.target_blur_size % 2 == 0: self.target_blur_size += 1` -/
def blurSize (b : Nat) : Nat := if b % 2 = 0 then b + 1 else b

end Odak
