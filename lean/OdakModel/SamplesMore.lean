import OdakModel.Rays
import OdakModel.GenPrelude
/-!
  Hand-written model of the loop-built generators of `odak/tools/sample.py`, stated in the terms of property C14 (points of the disc of
  the stated radius in the plane z = 0, placed by `placeSample` = rotate about the origin by the tilt, then move to the centre; rays
  from entry point to exit point).  `Lemmas/GenSamplersMore.lean` ties the REGENERATED definitions (`Generated/SamplersMore.lean`) to these.
-/
namespace Odak
variable {α : Type} [Num α]

/-- the point with polar coordinates `(r, θ)` of the plane z = 0 -/
def polarPoint (r θ : α) : Vec3 α := ⟨r * Num.cos θ, r * Num.sin θ, 0⟩

/-- `circular_uniform_sample`: ring `i` (`0 ≤ i < no0`) has radius `i / no0 · radius` and holds `⌊no1 · i / no0⌋` points -/
def ringCount (no0 no1 i : Nat) : Nat := no1 * i / no0

/-- … point `j` of ring `i` sits at the angle `j / (no1 · i / no0) · 2π` (the divisor is the UNROUNDED quotient) -/
def ringPoint (no0 no1 : Nat) (radius : α) (i j : Nat) : Vec3 α :=
  polarPoint (Num.ofNat i / Num.ofNat no0 * radius) (Num.ofNat j / (Num.ofNat (no1 * i) / Num.ofNat no0) * Num.ofNat 2 * Num.pi)

/-- all points of `circular_uniform_sample` before the placement, ring by ring -/
def circularUniformLocal (no0 no1 : Nat) (radius : α) : List (Vec3 α) :=
  (List.range no0).flatMap fun i => (List.range (ringCount no0 no1 i)).map fun j => ringPoint no0 no1 radius i j

/-- `circular_uniform_sample(no, radius, center, angles)` -/
def circularUniformSample (no0 no1 : Nat) (radius : α) (center angles : Vec3 α) (anglesZero : Bool) : List (Vec3 α) :=
  (circularUniformLocal no0 no1 radius).map fun p => placeSample angles center p anglesZero

/-- `circular_uniform_random_sample` before the placement: radius `radius · sqrt U_a` for the `no0` variates `U`, angle `V_b` for the `no1`
    variates `V`, all `no0 · no1` combinations, radii in the outer loop -/
def circularUniformRandomLocal (no0 no1 : Nat) (radius : α) (U V : Nat → α) : List (Vec3 α) :=
  (List.range no0).flatMap fun a => (List.range no1).map fun b => polarPoint (radius * Num.sqrt (U a)) (V b)

def circularUniformRandomSample (no0 no1 : Nat) (radius : α) (center angles : Vec3 α) (anglesZero : Bool) (U V : Nat → α) :
    List (Vec3 α) :=
  (circularUniformRandomLocal no0 no1 radius U V).map fun p => placeSample angles center p anglesZero

/-- `batch_of_rays`: a side given as ONE point is used for every ray -/
def bcastRow (k i : Nat) : Nat := if k = 1 then 0 else i

/-- `batch_of_rays(entry, exit)` for `m` entry rows and `n` exit rows (`m = n`, `m = 1` or `n = 1`): ray `i` goes from entry point `i` to
    exit point `i`, in this order, one ray per index -/
def batchOfRays (m : Nat) (entry : Nat → Vec3 α) (n : Nat) (exit_ : Nat → Vec3 α) : List (Ray α) :=
  (List.range (max m n)).map fun i => ⟨entry (bcastRow m i), rayDirTwoPoints (entry (bcastRow m i)) (exit_ (bcastRow n i))⟩

end Odak
