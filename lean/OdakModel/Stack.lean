import OdakModel.Propagator
/-!
  Primitives the REGENERATED pipelines (`OdakModel/Generated/Pipelines.lean`) are composed of, in addition to
  `CGrid.fft2 / ifft2 / fftshift / ifftshift / mul`, `padGrid`, `cropGrid`:

  * stacks `[k × n × m]` of fields (a leading batch axis): `fft2` / `ifft2` act on the last two axes of every field,
    `torch.fft.fftshift(x)` / `ifftshift(x)` WITHOUT `dim` roll EVERY axis, the batch axis included (`CStack.fftshiftAll`),
    with `dim = (-2, -1)` only the two spatial axes (`CStack.fftshift2`); a `[n × m]` kernel / aperture broadcasts over the batch;
  * real scalings of a grid (`· c`, `/ c` with a real `c`), complex conjugation;
  * lifting through `Option` (a dispatch on a propagation-type string that matches no branch raises in Python: `none`).
  Hand-written, no Mathlib.
-/
namespace Odak
variable {α : Type} [Num α]

/-- the 1-D index map of `fftshift` (as in `CGrid.fftshift`): `out[b] = in[(b - k/2) mod k]` -/
def fftshiftIdx {k : Nat} (b : Fin k) : Fin k := ⟨(b.val + k - k / 2) % k, Nat.mod_lt _ b.pos⟩
/-- the 1-D index map of `ifftshift` (as in `CGrid.ifftshift`): `out[b] = in[(b + k/2) mod k]` -/
def ifftshiftIdx {k : Nat} (b : Fin k) : Fin k := ⟨(b.val + k / 2) % k, Nat.mod_lt _ b.pos⟩

/-- a stack `[k × n × m]` of complex fields -/
abbrev CStack (α : Type) (k n m : Nat) := Vector (CGrid α n m) k

namespace CStack
variable {k n m : Nat}

/-- `fft2` of a 3-D tensor: the last two axes of every field -/
def fft2 (us : CStack α k n m) : CStack α k n m := us.map CGrid.fft2
def ifft2 (us : CStack α k n m) : CStack α k n m := us.map CGrid.ifft2
/-- `fftshift(x)` without `dim`: all three axes are rolled, the batch axis by `k / 2` -/
def fftshiftAll (us : CStack α k n m) : CStack α k n m := Vector.ofFn fun b => CGrid.fftshift us[fftshiftIdx b]
/-- `ifftshift(x)` without `dim` -/
def ifftshiftAll (us : CStack α k n m) : CStack α k n m := Vector.ofFn fun b => CGrid.ifftshift us[ifftshiftIdx b]
/-- `fftshift(x, dim = (-2, -1))`: the two spatial axes only -/
def fftshift2 (us : CStack α k n m) : CStack α k n m := us.map CGrid.fftshift
def ifftshift2 (us : CStack α k n m) : CStack α k n m := us.map CGrid.ifftshift
/-- `stack * grid` (the grid broadcasts over the batch axis) -/
def mulR (us : CStack α k n m) (g : CGrid α n m) : CStack α k n m := us.map fun u => CGrid.mul u g
/-- `grid * stack` -/
def mulL (g : CGrid α n m) (us : CStack α k n m) : CStack α k n m := us.map fun u => CGrid.mul g u

end CStack

namespace CGrid
variable {n m : Nat}
/-- `grid * c` / `c * grid` with a real scalar `c` -/
def scaleR (c : α) (g : CGrid α n m) : CGrid α n m := Grid.map (Cx.smul c) g
/-- `grid / c` with a real scalar `c` -/
def divR (g : CGrid α n m) (c : α) : CGrid α n m := Grid.map (fun w => Cx.divR w c) g
/-- `torch.conj` -/
def conj (g : CGrid α n m) : CGrid α n m := Grid.map Cx.conj g
end CGrid

/-- `propagation_type` strings of the three transfer-function methods the propagator model covers -/
def PMethod.name : PMethod → String
  | .as => "Angular Spectrum"
  | .tf => "Transfer Function Fresnel"
  | .bl => "Bandlimited Angular Spectrum"

end Odak
