import OdakModel.Index
import OdakModel.DefocusPrelude
import OdakModel.Generated.WaveKernels
import OdakModel.Generated.Defocus
/-!
  Vocabulary of `Generated/Holograms.lean` (the output of `harness/translate/holograms.py`).  Hand-written, Mathlib-free.

  * `Fld β` – an array given by its ELEMENT FUNCTION `el : row → column → β`; its shape is tracked by the translator and passed to the
    operations that need it (`R C`).  Values outside the shape are never read by the generated definitions' results.
  * `Fld.map`, `Fld.zip`, `Fld.const` – element-wise operations (`x * shift`, `calculate_phase(x)`, `generate_complex_field(a, p)`, `ones_like`).
  * `Fld.torchZeroPad h w`, `Fld.torchCropCenter H W`, `Fld.npZeroPad h w`, `Fld.npCropCenter H W` – `zero_pad(field)` / `crop_center(field)`
    with their default arguments, through the index maps of `OdakModel/Index.lean`, i.e. the REGENERATED integer expressions of
    `Generated/IndexExprs.lean`; `…Rows`, `…Cols` are the shapes of their results.
  * `Fld.window H W lo0 hi0 lo1 hi1` – the Python slice `x[lo0:hi0, lo1:hi1]` of an `H x W` array (bounds as Python clamps them);
    `Fld.windowLen H lo hi` its length along an axis; `Fld.storeWindow … x v` – the array after `x[lo0:hi0, lo1:hi1] = v`.
  * `Fld.strided r0 s0 r1 s1 u` – `u[r0::s0, r1::s1]`;  `Fld.storeStrided r0 s0 r1 s1 x v` – the array after `x[r0::s0, r1::s1] = v`.
  * `Fld.gridMax R C x` – `torch.amax(x, [0, 1])`; `Fld.gridMean R C x` – `torch.mean(x)` of an `R x C` array.
  * `Fld.blurSame R C L0 L1 K x` – `conv2d(x, K, padding = 'same')` of an `R x C` image with an `L0 x L1` kernel (`convSame` of
    `OdakModel/DefocusPrelude.lean`, zeros outside the image).
  * `Fld.iterate f n s` – `for _ in range(n): s = f s`;  `Fld.iterateIdx f n s` – `for i in range(n): s = f s i`.
  * `Fld.stackSet`, `Fld.stackSum` – `stack[i] = v`, `np.sum(stack, axis = 0)` for a stack `Nat → Fld`.
-/
namespace Odak.Holo
variable {α : Type} [Num α] {β γ δ σ : Type}

structure Fld (β : Type) where
  el : Nat → Nat → β

namespace Fld

def map (f : β → γ) (u : Fld β) : Fld γ := ⟨fun i j => f (u.el i j)⟩
def zip (f : β → γ → δ) (u : Fld β) (v : Fld γ) : Fld δ := ⟨fun i j => f (u.el i j) (v.el i j)⟩
def const (c : β) : Fld β := ⟨fun _ _ => c⟩

/-- an array read through one index map per axis (`none` = a zero written by padding) -/
def remap (m0 m1 : Index.AxisMap) (zero : β) (u : Fld β) : Fld β :=
  ⟨fun i j => match m0.src i, m1.src j with
    | some a, some b => u.el a b
    | _, _ => zero⟩

def torchZeroPad (h w : Nat) (zero : β) (u : Fld β) : Fld β :=
  remap (Index.torchPad false 0 h w 0 0).2 (Index.torchPad false 1 h w 0 0).2 zero u
def torchZeroPadRows (h w : Nat) : Nat := (Index.torchPad false 0 h w 0 0).2.len
def torchZeroPadCols (h w : Nat) : Nat := (Index.torchPad false 1 h w 0 0).2.len

def torchCropCenter (H W : Nat) (zero : β) (u : Fld β) : Fld β :=
  remap (Index.torchCrop false 0 H W 0 0) (Index.torchCrop false 1 H W 0 0) zero u
def torchCropCenterRows (H W : Nat) : Nat := (Index.torchCrop false 0 H W 0 0).len
def torchCropCenterCols (H W : Nat) : Nat := (Index.torchCrop false 1 H W 0 0).len

def npZeroPad (h w : Nat) (zero : β) (u : Fld β) : Fld β :=
  remap (Index.npPad false 0 h w 0 0).2 (Index.npPad false 1 h w 0 0).2 zero u
def npZeroPadRows (h w : Nat) : Nat := (Index.npPad false 0 h w 0 0).2.len
def npZeroPadCols (h w : Nat) : Nat := (Index.npPad false 1 h w 0 0).2.len

def npCropCenter (H W : Nat) (zero : β) (u : Fld β) : Fld β :=
  remap (Index.npCrop false 0 H W 0 0) (Index.npCrop false 1 H W 0 0) zero u
def npCropCenterRows (H W : Nat) : Nat := (Index.npCrop false 0 H W 0 0).len
def npCropCenterCols (H W : Nat) : Nat := (Index.npCrop false 1 H W 0 0).len

def windowLen (H : Nat) (lo hi : Int) : Nat := (Index.loadAxis H lo hi).len
def window (H W : Nat) (lo0 hi0 lo1 hi1 : Int) (zero : β) (u : Fld β) : Fld β :=
  remap (Index.loadAxis H lo0 hi0) (Index.loadAxis W lo1 hi1) zero u

def storeWindow (H W : Nat) (lo0 hi0 lo1 hi1 : Int) (x v : Fld β) : Fld β :=
  let b0 := Index.pySliceBounds H lo0 hi0
  let b1 := Index.pySliceBounds W lo1 hi1
  ⟨fun i j => if b0.1 ≤ (i : Int) ∧ (i : Int) < b0.2 ∧ b1.1 ≤ (j : Int) ∧ (j : Int) < b1.2
    then v.el ((i : Int) - b0.1).toNat ((j : Int) - b1.1).toNat else x.el i j⟩

def strided (r0 s0 r1 s1 : Nat) (u : Fld β) : Fld β := ⟨fun i j => u.el (r0 + s0 * i) (r1 + s1 * j)⟩

def storeStrided (r0 s0 r1 s1 : Nat) (x v : Fld β) : Fld β :=
  ⟨fun i j => if r0 ≤ i ∧ (i - r0) % s0 = 0 ∧ r1 ≤ j ∧ (j - r1) % s1 = 0
    then v.el ((i - r0) / s0) ((j - r1) / s1) else x.el i j⟩

def gridMax (R C : Nat) (x : Fld α) : α :=
  (List.range R).foldl (fun acc i => (List.range C).foldl (fun acc j => Num.maxN acc (x.el i j)) acc) (x.el 0 0)

def gridMean (R C : Nat) (x : Fld α) : α :=
  (sumFinR R fun i => sumFinR C fun j => x.el i.val j.val) / Num.ofNat (R * C)

def blurSame (R C L0 L1 : Nat) (K : Fin L0 → Fin L1 → α) (x : Fld α) : Fld α :=
  ⟨fun i j => convSame L0 L1 K fun dy dx =>
    let y := (i : Int) + dy
    let c := (j : Int) + dx
    if 0 ≤ y ∧ y < (R : Int) ∧ 0 ≤ c ∧ c < (C : Int) then x.el y.toNat c.toNat else 0⟩

/-- `for _ in range(n): s = f s` -/
def iterate (f : σ → σ) : Nat → σ → σ
  | 0, s => s
  | k + 1, s => iterate f k (f s)

def iterateIdx (f : σ → Nat → σ) : Nat → σ → σ
  | 0, s => s
  | k + 1, s => f (iterateIdx f k s) k

def stackSet (st : Nat → Fld β) (i : Nat) (v : Fld β) : Nat → Fld β := fun k => if k = i then v else st k

def stackSum (cnt : Nat) (st : Nat → Fld (Cx α)) : Fld (Cx α) :=
  ⟨fun i j => Cx.sumFin cnt fun k => (st k.val).el i j⟩

end Fld
end Odak.Holo
