import OdakModel.GenPrelude
import OdakModel.Rays
import OdakModel.Kernels
/-!
  Vocabulary of `Generated/Samplers.lean` (the output of `harness/translate/samplers.py`).  Hand-written, Mathlib-free.

  * `npRotatePointsCall mode angles origin offset p anglesZero` – one row of NumPy `rotate_points(points, angles, mode, origin,
    offset)`: the mode string is looked up in the REGENERATED table `npRotatePointsModes` (`Generated/RotModes.lean`), the body is the
    model `npRotatePoints` (early return `offset + points` when `anglesZero`, else `R (p - origin) + origin + offset`).
  * `torchRotatePointsCall mode angles origin offset p` – the same for torch `rotate_points` (no early return).
  * `rollIndex n shift j` – the source index of element `j` of `np.roll(a, shift)` for a 1-D array of length `n`:
    `(j - shift) mod n`.
  * `linspace a b n i` is `Odak.linspace` of `OdakModel/Kernels.lean`.
-/
namespace Odak.Gen
variable {α : Type} [Num α]

def npRotatePointsCall (mode : String) (angles origin offset p : Vec3 α) (anglesZero : Bool) : Vec3 α :=
  npRotatePoints ((modeOrder npRotatePointsModes mode).getD []) angles origin offset p anglesZero

def torchRotatePointsCall (mode : String) (angles origin offset p : Vec3 α) : Vec3 α :=
  rotatePoint .torch ((modeOrder torchRotatePointsModes mode).getD []) angles origin offset p

def rollIndex (n : Nat) (shift : Int) (j : Nat) : Nat := (((j : Int) - shift) % (n : Int)).toNat

end Odak.Gen
