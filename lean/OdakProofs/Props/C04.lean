import OdakProofs.Lemmas.Kernels
import OdakModel.Beam
import OdakProofs.Lemmas.GenKernels
import OdakProofs.Lemmas.GenPipelines
import Mathlib.Analysis.SpecialFunctions.Sqrt
import Mathlib.Analysis.Calculus.Deriv.Mul
import Mathlib.Analysis.Calculus.Deriv.Add
import Mathlib.Analysis.Calculus.Deriv.Comp

/-! # C04 – all propagation methods model the same physics and the same +z direction  (PARTIAL)
  What a theorem can decide is the part that is formula: the angular-spectrum kernel is the forward
  branch of the Helmholtz dispersion relation, its first-order expansion is the forward Fresnel
  transfer function, the library's lens phase cancels the impulse-response chirp at `z = +f`.
  Discretisation error (agreement with the closed-form Gaussian beam on a finite grid) is only
  measured by the correspondence, and the conjugated Fresnel transfer function of BOTH APIs is a
  listed finding (`OdakProofs/Findings/C04.lean`). -/
namespace Odak

/-- the angular-spectrum phase is `z · kz` with `kx² + ky² + kz² = k²`, `kz ≥ 0`: the forward (+z)
    branch of the dispersion relation, at every grid frequency where the radicand is non-negative -/
theorem C04_as_is_forward_plane_wave_propagator (lam fx fy : ℝ) (hl : 0 < lam)
    (hr : 0 ≤ asRadicand lam fx fy) :
    (2 * Real.pi * fx) ^ 2 + (2 * Real.pi * fy) ^ 2 + (kzOf lam fx fy) ^ 2 = (2 * Real.pi / lam) ^ 2 ∧
    0 ≤ kzOf lam fx fy := by
  have hs : Real.sqrt (asRadicand lam fx fy) ^ 2 = asRadicand lam fx fy := Real.sq_sqrt hr
  constructor
  · simp only [kzOf, num_two, num_pi, num_sqrt]
    have e : (2 * Real.pi / lam * Real.sqrt (asRadicand lam fx fy)) ^ 2
        = (2 * Real.pi / lam) ^ 2 * asRadicand lam fx fy := by rw [mul_pow, hs]
    rw [e]
    simp only [asRadicand, num_sq]
    field_simp
    ring
  · simp only [kzOf, num_two, num_pi, num_sqrt]
    have : 0 ≤ 2 * Real.pi / lam := by positivity
    exact mul_nonneg this (Real.sqrt_nonneg _)

/-- the torch angular-spectrum kernel IS `exp(i z kz)` at every grid point -/
theorem C04_as_kernel_is_exp_i_z_kz (n m : Nat) (dx lam z : ℝ) (hl : lam ≠ 0) (i : Fin n) (j : Fin m) :
    (asKernel n m dx lam z).get i j = Cx.expi (z * kzOf lam (freq dx m j) (freq dx n i)) := by
  simp only [asKernel, Grid.get_ofFn, asPhase, kzOf, num_two, num_pi]
  congr 1
  field_simp

/-- paraxial expansion: `d/dρ [(2π/λ) sqrt(1 - λ² ρ)]` at `ρ = 0` is `-π λ`, so to first order in
    `ρ = fx² + fy²` the angular-spectrum phase `z kz` is `z (k - π λ ρ)` = `paraxialPhase` -/
theorem C04_paraxial_derivative (lam : ℝ) (hl : 0 < lam) :
    HasDerivAt (fun rho : ℝ => 2 * Real.pi / lam * Real.sqrt (1 - lam ^ 2 * rho)) (-(Real.pi * lam)) 0 := by
  have h0 : HasDerivAt (fun rho : ℝ => lam ^ 2 * rho) (lam ^ 2 * 1) 0 := (hasDerivAt_id (0 : ℝ)).const_mul (lam ^ 2)
  have h1 : HasDerivAt (fun rho : ℝ => 1 - lam ^ 2 * rho) (-(lam ^ 2 * 1)) 0 := HasDerivAt.const_sub 1 h0
  have hne : (1 - lam ^ 2 * (0 : ℝ)) ≠ 0 := by norm_num
  have h2 := (h1.sqrt hne).const_mul (2 * Real.pi / lam)
  have e : 2 * Real.pi / lam * (-(lam ^ 2 * 1) / (2 * Real.sqrt (1 - lam ^ 2 * 0))) = -(Real.pi * lam) := by
    rw [mul_zero, sub_zero, Real.sqrt_one]
    field_simp
  rw [e] at h2
  exact h2

/-- the thin-lens phase of `quadratic_phase_function` (`exp(-i k r²/2f)`) times the Fresnel chirp of
    the impulse-response kernels (`exp(+i k r²/2z)`) is 1 at `z = +f` for every radius: a positive
    focal length focuses at `+f`; at `z = -f` the product is the doubled chirp, not 1 -/
theorem C04_lens_phase_cancels_chirp_at_plus_f (k f r2 : ℝ) :
    lensPhase k f r2 * irChirp k f r2 = 1 ∧
    lensPhase k f r2 * irChirp k (-f) r2 = Cx.expi (-(k / f) * r2) := by
  constructor
  · simp only [lensPhase, irChirp, expi_add, num_two]
    rw [show -(k / (2 * f)) * r2 + k / (2 * f) * r2 = 0 by ring, expi_zero]
  · simp only [lensPhase, irChirp, expi_add, num_two]
    congr 1
    by_cases hf : f = 0
    · subst hf; simp
    · field_simp; ring

/-- the Fresnel transfer function AS CODED (both APIs) has phase `-(paraxialPhase …)`: it is the forward
    paraxial kernel for distance `-z`.  Stated as an equation so that the repaired sign makes it fail. -/
theorem C04_tf_kernel_is_paraxial_kernel_of_minus_z (n m : Nat) (dx lam k z : ℝ) (i : Fin n) (j : Fin m) :
    (tfKernel n m dx lam k z).get i j
      = Cx.expi (paraxialPhase lam k (-z) (Num.sq (freq dx m j) + Num.sq (freq dx n i))) := by
  simp only [tfKernel, Grid.get_ofFn, tfPhase, paraxialPhase, num_pi]
  congr 1; ring

/-- the closed-form Gaussian beam used as oracle has the waist amplitude 1 on axis and is the waist
    profile at z = 0 -/
theorem C04_gauss_beam_at_waist (w0 lam r2 : ℝ) (hw : 0 < w0) :
    gaussAmp w0 lam 0 r2 = Real.exp (-(r2 / (w0 * w0))) := by
  simp only [gaussAmp, num_sq, num_pi, num_sqrt, num_exp, zero_div, mul_zero, add_zero, Real.sqrt_one, mul_one]
  rw [div_self hw.ne', one_mul]

example : (0 : ℝ) < 1 / 2 ∧ 0 ≤ asRadicand (1 / 2 : ℝ) 0 0 := by
  simp [asRadicand, num_sq]

end Odak

/-! ## The same statements for the kernels REGENERATED from the Python source on this run
  (`OdakModel/Generated/WaveKernels.lean`, tied to the hand model by `OdakProofs/Lemmas/GenKernels.lean`). -/
namespace Odak
open Gen

/-- the regenerated torch angular-spectrum kernel IS `exp(i z kz)` (forward branch) at every grid point -/
theorem C04_gen_as_kernel_is_exp_i_z_kz (n m : Nat) (dx lam z : ℝ) (hl : lam ≠ 0) (i : Fin n) (j : Fin m) :
    (asKernelT n m dx lam z).get i j = Cx.expi (z * kzOf lam (freq dx m j) (freq dx n i)) := by
  rw [gen_asKernelT_eq]; exact C04_as_kernel_is_exp_i_z_kz n m dx lam z hl i j

/-- the Fresnel transfer function AS THE SOURCE DEFINES IT NOW (torch: `k = wavenumber λ`; NumPy: the caller's `k`) has phase
    `-(paraxialPhase …)`: it is the forward paraxial kernel for distance `-z` (finding F33).  Stated as an equation so that a
    repaired sign in the source makes it fail. -/
theorem C04_gen_tf_kernel_is_paraxial_kernel_of_minus_z (n m : Nat) (dx lam k z : ℝ) (i : Fin n) (j : Fin m) :
    (tfKernelT n m dx lam z).get i j
      = Cx.expi (paraxialPhase lam (wavenumber lam) (-z) (Num.sq (freq dx m j) + Num.sq (freq dx n i))) ∧
    (tfKernelN n m dx lam k z).get i j
      = Cx.expi (paraxialPhase lam k (-z) (Num.sq (freq dx m j) + Num.sq (freq dx n i))) := by
  rw [gen_tfKernelT_eq, gen_tfKernelN_eq]
  exact ⟨C04_tf_kernel_is_paraxial_kernel_of_minus_z n m dx lam _ z i j,
    C04_tf_kernel_is_paraxial_kernel_of_minus_z n m dx lam k z i j⟩

/-- the spatial impulse response the source builds inside NumPy `impulse_response_fresnel` is `1/(iλz)` times the Fresnel chirp
    `exp(+i k r²/2z)` that the thin-lens phase cancels at `z = +f` (C04_lens_phase_cancels_chirp_at_plus_f) -/
theorem C04_gen_np_ir_kernel_is_chirp (n m : Nat) (dx lam k z : ℝ) (i : Fin n) (j : Fin m) :
    ∃ r2 : ℝ, (irKernelN n m dx lam k z).get i j = (⟨0, -(1 / (lam * z))⟩ : Cx ℝ) * irChirp k z r2 := by
  rw [gen_irKernelN_eq]
  simp only [npIrKernel, Grid.get_ofFn, irChirp]
  exact ⟨_, rfl⟩

end Odak

/-! ## The same physics through the PIPELINES regenerated from the Python source on this run
  (`OdakModel/Generated/Pipelines.lean`, tied to the hand model by `OdakProofs/Lemmas/GenPipelines.lean`). -/
namespace Odak
open Gen

/-- **a stack is propagated field by field.**  torch `custom` calls `fftshift` / `ifftshift` WITHOUT `dim`, so for a stack
    `[k × n × m]` the batch axis is rolled by `k/2` before the products with the aperture and the kernel and rolled back after
    them.  The regenerated stack pipeline equals the 2-D pipeline applied to every field of the stack, for EVERY `k` (odd `k`
    included: `ifftshift ∘ fftshift = id` along the batch axis) and every scalar instantiation; it stops compiling when only one
    of the two shifts is restricted to the spatial axes. -/
theorem C04_gen_stack_is_fieldwise {α : Type} [Num α] {k n m : Nat} (us : CStack α k n m) (H A : CGrid α n m) :
    customStackT us H A = us.map (fun u => customT u H A) ∧
    ∀ i : Fin k, (customStackT us H A)[i] = custom us[i] H A := by
  refine ⟨gen_customStackT_eq us H A, fun i => ?_⟩
  rw [gen_customStackT_eq]
  show (Vector.map _ _)[i.val] = _
  rw [Vector.getElem_map]; rfl

/-- every regenerated torch method hands the kernel of ITS OWN propagation type to `custom` (with the caller's aperture), and the
    dispatch of `propagate_beam` sends each type string to that method: all methods share one pipeline and differ in the kernel
    only, so the kernel statements of C04 are statements about what `propagate_beam` computes -/
theorem C04_gen_methods_share_the_custom_pipeline {n m : Nat} (u A Kc : CGrid ℝ n m) (dx lam k z : ℝ) (s0 s1 s2 s3 : Nat) :
    propagateBeamT_FFF "Angular Spectrum" u A Kc dx lam k z s0 s1 s2 s3 = some (custom u (asKernel n m dx lam z) A) ∧
    propagateBeamT_FFF "Bandlimited Angular Spectrum" u A Kc dx lam k z s0 s1 s2 s3 = some (custom u (blKernel n m dx lam z) A) ∧
    propagateBeamT_FFF "Transfer Function Fresnel" u A Kc dx lam k z s0 s1 s2 s3
      = some (custom u (tfKernel n m dx lam (wavenumber lam) z) A) ∧
    propagateBeamT_FFF "Impulse Response Fresnel" u A Kc dx lam k z s0 s1 s2 s3
      = some (custom u (irKernel n m dx lam z s0 s1 s2 s3) A) ∧
    propagateBeamT_FFF "custom" u A Kc dx lam k z s0 s1 s2 s3 = some (custom u Kc A) ∧
    propagateBeamT_FFF "no such method" u A Kc dx lam k z s0 s1 s2 s3 = none := by
  simp [gen_beamCore_eq, torchBeamCore, torchKernel]

end Odak
