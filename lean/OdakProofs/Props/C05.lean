import OdakProofs.Lemmas.DRel
import OdakProofs.Lemmas.Chk
import OdakModel.Polar
import OdakModel.Kernels
import OdakModel.Geometry
import OdakModel.Rays
import OdakModel.Losses
import OdakModel.Generated.Colour
import OdakModel.Generated.GradBreakers
import Mathlib.Logic.Function.Iterate
import OdakProofs.Lemmas.GenMeshObject
import OdakProofs.Lemmas.MeshObjectInst

/-!
# C05 – the dual-number evaluation of a model function is its value and its true derivative

`DRel x f D` (OdakProofs/Lemmas/DRel.lean) says `D.v = f x ∧ HasDerivAt f D.d x`.  Every theorem below has
the shape "the model function run at `Dual ℝ` on the input `p + ε·v` is `DRel 0` to `t ↦ (the model
function at ℝ) (p + t·v)`", i.e. the executable forward-mode oracle the harness compares torch autograd
against *is* the directional derivative.  Documented non-smooth points are side conditions.
-/
namespace Odak

/-- what the relation delivers: the value part is the function value and the derivative part is `deriv` -/
theorem C05_oracle_sound {x : ℝ} {f : ℝ → ℝ} {D : Dual ℝ} (h : DRel x f D) :
    D.v = f x ∧ HasDerivAt f D.d x ∧ deriv f x = D.d ∧ DifferentiableAt ℝ f x :=
  ⟨h.1, h.2, h.2.deriv, h.2.differentiableAt⟩

/-! ## wave: amplitude / phase ⇄ complex field -/

/-- `generate_complex_field(a, φ)`: no side condition -/
theorem C05_gen_field_ad (a φ va vφ : ℝ) :
    DRel 0 (fun t => (genField (a + t * va) (φ + t * vφ)).re) (genField (⟨a, va⟩ : Dual ℝ) ⟨φ, vφ⟩).re ∧
    DRel 0 (fun t => (genField (a + t * va) (φ + t * vφ)).im) (genField (⟨a, va⟩ : Dual ℝ) ⟨φ, vφ⟩).im := by
  simp only [genField, Cx.polar]
  constructor <;> drel

/-- `calculate_amplitude = |u|`, away from the documented non-smooth point `u = 0` -/
theorem C05_amplitude_ad (re im vre vim : ℝ) (h : re ≠ 0 ∨ im ≠ 0) :
    DRel 0 (fun t => calcAmplitude (⟨re + t * vre, im + t * vim⟩ : Cx ℝ))
      (calcAmplitude (⟨⟨re, vre⟩, ⟨im, vim⟩⟩ : Cx (Dual ℝ))) := by
  simp only [calcAmplitude, Cx.abs, Cx.normSq]
  drel
  simp only [zero_mul, add_zero]
  rcases h with h | h
  · have := mul_self_pos.mpr h; nlinarith [mul_self_nonneg im]
  · have := mul_self_pos.mpr h; nlinarith [mul_self_nonneg re]

/-- `calculate_phase = atan2(im, re)`, away from the branch cut (non-positive real axis) -/
theorem C05_phase_ad (re im vre vim : ℝ) (h : 0 < re ∨ im ≠ 0) :
    DRel 0 (fun t => calcPhase (⟨re + t * vre, im + t * vim⟩ : Cx ℝ))
      (calcPhase (⟨⟨re, vre⟩, ⟨im, vim⟩⟩ : Cx (Dual ℝ))) := by
  simp only [calcPhase, Cx.arg]
  drel
  simpa using h

/-! ## propagation kernels as functions of the distance `z` -/

/-- angular-spectrum phase: differentiable in `z` everywhere (the square root does not involve `z`) … -/
theorem C05_as_phase_ad (n m : Nat) (dx lam z : ℝ) (i : Fin n) (j : Fin m) :
    DRel z (fun z' => asPhase n m dx lam z' i j)
      (asPhase n m (Dual.const dx) (Dual.const lam) (Dual.var z) i j) := by
  simp only [asPhase, asRadicand, freq, linspace]
  dual_const
  exact DRel.mul DRel.var' (DRel.const' _)

/-- … and the derivative part is the phase per unit distance -/
theorem C05_as_phase_slope (n m : Nat) (dx lam z : ℝ) (i : Fin n) (j : Fin m) :
    (asPhase n m (Dual.const dx) (Dual.const lam) (Dual.var z) i j).d = asPhase n m dx lam 1 i j := by
  simp only [asPhase, asRadicand, freq, linspace]
  dual_const
  simp only [Dual.mul_d, Dual.var_d, Dual.var_v, Dual.const_d, Dual.const_v, mul_zero, add_zero]

/-- Fresnel transfer-function phase `-z (k - π λ (FX² + FY²))` as a function of `z` -/
theorem C05_tf_phase_ad (n m : Nat) (dx lam k z : ℝ) (i : Fin n) (j : Fin m) :
    DRel z (fun z' => tfPhase n m dx lam k z' i j)
      (tfPhase n m (Dual.const dx) (Dual.const lam) (Dual.const k) (Dual.var z) i j) := by
  simp only [tfPhase, freq, linspace]
  dual_const
  exact DRel.neg (DRel.mul DRel.var' (DRel.const' _))

theorem C05_tf_phase_slope (n m : Nat) (dx lam k z : ℝ) (i : Fin n) (j : Fin m) :
    (tfPhase n m (Dual.const dx) (Dual.const lam) (Dual.const k) (Dual.var z) i j).d
      = tfPhase n m dx lam k 1 i j := by
  simp only [tfPhase, freq, linspace]
  dual_const
  simp only [Dual.neg_d, Dual.mul_d, Dual.var_d, Dual.var_v, Dual.const_d, Dual.const_v, mul_zero, add_zero]

/-! ## ray tracing -/

/-- `reflect`: `d - 2 (d·n)/(n·n + ε) n` as a function of the incoming direction `d` -/
theorem C05_reflect_ad (eps : ℝ) (d vd n : Vec3 ℝ) (h : Vec3.dot n n + eps ≠ 0) :
    DRel 0 (fun t => (reflectDir eps (d + Vec3.smul t vd) n).x)
      (reflectDir (Dual.const eps) (Dual.vec3 d vd) (Dual.constVec3 n)).x ∧
    DRel 0 (fun t => (reflectDir eps (d + Vec3.smul t vd) n).y)
      (reflectDir (Dual.const eps) (Dual.vec3 d vd) (Dual.constVec3 n)).y ∧
    DRel 0 (fun t => (reflectDir eps (d + Vec3.smul t vd) n).z)
      (reflectDir (Dual.const eps) (Dual.vec3 d vd) (Dual.constVec3 n)).z := by
  simp only [reflectDir, Vec3.smul, Vec3.dot, DAux.vsub, DAux.vadd, Dual.vec3, Dual.constVec3]
  refine ⟨?_, ?_, ?_⟩ <;> drel

/-- `create_ray_from_two_points`: direction cosines as a function of the end point, `p0 ≠ p1` -/
theorem C05_ray_direction_ad (p0 p1 v : Vec3 ℝ) (h : p0 ≠ p1) :
    DRel 0 (fun t => (rayDirTwoPoints p0 (p1 + Vec3.smul t v)).x)
      (rayDirTwoPoints (Dual.constVec3 p0) (Dual.vec3 p1 v)).x ∧
    DRel 0 (fun t => (rayDirTwoPoints p0 (p1 + Vec3.smul t v)).y)
      (rayDirTwoPoints (Dual.constVec3 p0) (Dual.vec3 p1 v)).y ∧
    DRel 0 (fun t => (rayDirTwoPoints p0 (p1 + Vec3.smul t v)).z)
      (rayDirTwoPoints (Dual.constVec3 p0) (Dual.vec3 p1 v)).z := by
  have hpos : 0 < (p1.x - p0.x) * (p1.x - p0.x) + (p1.y - p0.y) * (p1.y - p0.y)
      + (p1.z - p0.z) * (p1.z - p0.z) := by
    by_contra hc
    have h1 := mul_self_nonneg (p1.x - p0.x)
    have h2 := mul_self_nonneg (p1.y - p0.y)
    have h3 := mul_self_nonneg (p1.z - p0.z)
    have e1 : p1.x - p0.x = 0 := mul_self_eq_zero.mp (by linarith)
    have e2 : p1.y - p0.y = 0 := mul_self_eq_zero.mp (by linarith)
    have e3 : p1.z - p0.z = 0 := mul_self_eq_zero.mp (by linarith)
    apply h
    cases p0; cases p1
    simp only [Vec3.mk.injEq]
    exact ⟨by linarith, by linarith, by linarith⟩
  simp only [rayDirTwoPoints, Vec3.sdiv, Vec3.norm, Vec3.normSq, Vec3.smul, Vec3.dot, DAux.vsub,
    DAux.vadd, Dual.vec3, Dual.constVec3]
  refine ⟨?_, ?_, ?_⟩ <;> drel <;>
    first
    | (simp only [zero_mul, add_zero]; exact hpos)
    | (simp only [zero_mul, add_zero, num_sqrt]; exact (Real.sqrt_pos.mpr hpos).ne')

/-- `create_ray(xyz, abg)`: the direction cosines `cos(deg2rad(abg))` are differentiable in the angles EVERYWHERE, in particular at
    90 and 270 degrees where the cosine vanishes; the derivative is `-sin(abg·π/180)·π/180` per degree (second conjunct: the
    derivative part of the dual evaluation is exactly that, so it is non-zero at axis-aligned rays) -/
theorem C05_create_ray_ad (abg v : Vec3 ℝ) :
    DRel 0 (fun t => (createRayDir (abg + Vec3.smul t v)).x) (createRayDir (Dual.vec3 abg v)).x ∧
    DRel 0 (fun t => (createRayDir (abg + Vec3.smul t v)).y) (createRayDir (Dual.vec3 abg v)).y ∧
    DRel 0 (fun t => (createRayDir (abg + Vec3.smul t v)).z) (createRayDir (Dual.vec3 abg v)).z := by
  simp only [createRayDir, Vec3.smul, DAux.vadd, Dual.vec3]
  refine ⟨?_, ?_, ?_⟩ <;> drel

theorem C05_create_ray_slope (abg v : Vec3 ℝ) :
    (createRayDir (Dual.vec3 abg v)).x.d = -(v.x * Real.pi / 180 * Real.sin (abg.x * Real.pi / 180)) := by
  simp only [createRayDir, Dual.vec3, Dual.cos_d, Dual.div_d, Dual.div_v, Dual.mul_d, Dual.mul_v, Dual.pi_v, Dual.pi_d,
    Dual.ofNat_v, Dual.ofNat_d]
  push_cast
  field_simp
  ring

/-- `propagate_ray`: the new start point `t·d + o` as a function of origin, direction and distance together -/
theorem C05_propagate_ray_ad (o vo d vd : Vec3 ℝ) (t vt : ℝ) :
    DRel 0 (fun s => (propagateRay (o + Vec3.smul s vo) (d + Vec3.smul s vd) (t + s * vt)).x)
      (propagateRay (Dual.vec3 o vo) (Dual.vec3 d vd) (⟨t, vt⟩ : Dual ℝ)).x ∧
    DRel 0 (fun s => (propagateRay (o + Vec3.smul s vo) (d + Vec3.smul s vd) (t + s * vt)).y)
      (propagateRay (Dual.vec3 o vo) (Dual.vec3 d vd) (⟨t, vt⟩ : Dual ℝ)).y ∧
    DRel 0 (fun s => (propagateRay (o + Vec3.smul s vo) (d + Vec3.smul s vd) (t + s * vt)).z)
      (propagateRay (Dual.vec3 o vo) (Dual.vec3 d vd) (⟨t, vt⟩ : Dual ℝ)).z := by
  simp only [propagateRay, Vec3.smul, DAux.vadd, Dual.vec3]
  refine ⟨?_, ?_, ?_⟩ <;> drel

/-- `intersect_w_surface`: the hit point as a function of the ray origin, for a ray that is not parallel
    to the triangle (`n·d ≠ 0`; this also excludes a degenerate triangle, whose model normal is `0`) -/
theorem C05_intersect_ad (o vo d p0 p1 p2 : Vec3 ℝ)
    (h : Vec3.dot (triangleNormalDir p0 p1 p2) d ≠ 0) :
    DRel 0 (fun t => (intersectSurface (o + Vec3.smul t vo) d p0 p1 p2).point.x)
      (intersectSurface (Dual.vec3 o vo) (Dual.constVec3 d) (Dual.constVec3 p0) (Dual.constVec3 p1)
        (Dual.constVec3 p2)).point.x ∧
    DRel 0 (fun t => (intersectSurface (o + Vec3.smul t vo) d p0 p1 p2).point.y)
      (intersectSurface (Dual.vec3 o vo) (Dual.constVec3 d) (Dual.constVec3 p0) (Dual.constVec3 p1)
        (Dual.constVec3 p2)).point.y ∧
    DRel 0 (fun t => (intersectSurface (o + Vec3.smul t vo) d p0 p1 p2).point.z)
      (intersectSurface (Dual.vec3 o vo) (Dual.constVec3 d) (Dual.constVec3 p0) (Dual.constVec3 p1)
        (Dual.constVec3 p2)).point.z := by
  have hn : triangleNormalDir (Dual.constVec3 p0) (Dual.constVec3 p1) (Dual.constVec3 p2)
      = Dual.constVec3 (triangleNormalDir p0 p1 p2) := by
    simp only [triangleNormalDir, triangleCross, Vec3.cross, Vec3.sdiv, Vec3.norm, Vec3.normSq, Vec3.dot,
      DAux.vsub, Dual.constVec3]
    dual_const
  have hc : centerOfTriangle (Dual.constVec3 p0) (Dual.constVec3 p1) (Dual.constVec3 p2)
      = Dual.constVec3 (centerOfTriangle p0 p1 p2) := by
    simp only [centerOfTriangle, Vec3.sdiv, DAux.vadd, Dual.constVec3]
    dual_const
  simp only [intersectSurface, hn, hc]
  generalize triangleNormalDir p0 p1 p2 = n at h ⊢
  generalize centerOfTriangle p0 p1 p2 = c
  simp only [rayParam, Vec3.smul, Vec3.dot, DAux.vsub, DAux.vadd, Dual.vec3, Dual.constVec3]
  refine ⟨?_, ?_, ?_⟩ <;> drel

/-! ## losses -/

/-- `MSELoss(a, b)` as a function of the image `a` (any length, any direction `va`) -/
theorem C05_mse_ad (a va b : List ℝ) :
    DRel 0 (fun t => mse (List.zipWith (fun x v => x + t * v) a va) b)
      (mse (List.zipWith Dual.mk a va) (b.map Dual.const)) := by
  simp only [mse, sumL, List.length_zipWith, Dual.ofNat_eq_const]
  apply DRel.div_const
  refine DRel.foldl_zipWith _ _ ?_ a va b DRel.zero
  intro a v b
  drel

/-- the two-sample instance spelled out -/
theorem C05_mse_ad_two (a1 a2 v1 v2 b1 b2 : ℝ) :
    DRel 0 (fun t => mse [a1 + t * v1, a2 + t * v2] [b1, b2])
      (mse [(⟨a1, v1⟩ : Dual ℝ), ⟨a2, v2⟩] [Dual.const b1, Dual.const b2]) :=
  C05_mse_ad [a1, a2] [v1, v2] [b1, b2]

/-- `wrapped_mean_squared_error` as a function of the (phase) image -/
theorem C05_wrapped_mse_ad (a va b : List ℝ) :
    DRel 0 (fun t => wrappedMse (List.zipWith (fun x v => x + t * v) a va) b)
      (wrappedMse (List.zipWith Dual.mk a va) (b.map Dual.const)) := by
  simp only [wrappedMse, sumL, List.length_zipWith, Dual.ofNat_eq_const]
  apply DRel.div_const
  refine DRel.foldl_zipWith _ _ ?_ a va b DRel.zero
  intro a v b
  drel

/-! ## colour -/

/-- `rgb_2_ycrcb` is affine: all three channels, any colour, any direction -/
theorem C05_ycrcb_ad (c vc : Vec3 ℝ) :
    DRel 0 (fun t => (Gen.rgb2ycrcb (c + Vec3.smul t vc)).x) (Gen.rgb2ycrcb (Dual.vec3 c vc)).x ∧
    DRel 0 (fun t => (Gen.rgb2ycrcb (c + Vec3.smul t vc)).y) (Gen.rgb2ycrcb (Dual.vec3 c vc)).y ∧
    DRel 0 (fun t => (Gen.rgb2ycrcb (c + Vec3.smul t vc)).z) (Gen.rgb2ycrcb (Dual.vec3 c vc)).z := by
  simp only [Gen.rgb2ycrcb, Vec3.smul, DAux.vadd, Dual.vec3]
  refine ⟨?_, ?_, ?_⟩ <;> drel

/-- `srgb_to_lab`'s gamma expansion, away from the threshold `0.04045` where the two pieces meet -/
theorem C05_srgb_to_linear_ad (x v : ℝ) (h : x ≠ 0.04045) :
    DRel 0 (fun t => Gen.srgbToLinear (x + t * v)) (Gen.srgbToLinear (⟨x, v⟩ : Dual ℝ)) := by
  have hthr : (Num.ofSci 4045 true 5 : ℝ) = 0.04045 := by rw [num_ofSci]; norm_num
  have h55 : (Num.ofSci 55 true 3 : ℝ) = 0.055 := by rw [num_ofSci]; norm_num
  have h1055 : (Num.ofSci 1055 true 3 : ℝ) ≠ 0 := by rw [num_ofSci]; norm_num
  have h1292 : (Num.ofSci 1292 true 2 : ℝ) ≠ 0 := by rw [num_ofSci]; norm_num
  simp only [Gen.srgbToLinear, num_select, Dual.select_eq_ite]
  rcases lt_or_gt_of_ne h with hlt | hgt
  · refine DRel.ite_lt_neg (DRel.ofSci _ _ _) (DRel.line _ _) ?_ ?_
    · drel
    · simp only [zero_mul, add_zero, hthr]; exact hlt
  · refine DRel.ite_lt_pos (DRel.ofSci _ _ _) (DRel.line _ _) ?_ ?_
    · drel
      simp only [zero_mul, add_zero, h55]
      refine div_ne_zero ?_ h1055
      intro hc; linarith
    · simp only [zero_mul, add_zero, hthr]; exact hgt

/-! ## the Newton iteration of `refract` -/

/-- one Newton step, in chain-rule form: any differentiable input `f` with `f x + a ≠ 0` -/
theorem C05_newton_step_ad (a b : ℝ) {x : ℝ} {f : ℝ → ℝ} {F : Dual ℝ} (hf : DRel x f F)
    (h : f x + a ≠ 0) :
    DRel x (fun s => refrStep a b (f s)) (refrStep (Dual.const a) (Dual.const b) F) := by
  simp only [refrStep]
  drel
  simp only [num_two]
  exact mul_ne_zero two_ne_zero h

/-- any number of Newton steps, as long as no iterate hits the pole `t + a = 0` -/
theorem C05_newton_iterates_ad (a b t : ℝ) (k : Nat)
    (h : ∀ j < k, (refrStep a b)^[j] t + a ≠ 0) :
    DRel t (fun s => (refrStep a b)^[k] s)
      ((refrStep (Dual.const a) (Dual.const b))^[k] (Dual.var t)) := by
  induction k with
  | zero => exact DRel.var'
  | succ k ih =>
    simp only [Function.iterate_succ_apply']
    exact C05_newton_step_ad a b (ih fun j hj => h j (Nat.lt_succ_of_lt hj)) (h k (Nat.lt_succ_self k))

/-! ## non-vacuity -/

/-- a concrete oracle value: `d/dx sin x` at `0` is `1` -/
example : (Num.sin (Dual.var (0 : ℝ))).d = 1 := by
  simp [Dual.sin_d, Dual.var_d, Dual.var_v]

/-- `d/dz` of `|z|` at `3 + 4i` along the real axis is `3/5`, and the oracle says so -/
example : (calcAmplitude (⟨⟨3, 1⟩, ⟨4, 0⟩⟩ : Cx (Dual ℝ))).d = 3 / 5 := by
  have h5 : Real.sqrt (3 * 3 + 4 * 4) = 5 := by
    rw [show (3 * 3 + 4 * 4 : ℝ) = 5 ^ 2 by norm_num]; exact Real.sqrt_sq (by norm_num)
  simp only [calcAmplitude, Cx.abs, Cx.normSq, Dual.sqrt_d, Dual.add_d, Dual.add_v, Dual.mul_d, Dual.mul_v,
    num_two, h5]
  norm_num

/-- the side conditions are satisfiable … -/
example : DRel 0 (fun t => calcAmplitude (⟨3 + t * 1, 4 + t * 0⟩ : Cx ℝ))
    (calcAmplitude (⟨⟨3, 1⟩, ⟨4, 0⟩⟩ : Cx (Dual ℝ))) :=
  C05_amplitude_ad 3 4 1 0 (Or.inl (by norm_num))

example : DRel 0 (fun t => calcPhase (⟨0 + t * 1, 1 + t * 0⟩ : Cx ℝ))
    (calcPhase (⟨⟨0, 1⟩, ⟨1, 0⟩⟩ : Cx (Dual ℝ))) :=
  C05_phase_ad 0 1 1 0 (Or.inr one_ne_zero)

/-- … and necessary: at `u = 0` the amplitude `t ↦ |t|` is not differentiable (the documented point) -/
example : ¬ DifferentiableAt ℝ (fun t => calcAmplitude (⟨0 + t * 1, 0 + t * 0⟩ : Cx ℝ)) 0 := by
  have : (fun t : ℝ => calcAmplitude (⟨0 + t * 1, 0 + t * 0⟩ : Cx ℝ)) = fun t => |t| := by
    funext t
    simp only [calcAmplitude, Cx.abs, Cx.normSq, num_sqrt, zero_add, mul_one, mul_zero, add_zero]
    exact Real.sqrt_mul_self_eq_abs t
  rw [this]; exact not_differentiableAt_abs_zero

/-- the Newton hypothesis holds for every iteration count at the root `τ = 1` of `τ² - 1` -/
example (k : Nat) : DRel 1 (fun s => (refrStep 0 (-1))^[k] s)
    ((refrStep (Dual.const 0) (Dual.const (-1)))^[k] (Dual.var 1)) := by
  refine C05_newton_iterates_ad 0 (-1) 1 k fun j _ => ?_
  have hfix : refrStep (0 : ℝ) (-1) 1 = 1 := by simp [refrStep, num_sq]
  rw [Function.iterate_fixed hfix]; norm_num

/-- a reflecting surface with `n·n + ε ≠ 0` -/
example : DRel 0 (fun t => (reflectDir 0 ((⟨1, 0, -1⟩ : Vec3 ℝ) + Vec3.smul t ⟨0, 1, 0⟩) ⟨0, 0, 1⟩).x)
    (reflectDir (Dual.const 0) (Dual.vec3 ⟨1, 0, -1⟩ ⟨0, 1, 0⟩) (Dual.constVec3 ⟨0, 0, 1⟩)).x :=
  (C05_reflect_ad 0 ⟨1, 0, -1⟩ ⟨0, 1, 0⟩ ⟨0, 0, 1⟩ (by simp [Vec3.dot])).1

/-- a non-parallel ray onto the triangle `(1,0,0), (0,0,0), (0,1,0)` (normal `(0,0,1)`) -/
example : Vec3.dot (triangleNormalDir (⟨1, 0, 0⟩ : Vec3 ℝ) ⟨0, 0, 0⟩ ⟨0, 1, 0⟩) ⟨0, 0, 1⟩ ≠ 0 := by
  simp [triangleNormalDir, triangleCross, Vec3.cross, Vec3.sdiv, Vec3.norm, Vec3.normSq, Vec3.dot,
    DAux.vsub]

/-- both pieces of the sRGB curve are covered -/
example : DRel 0 (fun t => Gen.srgbToLinear (0.5 + t * 1)) (Gen.srgbToLinear (⟨0.5, 1⟩ : Dual ℝ)) :=
  C05_srgb_to_linear_ad 0.5 1 (by norm_num)
example : DRel 0 (fun t => Gen.srgbToLinear (0.01 + t * 1)) (Gen.srgbToLinear (⟨0.01, 1⟩ : Dual ℝ)) :=
  C05_srgb_to_linear_ad 0.01 1 (by norm_num)


/-! ## no NaN/Inf: every local derivative on the autograd graph of the colour conversions is finite

`torch.where(c, a, b)` evaluates both branches and back-propagates `mask · grad a + (1 - mask) · grad b`; over ℝ that is the
gradient of the chosen branch (`Dual.select_eq_ite`), in IEEE arithmetic an infinite slope in the UNSELECTED branch gives
`0 · inf = NaN`.  `Chk ℝ` (OdakModel/Chk.lean) runs the regenerated per-pixel functions and flags any primitive whose local
slope is infinite at the value it receives, in either branch.  The theorems say the flag stays `true` on the whole valid
domain; they are statements about the source as it is now (the functions are regenerated from it), and they fail to compile
when a clamp inside a power branch is removed (black pixels then give NaN gradients: finding F36, seeded change C05). -/

/-- `linear_rgb_to_rgb`: finite gradient at EVERY input (the power is taken of `max(x, threshold)`) -/
theorem C05_linear_to_srgb_grad_defined (x : ℝ) : (Gen.linearToSrgb (Chk.var x)).ok = true := by
  have hthr : (0:ℝ) < (Num.ofSci 31308 true 7 : ℝ) := by rw [num_ofSci]; norm_num
  have h24 : (Num.ofSci 24 true 1 : ℝ) ≠ 0 := by rw [num_ofSci]; norm_num
  have hm : 0 < (Num.maxN (Chk.var x) (Num.ofSci 31308 true 7 : Chk ℝ)).v := by
    rw [Chk.maxN_v]; exact lt_of_lt_of_le hthr (le_max_right _ _)
  have hmo : (Num.maxN (Chk.var x) (Num.ofSci 31308 true 7 : Chk ℝ)).ok = true := Chk.maxN_ok _ _ rfl rfl
  simp [Gen.linearToSrgb, Num.powPos, hm, hmo, h24]

/-- `rgb_to_linear_rgb`: finite gradient for every `x > -0.055`, in particular on all of `[0, 1]` -/
theorem C05_srgb_to_linear_grad_defined (x : ℝ) (hx : 0 ≤ x) : (Gen.srgbToLinear (Chk.var x)).ok = true := by
  have h1055 : (Num.ofSci 1055 true 3 : ℝ) ≠ 0 := by rw [num_ofSci]; norm_num
  have h1292 : (Num.ofSci 1292 true 2 : ℝ) ≠ 0 := by rw [num_ofSci]; norm_num
  have hp : 0 < (x + (Num.ofSci 55 true 3 : ℝ)) / (Num.ofSci 1055 true 3 : ℝ) := by
    rw [num_ofSci, num_ofSci]; norm_num; positivity
  simp [Gen.srgbToLinear, Num.powPos, h1055, h1292, hp]

/-- `lab_to_srgb`: finite gradient at EVERY Lab triple (black, out-of-gamut and negative linear values included) -/
theorem C05_lab_to_srgb_grad_defined (c : Vec3 ℝ) : Chk.allOk (Gen.labToSrgb (Chk.vec c)) = true := by
  have h24 : (Num.ofSci 24 true 1 : ℝ) ≠ 0 := by rw [num_ofSci]; norm_num
  have hthr' : (0:ℝ) < (Num.ofSci 31308 true 7 : ℝ) := by rw [num_ofSci]; norm_num
  simp only [Gen.labToSrgb, Chk.allOk, Chk.vec, Bool.and_eq_true, Chk.select_ok, Chk.sub_ok, Chk.mul_ok, Chk.ofSci_ok,
    Bool.true_and, Bool.and_true]
  repeat' constructor
  all_goals first | (apply Chk.clampPow_ok <;> simp [h24, hthr']) | simp [h24]

/-- `srgb_to_lab`: finite gradient at every pixel with non-negative channels (black included) -/
theorem C05_srgb_to_lab_grad_defined (c : Vec3 ℝ) (hx : 0 ≤ c.x) (hy : 0 ≤ c.y) (hz : 0 ≤ c.z) :
    Chk.allOk (Gen.srgbToLab (Chk.vec c)) = true := by
  have h1055 : (Num.ofSci 1055 true 3 : ℝ) ≠ 0 := by rw [num_ofSci]; norm_num
  have h1292 : (Num.ofSci 1292 true 2 : ℝ) ≠ 0 := by rw [num_ofSci]; norm_num
  have h24 : (Num.ofSci 24 true 1 : ℝ) ≠ 0 := by rw [num_ofSci]; norm_num
  have hp : ∀ t : ℝ, 0 ≤ t → 0 < (t + (Num.ofSci 55 true 3 : ℝ)) / (Num.ofSci 1055 true 3 : ℝ) := by
    intro t ht; rw [num_ofSci, num_ofSci]; norm_num; positivity
  have hd : (0:ℝ) < ((Num.ofNat 6 : Chk ℝ) / Num.ofNat 29 * ((Num.ofNat 6 : Chk ℝ) / Num.ofNat 29 * ((Num.ofNat 6 : Chk ℝ) / Num.ofNat 29))).v := by
    simp
  simp only [Gen.srgbToLab, Chk.allOk, Chk.vec, Bool.and_eq_true, Chk.select_ok, Chk.sub_ok, Chk.mul_ok, Chk.add_ok,
    Chk.ofSci_ok, Chk.ofNat_ok, Bool.true_and, Bool.and_true]
  repeat' constructor
  all_goals try (apply Chk.clampPow_ok)
  all_goals try exact hd
  all_goals try simp [h1055, h1292, h24, hp, hx, hy, hz]
  all_goals try (repeat' constructor)
  all_goals try (apply Chk.powPos_ok <;> simp [h1055, hp, hx, hy, hz])

/-- the linear conversions have no singular primitive at all -/
theorem C05_linear_colour_grad_defined (c : Vec3 ℝ) :
    Chk.allOk (Gen.rgb2ycrcb (Chk.vec c)) = true ∧ Chk.allOk (Gen.ycrcb2rgb (Chk.vec c)) = true ∧
    Chk.allOk (Gen.linearRgbToXyz (Chk.vec c)) = true ∧ Chk.allOk (Gen.xyzToLinearRgb (Chk.vec c)) = true := by
  refine ⟨?_, ?_, ?_, ?_⟩ <;> simp [Gen.rgb2ycrcb, Gen.ycrcb2rgb, Gen.linearRgbToXyz, Gen.xyzToLinearRgb, Chk.allOk, Chk.vec]

/-- the mechanism itself: WITHOUT the clamp a `where` with a fractional power is singular at a black pixel, although the
    selected branch is the linear one (this is what the source looked like before F36 / what seeded change C05 restores) -/
theorem C05_where_pow_unclamped_singular_at_zero (thr e k : Chk ℝ) :
    (Num.select (decide (thr < Chk.var 0)) (Num.powPos (Chk.var 0) e) (k * Chk.var 0)).ok = false := by
  simp [Num.powPos]

/-! ## odak keeps the computation inside autograd: the constructs that leave the graph are exactly the reviewed ones

`Generated/GradBreakers.lean` is regenerated from the source on every run: every `.detach()`, `.item()`, `.numpy()`, `.tolist()`, `torch.no_grad`,
`requires_grad_(False)` and every `torch.tensor / as_tensor / from_numpy` of a non-literal in the files C05 is anchored in.  Each entry below was
reviewed and carries its reason; none of them sits between a differentiable input (phase, amplitude, field, ray, height, colour) and the output of an
entry point the property covers.  A new `.detach()` / `.item()` / NumPy round trip / re-created leaf changes the regenerated table and breaks this
theorem. -/
def reviewedGradBreakers : List (String × String × Nat × String) := [
  ("learn.perception.color_conversion:display_color_hvs.cone_response_to_spectrum", "item", 1, "spectra and cone fundamentals are tables prepared at construction, not functions of the image"),
  ("learn.perception.color_conversion:display_color_hvs.display_spectrum_response", "item", 3, "spectra and cone fundamentals are tables prepared at construction, not functions of the image"),
  ("learn.perception.color_conversion:display_color_hvs.initialize_random_spectrum_normalized", "detach", 1, "spectra and cone fundamentals are tables prepared at construction, not functions of the image"),
  ("learn.perception.color_conversion:display_color_hvs.initialize_random_spectrum_normalized", "numpy", 2, "spectra and cone fundamentals are tables prepared at construction, not functions of the image"),
  ("learn.perception.color_conversion:display_color_hvs.initialize_random_spectrum_normalized", "torch.from_numpy", 1, "spectra and cone fundamentals are tables prepared at construction, not functions of the image"),
  ("learn.perception.color_conversion:lab_to_srgb", "torch.tensor", 1, "constant colour matrix / illuminant built from Python floats"),
  ("learn.perception.color_conversion:linear_rgb_to_xyz", "torch.tensor", 1, "constant colour matrix / illuminant built from Python floats"),
  ("learn.perception.color_conversion:srgb_to_lab", "torch.tensor", 1, "constant colour matrix / illuminant built from Python floats"),
  ("learn.perception.color_conversion:xyz_to_linear_rgb", "torch.tensor", 1, "constant colour matrix / illuminant built from Python floats"),
  ("learn.raytracing.boundary:intersect_w_sphere", "item", 1, "text of the progress bar / log line"),
  ("learn.raytracing.boundary:intersect_w_triangle_batch", "tolist", 1, "shape bookkeeping"),
  ("learn.raytracing.boundary:reflect", "torch.tensor", 1, "constant"),
  ("learn.raytracing.mesh:planar_mesh.save_heights", "detach", 1, "a copy written to disk"),
  ("learn.raytracing.primitives:define_circle", "torch.tensor", 1, "scalar / list arguments turned into tensors"),
  ("learn.raytracing.primitives:define_plane_mesh", "torch.tensor", 2, "scalar / list arguments turned into tensors"),
  ("learn.raytracing.ray:create_ray_from_grid_w_luminous_angle", "detach", 2, "lattice positions of the light sources are copied into the sample array (positions are data here)"),
  ("learn.raytracing.ray:create_ray_from_grid_w_luminous_angle", "torch.as_tensor", 1, "scalar arguments (angle limit, counts, tilt given as a list) turned into tensors"),
  ("learn.raytracing.ray:create_ray_from_grid_w_luminous_angle", "torch.tensor", 3, "scalar arguments (angle limit, counts, tilt given as a list) turned into tensors"),
  ("learn.raytracing.ray:create_ray_from_point_w_luminous_angle", "torch.as_tensor", 1, "scalar arguments (angle limit, counts, tilt given as a list) turned into tensors"),
  ("learn.raytracing.ray:create_ray_from_point_w_luminous_angle", "torch.tensor", 3, "scalar arguments (angle limit, counts, tilt given as a list) turned into tensors"),
  ("learn.tools.matrix:generate_2d_dirac_delta", "torch.as_tensor", 1, "scalar / list arguments turned into tensors"),
  ("learn.tools.transformation:tilt_towards", "torch.tensor", 3, "scalar / list arguments turned into tensors"),
  ("learn.wave.classical:get_angular_spectrum_kernel", "torch.tensor", 1, "the distance / sample counts enter the kernel as Python numbers (kernels are not differentiable w.r.t. the distance; not claimed by C05)"),
  ("learn.wave.classical:get_band_limited_angular_spectrum_kernel", "detach", 1, "the 0/1 band-limit mask (piecewise constant)"),
  ("learn.wave.classical:get_band_limited_angular_spectrum_kernel", "torch.tensor", 1, "the distance / sample counts enter the kernel as Python numbers (kernels are not differentiable w.r.t. the distance; not claimed by C05)"),
  ("learn.wave.classical:get_impulse_response_fresnel_kernel", "torch.as_tensor", 1, "the distance / sample counts enter the kernel as Python numbers (kernels are not differentiable w.r.t. the distance; not claimed by C05)"),
  ("learn.wave.classical:get_impulse_response_fresnel_kernel", "torch.tensor", 2, "the distance / sample counts enter the kernel as Python numbers (kernels are not differentiable w.r.t. the distance; not claimed by C05)"),
  ("learn.wave.classical:get_incoherent_angular_spectrum_kernel", "torch.tensor", 1, "the distance / sample counts enter the kernel as Python numbers (kernels are not differentiable w.r.t. the distance; not claimed by C05)"),
  ("learn.wave.classical:get_point_wise_impulse_response_fresnel_kernel", "detach", 1, "randomised copy of the target points (repair of finding F28)"),
  ("learn.wave.classical:get_seperable_impulse_response_fresnel_kernel", "detach", 1, "the second 1-D kernel is a copy of the first (no parameter involved)"),
  ("learn.wave.classical:get_seperable_impulse_response_fresnel_kernel", "torch.as_tensor", 1, "the distance / sample counts enter the kernel as Python numbers (kernels are not differentiable w.r.t. the distance; not claimed by C05)"),
  ("learn.wave.classical:get_seperable_impulse_response_fresnel_kernel", "torch.tensor", 2, "the distance / sample counts enter the kernel as Python numbers (kernels are not differentiable w.r.t. the distance; not claimed by C05)"),
  ("learn.wave.classical:get_transfer_function_fresnel_kernel", "torch.tensor", 1, "the distance / sample counts enter the kernel as Python numbers (kernels are not differentiable w.r.t. the distance; not claimed by C05)"),
  ("learn.wave.classical:shift_w_double_phase", "torch.tensor", 1, "scalar / list arguments turned into tensors"),
  ("learn.wave.classical:stochastic_gradient_descent", "item", 1, "text of the progress bar / log line"),
  ("learn.wave.classical:stochastic_gradient_descent", "no_grad", 1, "final evaluation after the optimisation loop"),
  ("learn.wave.lens:linear_grating", "torch.from_numpy", 1, "scalar / list arguments turned into tensors"),
  ("learn.wave.lens:linear_grating", "torch.tensor", 2, "scalar / list arguments turned into tensors"),
  ("learn.wave.lens:prism_grating", "torch.tensor", 2, "scalar / list arguments turned into tensors"),
  ("learn.wave.loss:multiplane_loss.add_defocus_blur", "detach", 3, "targets, masks and depth are data prepared once, not functions of the optimised image"),
  ("learn.wave.loss:multiplane_loss.get_targets", "detach", 3, "targets, masks and depth are data prepared once, not functions of the optimised image"),
  ("learn.wave.loss:multiplane_loss.set_targets", "detach", 2, "targets, masks and depth are data prepared once, not functions of the optimised image"),
  ("learn.wave.loss:perceptual_multiplane_loss.add_defocus_blur", "detach", 3, "targets, masks and depth are data prepared once, not functions of the optimised image"),
  ("learn.wave.loss:perceptual_multiplane_loss.get_targets", "detach", 3, "targets, masks and depth are data prepared once, not functions of the optimised image"),
  ("learn.wave.loss:perceptual_multiplane_loss.set_targets", "detach", 2, "targets, masks and depth are data prepared once, not functions of the optimised image"),
  ("learn.wave.propagators:propagator.__call__", "detach", 1, "the kernel CACHE stores detached kernels (by design: property anchor \"kernel cache stores detached kernels only\")"),
  ("learn.wave.propagators:propagator.__init__", "torch.tensor", 1, "scalar / list arguments turned into tensors"),
  ("learn.wave.propagators:propagator.init_distances", "torch.as_tensor", 1, "scalar / list arguments turned into tensors"),
  ("learn.wave.propagators:propagator.reconstruct", "detach", 1, "optional no_grad reconstruction (no_grad = True) and its detached copy"),
  ("learn.wave.propagators:propagator.reconstruct", "no_grad", 1, "optional no_grad reconstruction (no_grad = True) and its detached copy"),
  ("learn.wave.propagators:propagator.set_aperture", "torch.tensor", 1, "scalar / list arguments turned into tensors")
]

theorem C05_graph_leaving_constructs_are_the_reviewed_ones :
    Gen.gradBreakers = reviewedGradBreakers.map (fun e => (e.1, e.2.1, e.2.2.1)) := by decide +kernel

end Odak

/-! ## The OBJECT `planar_mesh` regenerated from the Python source on this run (work package 13)
  (`OdakModel/Generated/MeshObject.lean`, written by `harness/translate/meshobject.py`: EVERY attribute the class stores anywhere is a field;
  `__init__`, `init_heights`, `get_squares`, `get_triangles`, `mirror` are step functions over (attributes, heap of tensor objects)).
  A mesh is LEARNED: an optimiser updates `heights` in place between calls of `mirror`, and the gradient of what `mirror` returns has to
  reach the heights as they are at that call.  What these theorems say: no attribute is stored outside `__init__` / `init_heights`, so no
  triangles (with or without an autograd graph) can survive from one call to the next.  They stop compiling when `get_triangles` keeps
  its result on `self`. -/
namespace Odak
open Gen
variable {T R : Type} [DecidableEq R]
set_option linter.unusedSectionVars false

/-- the regenerated state structure has exactly the reviewed attributes: there is no attribute that could hold cached triangles -/
theorem C05_gen_mesh_attributes : meshFields = meshObjFields := rfl

/-- in the reference semantics no call stores an attribute -/
theorem meshRef_logs_empty (E : MeshOps T R) (o : MeshObj T) (av ov nv : T) :
    ∀ (xs : List (MCall T)) (hv hv' : T) (zs : List (MRet T × List String)), runSteps (meshRefStep E o av ov nv) hv xs = some (hv', zs) →
      ∀ z ∈ zs, z.2 = [] := by
  intro xs
  induction xs with
  | nil => intro hv hv' zs e; simp [runSteps] at e; intro z hz; rw [e.2] at hz; cases hz
  | cons x rest ih =>
    intro hv hv' zs e
    simp only [runSteps] at e
    cases hx : meshRefStep E o av ov nv hv x with
    | none => simp [hx] at e
    | some r =>
      simp only [hx, Option.bind_some] at e
      cases hrest : runSteps (meshRefStep E o av ov nv) r.1 rest with
      | none => simp [hrest] at e
      | some q =>
        simp only [hrest, Option.map_some, Option.some.injEq, Prod.mk.injEq] at e
        intro z hz
        rw [← e.2] at hz
        rcases List.mem_cons.1 hz with rfl | hz
        · cases x <;> simp [meshRefStep] at hx <;> rw [← hx]
        · exact ih r.1 q.1 q.2 hrest z hz

/-- **`mirror` reads no cached attribute**: for EVERY list of calls of `mirror`, `get_triangles`, `get_squares` interleaved with in-place
    updates of the heights (optimiser steps), every value is the value computed from the content the heights tensor holds at the time of
    that call - `mirror` = the rays bounced off `triangulate(cat(X, Y, heights NOW))`, rotated and offset - and no call stores an attribute -/
theorem C05_gen_mesh_mirror_reads_current_heights (E : MeshOps T R) (o : MeshObj T) (av ov nv : T) (xs : List (MCall T)) (h : Heap T) (hv : T)
    (inv : MeshInv o h av ov nv) (hh : h.get o.heights = some hv) (hv' : T) (zs : List (MRet T × List String))
    (href : runSteps (meshRefStep E o av ov nv) hv xs = some (hv', zs)) :
    ∃ h', runSteps (meshStep E) ((o.toSelf : PlanarMeshAttrs T R), h) xs = some ((o.toSelf, h'), zs) ∧ (∀ z ∈ zs, z.2 = []) := by
  obtain ⟨h', e, -, -⟩ := mesh_run E o av ov nv xs h hv inv hh hv' zs href
  exact ⟨h', e, meshRef_logs_empty E o av ov nv xs hv hv' zs href⟩

/-- `mirror` is a function of (the content of the heights, the rays) and the constant configuration: in two heaps - whatever was called
    before - that agree on the heights, the angles, the offset and the mesh counts, it returns the same value -/
theorem C05_gen_mesh_mirror_function_of_heights_and_rays (E : MeshOps T R) (o : MeshObj T) (h1 h2 : Heap T) (av ov nv hv : T) (rays : T)
    (a1 : h1.get o.angles = some av) (o1 : h1.get o.offset = some ov) (n1 : h1.get o.number_of_meshes = some nv) (g1 : h1.get o.heights = some hv)
    (a2 : h2.get o.angles = some av) (o2 : h2.get o.offset = some ov) (n2 : h2.get o.number_of_meshes = some nv) (g2 : h2.get o.heights = some hv) :
    (meshMirrorG E (o.toSelf : PlanarMeshAttrs T R) h1 rays).map (fun r => r.2.2.1) = (meshMirrorG E (o.toSelf : PlanarMeshAttrs T R) h2 rays).map (fun r => r.2.2.1) := by
  rw [gen_meshMirrorG_eq E o h1 av ov nv hv a1 o1 n1 g1, gen_meshMirrorG_eq E o h2 av ov nv hv a2 o2 n2 g2]
  rfl

/-- the constructor keeps the CALLER'S heights tensor by reference (the leaf the caller optimises is the tensor `mirror` reads) -/
theorem C05_gen_mesh_keeps_the_callers_heights (E : MeshOps T R) (h : Heap T) (sl nl al ol l : Nat) (sv nv : T) (g1 : h.get sl = some sv)
    (g2 : h.get nl = some nv) :
    ∃ X Y log, meshInitG E (PlanarMeshAttrs.empty : PlanarMeshAttrs T R) h sl nl al ol () (some l) =
      some ((⟨al, ol, sl, nl, l, X, Y⟩ : MeshObj T).toSelf, h, (), log) :=
  ⟨_, _, _, gen_meshInitG_eq E h sl nl al ol (some l) sv nv g1 g2⟩

end Odak

/-! ## The regenerated `planar_mesh` object INSTANTIATED with the regenerated batched geometry (work package 16)
  `C05_gen_mesh_mirror_reads_current_heights` is abstract over a record `MeshOps` whose `mirrorLoop` stands for "the loop of `mirror` over the
  triangles"; the law of reflection per ray and triangle (C10 / C11) is about `Gen.mirrorT`.  Here the record is `meshOpsGrid`
  (`OdakModel/MeshObjectInst.lean`): `mirrorLoop` IS `Gen.mirrorT` on the rays and triangles read from the tensors, `triangulate` the two
  triangles per lattice cell rotated with the regenerated mode table.  One statement, no uninterpreted operation. -/
namespace Odak
open Gen

/-- **`mirror` of the regenerated object returns reflections at the triangles of the CURRENT heights.**  After ANY list `pre` of calls
    (`mirror`, `get_triangles`, `get_squares`, interleaved with in-place updates `learn v` of the heights by an optimiser) a `mirror(rays)`
    call leaves the object as it is, stores nothing, and returns the regenerated batch `mirrorT rays tris` where `tris` are the triangles
    computed from the content the LAST update wrote into the heights (`heightsAfter`; the lattice, angles and offset are constant); and every
    returned ray starts at the plane hit of one input ray `i` with one of THOSE triangles `j`, inside the triangle, with the direction the
    law of reflection gives for the ray's direction and the triangle's normal (`reflectDir` with the regenerated torch epsilon: within
    `2e-8 |d·n|` of the mirror image, `C11_gen_reflect_unit_normal_t`) -/
theorem C05_gen_object_mirror_is_reflection_at_current_heights (o : MeshObj (Ten ℝ)) (av ov nv : Ten ℝ) (h : Heap (Ten ℝ)) (hv0 : Ten ℝ)
    (inv : MeshInv o h av ov nv) (hh : h.get o.heights = some hv0) (pre : List (MCall (Ten ℝ))) (rays : Ten ℝ) (m k : Nat)
    (hm : (if (meshOpsGrid : MeshOps (Ten ℝ) ℝ).rank rays = 2 then (meshOpsGrid : MeshOps (Ten ℝ) ℝ).unsqueeze rays 0 else rays).shape.headD 0 = m + 1)
    (hk : (meshTriangles (meshOpsGrid : MeshOps (Ten ℝ) ℝ) o av ov nv (heightsAfter hv0 pre)).shape.headD 0 = k + 1) :
    let rays' := if (meshOpsGrid : MeshOps (Ten ℝ) ℝ).rank rays = 2 then (meshOpsGrid : MeshOps (Ten ℝ) ℝ).unsqueeze rays 0 else rays
    let tris := meshTriangles (meshOpsGrid : MeshOps (Ten ℝ) ℝ) o av ov nv (heightsAfter hv0 pre)
    let L := mirrorT (fun i : Fin (m + 1) => Ten.rayAt rays' i.val) (fun j : Fin (k + 1) => Ten.triAt tris j.val)
    ∃ h1 ys, runSteps (meshStep meshOpsGrid) ((o.toSelf : PlanarMeshAttrs (Ten ℝ) ℝ), h) pre = some ((o.toSelf, h1), ys) ∧
      h1.get o.heights = some (heightsAfter hv0 pre) ∧
      meshStep meshOpsGrid ((o.toSelf : PlanarMeshAttrs (Ten ℝ) ℝ), h1) (.mirror rays) =
        some ((o.toSelf, h1), (.pair (Ten.tenOfRays L.1) (Ten.tenOfRays L.2), [])) ∧
      ∀ r ∈ L.1, ∃ (j : Fin (k + 1)) (i : Fin (m + 1)),
        isOnTriangle (intersectSurface (Ten.rayAt rays' i.val).o (Ten.rayAt rays' i.val).d (Ten.triAt tris j.val).p0 (Ten.triAt tris j.val).p1
          (Ten.triAt tris j.val).p2).point (Ten.triAt tris j.val).p0 (Ten.triAt tris j.val).p1 (Ten.triAt tris j.val).p2 = true ∧
        r.o = (intersectSurface (Ten.rayAt rays' i.val).o (Ten.rayAt rays' i.val).d (Ten.triAt tris j.val).p0 (Ten.triAt tris j.val).p1
          (Ten.triAt tris j.val).p2).point ∧
        r.d = reflectDir reflectEpsTorch (Ten.rayAt rays' i.val).d
          (triangleNormalDir (Ten.triAt tris j.val).p0 (Ten.triAt tris j.val).p1 (Ten.triAt tris j.val).p2) := by
  intro rays' tris L
  obtain ⟨h1, ys, e1, hh1, e2⟩ := mesh_mirror_after (meshOpsGrid : MeshOps (Ten ℝ) ℝ) o av ov nv h hv0 inv hh pre rays
  refine ⟨h1, ys, e1, hh1, ?_, fun r hr => mirrorT_mem_model _ _ r hr⟩
  rw [e2, meshMirror_grid o av ov nv (heightsAfter hv0 pre) rays m k hm hk]

/-- the triangles `mirror` uses are a function of the CURRENT heights only (besides the constant lattice, angles, offset): the squares are
    `cat(X, Y, heights now)`, and a corner of a triangle before the rotation is a lattice point with the height stored at that point -/
theorem C05_gen_object_squares_hold_current_heights (o : MeshObj (Ten ℝ)) (hv : Ten ℝ) (i j : Int)
    (hx : o.X.shape.getLastD 0 = 1) (hy : o.Y.shape.getLastD 0 = 1) (hz : hv.shape.getLastD 0 = 1) :
    (meshSquares (meshOpsGrid : MeshOps (Ten ℝ) ℝ) o hv).el [i, j, 2] = hv.el [i, j, 0] :=
  meshSquares_height_el o hv i j hx hy hz

end Odak
