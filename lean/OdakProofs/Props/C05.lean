import OdakProofs.RealInst
namespace Odak
end Odak
