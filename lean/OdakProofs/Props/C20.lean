import OdakModel.Generated.Effects
import OdakProofs.Lemmas.HeapSound

/-! # C20 – library calls never modify the caller's arrays, lists or default arguments
  `Odak.Gen.effectsTable` is the alias/effect IR of EVERY function and method under `odak/`
  (regenerated from the source on every run), `effectsSigma` / `effectsRho` the summaries the
  translator computed; Lean re-checks that they are a post-fixpoint and decides the clean list. -/
namespace Odak
open Odak.Heap Odak.Gen

/-- functions whose documented purpose is to update an argument in place (setters on scene objects,
    internal helpers that update and return their argument, a mesh that takes ownership of its heights) -/
def documentedInPlace : List String := [
  "odak.learn.perception.steerable_pyramid_filters:crop_steerable_pyramid_filters",
  "odak.learn.raytracing.mesh:planar_mesh.__init__",
  "odak.learn.raytracing.mesh:planar_mesh.init_heights",
  "odak.raytracing.boundary:propagate_parametric_intersection_error",
  "odak.visualize.blender.libblend:set_rotation",
  "odak.visualize.blender.libblend:set_location",
  "odak.visualize.blender.libblend:clear_material",
  "odak.visualize.blender.libblend:assign_color",
  "odak.visualize.blender.libblend:assign_texture",
  "odak.visualize.blender.libblend:create_plane",
  "odak.visualize.blender.libblend:cylinder_between"]

/-- the regenerated summaries are consistent with every function body (checked chunk by chunk by
    kernel evaluation of the analysis, `effectsChunk*_ok`) -/
theorem C20_summaries_are_postfixpoint : PostFixpoint effectsSigma effectsRho (tblOf effectsTable) :=
  isPostFixpoint_sound effectsSigma effectsRho effectsTable effectsTable_ok

/-- [whole repository] every function that may modify one of its arguments is a documented
    in-place function; all other public callables have an empty may-mutate summary -/
theorem C20_odak_clean : ∀ e ∈ effectsMutators, e.1 ∈ documentedInPlace := by decide

/-- soundness, instantiated on the repository table: for every function of the table, every
    execution of its body (calls resolved through the real bodies, to any call depth `d`, every
    resolution of branches, loops and may-alias choices), every caller object that is not bound to
    a parameter listed in the function's summary has the same contents at exit as at entry – also
    when the caller passes the same object for several parameters -/
theorem C20_unlisted_arguments_unchanged (f : FnId) (k : Nat) (rv : Var) (body : Prog)
    (hf : tblOf effectsTable f = some (k, rv, body)) (d : Nat) (init : Fin k → Obj) (s₀ s₁ : State)
    (henv : s₀.env = initEnv k init) (hex : ExecReal effectsSigma effectsRho (tblOf effectsTable) d body s₀ s₁)
    (o : Obj) (ho : o < s₀.next) (hclean : ∀ p : Fin k, init p = o → p.val ∉ effectsSigma f) :
    s₁.heap o = s₀.heap o := by
  have hpf := C20_summaries_are_postfixpoint
  apply mayMutate_sound_real effectsSigma effectsRho (tblOf effectsTable) hpf d k init body s₀ s₁ henv hex o ho
  intro p hp hmem
  exact hclean p hp ((hpf f k rv body hf).1 p.val hmem)

/-- in particular a function with an empty summary leaves every caller object bit for bit unchanged,
    so a second call with the same arguments sees the same arguments -/
theorem C20_clean_functions_never_modify_arguments (f : FnId) (k : Nat) (rv : Var) (body : Prog)
    (hf : tblOf effectsTable f = some (k, rv, body)) (hclean : effectsSigma f = []) (d : Nat) (init : Fin k → Obj)
    (s₀ s₁ : State) (henv : s₀.env = initEnv k init)
    (hex : ExecReal effectsSigma effectsRho (tblOf effectsTable) d body s₀ s₁) :
    ∀ o, o < s₀.next → s₁.heap o = s₀.heap o := by
  intro o ho
  apply C20_unlisted_arguments_unchanged f k rv body hf d init s₀ s₁ henv hex o ho
  intro p _ hmem
  rw [hclean] at hmem
  exact absurd hmem (List.not_mem_nil)

/-- non-vacuity: the table is not empty and contains clean functions (function 0 has an empty summary) -/
example : effectsFunctionCount > 400 ∧ effectsSigma 0 = [] := by decide

end Odak
