import OdakModel.Generated.Effects
import OdakModel.Generated.StateCensus
import OdakProofs.Lemmas.HeapSound

/-! # C20 – library calls never modify the caller's arrays, lists or default arguments
  `Odak.Gen.effectsTable` is the alias/effect IR of EVERY function and method under `odak/`
  (regenerated from the source on every run), `effectsSigma` / `effectsRho` the summaries the
  translator computed; Lean re-checks that they are a post-fixpoint and decides the clean list. -/
namespace Odak
open Odak.Heap Odak.Gen

/-- functions whose documented purpose is to update an argument in place (setters on scene objects,
    internal helpers that update and return their argument, a mesh that takes ownership of its heights) -/
def documentedInPlace : List String := [
  "odak.learn.perception.steerable_pyramid_filters:crop_steerable_pyramid_filters",
  "odak.learn.raytracing.mesh:planar_mesh.__init__",
  "odak.learn.raytracing.mesh:planar_mesh.init_heights",
  "odak.raytracing.boundary:propagate_parametric_intersection_error",
  "odak.visualize.blender.libblend:set_rotation",
  "odak.visualize.blender.libblend:set_location",
  "odak.visualize.blender.libblend:clear_material",
  "odak.visualize.blender.libblend:assign_color",
  "odak.visualize.blender.libblend:assign_texture",
  "odak.visualize.blender.libblend:create_plane",
  "odak.visualize.blender.libblend:cylinder_between"]

/-- the regenerated summaries are consistent with every function body (checked chunk by chunk by
    kernel evaluation of the analysis, `effectsChunk*_ok`) -/
theorem C20_summaries_are_postfixpoint : PostFixpoint effectsSigma effectsRho (tblOf effectsTable) :=
  isPostFixpoint_sound effectsSigma effectsRho effectsTable effectsTable_ok

/-- [whole repository] every function that may modify one of its arguments is a documented
    in-place function; all other public callables have an empty may-mutate summary -/
theorem C20_odak_clean : ∀ e ∈ effectsMutators, e.1 ∈ documentedInPlace := by decide

/-- soundness, instantiated on the repository table: for every function of the table, every
    execution of its body (calls resolved through the real bodies, to any call depth `d`, every
    resolution of branches, loops and may-alias choices), every caller object that is not bound to
    a parameter listed in the function's summary has the same contents at exit as at entry – also
    when the caller passes the same object for several parameters -/
theorem C20_unlisted_arguments_unchanged (f : FnId) (k : Nat) (rv : Var) (body : Prog)
    (hf : tblOf effectsTable f = some (k, rv, body)) (d : Nat) (init : Fin k → Obj) (s₀ s₁ : State)
    (henv : s₀.env = initEnv k init) (hex : ExecReal effectsSigma effectsRho (tblOf effectsTable) d body s₀ s₁)
    (o : Obj) (ho : o < s₀.next) (hclean : ∀ p : Fin k, init p = o → p.val ∉ effectsSigma f) :
    s₁.heap o = s₀.heap o := by
  have hpf := C20_summaries_are_postfixpoint
  apply mayMutate_sound_real effectsSigma effectsRho (tblOf effectsTable) hpf d k init body s₀ s₁ henv hex o ho
  intro p hp hmem
  exact hclean p hp ((hpf f k rv body hf).1 p.val hmem)

/-- in particular a function with an empty summary leaves every caller object bit for bit unchanged,
    so a second call with the same arguments sees the same arguments -/
theorem C20_clean_functions_never_modify_arguments (f : FnId) (k : Nat) (rv : Var) (body : Prog)
    (hf : tblOf effectsTable f = some (k, rv, body)) (hclean : effectsSigma f = []) (d : Nat) (init : Fin k → Obj)
    (s₀ s₁ : State) (henv : s₀.env = initEnv k init)
    (hex : ExecReal effectsSigma effectsRho (tblOf effectsTable) d body s₀ s₁) :
    ∀ o, o < s₀.next → s₁.heap o = s₀.heap o := by
  intro o ho
  apply C20_unlisted_arguments_unchanged f k rv body hf d init s₀ s₁ henv hex o ho
  intro p _ hmem
  rw [hclean] at hmem
  exact absurd hmem (List.not_mem_nil)

/-- non-vacuity: the table is not empty and contains clean functions (function 0 has an empty summary) -/
example : effectsFunctionCount > 400 ∧ effectsSigma 0 = [] := by decide


/-! ## Where state can persist between two calls (regenerated census, `translate/statecensus.py`)

The effect analysis above covers state that travels in ARGUMENTS.  The consequent of C20 - "a second call with the same arguments returns the same
result", for all call sequences - can also fail through state the LIBRARY keeps: a module-level cache, a memoising decorator, a `global`, a mutable
class attribute, an attribute of `self` written by a method other than the constructor.  `Gen.moduleState` / `Gen.instanceState` are regenerated
from the whole source tree on every run; the theorems below state that they are exactly the reviewed tables, whose entries carry the reason why
they do not make a result depend on the history (a theorem of C06 / C17 where there is one).  A new cache changes the regenerated table and breaks
the theorem; the check then looks for a concrete history (probes (i)-(vi) of the C20 harness). -/

/-- (file, name, kind, why it does not make results depend on the history) -/
def reviewedModuleState : List (String × String × String × String) := [
  ("__init__", "__version__", "module-level call:'.'.join", "a string built once at import"),
  ("visualize.blender.libblend", "bpy.*", "attributes stored on an imported third-party module (21)", "Blender scene configuration / job queue of the Blender server: outside the numerical library, needs Blender to run"),
  ("visualize.blender.server", "execution_queue", "module-level call:queue.Queue", "Blender scene configuration / job queue of the Blender server: outside the numerical library, needs Blender to run")
]

/-- (file:class, attribute, method that stores it, why) -/
def reviewedInstanceState : List (String × String × String × String) := [
  ("catalog.detectors:plane_detector", "field", "raytrace", "the detector stores the field / figure it produced, by design"),
  ("catalog.detectors:plane_detector", "fig", "plot_field", "the detector stores the field / figure it produced, by design"),
  ("learn.lensless.models:spec_track", "optimizer", "fit", "training state of a learned model (fit loop)"),
  ("learn.lensless.models:spec_track", "train_history", "fit", "training state of a learned model (fit loop)"),
  ("learn.lensless.models:spec_track", "validation_history", "fit", "training state of a learned model (fit loop)"),
  ("learn.perception.blur_loss:BlurLoss", "blur", "blur_image", "lazily built blur object, proved transparent: C17_gen_blur_loss_history_independent"),
  ("learn.perception.blur_loss:BlurLoss", "device", "to", "explicit device move requested by the caller"),
  ("learn.perception.metamer_mse_loss:MetamerMSELoss", "metameric_loss", "to", "explicit device move requested by the caller"),
  ("learn.perception.metamer_mse_loss:MetamerMSELoss", "target", "__call__", "keyed cache of the target metamer, proved transparent: C17_gen_metamer_mse_history_independent"),
  ("learn.perception.metamer_mse_loss:MetamerMSELoss", "target_gaze", "__call__", "keyed cache of the target metamer, proved transparent: C17_gen_metamer_mse_history_independent"),
  ("learn.perception.metamer_mse_loss:MetamerMSELoss", "target_metamer", "__call__", "keyed cache of the target metamer, proved transparent: C17_gen_metamer_mse_history_independent"),
  ("learn.perception.metameric_loss:MetamericLoss", "blurs", "calc_statsmaps", "keyed cache of the target statistics / per-size helpers, proved transparent: C17_gen_metameric_loss_history_independent"),
  ("learn.perception.metameric_loss:MetamericLoss", "device", "to", "explicit device move requested by the caller"),
  ("learn.perception.metameric_loss:MetamericLoss", "fovea_mask", "calc_statsmaps", "keyed cache of the target statistics / per-size helpers, proved transparent: C17_gen_metameric_loss_history_independent"),
  ("learn.perception.metameric_loss:MetamericLoss", "loss_map", "visualise_loss_map", "visualisation output requested by the caller"),
  ("learn.perception.metameric_loss:MetamericLoss", "periphery_mask", "calc_statsmaps", "keyed cache of the target statistics / per-size helpers, proved transparent: C17_gen_metameric_loss_history_independent"),
  ("learn.perception.metameric_loss:MetamericLoss", "pyramid_maker", "calc_statsmaps", "keyed cache of the target statistics / per-size helpers, proved transparent: C17_gen_metameric_loss_history_independent"),
  ("learn.perception.metameric_loss:MetamericLoss", "target", "__call__", "keyed cache of the target statistics / per-size helpers, proved transparent: C17_gen_metameric_loss_history_independent"),
  ("learn.perception.metameric_loss:MetamericLoss", "target_gaze", "__call__", "keyed cache of the target statistics / per-size helpers, proved transparent: C17_gen_metameric_loss_history_independent"),
  ("learn.perception.metameric_loss:MetamericLoss", "target_stats", "__call__", "keyed cache of the target statistics / per-size helpers, proved transparent: C17_gen_metameric_loss_history_independent"),
  ("learn.perception.metameric_loss_uniform:MetamericLossUniform", "device", "to", "explicit device move requested by the caller"),
  ("learn.perception.metameric_loss_uniform:MetamericLossUniform", "loss_map", "visualise_loss_map", "visualisation output requested by the caller"),
  ("learn.perception.metameric_loss_uniform:MetamericLossUniform", "pyramid_maker", "calc_statsmaps", "keyed cache of the target statistics, proved transparent: C17_gen_metameric_loss_uniform_history_independent"),
  ("learn.perception.metameric_loss_uniform:MetamericLossUniform", "target", "__call__", "keyed cache of the target statistics, proved transparent: C17_gen_metameric_loss_uniform_history_independent"),
  ("learn.perception.metameric_loss_uniform:MetamericLossUniform", "target_stats", "__call__", "keyed cache of the target statistics, proved transparent: C17_gen_metameric_loss_uniform_history_independent"),
  ("learn.perception.radially_varying_blur:RadiallyVaryingBlur", "alpha", "blur", "keyed cache of the foveation map, proved transparent for every call list: C17_gen_radial_blur_history_independent"),
  ("learn.perception.radially_varying_blur:RadiallyVaryingBlur", "centre", "blur", "keyed cache of the foveation map, proved transparent for every call list: C17_gen_radial_blur_history_independent"),
  ("learn.perception.radially_varying_blur:RadiallyVaryingBlur", "equi", "blur", "keyed cache of the foveation map, proved transparent for every call list: C17_gen_radial_blur_history_independent"),
  ("learn.perception.radially_varying_blur:RadiallyVaryingBlur", "lod_fraction", "blur", "keyed cache of the foveation map, proved transparent for every call list: C17_gen_radial_blur_history_independent"),
  ("learn.perception.radially_varying_blur:RadiallyVaryingBlur", "lod_map", "blur", "keyed cache of the foveation map, proved transparent for every call list: C17_gen_radial_blur_history_independent"),
  ("learn.perception.radially_varying_blur:RadiallyVaryingBlur", "mode", "blur", "keyed cache of the foveation map, proved transparent for every call list: C17_gen_radial_blur_history_independent"),
  ("learn.perception.radially_varying_blur:RadiallyVaryingBlur", "n_channels", "blur", "keyed cache of the foveation map, proved transparent for every call list: C17_gen_radial_blur_history_independent"),
  ("learn.perception.radially_varying_blur:RadiallyVaryingBlur", "real_image_width", "blur", "keyed cache of the foveation map, proved transparent for every call list: C17_gen_radial_blur_history_independent"),
  ("learn.perception.radially_varying_blur:RadiallyVaryingBlur", "real_viewing_distance", "blur", "keyed cache of the foveation map, proved transparent for every call list: C17_gen_radial_blur_history_independent"),
  ("learn.perception.radially_varying_blur:RadiallyVaryingBlur", "size", "blur", "keyed cache of the foveation map, proved transparent for every call list: C17_gen_radial_blur_history_independent"),
  ("learn.raytracing.detector:detector", "image", "intersect", "the detector accumulates hits by design (documented; clear() resets it)"),
  ("learn.wave.models:holobeam_multiholo", "optimizer", "fit", "training state of a learned model (fit loop)"),
  ("learn.wave.optimizers:multi_color_hologram_optimizer", "optimizer", "init_optimizer", "optimisation state, rewritten at the start of every optimize call before it is read (C07)"),
  ("learn.wave.propagators:propagator", "channel_power", "set_laser_powers", "explicit setter"),
  ("learn.wave.propagators:propagator", "generated_kernels", "__call__", "kernel cache with validity flags, invariant proved for every call list: C06_history_independent"),
  ("learn.wave.propagators:propagator", "kernels", "__call__", "kernel cache with validity flags, invariant proved for every call list: C06_history_independent"),
  ("manager.__init__:agent", "jobs", "run", "job list of the process manager"),
  ("manager.__init__:agent", "jobs", "submit", "job list of the process manager"),
  ("manager.__init__:agent", "results", "run", "job list of the process manager"),
  ("tools.latex:latex", "latex_begin_dictionary", "set_latex_dictonaries", "document parser state"),
  ("tools.latex:latex", "latex_dictionary", "set_latex_dictonaries", "document parser state"),
  ("tools.latex:latex", "latex_end_dictionary", "set_latex_dictonaries", "document parser state"),
  ("tools.latex:latex", "line_count", "get_line_count", "document parser state"),
  ("tools.markdown:markdown", "line_count", "get_line_count", "document parser state"),
  ("tools.markdown:markdown", "markdown_begin_dictionary", "set_dictonaries", "document parser state"),
  ("tools.markdown:markdown", "markdown_dictionary", "set_dictonaries", "document parser state"),
  ("tools.markdown:markdown", "markdown_end_dictionary", "set_dictonaries", "document parser state"),
  ("visualize.export:PLY_object", "pnts", "draw_a_ray", "scene / figure under construction, by design"),
  ("visualize.export:PLY_object", "tris", "draw_a_ray", "scene / figure under construction, by design"),
  ("visualize.plotly:plotshow", "fig", "show", "scene / figure under construction, by design")
]

/-- odak keeps no module-level, class-level or function-level state besides the reviewed entries (no cache dictionaries, no memoising decorators,
    no `global` statements) -/
theorem C20_module_level_state_is_the_reviewed_one :
    Gen.moduleState = reviewedModuleState.map (fun e => (e.1, e.2.1, e.2.2.1)) := by decide +kernel

/-- the attributes an object carries from one call to the next (stored by a method outside `__init__` and the helpers it calls) are the reviewed ones -/
theorem C20_instance_state_is_the_reviewed_one :
    Gen.instanceState = reviewedInstanceState.map (fun e => (e.1, e.2.1, e.2.2.1)) := by decide +kernel

/-- in particular: no function of odak is wrapped in a memoising decorator and no module binds a container that functions could fill -/
theorem C20_no_memoising_decorators_no_module_caches :
    (Gen.moduleState.filter (fun e => e.2.2.startsWith "decorator" || e.2.2 == "global statement" || e.2.2 == "nonlocal statement")) = [] ∧
    (Gen.moduleState.filter (fun e => e.2.2.startsWith "module-level" && !(e.1 == "__init__" || e.1.startsWith "visualize.blender"))) = [] := by
  decide +kernel

end Odak
