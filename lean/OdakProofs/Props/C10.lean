import OdakProofs.Lemmas.Geometry
import OdakProofs.Lemmas.GenGeometry

/-! # C10 – ray / plane / triangle intersection
  Model: `OdakModel/Geometry.lean` at `α := ℝ`.  A triangle is non-degenerate when its un-normalised
  normal `triangleCross p0 p1 p2 = (p0 - p1) × (p2 - p1)` is not the zero vector (not: when the *sum*
  of its components is non-zero – see the non-vacuity example at the end).
  `C10_batch_is_per_pair` is not stated here: batching is a `List.map` in the harness, not in the model. -/
namespace Odak

/-- the returned normal has length one (finite, non-zero) and is perpendicular to all three edges -/
theorem C10_normal_unit_perpendicular (p0 p1 p2 : Vec3 ℝ) (hnd : triangleCross p0 p1 p2 ≠ ⟨0, 0, 0⟩) :
    Vec3.normSq (triangleNormalDir p0 p1 p2) = 1 ∧
    Vec3.dot (triangleNormalDir p0 p1 p2) (p0 - p1) = 0 ∧
    Vec3.dot (triangleNormalDir p0 p1 p2) (p2 - p1) = 0 ∧
    Vec3.dot (triangleNormalDir p0 p1 p2) (p2 - p0) = 0 := by
  obtain ⟨h0, h1, h2⟩ := triangleCross_dot p0 p1 p2
  refine ⟨?_, ?_, ?_, ?_⟩
  · rw [triangleNormalDir, Vec3.normSq_sdiv, Vec3.norm_mul_self]
    exact div_self (Vec3.normSq_ne_zero hnd)
  · rw [triangleNormalDir_dot, h0, zero_div]
  · rw [triangleNormalDir_dot, h1, zero_div]
  · rw [triangleNormalDir_dot, h2, zero_div]

/-- torch variant: the reported point is origin + distance · direction (signed distance) -/
theorem C10_hit_on_ray (o d p0 p1 p2 : Vec3 ℝ) :
    (intersectSurface o d p0 p1 p2).point
      = o + Vec3.smul (intersectSurface o d p0 p1 p2).distance d := rfl

/-- NumPy variant: the distance is reported as `|t|`, so point = origin + distance · direction only
    for hits in front of the origin (extra hypothesis: the signed parameter is non-negative) -/
theorem C10_np_hit_on_ray_partial (o d p0 p1 p2 : Vec3 ℝ)
    (hfront : 0 ≤ (intersectSurface o d p0 p1 p2).distance) :
    (npIntersectSurface o d p0 p1 p2).point
      = o + Vec3.smul (npIntersectSurface o d p0 p1 p2).distance d := by
  simp only [npIntersectSurface, num_abs, abs_of_nonneg hfront]
  rfl

/-- the hit point satisfies the plane equation through every corner; the plane is anchored at the
    centroid, which lies in the same plane (last three conjuncts) -/
theorem C10_hit_on_plane (o d p0 p1 p2 : Vec3 ℝ) (_hnd : triangleCross p0 p1 p2 ≠ ⟨0, 0, 0⟩)
    (hnp : Vec3.dot (triangleNormalDir p0 p1 p2) d ≠ 0) :
    Vec3.dot (triangleNormalDir p0 p1 p2) ((intersectSurface o d p0 p1 p2).point - p0) = 0 ∧
    Vec3.dot (triangleNormalDir p0 p1 p2) ((intersectSurface o d p0 p1 p2).point - p1) = 0 ∧
    Vec3.dot (triangleNormalDir p0 p1 p2) ((intersectSurface o d p0 p1 p2).point - p2) = 0 ∧
    Vec3.dot (triangleNormalDir p0 p1 p2) (centerOfTriangle p0 p1 p2 - p0) = 0 ∧
    Vec3.dot (triangleNormalDir p0 p1 p2) (centerOfTriangle p0 p1 p2 - p1) = 0 ∧
    Vec3.dot (triangleNormalDir p0 p1 p2) (centerOfTriangle p0 p1 p2 - p2) = 0 := by
  obtain ⟨c0, c1, c2⟩ := triangleNormalDir_dot_center p0 p1 p2
  have key : ∀ p, Vec3.dot (triangleNormalDir p0 p1 p2) ((intersectSurface o d p0 p1 p2).point - p)
      = Vec3.dot (triangleNormalDir p0 p1 p2) (centerOfTriangle p0 p1 p2 - p) := by
    intro p
    simp only [intersectSurface]
    rw [Vec3.dot_ray_sub, rayParam, div_mul_cancel₀ _ hnp, Vec3.dot_sub_add_sub]
  exact ⟨by rw [key, c0], by rw [key, c1], by rw [key, c2], c0, c1, c2⟩

/-- a ray parallel to the plane: the parameter is a division by zero (the ℝ model then yields 0,
    IEEE arithmetic ±inf/NaN); nothing in the result flags this case -/
theorem C10_parallel_divides_by_zero (o d p0 p1 p2 : Vec3 ℝ)
    (hpar : Vec3.dot (triangleNormalDir p0 p1 p2) d = 0) :
    rayParam o d (centerOfTriangle p0 p1 p2) (triangleNormalDir p0 p1 p2)
      = Vec3.dot (triangleNormalDir p0 p1 p2) (centerOfTriangle p0 p1 p2 - o) / 0 ∧
    rayParam o d (centerOfTriangle p0 p1 p2) (triangleNormalDir p0 p1 p2) = 0 := by
  simp only [rayParam, hpar, div_zero, and_self]

/-- for a point of the triangle's plane, `pt = p0 + s (p2 - p0) + t (p1 - p0)`, the computed
    barycentric pair is exactly `(s, t)` and the flag is raised iff the point is inside
    (edges through `p0` included, the edge `p1 p2` excluded) -/
theorem C10_flag_iff_inside (p0 p1 p2 pt : Vec3 ℝ) (hnd : triangleCross p0 p1 p2 ≠ ⟨0, 0, 0⟩) (s t : ℝ)
    (hpt : pt = p0 + Vec3.smul s (p2 - p0) + Vec3.smul t (p1 - p0)) :
    baryUV pt p0 p1 p2 = (s, t) ∧
    (isOnTriangle pt p0 p1 p2 = true ↔ 0 ≤ s ∧ 0 ≤ t ∧ s + t < 1) := by
  subst hpt
  have h := baryUV_of_combination p0 p1 p2 hnd s t
  refine ⟨h, ?_⟩
  simp only [isOnTriangle, h, Bool.and_eq_true, decide_eq_true_eq, and_assoc]

/-- non-vacuity: the triangle (0,0,0), (1,1,0), (0,0,1) is non-degenerate although the components
    of its cross product, (-1, 1, 0), sum to zero -/
example : triangleCross (⟨0, 0, 0⟩ : Vec3 ℝ) ⟨1, 1, 0⟩ ⟨0, 0, 1⟩ ≠ ⟨0, 0, 0⟩ ∧
    Vec3.compSum (triangleCross (⟨0, 0, 0⟩ : Vec3 ℝ) ⟨1, 1, 0⟩ ⟨0, 0, 1⟩) = 0 := by
  constructor
  · intro h
    have := congrArg Vec3.x h
    simp only [triangleCross, Vec3.sub_def, Vec3.sub, Vec3.cross] at this
    norm_num at this
  · simp only [triangleCross, Vec3.sub_def, Vec3.sub, Vec3.cross, Vec3.compSum]; norm_num

/-- non-vacuity of `C10_hit_on_plane`: a ray along z through that triangle's plane is not parallel -/
example : Vec3.dot (triangleNormalDir (⟨0, 0, 0⟩ : Vec3 ℝ) ⟨1, 0, 0⟩ ⟨0, 1, 0⟩) ⟨0, 0, 1⟩ ≠ 0 := by
  geo_simp; norm_num

end Odak

/-! ## The same conclusions for the definitions REGENERATED from the Python source
  (`Generated/GeometryGen.lean`, tied to the model by `Lemmas/GenGeometry.lean`).  `…T` = torch, `…N` = NumPy. -/
namespace Odak
open Odak.Gen

/-- generated `get_triangle_normal` (both APIs): anchored at the centroid, unit length, perpendicular to all three edges -/
theorem C10_gen_normal_unit_perpendicular (p0 p1 p2 : Vec3 ℝ) (hnd : triangleCross p0 p1 p2 ≠ ⟨0, 0, 0⟩) :
    ∀ nrm ∈ [getTriangleNormalT p0 p1 p2, getTriangleNormalN p0 p1 p2],
      nrm.o = centerOfTriangle p0 p1 p2 ∧ Vec3.normSq nrm.d = 1 ∧
      Vec3.dot nrm.d (p0 - p1) = 0 ∧ Vec3.dot nrm.d (p2 - p1) = 0 ∧ Vec3.dot nrm.d (p2 - p0) = 0 := by
  intro nrm h
  have e : nrm = ⟨centerOfTriangle p0 p1 p2, triangleNormalDir p0 p1 p2⟩ := by
    rcases List.mem_cons.mp h with h | h
    · rw [h, getTriangleNormalT_eq]
    · rw [List.mem_singleton.mp h, getTriangleNormalN_eq]
  subst e
  exact ⟨rfl, C10_normal_unit_perpendicular p0 p1 p2 hnd⟩

/-- generated torch `intersect_w_surface`: the reported point is origin + (signed) distance · direction -/
theorem C10_gen_hit_on_ray_t (r : Ray ℝ) (p0 p1 p2 : Vec3 ℝ) :
    (intersectSurfaceT r p0 p1 p2).point = r.o + Vec3.smul (intersectSurfaceT r p0 p1 p2).distance r.d := by
  rw [intersectSurfaceT_eq]; exact C10_hit_on_ray r.o r.d p0 p1 p2

/-- generated NumPy `intersect_w_surface`: the distance is `|t|`, so the same holds only for hits in front of the origin -/
theorem C10_gen_hit_on_ray_n_partial (r : Ray ℝ) (p0 p1 p2 : Vec3 ℝ)
    (hfront : 0 ≤ (intersectSurfaceT r p0 p1 p2).distance) :
    (intersectSurfaceN r p0 p1 p2).point = r.o + Vec3.smul (intersectSurfaceN r p0 p1 p2).distance r.d ∧
    (intersectSurfaceN r p0 p1 p2).distance = |(intersectSurfaceT r p0 p1 p2).distance| ∧
    (intersectSurfaceN r p0 p1 p2).point = (intersectSurfaceT r p0 p1 p2).point := by
  rw [intersectSurfaceT_eq] at hfront
  rw [intersectSurfaceN_eq, intersectSurfaceT_eq]
  exact ⟨C10_np_hit_on_ray_partial r.o r.d p0 p1 p2 hfront, rfl, rfl⟩

/-- generated `intersect_w_surface` (both APIs): the hit point satisfies the plane equation through every corner, with the
    returned normal -/
theorem C10_gen_hit_on_plane (r : Ray ℝ) (p0 p1 p2 : Vec3 ℝ) (hnd : triangleCross p0 p1 p2 ≠ ⟨0, 0, 0⟩)
    (hnp : Vec3.dot (getTriangleNormalT p0 p1 p2).d r.d ≠ 0) :
    ∀ h ∈ [intersectSurfaceT r p0 p1 p2, intersectSurfaceN r p0 p1 p2],
      Vec3.dot h.normal (h.point - p0) = 0 ∧ Vec3.dot h.normal (h.point - p1) = 0 ∧ Vec3.dot h.normal (h.point - p2) = 0 := by
  rw [getTriangleNormalT_eq] at hnp
  obtain ⟨h0, h1, h2, _⟩ := C10_hit_on_plane r.o r.d p0 p1 p2 hnd hnp
  intro h hm
  rcases List.mem_cons.mp hm with e | e
  · rw [e, intersectSurfaceT_eq]; exact ⟨h0, h1, h2⟩
  · rw [List.mem_singleton.mp e, intersectSurfaceN_eq]; exact ⟨h0, h1, h2⟩

/-- generated torch `is_it_on_triangle`: for a point of the plane the computed pair is its barycentric pair and the flag is
    raised iff the point is inside -/
theorem C10_gen_flag_iff_inside_t (p0 p1 p2 pt : Vec3 ℝ) (hnd : triangleCross p0 p1 p2 ≠ ⟨0, 0, 0⟩) (s t : ℝ)
    (hpt : pt = p0 + Vec3.smul s (p2 - p0) + Vec3.smul t (p1 - p0)) :
    baryUVT pt p0 p1 p2 = (s, t) ∧ (isOnTriangleT pt p0 p1 p2 = true ↔ 0 ≤ s ∧ 0 ≤ t ∧ s + t < 1) := by
  rw [baryUVT_eq, isOnTriangleT_eq]; exact C10_flag_iff_inside p0 p1 p2 pt hnd s t hpt

/-- generated NumPy `is_it_on_triangle` is the three-sided `same_side` test of the model -/
theorem C10_gen_same_side_n (pt p0 p1 p2 : Vec3 ℝ) :
    isOnTriangleN pt p0 p1 p2 = (sameSide pt p0 p1 p2 && sameSide pt p1 p0 p2 && sameSide pt p2 p0 p1) :=
  isOnTriangleN_eq pt p0 p1 p2

/-- generated torch `intersect_w_circle`: the plane hit of `intersect_w_surface`; the distance is kept inside the circle and
    set to zero outside -/
theorem C10_gen_circle_t (r : Ray ℝ) (c0 c1 c2 centre : Vec3 ℝ) (radius : ℝ) :
    (intersectCircleT r c0 c1 c2 centre radius).point = (intersectSurfaceT r c0 c1 c2).point ∧
    (Vec3.norm ((intersectSurfaceT r c0 c1 c2).point - centre) ≤ radius →
      (intersectCircleT r c0 c1 c2 centre radius).distance = (intersectSurfaceT r c0 c1 c2).distance) ∧
    (radius < Vec3.norm ((intersectSurfaceT r c0 c1 c2).point - centre) →
      (intersectCircleT r c0 c1 c2 centre radius).distance = 0) := by
  rw [intersectCircleT_eq, intersectSurfaceT_eq]
  refine ⟨rfl, fun h => ?_, fun h => ?_⟩
  · simp only [if_neg (not_lt.mpr h)]
  · simp only [if_pos h]

end Odak
