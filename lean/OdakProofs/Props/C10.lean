import OdakProofs.Lemmas.Geometry
import OdakProofs.Lemmas.GenGeometry
import OdakProofs.Lemmas.GenGeometryBatch

/-! # C10 – ray / plane / triangle intersection
  Model: `OdakModel/Geometry.lean` at `α := ℝ`.  A triangle is non-degenerate when its un-normalised
  normal `triangleCross p0 p1 p2 = (p0 - p1) × (p2 - p1)` is not the zero vector (not: when the *sum*
  of its components is non-zero – see the non-vacuity example at the end).
  `C10_batch_is_per_pair` is not stated here: batching is a `List.map` in the harness, not in the model. -/
namespace Odak

/-- the returned normal has length one (finite, non-zero) and is perpendicular to all three edges -/
theorem C10_normal_unit_perpendicular (p0 p1 p2 : Vec3 ℝ) (hnd : triangleCross p0 p1 p2 ≠ ⟨0, 0, 0⟩) :
    Vec3.normSq (triangleNormalDir p0 p1 p2) = 1 ∧
    Vec3.dot (triangleNormalDir p0 p1 p2) (p0 - p1) = 0 ∧
    Vec3.dot (triangleNormalDir p0 p1 p2) (p2 - p1) = 0 ∧
    Vec3.dot (triangleNormalDir p0 p1 p2) (p2 - p0) = 0 := by
  obtain ⟨h0, h1, h2⟩ := triangleCross_dot p0 p1 p2
  refine ⟨?_, ?_, ?_, ?_⟩
  · rw [triangleNormalDir, Vec3.normSq_sdiv, Vec3.norm_mul_self]
    exact div_self (Vec3.normSq_ne_zero hnd)
  · rw [triangleNormalDir_dot, h0, zero_div]
  · rw [triangleNormalDir_dot, h1, zero_div]
  · rw [triangleNormalDir_dot, h2, zero_div]

/-- torch variant: the reported point is origin + distance · direction (signed distance) -/
theorem C10_hit_on_ray (o d p0 p1 p2 : Vec3 ℝ) :
    (intersectSurface o d p0 p1 p2).point
      = o + Vec3.smul (intersectSurface o d p0 p1 p2).distance d := rfl

/-- NumPy variant: the distance is reported as `|t|`, so point = origin + distance · direction only
    for hits in front of the origin (extra hypothesis: the signed parameter is non-negative) -/
theorem C10_np_hit_on_ray_partial (o d p0 p1 p2 : Vec3 ℝ)
    (hfront : 0 ≤ (intersectSurface o d p0 p1 p2).distance) :
    (npIntersectSurface o d p0 p1 p2).point
      = o + Vec3.smul (npIntersectSurface o d p0 p1 p2).distance d := by
  simp only [npIntersectSurface, num_abs, abs_of_nonneg hfront]
  rfl

/-- the hit point satisfies the plane equation through every corner; the plane is anchored at the
    centroid, which lies in the same plane (last three conjuncts) -/
theorem C10_hit_on_plane (o d p0 p1 p2 : Vec3 ℝ) (_hnd : triangleCross p0 p1 p2 ≠ ⟨0, 0, 0⟩)
    (hnp : Vec3.dot (triangleNormalDir p0 p1 p2) d ≠ 0) :
    Vec3.dot (triangleNormalDir p0 p1 p2) ((intersectSurface o d p0 p1 p2).point - p0) = 0 ∧
    Vec3.dot (triangleNormalDir p0 p1 p2) ((intersectSurface o d p0 p1 p2).point - p1) = 0 ∧
    Vec3.dot (triangleNormalDir p0 p1 p2) ((intersectSurface o d p0 p1 p2).point - p2) = 0 ∧
    Vec3.dot (triangleNormalDir p0 p1 p2) (centerOfTriangle p0 p1 p2 - p0) = 0 ∧
    Vec3.dot (triangleNormalDir p0 p1 p2) (centerOfTriangle p0 p1 p2 - p1) = 0 ∧
    Vec3.dot (triangleNormalDir p0 p1 p2) (centerOfTriangle p0 p1 p2 - p2) = 0 := by
  obtain ⟨c0, c1, c2⟩ := triangleNormalDir_dot_center p0 p1 p2
  have key : ∀ p, Vec3.dot (triangleNormalDir p0 p1 p2) ((intersectSurface o d p0 p1 p2).point - p)
      = Vec3.dot (triangleNormalDir p0 p1 p2) (centerOfTriangle p0 p1 p2 - p) := by
    intro p
    simp only [intersectSurface]
    rw [Vec3.dot_ray_sub, rayParam, div_mul_cancel₀ _ hnp, Vec3.dot_sub_add_sub]
  exact ⟨by rw [key, c0], by rw [key, c1], by rw [key, c2], c0, c1, c2⟩

/-- a ray parallel to the plane: the parameter is a division by zero (the ℝ model then yields 0,
    IEEE arithmetic ±inf/NaN); nothing in the result flags this case -/
theorem C10_parallel_divides_by_zero (o d p0 p1 p2 : Vec3 ℝ)
    (hpar : Vec3.dot (triangleNormalDir p0 p1 p2) d = 0) :
    rayParam o d (centerOfTriangle p0 p1 p2) (triangleNormalDir p0 p1 p2)
      = Vec3.dot (triangleNormalDir p0 p1 p2) (centerOfTriangle p0 p1 p2 - o) / 0 ∧
    rayParam o d (centerOfTriangle p0 p1 p2) (triangleNormalDir p0 p1 p2) = 0 := by
  simp only [rayParam, hpar, div_zero, and_self]

/-- for a point of the triangle's plane, `pt = p0 + s (p2 - p0) + t (p1 - p0)`, the computed
    barycentric pair is exactly `(s, t)` and the flag is raised iff the point is inside
    (edges through `p0` included, the edge `p1 p2` excluded) -/
theorem C10_flag_iff_inside (p0 p1 p2 pt : Vec3 ℝ) (hnd : triangleCross p0 p1 p2 ≠ ⟨0, 0, 0⟩) (s t : ℝ)
    (hpt : pt = p0 + Vec3.smul s (p2 - p0) + Vec3.smul t (p1 - p0)) :
    baryUV pt p0 p1 p2 = (s, t) ∧
    (isOnTriangle pt p0 p1 p2 = true ↔ 0 ≤ s ∧ 0 ≤ t ∧ s + t < 1) := by
  subst hpt
  have h := baryUV_of_combination p0 p1 p2 hnd s t
  refine ⟨h, ?_⟩
  simp only [isOnTriangle, h, Bool.and_eq_true, decide_eq_true_eq, and_assoc]

/-- non-vacuity: the triangle (0,0,0), (1,1,0), (0,0,1) is non-degenerate although the components
    of its cross product, (-1, 1, 0), sum to zero -/
example : triangleCross (⟨0, 0, 0⟩ : Vec3 ℝ) ⟨1, 1, 0⟩ ⟨0, 0, 1⟩ ≠ ⟨0, 0, 0⟩ ∧
    Vec3.compSum (triangleCross (⟨0, 0, 0⟩ : Vec3 ℝ) ⟨1, 1, 0⟩ ⟨0, 0, 1⟩) = 0 := by
  constructor
  · intro h
    have := congrArg Vec3.x h
    simp only [triangleCross, Vec3.sub_def, Vec3.sub, Vec3.cross] at this
    norm_num at this
  · simp only [triangleCross, Vec3.sub_def, Vec3.sub, Vec3.cross, Vec3.compSum]; norm_num

/-- non-vacuity of `C10_hit_on_plane`: a ray along z through that triangle's plane is not parallel -/
example : Vec3.dot (triangleNormalDir (⟨0, 0, 0⟩ : Vec3 ℝ) ⟨1, 0, 0⟩ ⟨0, 1, 0⟩) ⟨0, 0, 1⟩ ≠ 0 := by
  geo_simp; norm_num

end Odak

/-! ## The same conclusions for the definitions REGENERATED from the Python source
  (`Generated/GeometryGen.lean`, tied to the model by `Lemmas/GenGeometry.lean`).  `…T` = torch, `…N` = NumPy. -/
namespace Odak
open Odak.Gen

/-- generated `get_triangle_normal` (both APIs): anchored at the centroid, unit length, perpendicular to all three edges -/
theorem C10_gen_normal_unit_perpendicular (p0 p1 p2 : Vec3 ℝ) (hnd : triangleCross p0 p1 p2 ≠ ⟨0, 0, 0⟩) :
    ∀ nrm ∈ [getTriangleNormalT p0 p1 p2, getTriangleNormalN p0 p1 p2],
      nrm.o = centerOfTriangle p0 p1 p2 ∧ Vec3.normSq nrm.d = 1 ∧
      Vec3.dot nrm.d (p0 - p1) = 0 ∧ Vec3.dot nrm.d (p2 - p1) = 0 ∧ Vec3.dot nrm.d (p2 - p0) = 0 := by
  intro nrm h
  have e : nrm = ⟨centerOfTriangle p0 p1 p2, triangleNormalDir p0 p1 p2⟩ := by
    rcases List.mem_cons.mp h with h | h
    · rw [h, getTriangleNormalT_eq]
    · rw [List.mem_singleton.mp h, getTriangleNormalN_eq]
  subst e
  exact ⟨rfl, C10_normal_unit_perpendicular p0 p1 p2 hnd⟩

/-- generated torch `intersect_w_surface`: the reported point is origin + (signed) distance · direction -/
theorem C10_gen_hit_on_ray_t (r : Ray ℝ) (p0 p1 p2 : Vec3 ℝ) :
    (intersectSurfaceT r p0 p1 p2).point = r.o + Vec3.smul (intersectSurfaceT r p0 p1 p2).distance r.d := by
  rw [intersectSurfaceT_eq]; exact C10_hit_on_ray r.o r.d p0 p1 p2

/-- generated NumPy `intersect_w_surface`: the distance is `|t|`, so the same holds only for hits in front of the origin -/
theorem C10_gen_hit_on_ray_n_partial (r : Ray ℝ) (p0 p1 p2 : Vec3 ℝ)
    (hfront : 0 ≤ (intersectSurfaceT r p0 p1 p2).distance) :
    (intersectSurfaceN r p0 p1 p2).point = r.o + Vec3.smul (intersectSurfaceN r p0 p1 p2).distance r.d ∧
    (intersectSurfaceN r p0 p1 p2).distance = |(intersectSurfaceT r p0 p1 p2).distance| ∧
    (intersectSurfaceN r p0 p1 p2).point = (intersectSurfaceT r p0 p1 p2).point := by
  rw [intersectSurfaceT_eq] at hfront
  rw [intersectSurfaceN_eq, intersectSurfaceT_eq]
  exact ⟨C10_np_hit_on_ray_partial r.o r.d p0 p1 p2 hfront, rfl, rfl⟩

/-- generated `intersect_w_surface` (both APIs): the hit point satisfies the plane equation through every corner, with the
    returned normal -/
theorem C10_gen_hit_on_plane (r : Ray ℝ) (p0 p1 p2 : Vec3 ℝ) (hnd : triangleCross p0 p1 p2 ≠ ⟨0, 0, 0⟩)
    (hnp : Vec3.dot (getTriangleNormalT p0 p1 p2).d r.d ≠ 0) :
    ∀ h ∈ [intersectSurfaceT r p0 p1 p2, intersectSurfaceN r p0 p1 p2],
      Vec3.dot h.normal (h.point - p0) = 0 ∧ Vec3.dot h.normal (h.point - p1) = 0 ∧ Vec3.dot h.normal (h.point - p2) = 0 := by
  rw [getTriangleNormalT_eq] at hnp
  obtain ⟨h0, h1, h2, _⟩ := C10_hit_on_plane r.o r.d p0 p1 p2 hnd hnp
  intro h hm
  rcases List.mem_cons.mp hm with e | e
  · rw [e, intersectSurfaceT_eq]; exact ⟨h0, h1, h2⟩
  · rw [List.mem_singleton.mp e, intersectSurfaceN_eq]; exact ⟨h0, h1, h2⟩

/-- generated torch `is_it_on_triangle`: for a point of the plane the computed pair is its barycentric pair and the flag is
    raised iff the point is inside -/
theorem C10_gen_flag_iff_inside_t (p0 p1 p2 pt : Vec3 ℝ) (hnd : triangleCross p0 p1 p2 ≠ ⟨0, 0, 0⟩) (s t : ℝ)
    (hpt : pt = p0 + Vec3.smul s (p2 - p0) + Vec3.smul t (p1 - p0)) :
    baryUVT pt p0 p1 p2 = (s, t) ∧ (isOnTriangleT pt p0 p1 p2 = true ↔ 0 ≤ s ∧ 0 ≤ t ∧ s + t < 1) := by
  rw [baryUVT_eq, isOnTriangleT_eq]; exact C10_flag_iff_inside p0 p1 p2 pt hnd s t hpt

/-- generated NumPy `is_it_on_triangle` is the three-sided `same_side` test of the model -/
theorem C10_gen_same_side_n (pt p0 p1 p2 : Vec3 ℝ) :
    isOnTriangleN pt p0 p1 p2 = (sameSide pt p0 p1 p2 && sameSide pt p1 p0 p2 && sameSide pt p2 p0 p1) :=
  isOnTriangleN_eq pt p0 p1 p2

/-- generated torch `intersect_w_circle`: the plane hit of `intersect_w_surface`; the distance is kept inside the circle and
    set to zero outside -/
theorem C10_gen_circle_t (r : Ray ℝ) (c0 c1 c2 centre : Vec3 ℝ) (radius : ℝ) :
    (intersectCircleT r c0 c1 c2 centre radius).point = (intersectSurfaceT r c0 c1 c2).point ∧
    (Vec3.norm ((intersectSurfaceT r c0 c1 c2).point - centre) ≤ radius →
      (intersectCircleT r c0 c1 c2 centre radius).distance = (intersectSurfaceT r c0 c1 c2).distance) ∧
    (radius < Vec3.norm ((intersectSurfaceT r c0 c1 c2).point - centre) →
      (intersectCircleT r c0 c1 c2 centre radius).distance = 0) := by
  rw [intersectCircleT_eq, intersectSurfaceT_eq]
  refine ⟨rfl, fun h => ?_, fun h => ?_⟩
  · simp only [if_neg (not_lt.mpr h)]
  · simp only [if_pos h]

end Odak

/-! ## "Batched intersection returns the same results as intersecting each ray-triangle pair separately"
  for the BATCHED routines regenerated from the Python source with their batch structure explicit
  (`Generated/GeometryBatch.lean`: which ray `i < m` and which triangle `j < k` every output element `[j, i]` is computed from is
  read off `unsqueeze` / `[:, None]` / `repeat` / `permute` / `bmm` / `masked_select` / `split` by `harness/translate/geombatch.py`;
  ties in `Lemmas/GenGeometryBatch.lean`).  A batch of `m ≥ 1` rays is `Fin m → Ray`, a batch of `k ≥ 1` triangles `Fin k → Tri`. -/
namespace Odak
open Odak.Gen

section
variable {m k : Nat} [NeZero m] [NeZero k]

/-- torch `intersect_w_surface_batch`, `is_it_on_triangle_batch`, `intersect_w_triangle_batch`, for every scalar type (so also in
    floating point, operation by operation): the element `[j][i]` of the batch (hit point, normal, distance, hit flag) is the
    single-pair result (regenerated `intersect_w_surface` / `is_it_on_triangle`) for ray `i` and triangle `j` -/
theorem C10_gen_batch_is_per_pair {α : Type} [Num α] (ray : Fin m → Ray α) (tri : Fin k → Tri α) (j : Fin k) (i : Fin m) :
    intersectSurfaceBatchT ray tri j i = intersectSurfaceT (ray i) (tri j).p0 (tri j).p1 (tri j).p2 ∧
    (∀ pts : Fin k → Fin m → Vec3 α, isOnTriangleBatchT pts tri j i = isOnTriangleT (pts j i) (tri j).p0 (tri j).p1 (tri j).p2) ∧
    intersectTriangleBatchNormalT ray tri j i =
      ⟨(intersectSurfaceT (ray i) (tri j).p0 (tri j).p1 (tri j).p2).point, (intersectSurfaceT (ray i) (tri j).p0 (tri j).p1 (tri j).p2).normal⟩ ∧
    intersectTriangleBatchCheckT ray tri j i =
      isOnTriangleT (intersectSurfaceT (ray i) (tri j).p0 (tri j).p1 (tri j).p2).point (tri j).p0 (tri j).p1 (tri j).p2 ∧
    getTriangleNormalBatchT tri j = getTriangleNormalT (tri j).p0 (tri j).p1 (tri j).p2 :=
  ⟨intersectSurfaceBatchT_eq ray tri j i, fun pts => isOnTriangleBatchT_eq pts tri j i, intersectTriangleBatchNormalT_eq ray tri j i,
   intersectTriangleBatchCheckT_eq ray tri j i, getTriangleNormalBatchT_eq tri j⟩

/-- the two torch entry points agree: `intersect_w_triangle` with the batch of rays and triangle `j` alone returns row `j` of
    `intersect_w_triangle_batch` -/
theorem C10_gen_batch_rows {α : Type} [Num α] (ray : Fin m → Ray α) (tri : Fin k → Tri α) (j : Fin k) (i : Fin m) :
    intersectTriangleRaysHitT ray (tri j) i = intersectSurfaceBatchT ray tri j i ∧
    intersectTriangleRaysCheckT ray (tri j) i = intersectTriangleBatchCheckT ray tri j i ∧
    intersectTriangleRaysHitRaysT ray (tri j) = ((List.finRange m).filter fun i => intersectTriangleBatchCheckT ray tri j i).map ray :=
  ⟨rfl, rfl, rfl⟩

/-- the batch in terms of the hand-written model: element `[j][i]` is `intersectSurface` / `isOnTriangle` of the pair -/
theorem C10_gen_batch_model (ray : Fin m → Ray ℝ) (tri : Fin k → Tri ℝ) (j : Fin k) (i : Fin m) :
    intersectSurfaceBatchT ray tri j i = intersectSurface (ray i).o (ray i).d (tri j).p0 (tri j).p1 (tri j).p2 ∧
    intersectTriangleBatchCheckT ray tri j i =
      isOnTriangle (intersectSurface (ray i).o (ray i).d (tri j).p0 (tri j).p1 (tri j).p2).point (tri j).p0 (tri j).p1 (tri j).p2 := by
  rw [intersectSurfaceBatchT_eq, intersectTriangleBatchCheckT_eq, pairFlagT, pairHitT, isOnTriangleT_eq, intersectSurfaceT_eq]
  exact ⟨rfl, rfl⟩

/-- every element of the batch is geometrically sound: for a non-degenerate triangle `j` and a ray `i` not parallel to it the hit
    point `[j][i]` is `origin + distance · direction` of ray `i` and satisfies the plane equation of triangle `j` through every
    corner, with the returned normal -/
theorem C10_gen_batch_hit_on_plane (ray : Fin m → Ray ℝ) (tri : Fin k → Tri ℝ) (j : Fin k) (i : Fin m)
    (hnd : triangleCross (tri j).p0 (tri j).p1 (tri j).p2 ≠ ⟨0, 0, 0⟩)
    (hnp : Vec3.dot (getTriangleNormalBatchT tri j).d (ray i).d ≠ 0) :
    let h := intersectSurfaceBatchT ray tri j i
    h.point = (ray i).o + Vec3.smul h.distance (ray i).d ∧
    Vec3.dot h.normal (h.point - (tri j).p0) = 0 ∧ Vec3.dot h.normal (h.point - (tri j).p1) = 0 ∧
    Vec3.dot h.normal (h.point - (tri j).p2) = 0 := by
  intro h
  rw [getTriangleNormalBatchT_eq] at hnp
  have hp := C10_gen_hit_on_plane (ray i) (tri j).p0 (tri j).p1 (tri j).p2 hnd hnp
      (intersectSurfaceT (ray i) (tri j).p0 (tri j).p1 (tri j).p2) (List.mem_cons_self ..)
  exact ⟨C10_gen_hit_on_ray_t (ray i) (tri j).p0 (tri j).p1 (tri j).p2, hp⟩

/-- the lists returned by `intersect_w_triangle_batch` (`masked_select` with the flattened flags, `split` by the row counts, empty
    groups dropped): triangle after triangle, the rays / normals / distances of exactly the pairs whose hit flag is set, in ray order -/
theorem C10_gen_batch_lists {α : Type} [Num α] (ray : Fin m → Ray α) (tri : Fin k → Tri α) :
    intersectTriangleBatchRaysT ray tri = Batch.nonEmpty ((List.finRange k).map fun j =>
      ((List.finRange m).filter fun i => intersectTriangleBatchCheckT ray tri j i).map ray) ∧
    intersectTriangleBatchNormalsT ray tri = Batch.nonEmpty ((List.finRange k).map fun j =>
      ((List.finRange m).filter fun i => intersectTriangleBatchCheckT ray tri j i).map fun i => intersectTriangleBatchNormalT ray tri j i) ∧
    intersectTriangleBatchDistancesT ray tri = Batch.nonEmpty ((List.finRange k).map fun j =>
      ((List.finRange m).filter fun i => intersectTriangleBatchCheckT ray tri j i).map fun i => (intersectSurfaceBatchT ray tri j i).distance) :=
  ⟨intersectTriangleBatchRaysT_eq ray tri, intersectTriangleBatchNormalsT_eq ray tri, intersectTriangleBatchDistancesT_eq ray tri⟩

/-- a ray is listed among the intersecting rays iff it is a ray of the batch whose flag is set for some triangle -/
theorem C10_gen_batch_listed_iff_hit {α : Type} [Num α] (ray : Fin m → Ray α) (tri : Fin k → Tri α) (r : Ray α) :
    (∃ g ∈ intersectTriangleBatchRaysT ray tri, r ∈ g) ↔
      ∃ j i, intersectTriangleBatchCheckT ray tri j i = true ∧ r = ray i := by
  rw [(C10_gen_batch_lists ray tri).1]
  constructor
  · rintro ⟨g, hg, hr⟩
    obtain ⟨hg, _⟩ := (Batch.mem_nonEmpty _ _).mp hg
    obtain ⟨j, _, rfl⟩ := List.mem_map.mp hg
    obtain ⟨i, hi, rfl⟩ := List.mem_map.mp hr
    exact ⟨j, i, (List.mem_filter.mp hi).2, rfl⟩
  · rintro ⟨j, i, hf, rfl⟩
    have hmem : ray i ∈ ((List.finRange m).filter fun i => intersectTriangleBatchCheckT ray tri j i).map ray :=
      List.mem_map.mpr ⟨i, List.mem_filter.mpr ⟨List.mem_finRange i, hf⟩, rfl⟩
    exact ⟨_, (Batch.mem_nonEmpty _ _).mpr ⟨List.mem_map.mpr ⟨j, List.mem_finRange j, rfl⟩, List.ne_nil_of_mem hmem⟩, hmem⟩

/-- `planar_mesh.mirror` (torch): the returned rays and normals are, triangle after triangle of the mesh and in ray order, one entry
    for every pair (triangle `j`, ray `i`) whose hit flag is set: the normal anchored at the hit point of ray `i` on triangle `j` with
    the direction of triangle `j`'s normal, and the reflection (regenerated `reflect`) of ray `i` at exactly that normal -/
theorem C10_gen_batch_mirror {α : Type} [Num α] (rays : Fin m → Ray α) (tris : Fin k → Tri α) :
    let hits := (List.finRange k).flatMap fun j =>
      ((List.finRange m).filter fun i => intersectTriangleBatchCheckT rays tris j i).map fun i => (j, i)
    (mirrorT rays tris).1 = hits.map (fun p => reflectT (rays p.2) (intersectTriangleBatchNormalT rays tris p.1 p.2)) ∧
    (mirrorT rays tris).2 = hits.map (fun p => intersectTriangleBatchNormalT rays tris p.1 p.2) := by
  intro hits
  rw [mirrorT_eq]
  simp only [hits, List.map_flatMap, List.map_map]
  exact ⟨rfl, rfl⟩

/-- every ray returned by `planar_mesh.mirror` is the reflection of an input ray at its hit point on one of the mesh triangles whose
    hit flag is true, and every such reflection is returned -/
theorem C10_gen_batch_mirror_mem {α : Type} [Num α] (rays : Fin m → Ray α) (tris : Fin k → Tri α) (r : Ray α) :
    r ∈ (mirrorT rays tris).1 ↔
      ∃ j i, isOnTriangleT (intersectSurfaceT (rays i) (tris j).p0 (tris j).p1 (tris j).p2).point (tris j).p0 (tris j).p1 (tris j).p2 = true ∧
        r = reflectT (rays i) ⟨(intersectSurfaceT (rays i) (tris j).p0 (tris j).p1 (tris j).p2).point,
                               (intersectSurfaceT (rays i) (tris j).p0 (tris j).p1 (tris j).p2).normal⟩ := by
  rw [mirrorT_eq]
  simp only [List.mem_flatMap, List.mem_map, List.mem_filter, List.mem_finRange, true_and]
  constructor
  · rintro ⟨j, i, hf, rfl⟩; exact ⟨j, i, hf, rfl⟩
  · rintro ⟨j, i, hf, rfl⟩; exact ⟨j, i, hf, rfl⟩

/-- in terms of the model: a mirrored ray starts at the hit point (on the plane of its triangle, `C10_gen_batch_hit_on_plane`) and has
    the direction `reflectDir ε d n` of the law of reflection with the triangle's unit normal `n` (ε = the regenerated torch epsilon) -/
theorem C10_gen_batch_mirror_model (rays : Fin m → Ray ℝ) (tris : Fin k → Tri ℝ) (r : Ray ℝ) (hr : r ∈ (mirrorT rays tris).1) :
    ∃ j i, isOnTriangle (intersectSurface (rays i).o (rays i).d (tris j).p0 (tris j).p1 (tris j).p2).point (tris j).p0 (tris j).p1 (tris j).p2 = true ∧
      r.o = (intersectSurface (rays i).o (rays i).d (tris j).p0 (tris j).p1 (tris j).p2).point ∧
      r.d = reflectDir reflectEpsTorch (rays i).d (triangleNormalDir (tris j).p0 (tris j).p1 (tris j).p2) := by
  obtain ⟨j, i, hf, rfl⟩ := (C10_gen_batch_mirror_mem rays tris r).mp hr
  rw [isOnTriangleT_eq, intersectSurfaceT_eq] at hf
  refine ⟨j, i, hf, ?_, ?_⟩
  · rw [reflectT_eq, intersectSurfaceT_eq]
  · rw [reflectT_eq, intersectSurfaceT_eq]; rfl

end

/-! ### NumPy: `[m x 2 x 3]` batches, circles, `intersect_w_triangle` -/
section
variable {m n : Nat} [NeZero m] [NeZero n]

/-- NumPy `intersect_w_surface` / `reflect` / `intersect_w_circle` and torch `reflect` / `intersect_w_circle` with a batch: element
    `i` is the single-ray result for ray `i` (and normal `i`; also n rays at one normal and one ray at n normals) -/
theorem C10_gen_batch_numpy {α : Type} [Num α] (ray : Fin m → Ray α) (t : Tri α) (centre : Vec3 α) (radius : α) (i : Fin m)
    (r nrm : Fin n → Ray α) (q : Fin n) :
    intersectSurfaceRaysN ray t i = intersectSurfaceN (ray i) t.p0 t.p1 t.p2 ∧
    reflectBatchN r nrm q = reflectN (r q) (nrm q) ∧ reflectBatchT r nrm q = reflectT (r q) (nrm q) ∧
    reflectRaysN r (nrm q) q = reflectN (r q) (nrm q) ∧ reflectRaysT r (nrm q) q = reflectT (r q) (nrm q) ∧
    reflectNormalsN (r q) nrm q = reflectN (r q) (nrm q) ∧ reflectNormalsT (r q) nrm q = reflectT (r q) (nrm q) ∧
    intersectCircleRaysT ray t centre radius i = intersectCircleT (ray i) t.p0 t.p1 t.p2 centre radius ∧
    (intersectCircleRaysN ray t centre radius i).point = (intersectSurfaceN (ray i) t.p0 t.p1 t.p2).point ∧
    (intersectCircleRaysN ray t centre radius i).distance =
      (if decide (radius < Vec3.norm ((intersectSurfaceN (ray i) t.p0 t.p1 t.p2).point - centre)) = true then Num.ofNat 0
       else (intersectSurfaceN (ray i) t.p0 t.p1 t.p2).distance) :=
  ⟨rfl, rfl, rfl, rfl, rfl, rfl, rfl, rfl, rfl, rfl⟩

/-- NumPy `intersect_w_circle` with a batch, over ℝ: inside the circle ray `i` keeps ITS distance, outside it gets zero -/
theorem C10_gen_batch_circle_n (ray : Fin m → Ray ℝ) (t : Tri ℝ) (centre : Vec3 ℝ) (radius : ℝ) (i : Fin m) :
    (Vec3.norm ((intersectSurfaceN (ray i) t.p0 t.p1 t.p2).point - centre) ≤ radius →
      (intersectCircleRaysN ray t centre radius i).distance = (intersectSurfaceN (ray i) t.p0 t.p1 t.p2).distance) ∧
    (radius < Vec3.norm ((intersectSurfaceN (ray i) t.p0 t.p1 t.p2).point - centre) →
      (intersectCircleRaysN ray t centre radius i).distance = 0) := by
  rw [(C10_gen_batch_numpy ray t centre radius i (fun _ : Fin 1 => ray i) (fun _ => ray i) 0).2.2.2.2.2.2.2.2.2]
  refine ⟨fun h => ?_, fun h => ?_⟩
  · simp only [decide_eq_true_eq, if_neg (not_lt.mpr h)]
  · simp only [decide_eq_true_eq, if_pos h, num_ofNat, Nat.cast_zero]

/-- NumPy `intersect_w_triangle` (one ray, one triangle; the source does not batch it): the plane hit when the three-sided `same_side`
    test of the model accepts the hit point, otherwise the pair `0, 0` -/
theorem C10_gen_triangle_n (r : Ray ℝ) (t : Tri ℝ) :
    intersectTriangleN r t =
      if npIsOnTriangle (npIntersectSurface r.o r.d t.p0 t.p1 t.p2).point t.p0 t.p1 t.p2 = true
      then some (npIntersectSurface r.o r.d t.p0 t.p1 t.p2) else none := by
  rw [intersectTriangleN_eq, pairHitN, isOnTriangleN_eq, intersectSurfaceN_eq]

end
end Odak
