import OdakProofs.Lemmas.Kernels
import OdakProofs.Lemmas.PropagateLemmas
import OdakProofs.Lemmas.NumpyPipelines
import OdakProofs.Lemmas.GenPipelines
import OdakProofs.Lemmas.GenPipelinesMore

/-! # C03 – propagation is linear and shift-equivariant (superposition principle) -/
namespace Odak

/-- the core: for ANY kernel `H` and aperture `A` (so for every method that funnels through torch
    `custom`: angular spectrum, band-limited, Fresnel transfer function, impulse-response and its
    separable form, incoherent, user kernel) and all complex scalars `a, b`:
    `out(a u + b v) = a out(u) + b out(v)`; the zero field maps to the zero field. -/
theorem C03_custom_linear {n m : Nat} (u v H A : CGrid ℝ n m) (a b : Cx ℝ) :
    custom (CGrid.add (CGrid.smul a u) (CGrid.smul b v)) H A
      = CGrid.add (CGrid.smul a (custom u H A)) (CGrid.smul b (custom v H A)) ∧
    custom CGrid.zero H A = CGrid.zero := by
  constructor
  · rw [custom_add, custom_smul, custom_smul]
  · exact custom_zero H A

theorem C03_customNoAp_linear {n m : Nat} (u v H : CGrid ℝ n m) (a b : Cx ℝ) :
    customNoAp (CGrid.add (CGrid.smul a u) (CGrid.smul b v)) H
      = CGrid.add (CGrid.smul a (customNoAp u H)) (CGrid.smul b (customNoAp v H)) ∧
    customNoAp CGrid.zero H = CGrid.zero := by
  constructor
  · rw [customNoAp_add, customNoAp_smul, customNoAp_smul]
  · exact customNoAp_zero H

/-- kernels depend only on `(n, m, dx, λ, z, samples)`: in the model the field is not an argument
    of any kernel, so each concrete method is an instance of the theorems above -/
theorem C03_methods_linear {n m : Nat} (u v : CGrid ℝ n m) (a b : Cx ℝ) (dx lam k z : ℝ) (s0 s1 s2 s3 : Nat) :
    torchAS (CGrid.add (CGrid.smul a u) (CGrid.smul b v)) dx lam z
      = CGrid.add (CGrid.smul a (torchAS u dx lam z)) (CGrid.smul b (torchAS v dx lam z)) ∧
    torchTF (CGrid.add (CGrid.smul a u) (CGrid.smul b v)) dx lam z
      = CGrid.add (CGrid.smul a (torchTF u dx lam z)) (CGrid.smul b (torchTF v dx lam z)) ∧
    torchBL (CGrid.add (CGrid.smul a u) (CGrid.smul b v)) dx lam z
      = CGrid.add (CGrid.smul a (torchBL u dx lam z)) (CGrid.smul b (torchBL v dx lam z)) ∧
    torchIR (CGrid.add (CGrid.smul a u) (CGrid.smul b v)) dx lam z s0 s1 s2 s3
      = CGrid.add (CGrid.smul a (torchIR u dx lam z s0 s1 s2 s3)) (CGrid.smul b (torchIR v dx lam z s0 s1 s2 s3)) ∧
    npAS (CGrid.add (CGrid.smul a u) (CGrid.smul b v)) dx lam k z
      = CGrid.add (CGrid.smul a (npAS u dx lam k z)) (CGrid.smul b (npAS v dx lam k z)) ∧
    npBL (CGrid.add (CGrid.smul a u) (CGrid.smul b v)) dx lam k z
      = CGrid.add (CGrid.smul a (npBL u dx lam k z)) (CGrid.smul b (npBL v dx lam k z)) :=
  ⟨(C03_customNoAp_linear u v _ a b).1, (C03_customNoAp_linear u v _ a b).1, (C03_customNoAp_linear u v _ a b).1,
   (C03_customNoAp_linear u v _ a b).1, (C03_customNoAp_linear u v _ a b).1, (C03_customNoAp_linear u v _ a b).1⟩

/-- convolution-type methods without Fourier-domain padding: circularly translating the input by
    whole pixels `(s, t)` translates the output by the same pixels – any kernel, any aperture -/
theorem C03_shift_equivariant {n m : Nat} (s t : Nat) (u H A : CGrid ℝ n m) :
    custom (CGrid.roll s t u) H A = CGrid.roll s t (custom u H A) ∧
    customNoAp (CGrid.roll s t u) H = CGrid.roll s t (customNoAp u H) :=
  ⟨custom_roll s t u H A, customNoAp_roll s t u H⟩

/-- the three pipelines that do NOT funnel through `custom` (NumPy `transfer_function_fresnel`,
    NumPy `impulse_response_fresnel`, torch `fraunhofer`) are linear in the field as well, for all
    complex scalars, with no hypothesis on `dx`, `λ`, `k`, `z` or the grid size (over ℝ the real
    scalings `· c` and `/ c` are linear also when `c = 0`); the zero field maps to the zero field -/
theorem C03_np_pipelines_linear {n m : Nat} (u v : CGrid ℝ n m) (a b : Cx ℝ) (dx lam k z : ℝ) :
    (npTF (CGrid.add (CGrid.smul a u) (CGrid.smul b v)) dx lam k z
      = CGrid.add (CGrid.smul a (npTF u dx lam k z)) (CGrid.smul b (npTF v dx lam k z))) ∧
    (npIR (CGrid.add (CGrid.smul a u) (CGrid.smul b v)) dx lam k z
      = CGrid.add (CGrid.smul a (npIR u dx lam k z)) (CGrid.smul b (npIR v dx lam k z))) ∧
    (torchFraunhofer (CGrid.add (CGrid.smul a u) (CGrid.smul b v)) dx lam k z
      = CGrid.add (CGrid.smul a (torchFraunhofer u dx lam k z)) (CGrid.smul b (torchFraunhofer v dx lam k z))) ∧
    npTF (CGrid.zero : CGrid ℝ n m) dx lam k z = CGrid.zero ∧
    npIR (CGrid.zero : CGrid ℝ n m) dx lam k z = CGrid.zero ∧
    torchFraunhofer (CGrid.zero : CGrid ℝ n m) dx lam k z = CGrid.zero :=
  ⟨npTF_linear u v a b dx lam k z, npIR_linear u v a b dx lam k z, torchFraunhofer_linear u v a b dx lam k z,
   npTF_zero_field dx lam k z, npIR_zero_field dx lam k z, torchFraunhofer_zero_field dx lam k z⟩

/-- NumPy `transfer_function_fresnel`: circularly translating the input by whole pixels `(s, t)`
    translates the output by the same pixels (`fftshift`/`ifftshift` are rolls and commute with
    rolls; DFT shift theorem) – no hypotheses -/
theorem C03_np_tf_shift_equivariant {n m : Nat} (s t : Nat) (u : CGrid ℝ n m) (dx lam k z : ℝ) :
    npTF (CGrid.roll s t u) dx lam k z = CGrid.roll s t (npTF u dx lam k z) :=
  npTF_roll s t u dx lam k z

/-- the same for NumPy `impulse_response_fresnel` (a circular convolution as coded) -/
theorem C03_np_ir_shift_equivariant {n m : Nat} (s t : Nat) (u : CGrid ℝ n m) (dx lam k z : ℝ) :
    npIR (CGrid.roll s t u) dx lam k z = CGrid.roll s t (npIR u dx lam k z) :=
  npIR_roll s t u dx lam k z

end Odak

/-! ## The same statements for the PIPELINES regenerated from the Python source on this run
  (`OdakModel/Generated/Pipelines.lean`, tied to the hand model by `OdakProofs/Lemmas/GenPipelines.lean`). -/
namespace Odak
open Gen

/-- the regenerated `custom` is linear in the field for ANY kernel and aperture, and maps zero to zero -/
theorem C03_gen_custom_linear {n m : Nat} (u v H A : CGrid ℝ n m) (a b : Cx ℝ) :
    customT (CGrid.add (CGrid.smul a u) (CGrid.smul b v)) H A
      = CGrid.add (CGrid.smul a (customT u H A)) (CGrid.smul b (customT v H A)) ∧
    customT CGrid.zero H A = CGrid.zero := by
  simp only [gen_customT_eq]; exact C03_custom_linear u v H A a b

/-- every regenerated torch method (any aperture `A`, no padding): kernel helper -> `custom`, hence linear -/
theorem C03_gen_torch_methods_linear {n m : Nat} (u v A : CGrid ℝ n m) (a b : Cx ℝ) (dx lam k z : ℝ) (s0 s1 s2 s3 : Nat) :
    angularSpectrumT (CGrid.add (CGrid.smul a u) (CGrid.smul b v)) A dx lam z
      = CGrid.add (CGrid.smul a (angularSpectrumT u A dx lam z)) (CGrid.smul b (angularSpectrumT v A dx lam z)) ∧
    bandLimitedAngularSpectrumT (CGrid.add (CGrid.smul a u) (CGrid.smul b v)) A dx lam z
      = CGrid.add (CGrid.smul a (bandLimitedAngularSpectrumT u A dx lam z)) (CGrid.smul b (bandLimitedAngularSpectrumT v A dx lam z)) ∧
    transferFunctionFresnelT (CGrid.add (CGrid.smul a u) (CGrid.smul b v)) A dx lam z
      = CGrid.add (CGrid.smul a (transferFunctionFresnelT u A dx lam z)) (CGrid.smul b (transferFunctionFresnelT v A dx lam z)) ∧
    impulseResponseFresnelT (CGrid.add (CGrid.smul a u) (CGrid.smul b v)) A dx lam z s0 s1 s2 s3
      = CGrid.add (CGrid.smul a (impulseResponseFresnelT u A dx lam z s0 s1 s2 s3))
          (CGrid.smul b (impulseResponseFresnelT v A dx lam z s0 s1 s2 s3)) ∧
    incoherentAngularSpectrumT (CGrid.add (CGrid.smul a u) (CGrid.smul b v)) A dx lam z
      = CGrid.add (CGrid.smul a (incoherentAngularSpectrumT u A dx lam z)) (CGrid.smul b (incoherentAngularSpectrumT v A dx lam z)) ∧
    fraunhoferT (CGrid.add (CGrid.smul a u) (CGrid.smul b v)) dx lam k z
      = CGrid.add (CGrid.smul a (fraunhoferT u dx lam k z)) (CGrid.smul b (fraunhoferT v dx lam k z)) := by
  simp only [gen_angularSpectrumT_eq, gen_bandLimitedAngularSpectrumT_eq, gen_transferFunctionFresnelT_eq,
    gen_impulseResponseFresnelT_eq, gen_incoherentAngularSpectrumT_eq, gen_fraunhoferT_eq]
  exact ⟨(C03_custom_linear u v _ A a b).1, (C03_custom_linear u v _ A a b).1, (C03_custom_linear u v _ A a b).1,
    (C03_custom_linear u v _ A a b).1, (C03_custom_linear u v _ A a b).1, (C03_np_pipelines_linear u v a b dx lam k z).2.2.1⟩

/-- the regenerated NumPy pipelines are linear -/
theorem C03_gen_np_methods_linear {n m : Nat} (u v : CGrid ℝ n m) (a b : Cx ℝ) (dx lam k z : ℝ) :
    angularSpectrumN (CGrid.add (CGrid.smul a u) (CGrid.smul b v)) dx lam k z
      = CGrid.add (CGrid.smul a (angularSpectrumN u dx lam k z)) (CGrid.smul b (angularSpectrumN v dx lam k z)) ∧
    bandLimitedAngularSpectrumN (CGrid.add (CGrid.smul a u) (CGrid.smul b v)) dx lam k z
      = CGrid.add (CGrid.smul a (bandLimitedAngularSpectrumN u dx lam k z)) (CGrid.smul b (bandLimitedAngularSpectrumN v dx lam k z)) ∧
    transferFunctionFresnelN (CGrid.add (CGrid.smul a u) (CGrid.smul b v)) dx lam k z
      = CGrid.add (CGrid.smul a (transferFunctionFresnelN u dx lam k z)) (CGrid.smul b (transferFunctionFresnelN v dx lam k z)) ∧
    impulseResponseFresnelN (CGrid.add (CGrid.smul a u) (CGrid.smul b v)) dx lam k z
      = CGrid.add (CGrid.smul a (impulseResponseFresnelN u dx lam k z)) (CGrid.smul b (impulseResponseFresnelN v dx lam k z)) := by
  simp only [gen_angularSpectrumN_eq, gen_bandLimitedAngularSpectrumN_eq, gen_transferFunctionFresnelN_eq,
    gen_impulseResponseFresnelN_eq]
  exact ⟨(C03_methods_linear u v a b dx lam k z 0 0 0 0).2.2.2.2.1, (C03_methods_linear u v a b dx lam k z 0 0 0 0).2.2.2.2.2,
    (C03_np_pipelines_linear u v a b dx lam k z).1, (C03_np_pipelines_linear u v a b dx lam k z).2.1⟩

/-- shift-equivariance of the regenerated pipelines without Fourier-domain padding: `custom` (any kernel, any aperture), hence
    every torch kernel method, and the four NumPy methods -/
theorem C03_gen_shift_equivariant {n m : Nat} (s t : Nat) (u H A : CGrid ℝ n m) (dx lam k z : ℝ) :
    customT (CGrid.roll s t u) H A = CGrid.roll s t (customT u H A) ∧
    angularSpectrumT (CGrid.roll s t u) A dx lam z = CGrid.roll s t (angularSpectrumT u A dx lam z) ∧
    bandLimitedAngularSpectrumT (CGrid.roll s t u) A dx lam z = CGrid.roll s t (bandLimitedAngularSpectrumT u A dx lam z) ∧
    transferFunctionFresnelT (CGrid.roll s t u) A dx lam z = CGrid.roll s t (transferFunctionFresnelT u A dx lam z) ∧
    angularSpectrumN (CGrid.roll s t u) dx lam k z = CGrid.roll s t (angularSpectrumN u dx lam k z) ∧
    bandLimitedAngularSpectrumN (CGrid.roll s t u) dx lam k z = CGrid.roll s t (bandLimitedAngularSpectrumN u dx lam k z) ∧
    transferFunctionFresnelN (CGrid.roll s t u) dx lam k z = CGrid.roll s t (transferFunctionFresnelN u dx lam k z) ∧
    impulseResponseFresnelN (CGrid.roll s t u) dx lam k z = CGrid.roll s t (impulseResponseFresnelN u dx lam k z) := by
  refine ⟨custom_roll s t u H A, ?_, ?_, ?_, ?_, ?_, ?_, ?_⟩
  · rw [gen_angularSpectrumT_eq, gen_angularSpectrumT_eq]; exact custom_roll s t u _ A
  · rw [gen_bandLimitedAngularSpectrumT_eq, gen_bandLimitedAngularSpectrumT_eq]; exact custom_roll s t u _ A
  · rw [gen_transferFunctionFresnelT_eq, gen_transferFunctionFresnelT_eq]; exact custom_roll s t u _ A
  · rw [gen_angularSpectrumN_eq, gen_angularSpectrumN_eq]; exact customNoAp_roll s t u _
  · rw [gen_bandLimitedAngularSpectrumN_eq, gen_bandLimitedAngularSpectrumN_eq]; exact customNoAp_roll s t u _
  · rw [gen_transferFunctionFresnelN_eq, gen_transferFunctionFresnelN_eq]; exact C03_np_tf_shift_equivariant s t u dx lam k z
  · rw [gen_impulseResponseFresnelN_eq, gen_impulseResponseFresnelN_eq]; exact C03_np_ir_shift_equivariant s t u dx lam k z

/-- a STACK `[k × n × m]` handed to the regenerated `custom` is propagated linearly as well: field by field
    (`gen_customStackT_eq`: the batch roll of the dim-less `fftshift` is undone by the dim-less `ifftshift`, for every `k`) -/
theorem C03_gen_stack_linear {k n m : Nat} (us vs : CStack ℝ k n m) (H A : CGrid ℝ n m) (a b : Cx ℝ) (i : Fin k) :
    (customStackT (Vector.ofFn fun j => CGrid.add (CGrid.smul a us[j]) (CGrid.smul b vs[j])) H A)[i]
      = CGrid.add (CGrid.smul a (customStackT us H A)[i]) (CGrid.smul b (customStackT vs H A)[i]) := by
  rw [gen_customStackT_eq, gen_customStackT_eq, gen_customStackT_eq]
  show (Vector.map _ _)[i.val] = CGrid.add (CGrid.smul a (Vector.map _ _)[i.val]) (CGrid.smul b (Vector.map _ _)[i.val])
  rw [Vector.getElem_map, Vector.getElem_map, Vector.getElem_map, Vector.getElem_ofFn]
  exact (C03_custom_linear _ _ H A a b).1

end Odak

/-! ## The remaining NumPy propagation routines: `fraunhofer_inverse`, `rayleigh_sommerfeld` (direct summation),
  `fraunhofer_equal_size_adjust` - hand model `OdakModel/PropagateMore.lean`, regenerated definitions
  `OdakModel/Generated/PipelinesMore.lean`, ties `OdakProofs/Lemmas/GenPipelinesMore.lean`.
  (`band_extended_angular_spectrum` and `adaptive_sampling_angular_spectrum` need the `finufft` package, which is not installed:
  they are neither modelled nor regenerated; the C03 monitors count them as unavailable.) -/
namespace Odak
open Gen

/-- linearity of the hand model: `fraunhofer_inverse` for EVERY array `c` the field is divided by and every `dx` (division by 0 included:
    over ℝ `x / 0 = 0` is linear too), the direct summation for EVERY family of weights and final factor - in particular the
    Rayleigh-Sommerfeld weights -, and the element of a window copied out of the field; the zero field maps to the zero field -/
theorem C03_np_more_methods_linear {n m : Nat} (u v : CGrid ℝ n m) (s t : CGrid ℝ n n) (c : CGrid ℝ n m)
    (W : Fin n → Fin n → Fin n → Fin n → Cx ℝ) (w a b : Cx ℝ) (dx lam k z : ℝ) (r0 c0 x y : Nat) :
    npFraunhoferInverseWith c (CGrid.add (CGrid.smul a u) (CGrid.smul b v)) dx
      = CGrid.add (CGrid.smul a (npFraunhoferInverseWith c u dx)) (CGrid.smul b (npFraunhoferInverseWith c v dx)) ∧
    directSum W w (CGrid.add (CGrid.smul a s) (CGrid.smul b t))
      = CGrid.add (CGrid.smul a (directSum W w s)) (CGrid.smul b (directSum W w t)) ∧
    npRayleighSommerfeld (CGrid.add (CGrid.smul a s) (CGrid.smul b t)) dx lam k z
      = CGrid.add (CGrid.smul a (npRayleighSommerfeld s dx lam k z)) (CGrid.smul b (npRayleighSommerfeld t dx lam k z)) ∧
    CGrid.getN (CGrid.add (CGrid.smul a u) (CGrid.smul b v)) (r0 + x) (c0 + y)
      = a * CGrid.getN u (r0 + x) (c0 + y) + b * CGrid.getN v (r0 + x) (c0 + y) ∧
    npFraunhoferInverseWith c (CGrid.zero : CGrid ℝ n m) dx = CGrid.zero ∧
    npRayleighSommerfeld (CGrid.zero : CGrid ℝ n n) dx lam k z = CGrid.zero :=
  ⟨npFraunhoferInverseWith_linear c u v a b dx, directSum_linear W w s t a b, directSum_linear _ _ s t a b,
   getN_linear u v a b _ _, npFraunhoferInverseWith_zero c dx, directSum_zero _ _⟩

/-- the REGENERATED `fraunhofer_inverse`, `rayleigh_sommerfeld` (square fields: the only shapes the source accepts) and
    `fraunhofer_equal_size_adjust` are linear in the field.  For the last one: the window `Gen.equalSizeWindowN n m dx lam z` is computed
    from the shape of the field and `(dx, λ, z)` alone (it has no field argument), and every element of the copied window is a linear
    function of the field -/
theorem C03_gen_np_more_methods_linear {n m : Nat} (u v : CGrid ℝ n m) (s t : CGrid ℝ n n) (a b : Cx ℝ) (dx lam k z : ℝ) (r0 c0 x y : Nat) :
    fraunhoferInverseN (CGrid.add (CGrid.smul a u) (CGrid.smul b v)) dx lam k z
      = CGrid.add (CGrid.smul a (fraunhoferInverseN u dx lam k z)) (CGrid.smul b (fraunhoferInverseN v dx lam k z)) ∧
    rayleighSommerfeldN (CGrid.add (CGrid.smul a s) (CGrid.smul b t)) dx lam k z
      = CGrid.add (CGrid.smul a (rayleighSommerfeldN s dx lam k z)) (CGrid.smul b (rayleighSommerfeldN t dx lam k z)) ∧
    equalSizeAdjustElemN (CGrid.add (CGrid.smul a u) (CGrid.smul b v)) r0 c0 x y
      = a * equalSizeAdjustElemN u r0 c0 x y + b * equalSizeAdjustElemN v r0 c0 x y ∧
    fraunhoferInverseN (CGrid.zero : CGrid ℝ n m) dx lam k z = CGrid.zero ∧
    rayleighSommerfeldN (CGrid.zero : CGrid ℝ n n) dx lam k z = CGrid.zero := by
  simp only [gen_fraunhoferInverseN_eq, gen_rayleighSommerfeldN_eq, equalSizeAdjustElemN]
  exact ⟨npFraunhoferInverseWith_linear _ u v a b dx, directSum_linear _ _ s t a b, getN_linear u v a b _ _,
    npFraunhoferInverseWith_zero _ dx, directSum_zero _ _⟩

/-- the regenerated window of `fraunhofer_equal_size_adjust` is the modelled one: it depends on the shape of the field and on
    `(dx, λ, z)` only; for a square field rows and columns get the same extent and the same offset -/
theorem C03_gen_equal_size_window (n m : Nat) (dx lam z : ℝ) :
    equalSizeWindowN n m dx lam z = equalSizeWindow n m dx lam z ∧
    (equalSizeWindowN n n dx lam z).1 = (equalSizeWindowN n n dx lam z).2 :=
  ⟨gen_equalSizeWindowN_eq n m dx lam z, rfl⟩

/-- the factor `fraunhofer_inverse` divides by is the factor `fraunhofer` multiplies by, at the distance `|z|` -/
theorem C03_gen_fraunhofer_inverse_factor (n m : Nat) (dx lam k z : ℝ) :
    fraunhoferInvCoefN n m dx lam k z = fraunhoferCoefN n m dx lam k |z| :=
  gen_fraunhoferInvCoefN_eq n m dx lam k z

end Odak
