import OdakProofs.Lemmas.Kernels
import OdakProofs.Lemmas.PropagateLemmas
import OdakProofs.Lemmas.NumpyPipelines

/-! # C03 – propagation is linear and shift-equivariant (superposition principle) -/
namespace Odak

/-- the core: for ANY kernel `H` and aperture `A` (so for every method that funnels through torch
    `custom`: angular spectrum, band-limited, Fresnel transfer function, impulse-response and its
    separable form, incoherent, user kernel) and all complex scalars `a, b`:
    `out(a u + b v) = a out(u) + b out(v)`; the zero field maps to the zero field. -/
theorem C03_custom_linear {n m : Nat} (u v H A : CGrid ℝ n m) (a b : Cx ℝ) :
    custom (CGrid.add (CGrid.smul a u) (CGrid.smul b v)) H A
      = CGrid.add (CGrid.smul a (custom u H A)) (CGrid.smul b (custom v H A)) ∧
    custom CGrid.zero H A = CGrid.zero := by
  constructor
  · rw [custom_add, custom_smul, custom_smul]
  · exact custom_zero H A

theorem C03_customNoAp_linear {n m : Nat} (u v H : CGrid ℝ n m) (a b : Cx ℝ) :
    customNoAp (CGrid.add (CGrid.smul a u) (CGrid.smul b v)) H
      = CGrid.add (CGrid.smul a (customNoAp u H)) (CGrid.smul b (customNoAp v H)) ∧
    customNoAp CGrid.zero H = CGrid.zero := by
  constructor
  · rw [customNoAp_add, customNoAp_smul, customNoAp_smul]
  · exact customNoAp_zero H

/-- kernels depend only on `(n, m, dx, λ, z, samples)`: in the model the field is not an argument
    of any kernel, so each concrete method is an instance of the theorems above -/
theorem C03_methods_linear {n m : Nat} (u v : CGrid ℝ n m) (a b : Cx ℝ) (dx lam k z : ℝ) (s0 s1 s2 s3 : Nat) :
    torchAS (CGrid.add (CGrid.smul a u) (CGrid.smul b v)) dx lam z
      = CGrid.add (CGrid.smul a (torchAS u dx lam z)) (CGrid.smul b (torchAS v dx lam z)) ∧
    torchTF (CGrid.add (CGrid.smul a u) (CGrid.smul b v)) dx lam z
      = CGrid.add (CGrid.smul a (torchTF u dx lam z)) (CGrid.smul b (torchTF v dx lam z)) ∧
    torchBL (CGrid.add (CGrid.smul a u) (CGrid.smul b v)) dx lam z
      = CGrid.add (CGrid.smul a (torchBL u dx lam z)) (CGrid.smul b (torchBL v dx lam z)) ∧
    torchIR (CGrid.add (CGrid.smul a u) (CGrid.smul b v)) dx lam z s0 s1 s2 s3
      = CGrid.add (CGrid.smul a (torchIR u dx lam z s0 s1 s2 s3)) (CGrid.smul b (torchIR v dx lam z s0 s1 s2 s3)) ∧
    npAS (CGrid.add (CGrid.smul a u) (CGrid.smul b v)) dx lam k z
      = CGrid.add (CGrid.smul a (npAS u dx lam k z)) (CGrid.smul b (npAS v dx lam k z)) ∧
    npBL (CGrid.add (CGrid.smul a u) (CGrid.smul b v)) dx lam k z
      = CGrid.add (CGrid.smul a (npBL u dx lam k z)) (CGrid.smul b (npBL v dx lam k z)) :=
  ⟨(C03_customNoAp_linear u v _ a b).1, (C03_customNoAp_linear u v _ a b).1, (C03_customNoAp_linear u v _ a b).1,
   (C03_customNoAp_linear u v _ a b).1, (C03_customNoAp_linear u v _ a b).1, (C03_customNoAp_linear u v _ a b).1⟩

/-- convolution-type methods without Fourier-domain padding: circularly translating the input by
    whole pixels `(s, t)` translates the output by the same pixels – any kernel, any aperture -/
theorem C03_shift_equivariant {n m : Nat} (s t : Nat) (u H A : CGrid ℝ n m) :
    custom (CGrid.roll s t u) H A = CGrid.roll s t (custom u H A) ∧
    customNoAp (CGrid.roll s t u) H = CGrid.roll s t (customNoAp u H) :=
  ⟨custom_roll s t u H A, customNoAp_roll s t u H⟩

/-- the three pipelines that do NOT funnel through `custom` (NumPy `transfer_function_fresnel`,
    NumPy `impulse_response_fresnel`, torch `fraunhofer`) are linear in the field as well, for all
    complex scalars, with no hypothesis on `dx`, `λ`, `k`, `z` or the grid size (over ℝ the real
    scalings `· c` and `/ c` are linear also when `c = 0`); the zero field maps to the zero field -/
theorem C03_np_pipelines_linear {n m : Nat} (u v : CGrid ℝ n m) (a b : Cx ℝ) (dx lam k z : ℝ) :
    (npTF (CGrid.add (CGrid.smul a u) (CGrid.smul b v)) dx lam k z
      = CGrid.add (CGrid.smul a (npTF u dx lam k z)) (CGrid.smul b (npTF v dx lam k z))) ∧
    (npIR (CGrid.add (CGrid.smul a u) (CGrid.smul b v)) dx lam k z
      = CGrid.add (CGrid.smul a (npIR u dx lam k z)) (CGrid.smul b (npIR v dx lam k z))) ∧
    (torchFraunhofer (CGrid.add (CGrid.smul a u) (CGrid.smul b v)) dx lam k z
      = CGrid.add (CGrid.smul a (torchFraunhofer u dx lam k z)) (CGrid.smul b (torchFraunhofer v dx lam k z))) ∧
    npTF (CGrid.zero : CGrid ℝ n m) dx lam k z = CGrid.zero ∧
    npIR (CGrid.zero : CGrid ℝ n m) dx lam k z = CGrid.zero ∧
    torchFraunhofer (CGrid.zero : CGrid ℝ n m) dx lam k z = CGrid.zero :=
  ⟨npTF_linear u v a b dx lam k z, npIR_linear u v a b dx lam k z, torchFraunhofer_linear u v a b dx lam k z,
   npTF_zero_field dx lam k z, npIR_zero_field dx lam k z, torchFraunhofer_zero_field dx lam k z⟩

/-- NumPy `transfer_function_fresnel`: circularly translating the input by whole pixels `(s, t)`
    translates the output by the same pixels (`fftshift`/`ifftshift` are rolls and commute with
    rolls; DFT shift theorem) – no hypotheses -/
theorem C03_np_tf_shift_equivariant {n m : Nat} (s t : Nat) (u : CGrid ℝ n m) (dx lam k z : ℝ) :
    npTF (CGrid.roll s t u) dx lam k z = CGrid.roll s t (npTF u dx lam k z) :=
  npTF_roll s t u dx lam k z

/-- the same for NumPy `impulse_response_fresnel` (a circular convolution as coded) -/
theorem C03_np_ir_shift_equivariant {n m : Nat} (s t : Nat) (u : CGrid ℝ n m) (dx lam k z : ℝ) :
    npIR (CGrid.roll s t u) dx lam k z = CGrid.roll s t (npIR u dx lam k z) :=
  npIR_roll s t u dx lam k z

end Odak
