import OdakProofs.Props.C09
import OdakProofs.Props.C08
import OdakProofs.Lemmas.GenHolograms
import OdakModel.Hologram
import OdakModel.Generated.CallSites
import Mathlib.Analysis.SpecialFunctions.Trigonometric.Inverse
import OdakProofs.Lemmas.GenOptimizerAttrs

/-! # C07 – hologram optimisers return a displayable hologram and its true reconstruction
  The optimiser dynamics are not modelled: every statement quantifies over an ARBITRARY final
  parameter state (phase value `φ`, iteration count `n ≥ 1`, any field), which is stronger than any
  sample of seeds for the output contract. -/
namespace Odak

/-- phase-only output (`generate_complex_field(1.0, phase)`, torch SGD and NumPy Gerchberg–Saxton)
    has unit amplitude whatever phase the optimiser ends in -/
theorem C07_phase_only_unit (φ : ℝ) : calcAmplitude (sgdHologram φ) = 1 := by
  simp [calcAmplitude, sgdHologram, genField, abs_polar]

/-- the quantised optimiser: for EVERY final phase value and bit depth the returned phase is
    `k · 2π / 2^bits` for an integer level `0 ≤ k < 2^bits`, hence inside `[0, 2π)` and on the grid -/
theorem C07_quantized_phase_on_grid (bits : Nat) (φ : ℝ) :
    ∃ k : ℕ, k < 2 ^ bits ∧ quantizedPhase bits φ = (k : ℝ) * (2 * Real.pi) / 2 ^ bits ∧
      0 ≤ quantizedPhase bits φ ∧ quantizedPhase bits φ < 2 * Real.pi := by
  have hpi : (0 : ℝ) < 2 * Real.pi := by positivity
  obtain ⟨h0, h1⟩ := fmod_range φ (2 * Real.pi) hpi
  obtain ⟨k, hk, hlt⟩ := C09_quantize_level (Num.fmod φ (2 * Real.pi)) h0 h1 bits
  have hp : (Num.pow2 bits : ℝ) = (2 : ℝ) ^ bits := by simp [Num.pow2]
  have hp0 : (0 : ℝ) < (2 : ℝ) ^ bits := by positivity
  have hval : quantizedPhase bits φ = (k : ℝ) * (2 * Real.pi) / 2 ^ bits := by
    simp only [quantizedPhase, num_two, num_pi]
    rw [show (Num.fmod φ (2 * Real.pi)) = Num.fmod φ (2 * Real.pi) from rfl, hk, hp]
    field_simp
  refine ⟨k, hlt, hval, ?_, ?_⟩
  · rw [hval]; positivity
  · rw [hval, div_lt_iff₀ hp0]
    have : (k : ℝ) < (2 : ℝ) ^ bits := by exact_mod_cast hlt
    nlinarith

/-- torch Gerchberg–Saxton: for every iteration count `n ≥ 1`, every field and ANY propagation
    operators, the returned reconstruction is exactly the forward propagation of the returned hologram -/
theorem C07_gs_returns_true_reconstruction {F : Type} (fwd bwd : F → F) (setAmp : F → F → F) (field : F) (n : Nat) :
    (gsTorch fwd bwd setAmp field n).2 = fwd (gsTorch fwd bwd setAmp field n).1 := rfl

/-- … and the returned hologram is the back-propagation computed in the LAST iteration (induction
    on the iteration count, including exactly one iteration) -/
theorem C07_gs_hologram_is_last_backpropagation {F : Type} (fwd bwd : F → F) (setAmp : F → F → F) (field : F) :
    ∀ (n : Nat) (r : F), 1 ≤ n → ∃ r', (gsTorchLoop fwd bwd setAmp field n r).1 = bwd r' := by
  intro n
  induction n with
  | zero => intro r h; omega
  | succ k ih =>
    intro r _
    cases k with
    | zero => exact ⟨r, rfl⟩
    | succ j => exact ih _ (by omega)

/-- the global phase factor of `shift_w_double_phase` has modulus one for depth shifts of either
    sign and every wavelength (finite: no overflow can come from it) -/
theorem C07_shift_factor_unit (d lam : ℝ) : Cx.normSq (shiftFactor d lam) = 1 := by
  simp only [shiftFactor, normSq_expi]

/-- double-phase encoding: with the amplitude normalised by its (positive) maximum the `arccos`
    argument lies in `[0, 1]`, so the phase offset is a real number in `[0, π/2]` -/
theorem C07_double_phase_offset_defined (a amax : ℝ) (h0 : 0 ≤ a) (h1 : a ≤ amax) (hm : 0 < amax) :
    0 ≤ a / amax ∧ a / amax ≤ 1 ∧ 0 ≤ doublePhaseOffset a amax ∧ doublePhaseOffset a amax ≤ Real.pi / 2 := by
  have hq0 : 0 ≤ a / amax := div_nonneg h0 hm.le
  have hq1 : a / amax ≤ 1 := by rw [div_le_one hm]; exact h1
  refine ⟨hq0, hq1, ?_, ?_⟩
  · simp only [doublePhaseOffset, num_acos]; exact Real.arccos_nonneg _
  · simp only [doublePhaseOffset, num_acos]; exact Real.arccos_le_pi_div_two.mpr hq0

/-- the checkerboard interleave assigns every pixel exactly once: exactly one of the four strided
    assignments of the code matches the parities of `(i, j)`, and it is the one `checkerLow` names -/
theorem C07_checkerboard_covers_once (i j : Nat) :
    ∃! e, e ∈ checkerAssignments ∧ e.1 = i % 2 ∧ e.2.1 = j % 2 ∧ e.2.2 = checkerLow i j := by
  have hi : i % 2 = 0 ∨ i % 2 = 1 := by omega
  have hj : j % 2 = 0 ∨ j % 2 = 1 := by omega
  rcases hi with hi | hi <;> rcases hj with hj | hj <;>
    simp [checkerAssignments, checkerLow, hi, hj, ExistsUnique]

/-- resolution: pad-then-crop inside `propagate_beam(..., zero_padding=[True, False, True])` (used by
    SGD and by the propagator) returns the input's resolution for even AND odd sides – this is C08 -/
theorem C07_resolution_preserved (h w : Nat) :
    ((Index.torchCrop false 0 (2 * h) (2 * w) 0 0).comp (Index.torchPad false 0 h w 0 0).2).len = h ∧
    ((Index.torchCrop false 1 (2 * h) (2 * w) 0 0).comp (Index.torchPad false 1 h w 0 0).2).len = w :=
  ⟨(C08_torch_crop_pad_id h w).1.1, (C08_torch_crop_pad_id h w).2.1⟩

/-- "The reconstruction returned alongside is exactly what propagating that returned hologram with the same settings produces":
    decision logic on the REGENERATED table of `propagate_beam` call sites of a routine.  The routine returns `[h, r]`; the LAST
    assignment to `r` is a call outside the loop that propagates `h` itself, and its settings are those of a call inside the loop that also
    produces the reconstruction from the hologram (so the optimised quantity and the returned one are the same function of the hologram). -/
def ReturnsTrueReconstruction (calls : List Gen.PCall) (rets : List String) : Bool :=
  match rets, calls.reverse with
  | [h, r], last :: _ =>
      last.target == r && last.field == h && !last.inLoop &&
      calls.any (fun c => c.inLoop && c.target == r && c.field == h && c.settings == last.settings)
  | _, _ => false

theorem C07_returned_reconstruction_uses_the_loop_settings :
    ReturnsTrueReconstruction Gen.gsTorchCalls Gen.gsTorchReturns = true ∧
    ReturnsTrueReconstruction Gen.sgdTorchCalls Gen.sgdTorchReturns = true ∧
    ReturnsTrueReconstruction Gen.gsNumpyCalls Gen.gsNumpyReturns = true := by decide

/-- the quantised multi-colour optimiser: the returned reconstruction is the LAST thing computed from the returned phases - the assignment
    `reconstruction = self.propagator.reconstruct(phases)` comes after the last assignment to the phases (the quantisation statement, which
    reads `quantize` and the previous phases) and nothing assigns the phases afterwards -/
def ReconstructsReturnedPhases (assigns : List (String × String × List String × List String)) (rets : List String) : Bool :=
  match rets with
  | h :: r :: _ =>
      let idxs := fun (nm : String) => (List.range assigns.length).filter fun i => (assigns.getD i ("", "", [], [])).1 == nm
      match (idxs h).getLast?, (idxs r).getLast? with
      | some ih, some ir =>
          let a := assigns.getD ir ("", "", [], [])
          let q := assigns.getD ih ("", "", [], [])
          decide (ih < ir) && a.2.1 == "self.propagator.reconstruct" && a.2.2.1 == [h] && q.2.2.2.contains "quantize" && q.2.2.2.contains h
      | _, _ => false
  | _ => false

theorem C07_multi_color_returns_reconstruction_of_the_quantised_phases :
    ReconstructsReturnedPhases Gen.mcOptimizeAssigns Gen.mcOptimizeReturns = true := by decide

/-- not vacuous: reconstructing BEFORE the quantisation statement is rejected -/
example : ReconstructsReturnedPhases
    [("p", "self.gradient_descent", [], []), ("r", "self.propagator.reconstruct", ["p"], ["p"]), ("p", "", [], ["p", "quantize"])] ["p", "r"] = false := by decide

/-- the predicate is not vacuous: a final call with another propagation type, or one that propagates something else, is rejected -/
example : ReturnsTrueReconstruction
    [⟨"reconstruction", "hologram", ["k", "distance", "dx", "wavelength", "propagation_type"], true⟩,
     ⟨"reconstruction", "hologram", ["k", "distance", "dx", "wavelength"], false⟩] ["hologram", "reconstruction"] = false := by decide

/-- non-vacuity -/
example : (0 : ℝ) ≤ 1 / 2 ∧ (1 / 2 : ℝ) ≤ 2 ∧ (0 : ℝ) < 2 := by norm_num

end Odak

/-! ## The returned phase of `multi_color_hologram_optimizer.optimize` REGENERATED from the Python source
  (`OdakModel/Generated/Quantisers.lean: quantizedPhaseT`, tied to `quantizedPhase` by `Lemmas/GenQuantisers.lean`). -/
namespace Odak
open Gen

/-- generated quantised optimiser output: for EVERY optimised phase value and bit depth the returned phase is `k · 2π / 2^bits`
    for an integer level `0 ≤ k < 2^bits`, hence on the SLM's grid and inside `[0, 2π)` -/
theorem C07_gen_quantized_phase_on_grid (bits : Nat) (φ : ℝ) :
    ∃ k : ℕ, k < 2 ^ bits ∧ quantizedPhaseT φ bits = (k : ℝ) * (2 * Real.pi) / 2 ^ bits ∧
      0 ≤ quantizedPhaseT φ bits ∧ quantizedPhaseT φ bits < 2 * Real.pi := by
  rw [quantizedPhaseT_eq]; exact C07_quantized_phase_on_grid bits φ

/-- … and it is the generated `quantize` of the wrapped phase, scaled by `2π / 2^bits` -/
theorem C07_gen_quantized_phase_is_quantize (bits : Nat) (φ : ℝ) :
    quantizedPhaseT φ bits = quantizeT (Num.fmod φ (2 * Real.pi)) bits 0 (2 * Real.pi) / 2 ^ bits * 2 * Real.pi := by
  rw [quantizedPhaseT_eq, quantizeT_eq]
  simp only [quantizedPhase, Num.pow2, num_two, num_pi, num_ofNat, Nat.cast_pow, Nat.cast_ofNat]

end Odak

/-! ## The BODIES of the hologram routines REGENERATED from the Python source (`Generated/Holograms.lean`; translator
  `harness/translate/holograms.py`; tied to the model by `Lemmas/GenHolograms.lean`).  `prop z R C u` stands for
  `propagate_beam(u, k, z, dx, wavelength, propagation_type)` of an `R x C` field with the routine's own settings and is ARBITRARY in every
  statement below. -/
namespace Odak
open Odak.Gen Odak.Holo

/-- generated torch `gerchberg_saxton`, every iteration count `≥ 1`, every field, any propagation operator: the returned reconstruction is
    the forward propagation (`+distance`) of the RETURNED hologram, and the returned hologram is a backward propagation (`-distance`) -/
theorem C07_gen_gs_returns_true_reconstruction {α : Type} [Num α] (prop : Prop' α) (n m : Nat) (field : Fld (Cx α)) (it : Nat)
    (hit : 1 ≤ it) (distance : α) :
    (gsTorchT prop n m field it distance).2 = prop distance n m (gsTorchT prop n m field it distance).1 ∧
    ∃ r : Fld (Cx α), (gsTorchT prop n m field it distance).1 = prop (-distance) n m r := by
  obtain ⟨k, rfl⟩ : ∃ k, it = k + 1 := ⟨it - 1, by omega⟩
  rw [gsTorchT_eq]
  refine ⟨C07_gs_returns_true_reconstruction _ _ _ _ _, ?_⟩
  exact C07_gs_hologram_is_last_backpropagation (prop distance n m) (prop (-distance) n m) (Fld.zip setAmplitudeT) field (k + 1) field
    (by omega)

/-- generated NumPy `gerchberg_saxton` (`initial_phase = None`; even sides `2a x 2b`, the sizes the routine accepts - finding F30; every
    iteration count `≥ 1`, any propagation operator, any random start phase): every sample of the returned hologram has UNIT AMPLITUDE -/
theorem C07_gen_gs_numpy_unit_amplitude (prop : Prop' ℝ) (a b : Nat) (field : Fld (Cx ℝ)) (it : Nat) (hit : 1 ≤ it) (distance : ℝ)
    (randomPhase : Fld ℝ) (i j : Nat) (hi : i < 2 * a) (hj : j < 2 * b) :
    calcAmplitude ((gsNumpyN prop (2 * a) (2 * b) field it distance randomPhase).1.el i j) = 1 := by
  obtain ⟨k, rfl⟩ : ∃ k, it = k + 1 := ⟨it - 1, by omega⟩
  rw [gsNumpyN_eq]
  obtain ⟨φ, hφ⟩ := (gsNumpy_returns prop a b field k distance randomPhase).1 i j hi hj
  rw [hφ]
  simp [calcAmplitude, genField, abs_polar]

/-- ... and the returned reconstruction is exactly the returned hologram zero-padded, propagated forward (`+distance`) and cut to the
    window `center ± orig_shape` - the same operations the loop applies -/
theorem C07_gen_gs_numpy_returns_true_reconstruction {α : Type} [Num α] (prop : Prop' α) (a b : Nat) (field : Fld (Cx α)) (it : Nat)
    (hit : 1 ≤ it) (distance : α) (randomPhase : Fld α) :
    (gsNumpyN prop (2 * a) (2 * b) field it distance randomPhase).2 =
      gsWindow (2 * a) (2 * b) 0 (prop distance (gsPadRows (2 * a) (2 * b)) (gsPadCols (2 * a) (2 * b))
        (Fld.npZeroPad (2 * a) (2 * b) 0 (gsNumpyN prop (2 * a) (2 * b) field it distance randomPhase).1)) := by
  obtain ⟨k, rfl⟩ : ∃ k, it = k + 1 := ⟨it - 1, by omega⟩
  rw [gsNumpyN_eq]
  exact (gsNumpy_returns prop a b field k distance randomPhase).2

/-- generated `shift_w_double_phase`: the global phase factor `cos θ + i sin θ`, `θ = -2π · depth_shift / wavelength`, has modulus one for depth
    shifts of EITHER SIGN and every wavelength, so multiplying by it leaves the amplitude of every sample of the propagated field unchanged
    (nothing can overflow in this stage) -/
theorem C07_gen_shift_factor_unit (prop : Prop' ℝ) (n m : Nat) (phase : Fld ℝ) (d lam : ℝ) (i j : Nat) :
    Cx.normSq ((shiftedField prop n m phase d lam).el i j) =
      Cx.normSq ((Fld.torchCropCenter (Fld.torchZeroPadRows n m) (Fld.torchZeroPadCols n m) 0
        (prop d (Fld.torchZeroPadRows n m) (Fld.torchZeroPadCols n m)
          (Fld.torchZeroPad n m 0 (Fld.zip genField (Fld.const (Num.ofNat 1)) phase)))).el i j) := by
  have hm : ∀ x y : Cx ℝ, Cx.normSq (x * y) = Cx.normSq x * Cx.normSq y := by
    intro x y; simp only [Cx.normSq, Cx.mul_re', Cx.mul_im']; ring
  simp only [shiftedField, Fld.map, hm, C07_shift_factor_unit, mul_one]

/-- generated `shift_w_double_phase` (both variants: without and with the blur), every phase map, depth shift of either sign, any
    propagation operator: EVERY pixel `(i, j)` of the returned phase-only hologram comes from exactly ONE of the two phase maps -
    `phase - offset` where `checkerLow i j` (both indices even or both odd), `phase + offset` elsewhere - and, when the maximum amplitude is
    positive (GUARD: the shifted field is not identically zero; otherwise the source divides 0 by 0), the `arccos` argument `a / amax` of
    every pixel inside the array lies in `[0, 1]`, so the offset is a real number in `[0, π/2]` -/
theorem C07_gen_double_phase_pixel (prop : Prop' ℝ) (n m : Nat) (phase : Fld ℝ) (d lam : ℝ) (L : Nat) (sigma : ℝ) :
    ∀ out ∈ [(shiftWDoublePhaseNoBlurT prop n m phase d lam L sigma, shiftedField prop n m phase d lam),
             (shiftWDoublePhaseT prop n m phase d lam L sigma,
               blurredField (dpRows n m) (dpCols n m) L sigma (shiftedField prop n m phase d lam))],
      ∀ i j : Nat,
        let amax := Fld.gridMax (dpRows n m) (dpCols n m) (Fld.map calcAmplitude out.2)
        let pz := calcPhase (out.2.el i j) - Fld.gridMean (dpRows n m) (dpCols n m) (Fld.map calcPhase out.2)
        let off := doublePhaseOffset (calcAmplitude (out.2.el i j)) amax
        out.1.el i j = (if checkerLow i j then pz - off else pz + off) ∧
        (0 < amax → i < dpRows n m → j < dpCols n m →
          0 ≤ calcAmplitude (out.2.el i j) / amax ∧ calcAmplitude (out.2.el i j) / amax ≤ 1 ∧ 0 ≤ off ∧ off ≤ Real.pi / 2) := by
  intro out hout i j
  have key : ∀ u : Fld (Cx ℝ), ∀ i j, 0 < Fld.gridMax (dpRows n m) (dpCols n m) (Fld.map calcAmplitude u) →
      i < dpRows n m → j < dpCols n m →
      0 ≤ calcAmplitude (u.el i j) / Fld.gridMax (dpRows n m) (dpCols n m) (Fld.map calcAmplitude u) ∧
      calcAmplitude (u.el i j) / Fld.gridMax (dpRows n m) (dpCols n m) (Fld.map calcAmplitude u) ≤ 1 ∧
      0 ≤ doublePhaseOffset (calcAmplitude (u.el i j)) (Fld.gridMax (dpRows n m) (dpCols n m) (Fld.map calcAmplitude u)) ∧
      doublePhaseOffset (calcAmplitude (u.el i j)) (Fld.gridMax (dpRows n m) (dpCols n m) (Fld.map calcAmplitude u)) ≤ Real.pi / 2 := by
    intro u i j hpos hi hj
    have h0 : 0 ≤ calcAmplitude (u.el i j) := by
      simp only [calcAmplitude, Cx.abs, num_sqrt]; exact Real.sqrt_nonneg _
    have h1 := le_gridMax (dpRows n m) (dpCols n m) (Fld.map calcAmplitude u) i j hi hj
    exact C07_double_phase_offset_defined _ _ h0 h1 hpos
  rcases List.mem_cons.mp hout with h | h
  · subst h
    refine ⟨?_, key _ i j⟩
    rw [shiftWDoublePhaseNoBlurT_eq]; rfl
  · rw [List.mem_singleton.mp h]
    refine ⟨?_, key _ i j⟩
    rw [shiftWDoublePhaseT_eq]; rfl

/-- ... and the array the double-phase stage works on, `crop_center(propagate(zero_pad(.)))`, has the resolution of the input phase map, for
    even AND odd sides (C08 on the regenerated index expressions) -/
theorem C07_gen_double_phase_resolution (n m : Nat) : dpRows n m = n ∧ dpCols n m = m := by
  constructor
  · simp only [dpRows, Fld.torchCropCenterRows, Fld.torchZeroPadRows, Fld.torchZeroPadCols, Index.torchPad, Index.storeAxis,
      Index.torchCrop, Index.loadAxis, Index.pySliceBounds, torchPadDef_res0, torchPadDef_res1, torchCropDef_lo0, torchCropDef_hi0]
    split_ifs <;> omega
  · simp only [dpCols, Fld.torchCropCenterCols, Fld.torchZeroPadRows, Fld.torchZeroPadCols, Index.torchPad, Index.storeAxis,
      Index.torchCrop, Index.loadAxis, Index.pySliceBounds, torchPadDef_res0, torchPadDef_res1, torchCropDef_lo1, torchCropDef_hi1]
    split_ifs <;> omega

end Odak

/-! ## The attribute flow of `multi_color_hologram_optimizer` regenerated from the Python source on this run (work package 13)
  (`OdakModel/Generated/OptimizerAttrs.lean`, written by `harness/translate/optattrs.py`: per method the attributes assigned, written in place
  and read, the event trace of one `optimize` call with the calls of its own methods inlined, what is handed to the torch optimiser, where
  the returned tuple comes from).  The numerics stay opaque; the theorems are kernel evaluations over those tables. -/
namespace Odak
open Gen

/-- **`optimize` computes what it returns from what the SAME call wrote**: the only attribute an `optimize` call assigns is `optimizer`,
    unconditionally and before anything reads it; no attribute assigned during an earlier `optimize` call is read before being assigned again -/
theorem C07_gen_optimize_reads_nothing_left_by_an_earlier_call : attrsWritten optimizeTrace = ["optimizer"] ∧ noStaleRead optimizeTrace = true :=
  ⟨gen_optimize_writes, gen_optimize_no_stale_read⟩

/-- **the returned reconstruction is the reconstruction of the returned hologram**: `propagator.reconstruct` is called with the local that
    is returned first as its only argument, its result is bound to the local returned second, and neither is assigned again before the `return` -/
theorem C07_gen_optimize_returns_reconstruction_of_returned_hologram :
    optimizeReconstructArg = optimizeReturns.headD "" ∧ optimizeReconstructResult = (optimizeReturns.drop 1).headD "" ∧
    ¬ ("hologram_phases" ∈ optimizeAssignedAfterReconstruct) ∧ ¬ ("reconstruction_intensities" ∈ optimizeAssignedAfterReconstruct) := by decide

/-- what DOES persist between two `optimize` calls on one object (by design - a second call continues the optimisation): the tensors handed
    to the torch optimiser, updated in place by `optimizer.step()`, and the peak amplitude; none of them is re-assigned by `optimize`
    (`init_phase`, `init_channel_power`, `init_amplitude` run in `__init__` only).  C07 makes no claim about two `optimize` calls giving the
    same hologram; this is the exact list of what the second call inherits -/
theorem C07_gen_optimize_state_carried_between_calls :
    optimizeVariables.map (·.1) = ["attr:phase", "attr:offset", "attr:peak_amplitude", "attr:propagator.channel_power"] ∧
    attrsInPlace optimizeTrace = ["peak_amplitude"] ∧
    (∀ a ∈ ["phase", "offset", "peak_amplitude", "propagator", "channel_power", "amplitude", "phase_scale"], a ∉ attrsWritten optimizeTrace) := by decide

/-- the census of attribute stores per method: everything is assigned by `__init__` and its helpers; `evaluate`, the two phase constraints,
    `gradient_descent` and `optimize` assign nothing; `init_optimizer` assigns `optimizer` -/
theorem C07_gen_optimizer_attribute_census :
    (attrsWritten optInitTrace).length = 26 ∧ optEvaluateWrites = [] ∧ optDoublePhaseConstrainWrites = [] ∧ optDirectPhaseConstrainWrites = [] ∧
    optGradientDescentWrites = [] ∧ optOptimizeWrites = [] ∧ optInitOptimizerWrites = ["optimizer"] := by
  obtain ⟨h1, h2, h3, h4, h5, h6, h7⟩ := gen_optimizer_writes_per_method
  exact ⟨by rw [h1]; rfl, h2, h3, h4, h5, h6, h7⟩

end Odak
