import OdakProofs.Lemmas.Losses
import OdakProofs.Lemmas.GenLosses
import OdakProofs.Lemmas.GenStateMachines2
import OdakProofs.Lemmas.GenStatsMaps3

/-! # C17 – losses vanish at identity, are non-negative, and do not depend on call history -/
namespace Odak

/-! ## A. signs and zeros -/

/-- `torch.nn.MSELoss` is non-negative -/
theorem C17_mse_nonneg (a b : List ℝ) : 0 ≤ mse a b := mse_nonneg a b

/-- … and zero when image = target -/
theorem C17_mse_zero_at_identity (a : List ℝ) : mse a a = 0 := mse_self a

/-- `multiplane_loss` with non-negative weights is non-negative (any image, target, mask) -/
theorem C17_multiplane_nonneg (w0 w1 w2 : ℝ) (hw : 0 ≤ w0 ∧ 0 ≤ w1 ∧ 0 ≤ w2) (img tgt mask : List ℝ) :
    0 ≤ multiplaneLoss w0 w1 w2 img tgt mask := by
  obtain ⟨h0, h1, h2⟩ := hw
  unfold multiplaneLoss
  exact add_nonneg (add_nonneg (mul_nonneg h0 (mse_nonneg _ _)) (mul_nonneg h1 (mse_nonneg _ _)))
    (mul_nonneg h2 (mse_nonneg _ _))

/-- … and zero when image = target (any weights, any mask) -/
theorem C17_multiplane_zero_at_identity (w0 w1 w2 : ℝ) (tgt mask : List ℝ) :
    multiplaneLoss w0 w1 w2 tgt tgt mask = 0 := by
  unfold multiplaneLoss
  rw [mse_self, mse_self, mse_self]
  simp

theorem C17_wrapped_nonneg (a b : List ℝ) : 0 ≤ wrappedMse a b := by
  unfold wrappedMse
  exact div_nonneg
    (sumL_zipWith_nonneg _ (fun x y => add_nonneg (sq_nonneg' _) (sq_nonneg' _)) a b) (Nat.cast_nonneg _)

theorem C17_wrapped_zero_at_identity (a : List ℝ) : wrappedMse a a = 0 := by
  unfold wrappedMse
  rw [sumL_zipWith_self _ (fun x => by simp [num_sq])]
  exact zero_div _

/-- the wrapped phase error is 2π-periodic in the image and in the ground truth: adding any integer
    multiple of 2π to every sample of either argument leaves it unchanged -/
theorem C17_wrapped_periodic (a b : List ℝ) (j : ℤ) :
    wrappedMse (a.map (· + 2 * Real.pi * j)) b = wrappedMse a b ∧
    wrappedMse a (b.map (· + 2 * Real.pi * j)) = wrappedMse a b := by
  have hs : ∀ x : ℝ, Real.sin (x + 2 * Real.pi * j) = Real.sin x := fun x => by
    rw [mul_comm]; exact Real.sin_add_int_mul_two_pi x j
  have hc : ∀ x : ℝ, Real.cos (x + 2 * Real.pi * j) = Real.cos x := fun x => by
    rw [mul_comm]; exact Real.cos_add_int_mul_two_pi x j
  unfold wrappedMse
  constructor
  · rw [List.zipWith_map_left, List.length_map]
    simp only [num_sin, num_cos, hs, hc]
  · rw [List.zipWith_map_right]
    simp only [num_sin, num_cos, hs, hc]

/-- stronger, per-sample form: a *different* integer multiple of 2π may be added to each sample
    (`k` supplies the multiples; it must cover the image) -/
theorem C17_wrapped_periodic_pointwise (a b : List ℝ) (k : List ℤ) (hk : a.length ≤ k.length) :
    wrappedMse (List.zipWith (fun x (j : ℤ) => x + 2 * Real.pi * j) a k) b = wrappedMse a b := by
  have hs : ∀ (x : ℝ) (j : ℤ), Real.sin (x + 2 * Real.pi * j) = Real.sin x := fun x j => by
    rw [mul_comm]; exact Real.sin_add_int_mul_two_pi x j
  have hc : ∀ (x : ℝ) (j : ℤ), Real.cos (x + 2 * Real.pi * j) = Real.cos x := fun x j => by
    rw [mul_comm]; exact Real.cos_add_int_mul_two_pi x j
  unfold wrappedMse
  rw [List.length_zipWith, Nat.min_eq_left hk]
  congr 2
  induction a generalizing k b with
  | nil => simp
  | cons x xs ih =>
    cases k with
    | nil => simp at hk
    | cons j js =>
      cases b with
      | nil => simp
      | cons y ys =>
        simp only [List.zipWith_cons_cons, num_sin, num_cos, hs, hc]
        congr 1
        have := ih ys js (by simpa using hk)
        simpa only [num_sin, num_cos] using this

/-- `histogram_loss` (MSE of the bin counts) is non-negative and zero for equal histograms -/
theorem C17_histogram_nonneg_zero (c d : List ℝ) : 0 ≤ histogramLoss c d ∧ histogramLoss c c = 0 :=
  ⟨mse_nonneg c d, mse_self c⟩

/-- total variation is non-negative (any grid, even ragged) -/
theorem C17_tv_nonneg (rows : List (List ℝ)) : 0 ≤ tvLoss rows := by
  unfold tvLoss
  refine div_nonneg (add_nonneg (sumL_nonneg ?_) (sumL_zipWith_nonneg _ ?_ _ _)) (Nat.cast_nonneg _)
  · intro z hz
    obtain ⟨r, _, rfl⟩ := List.mem_map.1 hz
    exact sumL_zipWith_nonneg _ (fun x y => sq_nonneg' _) _ _
  · intro r s
    exact sumL_zipWith_nonneg _ (fun x y => sq_nonneg' _) _ _

/-- total variation of a uniform image is zero -/
theorem C17_tv_zero_of_uniform (r c : Nat) (v : ℝ) : tvLoss (List.replicate r (List.replicate c v)) = 0 := by
  have hrow : ∀ p q : Nat,
      sumL (List.zipWith (fun a b : ℝ => Num.sq (b - a)) (List.replicate p v) (List.replicate q v)) = 0 := by
    intro p q
    apply sumL_eq_zero
    intro z hz
    obtain ⟨x, hx, y, hy, rfl⟩ := exists_of_mem_zipWith _ _ _ z hz
    rw [List.eq_of_mem_replicate hx, List.eq_of_mem_replicate hy]; simp [num_sq]
  unfold tvLoss
  have h1 : sumL ((List.replicate r (List.replicate c v)).map fun r =>
      sumL (List.zipWith (fun a b : ℝ => Num.sq (b - a)) r r.tail)) = 0 := by
    apply sumL_eq_zero
    intro z hz
    obtain ⟨row, hrow', rfl⟩ := List.mem_map.1 hz
    rw [List.eq_of_mem_replicate hrow', List.tail_replicate]; exact hrow _ _
  have h2 : sumL (List.zipWith (fun r s => sumL (List.zipWith (fun a b : ℝ => Num.sq (b - a)) r s))
      (List.replicate r (List.replicate c v)) (List.replicate r (List.replicate c v)).tail) = 0 := by
    apply sumL_eq_zero
    intro z hz
    obtain ⟨x, hx, y, hy, rfl⟩ := exists_of_mem_zipWith _ _ _ z hz
    rw [List.tail_replicate] at hy
    rw [List.eq_of_mem_replicate hx, List.eq_of_mem_replicate hy]; exact hrow _ _
  simp only [h1, h2]
  simp

/-- converse, for non-empty rectangular grids: total variation vanishes exactly for uniform images -/
theorem C17_tv_zero_iff_uniform (r c : Nat) (hr : 0 < r) (hc : 0 < c) (rows : List (List ℝ))
    (hlen : rows.length = r) (hrect : ∀ row ∈ rows, row.length = c) :
    tvLoss rows = 0 ↔ ∃ v, rows = List.replicate r (List.replicate c v) := by
  constructor
  · intro h
    -- the first row is a row
    have hhead : rows.headD [] ∈ rows := by
      cases rows with
      | nil => simp at hlen; omega
      | cons x xs => simp
    have hden : ((rows.length * (rows.headD []).length : Nat) : ℝ) ≠ 0 := by
      rw [hlen, hrect _ hhead]
      exact_mod_cast (Nat.mul_pos hr hc).ne'
    unfold tvLoss at h
    simp only [num_ofNat] at h
    rcases div_eq_zero_iff.1 h with h | h
    swap
    · exact absurd h hden
    have hdx : 0 ≤ sumL (rows.map fun r => sumL (List.zipWith (fun a b : ℝ => Num.sq (b - a)) r r.tail)) := by
      apply sumL_nonneg
      intro z hz
      obtain ⟨row, _, rfl⟩ := List.mem_map.1 hz
      exact sumL_zipWith_nonneg _ (fun x y => sq_nonneg' _) _ _
    have hGn : ∀ r s : List ℝ, 0 ≤ sumL (List.zipWith (fun a b : ℝ => Num.sq (b - a)) r s) :=
      fun r s => sumL_zipWith_nonneg _ (fun x y => sq_nonneg' _) _ _
    have hdy : 0 ≤ sumL (List.zipWith (fun r s => sumL (List.zipWith (fun a b : ℝ => Num.sq (b - a)) r s))
        rows rows.tail) := sumL_zipWith_nonneg _ hGn _ _
    have hdx0 : sumL (rows.map fun r => sumL (List.zipWith (fun a b : ℝ => Num.sq (b - a)) r r.tail)) = 0 := by
      linarith
    have hdy0 : sumL (List.zipWith (fun r s => sumL (List.zipWith (fun a b : ℝ => Num.sq (b - a)) r s))
        rows rows.tail) = 0 := by linarith
    -- all rows are equal to the first one
    have hrows := eq_replicate_of_sumL_adjacent_zero
      (fun r s : List ℝ => sumL (List.zipWith (fun a b : ℝ => Num.sq (b - a)) r s)) hGn [] rows
      (fun x hx y hy hxy => eq_of_sumL_sqdiff_zero x y ((hrect x hx).trans (hrect y hy).symm) hxy) hdy0
    -- the first row is constant
    have hrow0 : sumL (List.zipWith (fun a b : ℝ => Num.sq (b - a)) (rows.headD []) (rows.headD []).tail) = 0 :=
      eq_zero_of_sumL_eq_zero
        (fun z hz => by
          obtain ⟨row, _, rfl⟩ := List.mem_map.1 hz
          exact hGn _ _) hdx0 _
        (List.mem_map.2 ⟨rows.headD [], hhead, rfl⟩)
    have hconst := eq_replicate_of_sumL_adjacent_zero (fun a b : ℝ => Num.sq (b - a))
      (fun x y => sq_nonneg' _) 0 (rows.headD [])
      (fun x _ y _ hxy => by have := sq_eq_zero'.1 hxy; linarith) hrow0
    refine ⟨(rows.headD []).headD 0, ?_⟩
    rw [hrect _ hhead] at hconst
    rw [hlen] at hrows
    rw [← hconst]
    exact hrows
  · rintro ⟨v, rfl⟩
    exact C17_tv_zero_of_uniform r c v

/-- speckle contrast of a uniform window (mean `v`, mean square `v²`) is zero.  (Over ℝ this needs no
    `v ≠ 0`; the IEEE evaluation needs it, `0/0` being NaN there.) -/
theorem C17_speckle_zero_of_uniform (v : ℝ) : speckleWindow v (v * v) = 0 := by
  simp [speckleWindow, num_sq]

/-- speckle contrast of a window with non-negative mean is non-negative (any mean square) -/
theorem C17_speckle_nonneg (mu m2 : ℝ) (hmu : 0 ≤ mu) : 0 ≤ speckleWindow mu m2 := by
  unfold speckleWindow
  exact div_nonneg (Real.sqrt_nonneg _) hmu

/-- PSNR grows strictly as the error shrinks -/
theorem C17_psnr_strictly_decreasing (peak m1 m2 : ℝ) (hp : 0 < peak) (h1 : 0 < m1) (h12 : m1 < m2) :
    psnr peak m2 < psnr peak m1 := by
  have hs1 : 0 < Real.sqrt m1 := Real.sqrt_pos.2 h1
  have hs : Real.sqrt m1 < Real.sqrt m2 := Real.sqrt_lt_sqrt h1.le h12
  have hd : peak / Real.sqrt m2 < peak / Real.sqrt m1 := div_lt_div_of_pos_left hp hs1 hs
  have hl : Real.log (peak / Real.sqrt m2) < Real.log (peak / Real.sqrt m1) :=
    Real.log_lt_log (div_pos hp (hs1.trans hs)) hd
  have h10 : 0 < Real.log 10 := Real.log_pos (by norm_num)
  unfold psnr
  simp only [num_ofNat, num_log, num_sqrt]
  have := div_lt_div_of_pos_right hl h10
  push_cast
  linarith

/-! ## B. history independence of the lazily refreshed caches -/

/-- **cache transparency**, general form: from ANY cache state that satisfies the invariant (stored value =
    `f` of stored key), for ANY sequence of keys (changing gaze, target or image size between calls, any
    order, any length) every value used equals what a fresh object computes, and the invariant persists -/
theorem C17_cache_transparent_from {K V : Type} [DecidableEq K] (f : K → V) (s : Option (K × V))
    (hs : ∀ k v, s = some (k, v) → v = f k) (ks : List K) :
    (cacheRun f s ks).2 = ks.map f ∧ (∀ k v, (cacheRun f s ks).1 = some (k, v) → v = f k) := by
  induction ks generalizing s with
  | nil => exact ⟨rfl, hs⟩
  | cons k rest ih =>
    obtain ⟨h1, h2⟩ := cacheStep_spec f s hs k
    obtain ⟨i1, i2⟩ := ih (cacheStep f s k).1 h1
    simp only [cacheRun, List.map_cons]
    exact ⟨by rw [i1, h2], i2⟩

/-- from a new object (empty cache) -/
theorem C17_cache_transparent {K V : Type} [DecidableEq K] (f : K → V) (ks : List K) :
    (cacheRun f none ks).2 = ks.map f :=
  (C17_cache_transparent_from f none (keyedInv_none f) ks).1

/-- the refresh decision is exactly "nothing stored, or the key differs from the stored key" -/
theorem C17_cache_miss_iff_key_changes {K V : Type} [DecidableEq K] (s : Option (K × V)) (k : K) :
    cacheMiss s k = true ↔ (s = none ∨ ∃ k' v, s = some (k', v) ∧ k' ≠ k) := by
  cases s with
  | none => simp [cacheMiss]
  | some p =>
    obtain ⟨k', v⟩ := p
    simp [cacheMiss]

/-- what a step stores: a miss stores `(k, f k)`, a hit leaves the cache untouched -/
theorem C17_cache_step_state {K V : Type} [DecidableEq K] (f : K → V) (s : Option (K × V)) (k : K) :
    (cacheStep f s k).1 = if cacheMiss s k = true then some (k, f k) else s := by
  cases s with
  | none => simp [cacheMiss, cacheStep]
  | some p =>
    obtain ⟨k', v⟩ := p
    by_cases h : k' = k <;> simp [cacheMiss, cacheStep, h]

/-- every name the cached computation reads is compared by the cache guard [regenerated from the
    Python source]: each shipped cache is an instance of the keyed cache above with `k` = the tuple of
    those inputs -/
theorem C17_cache_keys_cover_inputs :
    (∀ x ∈ Gen.metamericLossCacheInputs, x ∈ Gen.metamericLossCacheKey) ∧
    (∀ x ∈ Gen.metamerMseCacheInputs, x ∈ Gen.metamerMseCacheKey) ∧
    (∀ x ∈ Gen.radialBlurCacheInputs, x ∈ Gen.radialBlurCacheKey) := by
  decide

/-- why the key matters (the pre-fix behaviour): a cache keyed on the target only returns, for the second
    of two calls with the same target and different gazes, the value of the FIRST gaze – which differs
    from what a fresh object returns -/
theorem C17_target_only_key_is_history_dependent {T G V : Type} [DecidableEq T] (f : T × G → V) (t : T)
    (g₁ g₂ : G) (h : f (t, g₁) ≠ f (t, g₂)) :
    (staleRun f none [(t, g₁), (t, g₂)]).2 = [f (t, g₁), f (t, g₁)] ∧
    (staleRun f none [(t, g₁), (t, g₂)]).2 ≠ [(t, g₁), (t, g₂)].map f := by
  have e : (staleRun f none [(t, g₁), (t, g₂)]).2 = [f (t, g₁), f (t, g₁)] := by
    simp [staleRun, staleStep]
  refine ⟨e, ?_⟩
  rw [e]
  intro h'
  simp only [List.map_cons, List.map_nil, List.cons.injEq, and_true, true_and] at h'
  exact h h'

/-! ## non-vacuity -/

example : mse [1, 2] [1, 4] = (2 : ℝ) := by
  simp [mse, sumL, num_sq]; norm_num

example : cacheRun (fun x : Nat => x * 10) none [1, 1, 2, 1] = (some (1, 10), [10, 10, 20, 10]) ∧
    cacheMisses (fun x : Nat => x * 10) none [1, 1, 2, 1] = [true, false, true, true] := by
  decide

/-- the hypothesis of the refutation is satisfiable and the stale cache really returns a wrong value -/
example : (staleRun (fun p : Nat × Nat => p.1 + p.2) none [(0, 1), (0, 2)]).2 = [1, 1] ∧
    [(0, 1), (0, 2)].map (fun p : Nat × Nat => p.1 + p.2) = [1, 2] := by
  decide

example : tvLoss [[1, 2], [1, 2]] = (1 / 2 : ℝ) := by
  simp [tvLoss, sumL, num_sq]; norm_num

example : psnr 1 (1 / 100) = (20 : ℝ) := by
  have h : Real.sqrt (1 / 100) = 1 / 10 := by
    rw [show (1 / 100 : ℝ) = (1 / 10) ^ 2 by norm_num]; exact Real.sqrt_sq (by norm_num)
  have h10 : Real.log 10 ≠ 0 := (Real.log_pos (by norm_num)).ne'
  simp only [psnr, num_ofNat, num_log, num_sqrt, h]
  norm_num

/-! # C17 over the loss formulas REGENERATED from the Python source (`Generated/LossesGen.lean`)

The statements below are about `Odak.Gen.*`, rewritten from `/repo` on every run; they follow from the tie theorems of
`Lemmas/GenLosses.lean` and the theorems above. -/

open Odak.Gen in
/-- regenerated `multiplane_loss.__call__`: non-negative for non-negative weights, zero when image = target (any weights, any mask) -/
theorem C17_gen_multiplane_nonneg_zero (w0 w1 w2 : ℝ) (hw : 0 ≤ w0 ∧ 0 ≤ w1 ∧ 0 ≤ w2) (img tgt mask : List ℝ) :
    0 ≤ multiplaneLossG w0 w1 w2 img tgt mask ∧ multiplaneLossG w0 w1 w2 tgt tgt mask = 0 := by
  rw [gen_multiplaneLossG_eq, gen_multiplaneLossG_eq]
  exact ⟨C17_multiplane_nonneg w0 w1 w2 hw img tgt mask, C17_multiplane_zero_at_identity w0 w1 w2 tgt mask⟩

open Odak.Gen in
/-- regenerated `wrapped_mean_squared_error`, both reductions: non-negative and zero at identity -/
theorem C17_gen_wrapped_nonneg_zero (a b : List ℝ) (h : a.length ≤ b.length) :
    0 ≤ wrappedMseMeanG a b ∧ wrappedMseMeanG a a = 0 ∧ 0 ≤ wrappedMseSumG a b ∧ wrappedMseSumG a a = 0 := by
  rw [gen_wrappedMseMeanG_eq a b h, gen_wrappedMseMeanG_eq a a le_rfl, gen_wrappedMseSumG_eq, gen_wrappedMseSumG_eq]
  refine ⟨C17_wrapped_nonneg a b, C17_wrapped_zero_at_identity a, ?_, ?_⟩
  · exact sumL_zipWith_nonneg _ (fun x y => add_nonneg (sq_nonneg' _) (sq_nonneg' _)) a b
  · exact sumL_zipWith_self _ (fun x => by simp [wrappedTerm, num_sq]) a

open Odak.Gen in
/-- regenerated wrapped error is 2π-periodic in both arguments (both reductions) -/
theorem C17_gen_wrapped_periodic (a b : List ℝ) (h : a.length ≤ b.length) (j : ℤ) :
    wrappedMseMeanG (a.map (· + 2 * Real.pi * j)) b = wrappedMseMeanG a b ∧
    wrappedMseMeanG a (b.map (· + 2 * Real.pi * j)) = wrappedMseMeanG a b ∧
    wrappedMseSumG (a.map (· + 2 * Real.pi * j)) b = wrappedMseSumG a b ∧
    wrappedMseSumG a (b.map (· + 2 * Real.pi * j)) = wrappedMseSumG a b := by
  have hs : ∀ x : ℝ, Real.sin (x + 2 * Real.pi * j) = Real.sin x := fun x => by
    rw [mul_comm]; exact Real.sin_add_int_mul_two_pi x j
  have hc : ∀ x : ℝ, Real.cos (x + 2 * Real.pi * j) = Real.cos x := fun x => by
    rw [mul_comm]; exact Real.cos_add_int_mul_two_pi x j
  obtain ⟨p1, p2⟩ := C17_wrapped_periodic a b j
  have e1 := gen_wrappedMseMeanG_eq (a.map (· + 2 * Real.pi * j)) b (by simpa using h)
  have e2 := gen_wrappedMseMeanG_eq a (b.map (· + 2 * Real.pi * j)) (by simpa using h)
  have e3 := gen_wrappedMseMeanG_eq a b h
  rw [e1, e2, e3, gen_wrappedMseSumG_eq, gen_wrappedMseSumG_eq, gen_wrappedMseSumG_eq]
  refine ⟨p1, p2, ?_, ?_⟩
  · rw [List.zipWith_map_left]; simp only [wrappedTerm, num_sin, num_cos, hs, hc]; rfl
  · rw [List.zipWith_map_right]; simp only [wrappedTerm, num_sin, num_cos, hs, hc]; rfl

open Odak.Gen in
/-- regenerated `total_variation_loss` of a single frame: non-negative, zero on uniform images, and (non-empty rectangular frames)
    zero ONLY on uniform images -/
theorem C17_gen_tv_nonneg_zero (rows : List (List ℝ)) (r c : Nat) (v : ℝ) :
    0 ≤ totalVariationLossG rows ∧ totalVariationLossG (List.replicate r (List.replicate c v)) = 0 ∧
    (0 < r → 0 < c → rows.length = r → (∀ row ∈ rows, row.length = c) →
      (totalVariationLossG rows = 0 ↔ ∃ v, rows = List.replicate r (List.replicate c v))) := by
  rw [gen_totalVariationLossG_eq, gen_totalVariationLossG_eq]
  exact ⟨C17_tv_nonneg rows, C17_tv_zero_of_uniform r c v, fun hr hc hl hrect => C17_tv_zero_iff_uniform r c hr hc rows hl hrect⟩

open Odak.Gen in
/-- regenerated `PSNR.forward`: strictly larger for the prediction with the strictly smaller (positive) mean squared error -/
theorem C17_gen_psnr_strictly_decreasing (t p1 p2 : List ℝ) (peak : ℝ) (hp : 0 < peak) (h1 : t.length ≤ p1.length)
    (h2 : t.length ≤ p2.length) (hm1 : 0 < mse t p1) (hm : mse t p1 < mse t p2) : psnrG p2 t peak < psnrG p1 t peak := by
  rw [gen_psnrG_eq p1 t peak h1, gen_psnrG_eq p2 t peak h2]
  exact C17_psnr_strictly_decreasing peak _ _ hp hm1 hm

open Odak.Gen in
/-- regenerated `histogram_loss`: non-negative and zero when frame = ground truth -/
theorem C17_gen_histogram_nonneg_zero (f g : T4 ℝ) (bins : Nat) (lo hi : ℝ) :
    0 ≤ histogramLossG f g bins lo hi ∧ histogramLossG f f bins lo hi = 0 := by
  rw [gen_histogramLossG_eq, gen_histogramLossG_eq]
  exact ⟨(C17_histogram_nonneg_zero _ _).1, (C17_histogram_nonneg_zero _ (Tn.flat2 (histogramTableG f bins lo hi))).2⟩

open Odak.Gen in
/-- regenerated `speckle_contrast`: the contrast of a uniform window is zero, that of a window with non-negative mean is
    non-negative; the loss is non-negative and zero when every window has zero contrast (uniform image) -/
theorem C17_gen_speckle_nonneg_zero (v mu m2 : ℝ) (hmu : 0 ≤ mu) (c : List ℝ) :
    speckleWindowG v (v * v) = 0 ∧ 0 ≤ speckleWindowG mu m2 ∧ 0 ≤ speckleLossG c ∧
    ((∀ x ∈ c, x = 0) → speckleLossG c = 0) := by
  rw [gen_speckleWindowG_eq, gen_speckleWindowG_eq, gen_speckleLossG_eq]
  exact ⟨C17_speckle_zero_of_uniform v, C17_speckle_nonneg mu m2 hmu, mse_nonneg _ _, mse_zeros_eq_zero_of_all_zero c⟩

open Odak.Gen in
/-- regenerated `phase_gradient`: the Laplacian response to a uniform 3 × 3 window is zero; the loss is non-negative and zero
    when every response is zero (uniform phase) -/
theorem C17_gen_phase_gradient_nonneg_zero (v : ℝ) (e : List ℝ) :
    phaseGradientWindowG [[v, v, v], [v, v, v], [v, v, v]] = 0 ∧ 0 ≤ phaseGradientLossG e ∧
    ((∀ x ∈ e, x = 0) → phaseGradientLossG e = 0) := by
  rw [gen_phaseGradientLossG_eq]
  exact ⟨gen_phaseGradientWindowG_uniform v, mse_nonneg _ _, mse_zeros_eq_zero_of_all_zero e⟩

/-- non-vacuity: the regenerated total variation and wrapped error take non-zero values -/
example : Gen.totalVariationLossG [[1, 2], [1, 2]] = (1 / 2 : ℝ) := by
  rw [gen_totalVariationLossG_eq]; simp [tvLoss, sumL, num_sq]; norm_num

example : Gen.multiplaneLossG 1 2 3 [1, 2] [1, 4] [1, 0] = (2 + 0 + 3 * 32 : ℝ) := by
  rw [gen_multiplaneLossG_eq]; simp [multiplaneLoss, mse, sumL, num_sq]; norm_num

open Odak.Gen in
/-- regenerated `total_variation_loss` of a batched multi-channel `[N, C, H, W]` frame and regenerated
    `multi_scale_total_variation_loss` (any number of levels): non-negative, zero on uniform frames -/
theorem C17_gen_tv4_multiscale_nonneg_zero (frame : T4 ℝ) (levels n c h w : Nat) (v : ℝ) :
    0 ≤ totalVariationLoss4G frame ∧ totalVariationLoss4G (uniform4 n c h w v) = 0 ∧
    0 ≤ multiScaleTotalVariationLossG frame levels ∧ multiScaleTotalVariationLossG (uniform4 n c h w v) levels = 0 := by
  rw [gen_totalVariationLoss4G_eq, gen_totalVariationLoss4G_eq, gen_multiScaleTotalVariationLossG_eq,
    gen_multiScaleTotalVariationLossG_eq]
  exact ⟨tvLoss4_nonneg frame, tvLoss4_uniform n c h w v, multiScaleTv_nonneg levels frame, multiScaleTv_uniform levels n c h w v⟩

open Odak.Gen in
/-- regenerated `weber_contrast` / `michelson_contrast` of a single image: zero when both regions have the same mean (uniform
    image), non-negative when the bright region is at least as bright as the (positive) dark one -/
theorem C17_gen_contrast_zero_nonneg (img : T2 ℝ) (h0 h1 h2 h3 l0 l1 l2 l3 : Nat) :
    (regionMean img h0 h1 h2 h3 = regionMean img l0 l1 l2 l3 →
      weberContrastG img h0 h1 h2 h3 l0 l1 l2 l3 = [0] ∧ michelsonContrastG img h0 h1 h2 h3 l0 l1 l2 l3 = [0]) ∧
    (0 < regionMean img l0 l1 l2 l3 → regionMean img l0 l1 l2 l3 ≤ regionMean img h0 h1 h2 h3 →
      ∃ a b : ℝ, weberContrastG img h0 h1 h2 h3 l0 l1 l2 l3 = [a] ∧ michelsonContrastG img h0 h1 h2 h3 l0 l1 l2 l3 = [b] ∧
        0 ≤ a ∧ 0 ≤ b) := by
  rw [gen_weberContrastG_eq, gen_michelsonContrastG_eq]
  constructor
  · intro e
    rw [e]
    obtain ⟨z1, z2, _, _⟩ := contrast_zero_nonneg (regionMean img l0 l1 l2 l3) 1 1 one_pos le_rfl
    rw [z1, z2]; exact ⟨rfl, rfl⟩
  · intro hl hh
    obtain ⟨_, _, n1, n2⟩ := contrast_zero_nonneg 0 _ _ hl hh
    exact ⟨_, _, rfl, rfl, n1, n2⟩

open Odak.Gen in
/-- regenerated `radial_basis_function`: values in `(0, 1]`, 1 at 0 -/
theorem C17_gen_radial_basis_range (value epsilon : ℝ) :
    0 < radialBasisG value epsilon ∧ radialBasisG value epsilon ≤ 1 ∧ radialBasisG 0 epsilon = 1 := by
  rw [gen_radialBasisG_eq, gen_radialBasisG_eq]; exact radialBasis_range value epsilon

end Odak

/-! # C17 over the STATE MACHINES of the gaze-contingent losses REGENERATED from the Python source (`Generated/StateMachines.lean`)

Every `__call__` (and `RadiallyVaryingBlur.blur`) is a step function `object → arguments → Option (object × value × stored attributes)`
rewritten from `/repo` on every run; the tie theorems of `Lemmas/GenStateMachines*.lean` identify it with the keyed cache of section B.
History independence is stated literally: along ANY call sequence on one object the value returned by call k is the value a newly built
object returns for the arguments of call k.  Hypotheses, where there are any, are about the numerics the state machines do not
interpret (`GazeOps`) and are spelled out. -/

namespace Odak
section GenStateMachines
open Odak.Gen
variable {T G R Shape Sub : Type} [DecidableEq G] [DecidableEq R] [DecidableEq Shape]

/-- the keyed-cache theorem of section B in the vocabulary of step functions (`C17_cache_transparent` is the instance `step = cacheStep`) -/
theorem C17_gen_keyed_cache_as_steps {K V : Type} [DecidableEq K] (f : K → V) (ks : List K) :
    ∃ s', runSteps (fun s k => some (cacheStep f s k)) none ks = some (s', ks.map f) := by
  obtain ⟨s', e, _⟩ := runSteps_of_invariant (fun s k => some (cacheStep f s k)) (KeyedInv f) (fun _ => True) f
    (fun s k hs _ => ⟨_, by rw [← (cacheStep_spec f s hs k).2], (cacheStep_spec f s hs k).1⟩) ks none (keyedInv_none f) (fun _ _ => trivial)
  exact ⟨s', e⟩

/-! ## `RadiallyVaryingBlur.blur` -/

/-- **history independence of the regenerated `blur`**: from ANY cache state that satisfies the invariant, for ANY sequence of calls
    (image sizes, channel counts, foveation parameters, gaze, mode, equirectangular flag changing in any order) the source never raises and
    call k returns the image rendered with the level-of-detail map and blend fraction of ITS OWN arguments -/
theorem C17_gen_radial_blur_history_independent_from (E : GazeOps T G R Shape Sub) (c : Option (RBKey R G × (T × T)))
    (hc : KeyedInv (rbValue E) c) (calls : List (BlurArgs T G R)) :
    ∃ c', runSteps (rbStep E) (rbToSelf c) calls = some (rbToSelf c', calls.map (rbFresh E)) ∧ KeyedInv (rbValue E) c' := by
  obtain ⟨s', e, c', rfl, hc'⟩ := runSteps_of_invariant (rbStep E) (fun s => ∃ c, s = rbToSelf c ∧ KeyedInv (rbValue E) c) (fun _ => True)
    (rbFresh E)
    (fun s x hs _ => by
      obtain ⟨c, rfl, hc⟩ := hs
      obtain ⟨h1, h2⟩ := cacheStep_spec (rbValue E) c hc (rbKey E x)
      exact ⟨_, by rw [rbStep_eq, h2]; rfl, _, rfl, h1⟩)
    calls (rbToSelf c) ⟨c, rfl, hc⟩ (fun _ _ => trivial)
  exact ⟨c', e, hc'⟩

/-- from a newly built object; and the documented value IS what a new object returns -/
theorem C17_gen_radial_blur_history_independent (E : GazeOps T G R Shape Sub) (calls : List (BlurArgs T G R)) :
    (∃ s', runSteps (rbStep E) RadiallyVaryingBlurSelf.init calls = some (s', calls.map (rbFresh E))) ∧
    ∀ x, (rbStep E RadiallyVaryingBlurSelf.init x).map Prod.snd = some (rbFresh E x) := by
  constructor
  · obtain ⟨c', e, _⟩ := C17_gen_radial_blur_history_independent_from E none (keyedInv_none _) calls
    exact ⟨_, e⟩
  · intro x
    have := rbStep_eq E none x
    simp only [rbToSelf] at this
    rw [this]
    simp [cacheStep, rbFresh]

/-- **the refresh condition is exactly "some input the cached map depends on changed"**: the regenerated `blur` stores attributes
    (all twelve stores of the refresh branch, in source order) iff nothing is cached yet or the stored key - (size, channels, alpha,
    width, distance, centre, mode, equi) - differs from the key of the call; otherwise it stores nothing -/
theorem C17_gen_radial_blur_refresh_iff_key_changed (E : GazeOps T G R Shape Sub) (c : Option (RBKey R G × (T × T))) (x : BlurArgs T G R) :
    (radiallyVaryingBlurBlurG E (rbToSelf c) x.image x.alpha x.real_image_width x.real_viewing_distance x.centre x.mode x.equi).map
        (fun r => r.2.2) = some (if cacheMiss c (rbKey E x) then rbRefreshLog else []) ∧
    (cacheMiss c (rbKey E x) = true ↔ (c = none ∨ ∃ k' v, c = some (k', v) ∧ k' ≠ rbKey E x)) := by
  obtain ⟨image, a, w, d, g, m, e⟩ := x
  exact ⟨by simp [gen_radiallyVaryingBlurBlurG_eq], C17_cache_miss_iff_key_changes c _⟩

/-! ## `BlurLoss.__call__` -/

/-- **history independence of the regenerated `BlurLoss.__call__`** (both values of `blur_source`): for ANY sequence of calls whose
    inputs pass `check_loss_inputs`, call k returns `MSE(image or blurred image, blurred target)` with every blur computed for ITS OWN
    image size and the gaze of call k - the value a new object returns -/
theorem C17_gen_blur_loss_history_independent (E : GazeOps T G R Shape Sub) (cfg : BlurLossCfg R) (calls : List (LossArgs T G))
    (hok : ∀ x ∈ calls, E.inputsOk x.image x.target = true) :
    (∃ s', runSteps (blStep E cfg) BlurLossSelf.init calls = some (s', calls.map (blFresh E cfg))) ∧
    ∀ x ∈ calls, (blStep E cfg BlurLossSelf.init x).map Prod.snd = some (blFresh E cfg x) := by
  have step : ∀ s x, (∃ b, s = blToSelf b ∧ KeyedInv (rbValue E) (b.getD none)) → E.inputsOk x.image x.target = true →
      ∃ s', blStep E cfg s x = some (s', blFresh E cfg x) ∧ ∃ b, s' = blToSelf b ∧ KeyedInv (rbValue E) (b.getD none) := by
    rintro s x ⟨b, rfl, hb⟩ hx
    obtain ⟨h1, h2⟩ := cacheStep_spec (rbValue E) (b.getD none) hb (rbKey E (blKey cfg x.target x.gaze))
    obtain ⟨h3, h4⟩ := cacheStep_spec (rbValue E) _ h1 (rbKey E (blKey cfg x.image x.gaze))
    rw [gen_blurLossCallG_eq E cfg b x hx]
    cases hs : cfg.blur_source
    · exact ⟨_, by simp [blFresh, rbFresh, hs, h2]; rfl, some _, rfl, h1⟩
    · exact ⟨_, by simp [blFresh, rbFresh, hs, h2, h4]; rfl, some _, rfl, h3⟩
  have init : ∃ b, (BlurLossSelf.init : BlurLossSelf T G R Shape Sub) = blToSelf b ∧ KeyedInv (rbValue E) (b.getD none) :=
    ⟨none, rfl, keyedInv_none _⟩
  constructor
  · obtain ⟨s', e, _⟩ := runSteps_of_invariant (blStep E cfg) _ (fun x => E.inputsOk x.image x.target = true) (blFresh E cfg) step calls _ init hok
    exact ⟨s', e⟩
  · intro x hx
    obtain ⟨s', e, _⟩ := step _ x init (hok x hx)
    rw [e]; rfl

/-! ## `MetamericLoss.__call__` -/

/-- the regenerated `metameric_loss_stats` reads no attribute of the object: its value is a function of its arguments (in particular
    the radial weights are those of the gaze passed in THIS call) -/
theorem C17_gen_metameric_loss_stats_stateless (E : GazeOps T G R Shape Sub) (cfg : MetamericLossCfg R)
    (s s' : MetamericLossSelf T G R Shape Sub) (A B : List T) (g : G) :
    metamericLossMetamericLossStatsG E cfg s A B g = metamericLossMetamericLossStatsG E cfg s' A B g ∧
    metamericLossMetamericLossStatsG E cfg s A B g = some (mlLossStats E cfg A B g) := by
  rw [gen_metamericLossStatsG_eq, gen_metamericLossStatsG_eq]; exact ⟨rfl, rfl⟩

/-- what the summary of `calc_statsmaps` / `visualise_loss_map` rests on [effect signatures recomputed from the source]: neither reads
    nor writes the cached target, its gaze or (for `calc_statsmaps`) its statistics -/
theorem C17_gen_calc_statsmaps_leaves_target_cache_alone :
    (∀ a ∈ ["target", "target_gaze", "target_stats"], a ∉ metamericLossCalcStatsmapsReads ∧ a ∉ metamericLossCalcStatsmapsWrites) ∧
    (∀ a ∈ ["target", "target_gaze", "target_stats"], a ∉ metamericLossVisualiseLossMapWrites) ∧
    (∀ a ∈ ["target", "target_stats"], a ∉ metamericLossUniformCalcStatsmapsReads ∧ a ∉ metamericLossUniformCalcStatsmapsWrites) := by
  decide

/-- **history independence of the regenerated `MetamericLoss.__call__`** (every configuration: with / without the foveal L2 term,
    radial weights, full-resolution L0, any mode; any `image_colorspace` / `visualise_loss` per call): if `calc_statsmaps` itself is
    history-free on its sub-caches (`hcore`, invariant `I`) and tensor equality is shape + `torch.eq` (`hext`), then for ANY sequence of
    calls whose inputs pass `check_loss_inputs` the source never raises and call k returns the documented value for ITS OWN image,
    target and gaze - what a new object returns -/
theorem C17_gen_metameric_loss_history_independent [DecidableEq T] (E : GazeOps T G R Shape Sub) (cfg : MetamericLossCfg R)
    (stats : T → G → List T) (mask : T → G → T) (I : Sub → Prop)
    (hcore : ∀ sub, I sub → ∀ x g, I (E.statsCore cfg sub x g cfg.alpha cfg.real_image_width cfg.real_viewing_distance cfg.mode).1 ∧
      (E.statsCore cfg sub x g cfg.alpha cfg.real_image_width cfg.real_viewing_distance cfg.mode).2 = (stats x g, mask x g))
    (hext : ∀ a b : T, a = b ↔ (E.shape a = E.shape b ∧ E.allEq b a = true))
    (sub : Sub) (hsub : I sub) (calls : List (MLArgs T G)) (hok : ∀ x ∈ calls, E.inputsOk x.image x.target = true) :
    (∃ s', runSteps (mlStep E cfg) (MetamericLossSelf.init sub) calls = some (s', calls.map (mlFresh E cfg stats mask))) ∧
    ∀ x ∈ calls, (mlStep E cfg (MetamericLossSelf.init sub) x).map Prod.snd = some (mlFresh E cfg stats mask x) := by
  have step : ∀ s x, (∃ c fm lm sub, s = mlToSelf c fm lm sub ∧ KeyedInv (fun k : G × T => stats k.2 k.1) c ∧ I sub) →
      E.inputsOk x.image x.target = true →
      ∃ s', mlStep E cfg s x = some (s', mlFresh E cfg stats mask x) ∧
        ∃ c fm lm sub, s' = mlToSelf c fm lm sub ∧ KeyedInv (fun k : G × T => stats k.2 k.1) c ∧ I sub := by
    rintro s x ⟨c, fm, lm, sub, rfl, hc, hs⟩ hx
    obtain ⟨fm', lm', sub', log, hs', e, _⟩ := gen_metamericLossCallG_eq E cfg stats mask I hcore hext c fm lm sub hs x hx
    obtain ⟨h1, h2⟩ := cacheStep_spec (fun k : G × T => stats k.2 k.1) c hc (mlKey E cfg x)
    refine ⟨_, ?_, _, fm', lm', sub', rfl, h1, hs'⟩
    simp only [mlStep, e, Option.map_some, h2]; rfl
  have init : ∃ c fm lm sub', (MetamericLossSelf.init sub : MetamericLossSelf T G R Shape Sub) = mlToSelf c fm lm sub' ∧
      KeyedInv (fun k : G × T => stats k.2 k.1) c ∧ I sub' := ⟨none, none, none, sub, rfl, keyedInv_none _, hsub⟩
  constructor
  · obtain ⟨s', e, _⟩ := runSteps_of_invariant (mlStep E cfg) _ (fun x => E.inputsOk x.image x.target = true) (mlFresh E cfg stats mask)
      step calls _ init hok
    exact ⟨s', e⟩
  · intro x hx
    obtain ⟨s', e, _⟩ := step _ x init (hok x hx)
    rw [e]; rfl

/-- **the refresh condition of `MetamericLoss` is exactly "the gaze or the prepared target changed"**: `target_stats` is stored in a
    call iff nothing is cached or the stored (gaze, target) differs from the (gaze, prepared target) of the call -/
theorem C17_gen_metameric_loss_refresh_iff_gaze_or_target_changed [DecidableEq T] (E : GazeOps T G R Shape Sub) (cfg : MetamericLossCfg R)
    (stats : T → G → List T) (mask : T → G → T) (I : Sub → Prop)
    (hcore : ∀ sub, I sub → ∀ x g, I (E.statsCore cfg sub x g cfg.alpha cfg.real_image_width cfg.real_viewing_distance cfg.mode).1 ∧
      (E.statsCore cfg sub x g cfg.alpha cfg.real_image_width cfg.real_viewing_distance cfg.mode).2 = (stats x g, mask x g))
    (hext : ∀ a b : T, a = b ↔ (E.shape a = E.shape b ∧ E.allEq b a = true))
    (c : Option ((G × T) × List T)) (fm lm : Option T) (sub : Sub) (hsub : I sub) (x : MLArgs T G)
    (hok : E.inputsOk x.image x.target = true) :
    ∃ r, metamericLossCallG E cfg (mlToSelf c fm lm sub) x.image x.target x.gaze x.image_colorspace x.visualise_loss = some r ∧
      ("target_stats" ∈ r.2.2 ↔ (c = none ∨ ∃ k' v, c = some (k', v) ∧ k' ≠ mlKey E cfg x)) := by
  obtain ⟨fm', lm', sub', log, _, e, hl⟩ := gen_metamericLossCallG_eq E cfg stats mask I hcore hext c fm lm sub hsub x hok
  exact ⟨_, e, hl.trans (C17_cache_miss_iff_key_changes c _)⟩

/-! ## `MetamerMSELoss.__call__` -/

/-- **history independence of the regenerated `MetamerMSELoss.__call__`** (with the regenerated `gen_metamer`): if the inner
    `calc_statsmaps` is history-free on its sub-caches and the synthesis with the pyramid maker it leaves does not depend on earlier calls,
    then for ANY call sequence call k returns `MSE(padded image, metamer(padded target, gaze))` for ITS OWN arguments -/
theorem C17_gen_metamer_mse_history_independent [DecidableEq T] (E : GazeOps T G R Shape Sub) (cfgI : MetamericLossCfg R)
    (stats : T → G → List T) (synth : List T → List T → T → T → Shape → T) (I : Sub → Prop)
    (hcore : ∀ sub, I sub → ∀ x g, I (E.statsCore cfgI sub x g cfgI.alpha (E.lit "0.3") (E.lit "0.6") "quadratic").1 ∧
      (E.statsCore cfgI sub x g cfgI.alpha (E.lit "0.3") (E.lit "0.6") "quadratic").2.1 = stats x g)
    (hsynth : ∀ sub, I sub → ∀ x g a b n sz,
      E.synthMetamer cfgI (E.statsCore cfgI sub x g cfgI.alpha (E.lit "0.3") (E.lit "0.6") "quadratic").1 a b n x sz = synth a b n x sz)
    (hext : ∀ a b : T, a = b ↔ (E.shape a = E.shape b ∧ E.allEq b a = true))
    (sub : Sub) (hsub : I sub) (calls : List (LossArgs T G)) (hok : ∀ x ∈ calls, E.inputsOk x.image x.target = true) :
    (∃ s', runSteps (mmStep E cfgI) (MetamerMSELossSelf.init sub) calls =
      some (s', calls.map (mmFresh E cfgI.n_pyramid_levels stats synth))) ∧
    ∀ x ∈ calls, (mmStep E cfgI (MetamerMSELossSelf.init sub) x).map Prod.snd = some (mmFresh E cfgI.n_pyramid_levels stats synth x) := by
  have step : ∀ s x, (∃ c inner, s = mmToSelf c inner ∧
        KeyedInv (fun k : G × T => mmMetamer E cfgI.n_pyramid_levels stats synth k.2 k.1) c ∧ I inner.sub) →
      E.inputsOk x.image x.target = true →
      ∃ s', mmStep E cfgI s x = some (s', mmFresh E cfgI.n_pyramid_levels stats synth x) ∧
        ∃ c inner, s' = mmToSelf c inner ∧ KeyedInv (fun k : G × T => mmMetamer E cfgI.n_pyramid_levels stats synth k.2 k.1) c ∧ I inner.sub := by
    rintro s x ⟨c, inner, rfl, hc, hs⟩ hx
    obtain ⟨inner', log, hs', e, _⟩ := gen_metamerMSELossCallG_eq E cfgI stats synth I hcore hsynth hext c inner hs x hx
    obtain ⟨h1, h2⟩ := cacheStep_spec (fun k : G × T => mmMetamer E cfgI.n_pyramid_levels stats synth k.2 k.1) c hc
      (x.gaze, E.pad x.target cfgI.n_pyramid_levels)
    refine ⟨_, ?_, _, inner', rfl, h1, hs'⟩
    simp only [mmStep, e, Option.map_some, h2]; rfl
  have init : ∃ c inner, (MetamerMSELossSelf.init sub : MetamerMSELossSelf T G R Shape Sub) = mmToSelf c inner ∧
      KeyedInv (fun k : G × T => mmMetamer E cfgI.n_pyramid_levels stats synth k.2 k.1) c ∧ I inner.sub :=
    ⟨none, MetamericLossSelf.init sub, rfl, keyedInv_none _, hsub⟩
  constructor
  · obtain ⟨s', e, _⟩ := runSteps_of_invariant (mmStep E cfgI) _ (fun x => E.inputsOk x.image x.target = true)
      (mmFresh E cfgI.n_pyramid_levels stats synth) step calls _ init hok
    exact ⟨s', e⟩
  · intro x hx
    obtain ⟨s', e, _⟩ := step _ x init (hok x hx)
    rw [e]; rfl

/-! ## `MetamericLossUniform.__call__` -/

/-- **history independence of the regenerated `MetamericLossUniform.__call__`** (full; up to /repo 20de69e only a partial statement held,
    see `C17_gen_metameric_loss_uniform_zero_target_first_call_returns`): if `calc_statsmaps` is history-free on its sub-cache and tensor
    equality is shape + `torch.eq`, then for ANY sequence of calls whose inputs pass `check_loss_inputs` the source never raises and call
    k returns the documented value for ITS OWN image and target - what a new object returns -/
theorem C17_gen_metameric_loss_uniform_history_independent [DecidableEq T] (E : GazeOps T G R Shape Sub)
    (cfg : MetamericLossUniformCfg R) (stats : T → List T) (I : Sub → Prop)
    (hcore : ∀ sub, I sub → ∀ x, I (E.uniformStatsCore cfg sub x cfg.pooling_size).1 ∧
      (E.uniformStatsCore cfg sub x cfg.pooling_size).2 = stats x)
    (hext : ∀ a b : T, a = b ↔ (E.shape a = E.shape b ∧ E.allEq b a = true))
    (sub : Sub) (hsub : I sub) (calls : List (MUArgs T))
    (hok : ∀ x ∈ calls, E.inputsOk x.image x.target = true) :
    (∃ s', runSteps (muStep E cfg) (MetamericLossUniformSelf.init sub) calls = some (s', calls.map (muFresh E cfg stats))) ∧
    ∀ x ∈ calls, (muStep E cfg (MetamericLossUniformSelf.init sub) x).map Prod.snd = some (muFresh E cfg stats x) := by
  have step : ∀ s x, (∃ c lm sub, s = muToSelf c lm sub ∧ KeyedInv stats c ∧ I sub) → E.inputsOk x.image x.target = true →
      ∃ s', muStep E cfg s x = some (s', muFresh E cfg stats x) ∧ ∃ c lm sub, s' = muToSelf c lm sub ∧ KeyedInv stats c ∧ I sub := by
    rintro s x ⟨c, lm, sub, rfl, hc, hs⟩ hx
    obtain ⟨lm', sub', log, hs', e, _⟩ := gen_metamericLossUniformCallG_eq E cfg stats I hcore hext c lm sub hs x hx
    obtain ⟨h1, h2⟩ := cacheStep_spec stats c hc (muKey E cfg x)
    refine ⟨_, ?_, _, lm', sub', rfl, h1, hs'⟩
    simp only [muStep, e, Option.map_some, h2]; rfl
  have init : ∃ c lm sub', (MetamericLossUniformSelf.init sub : MetamericLossUniformSelf T G R Shape Sub) = muToSelf c lm sub' ∧
      KeyedInv stats c ∧ I sub' := ⟨none, none, sub, rfl, keyedInv_none _, hsub⟩
  constructor
  · obtain ⟨s', e, _⟩ := runSteps_of_invariant (muStep E cfg) _ (fun x => E.inputsOk x.image x.target = true) (muFresh E cfg stats)
      step calls _ init hok
    exact ⟨s', e⟩
  · intro x hx
    obtain ⟨s', e, _⟩ := step _ x init (hok x hx)
    rw [e]; rfl

/-- the case the source failed on up to /repo 20de69e (a new object compared the target with `zeros(target.shape)`, found "nothing
    changed" for an all-zero prepared target, skipped `calc_statsmaps` and raised on the unset `target_stats`; the regenerated model of
    that source proved `… = none` here): on a NEW object the first call refreshes WHATEVER the prepared target is - in particular when
    it equals `zeros(target.shape)` - stores `target_stats`, and returns the documented value -/
theorem C17_gen_metameric_loss_uniform_zero_target_first_call_returns [DecidableEq T] (E : GazeOps T G R Shape Sub)
    (cfg : MetamericLossUniformCfg R) (stats : T → List T) (I : Sub → Prop)
    (hcore : ∀ sub, I sub → ∀ x, I (E.uniformStatsCore cfg sub x cfg.pooling_size).1 ∧
      (E.uniformStatsCore cfg sub x cfg.pooling_size).2 = stats x)
    (hext : ∀ a b : T, a = b ↔ (E.shape a = E.shape b ∧ E.allEq b a = true))
    (sub : Sub) (hsub : I sub) (x : MUArgs T) (hx : E.inputsOk x.image x.target = true)
    (hzero : muKey E cfg x = E.zeros (E.shape (muKey E cfg x))) :
    ∃ r, metamericLossUniformCallG E cfg (MetamericLossUniformSelf.init sub) x.image x.target x.image_colorspace x.visualise_loss = some r ∧
      r.2.1 = muFresh E cfg stats x ∧ "target_stats" ∈ r.2.2 ∧ r.1.target = some (E.zeros (E.shape (muKey E cfg x))) := by
  obtain ⟨lm', sub', log, _, e, hl⟩ := gen_metamericLossUniformCallG_eq E cfg stats I hcore hext none none sub hsub x hx
  have i0 : (MetamericLossUniformSelf.init sub : MetamericLossUniformSelf T G R Shape Sub) = muToSelf none none sub := rfl
  refine ⟨_, by rw [i0]; exact e, ?_, hl.2 (by simp [cacheMiss]), ?_⟩
  · simp [cacheStep, muFresh, muKey]
  · rw [← hzero]; simp [cacheStep, muToSelf]

/-! ## the fovea mask of `MetamericLoss.calc_statsmaps` -/

/-- the regenerated per-pixel mask for a level of detail `0 ≤ lod ≤ max lod`: between 0 and 1, exactly 1 below the threshold `1e-6`,
    0 where the level of detail is maximal (if the maximum reaches the threshold), and fovea + periphery = 1 -/
theorem C17_gen_fovea_mask_range (lod lodMax : ℝ) (h0 : 0 ≤ lod) (hmax : lod ≤ lodMax) :
    0 ≤ foveaMaskPixelG lod lodMax ∧ foveaMaskPixelG lod lodMax ≤ 1 ∧
    (lod < 1 / 1000000 → foveaMaskPixelG lod lodMax = 1) ∧
    (1 / 1000000 ≤ lodMax → foveaMaskPixelG lodMax lodMax = 0) ∧
    foveaMaskPixelG lod lodMax + peripheryMaskPixelG lod lodMax = 1 := by
  obtain ⟨e1, e2⟩ := gen_foveaMaskPixelG_eq lod lodMax
  have e3 := (gen_foveaMaskPixelG_eq lodMax lodMax).1
  have hfour : 1 / 1000000 ≤ lodMax → foveaMaskPixelG lodMax lodMax = 0 := by
    intro h
    have hne : lodMax ≠ 0 := by intro h0'; rw [h0'] at h; norm_num at h
    rw [e3, if_neg (not_lt.2 h), div_self hne]; norm_num
  have hsum : foveaMaskPixelG lod lodMax + peripheryMaskPixelG lod lodMax = 1 := by rw [e2]; ring
  by_cases hl : lod < 1 / 1000000
  · have f1 : foveaMaskPixelG lod lodMax = 1 := by rw [e1, if_pos hl]; norm_num
    exact ⟨by rw [f1]; norm_num, by rw [f1], fun _ => f1, hfour, hsum⟩
  · have hpos : 0 < lodMax := lt_of_lt_of_le (by norm_num) (le_trans (not_lt.1 hl) hmax)
    have hq0 : 0 ≤ 1 - lod / lodMax := by
      rw [sub_nonneg, div_le_one hpos]; exact hmax
    have hq1 : 1 - lod / lodMax ≤ 1 := by
      have : 0 ≤ lod / lodMax := div_nonneg h0 hpos.le
      linarith
    have f2 : foveaMaskPixelG lod lodMax = (1 - lod / lodMax) ^ 10 := by rw [e1, if_neg hl]
    exact ⟨by rw [f2]; exact pow_nonneg hq0 _, by rw [f2]; exact pow_le_one₀ hq0 hq1, fun h => absurd h hl, hfour, hsum⟩

/-- **when is the division by `torch.max(lod_map)` harmless?**  A pixel's value depends on the quotient only if its level of detail
    is at least `1e-6`; then the maximum is at least `1e-6` too, so the divisor that reaches the output is never 0.  In particular,
    if the maximum of a non-negative map is 0 (pooling regions below one pixel everywhere: small images, small `alpha`) every pixel is
    below the threshold, the `0 / 0` of the first statement is overwritten by the second, and the mask is 1 everywhere (periphery 0) -/
theorem C17_gen_fovea_mask_division_by_max (lod lodMax : ℝ) (hmax : lod ≤ lodMax) :
    (¬ lod < 1 / 1000000 → lodMax ≠ 0) ∧
    (lodMax = 0 → foveaMaskPixelG lod lodMax = 1 ∧ peripheryMaskPixelG lod lodMax = 0) := by
  refine ⟨fun h hz => h (by rw [hz] at hmax; exact lt_of_le_of_lt hmax (by norm_num)), fun hz => ?_⟩
  have hl : lod < 1 / 1000000 := by rw [hz] at hmax; exact lt_of_le_of_lt hmax (by norm_num)
  obtain ⟨e1, e2⟩ := gen_foveaMaskPixelG_eq lod lodMax
  have f1 : foveaMaskPixelG lod lodMax = 1 := by rw [e1, if_pos hl]; norm_num
  exact ⟨f1, by rw [e2, f1]; norm_num⟩

end GenStateMachines

/-- non-vacuity: the regenerated blur on integer tokens - second call with the same key stores nothing, a changed gaze refreshes -/
example :
    let E : Gen.GazeOps Nat Nat Nat Nat Nat :=
      { height := fun x => x, width := fun x => x, channels := fun _ => 1, shape := fun x => x, allEq := fun a b => a == b,
        same := fun a b => a == b, inputsOk := fun _ _ => true, pad := fun x _ => x, ycrcb := fun x => x, rgb := fun x => x,
        zeros := fun _ => 0, randLike := fun x => x, lit := fun _ => 0, scalar := fun x => x, nat := fun x => x, add := (· + ·),
        sub := (· - ·), mul := (· * ·), div := (· / ·), mse := fun a b => a + b, fmod := fun x _ => x, repeatChannels := fun x _ => x,
        lodPlain := fun g _ _ _ _ _ => g, lodEqui := fun g _ _ _ => g, radialMap := fun _ g => g, renderBlur := fun i l _ => i + l,
        statsCore := fun _ s x g _ _ _ _ => (s, [x + g], g), visualise := fun _ _ => 0, uniformStatsCore := fun _ s x _ => (s, [x]),
        synthMetamer := fun _ _ _ _ _ x _ => x }
    (runSteps (rbStep E) Gen.RadiallyVaryingBlurSelf.init
      [⟨8, 0, 0, 0, 5, "quadratic", false⟩, ⟨8, 0, 0, 0, 5, "quadratic", false⟩, ⟨8, 0, 0, 0, 7, "quadratic", false⟩]).map Prod.snd
      = some [13, 13, 15] := by
  decide

end Odak

/-! # C17 with `calc_statsmaps` REGENERATED statement by statement (`Generated/StatsMaps.lean`, work package 15)

`MetamericLoss.calc_statsmaps` and `MetamericLossUniform.calc_statsmaps` are no longer summarised: the pyramid-maker re-creation test, the
lazily built list of one `RadiallyVaryingBlur` per pyramid level (each the regenerated blur step function of `Generated/StateMachines.lean`
on its own state), the nested `find_stats`, both loops, the fovea / periphery masks are generated text, and the state of the object CONTAINS
the states of its sub-objects.  The hypothesis `hcore` of the theorems above ("`calc_statsmaps` is history-free on its own sub-caches") is
proved (`fullStatsCore_spec`, from `gen_metamericLossCalcStatsmapsFullG_rel`) and disappears. -/

namespace Odak
section GenStatsMaps
open Odak.Gen
variable {T G R Shape Sub : Type} [DecidableEq G] [DecidableEq R] [DecidableEq Shape]

/-- **history independence of the regenerated `MetamericLoss.calc_statsmaps`, with its sub-caches**: start from ANY object whose
    sub-objects are consistent (in particular a new one) and make ANY list of `calc_statsmaps` calls - image size, channel count, gaze,
    alpha, width, distance, mode changing between calls, and also the configuration (`n_pyramid_levels`, `n_orientations`, `equi`,
    `use_l2_foveal_loss`, `use_fullres_l0` re-assigned) and the device (`to(device)`).  Then
    * call k returns what the cache-free reference `statsRef` gives for the arguments, configuration and device OF CALL k, the list raises
      at the first call for which the reference raises, and not before;
    * after the list every sub-cache invariant holds again: every stored blur object holds the level-of-detail map a NEW blur object
      computes for the key it stores, the stored pyramid maker is one the method's own constructor call built;
    * a NEW object returns the reference value (so "reference" = "what a new object returns", raising included) -/
theorem C17_gen_calc_statsmaps_history_independent (E : GazeOps T G R Shape Sub) (S : StatsOps T R Shape)
    (s : MetamericLossStatsSelf T G R Shape Sub) (hs : StatsInv E s) (calls : List (StatsCall T G R)) :
    OptRel (fun r vs => StatsInv E r.1 ∧ r.2 = vs) (runSteps (statsStep E S) s calls) (calls.mapM (statsFresh E S)) ∧
    ∀ c, (statsStep E S MetamericLossStatsSelf.init c).map Prod.snd = statsFresh E S c := by
  refine ⟨runSteps_optRel (statsStep E S) (statsFresh E S) (StatsInv E) (fun s x h => gen_statsStep_rel E S s h x) calls s hs, fun c => ?_⟩
  have h := gen_statsStep_rel E S MetamericLossStatsSelf.init (statsInv_init E) c
  cases e1 : statsFresh E S c with
  | none => rw [(OptRel.none_iff h).2 e1]; rfl
  | some v =>
    obtain ⟨r, e2, _, hr⟩ := OptRel.of_some h e1
    rw [e2, ← hr]; rfl

/-- **one `calc_statsmaps` call on an object with ANY consistent history**: it raises exactly when the cache-free reference raises;
    otherwise it returns the reference's statistics, the pyramid maker it leaves is the one a new object builds for THIS image's channel
    count, the configured orientations and the current device (`statsMaker`), with `use_l2_foveal_loss` the fovea mask it leaves is the
    reference's (computed from the level-of-detail map of THIS call), and every sub-cache invariant holds again -/
theorem C17_gen_calc_statsmaps_one_call (E : GazeOps T G R Shape Sub) (S : StatsOps T R Shape) (cfg : MetamericLossCfg R) (device : Nat)
    (s : MetamericLossStatsSelf T G R Shape Sub) (hs : StatsInv E s) (image : T) (g : G) (a w d : R) (m : String) (equi : Bool) :
    OptRel (fun r v => StatsInv E r.1 ∧ r.1.pyramid_maker = statsMaker E cfg.n_orientations device image ∧ r.2.1 = v.1 ∧
        (cfg.use_l2_foveal_loss = true → r.1.fovea_mask = v.2.1))
      (metamericLossCalcStatsmapsFullG E S cfg device s image g a w d m equi) (statsRef E S cfg device image g a w d m) := by
  have h := gen_metamericLossCalcStatsmapsFullG_rel E S cfg device s hs image g a w d m equi
  cases e1 : statsRef E S cfg device image g a w d m with
  | none => rw [(OptRel.none_iff h).2 e1]; trivial
  | some v =>
    obtain ⟨r, e2, h1, h2, h3, h4⟩ := OptRel.of_some h e1
    rw [e2]
    refine ⟨h1, ?_, h3, h4⟩
    rw [h2]
    simp only [statsRef, Option.bind_eq_bind] at e1
    cases hm : statsMaker E cfg.n_orientations device image with
    | none => simp [hm] at e1
    | some pm =>
      simp only [hm, Option.bind_some] at e1
      cases ht : statsRefTail E S cfg pm image g a w d m with
      | none => simp [ht] at e1
      | some t => simp [ht] at e1; rw [← e1]

/-- the same for `MetamericLossUniform.calc_statsmaps` (its only sub-cache is the pyramid maker) -/
theorem C17_gen_uniform_calc_statsmaps_history_independent (E : GazeOps T G R Shape Sub) (S : StatsOps T R Shape)
    (s : MetamericLossUniformStatsSelf T G R Shape Sub) (hs : UStatsInv s) (calls : List (UStatsCall T R)) :
    OptRel (fun r vs => UStatsInv r.1 ∧ r.2 = vs) (runSteps (uStatsStep E S) s calls) (calls.mapM (uStatsFresh E S)) ∧
    ∀ c, (uStatsStep E S MetamericLossUniformStatsSelf.init c).map Prod.snd = uStatsFresh E S c := by
  refine ⟨runSteps_optRel (uStatsStep E S) (uStatsFresh E S) UStatsInv (fun s x h => gen_uStatsStep_rel E S s h x) calls s hs, fun c => ?_⟩
  have h := gen_uStatsStep_rel E S MetamericLossUniformStatsSelf.init (fun p hp => by cases hp) c
  cases e1 : uStatsFresh E S c with
  | none => rw [(OptRel.none_iff h).2 e1]; rfl
  | some v =>
    obtain ⟨r, e2, _, hr⟩ := OptRel.of_some h e1
    rw [e2, ← hr]; rfl

omit [DecidableEq G] [DecidableEq R] [DecidableEq Shape] in
/-- **the re-creation test of the pyramid maker reads what the constructor call stored**: on a pyramid maker that the constructor call of
    `calc_statsmaps` built for channel count `c`, `o` orientations and device `d`, the three accessors of the test - `.device`,
    `len(.band_filters)`, `.filt_h0.size(0)`, resolved through `SpatialSteerablePyramid.__init__` and the regenerated table of
    `get_steerable_pyramid_filters` - return `d`, `o`, `c`; hence the test fires iff there is no maker or one of the three differs from
    the device / orientations / channel count of THIS call, and a maker that passes the test IS the maker a new object would build -/
theorem C17_gen_pyramid_maker_test_reads_constructor_arguments (c o d : Nat) (p : SpatialSteerablePyramidSelf)
    (hp : spatialSteerablePyramidInitG false c 5 o "cropped" d = some p) :
    spatialSteerablePyramidDeviceG p = some d ∧ spatialSteerablePyramidBandFiltersLenG p = some o ∧
      spatialSteerablePyramidFiltH0Size0G p = some c ∧
      p = { use_bilinear_downup := false, n_channels := c, filter_size := 5, n_orientations := o, filter_type := "cropped", device := d } :=
  ⟨(gen_pyramidMaker_accessors c o d p hp).2.1, (gen_pyramidMaker_accessors c o d p hp).2.2.1, (gen_pyramidMaker_accessors c o d p hp).2.2.2.1,
    (gen_pyramidMaker_accessors c o d p hp).1⟩

/-- **`C17_gen_metameric_loss_history_independent` WITHOUT `hcore`**: the regenerated `MetamericLoss.__call__` running on the regenerated
    `calc_statsmaps` (`fullOps`: the sub-state is the record of sub-objects; a `calc_statsmaps` that raises is totalised - marked `"RAISE"`,
    no statistics - and by `C17_gen_calc_statsmaps_history_independent` it raises for an object with a history exactly when it raises for a
    new object).  For every configuration, every device and ANY call list whose inputs pass `check_loss_inputs`, call k returns the
    documented value for ITS OWN image, target and gaze, `stats` / `mask` being what a NEW object's `calc_statsmaps` returns / leaves.
    The only remaining hypothesis is about tensors: equality is shape + `torch.eq` -/
theorem C17_gen_metameric_loss_history_independent_full [DecidableEq T] (E : GazeOps T G R Shape Sub) (S : StatsOps T R Shape) (device : Nat)
    (cfg : MetamericLossCfg R) (hext : ∀ a b : T, a = b ↔ (E.shape a = E.shape b ∧ E.allEq b a = true))
    (calls : List (MLArgs T G)) (hok : ∀ x ∈ calls, E.inputsOk x.image x.target = true) :
    (∃ s', runSteps (mlStep (fullOps E S device) cfg) (MetamericLossSelf.init (MetamericLossStatsSelf.init, [])) calls =
      some (s', calls.map (mlFresh (fullOps E S device) cfg
        (statsNew E S cfg device cfg.alpha cfg.real_image_width cfg.real_viewing_distance cfg.mode)
        (maskNew E S cfg device cfg.alpha cfg.real_image_width cfg.real_viewing_distance cfg.mode)))) ∧
    ∀ x ∈ calls, (mlStep (fullOps E S device) cfg (MetamericLossSelf.init (MetamericLossStatsSelf.init, [])) x).map Prod.snd =
      some (mlFresh (fullOps E S device) cfg
        (statsNew E S cfg device cfg.alpha cfg.real_image_width cfg.real_viewing_distance cfg.mode)
        (maskNew E S cfg device cfg.alpha cfg.real_image_width cfg.real_viewing_distance cfg.mode) x) :=
  C17_gen_metameric_loss_history_independent (fullOps E S device) cfg _ _ (fun sub => StatsInv E sub.1)
    (fun sub h x g => ⟨(fullStatsCore_spec E S device cfg sub h x g _ _ _ _).1, (fullStatsCore_spec E S device cfg sub h x g _ _ _ _).2.1⟩)
    hext (MetamericLossStatsSelf.init, []) (statsInv_init E) calls hok

/-- **every sub-cache invariant holds after ANY `__call__` list** on the full object: whatever the calls were (sizes, channel counts, gazes,
    targets, colour spaces), afterwards every blur object of `self.blurs` holds the level-of-detail map a NEW blur object computes for the key
    it stores, and the pyramid maker is one the method's own constructor call built -/
theorem C17_gen_metameric_loss_sub_caches_consistent_full [DecidableEq T] (E : GazeOps T G R Shape Sub) (S : StatsOps T R Shape) (device : Nat)
    (cfg : MetamericLossCfg R) (hext : ∀ a b : T, a = b ↔ (E.shape a = E.shape b ∧ E.allEq b a = true))
    (calls : List (MLArgs T G)) (hok : ∀ x ∈ calls, E.inputsOk x.image x.target = true)
    (s' : MetamericLossSelf T G R Shape (MetamericLossStatsSelf T G R Shape Sub × List String)) (vs : List T)
    (hrun : runSteps (mlStep (fullOps E S device) cfg) (MetamericLossSelf.init (MetamericLossStatsSelf.init, [])) calls = some (s', vs)) :
    StatsInv E s'.sub.1 := by
  let EF := fullOps E S device
  let stats := statsNew E S cfg device cfg.alpha cfg.real_image_width cfg.real_viewing_distance cfg.mode
  let mask := maskNew E S cfg device cfg.alpha cfg.real_image_width cfg.real_viewing_distance cfg.mode
  have hcore : ∀ sub : MetamericLossStatsSelf T G R Shape Sub × List String, StatsInv E sub.1 → ∀ x g,
      StatsInv E (EF.statsCore cfg sub x g cfg.alpha cfg.real_image_width cfg.real_viewing_distance cfg.mode).1.1 ∧
      (EF.statsCore cfg sub x g cfg.alpha cfg.real_image_width cfg.real_viewing_distance cfg.mode).2 = (stats x g, mask x g) :=
    fun sub h x g => ⟨(fullStatsCore_spec E S device cfg sub h x g _ _ _ _).1, (fullStatsCore_spec E S device cfg sub h x g _ _ _ _).2.1⟩
  have step : ∀ s x, (∃ c fm lm sub, s = mlToSelf c fm lm sub ∧ KeyedInv (fun k : G × T => stats k.2 k.1) c ∧ StatsInv E sub.1) →
      EF.inputsOk x.image x.target = true →
      ∃ s2, mlStep EF cfg s x = some (s2, mlFresh EF cfg stats mask x) ∧
        ∃ c fm lm sub, s2 = mlToSelf c fm lm sub ∧ KeyedInv (fun k : G × T => stats k.2 k.1) c ∧ StatsInv E sub.1 := by
    rintro s x ⟨c, fm, lm, sub, rfl, hc, hs⟩ hx
    obtain ⟨fm', lm', sub', log, hs', e, _⟩ := gen_metamericLossCallG_eq EF cfg stats mask (fun sub => StatsInv E sub.1) hcore hext c fm lm sub hs x hx
    obtain ⟨h1, h2⟩ := cacheStep_spec (fun k : G × T => stats k.2 k.1) c hc (mlKey EF cfg x)
    refine ⟨_, ?_, _, fm', lm', sub', rfl, h1, hs'⟩
    simp only [mlStep, e, Option.map_some, h2]; rfl
  obtain ⟨s2, e, c, fm, lm, sub, rfl, _, hs2⟩ := runSteps_of_invariant (mlStep EF cfg) _ (fun x => EF.inputsOk x.image x.target = true)
    (mlFresh EF cfg stats mask) step calls (MetamericLossSelf.init (MetamericLossStatsSelf.init, []))
    ⟨none, none, none, (MetamericLossStatsSelf.init, []), rfl, keyedInv_none _, statsInv_init E⟩ hok
  rw [e] at hrun
  simp only [Option.some.injEq, Prod.mk.injEq] at hrun
  rw [← hrun.1]
  cases c <;> exact hs2

/-- the refresh condition of `MetamericLoss.__call__` on the full object, without `hcore` -/
theorem C17_gen_metameric_loss_refresh_iff_gaze_or_target_changed_full [DecidableEq T] (E : GazeOps T G R Shape Sub) (S : StatsOps T R Shape)
    (device : Nat) (cfg : MetamericLossCfg R) (hext : ∀ a b : T, a = b ↔ (E.shape a = E.shape b ∧ E.allEq b a = true))
    (c : Option ((G × T) × List T)) (fm lm : Option T) (sub : MetamericLossStatsSelf T G R Shape Sub × List String) (hsub : StatsInv E sub.1)
    (x : MLArgs T G) (hok : E.inputsOk x.image x.target = true) :
    ∃ r, metamericLossCallG (fullOps E S device) cfg (mlToSelf c fm lm sub) x.image x.target x.gaze x.image_colorspace x.visualise_loss = some r ∧
      ("target_stats" ∈ r.2.2 ↔ (c = none ∨ ∃ k' v, c = some (k', v) ∧ k' ≠ mlKey (fullOps E S device) cfg x)) :=
  C17_gen_metameric_loss_refresh_iff_gaze_or_target_changed (fullOps E S device) cfg _ _ (fun sub => StatsInv E sub.1)
    (fun sub h x g => ⟨(fullStatsCore_spec E S device cfg sub h x g _ _ _ _).1, (fullStatsCore_spec E S device cfg sub h x g _ _ _ _).2.1⟩)
    hext c fm lm sub hsub x hok

/-- **`C17_gen_metamer_mse_history_independent` WITHOUT `hcore` and WITHOUT `hsynth`**: the regenerated `MetamerMSELoss.__call__` /
    `gen_metamer` on an inner `MetamericLoss` whose `calc_statsmaps` is the regenerated method; the synthesis uses the pyramid maker that
    call leaves, which is the one a new object builds for the image (`statsMaker`).  Remaining hypotheses: tensor equality is shape +
    `torch.eq`, and `hdef` - the `calc_statsmaps` of a NEW object returns (does not raise) for the arguments `gen_metamer` passes (width 0.3,
    distance 0.6, "quadratic") -/
theorem C17_gen_metamer_mse_history_independent_full [DecidableEq T] (E : GazeOps T G R Shape Sub) (S : StatsOps T R Shape) (device : Nat)
    (cfgI : MetamericLossCfg R)
    (hdef : ∀ x g, (statsRef E S cfgI device x g cfgI.alpha (E.lit "0.3") (E.lit "0.6") "quadratic").isSome = true)
    (hext : ∀ a b : T, a = b ↔ (E.shape a = E.shape b ∧ E.allEq b a = true))
    (calls : List (LossArgs T G)) (hok : ∀ x ∈ calls, E.inputsOk x.image x.target = true) :
    (∃ s', runSteps (mmStep (fullOps E S device) cfgI) (MetamerMSELossSelf.init (MetamericLossStatsSelf.init, [])) calls =
      some (s', calls.map (mmFresh (fullOps E S device) cfgI.n_pyramid_levels
        (statsNew E S cfgI device cfgI.alpha (E.lit "0.3") (E.lit "0.6") "quadratic")
        (fun a b n x sz => S.synthWith cfgI (statsMaker E cfgI.n_orientations device x) a b n x sz)))) ∧
    ∀ x ∈ calls, (mmStep (fullOps E S device) cfgI (MetamerMSELossSelf.init (MetamericLossStatsSelf.init, [])) x).map Prod.snd =
      some (mmFresh (fullOps E S device) cfgI.n_pyramid_levels
        (statsNew E S cfgI device cfgI.alpha (E.lit "0.3") (E.lit "0.6") "quadratic")
        (fun a b n x sz => S.synthWith cfgI (statsMaker E cfgI.n_orientations device x) a b n x sz) x) := by
  refine C17_gen_metamer_mse_history_independent (fullOps E S device) cfgI _ _ (fun sub => StatsInv E sub.1)
    (fun sub h x g => ⟨(fullStatsCore_spec E S device cfgI sub h x g _ _ _ _).1, ?_⟩) (fun sub h x g a b n sz => ?_)
    hext (MetamericLossStatsSelf.init, []) (statsInv_init E) calls hok
  · exact congrArg Prod.fst (fullStatsCore_spec E S device cfgI sub h x g _ _ _ _).2.1
  · obtain ⟨v, hv⟩ := Option.isSome_iff_exists.1 (hdef x g)
    have hpm := (fullStatsCore_spec E S device cfgI sub h x g cfgI.alpha (E.lit "0.3") (E.lit "0.6") "quadratic").2.2 v hv
    have hmk : statsMaker E cfgI.n_orientations device x = some v.2.2 := by
      simp only [statsRef, Option.bind_eq_bind] at hv
      cases hm : statsMaker E cfgI.n_orientations device x with
      | none => simp [hm] at hv
      | some pm =>
        simp only [hm, Option.bind_some] at hv
        cases ht : statsRefTail E S cfgI pm x g cfgI.alpha (E.lit "0.3") (E.lit "0.6") "quadratic" with
        | none => simp [ht] at hv
        | some r => simp [ht] at hv; rw [← hv]
    show S.synthWith cfgI (fullStatsCore E S device cfgI sub x g cfgI.alpha (E.lit "0.3") (E.lit "0.6") "quadratic").1.1.pyramid_maker a b n x sz = _
    rw [hpm, hmk]

/-- **`C17_gen_metameric_loss_uniform_history_independent` WITHOUT `hcore`** (the sub-state is the pyramid maker) -/
theorem C17_gen_metameric_loss_uniform_history_independent_full [DecidableEq T] (E : GazeOps T G R Shape Sub) (S : StatsOps T R Shape)
    (device : Nat) (cfg : MetamericLossUniformCfg R) (hext : ∀ a b : T, a = b ↔ (E.shape a = E.shape b ∧ E.allEq b a = true))
    (calls : List (MUArgs T)) (hok : ∀ x ∈ calls, E.inputsOk x.image x.target = true) :
    (∃ s', runSteps (muStep (fullOpsU E S device) cfg) (MetamericLossUniformSelf.init (MetamericLossUniformStatsSelf.init, [])) calls =
      some (s', calls.map (muFresh (fullOpsU E S device) cfg (uStatsNew E S cfg device cfg.pooling_size)))) ∧
    ∀ x ∈ calls, (muStep (fullOpsU E S device) cfg (MetamericLossUniformSelf.init (MetamericLossUniformStatsSelf.init, [])) x).map Prod.snd =
      some (muFresh (fullOpsU E S device) cfg (uStatsNew E S cfg device cfg.pooling_size) x) :=
  C17_gen_metameric_loss_uniform_history_independent (fullOpsU E S device) cfg _ (fun sub => UStatsInv sub.1)
    (fun sub h x => fullUniformStatsCore_spec E S device cfg sub h x cfg.pooling_size)
    hext (MetamericLossUniformStatsSelf.init, []) (fun p hp => by cases hp) calls hok

end GenStatsMaps
end Odak
