import OdakProofs.Lemmas.Losses
import OdakProofs.Lemmas.GenLosses

/-! # C17 – losses vanish at identity, are non-negative, and do not depend on call history -/
namespace Odak

/-! ## A. signs and zeros -/

/-- `torch.nn.MSELoss` is non-negative -/
theorem C17_mse_nonneg (a b : List ℝ) : 0 ≤ mse a b := mse_nonneg a b

/-- … and zero when image = target -/
theorem C17_mse_zero_at_identity (a : List ℝ) : mse a a = 0 := mse_self a

/-- `multiplane_loss` with non-negative weights is non-negative (any image, target, mask) -/
theorem C17_multiplane_nonneg (w0 w1 w2 : ℝ) (hw : 0 ≤ w0 ∧ 0 ≤ w1 ∧ 0 ≤ w2) (img tgt mask : List ℝ) :
    0 ≤ multiplaneLoss w0 w1 w2 img tgt mask := by
  obtain ⟨h0, h1, h2⟩ := hw
  unfold multiplaneLoss
  exact add_nonneg (add_nonneg (mul_nonneg h0 (mse_nonneg _ _)) (mul_nonneg h1 (mse_nonneg _ _)))
    (mul_nonneg h2 (mse_nonneg _ _))

/-- … and zero when image = target (any weights, any mask) -/
theorem C17_multiplane_zero_at_identity (w0 w1 w2 : ℝ) (tgt mask : List ℝ) :
    multiplaneLoss w0 w1 w2 tgt tgt mask = 0 := by
  unfold multiplaneLoss
  rw [mse_self, mse_self, mse_self]
  simp

theorem C17_wrapped_nonneg (a b : List ℝ) : 0 ≤ wrappedMse a b := by
  unfold wrappedMse
  exact div_nonneg
    (sumL_zipWith_nonneg _ (fun x y => add_nonneg (sq_nonneg' _) (sq_nonneg' _)) a b) (Nat.cast_nonneg _)

theorem C17_wrapped_zero_at_identity (a : List ℝ) : wrappedMse a a = 0 := by
  unfold wrappedMse
  rw [sumL_zipWith_self _ (fun x => by simp [num_sq])]
  exact zero_div _

/-- the wrapped phase error is 2π-periodic in the image and in the ground truth: adding any integer
    multiple of 2π to every sample of either argument leaves it unchanged -/
theorem C17_wrapped_periodic (a b : List ℝ) (j : ℤ) :
    wrappedMse (a.map (· + 2 * Real.pi * j)) b = wrappedMse a b ∧
    wrappedMse a (b.map (· + 2 * Real.pi * j)) = wrappedMse a b := by
  have hs : ∀ x : ℝ, Real.sin (x + 2 * Real.pi * j) = Real.sin x := fun x => by
    rw [mul_comm]; exact Real.sin_add_int_mul_two_pi x j
  have hc : ∀ x : ℝ, Real.cos (x + 2 * Real.pi * j) = Real.cos x := fun x => by
    rw [mul_comm]; exact Real.cos_add_int_mul_two_pi x j
  unfold wrappedMse
  constructor
  · rw [List.zipWith_map_left, List.length_map]
    simp only [num_sin, num_cos, hs, hc]
  · rw [List.zipWith_map_right]
    simp only [num_sin, num_cos, hs, hc]

/-- stronger, per-sample form: a *different* integer multiple of 2π may be added to each sample
    (`k` supplies the multiples; it must cover the image) -/
theorem C17_wrapped_periodic_pointwise (a b : List ℝ) (k : List ℤ) (hk : a.length ≤ k.length) :
    wrappedMse (List.zipWith (fun x (j : ℤ) => x + 2 * Real.pi * j) a k) b = wrappedMse a b := by
  have hs : ∀ (x : ℝ) (j : ℤ), Real.sin (x + 2 * Real.pi * j) = Real.sin x := fun x j => by
    rw [mul_comm]; exact Real.sin_add_int_mul_two_pi x j
  have hc : ∀ (x : ℝ) (j : ℤ), Real.cos (x + 2 * Real.pi * j) = Real.cos x := fun x j => by
    rw [mul_comm]; exact Real.cos_add_int_mul_two_pi x j
  unfold wrappedMse
  rw [List.length_zipWith, Nat.min_eq_left hk]
  congr 2
  induction a generalizing k b with
  | nil => simp
  | cons x xs ih =>
    cases k with
    | nil => simp at hk
    | cons j js =>
      cases b with
      | nil => simp
      | cons y ys =>
        simp only [List.zipWith_cons_cons, num_sin, num_cos, hs, hc]
        congr 1
        have := ih ys js (by simpa using hk)
        simpa only [num_sin, num_cos] using this

/-- `histogram_loss` (MSE of the bin counts) is non-negative and zero for equal histograms -/
theorem C17_histogram_nonneg_zero (c d : List ℝ) : 0 ≤ histogramLoss c d ∧ histogramLoss c c = 0 :=
  ⟨mse_nonneg c d, mse_self c⟩

/-- total variation is non-negative (any grid, even ragged) -/
theorem C17_tv_nonneg (rows : List (List ℝ)) : 0 ≤ tvLoss rows := by
  unfold tvLoss
  refine div_nonneg (add_nonneg (sumL_nonneg ?_) (sumL_zipWith_nonneg _ ?_ _ _)) (Nat.cast_nonneg _)
  · intro z hz
    obtain ⟨r, _, rfl⟩ := List.mem_map.1 hz
    exact sumL_zipWith_nonneg _ (fun x y => sq_nonneg' _) _ _
  · intro r s
    exact sumL_zipWith_nonneg _ (fun x y => sq_nonneg' _) _ _

/-- total variation of a uniform image is zero -/
theorem C17_tv_zero_of_uniform (r c : Nat) (v : ℝ) : tvLoss (List.replicate r (List.replicate c v)) = 0 := by
  have hrow : ∀ p q : Nat,
      sumL (List.zipWith (fun a b : ℝ => Num.sq (b - a)) (List.replicate p v) (List.replicate q v)) = 0 := by
    intro p q
    apply sumL_eq_zero
    intro z hz
    obtain ⟨x, hx, y, hy, rfl⟩ := exists_of_mem_zipWith _ _ _ z hz
    rw [List.eq_of_mem_replicate hx, List.eq_of_mem_replicate hy]; simp [num_sq]
  unfold tvLoss
  have h1 : sumL ((List.replicate r (List.replicate c v)).map fun r =>
      sumL (List.zipWith (fun a b : ℝ => Num.sq (b - a)) r r.tail)) = 0 := by
    apply sumL_eq_zero
    intro z hz
    obtain ⟨row, hrow', rfl⟩ := List.mem_map.1 hz
    rw [List.eq_of_mem_replicate hrow', List.tail_replicate]; exact hrow _ _
  have h2 : sumL (List.zipWith (fun r s => sumL (List.zipWith (fun a b : ℝ => Num.sq (b - a)) r s))
      (List.replicate r (List.replicate c v)) (List.replicate r (List.replicate c v)).tail) = 0 := by
    apply sumL_eq_zero
    intro z hz
    obtain ⟨x, hx, y, hy, rfl⟩ := exists_of_mem_zipWith _ _ _ z hz
    rw [List.tail_replicate] at hy
    rw [List.eq_of_mem_replicate hx, List.eq_of_mem_replicate hy]; exact hrow _ _
  simp only [h1, h2]
  simp

/-- converse, for non-empty rectangular grids: total variation vanishes exactly for uniform images -/
theorem C17_tv_zero_iff_uniform (r c : Nat) (hr : 0 < r) (hc : 0 < c) (rows : List (List ℝ))
    (hlen : rows.length = r) (hrect : ∀ row ∈ rows, row.length = c) :
    tvLoss rows = 0 ↔ ∃ v, rows = List.replicate r (List.replicate c v) := by
  constructor
  · intro h
    -- the first row is a row
    have hhead : rows.headD [] ∈ rows := by
      cases rows with
      | nil => simp at hlen; omega
      | cons x xs => simp
    have hden : ((rows.length * (rows.headD []).length : Nat) : ℝ) ≠ 0 := by
      rw [hlen, hrect _ hhead]
      exact_mod_cast (Nat.mul_pos hr hc).ne'
    unfold tvLoss at h
    simp only [num_ofNat] at h
    rcases div_eq_zero_iff.1 h with h | h
    swap
    · exact absurd h hden
    have hdx : 0 ≤ sumL (rows.map fun r => sumL (List.zipWith (fun a b : ℝ => Num.sq (b - a)) r r.tail)) := by
      apply sumL_nonneg
      intro z hz
      obtain ⟨row, _, rfl⟩ := List.mem_map.1 hz
      exact sumL_zipWith_nonneg _ (fun x y => sq_nonneg' _) _ _
    have hGn : ∀ r s : List ℝ, 0 ≤ sumL (List.zipWith (fun a b : ℝ => Num.sq (b - a)) r s) :=
      fun r s => sumL_zipWith_nonneg _ (fun x y => sq_nonneg' _) _ _
    have hdy : 0 ≤ sumL (List.zipWith (fun r s => sumL (List.zipWith (fun a b : ℝ => Num.sq (b - a)) r s))
        rows rows.tail) := sumL_zipWith_nonneg _ hGn _ _
    have hdx0 : sumL (rows.map fun r => sumL (List.zipWith (fun a b : ℝ => Num.sq (b - a)) r r.tail)) = 0 := by
      linarith
    have hdy0 : sumL (List.zipWith (fun r s => sumL (List.zipWith (fun a b : ℝ => Num.sq (b - a)) r s))
        rows rows.tail) = 0 := by linarith
    -- all rows are equal to the first one
    have hrows := eq_replicate_of_sumL_adjacent_zero
      (fun r s : List ℝ => sumL (List.zipWith (fun a b : ℝ => Num.sq (b - a)) r s)) hGn [] rows
      (fun x hx y hy hxy => eq_of_sumL_sqdiff_zero x y ((hrect x hx).trans (hrect y hy).symm) hxy) hdy0
    -- the first row is constant
    have hrow0 : sumL (List.zipWith (fun a b : ℝ => Num.sq (b - a)) (rows.headD []) (rows.headD []).tail) = 0 :=
      eq_zero_of_sumL_eq_zero
        (fun z hz => by
          obtain ⟨row, _, rfl⟩ := List.mem_map.1 hz
          exact hGn _ _) hdx0 _
        (List.mem_map.2 ⟨rows.headD [], hhead, rfl⟩)
    have hconst := eq_replicate_of_sumL_adjacent_zero (fun a b : ℝ => Num.sq (b - a))
      (fun x y => sq_nonneg' _) 0 (rows.headD [])
      (fun x _ y _ hxy => by have := sq_eq_zero'.1 hxy; linarith) hrow0
    refine ⟨(rows.headD []).headD 0, ?_⟩
    rw [hrect _ hhead] at hconst
    rw [hlen] at hrows
    rw [← hconst]
    exact hrows
  · rintro ⟨v, rfl⟩
    exact C17_tv_zero_of_uniform r c v

/-- speckle contrast of a uniform window (mean `v`, mean square `v²`) is zero.  (Over ℝ this needs no
    `v ≠ 0`; the IEEE evaluation needs it, `0/0` being NaN there.) -/
theorem C17_speckle_zero_of_uniform (v : ℝ) : speckleWindow v (v * v) = 0 := by
  simp [speckleWindow, num_sq]

/-- speckle contrast of a window with non-negative mean is non-negative (any mean square) -/
theorem C17_speckle_nonneg (mu m2 : ℝ) (hmu : 0 ≤ mu) : 0 ≤ speckleWindow mu m2 := by
  unfold speckleWindow
  exact div_nonneg (Real.sqrt_nonneg _) hmu

/-- PSNR grows strictly as the error shrinks -/
theorem C17_psnr_strictly_decreasing (peak m1 m2 : ℝ) (hp : 0 < peak) (h1 : 0 < m1) (h12 : m1 < m2) :
    psnr peak m2 < psnr peak m1 := by
  have hs1 : 0 < Real.sqrt m1 := Real.sqrt_pos.2 h1
  have hs : Real.sqrt m1 < Real.sqrt m2 := Real.sqrt_lt_sqrt h1.le h12
  have hd : peak / Real.sqrt m2 < peak / Real.sqrt m1 := div_lt_div_of_pos_left hp hs1 hs
  have hl : Real.log (peak / Real.sqrt m2) < Real.log (peak / Real.sqrt m1) :=
    Real.log_lt_log (div_pos hp (hs1.trans hs)) hd
  have h10 : 0 < Real.log 10 := Real.log_pos (by norm_num)
  unfold psnr
  simp only [num_ofNat, num_log, num_sqrt]
  have := div_lt_div_of_pos_right hl h10
  push_cast
  linarith

/-! ## B. history independence of the lazily refreshed caches -/

/-- **cache transparency**, general form: from ANY cache state that satisfies the invariant (stored value =
    `f` of stored key), for ANY sequence of keys (changing gaze, target or image size between calls, any
    order, any length) every value used equals what a fresh object computes, and the invariant persists -/
theorem C17_cache_transparent_from {K V : Type} [DecidableEq K] (f : K → V) (s : Option (K × V))
    (hs : ∀ k v, s = some (k, v) → v = f k) (ks : List K) :
    (cacheRun f s ks).2 = ks.map f ∧ (∀ k v, (cacheRun f s ks).1 = some (k, v) → v = f k) := by
  induction ks generalizing s with
  | nil => exact ⟨rfl, hs⟩
  | cons k rest ih =>
    obtain ⟨h1, h2⟩ := cacheStep_spec f s hs k
    obtain ⟨i1, i2⟩ := ih (cacheStep f s k).1 h1
    simp only [cacheRun, List.map_cons]
    exact ⟨by rw [i1, h2], i2⟩

/-- from a new object (empty cache) -/
theorem C17_cache_transparent {K V : Type} [DecidableEq K] (f : K → V) (ks : List K) :
    (cacheRun f none ks).2 = ks.map f :=
  (C17_cache_transparent_from f none (keyedInv_none f) ks).1

/-- the refresh decision is exactly "nothing stored, or the key differs from the stored key" -/
theorem C17_cache_miss_iff_key_changes {K V : Type} [DecidableEq K] (s : Option (K × V)) (k : K) :
    cacheMiss s k = true ↔ (s = none ∨ ∃ k' v, s = some (k', v) ∧ k' ≠ k) := by
  cases s with
  | none => simp [cacheMiss]
  | some p =>
    obtain ⟨k', v⟩ := p
    simp [cacheMiss]

/-- what a step stores: a miss stores `(k, f k)`, a hit leaves the cache untouched -/
theorem C17_cache_step_state {K V : Type} [DecidableEq K] (f : K → V) (s : Option (K × V)) (k : K) :
    (cacheStep f s k).1 = if cacheMiss s k = true then some (k, f k) else s := by
  cases s with
  | none => simp [cacheMiss, cacheStep]
  | some p =>
    obtain ⟨k', v⟩ := p
    by_cases h : k' = k <;> simp [cacheMiss, cacheStep, h]

/-- every name the cached computation reads is compared by the cache guard [regenerated from the
    Python source]: each shipped cache is an instance of the keyed cache above with `k` = the tuple of
    those inputs -/
theorem C17_cache_keys_cover_inputs :
    (∀ x ∈ Gen.metamericLossCacheInputs, x ∈ Gen.metamericLossCacheKey) ∧
    (∀ x ∈ Gen.metamerMseCacheInputs, x ∈ Gen.metamerMseCacheKey) ∧
    (∀ x ∈ Gen.radialBlurCacheInputs, x ∈ Gen.radialBlurCacheKey) := by
  decide

/-- why the key matters (the pre-fix behaviour): a cache keyed on the target only returns, for the second
    of two calls with the same target and different gazes, the value of the FIRST gaze – which differs
    from what a fresh object returns -/
theorem C17_target_only_key_is_history_dependent {T G V : Type} [DecidableEq T] (f : T × G → V) (t : T)
    (g₁ g₂ : G) (h : f (t, g₁) ≠ f (t, g₂)) :
    (staleRun f none [(t, g₁), (t, g₂)]).2 = [f (t, g₁), f (t, g₁)] ∧
    (staleRun f none [(t, g₁), (t, g₂)]).2 ≠ [(t, g₁), (t, g₂)].map f := by
  have e : (staleRun f none [(t, g₁), (t, g₂)]).2 = [f (t, g₁), f (t, g₁)] := by
    simp [staleRun, staleStep]
  refine ⟨e, ?_⟩
  rw [e]
  intro h'
  simp only [List.map_cons, List.map_nil, List.cons.injEq, and_true, true_and] at h'
  exact h h'

/-! ## non-vacuity -/

example : mse [1, 2] [1, 4] = (2 : ℝ) := by
  simp [mse, sumL, num_sq]; norm_num

example : cacheRun (fun x : Nat => x * 10) none [1, 1, 2, 1] = (some (1, 10), [10, 10, 20, 10]) ∧
    cacheMisses (fun x : Nat => x * 10) none [1, 1, 2, 1] = [true, false, true, true] := by
  decide

/-- the hypothesis of the refutation is satisfiable and the stale cache really returns a wrong value -/
example : (staleRun (fun p : Nat × Nat => p.1 + p.2) none [(0, 1), (0, 2)]).2 = [1, 1] ∧
    [(0, 1), (0, 2)].map (fun p : Nat × Nat => p.1 + p.2) = [1, 2] := by
  decide

example : tvLoss [[1, 2], [1, 2]] = (1 / 2 : ℝ) := by
  simp [tvLoss, sumL, num_sq]; norm_num

example : psnr 1 (1 / 100) = (20 : ℝ) := by
  have h : Real.sqrt (1 / 100) = 1 / 10 := by
    rw [show (1 / 100 : ℝ) = (1 / 10) ^ 2 by norm_num]; exact Real.sqrt_sq (by norm_num)
  have h10 : Real.log 10 ≠ 0 := (Real.log_pos (by norm_num)).ne'
  simp only [psnr, num_ofNat, num_log, num_sqrt, h]
  norm_num

/-! # C17 over the loss formulas REGENERATED from the Python source (`Generated/LossesGen.lean`)

The statements below are about `Odak.Gen.*`, rewritten from `/repo` on every run; they follow from the tie theorems of
`Lemmas/GenLosses.lean` and the theorems above. -/

open Odak.Gen in
/-- regenerated `multiplane_loss.__call__`: non-negative for non-negative weights, zero when image = target (any weights, any mask) -/
theorem C17_gen_multiplane_nonneg_zero (w0 w1 w2 : ℝ) (hw : 0 ≤ w0 ∧ 0 ≤ w1 ∧ 0 ≤ w2) (img tgt mask : List ℝ) :
    0 ≤ multiplaneLossG w0 w1 w2 img tgt mask ∧ multiplaneLossG w0 w1 w2 tgt tgt mask = 0 := by
  rw [gen_multiplaneLossG_eq, gen_multiplaneLossG_eq]
  exact ⟨C17_multiplane_nonneg w0 w1 w2 hw img tgt mask, C17_multiplane_zero_at_identity w0 w1 w2 tgt mask⟩

open Odak.Gen in
/-- regenerated `wrapped_mean_squared_error`, both reductions: non-negative and zero at identity -/
theorem C17_gen_wrapped_nonneg_zero (a b : List ℝ) (h : a.length ≤ b.length) :
    0 ≤ wrappedMseMeanG a b ∧ wrappedMseMeanG a a = 0 ∧ 0 ≤ wrappedMseSumG a b ∧ wrappedMseSumG a a = 0 := by
  rw [gen_wrappedMseMeanG_eq a b h, gen_wrappedMseMeanG_eq a a le_rfl, gen_wrappedMseSumG_eq, gen_wrappedMseSumG_eq]
  refine ⟨C17_wrapped_nonneg a b, C17_wrapped_zero_at_identity a, ?_, ?_⟩
  · exact sumL_zipWith_nonneg _ (fun x y => add_nonneg (sq_nonneg' _) (sq_nonneg' _)) a b
  · exact sumL_zipWith_self _ (fun x => by simp [wrappedTerm, num_sq]) a

open Odak.Gen in
/-- regenerated wrapped error is 2π-periodic in both arguments (both reductions) -/
theorem C17_gen_wrapped_periodic (a b : List ℝ) (h : a.length ≤ b.length) (j : ℤ) :
    wrappedMseMeanG (a.map (· + 2 * Real.pi * j)) b = wrappedMseMeanG a b ∧
    wrappedMseMeanG a (b.map (· + 2 * Real.pi * j)) = wrappedMseMeanG a b ∧
    wrappedMseSumG (a.map (· + 2 * Real.pi * j)) b = wrappedMseSumG a b ∧
    wrappedMseSumG a (b.map (· + 2 * Real.pi * j)) = wrappedMseSumG a b := by
  have hs : ∀ x : ℝ, Real.sin (x + 2 * Real.pi * j) = Real.sin x := fun x => by
    rw [mul_comm]; exact Real.sin_add_int_mul_two_pi x j
  have hc : ∀ x : ℝ, Real.cos (x + 2 * Real.pi * j) = Real.cos x := fun x => by
    rw [mul_comm]; exact Real.cos_add_int_mul_two_pi x j
  obtain ⟨p1, p2⟩ := C17_wrapped_periodic a b j
  have e1 := gen_wrappedMseMeanG_eq (a.map (· + 2 * Real.pi * j)) b (by simpa using h)
  have e2 := gen_wrappedMseMeanG_eq a (b.map (· + 2 * Real.pi * j)) (by simpa using h)
  have e3 := gen_wrappedMseMeanG_eq a b h
  rw [e1, e2, e3, gen_wrappedMseSumG_eq, gen_wrappedMseSumG_eq, gen_wrappedMseSumG_eq]
  refine ⟨p1, p2, ?_, ?_⟩
  · rw [List.zipWith_map_left]; simp only [wrappedTerm, num_sin, num_cos, hs, hc]; rfl
  · rw [List.zipWith_map_right]; simp only [wrappedTerm, num_sin, num_cos, hs, hc]; rfl

open Odak.Gen in
/-- regenerated `total_variation_loss` of a single frame: non-negative, zero on uniform images, and (non-empty rectangular frames)
    zero ONLY on uniform images -/
theorem C17_gen_tv_nonneg_zero (rows : List (List ℝ)) (r c : Nat) (v : ℝ) :
    0 ≤ totalVariationLossG rows ∧ totalVariationLossG (List.replicate r (List.replicate c v)) = 0 ∧
    (0 < r → 0 < c → rows.length = r → (∀ row ∈ rows, row.length = c) →
      (totalVariationLossG rows = 0 ↔ ∃ v, rows = List.replicate r (List.replicate c v))) := by
  rw [gen_totalVariationLossG_eq, gen_totalVariationLossG_eq]
  exact ⟨C17_tv_nonneg rows, C17_tv_zero_of_uniform r c v, fun hr hc hl hrect => C17_tv_zero_iff_uniform r c hr hc rows hl hrect⟩

open Odak.Gen in
/-- regenerated `PSNR.forward`: strictly larger for the prediction with the strictly smaller (positive) mean squared error -/
theorem C17_gen_psnr_strictly_decreasing (t p1 p2 : List ℝ) (peak : ℝ) (hp : 0 < peak) (h1 : t.length ≤ p1.length)
    (h2 : t.length ≤ p2.length) (hm1 : 0 < mse t p1) (hm : mse t p1 < mse t p2) : psnrG p2 t peak < psnrG p1 t peak := by
  rw [gen_psnrG_eq p1 t peak h1, gen_psnrG_eq p2 t peak h2]
  exact C17_psnr_strictly_decreasing peak _ _ hp hm1 hm

open Odak.Gen in
/-- regenerated `histogram_loss`: non-negative and zero when frame = ground truth -/
theorem C17_gen_histogram_nonneg_zero (f g : T4 ℝ) (bins : Nat) (lo hi : ℝ) :
    0 ≤ histogramLossG f g bins lo hi ∧ histogramLossG f f bins lo hi = 0 := by
  rw [gen_histogramLossG_eq, gen_histogramLossG_eq]
  exact ⟨(C17_histogram_nonneg_zero _ _).1, (C17_histogram_nonneg_zero _ (Tn.flat2 (histogramTableG f bins lo hi))).2⟩

open Odak.Gen in
/-- regenerated `speckle_contrast`: the contrast of a uniform window is zero, that of a window with non-negative mean is
    non-negative; the loss is non-negative and zero when every window has zero contrast (uniform image) -/
theorem C17_gen_speckle_nonneg_zero (v mu m2 : ℝ) (hmu : 0 ≤ mu) (c : List ℝ) :
    speckleWindowG v (v * v) = 0 ∧ 0 ≤ speckleWindowG mu m2 ∧ 0 ≤ speckleLossG c ∧
    ((∀ x ∈ c, x = 0) → speckleLossG c = 0) := by
  rw [gen_speckleWindowG_eq, gen_speckleWindowG_eq, gen_speckleLossG_eq]
  exact ⟨C17_speckle_zero_of_uniform v, C17_speckle_nonneg mu m2 hmu, mse_nonneg _ _, mse_zeros_eq_zero_of_all_zero c⟩

open Odak.Gen in
/-- regenerated `phase_gradient`: the Laplacian response to a uniform 3 × 3 window is zero; the loss is non-negative and zero
    when every response is zero (uniform phase) -/
theorem C17_gen_phase_gradient_nonneg_zero (v : ℝ) (e : List ℝ) :
    phaseGradientWindowG [[v, v, v], [v, v, v], [v, v, v]] = 0 ∧ 0 ≤ phaseGradientLossG e ∧
    ((∀ x ∈ e, x = 0) → phaseGradientLossG e = 0) := by
  rw [gen_phaseGradientLossG_eq]
  exact ⟨gen_phaseGradientWindowG_uniform v, mse_nonneg _ _, mse_zeros_eq_zero_of_all_zero e⟩

/-- non-vacuity: the regenerated total variation and wrapped error take non-zero values -/
example : Gen.totalVariationLossG [[1, 2], [1, 2]] = (1 / 2 : ℝ) := by
  rw [gen_totalVariationLossG_eq]; simp [tvLoss, sumL, num_sq]; norm_num

example : Gen.multiplaneLossG 1 2 3 [1, 2] [1, 4] [1, 0] = (2 + 0 + 3 * 32 : ℝ) := by
  rw [gen_multiplaneLossG_eq]; simp [multiplaneLoss, mse, sumL, num_sq]; norm_num

open Odak.Gen in
/-- regenerated `total_variation_loss` of a batched multi-channel `[N, C, H, W]` frame and regenerated
    `multi_scale_total_variation_loss` (any number of levels): non-negative, zero on uniform frames -/
theorem C17_gen_tv4_multiscale_nonneg_zero (frame : T4 ℝ) (levels n c h w : Nat) (v : ℝ) :
    0 ≤ totalVariationLoss4G frame ∧ totalVariationLoss4G (uniform4 n c h w v) = 0 ∧
    0 ≤ multiScaleTotalVariationLossG frame levels ∧ multiScaleTotalVariationLossG (uniform4 n c h w v) levels = 0 := by
  rw [gen_totalVariationLoss4G_eq, gen_totalVariationLoss4G_eq, gen_multiScaleTotalVariationLossG_eq,
    gen_multiScaleTotalVariationLossG_eq]
  exact ⟨tvLoss4_nonneg frame, tvLoss4_uniform n c h w v, multiScaleTv_nonneg levels frame, multiScaleTv_uniform levels n c h w v⟩

open Odak.Gen in
/-- regenerated `weber_contrast` / `michelson_contrast` of a single image: zero when both regions have the same mean (uniform
    image), non-negative when the bright region is at least as bright as the (positive) dark one -/
theorem C17_gen_contrast_zero_nonneg (img : T2 ℝ) (h0 h1 h2 h3 l0 l1 l2 l3 : Nat) :
    (regionMean img h0 h1 h2 h3 = regionMean img l0 l1 l2 l3 →
      weberContrastG img h0 h1 h2 h3 l0 l1 l2 l3 = [0] ∧ michelsonContrastG img h0 h1 h2 h3 l0 l1 l2 l3 = [0]) ∧
    (0 < regionMean img l0 l1 l2 l3 → regionMean img l0 l1 l2 l3 ≤ regionMean img h0 h1 h2 h3 →
      ∃ a b : ℝ, weberContrastG img h0 h1 h2 h3 l0 l1 l2 l3 = [a] ∧ michelsonContrastG img h0 h1 h2 h3 l0 l1 l2 l3 = [b] ∧
        0 ≤ a ∧ 0 ≤ b) := by
  rw [gen_weberContrastG_eq, gen_michelsonContrastG_eq]
  constructor
  · intro e
    rw [e]
    obtain ⟨z1, z2, _, _⟩ := contrast_zero_nonneg (regionMean img l0 l1 l2 l3) 1 1 one_pos le_rfl
    rw [z1, z2]; exact ⟨rfl, rfl⟩
  · intro hl hh
    obtain ⟨_, _, n1, n2⟩ := contrast_zero_nonneg 0 _ _ hl hh
    exact ⟨_, _, rfl, rfl, n1, n2⟩

open Odak.Gen in
/-- regenerated `radial_basis_function`: values in `(0, 1]`, 1 at 0 -/
theorem C17_gen_radial_basis_range (value epsilon : ℝ) :
    0 < radialBasisG value epsilon ∧ radialBasisG value epsilon ≤ 1 ∧ radialBasisG 0 epsilon = 1 := by
  rw [gen_radialBasisG_eq, gen_radialBasisG_eq]; exact radialBasis_range value epsilon

end Odak
