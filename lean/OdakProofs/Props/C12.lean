import OdakModel.Generated.Loops
import OdakProofs.Lemmas.GenGeometry
import OdakModel.Parametric
import OdakProofs.Lemmas.SphereSearch
import OdakProofs.Lemmas.GenCylinder
import OdakProofs.Lemmas.Geometry
import Mathlib.Analysis.SpecificLimits.Basic

/-! # C12 – termination and flagging of the refraction loop, counter-capped loops
  `refrLoop a b err fuel it t eps` is the model of `while eps > error: …` with fuel;
  `refrIter a b k` is the `k`-th Newton iterate from the code's start value `-b/(2a)`;
  `D = a² - b` is the discriminant (negative ⇔ total internal reflection). -/
namespace Odak

/-- without total internal reflection every Newton step is at most half as long as the previous one -/
theorem C12_newton_step_halves (a b : ℝ) (hD : 0 ≤ a ^ 2 - b) (ha : a ≠ 0) (k : Nat) :
    |refrIter a b (k + 2) - refrIter a b (k + 1)| ≤ |refrIter a b (k + 1) - refrIter a b k| / 2 ∧
    |refrIter a b (k + 1) - refrIter a b k| ≤ |refrIter a b 1 - refrIter a b 0| / 2 ^ k :=
  ⟨refrIter_step_halves hD ha k, refrIter_step_bound hD ha k⟩

/-- explicit iteration bound: if `δ₀ / 2^N ≤ err` (δ₀ the first step length) the loop exits normally
    after at most `N + 1` passes whenever it is given at least that much fuel, returning the iterate
    `t_{j+1}` at the first `j` whose step `|t_j - t_{j+1}|` is within `err` -/
theorem C12_newton_iteration_bound (a b err : ℝ) (hD : 0 ≤ a ^ 2 - b) (ha : a ≠ 0) (herr : 0 < err)
    (N : Nat) (hN : |refrIter a b 0 - refrIter a b 1| / 2 ^ N ≤ err) (fuel : Nat) (hf : N + 1 ≤ fuel) :
    ∃ j, j ≤ N ∧ |refrIter a b j - refrIter a b (j + 1)| ≤ err ∧
      refrLoop a b err fuel 0 (refrStart a b) (err * Num.two) = .ok (refrIter a b (j + 1)) (j + 1) := by
  have hstep : |refrIter a b N - refrIter a b (N + 1)| ≤ err := by
    rw [abs_sub_comm]
    refine (refrIter_step_bound hD ha N).trans ?_
    rw [abs_sub_comm]; exact hN
  have he : err < err * Num.two := by rw [num_two]; linarith
  obtain ⟨j, hj, hjs, hres⟩ := refrLoop_ok a b err N fuel 0 (refrStart a b) (err * Num.two) hf hstep he
  refine ⟨j, hj, hjs, ?_⟩
  rw [hres, Nat.zero_add]; rfl

/-- the Newton loop terminates: for `0 ≤ a² - b`, `a ≠ 0`, `0 < err` there is a number of passes `N + 1`
    such that with any fuel `≥ N + 1` the loop returns normally within `N + 1` iterations -/
theorem C12_newton_terminates (a b err : ℝ) (hD : 0 ≤ a ^ 2 - b) (ha : a ≠ 0) (herr : 0 < err) :
    ∃ N : Nat, ∀ fuel, N + 1 ≤ fuel → ∃ t it, it ≤ N + 1 ∧
      refrLoop a b err fuel 0 (refrStart a b) (err * Num.two) = .ok t it := by
  obtain ⟨N, hN⟩ := pow_unbounded_of_one_lt (|refrIter a b 0 - refrIter a b 1| / err) (one_lt_two (α := ℝ))
  refine ⟨N, fun fuel hf => ?_⟩
  have hN' : |refrIter a b 0 - refrIter a b 1| / 2 ^ N ≤ err := by
    rw [div_lt_iff₀ herr] at hN
    rw [div_le_iff₀ (by positivity)]; linarith
  obtain ⟨j, hj, _, hres⟩ := C12_newton_iteration_bound a b err hD ha herr N hN' fuel hf
  exact ⟨_, _, by omega, hres⟩

/-- the same for the model's `refractTau` (no TIR, non-zero `a`): never `.tir`, never `.noConvergence`
    once the fuel suffices -/
theorem C12_refract_terminates (mu err : ℝ) (d n : Vec3 ℝ)
    (hD : 0 ≤ (refrA mu d n) ^ 2 - refrB mu n) (ha : refrA mu d n ≠ 0) (herr : 0 < err) :
    ∃ N : Nat, ∀ fuel, N + 1 ≤ fuel → ∃ t it, it ≤ N + 1 ∧ refractTau mu err d n fuel = .ok t it := by
  obtain ⟨N, h⟩ := C12_newton_terminates _ _ err hD ha herr
  refine ⟨N, fun fuel hf => ?_⟩
  have hno : ¬ (Num.sq (refrA mu d n) - refrB mu n < 0) := by
    rw [num_sq, ← pow_two]; exact not_lt.mpr hD
  simp only [refractTau, if_neg hno]
  exact h fuel hf

/-- total internal reflection (`a² - b < 0`) is flagged before the loop, for every fuel -/
theorem C12_tir_flagged (mu err : ℝ) (d n : Vec3 ℝ) (fuel : Nat)
    (hD : (refrA mu d n) ^ 2 - refrB mu n < 0) :
    refractTau mu err d n fuel = .tir := by
  have hD' : Num.sq (refrA mu d n) - refrB mu n < 0 := by rw [num_sq, ← pow_two]; exact hD
  simp only [refractTau, if_pos hD']

/-- …and has to be: for `a² - b < 0` every Newton step is at least `√(b - a²)` long, so the
    un-flagged loop could never exit for `err < √(b - a²)` -/
theorem C12_tir_would_not_terminate (a b t : ℝ) (_hD : a ^ 2 - b < 0) (hs : t + a ≠ 0) :
    Real.sqrt (b - a ^ 2) ≤ |refrStep a b t - t| := by
  rw [Real.sqrt_le_left (abs_nonneg _), sq_abs, refrStep_sub, newtonStep_sub, div_pow,
    le_div_iff₀ (by positivity)]
  nlinarith [sq_nonneg ((t + a) ^ 2 - (b - a ^ 2))]

/-- a loop with a counter cap `limit` (give up when `counter > limit`) always returns and executes its
    body at most `limit + 1 - counter` times (`limit + 1` from a zero counter); a regular exit returns a
    state satisfying `done`, namely the body iterated that many times -/
theorem C12_capped_loop_bounded {σ : Type} (limit : Nat) (body : σ → σ) (done : σ → Bool)
    (counter : Nat) (s : σ) :
    (cappedLoop limit body done counter s).2 ≤ limit + 1 - counter ∧
    (cappedLoop limit body done 0 s).2 ≤ limit + 1 ∧
    ∀ s', (cappedLoop limit body done counter s).1 = some s' →
      done s' = true ∧ s' = body^[(cappedLoop limit body done counter s).2] s := by
  have main : ∀ (m counter : Nat) (s : σ), limit + 1 - counter = m →
      (cappedLoop limit body done counter s).2 ≤ m ∧
      ∀ s', (cappedLoop limit body done counter s).1 = some s' →
        done s' = true ∧ s' = body^[(cappedLoop limit body done counter s).2] s := by
    intro m
    induction m with
    | zero =>
      intro c s hm
      rw [cappedLoop]
      by_cases hd : done s = true
      · simp [hd]
      · have hl : limit < c := by omega
        simp [hd, hl]
    | succ m ih =>
      intro c s hm
      rw [cappedLoop]
      by_cases hd : done s = true
      · simp [hd]
      · by_cases hl : limit < c
        · simp [hd, hl]
        · obtain ⟨h1, h2⟩ := ih (c + 1) (body s) (by omega)
          simp only [hd, hl, if_false, Bool.false_eq_true]
          refine ⟨by omega, fun s' hs' => ?_⟩
          obtain ⟨g1, g2⟩ := h2 s' hs'
          exact ⟨g1, by rw [Function.iterate_succ_apply]; exact g2⟩
  exact ⟨(main _ counter s rfl).1, (main _ 0 s rfl).1, (main _ counter s rfl).2⟩

/-- non-vacuity of the termination hypotheses (`a = 1/2`, `b = -3/4`: `a² - b = 1`) and of the TIR
    guard (`a = 0`, `b = 1`: grazing incidence from the dense side) -/
example : (0 : ℝ) ≤ (1 / 2 : ℝ) ^ 2 - (-3 / 4) ∧ (1 / 2 : ℝ) ≠ 0 ∧ ((0 : ℝ) ^ 2 - 1 < 0) := by norm_num

/-- non-vacuity: a capped loop that never finishes hits the cap after exactly `limit + 1` bodies -/
example : cappedLoop 3 (fun n : Nat => n + 1) (fun _ => false) 0 0 = (none, 4) := by
  simp [cappedLoop]

end Odak

namespace Odak
open Odak.Gen in
/-- [regenerated table of every `while` loop under odak/] every loop in a raytracing routine either
    increments a counter that is compared with a limit on an exit path (then `C12_capped_loop_bounded`
    bounds it) or is the refraction root finder, which flags the unsolvable case before the loop
    (`C12_tir_flagged`) and terminates otherwise (`C12_refract_terminates`). -/
theorem C12_every_raytracing_while_capped_or_proved :
    ∀ l ∈ whileLoops, (l.file.startsWith "odak/raytracing" || l.file.startsWith "odak/learn/raytracing") = true →
      l.capped = true ∨ (l.fn = "refract" ∧ refractFlagsTir = true) := by
  decide +kernel
end Odak

/-! ## The refraction root finder over the definitions REGENERATED from the Python source
  (`Generated/GeometryGen.lean`, tied to the model by `Lemmas/GenGeometry.lean`) -/
namespace Odak
open Odak.Gen

/-- the generated flag test of `refract` is exactly the model's total-internal-reflection test, evaluated on the generated
    `a` and `b`: when it fires the model returns `.tir` for every fuel; the value stored is NaN -/
theorem C12_gen_tir_flagged (mu err : ℝ) (v n : Ray ℝ) (fuel : Nat) :
    (refrTirT (refrA_T mu v n) (refrB_T mu n) = true ↔ (refrA mu v.d n.d) ^ 2 - refrB mu n.d < 0) ∧
    (refrTirT (refrA_T mu v n) (refrB_T mu n) = true → refractTau mu err v.d n.d fuel = .tir) := by
  have h : refrTirT (refrA_T mu v n) (refrB_T mu n) = true ↔ (refrA mu v.d n.d) ^ 2 - refrB mu n.d < 0 := by
    rw [refrTirT_eq, refrA_T_eq, refrB_T_eq, decide_eq_true_eq, num_sq, ← pow_two]
  exact ⟨h, fun hf => C12_tir_flagged mu err v.d n.d fuel (h.mp hf)⟩

/-- …and without the flag the generated loop body could not exit: every new `eps` is at least `√(b - a²)` -/
theorem C12_gen_tir_would_not_terminate (a b t : ℝ) (hD : a ^ 2 - b < 0) (hs : t + a ≠ 0) :
    Real.sqrt (b - a ^ 2) ≤ refrEpsT a b t := by
  rw [refrEpsT_eq, num_abs, abs_sub_comm]
  exact C12_tir_would_not_terminate a b t hD hs

/-- the iterates of the generated loop body from the generated start value are the model's Newton iterates; without total
    internal reflection each generated `eps` is at most half the previous one -/
theorem C12_gen_newton_step_halves (a b : ℝ) (hD : 0 ≤ a ^ 2 - b) (ha : a ≠ 0) (k : Nat) :
    (refrStepT a b)^[k] (refrStartT a b) = refrIter a b k ∧
    refrEpsT a b (refrIter a b (k + 1)) ≤ refrEpsT a b (refrIter a b k) / 2 ∧
    refrEps0T (1 : ℝ) = 2 := by
  have hf : refrStepT a b = refrStep a b := funext (refrStepT_eq a b)
  refine ⟨by rw [hf, refrStartT_eq]; rfl, ?_, by rw [refrEps0T_eq]; simp⟩
  rw [refrEpsT_eq, refrEpsT_eq, num_abs, num_abs, ← refrIter_succ, ← refrIter_succ, abs_sub_comm,
    abs_sub_comm (refrIter a b k)]
  exact refrIter_step_halves hD ha k

end Odak

/-! ## NumPy `intersect_parametric` (secant iteration of `intersect_w_sphere` / `intersect_w_cylinder`)
  Model: `OdakModel/Parametric.lean` – the loop by hand, its body, guard, start values and defaults regenerated.
  The statements that do not mention ℝ hold for EVERY scalar instance (also for the `Float` the driver runs). -/
namespace Odak
open Odak.Gen

section anyScalar
variable {α : Type} [Num α]

/-- after one pass both entries of `error` are the surface function at the returned `point` -/
theorem secantPass_error (f : Vec3 α → α) (ray : Ray α) (s : SecantState α) :
    (secantPass f ray s).1.e1 = f (secantPass f ray s).2 ∧ (secantPass f ray s).1.e0 = f (secantPass f ray s).2 :=
  ⟨rfl, rfl⟩

theorem paramLoop_spec (f : Vec3 α → α) (ray : Ray α) (target : α) (limit : Nat) :
    ∀ (m iter : Nat) (s : SecantState α), limit + 1 - iter = m → iter ≤ limit →
      iter < (paramLoop f ray target limit iter s).iters ∧
      (paramLoop f ray target limit iter s).iters ≤ limit + 1 ∧
      (∀ dist pt k, paramLoop f ray target limit iter s = .hit dist pt k →
        k ≤ limit ∧ parametricGuardN (f pt) (f pt) target = false ∧ Num.isNaN (Vec3.compSum pt) = false ∧
        ∃ s0 : SecantState α, (secantPass f ray s0).2 = pt ∧ (secantPass f ray s0).1.d1 = dist) ∧
      (∀ k, paramLoop f ray target limit iter s = .miss .limit k → k = limit + 1) ∧
      (∀ k, paramLoop f ray target limit iter s = .miss .nan k →
        k ≤ limit ∧ ∃ s0 : SecantState α, Num.isNaN (Vec3.compSum (secantPass f ray s0).2) = true) ∧
      paramLoop f ray target limit iter s ≠ .unbound := by
  intro m
  induction m with
  | zero => intro iter s hm hi; omega
  | succ m ih =>
    intro iter s hm hi
    rw [paramLoop]
    by_cases h1 : limit < iter + 1
    · have : iter = limit := by omega
      subst this
      simp [h1, ParamResult.iters]
    · by_cases h2 : Num.isNaN (Vec3.compSum (secantPass f ray s).2) = true
      · rw [if_neg h1, if_pos h2]
        simp only [ParamResult.iters]
        refine ⟨by omega, by omega, by simp, by simp, ?_, by simp⟩
        intro k hk
        simp only [ParamResult.miss.injEq, true_and] at hk
        exact ⟨by omega, s, h2⟩
      · by_cases h3 : parametricGuardN (secantPass f ray s).1.e0 (secantPass f ray s).1.e1 target = true
        · rw [if_neg h1, if_neg h2, if_pos h3]
          obtain ⟨a, b, c, d, e, g⟩ := ih (iter + 1) (secantPass f ray s).1 (by omega) (by omega)
          exact ⟨by omega, b, c, d, e, g⟩
        · rw [if_neg h1, if_neg h2, if_neg h3]
          simp only [ParamResult.iters]
          refine ⟨by omega, by omega, ?_, by simp, by simp, by simp⟩
          intro dist pt k hk
          simp only [ParamResult.hit.injEq] at hk
          obtain ⟨hd, hp, hk⟩ := hk
          subst hp
          refine ⟨by omega, ?_, by simpa using h2, s, rfl, hd⟩
          rw [(secantPass_error f ray s).1, (secantPass_error f ray s).2] at h3
          simpa using h3

/-- (1) for every surface function, every ray, every tolerance and every limit the model returns after at most `limit + 1`
    passes of the loop body -/
theorem C12_parametric_bounded (f : Vec3 α → α) (ray : Ray α) (target : α) (limit : Nat) :
    (intersectParametricWith f ray target limit).iters ≤ limit + 1 := by
  unfold intersectParametricWith
  split_ifs
  · exact (paramLoop_spec f ray target limit _ 0 secantInit rfl (Nat.zero_le _)).2.1
  · simp [ParamResult.iters]

/-- (2) what a hit guarantees, exactly: it was reached within the limit; the loop guard is false for the surface function at
    the returned POINT; that point is not NaN; and the point and the returned distance come out of the same pass of the body –
    the point is where the kernel evaluated (the previous `distance[1]`), the distance is the secant update of that pass -/
theorem C12_parametric_hit (f : Vec3 α → α) (ray : Ray α) (target : α) (limit : Nat) (dist : α) (pt : Vec3 α) (k : Nat)
    (h : intersectParametricWith f ray target limit = .hit dist pt k) :
    1 ≤ k ∧ k ≤ limit ∧ parametricGuardN (f pt) (f pt) target = false ∧ Num.isNaN (Vec3.compSum pt) = false ∧
    ∃ s0 : SecantState α, (secantPass f ray s0).2 = pt ∧ (secantPass f ray s0).1.d1 = dist := by
  unfold intersectParametricWith at h
  split_ifs at h
  obtain ⟨a, _, c, _⟩ := paramLoop_spec f ray target limit _ 0 secantInit rfl (Nat.zero_le _)
  obtain ⟨c1, c2, c3, c4⟩ := c dist pt k h
  rw [h] at a
  exact ⟨a, c1, c2, c3, c4⟩

/-- (3) when the limit is reached (`limit + 1` passes) the result is the miss value `(False, False)`, never the last
    iterate; a hit or a NaN exit happens within `limit` passes; the limit exit happens after exactly `limit + 1` -/
theorem C12_parametric_limit_is_miss (f : Vec3 α → α) (ray : Ray α) (target : α) (limit : Nat) :
    ((intersectParametricWith f ray target limit).iters = limit + 1 →
      intersectParametricWith f ray target limit = .miss .limit (limit + 1)) ∧
    (∀ k, intersectParametricWith f ray target limit = .miss .limit k → k = limit + 1) ∧
    (∀ k, intersectParametricWith f ray target limit = .miss .nan k → k ≤ limit) ∧
    (∀ dist pt k, intersectParametricWith f ray target limit = .hit dist pt k → k ≤ limit) := by
  unfold intersectParametricWith
  split_ifs
  · obtain ⟨a, b, c, d, e, g⟩ := paramLoop_spec f ray target limit _ 0 secantInit rfl (Nat.zero_le _)
    refine ⟨?_, d, fun k hk => (e k hk).1, fun dist pt k hk => (c dist pt k hk).1⟩
    intro hit
    cases hr : paramLoop f ray target limit 0 secantInit with
    | hit dist pt k => have := (c dist pt k hr).1; rw [hr] at hit; simp [ParamResult.iters] at hit; omega
    | miss why k =>
      cases why with
      | limit => rw [d k hr]
      | nan => have := (e k hr).1; rw [hr] at hit; simp [ParamResult.iters] at hit; omega
    | unbound => exact absurd hr g
  · simp [ParamResult.iters]

end anyScalar

/-- (2) over ℝ: at a hit the residual of the surface function at the returned point is at most the tolerance; the point
    lies on the ray at some parameter `dprev`; the returned distance is NOT `dprev` but the absolute value of the secant
    update made in the same pass, `|dprev - f(pt) (dprev - d0)/(f(pt) - e0)|` -/
theorem C12_parametric_hit_residual (f : Vec3 ℝ → ℝ) (ray : Ray ℝ) (target : ℝ) (limit : Nat) (dist : ℝ) (pt : Vec3 ℝ) (k : Nat)
    (h : intersectParametricWith f ray target limit = .hit dist pt k) :
    |f pt| ≤ target ∧ k ≤ limit ∧
    ∃ d0 dprev e0 : ℝ, pt = ray.o + Vec3.smul dprev ray.d ∧ dist = |dprev - f pt * (dprev - d0) / (f pt - e0)| := by
  obtain ⟨_, hk, hg, _, s0, hp, hd⟩ := C12_parametric_hit f ray target limit dist pt k h
  refine ⟨?_, hk, s0.d0, s0.d1, s0.e0, ?_, ?_⟩
  · rw [parametricGuardN_eq] at hg
    simpa using hg
  · rw [← hp]; simp only [secantPass, kernelParametricN_eq]
  · rw [← hd, ← hp]; simp only [secantPass, kernelParametricN_eq, secantUpdateN_eq]

/-- over ℝ the NaN exit is never taken, and the guard is false on entry (Python: unbound `point`) iff `100 ≤ target` -/
theorem C12_parametric_real_exits (f : Vec3 ℝ → ℝ) (ray : Ray ℝ) (target : ℝ) (limit : Nat) :
    (∀ k, intersectParametricWith f ray target limit ≠ .miss .nan k) ∧
    (intersectParametricWith f ray target limit = .unbound ↔ 100 ≤ target) := by
  have hinit : parametricGuardN (secantInit (α := ℝ)).e0 (secantInit (α := ℝ)).e1 target = decide (target < 100) := by
    rw [parametricGuardN_eq]
    simp only [secantInit, parametricInitN_eq]
    norm_num
  constructor
  · intro k hk
    unfold intersectParametricWith at hk
    split_ifs at hk
    obtain ⟨_, s0, hs⟩ := (paramLoop_spec f ray target limit _ 0 secantInit rfl (Nat.zero_le _)).2.2.2.2.1 k hk
    rw [isNaN_real] at hs
    exact Bool.false_ne_true hs
  · unfold intersectParametricWith
    rw [hinit]
    by_cases ht : target < 100
    · simp only [ht, decide_true, if_true]
      constructor
      · intro h; exact absurd h (paramLoop_spec f ray target limit _ 0 secantInit rfl (Nat.zero_le _)).2.2.2.2.2
      · intro h; linarith
    · simp only [ht, decide_false, Bool.false_eq_true, if_false, true_iff]
      linarith

/-- [regenerated control structure of `intersect_parametric`] the loop modelled by `paramLoop` is the loop of the source:
    guard on `error[1]`; kernel at `distance[1]` overwriting `error[1]`; secant update of both lists; counter; limit exit
    with `(False, False)`; NaN exit with `(False, False)`; after the loop the normal at `point` and `distance[1]`;
    and the defaults are those the model uses -/
theorem C12_gen_parametric_loop_shape :
    parametricLoopShape = [
      "while np.abs(np.max(np.asarray(error[1]))) > target_error",
      "error[1], point = intersection_kernel_for_parametric_surfaces(distance[1], ray, parametric_surface, surface_function)",
      "distance, error = propagate_parametric_intersection_error(distance, error)",
      "iter_no += 1",
      "if iter_no > iter_no_limit: return (False, False)",
      "if np.isnan(np.sum(point)): return (False, False)",
      "after: normal = surface_normal_function(point, parametric_surface)",
      "after: return (distance[1], normal)"] ∧
    parametricIterLimitN = 100000 ∧ (parametricTargetErrorN : ℝ) = 1 / 100000000 :=
  ⟨by decide, rfl, parametricTargetErrorN_eq⟩

/-- with the defaults of the source: at most 100001 passes, and a hit has residual at most `1e-8` at the returned point -/
theorem C12_parametric_defaults (f : Vec3 ℝ → ℝ) (ray : Ray ℝ) :
    (intersectParametric f ray).iters ≤ 100001 ∧
    ∀ dist pt k, intersectParametric f ray = .hit dist pt k → |f pt| ≤ 1 / 100000000 := by
  unfold intersectParametric
  refine ⟨C12_parametric_bounded f ray _ _, fun dist pt k h => ?_⟩
  rw [← parametricTargetErrorN_eq]
  exact (C12_parametric_hit_residual f ray _ _ dist pt k h).1

end Odak

/-! ## torch `intersect_w_sphere` (`odak/learn/raytracing/boundary.py`): a FIXED number of optimiser steps on the distance
  Model: `OdakModel/SphereSearch.lean` (loop, gradient, AdamW by hand; residual `test`, loss, flag test, returned ray, start value,
  defaults, optimiser call and control structure REGENERATED: `Generated/SphereSearch.lean`).
  What the source does, as the regenerated text shows: the residual is `| |p - c|² - r² |` (squared distances, not `| |p - c| - r |`);
  `test` is computed before `optimizer.step()` in each pass, so `check = test < error_threshold` is about the distance BEFORE the last
  update while the returned distance / point are AFTER it; the optimiser is AdamW (not plain gradient descent); with
  `number_of_steps = 0` the function raises (`test` unbound). -/
namespace Odak
open Odak.Gen

/-- the loop terminates after exactly `number_of_steps` optimiser updates - for every input, every scalar instance (hence also
    the `Float` run of the driver) and every optimiser: the model's step counter is `steps`; `steps = 0` is the `unbound` outcome -/
theorem C12_sphere_search_steps {α σ : Type} [Num α] (optStep : σ → α → α → σ × α) (init : σ) (ray : Ray α) (c0 c1 c2 r thr : α) (steps : Nat) :
    (sphereSearchWith optStep init ray c0 c1 c2 r thr steps).steps = steps ∧
    (sphereSearchRun optStep ray c0 c1 c2 r steps (sphereSearchInit init)).steps = steps ∧
    (steps = 0 → sphereSearchWith optStep init ray c0 c1 c2 r thr steps = .unbound) ∧
    (0 < steps → ∃ chk d hit, sphereSearchWith optStep init ray c0 c1 c2 r thr steps = .done chk d hit steps) := by
  have hrun : (sphereSearchRun optStep ray c0 c1 c2 r steps (sphereSearchInit init)).steps = steps := by
    rw [sphereSearchRun_steps]; simp [sphereSearchInit]
  cases steps with
  | zero => exact ⟨rfl, hrun, fun _ => rfl, fun h => absurd h (by omega)⟩
  | succ n =>
    refine ⟨?_, hrun, fun h => absurd h (by omega), fun _ => ?_⟩
    · rw [sphereSearchWith_succ]; rfl
    · exact ⟨_, _, _, sphereSearchWith_succ optStep ray c0 c1 c2 r init thr n⟩

/-- the returned flag is true iff the residual `test` at the distance reached after `steps - 1` updates is below
    `error_threshold`; the returned distance and ray are those after `steps` updates (every scalar instance, every optimiser) -/
theorem C12_sphere_search_flag {α σ : Type} [Num α] (optStep : σ → α → α → σ × α) (init : σ) (ray : Ray α) (c0 c1 c2 r thr : α) (n : Nat)
    (chk : Bool) (d : α) (hit : Ray α) (k : Nat)
    (h : sphereSearchWith optStep init ray c0 c1 c2 r thr (n + 1) = .done chk d hit k) :
    (chk = true ↔ sphereResidualT ray c0 c1 c2 r (sphereSearchRun optStep ray c0 c1 c2 r n (sphereSearchInit init)).dist < thr) ∧
    d = (sphereSearchRun optStep ray c0 c1 c2 r (n + 1) (sphereSearchInit init)).dist ∧
    hit = sphereHitRayT ray c0 c1 c2 r d ∧ k = n + 1 := by
  rw [sphereSearchWith_succ] at h
  injection h with h1 h2 h3 h4
  subst h1 h2 h3 h4
  exact ⟨by simp, rfl, rfl, rfl⟩

/-- over ℝ the residual is `| |p - c|² - r² |` at `p = o + t d`, which is `| |p - c| - r | · (|p - c| + r)` for a radius `r ≥ 0`:
    the flag tests the distance defect of the point from the sphere WEIGHTED by `|p - c| + r` -/
theorem C12_sphere_residual (ray : Ray ℝ) (c0 c1 c2 r t : ℝ) (hr : 0 ≤ r) :
    sphereResidualT ray c0 c1 c2 r t =
      |Vec3.normSq ((propagateRayT ray t).o - ⟨c0, c1, c2⟩) - r * r| ∧
    sphereResidualT ray c0 c1 c2 r t =
      |Vec3.norm ((propagateRayT ray t).o - ⟨c0, c1, c2⟩) - r| * (Vec3.norm ((propagateRayT ray t).o - ⟨c0, c1, c2⟩) + r) := by
  have e1 : sphereResidualT ray c0 c1 c2 r t = |Vec3.normSq ((propagateRayT ray t).o - ⟨c0, c1, c2⟩) - r * r| := by
    simp only [sphereResidualT, propagateRayT, num_abs, Vec3.normSq, Vec3.dot, Vec3.sub_def, Vec3.sub]
  refine ⟨e1, ?_⟩
  rw [e1]
  have hn : 0 ≤ Vec3.normSq ((propagateRayT ray t).o - ⟨c0, c1, c2⟩) := by
    simp only [Vec3.normSq, Vec3.dot]
    nlinarith [mul_self_nonneg ((propagateRayT ray t).o - ⟨c0, c1, c2⟩ : Vec3 ℝ).x, mul_self_nonneg ((propagateRayT ray t).o - ⟨c0, c1, c2⟩ : Vec3 ℝ).y,
      mul_self_nonneg ((propagateRayT ray t).o - ⟨c0, c1, c2⟩ : Vec3 ℝ).z]
  have hs : Vec3.norm ((propagateRayT ray t).o - ⟨c0, c1, c2⟩) * Vec3.norm ((propagateRayT ray t).o - ⟨c0, c1, c2⟩) =
      Vec3.normSq ((propagateRayT ray t).o - ⟨c0, c1, c2⟩) := by
    simp only [Vec3.norm, num_sqrt]
    exact Real.mul_self_sqrt hn
  rw [← hs]
  exact abs_sq_sub_sq _ r (by simp only [Vec3.norm, num_sqrt]; exact Real.sqrt_nonneg _) hr

/-- a miss is flagged false whenever the residual stays at or above the threshold along the whole ray - whatever the optimiser
    does and however many steps are made -/
theorem C12_sphere_search_miss_flagged_false {σ : Type} (optStep : σ → ℝ → ℝ → σ × ℝ) (init : σ) (ray : Ray ℝ) (c0 c1 c2 r thr : ℝ) (n : Nat)
    (hmiss : ∀ t, thr ≤ sphereResidualT ray c0 c1 c2 r t) :
    ∃ d hit, sphereSearchWith optStep init ray c0 c1 c2 r thr (n + 1) = .done false d hit (n + 1) := by
  rw [sphereSearchWith_succ]
  have hf : decide (sphereResidualT ray c0 c1 c2 r (sphereSearchRun optStep ray c0 c1 c2 r n (sphereSearchInit init)).dist < thr) = false := by
    simp only [decide_eq_false_iff_not, not_lt]
    exact hmiss _
  rw [hf]
  exact ⟨_, _, rfl⟩

/-- a sufficient geometric condition: a ray (direction `d ≠ 0`, not necessarily unit) whose line keeps a squared distance of at
    least `r² + threshold` from the centre (`|w|²|d|² - (w·d)² ≥ (r² + threshold)|d|²`, `w = o - c`) is flagged false -/
theorem C12_sphere_search_line_misses {σ : Type} (optStep : σ → ℝ → ℝ → σ × ℝ) (init : σ) (ray : Ray ℝ) (c0 c1 c2 r thr : ℝ) (n : Nat)
    (hd : 0 < Vec3.normSq ray.d)
    (hmargin : (r * r + thr) * Vec3.normSq ray.d ≤
      Vec3.normSq (ray.o - ⟨c0, c1, c2⟩) * Vec3.normSq ray.d - Vec3.dot (ray.o - ⟨c0, c1, c2⟩) ray.d * Vec3.dot (ray.o - ⟨c0, c1, c2⟩) ray.d) :
    ∃ d hit, sphereSearchWith optStep init ray c0 c1 c2 r thr (n + 1) = .done false d hit (n + 1) := by
  apply C12_sphere_search_miss_flagged_false
  intro t
  rw [sphereResidualT_real]
  exact le_trans (sphereQ_lower ray c0 c1 c2 r thr t hd hmargin) (le_abs_self _)

/-- the gradient the model hands to the optimiser is the derivative of the REGENERATED loss with respect to the distance (the loss
    `|q|²` is smooth also where `q = 0`, where autograd's `sign 0 = 0` gives the same value `0`) -/
theorem C12_sphere_loss_grad_is_derivative (ray : Ray ℝ) (c0 c1 c2 r t : ℝ) :
    HasDerivAt (fun t => sphereLossT ray c0 c1 c2 r t) (sphereLossGrad ray c0 c1 c2 r t) t :=
  sphereLoss_hasDerivAt ray c0 c1 c2 r t

/-- a zero direction: the gradient vanishes, AdamW (weight decay of the parameter 0 included) leaves the distance at 0 in every
    pass, the returned point is the start point of the ray, and the flag is the threshold test on the residual of the start point -/
theorem C12_sphere_search_zero_direction (ray : Ray ℝ) (c0 c1 c2 r lr thr : ℝ) (n : Nat) (hd : ray.d = ⟨0, 0, 0⟩) :
    (sphereSearchRun (adamWStep lr) ray c0 c1 c2 r n (sphereSearchInit adamInit)).dist = 0 ∧
    sphereSearch ray c0 c1 c2 r lr thr (n + 1) =
      .done (decide (|Vec3.normSq (ray.o - ⟨c0, c1, c2⟩) - r * r| < thr)) 0 ⟨ray.o, ⟨0, 0, 0⟩⟩ (n + 1) := by
  have hg : ∀ t, sphereLossGrad ray c0 c1 c2 r t = 0 := by
    intro t; rw [sphereLossGrad_real, hd]; simp
  have inv : ∀ k, (sphereSearchRun (adamWStep lr) ray c0 c1 c2 r k (sphereSearchInit adamInit)).dist = 0 ∧
      (sphereSearchRun (adamWStep lr) ray c0 c1 c2 r k (sphereSearchInit adamInit)).opt = ⟨0, 0, k⟩ := by
    intro k
    induction k with
    | zero => simp [sphereSearchRun, sphereSearchInit, sphereSearchInitT, adamInit]
    | succ k ih =>
      rw [sphereSearchRun_dist_succ, sphereSearchRun_opt_succ, ih.1, ih.2, hg, adamWStep_zero]
      exact ⟨rfl, rfl⟩
  refine ⟨(inv n).1, ?_⟩
  unfold sphereSearch
  rw [sphereSearchWith_succ, (inv n).1, (inv (n + 1)).1]
  have e1 : sphereResidualT ray c0 c1 c2 r 0 = |Vec3.normSq (ray.o - ⟨c0, c1, c2⟩) - r * r| := by
    simp only [sphereResidualT, propagateRayT, num_abs, Vec3.normSq, Vec3.dot, Vec3.sub_def, Vec3.sub, zero_mul, zero_add]
  have e2 : sphereHitRayT ray c0 c1 c2 r 0 = ⟨ray.o, ⟨0, 0, 0⟩⟩ := by
    rw [show sphereHitRayT ray c0 c1 c2 r 0 = propagateRayT ray 0 from rfl, propagateRayT_eq]
    apply Ray.ext'
    · apply Vec3.ext' <;> simp [Vec3.add_def, Vec3.add, Vec3.smul]
    · rfl
  rw [e1, e2]

/-- [regenerated control structure and optimiser call] the loop modelled by `sphereSearch` is the loop of the source: a `for` over
    `range(number_of_steps)` without another exit; `test` before `optimizer.step()` in the body; the flag from the last `test` after
    the loop; `torch.optim.AdamW([distance], lr = learning_rate)` with no other argument; start value 0; and the defaults -/
theorem C12_gen_sphere_search_loop_shape :
    sphereSearchLoopShape = sphereSearchModelledShape ∧ sphereSearchOptimizer = sphereSearchModelledOptimizer ∧
    (sphereSearchInitT : ℝ) = 0 ∧ sphereSearchStepsT = 5000 ∧ (sphereSearchLrT : ℝ) = 1 / 5 ∧ (sphereSearchThresholdT : ℝ) = 1 / 100 := by
  refine ⟨by decide, by decide, by simp [sphereSearchInitT], rfl, ?_, ?_⟩
  · simp only [sphereSearchLrT, num_ofSci]; norm_num
  · simp only [sphereSearchThresholdT, num_ofSci]; norm_num

/-- with the defaults of the source: exactly 5000 optimiser steps, and the flag is the `1e-2` test at the distance after 4999 -/
theorem C12_sphere_search_defaults (ray : Ray ℝ) (c0 c1 c2 r : ℝ) :
    (sphereSearch ray c0 c1 c2 r sphereSearchLrT sphereSearchThresholdT sphereSearchStepsT).steps = 5000 ∧
    ∃ d hit, sphereSearch ray c0 c1 c2 r sphereSearchLrT sphereSearchThresholdT sphereSearchStepsT =
      .done (decide (sphereResidualT ray c0 c1 c2 r
          (sphereSearchRun (adamWStep sphereSearchLrT) ray c0 c1 c2 r 4999 (sphereSearchInit adamInit)).dist < 1 / 100)) d hit 5000 := by
  have hs : sphereSearchStepsT = 4999 + 1 := rfl
  have ht : (sphereSearchThresholdT : ℝ) = 1 / 100 := C12_gen_sphere_search_loop_shape.2.2.2.2.2
  unfold sphereSearch
  rw [hs, sphereSearchWith_succ, ht]
  exact ⟨rfl, _, _, rfl⟩

end Odak

/-! ## NumPy `intersect_w_cylinder` (`odak/raytracing/boundary.py`) over the REGENERATED cylinder routines
  `Generated/CylinderGen.lean` (translator `harness/translate/cylinder.py`): `cylinder_function`, `point_to_ray_distance`,
  `closest_point_to_a_ray`, `get_cylinder_normal` and the call `intersect_w_cylinder` makes.  Model: `OdakModel/Cylinder.lean` -
  the secant loop of `OdakModel/Parametric.lean` with the regenerated cylinder function as its surface function; ties and geometry:
  `Lemmas/GenCylinder.lean`.  What the regenerated text shows: `point_to_ray_distance` returns a SQUARED distance, so the residual the
  loop drives below `target_error` is `| dist(point, axis)² - r² |`; the axis is the LINE through `cylinder[0:3]` and `cylinder[4:7]`
  (the cylinder is infinite); a packed cylinder whose two axis points coincide divides by zero. -/
namespace Odak
open Odak.Gen

section anyScalar
variable {α : Type} [Num α]

/-- for every ray (parallel to the axis, starting inside, grazing, zero direction), every packed cylinder (also a degenerate one),
    every tolerance and every limit the cylinder intersector returns after at most `limit + 1` passes of the loop body - for every
    scalar instance, hence also for the `Float` run the driver compares with the real function; with the defaults of the source:
    at most `iter_no_limit + 1` -/
theorem C12_gen_cylinder_bounded (ray : Ray α) (cyl : Cylinder α) (target : α) (limit : Nat) :
    (intersectCylinderWith ray cyl target limit).iters ≤ limit + 1 ∧
    (intersectCylinder ray cyl).iters ≤ parametricIterLimitN + 1 :=
  ⟨C12_parametric_bounded _ ray target limit, C12_parametric_bounded _ ray _ _⟩

/-- when the limit is reached the result is the miss value `(False, False)`, never the last iterate; a hit or a NaN exit happens
    within `limit` passes; the limit exit after exactly `limit + 1` -/
theorem C12_gen_cylinder_limit_is_miss (ray : Ray α) (cyl : Cylinder α) (target : α) (limit : Nat) :
    ((intersectCylinderWith ray cyl target limit).iters = limit + 1 →
      intersectCylinderWith ray cyl target limit = .miss .limit (limit + 1)) ∧
    (∀ k, intersectCylinderWith ray cyl target limit = .miss .limit k → k = limit + 1) ∧
    (∀ k, intersectCylinderWith ray cyl target limit = .miss .nan k → k ≤ limit) ∧
    (∀ dist pt k, intersectCylinderWith ray cyl target limit = .hit dist pt k → k ≤ limit) :=
  C12_parametric_limit_is_miss _ ray target limit

/-- the surface normal handed back with a hit is the regenerated `get_cylinder_normal` at the returned point; no normal without a hit -/
theorem C12_gen_cylinder_normal_of_result (ray : Ray α) (cyl : Cylinder α) (target : α) (limit : Nat) :
    (∀ dist pt k, intersectCylinderWith ray cyl target limit = .hit dist pt k →
      (intersectCylinderWith ray cyl target limit).cylinderNormal cyl = some (cylinderNormalOf cyl pt)) ∧
    ((intersectCylinderWith ray cyl target limit).isHit = false →
      (intersectCylinderWith ray cyl target limit).cylinderNormal cyl = none) := by
  refine ⟨fun dist pt k h => by rw [h]; rfl, fun h => ?_⟩
  cases hr : intersectCylinderWith ray cyl target limit with
  | hit d p k => rw [hr] at h; simp [ParamResult.isHit] at h
  | miss w k => rfl
  | unbound => rfl

end anyScalar

/-- hit residual over ℝ, in the terms of the property: for a proper cylinder (`c ≠ p`) the returned point `pt` lies on the ray, within the
    limit, and its squared distance from the axis LINE (measured to the foot of the perpendicular, which IS perpendicular to the axis)
    differs from `r²` by at most the tolerance -/
theorem C12_gen_cylinder_hit_residual (ray : Ray ℝ) (cyl : Cylinder ℝ) (hab : cyl.c ≠ cyl.p) (target : ℝ) (limit : Nat) (dist : ℝ)
    (pt : Vec3 ℝ) (k : Nat) (h : intersectCylinderWith ray cyl target limit = .hit dist pt k) :
    |Vec3.normSq (pt - axisFoot pt cyl.c (cyl.p - cyl.c)) - cyl.r ^ 2| ≤ target ∧
    Vec3.dot (pt - axisFoot pt cyl.c (cyl.p - cyl.c)) (cyl.p - cyl.c) = 0 ∧
    1 ≤ k ∧ k ≤ limit ∧ ∃ dprev : ℝ, pt = ray.o + Vec3.smul dprev ray.d := by
  obtain ⟨hres, hk, _, dprev, _, hp, _⟩ := C12_parametric_hit_residual _ ray target limit dist pt k h
  obtain ⟨h1, _⟩ := C12_parametric_hit _ ray target limit dist pt k h
  rw [cylinderFunctionN_eq, cylinderFunction, lineDistSq_eq_foot _ _ _ hab] at hres
  refine ⟨by rw [pow_two]; exact hres, axisFoot_perp _ _ _ (normSq_pos_of_ne hab), h1, hk, dprev, hp⟩

/-- the normal returned with a hit (regenerated `get_cylinder_normal`), for a proper cylinder and a point off the axis: it starts at
    the foot of the perpendicular on the axis, has unit length, is perpendicular to the axis and points at the hit point -/
theorem C12_gen_cylinder_normal (pt : Vec3 ℝ) (cyl : Cylinder ℝ) (hab : cyl.c ≠ cyl.p)
    (hoff : axisFoot pt cyl.c (cyl.p - cyl.c) ≠ pt) :
    (cylinderNormalOf cyl pt).o = axisFoot pt cyl.c (cyl.p - cyl.c) ∧
    Vec3.normSq (cylinderNormalOf cyl pt).d = 1 ∧
    Vec3.dot (cylinderNormalOf cyl pt).d (cyl.p - cyl.c) = 0 ∧
    (cylinderNormalOf cyl pt).o + Vec3.smul (Vec3.norm (pt - (cylinderNormalOf cyl pt).o)) (cylinderNormalOf cyl pt).d = pt := by
  rw [getCylinderNormalN_eq]
  exact cylinderNormal_spec pt cyl hab hoff

/-- a ray whose whole line keeps a residual above the tolerance is never reported as a hit - whatever the secant iteration does -/
theorem C12_gen_cylinder_line_misses (ray : Ray ℝ) (cyl : Cylinder ℝ) (target : ℝ) (limit : Nat)
    (hmiss : ∀ t : ℝ, target < |cylinderFunction (ray.o + Vec3.smul t ray.d) cyl|) :
    (intersectCylinderWith ray cyl target limit).isHit = false := by
  cases hr : intersectCylinderWith ray cyl target limit with
  | hit d p k =>
    obtain ⟨hres, _, _, dprev, _, hp, _⟩ := C12_parametric_hit_residual _ ray target limit d p k hr
    rw [cylinderFunctionN_eq, hp] at hres
    exact absurd hres (not_le.mpr (hmiss dprev))
  | miss w k => rfl
  | unbound => rfl

/-- rays PARALLEL to the axis (`d = s (p - c)`), including the zero direction (`s = 0`): the cylinder function is constant along the ray,
    so a ray that does not start within the tolerance of the surface is never reported as a hit -/
theorem C12_gen_cylinder_parallel_ray (ray : Ray ℝ) (cyl : Cylinder ℝ) (target : ℝ) (limit : Nat) (s : ℝ)
    (hpar : ray.d = Vec3.smul s (cyl.p - cyl.c)) (hout : target < |cylinderFunction ray.o cyl|) :
    (intersectCylinderWith ray cyl target limit).isHit = false := by
  apply C12_gen_cylinder_line_misses
  intro t
  rw [hpar, cylinderFunction, lineDistSq_parallel]
  exact hout

/-- [regenerated wiring of `intersect_w_cylinder`] it calls `intersect_parametric(ray, cylinder, cylinder_function,
    get_cylinder_normal)` - the cylinder function and the cylinder normal, in the positions of the surface function and the normal
    function, tolerance and limit left at their defaults - unpacks `(distance, normal)` and returns `(normal, distance)` -/
theorem C12_gen_cylinder_wiring :
    cylinderIntersectCall = ["intersect_parametric", "ray", "cylinder", "cylinder_function", "get_cylinder_normal"] ∧
    cylinderIntersectUnpack = ["distance", "normal"] ∧ cylinderIntersectReturn = ["normal", "distance"] := by decide

/-- non-vacuity: the unit cylinder about the z axis through the origin; the point (2, 0, 5) has squared axis distance 4, residual 3 -/
example : cylinderFunction (⟨2, 0, 5⟩ : Vec3 ℝ) ⟨⟨0, 0, 0⟩, 1, ⟨0, 0, 1⟩⟩ = 3 := by
  simp only [cylinderFunction, lineDistSq]; gen_simp; norm_num

end Odak
