import OdakProofs.Lemmas.Mat3
import OdakModel.Geometry
namespace Odak
end Odak
