import OdakModel.Generated.Loops
import OdakProofs.Lemmas.Geometry
import Mathlib.Analysis.SpecificLimits.Basic

/-! # C12 – termination and flagging of the refraction loop, counter-capped loops
  `refrLoop a b err fuel it t eps` is the model of `while eps > error: …` with fuel;
  `refrIter a b k` is the `k`-th Newton iterate from the code's start value `-b/(2a)`;
  `D = a² - b` is the discriminant (negative ⇔ total internal reflection). -/
namespace Odak

/-- without total internal reflection every Newton step is at most half as long as the previous one -/
theorem C12_newton_step_halves (a b : ℝ) (hD : 0 ≤ a ^ 2 - b) (ha : a ≠ 0) (k : Nat) :
    |refrIter a b (k + 2) - refrIter a b (k + 1)| ≤ |refrIter a b (k + 1) - refrIter a b k| / 2 ∧
    |refrIter a b (k + 1) - refrIter a b k| ≤ |refrIter a b 1 - refrIter a b 0| / 2 ^ k :=
  ⟨refrIter_step_halves hD ha k, refrIter_step_bound hD ha k⟩

/-- explicit iteration bound: if `δ₀ / 2^N ≤ err` (δ₀ the first step length) the loop exits normally
    after at most `N + 1` passes whenever it is given at least that much fuel, returning the iterate
    `t_{j+1}` at the first `j` whose step `|t_j - t_{j+1}|` is within `err` -/
theorem C12_newton_iteration_bound (a b err : ℝ) (hD : 0 ≤ a ^ 2 - b) (ha : a ≠ 0) (herr : 0 < err)
    (N : Nat) (hN : |refrIter a b 0 - refrIter a b 1| / 2 ^ N ≤ err) (fuel : Nat) (hf : N + 1 ≤ fuel) :
    ∃ j, j ≤ N ∧ |refrIter a b j - refrIter a b (j + 1)| ≤ err ∧
      refrLoop a b err fuel 0 (refrStart a b) (err * Num.two) = .ok (refrIter a b (j + 1)) (j + 1) := by
  have hstep : |refrIter a b N - refrIter a b (N + 1)| ≤ err := by
    rw [abs_sub_comm]
    refine (refrIter_step_bound hD ha N).trans ?_
    rw [abs_sub_comm]; exact hN
  have he : err < err * Num.two := by rw [num_two]; linarith
  obtain ⟨j, hj, hjs, hres⟩ := refrLoop_ok a b err N fuel 0 (refrStart a b) (err * Num.two) hf hstep he
  refine ⟨j, hj, hjs, ?_⟩
  rw [hres, Nat.zero_add]; rfl

/-- the Newton loop terminates: for `0 ≤ a² - b`, `a ≠ 0`, `0 < err` there is a number of passes `N + 1`
    such that with any fuel `≥ N + 1` the loop returns normally within `N + 1` iterations -/
theorem C12_newton_terminates (a b err : ℝ) (hD : 0 ≤ a ^ 2 - b) (ha : a ≠ 0) (herr : 0 < err) :
    ∃ N : Nat, ∀ fuel, N + 1 ≤ fuel → ∃ t it, it ≤ N + 1 ∧
      refrLoop a b err fuel 0 (refrStart a b) (err * Num.two) = .ok t it := by
  obtain ⟨N, hN⟩ := pow_unbounded_of_one_lt (|refrIter a b 0 - refrIter a b 1| / err) (one_lt_two (α := ℝ))
  refine ⟨N, fun fuel hf => ?_⟩
  have hN' : |refrIter a b 0 - refrIter a b 1| / 2 ^ N ≤ err := by
    rw [div_lt_iff₀ herr] at hN
    rw [div_le_iff₀ (by positivity)]; linarith
  obtain ⟨j, hj, _, hres⟩ := C12_newton_iteration_bound a b err hD ha herr N hN' fuel hf
  exact ⟨_, _, by omega, hres⟩

/-- the same for the model's `refractTau` (no TIR, non-zero `a`): never `.tir`, never `.noConvergence`
    once the fuel suffices -/
theorem C12_refract_terminates (mu err : ℝ) (d n : Vec3 ℝ)
    (hD : 0 ≤ (refrA mu d n) ^ 2 - refrB mu n) (ha : refrA mu d n ≠ 0) (herr : 0 < err) :
    ∃ N : Nat, ∀ fuel, N + 1 ≤ fuel → ∃ t it, it ≤ N + 1 ∧ refractTau mu err d n fuel = .ok t it := by
  obtain ⟨N, h⟩ := C12_newton_terminates _ _ err hD ha herr
  refine ⟨N, fun fuel hf => ?_⟩
  have hno : ¬ (Num.sq (refrA mu d n) - refrB mu n < 0) := by
    rw [num_sq, ← pow_two]; exact not_lt.mpr hD
  simp only [refractTau, if_neg hno]
  exact h fuel hf

/-- total internal reflection (`a² - b < 0`) is flagged before the loop, for every fuel -/
theorem C12_tir_flagged (mu err : ℝ) (d n : Vec3 ℝ) (fuel : Nat)
    (hD : (refrA mu d n) ^ 2 - refrB mu n < 0) :
    refractTau mu err d n fuel = .tir := by
  have hD' : Num.sq (refrA mu d n) - refrB mu n < 0 := by rw [num_sq, ← pow_two]; exact hD
  simp only [refractTau, if_pos hD']

/-- …and has to be: for `a² - b < 0` every Newton step is at least `√(b - a²)` long, so the
    un-flagged loop could never exit for `err < √(b - a²)` -/
theorem C12_tir_would_not_terminate (a b t : ℝ) (_hD : a ^ 2 - b < 0) (hs : t + a ≠ 0) :
    Real.sqrt (b - a ^ 2) ≤ |refrStep a b t - t| := by
  rw [Real.sqrt_le_left (abs_nonneg _), sq_abs, refrStep_sub, newtonStep_sub, div_pow,
    le_div_iff₀ (by positivity)]
  nlinarith [sq_nonneg ((t + a) ^ 2 - (b - a ^ 2))]

/-- a loop with a counter cap `limit` (give up when `counter > limit`) always returns and executes its
    body at most `limit + 1 - counter` times (`limit + 1` from a zero counter); a regular exit returns a
    state satisfying `done`, namely the body iterated that many times -/
theorem C12_capped_loop_bounded {σ : Type} (limit : Nat) (body : σ → σ) (done : σ → Bool)
    (counter : Nat) (s : σ) :
    (cappedLoop limit body done counter s).2 ≤ limit + 1 - counter ∧
    (cappedLoop limit body done 0 s).2 ≤ limit + 1 ∧
    ∀ s', (cappedLoop limit body done counter s).1 = some s' →
      done s' = true ∧ s' = body^[(cappedLoop limit body done counter s).2] s := by
  have main : ∀ (m counter : Nat) (s : σ), limit + 1 - counter = m →
      (cappedLoop limit body done counter s).2 ≤ m ∧
      ∀ s', (cappedLoop limit body done counter s).1 = some s' →
        done s' = true ∧ s' = body^[(cappedLoop limit body done counter s).2] s := by
    intro m
    induction m with
    | zero =>
      intro c s hm
      rw [cappedLoop]
      by_cases hd : done s = true
      · simp [hd]
      · have hl : limit < c := by omega
        simp [hd, hl]
    | succ m ih =>
      intro c s hm
      rw [cappedLoop]
      by_cases hd : done s = true
      · simp [hd]
      · by_cases hl : limit < c
        · simp [hd, hl]
        · obtain ⟨h1, h2⟩ := ih (c + 1) (body s) (by omega)
          simp only [hd, hl, if_false, Bool.false_eq_true]
          refine ⟨by omega, fun s' hs' => ?_⟩
          obtain ⟨g1, g2⟩ := h2 s' hs'
          exact ⟨g1, by rw [Function.iterate_succ_apply]; exact g2⟩
  exact ⟨(main _ counter s rfl).1, (main _ 0 s rfl).1, (main _ counter s rfl).2⟩

/-- non-vacuity of the termination hypotheses (`a = 1/2`, `b = -3/4`: `a² - b = 1`) and of the TIR
    guard (`a = 0`, `b = 1`: grazing incidence from the dense side) -/
example : (0 : ℝ) ≤ (1 / 2 : ℝ) ^ 2 - (-3 / 4) ∧ (1 / 2 : ℝ) ≠ 0 ∧ ((0 : ℝ) ^ 2 - 1 < 0) := by norm_num

/-- non-vacuity: a capped loop that never finishes hits the cap after exactly `limit + 1` bodies -/
example : cappedLoop 3 (fun n : Nat => n + 1) (fun _ => false) 0 0 = (none, 4) := by
  simp [cappedLoop]

end Odak

namespace Odak
open Odak.Gen in
/-- [regenerated table of every `while` loop under odak/] every loop in a raytracing routine either
    increments a counter that is compared with a limit on an exit path (then `C12_capped_loop_bounded`
    bounds it) or is the refraction root finder, which flags the unsolvable case before the loop
    (`C12_tir_flagged`) and terminates otherwise (`C12_refract_terminates`). -/
theorem C12_every_raytracing_while_capped_or_proved :
    ∀ l ∈ whileLoops, (l.file.startsWith "odak/raytracing" || l.file.startsWith "odak/learn/raytracing") = true →
      l.capped = true ∨ (l.fn = "refract" ∧ refractFlagsTir = true) := by
  decide +kernel
end Odak
