import OdakProofs.Lemmas.Slicing
import OdakProofs.Lemmas.GenSlicers

/-! # C16 – depth-plane slicing partitions the image exactly
  `multiplane_loss.set_targets` / `perceptual_multiplane_loss.set_targets` (masks by rounded depth)
  and `slice_rgbd_targets` (half-open intervals between plane positions, last interval closed). -/
namespace Odak

/-- every depth `d ∈ [0,1]` is assigned to one of the `n` plane indices `0, …, n-1` -/
theorem C16_round_is_plane_index (n : Nat) (hn : 1 ≤ n) (d : ℝ) (h0 : 0 ≤ d) (h1 : d ≤ 1) :
    ∃ i : Nat, i < n ∧ planeOf n d = (i : ℝ) :=
  planeOf_is_index n hn d h0 h1

/-- general facts about round-half-to-even on ℝ: integers are fixed, it is monotone, and it moves
    a number by at most one half -/
theorem C16_round_facts :
    (∀ k : ℤ, (Num.round (k : ℝ) : ℝ) = k) ∧
    (∀ x y : ℝ, x ≤ y → (Num.round x : ℝ) ≤ Num.round y) ∧
    (∀ x : ℝ, |(Num.round x : ℝ) - x| ≤ 1/2) := by
  refine ⟨?_, ?_, ?_⟩
  · intro k; exact roundHalfEvenR_intCast k
  · intro x y h; exact roundHalfEvenR_mono h
  · intro x; exact abs_roundHalfEvenR_sub_le x

/-- the plane masks are 0/1-valued, pairwise disjoint and cover: exactly one plane has mask 1 -/
theorem C16_masks_partition (n : Nat) (hn : 1 ≤ n) (d : ℝ) (h0 : 0 ≤ d) (h1 : d ≤ 1) :
    (∃! i : Nat, i < n ∧ planeMask n i d = 1) ∧
    (∀ i : Nat, i < n → planeMask n i d = 0 ∨ planeMask n i d = 1) := by
  obtain ⟨j, hj, e⟩ := planeOf_is_index n hn d h0 h1
  have hm := planeMask_of_planeOf e
  constructor
  · refine ⟨j, ⟨hj, by rw [hm]; simp⟩, ?_⟩
    rintro i ⟨_, hi⟩
    rw [hm] at hi
    by_contra hne
    rw [if_neg hne] at hi
    exact zero_ne_one hi
  · intro i _
    rw [hm]
    by_cases h : i = j
    · right; rw [if_pos h]
    · left; rw [if_neg h]

/-- the in-focus plane targets sum to the original image -/
theorem C16_targets_sum_to_image (n : Nat) (hn : 1 ≤ n) (d : ℝ) (h0 : 0 ≤ d) (h1 : d ≤ 1) (img : ℝ) :
    focusTarget n d img = img := by
  obtain ⟨j, hj, e⟩ := planeOf_is_index n hn d h0 h1
  have hm := planeMask_of_planeOf e
  unfold focusTarget
  rw [foldl_add_fn (fun i => planeTarget n i d img)]
  have : (fun i => planeTarget n i d img) = (fun i => if i = j then img else 0) := by
    funext i
    simp only [planeTarget, hm]
    split_ifs <;> simp
  rw [this, sum_range_indicator, if_pos hj, zero_add]

/-- a single plane reproduces the image, whatever the depth value -/
theorem C16_single_plane (d img : ℝ) : planeTarget 1 0 d img = img := by
  have e : planeOf 1 d = ((0 : ℕ) : ℝ) := by
    rw [planeOf_real]; simp [roundHalfEvenR_zero]
  rw [planeTarget, planeMask_of_planeOf e]
  simp

/-- depths exactly on a plane boundary follow the half-to-even rule -/
theorem C16_boundaries :
    planeOf 3 (1/4 : ℝ) = 0 ∧ planeOf 3 (3/4 : ℝ) = 2 ∧ planeOf 2 (1/2 : ℝ) = 0 := by
  have f0 : ⌊(1/2 : ℝ)⌋ = 0 := by rw [Int.floor_eq_iff]; norm_num
  have f1 : ⌊(3/2 : ℝ)⌋ = 1 := by rw [Int.floor_eq_iff]; norm_num
  refine ⟨?_, ?_, ?_⟩
  · rw [planeOf_real, show (1/4 : ℝ) * ((3 - 1 : ℕ) : ℝ) = 1/2 by norm_num]
    unfold roundHalfEvenR; simp only [f0]; norm_num
  · rw [planeOf_real, show (3/4 : ℝ) * ((3 - 1 : ℕ) : ℝ) = 3/2 by norm_num]
    unfold roundHalfEvenR; simp only [f1]; norm_num
  · rw [planeOf_real, show (1/2 : ℝ) * ((2 - 1 : ℕ) : ℝ) = 1/2 by norm_num]
    unfold roundHalfEvenR; simp only [f0]; norm_num

/-- the RGB-D slicer: for sorted plane positions (duplicates allowed) spanning the depth value,
    exactly one interval (half-open, last one closed) contains it -/
theorem C16_slice_rgbd_partition (ps : List ℝ) (d : ℝ) (hlen : 2 ≤ ps.length)
    (hsorted : ps.Pairwise (· ≤ ·))
    (hlo : ps[0]'(by omega) ≤ d) (hhi : d ≤ ps[ps.length - 1]'(by omega)) :
    (∃! i : Nat, 1 ≤ i ∧ i ≤ ps.length - 1 ∧ inSlice ps i d = true) ∧
    (slicesContaining ps d).length = 1 := by
  obtain ⟨i, hi1, hi, hid⟩ := inSlice_exists ps d hlen hlo hhi
  have huniq : ∀ j, 1 ≤ j → j ≤ ps.length - 1 → inSlice ps j d = true → j = i :=
    fun j hj1 hj hjd => inSlice_unique ps d hsorted hj1 hj hi1 hi hjd hid
  constructor
  · exact ⟨i, ⟨hi1, hi, hid⟩, fun j ⟨hj1, hj, hjd⟩ => huniq j hj1 hj hjd⟩
  · rw [slicesContaining_eq_single ps d hi1 hi hid huniq]; rfl

/-- existence alone needs no ordering of the plane positions -/
theorem C16_slice_rgbd_exists (ps : List ℝ) (d : ℝ) (hlen : 2 ≤ ps.length)
    (hlo : ps[0]'(by omega) ≤ d) (hhi : d ≤ ps[ps.length - 1]'(by omega)) :
    ∃ i : Nat, 1 ≤ i ∧ i ≤ ps.length - 1 ∧ inSlice ps i d = true :=
  inSlice_exists ps d hlen hlo hhi

/-! ### non-vacuity -/

/-- n = 4, d = 1/3: `d·3 = 1`, plane 1; the hypotheses of the partition theorems hold -/
example : planeOf 4 (1/3 : ℝ) = 1 ∧ focusTarget 4 (1/3 : ℝ) 7 = 7 ∧
    (∃! i : Nat, i < 4 ∧ planeMask 4 i (1/3 : ℝ) = 1) := by
  refine ⟨?_, C16_targets_sum_to_image 4 (by norm_num) _ (by norm_num) (by norm_num) 7,
    (C16_masks_partition 4 (by norm_num) _ (by norm_num) (by norm_num)).1⟩
  rw [planeOf_real, show (1/3 : ℝ) * ((4 - 1 : ℕ) : ℝ) = ((1 : ℤ) : ℝ) by norm_num,
    roundHalfEvenR_intCast]
  norm_num

/-- ps = [0, 1/2, 1], d = 1/2: the boundary value belongs to the second (last, closed) interval only -/
example : slicesContaining [(0 : ℝ), 1/2, 1] (1/2) = [2] ∧
    (slicesContaining [(0 : ℝ), 1/2, 1] (1/2)).length = 1 := by
  have hs : ([(0 : ℝ), 1/2, 1]).Pairwise (· ≤ ·) := by
    simp only [List.pairwise_cons, List.mem_cons, List.not_mem_nil, or_false, forall_eq_or_imp,
      forall_eq, IsEmpty.forall_iff, implies_true, List.Pairwise.nil, and_true]
    norm_num
  have h2 : inSlice [(0 : ℝ), 1/2, 1] 2 (1/2) = true := by
    rw [inSlice_iff _ _ _ (by norm_num) (by simp)]
    simp only [List.length_cons, List.length_nil]
    norm_num
  refine ⟨?_, (C16_slice_rgbd_partition _ _ (by simp) hs (by simp) (by simp; norm_num)).2⟩
  exact slicesContaining_eq_single _ _ (by norm_num) (by simp) h2
    (fun j hj1 hj hjd => inSlice_unique _ _ hs hj1 hj (by norm_num) (by simp) hjd h2)

/-- duplicated positions: `ps = [0, 1, 1, 2]`, `d = 1` (intervals `[0,1)`, `[1,1)`, `[1,2]`) and
    `ps = [0, 1, 1]`, `d = 1` (intervals `[0,1)`, `[1,1]`) are covered by the theorem -/
example : (slicesContaining [(0 : ℝ), 1, 1, 2] 1).length = 1 ∧ (slicesContaining [(0 : ℝ), 1, 1] 1).length = 1 := by
  constructor
  · refine (C16_slice_rgbd_partition _ _ (by simp) ?_ (by simp) (by simp)).2
    simp only [List.pairwise_cons, List.mem_cons, List.not_mem_nil, or_false, forall_eq_or_imp,
      forall_eq, IsEmpty.forall_iff, implies_true, List.Pairwise.nil, and_true]
    norm_num
  · refine (C16_slice_rgbd_partition _ _ (by simp) ?_ (by simp) (by simp)).2
    simp only [List.pairwise_cons, List.mem_cons, List.not_mem_nil, or_false, forall_eq_or_imp,
      forall_eq, IsEmpty.forall_iff, implies_true, List.Pairwise.nil, and_true]
    norm_num

end Odak

/-! ## The same conclusions for the slicers REGENERATED from the Python source (`Generated/Slicers.lean`, tied to the model by
  `Lemmas/GenSlicers.lean`), one pixel: `…M` = `multiplane_loss.set_targets`, `…P` = `perceptual_multiplane_loss.set_targets`,
  `slice…T` = `slice_rgbd_targets`. -/
namespace Odak
open Odak.Gen

/-- generated `set_targets` (both classes): the scaled and rounded depth of a pixel with depth in `[0, 1]` is a plane index -/
theorem C16_gen_round_is_plane_index (n : Nat) (hn : 1 ≤ n) (d : ℝ) (h0 : 0 ≤ d) (h1 : d ≤ 1) (img : Nat → ℝ) :
    ∃ i : Nat, i < n ∧ planeDepthM d n img = (i : ℝ) ∧ planeDepthP d n img = (i : ℝ) := by
  obtain ⟨i, hi, e⟩ := C16_round_is_plane_index n hn d h0 h1
  exact ⟨i, hi, by rw [planeDepthM_eq, e], by rw [planeDepthP_eq, e]⟩

/-- generated `set_targets` (both classes): in every channel the plane masks of a pixel are 0/1-valued and exactly one plane has
    mask 1 -/
theorem C16_gen_masks_partition (n : Nat) (hn : 1 ≤ n) (d : ℝ) (h0 : 0 ≤ d) (h1 : d ≤ 1) (img : Nat → ℝ) (ch : Nat) :
    ((∃! i : Nat, i < n ∧ planeMaskM d n img i ch = 1) ∧ (∀ i : Nat, i < n → planeMaskM d n img i ch = 0 ∨ planeMaskM d n img i ch = 1)) ∧
    ((∃! i : Nat, i < n ∧ planeMaskP d n img i ch = 1) ∧ (∀ i : Nat, i < n → planeMaskP d n img i ch = 0 ∨ planeMaskP d n img i ch = 1)) := by
  simp only [planeMaskM_eq, planeMaskP_eq]
  exact ⟨C16_masks_partition n hn d h0 h1, C16_masks_partition n hn d h0 h1⟩

/-- generated `set_targets` (both classes): target = image · mask, and the all-in-focus target accumulated over the planes is the
    image, channel by channel -/
theorem C16_gen_targets_sum_to_image (n : Nat) (hn : 1 ≤ n) (d : ℝ) (h0 : 0 ≤ d) (h1 : d ≤ 1) (img : Nat → ℝ) (ch : Nat) :
    (∀ i, planeTargetM d n img i ch = img ch * planeMaskM d n img i ch) ∧ focusTargetM d n img ch = img ch ∧
    (∀ i, planeTargetP d n img i ch = img ch * planeMaskP d n img i ch) ∧ focusTargetP d n img ch = img ch := by
  simp only [planeTargetM_eq, planeTargetP_eq, planeMaskM_eq, planeMaskP_eq, focusTargetM_eq, focusTargetP_eq]
  exact ⟨fun _ => rfl, C16_targets_sum_to_image n hn d h0 h1 _, fun _ => rfl, C16_targets_sum_to_image n hn d h0 h1 _⟩

/-- generated `set_targets` (both classes): a single plane reproduces the image, whatever the depth value -/
theorem C16_gen_single_plane (d : ℝ) (img : Nat → ℝ) (ch : Nat) :
    planeTargetM d 1 img 0 ch = img ch ∧ planeTargetP d 1 img 0 ch = img ch := by
  rw [planeTargetM_eq, planeTargetP_eq]
  exact ⟨C16_single_plane d _, C16_single_plane d _⟩

/-- generated `slice_rgbd_targets`: one slice per interval; for sorted plane positions spanning the depth value exactly one slice
    has mask 1 at the pixel, every mask is 0 or 1, and target = image · mask (so the slices sum to the image) -/
theorem C16_gen_slice_rgbd_partition (ps : List ℝ) (d : ℝ) (img : Nat → ℝ) (ch : Nat) (hlen : 2 ≤ ps.length)
    (hsorted : ps.Pairwise (· ≤ ·))
    (hlo : ps[0]'(by omega) ≤ d) (hhi : d ≤ ps[ps.length - 1]'(by omega)) :
    (∃! t : Nat, t < sliceTargetTCount ps.length ∧ sliceMaskT img d (posFn ps) ps.length t ch = 1) ∧
    (∀ t : Nat, t < sliceTargetTCount ps.length →
      (sliceMaskT img d (posFn ps) ps.length t ch = 0 ∨ sliceMaskT img d (posFn ps) ps.length t ch = 1) ∧
      sliceTargetT img d (posFn ps) ps.length t ch = img ch * sliceMaskT img d (posFn ps) ps.length t ch) := by
  have hmask : ∀ t, t < sliceTargetTCount ps.length →
      sliceMaskT img d (posFn ps) ps.length t ch = if inSlice ps (t + 1) d = true then 1 else 0 := by
    intro t ht
    rw [sliceTargetTCount_eq] at ht
    exact sliceMaskT_eq ps img d t ch (by omega)
  obtain ⟨⟨i, ⟨hi1, hi, hid⟩, huniq⟩, _⟩ := C16_slice_rgbd_partition ps d hlen hsorted hlo hhi
  constructor
  · refine ⟨i - 1, ⟨by rw [sliceTargetTCount_eq]; omega, ?_⟩, ?_⟩
    · rw [hmask _ (by rw [sliceTargetTCount_eq]; omega), Nat.sub_add_cancel hi1, if_pos hid]
    · rintro t ⟨ht, hm⟩
      rw [hmask t ht] at hm
      rw [sliceTargetTCount_eq] at ht
      by_cases hin : inSlice ps (t + 1) d = true
      · have := huniq (t + 1) ⟨by omega, by omega, hin⟩
        omega
      · rw [if_neg hin] at hm; exact absurd hm zero_ne_one
  · intro t ht
    refine ⟨?_, sliceTargetT_eq ps img d t ch⟩
    rw [hmask t ht]
    by_cases hin : inSlice ps (t + 1) d = true
    · right; rw [if_pos hin]
    · left; rw [if_neg hin]

end Odak
