import OdakProofs.Lemmas.Slicing
import OdakProofs.Lemmas.GenSlicers
import OdakProofs.Lemmas.GenDefocus
import OdakProofs.Lemmas.GenLossObjects
import OdakProofs.Lemmas.LossObjectsInst

/-! # C16 – depth-plane slicing partitions the image exactly
  `multiplane_loss.set_targets` / `perceptual_multiplane_loss.set_targets` (masks by rounded depth)
  and `slice_rgbd_targets` (half-open intervals between plane positions, last interval closed). -/
namespace Odak

/-- every depth `d ∈ [0,1]` is assigned to one of the `n` plane indices `0, …, n-1` -/
theorem C16_round_is_plane_index (n : Nat) (hn : 1 ≤ n) (d : ℝ) (h0 : 0 ≤ d) (h1 : d ≤ 1) :
    ∃ i : Nat, i < n ∧ planeOf n d = (i : ℝ) :=
  planeOf_is_index n hn d h0 h1

/-- general facts about round-half-to-even on ℝ: integers are fixed, it is monotone, and it moves
    a number by at most one half -/
theorem C16_round_facts :
    (∀ k : ℤ, (Num.round (k : ℝ) : ℝ) = k) ∧
    (∀ x y : ℝ, x ≤ y → (Num.round x : ℝ) ≤ Num.round y) ∧
    (∀ x : ℝ, |(Num.round x : ℝ) - x| ≤ 1/2) := by
  refine ⟨?_, ?_, ?_⟩
  · intro k; exact roundHalfEvenR_intCast k
  · intro x y h; exact roundHalfEvenR_mono h
  · intro x; exact abs_roundHalfEvenR_sub_le x

/-- the plane masks are 0/1-valued, pairwise disjoint and cover: exactly one plane has mask 1 -/
theorem C16_masks_partition (n : Nat) (hn : 1 ≤ n) (d : ℝ) (h0 : 0 ≤ d) (h1 : d ≤ 1) :
    (∃! i : Nat, i < n ∧ planeMask n i d = 1) ∧
    (∀ i : Nat, i < n → planeMask n i d = 0 ∨ planeMask n i d = 1) := by
  obtain ⟨j, hj, e⟩ := planeOf_is_index n hn d h0 h1
  have hm := planeMask_of_planeOf e
  constructor
  · refine ⟨j, ⟨hj, by rw [hm]; simp⟩, ?_⟩
    rintro i ⟨_, hi⟩
    rw [hm] at hi
    by_contra hne
    rw [if_neg hne] at hi
    exact zero_ne_one hi
  · intro i _
    rw [hm]
    by_cases h : i = j
    · right; rw [if_pos h]
    · left; rw [if_neg h]

/-- the in-focus plane targets sum to the original image -/
theorem C16_targets_sum_to_image (n : Nat) (hn : 1 ≤ n) (d : ℝ) (h0 : 0 ≤ d) (h1 : d ≤ 1) (img : ℝ) :
    focusTarget n d img = img := by
  obtain ⟨j, hj, e⟩ := planeOf_is_index n hn d h0 h1
  have hm := planeMask_of_planeOf e
  unfold focusTarget
  rw [foldl_add_fn (fun i => planeTarget n i d img)]
  have : (fun i => planeTarget n i d img) = (fun i => if i = j then img else 0) := by
    funext i
    simp only [planeTarget, hm]
    split_ifs <;> simp
  rw [this, sum_range_indicator, if_pos hj, zero_add]

/-- a single plane reproduces the image, whatever the depth value -/
theorem C16_single_plane (d img : ℝ) : planeTarget 1 0 d img = img := by
  have e : planeOf 1 d = ((0 : ℕ) : ℝ) := by
    rw [planeOf_real]; simp [roundHalfEvenR_zero]
  rw [planeTarget, planeMask_of_planeOf e]
  simp

/-- depths exactly on a plane boundary follow the half-to-even rule -/
theorem C16_boundaries :
    planeOf 3 (1/4 : ℝ) = 0 ∧ planeOf 3 (3/4 : ℝ) = 2 ∧ planeOf 2 (1/2 : ℝ) = 0 := by
  have f0 : ⌊(1/2 : ℝ)⌋ = 0 := by rw [Int.floor_eq_iff]; norm_num
  have f1 : ⌊(3/2 : ℝ)⌋ = 1 := by rw [Int.floor_eq_iff]; norm_num
  refine ⟨?_, ?_, ?_⟩
  · rw [planeOf_real, show (1/4 : ℝ) * ((3 - 1 : ℕ) : ℝ) = 1/2 by norm_num]
    unfold roundHalfEvenR; simp only [f0]; norm_num
  · rw [planeOf_real, show (3/4 : ℝ) * ((3 - 1 : ℕ) : ℝ) = 3/2 by norm_num]
    unfold roundHalfEvenR; simp only [f1]; norm_num
  · rw [planeOf_real, show (1/2 : ℝ) * ((2 - 1 : ℕ) : ℝ) = 1/2 by norm_num]
    unfold roundHalfEvenR; simp only [f0]; norm_num

/-- the RGB-D slicer: for sorted plane positions (duplicates allowed) spanning the depth value,
    exactly one interval (half-open, last one closed) contains it -/
theorem C16_slice_rgbd_partition (ps : List ℝ) (d : ℝ) (hlen : 2 ≤ ps.length)
    (hsorted : ps.Pairwise (· ≤ ·))
    (hlo : ps[0]'(by omega) ≤ d) (hhi : d ≤ ps[ps.length - 1]'(by omega)) :
    (∃! i : Nat, 1 ≤ i ∧ i ≤ ps.length - 1 ∧ inSlice ps i d = true) ∧
    (slicesContaining ps d).length = 1 := by
  obtain ⟨i, hi1, hi, hid⟩ := inSlice_exists ps d hlen hlo hhi
  have huniq : ∀ j, 1 ≤ j → j ≤ ps.length - 1 → inSlice ps j d = true → j = i :=
    fun j hj1 hj hjd => inSlice_unique ps d hsorted hj1 hj hi1 hi hjd hid
  constructor
  · exact ⟨i, ⟨hi1, hi, hid⟩, fun j ⟨hj1, hj, hjd⟩ => huniq j hj1 hj hjd⟩
  · rw [slicesContaining_eq_single ps d hi1 hi hid huniq]; rfl

/-- existence alone needs no ordering of the plane positions -/
theorem C16_slice_rgbd_exists (ps : List ℝ) (d : ℝ) (hlen : 2 ≤ ps.length)
    (hlo : ps[0]'(by omega) ≤ d) (hhi : d ≤ ps[ps.length - 1]'(by omega)) :
    ∃ i : Nat, 1 ≤ i ∧ i ≤ ps.length - 1 ∧ inSlice ps i d = true :=
  inSlice_exists ps d hlen hlo hhi

/-! ### non-vacuity -/

/-- n = 4, d = 1/3: `d·3 = 1`, plane 1; the hypotheses of the partition theorems hold -/
example : planeOf 4 (1/3 : ℝ) = 1 ∧ focusTarget 4 (1/3 : ℝ) 7 = 7 ∧
    (∃! i : Nat, i < 4 ∧ planeMask 4 i (1/3 : ℝ) = 1) := by
  refine ⟨?_, C16_targets_sum_to_image 4 (by norm_num) _ (by norm_num) (by norm_num) 7,
    (C16_masks_partition 4 (by norm_num) _ (by norm_num) (by norm_num)).1⟩
  rw [planeOf_real, show (1/3 : ℝ) * ((4 - 1 : ℕ) : ℝ) = ((1 : ℤ) : ℝ) by norm_num,
    roundHalfEvenR_intCast]
  norm_num

/-- ps = [0, 1/2, 1], d = 1/2: the boundary value belongs to the second (last, closed) interval only -/
example : slicesContaining [(0 : ℝ), 1/2, 1] (1/2) = [2] ∧
    (slicesContaining [(0 : ℝ), 1/2, 1] (1/2)).length = 1 := by
  have hs : ([(0 : ℝ), 1/2, 1]).Pairwise (· ≤ ·) := by
    simp only [List.pairwise_cons, List.mem_cons, List.not_mem_nil, or_false, forall_eq_or_imp,
      forall_eq, IsEmpty.forall_iff, implies_true, List.Pairwise.nil, and_true]
    norm_num
  have h2 : inSlice [(0 : ℝ), 1/2, 1] 2 (1/2) = true := by
    rw [inSlice_iff _ _ _ (by norm_num) (by simp)]
    simp only [List.length_cons, List.length_nil]
    norm_num
  refine ⟨?_, (C16_slice_rgbd_partition _ _ (by simp) hs (by simp) (by simp; norm_num)).2⟩
  exact slicesContaining_eq_single _ _ (by norm_num) (by simp) h2
    (fun j hj1 hj hjd => inSlice_unique _ _ hs hj1 hj (by norm_num) (by simp) hjd h2)

/-- duplicated positions: `ps = [0, 1, 1, 2]`, `d = 1` (intervals `[0,1)`, `[1,1)`, `[1,2]`) and
    `ps = [0, 1, 1]`, `d = 1` (intervals `[0,1)`, `[1,1]`) are covered by the theorem -/
example : (slicesContaining [(0 : ℝ), 1, 1, 2] 1).length = 1 ∧ (slicesContaining [(0 : ℝ), 1, 1] 1).length = 1 := by
  constructor
  · refine (C16_slice_rgbd_partition _ _ (by simp) ?_ (by simp) (by simp)).2
    simp only [List.pairwise_cons, List.mem_cons, List.not_mem_nil, or_false, forall_eq_or_imp,
      forall_eq, IsEmpty.forall_iff, implies_true, List.Pairwise.nil, and_true]
    norm_num
  · refine (C16_slice_rgbd_partition _ _ (by simp) ?_ (by simp) (by simp)).2
    simp only [List.pairwise_cons, List.mem_cons, List.not_mem_nil, or_false, forall_eq_or_imp,
      forall_eq, IsEmpty.forall_iff, implies_true, List.Pairwise.nil, and_true]
    norm_num

end Odak

/-! ## The same conclusions for the slicers REGENERATED from the Python source (`Generated/Slicers.lean`, tied to the model by
  `Lemmas/GenSlicers.lean`), one pixel: `…M` = `multiplane_loss.set_targets`, `…P` = `perceptual_multiplane_loss.set_targets`,
  `slice…T` = `slice_rgbd_targets`. -/
namespace Odak
open Odak.Gen

/-- generated `set_targets` (both classes): the scaled and rounded depth of a pixel with depth in `[0, 1]` is a plane index -/
theorem C16_gen_round_is_plane_index (n : Nat) (hn : 1 ≤ n) (d : ℝ) (h0 : 0 ≤ d) (h1 : d ≤ 1) (img : Nat → ℝ) :
    ∃ i : Nat, i < n ∧ planeDepthM d n img = (i : ℝ) ∧ planeDepthP d n img = (i : ℝ) := by
  obtain ⟨i, hi, e⟩ := C16_round_is_plane_index n hn d h0 h1
  exact ⟨i, hi, by rw [planeDepthM_eq, e], by rw [planeDepthP_eq, e]⟩

/-- generated `set_targets` (both classes): in every channel the plane masks of a pixel are 0/1-valued and exactly one plane has
    mask 1 -/
theorem C16_gen_masks_partition (n : Nat) (hn : 1 ≤ n) (d : ℝ) (h0 : 0 ≤ d) (h1 : d ≤ 1) (img : Nat → ℝ) (ch : Nat) :
    ((∃! i : Nat, i < n ∧ planeMaskM d n img i ch = 1) ∧ (∀ i : Nat, i < n → planeMaskM d n img i ch = 0 ∨ planeMaskM d n img i ch = 1)) ∧
    ((∃! i : Nat, i < n ∧ planeMaskP d n img i ch = 1) ∧ (∀ i : Nat, i < n → planeMaskP d n img i ch = 0 ∨ planeMaskP d n img i ch = 1)) := by
  simp only [planeMaskM_eq, planeMaskP_eq]
  exact ⟨C16_masks_partition n hn d h0 h1, C16_masks_partition n hn d h0 h1⟩

/-- generated `set_targets` (both classes): target = image · mask, and the all-in-focus target accumulated over the planes is the
    image, channel by channel -/
theorem C16_gen_targets_sum_to_image (n : Nat) (hn : 1 ≤ n) (d : ℝ) (h0 : 0 ≤ d) (h1 : d ≤ 1) (img : Nat → ℝ) (ch : Nat) :
    (∀ i, planeTargetM d n img i ch = img ch * planeMaskM d n img i ch) ∧ focusTargetM d n img ch = img ch ∧
    (∀ i, planeTargetP d n img i ch = img ch * planeMaskP d n img i ch) ∧ focusTargetP d n img ch = img ch := by
  simp only [planeTargetM_eq, planeTargetP_eq, planeMaskM_eq, planeMaskP_eq, focusTargetM_eq, focusTargetP_eq]
  exact ⟨fun _ => rfl, C16_targets_sum_to_image n hn d h0 h1 _, fun _ => rfl, C16_targets_sum_to_image n hn d h0 h1 _⟩

/-- generated `set_targets` (both classes): a single plane reproduces the image, whatever the depth value -/
theorem C16_gen_single_plane (d : ℝ) (img : Nat → ℝ) (ch : Nat) :
    planeTargetM d 1 img 0 ch = img ch ∧ planeTargetP d 1 img 0 ch = img ch := by
  rw [planeTargetM_eq, planeTargetP_eq]
  exact ⟨C16_single_plane d _, C16_single_plane d _⟩

/-- generated `slice_rgbd_targets`: one slice per interval; for sorted plane positions spanning the depth value exactly one slice
    has mask 1 at the pixel, every mask is 0 or 1, and target = image · mask (so the slices sum to the image) -/
theorem C16_gen_slice_rgbd_partition (ps : List ℝ) (d : ℝ) (img : Nat → ℝ) (ch : Nat) (hlen : 2 ≤ ps.length)
    (hsorted : ps.Pairwise (· ≤ ·))
    (hlo : ps[0]'(by omega) ≤ d) (hhi : d ≤ ps[ps.length - 1]'(by omega)) :
    (∃! t : Nat, t < sliceTargetTCount ps.length ∧ sliceMaskT img d (posFn ps) ps.length t ch = 1) ∧
    (∀ t : Nat, t < sliceTargetTCount ps.length →
      (sliceMaskT img d (posFn ps) ps.length t ch = 0 ∨ sliceMaskT img d (posFn ps) ps.length t ch = 1) ∧
      sliceTargetT img d (posFn ps) ps.length t ch = img ch * sliceMaskT img d (posFn ps) ps.length t ch) := by
  have hmask : ∀ t, t < sliceTargetTCount ps.length →
      sliceMaskT img d (posFn ps) ps.length t ch = if inSlice ps (t + 1) d = true then 1 else 0 := by
    intro t ht
    rw [sliceTargetTCount_eq] at ht
    exact sliceMaskT_eq ps img d t ch (by omega)
  obtain ⟨⟨i, ⟨hi1, hi, hid⟩, huniq⟩, _⟩ := C16_slice_rgbd_partition ps d hlen hsorted hlo hhi
  constructor
  · refine ⟨i - 1, ⟨by rw [sliceTargetTCount_eq]; omega, ?_⟩, ?_⟩
    · rw [hmask _ (by rw [sliceTargetTCount_eq]; omega), Nat.sub_add_cancel hi1, if_pos hid]
    · rintro t ⟨ht, hm⟩
      rw [hmask t ht] at hm
      rw [sliceTargetTCount_eq] at ht
      by_cases hin : inSlice ps (t + 1) d = true
      · have := huniq (t + 1) ⟨by omega, by omega, hin⟩
        omega
      · rw [if_neg hin] at hm; exact absurd hm zero_ne_one
  · intro t ht
    refine ⟨?_, sliceTargetT_eq ps img d t ch⟩
    rw [hmask t ht]
    by_cases hin : inSlice ps (t + 1) d = true
    · right; rw [if_pos hin]
    · left; rw [if_neg hin]

end Odak

/-! ## "Adding defocus blur leaves each plane's in-focus pixels unchanged"
  (`multiplane_loss.add_defocus_blur`, identical in `perceptual_multiplane_loss`; `generate_2d_gaussian`).

  Hand-written model: `OdakModel/Defocus.lean`, one pixel of one channel; one output pixel of `conv2d(…, padding = 'same')` is the
  weighted sum `convSame` over the `L × L` taps (`OdakModel/DefocusPrelude.lean`).  For the pair of planes `i = j` the code asks for
  sigma `0.`, which `generate_2d_gaussian` replaces by `1e-5`: the kernel is not the unit impulse but a Gaussian of width `1e-5`
  sampled at spacing `L / (L - 1) > 1`.  Over ℝ its off-centre mass `eps` is positive; the theorems bound it by
  `(L² - 1) · exp(-5·10⁹)` and the in-focus pixel moves by at most `2 · eps · max|image|` (times `|multiplier|`).
  In IEEE arithmetic `exp(-5·10⁹)` underflows to `0`, the kernel IS the unit impulse and the pixel is reproduced bit for bit:
  that half is monitored on the real kernels by `harness/props/gendefocus.py`, not proved. -/
namespace Odak

/-- `__init__` makes the kernel side odd -/
theorem C16_blur_size_odd (b : Nat) : blurSize b % 2 = 1 := by
  unfold blurSize
  split_ifs with h <;> omega

/-- (1) an odd number `L = 2c + 1 ≥ 3` of samples of `linspace(-L/2, L/2, L)`: the centre sample is exactly `0`, every other sample
    is at distance at least the spacing `L / (L - 1) > 1` from it -/
theorem C16_defocus_kernel_grid (c : Nat) (hc : 1 ≤ c) :
    (gaussPos (2 * c + 1) c : ℝ) = 0 ∧
    (∀ a : Nat, a ≠ c → (2 * (c : ℝ) + 1) / (2 * c) ≤ |(gaussPos (2 * c + 1) a : ℝ)|) ∧
    (1 : ℝ) < (2 * (c : ℝ) + 1) / (2 * c) := by
  refine ⟨gaussPos_centre c hc, fun a ha => gaussPos_off c a hc ha, ?_⟩
  have hc' : (0 : ℝ) < c := by exact_mod_cast hc
  rw [lt_div_iff₀ (by positivity)]
  linarith

/-- for `blur_ratio ≥ 0` every kernel handed to `conv2d` is a family of weights: non-negative with sum 1 -/
theorem C16_defocus_kernels_are_weights (L : Nat) (hL : 0 < L) (ratio : ℝ) (hr : 0 ≤ ratio) (i j : Nat) :
    (∀ a b, 0 ≤ defocusKernel L ratio i j a b) ∧ gridSumR L L (defocusKernel L ratio i j) = 1 :=
  defocusKernel_weights L hL ratio hr i j

/-- (2) the `i = j` kernel on an odd grid `L = 2c + 1 ≥ 3`: non-negative, sum 1, every off-centre weight at most `exp(-5·10⁹)`
    (`= exp(-1 / (2 · (1e-5)²))`), hence off-centre mass `1 - K[c, c]` between `0` and `(L² - 1) · exp(-5·10⁹)` -/
theorem C16_defocus_infocus_kernel (c : Nat) (hc : 1 ≤ c) (ratio : ℝ) (i : Nat) :
    (∀ a b, 0 ≤ defocusKernel (2 * c + 1) ratio i i a b) ∧
    gridSumR (2 * c + 1) (2 * c + 1) (defocusKernel (2 * c + 1) ratio i i) = 1 ∧
    (∀ a b : Fin (2 * c + 1), ¬ (a.val = c ∧ b.val = c) → defocusKernel (2 * c + 1) ratio i i a b ≤ Real.exp (-5000000000)) ∧
    0 ≤ 1 - defocusKernel (2 * c + 1) ratio i i ⟨c, by omega⟩ ⟨c, by omega⟩ ∧
    1 - defocusKernel (2 * c + 1) ratio i i ⟨c, by omega⟩ ⟨c, by omega⟩ ≤
      (((2 * c + 1) * (2 * c + 1) - 1 : ℕ) : ℝ) * Real.exp (-5000000000) := by
  rw [defocusKernel_self]
  obtain ⟨h1, h2⟩ := impulseKernel_weights (2 * c + 1) (by omega)
  exact ⟨h1, h2, fun a b hab => impulseKernel_off c hc a b hab, (defocusEps_bounds c hc).1, (defocusEps_bounds c hc).2⟩

/-- the image the kernels are applied to: `target = Σ_p targets_cache[p]` of the in-focus targets of `set_targets` is the image
    (depth in `[0, 1]`) -/
theorem C16_defocus_target_is_image (n : Nat) (hn : 1 ≤ n) (d img : Int → Int → ℝ) (dy dx : Int)
    (h0 : 0 ≤ d dy dx) (h1 : d dy dx ≤ 1) :
    sumTarget n (fun p y x => planeTarget n p (d y x) (img y x)) dy dx = img dy dx := by
  have : sumTarget n (fun p y x => planeTarget n p (d y x) (img y x)) dy dx = focusTarget n (d dy dx) (img dy dx) := by
    simp only [sumTarget, focusTarget, num_ofNat, Nat.cast_zero]
  rw [this, C16_targets_sum_to_image n hn _ h0 h1]

/-- (3) an in-focus pixel of plane `i` (its mask is 1 there, the masks of the other planes are 0; the plane is not empty: its guard
    `sum(targets_cache[i]) > 0` is true), kernel side `L = 2c + 1 ≥ 3`: the stored defocus target differs from
    `multiplier · image(pixel)` by at most `|multiplier| · 2 · eps · M`, `eps ≤ (L² - 1) · exp(-5·10⁹)`, `M` a bound of the
    all-in-focus image `T = Σ_p targets_cache[p]` over the taps - the exact-real content of "unchanged" -/
theorem C16_defocus_keeps_infocus_pixels (planes c : Nat) (hc : 1 ≤ c) (ratio mult : ℝ) (cacheSum : Nat → ℝ)
    (cache mask : Nat → Int → Int → ℝ) (i : Nat) (M : ℝ)
    (hi : i < planes) (hmi : mask i 0 0 = 1) (hm : ∀ j, j < planes → j ≠ i → mask j 0 0 = 0)
    (hguard : 0 < cacheSum i) (hM : ∀ dy dx, |sumTarget planes cache dy dx| ≤ M) :
    |defocusAt planes (2 * c + 1) ratio mult cacheSum cache mask i - mult * sumTarget planes cache 0 0| ≤
      |mult| * (2 * ((((2 * c + 1) * (2 * c + 1) - 1 : ℕ) : ℝ) * Real.exp (-5000000000)) * M) := by
  unfold defocusAt
  simp only [num_ofNat, Nat.cast_zero, num_abs]
  rw [fold_guard_single planes i hi (fun j => 0 < cacheSum j)
    (fun j => convSame (2 * c + 1) (2 * c + 1) (defocusKernel (2 * c + 1) ratio i j) (sumTarget planes cache)) (fun j => mask j 0 0) hmi hm,
    if_pos hguard, defocusKernel_self]
  have h := conv_impulse_near c (sumTarget planes cache) M hM
  have hM0 : 0 ≤ M := le_trans (abs_nonneg _) (hM 0 0)
  have he := (defocusEps_bounds c hc).2
  have : convSame (2 * c + 1) (2 * c + 1) (impulseKernel (2 * c + 1)) (sumTarget planes cache) * mult - mult * sumTarget planes cache 0 0 =
      mult * (convSame (2 * c + 1) (2 * c + 1) (impulseKernel (2 * c + 1)) (sumTarget planes cache) - sumTarget planes cache 0 0) := by ring
  rw [this, abs_mul]
  apply mul_le_mul_of_nonneg_left _ (abs_nonneg _)
  calc _ ≤ 2 * defocusEps c * M := h
    _ ≤ _ := by
      apply mul_le_mul_of_nonneg_right _ hM0
      linarith

/-- what the guard does at such a pixel when it is FALSE (`sum(targets_cache[i]) ≤ 0`): nothing is accumulated, the stored value is 0.
    For a non-negative image a false guard means that plane `i` is empty, so the pixel was 0 before; for an image with negative values
    the pixel is lost (the harness assumes images `≥ 0`) -/
theorem C16_defocus_guard_false_infocus (planes L : Nat) (ratio mult : ℝ) (cacheSum : Nat → ℝ) (cache mask : Nat → Int → Int → ℝ) (i : Nat)
    (hi : i < planes) (hmi : mask i 0 0 = 1) (hm : ∀ j, j < planes → j ≠ i → mask j 0 0 = 0) (hguard : ¬ 0 < cacheSum i) :
    defocusAt planes L ratio mult cacheSum cache mask i = 0 := by
  unfold defocusAt
  simp only [num_ofNat, Nat.cast_zero, num_abs]
  rw [fold_guard_single planes i hi (fun j => 0 < cacheSum j)
    (fun j => convSame L L (defocusKernel L ratio i j) (sumTarget planes cache)) (fun j => mask j 0 0) hmi hm, if_neg hguard, zero_mul]

/-- (4) with the guard false for every plane the target stays 0, at every pixel and for every plane `i` -/
theorem C16_defocus_all_guards_false (planes L : Nat) (ratio mult : ℝ) (cacheSum : Nat → ℝ) (cache mask : Nat → Int → Int → ℝ) (i : Nat)
    (hg : ∀ j, j < planes → ¬ 0 < cacheSum j) :
    defocusAt planes L ratio mult cacheSum cache mask i = 0 := by
  unfold defocusAt
  simp only [num_ofNat, Nat.cast_zero]
  rw [fold_guard_none (List.range planes) (fun j => 0 < cacheSum j) _ 0 (fun j hj => hg j (List.mem_range.mp hj)), zero_mul]

/-! ### non-vacuity: `L = 5`, two planes, the pixel in plane 0 -/
example : (gaussPos 5 2 : ℝ) = 0 ∧ (5 : ℝ) / 4 ≤ |(gaussPos 5 1 : ℝ)| := by
  have h := C16_defocus_kernel_grid 2 (by norm_num)
  refine ⟨h.1, ?_⟩
  have := h.2.1 1 (by norm_num)
  norm_num at this ⊢
  exact this

example (cache : Nat → Int → Int → ℝ) (M : ℝ) (hM : ∀ dy dx, |sumTarget 2 cache dy dx| ≤ M) :
    |defocusAt 2 5 (1 / 4) 1 (fun _ => 1) cache (fun p _ _ => if p = 0 then 1 else 0) 0 - 1 * sumTarget 2 cache 0 0| ≤
      |(1 : ℝ)| * (2 * (((5 * 5 - 1 : ℕ) : ℝ) * Real.exp (-5000000000)) * M) :=
  C16_defocus_keeps_infocus_pixels 2 2 (by norm_num) (1 / 4) 1 (fun _ => 1) cache (fun p _ _ => if p = 0 then 1 else 0) 0 M
    (by norm_num) (by simp) (by intro j hj hj0; simp [hj0]) (by norm_num) hM

end Odak

/-! ## The same conclusions for the defocus code REGENERATED from the Python source (`Generated/Defocus.lean`, tied to the model by
  `Lemmas/GenDefocus.lean`): `…M` = `multiplane_loss`, `…P` = `perceptual_multiplane_loss`. -/
namespace Odak
open Odak.Gen

/-- generated `__init__` (both classes): the kernel side is odd -/
theorem C16_gen_blur_size_odd (b : Nat) : blurSizeM b % 2 = 1 ∧ blurSizeP b % 2 = 1 := by
  rw [blurSizeM_eq, blurSizeP_eq]
  exact ⟨C16_blur_size_odd b, C16_blur_size_odd b⟩

/-- generated `add_defocus_blur` (both classes): both sigmas handed to `generate_2d_gaussian` for `i = j` are `0.`, and for
    `blur_ratio ≥ 0` every kernel handed to `conv2d` (the generated `generate_2d_gaussian`, normalised) is non-negative with sum 1 -/
theorem C16_gen_defocus_kernels_are_weights (L : Nat) (hL : 0 < L) (ratio : ℝ) (hr : 0 ≤ ratio) (i j : Nat) :
    defocusSigmaM ratio i i = (0, 0) ∧ defocusSigmaP ratio i i = (0, 0) ∧
    ((∀ a b, 0 ≤ defocusKernelM L ratio i j a b) ∧ gridSumR L L (defocusKernelM L ratio i j) = 1) ∧
    ((∀ a b, 0 ≤ defocusKernelP L ratio i j a b) ∧ gridSumR L L (defocusKernelP L ratio i j) = 1) := by
  have hM : defocusKernelM L ratio i j = defocusKernel L ratio i j := by funext a b; exact defocusKernelM_eq L ratio i j a b
  have hP : defocusKernelP L ratio i j = defocusKernel L ratio i j := by funext a b; exact defocusKernelP_eq L ratio i j a b
  rw [hM, hP, defocusSigmaM_eq, defocusSigmaP_eq, defocusSigma_self]
  refine ⟨by simp, by simp, ?_, ?_⟩ <;> exact C16_defocus_kernels_are_weights L hL ratio hr i j

/-- generated `add_defocus_blur` (both classes), the `i = j` kernel on an odd grid `L = 2c + 1 ≥ 3`: off-centre weights at most
    `exp(-5·10⁹)`, off-centre mass at most `(L² - 1) · exp(-5·10⁹)` -/
theorem C16_gen_defocus_infocus_kernel (c : Nat) (hc : 1 ≤ c) (ratio : ℝ) (i : Nat) :
    ((∀ a b : Fin (2 * c + 1), ¬ (a.val = c ∧ b.val = c) → defocusKernelM (2 * c + 1) ratio i i a b ≤ Real.exp (-5000000000)) ∧
      1 - defocusKernelM (2 * c + 1) ratio i i ⟨c, by omega⟩ ⟨c, by omega⟩ ≤ (((2 * c + 1) * (2 * c + 1) - 1 : ℕ) : ℝ) * Real.exp (-5000000000)) ∧
    ((∀ a b : Fin (2 * c + 1), ¬ (a.val = c ∧ b.val = c) → defocusKernelP (2 * c + 1) ratio i i a b ≤ Real.exp (-5000000000)) ∧
      1 - defocusKernelP (2 * c + 1) ratio i i ⟨c, by omega⟩ ⟨c, by omega⟩ ≤ (((2 * c + 1) * (2 * c + 1) - 1 : ℕ) : ℝ) * Real.exp (-5000000000)) := by
  simp only [defocusKernelM_eq, defocusKernelP_eq]
  obtain ⟨_, _, h3, _, h5⟩ := C16_defocus_infocus_kernel c hc ratio i
  exact ⟨⟨h3, h5⟩, ⟨h3, h5⟩⟩

/-- generated `add_defocus_blur` (both classes): an in-focus pixel of a non-empty plane keeps its value up to
    `|multiplier| · 2 · (L² - 1) · exp(-5·10⁹) · max|image|`; with a false guard of its own plane it becomes 0; with every guard false
    every target is 0 -/
theorem C16_gen_defocus_keeps_infocus_pixels (planes c : Nat) (hc : 1 ≤ c) (ratio mult : ℝ) (cacheSum : Nat → ℝ)
    (cache mask : Nat → Int → Int → ℝ) (i : Nat) (M : ℝ)
    (hi : i < planes) (hmi : mask i 0 0 = 1) (hm : ∀ j, j < planes → j ≠ i → mask j 0 0 = 0)
    (hM : ∀ dy dx, |sumTarget planes cache dy dx| ≤ M) :
    (0 < cacheSum i →
      |defocusTargetM planes (2 * c + 1) ratio mult cacheSum cache mask i - mult * sumTarget planes cache 0 0| ≤
        |mult| * (2 * ((((2 * c + 1) * (2 * c + 1) - 1 : ℕ) : ℝ) * Real.exp (-5000000000)) * M) ∧
      |defocusTargetP planes (2 * c + 1) ratio mult cacheSum cache mask i - mult * sumTarget planes cache 0 0| ≤
        |mult| * (2 * ((((2 * c + 1) * (2 * c + 1) - 1 : ℕ) : ℝ) * Real.exp (-5000000000)) * M)) ∧
    (¬ 0 < cacheSum i →
      defocusTargetM planes (2 * c + 1) ratio mult cacheSum cache mask i = 0 ∧
      defocusTargetP planes (2 * c + 1) ratio mult cacheSum cache mask i = 0) := by
  simp only [defocusTargetM_eq, defocusTargetP_eq]
  constructor
  · intro hg
    have := C16_defocus_keeps_infocus_pixels planes c hc ratio mult cacheSum cache mask i M hi hmi hm hg hM
    exact ⟨this, this⟩
  · intro hg
    have := C16_defocus_guard_false_infocus planes (2 * c + 1) ratio mult cacheSum cache mask i hi hmi hm hg
    exact ⟨this, this⟩

/-- generated `add_defocus_blur` (both classes): with the guard false for every plane every target stays 0 -/
theorem C16_gen_defocus_all_guards_false (planes L : Nat) (ratio mult : ℝ) (cacheSum : Nat → ℝ) (cache mask : Nat → Int → Int → ℝ) (i : Nat)
    (hg : ∀ j, j < planes → ¬ 0 < cacheSum j) :
    defocusTargetM planes L ratio mult cacheSum cache mask i = 0 ∧ defocusTargetP planes L ratio mult cacheSum cache mask i = 0 := by
  rw [defocusTargetM_eq, defocusTargetP_eq]
  exact ⟨C16_defocus_all_guards_false planes L ratio mult cacheSum cache mask i hg,
    C16_defocus_all_guards_false planes L ratio mult cacheSum cache mask i hg⟩

end Odak

/-! ## The OBJECTS `multiplane_loss` / `perceptual_multiplane_loss` regenerated from the Python source on this run (work package 13)
  (`OdakModel/Generated/LossObjects.lean`, written by `harness/translate/lossobjects.py`: EVERY attribute the classes store anywhere is a
  field; `__init__`, `get_targets`, `__call__` are step functions over (attributes, heap of tensor objects); `set_targets` and
  `add_defocus_blur` - whose per-pixel content is the subject of the theorems above - enter by their recomputed effect signatures).
  These theorems are about WHAT `get_targets` hands out and what `__call__` depends on, for every list of calls.  They stop compiling when
  `get_targets` memoises its tuple or hands out an attribute without `clone`, when `__call__` keeps something between calls, or when a
  class gains an attribute. -/
namespace Odak
open Gen
variable {T R : Type} [DecidableEq R]
set_option linter.unusedSectionVars false

/-- the regenerated state structures have exactly the reviewed attributes -/
theorem C16_gen_loss_object_attributes : mplFields = mplObjFields ∧ pmplFields = pmplObjFields := ⟨rfl, rfl⟩

/-- **`get_targets` is a pure function of the constructor arguments, for every list of calls, and hands out copies**: on a
    `multiplane_loss` built by the regenerated `__init__`, in ANY list of calls (`get_targets`, `__call__`, and the caller overwriting any
    tensor he can name - his own image and depth map, everything `get_targets` returned earlier) every `get_targets` returns
    `mplTargets`: the contents `set_targets` / `add_defocus_blur` computed from the constructor arguments, the depth divided by the divider.
    What it returns are VALUES (type `T × T × T`, not heap locations): new tensors that share nothing with the object; every `__call__`
    returns `mplLoss` of the masks and its own arguments -/
theorem C16_gen_get_targets_every_call_list (E : LossObjOps T R) (a : MplArgs R) (h : Heap T) (o : MplObj T R) (h' : Heap T)
    (hi : mplInit E a h = some (o, h')) :
    ∃ tv fv dv mv, mplInitCall E a h = some (o.toSelf, h', (), mplInitLog a) ∧
      ∀ (xs : List (LCall T)) (zs : List (LRet T)), (∀ x ∈ xs, x.valid o) →
        runSteps (mplRefStep E o tv fv dv mv) () xs = some ((), zs) →
        ∃ h'', runSteps (mplStep E) (o.toSelf, h') xs = some ((o.toSelf, h''), zs) := by
  obtain ⟨tv, fv, dv, mv, inv, -⟩ := mplInit_inv E a h o h' hi
  refine ⟨tv, fv, dv, mv, gen_mplInitG_eq E a h o h' hi, fun xs zs hv href => ?_⟩
  obtain ⟨h'', e, -⟩ := mpl_run E o tv fv dv mv xs h' inv hv zs href
  exact ⟨h'', e⟩

/-- one `get_targets` call: the attributes and every object are left as they are (the returned tensors are not the attributes) -/
theorem C16_gen_get_targets_returns_copies (E : LossObjOps T R) (o : MplObj T R) (h : Heap T) (tv fv dv mv : T) (inv : MplInv o h tv fv dv mv) :
    mplGetTargetsG E o.toSelf h = some (o.toSelf, h, mplTargets E o tv fv dv, []) ∧
    (mplTargets E o tv fv dv).1 = tv ∧ (mplTargets E o tv fv dv).2.1 = fv :=
  ⟨gen_mplGetTargetsG_eq E o h tv fv dv mv inv, rfl, rfl⟩

/-- the four objects the loss reads are its own: `__init__` creates them (the caller's image stays referenced as `target_image`, which
    neither `get_targets` nor `__call__` reads; the caller's depth map is not kept) and leaves every object of the caller untouched -/
theorem C16_gen_targets_are_private_objects (E : LossObjOps T R) (a : MplArgs R) (h : Heap T) (o : MplObj T R) (h' : Heap T)
    (hi : mplInit E a h = some (o, h')) :
    h.size ≤ o.targets ∧ h.size ≤ o.focus_target ∧ h.size ≤ o.target_depth ∧ h.size ≤ o.masks ∧ o.target_image = a.target_image ∧
      ∀ l, l < h.size → h'.get l = h.get l := by
  obtain ⟨tv, fv, dv, mv, -, h1, h2, h3, h4, h5, h6⟩ := mplInit_inv E a h o h' hi
  exact ⟨h1, h2, h3, h4, h5, h6⟩

/-- the same for `perceptual_multiplane_loss`: for every list of calls from a state in which its four objects hold (tv, fv, dv, mv),
    `get_targets` returns copies of (tv, fv, dv / divider) and `__call__` - which stores nothing - a value computed from the attributes it
    reads and its own arguments -/
theorem C16_gen_perceptual_get_targets_every_call_list (E : LossObjOps T R) (o : PmplObj T R) (tv fv dv mv : T) (h : Heap T)
    (inv : PmplInv o h tv fv dv mv) (xs : List (LCall T)) (zs : List (LRet T)) (hv : ∀ x ∈ xs, x.validP o)
    (href : runSteps (pmplRefStep E o tv fv dv mv) () xs = some ((), zs)) :
    ∃ h', runSteps (pmplStep E) (o.toSelf, h) xs = some ((o.toSelf, h'), zs) := by
  obtain ⟨h', e, -⟩ := pmpl_run E o tv fv dv mv xs h inv hv zs href
  exact ⟨h', e⟩

/-- `__call__` of both classes is history independent: after ANY list of earlier calls it returns the value of the reference semantics,
    which looks at the constructed object and the arguments of this call only -/
theorem C16_gen_loss_call_history_independent (E : LossObjOps T R) (o : MplObj T R) (tv fv dv mv : T) (h : Heap T) (inv : MplInv o h tv fv dv mv)
    (pre : List (LCall T)) (hv : ∀ x ∈ pre, x.valid o) (zs : List (LRet T)) (hpre : runSteps (mplRefStep E o tv fv dv mv) () pre = some ((), zs))
    (image target : T) (plane : Option Int) :
    ∃ h', runSteps (mplStep E) (o.toSelf, h) pre = some ((o.toSelf, h'), zs) ∧
      (mplCallG E o.toSelf h' image target plane).map (fun r => r.2.2.1) = (mplCallG E o.toSelf h image target plane).map (fun r => r.2.2.1) ∧
      (mplCallG E o.toSelf h' image target plane).map (fun r => r.2.2.1) = mplLoss E o mv image target plane := by
  obtain ⟨h', e, inv'⟩ := mpl_run E o tv fv dv mv pre h inv hv zs hpre
  refine ⟨h', e, ?_, ?_⟩
  · rw [gen_mplCallG_eq E o h' tv fv dv mv inv', gen_mplCallG_eq E o h tv fv dv mv inv]; cases mplLoss E o mv image target plane <;> simp
  · rw [gen_mplCallG_eq E o h' tv fv dv mv inv']; cases mplLoss E o mv image target plane <;> simp

end Odak

/-! ## The regenerated `multiplane_loss` object INSTANTIATED with the regenerated slicers (work package 16)
  The object theorems above are abstract over a record `LossObjOps` whose `sliceTargets` stands for "what `set_targets` computes"; the
  partition theorems of the first sections are about the per-pixel slicers.  Here the record is `lossOpsGrid`
  (`OdakModel/LossObjectsInst.lean`): `sliceTargets` IS the regenerated per-pixel slicers applied to every pixel of the tensors the caller
  passed.  One statement, no uninterpreted operation: what `get_targets` of the regenerated object returns, for every list of calls. -/
namespace Odak
open Gen

/-- **`get_targets` of the regenerated object, for every call list, returns targets that partition the image.**  A `multiplane_loss` is
    built by the regenerated `__init__` from the caller's image `ti` (`[C, H, W]`) and depth map `td` (`[H, W]`, values in `[0, 1]`), `n >= 1`
    planes.  There are tensors `tv, fv, dv, mv` such that in ANY list of calls (`get_targets`, `__call__`, the caller overwriting any tensor
    he can name) every `get_targets` returns copies of `(tv, fv, dv / divider)` and every `__call__` reads the masks `mv`, and at every
    pixel: the all-in-focus target `fv` is the image; the quantised depth `dv` is a plane index `< n`; in every channel exactly one plane
    has mask 1 and every mask is 0 or 1; and (without defocus blur) the target of plane `k` is image times mask of plane `k` - so the
    plane targets sum to the image and no pixel is in two planes -/
theorem C16_gen_object_targets_partition_every_call_list (a : MplArgs ℝ) (h : Heap (Ten ℝ)) (o : MplObj (Ten ℝ) ℝ) (h' : Heap (Ten ℝ))
    (hi : mplInit lossOpsGrid a h = some (o, h')) (ti td : Ten ℝ) (hti : h.get a.target_image = some ti) (htd : h.get a.target_depth = some td)
    (n : Nat) (hn : a.number_of_planes = (n : Int)) (hn1 : 1 ≤ n) (hdep : ∀ i j, 0 ≤ (td.el [i, j]).re ∧ (td.el [i, j]).re ≤ 1) :
    ∃ tv fv dv mv : Ten ℝ, mplInitCall lossOpsGrid a h = some (o.toSelf, h', (), mplInitLog a) ∧
      (∀ (xs : List (LCall (Ten ℝ))) (zs : List (LRet (Ten ℝ))), (∀ x ∈ xs, x.valid o) →
        runSteps (mplRefStep lossOpsGrid o tv fv dv mv) () xs = some ((), zs) →
        ∃ h'', runSteps (mplStep lossOpsGrid) (o.toSelf, h') xs = some ((o.toSelf, h''), zs)) ∧
      (∀ (ch : Nat) (i j : Int), fv.el [(ch : Int), i, j] = ⟨(ti.el [(ch : Int), i, j]).re, 0⟩) ∧
      (∀ i j : Int, ∃ p : Nat, p < n ∧ dv.el [i, j] = ⟨(p : ℝ), 0⟩) ∧
      (∀ (ch : Nat) (i j : Int), (∃! k : Nat, k < n ∧ mv.el [(k : Int), (ch : Int), i, j] = ⟨1, 0⟩) ∧
        ∀ k : Nat, k < n → mv.el [(k : Int), (ch : Int), i, j] = ⟨0, 0⟩ ∨ mv.el [(k : Int), (ch : Int), i, j] = ⟨1, 0⟩) ∧
      (a.scheme ≠ "defocus" → ∀ (k ch : Nat) (i j : Int),
        tv.el [(k : Int), (ch : Int), i, j] = ⟨(ti.el [(ch : Int), i, j]).re * (mv.el [(k : Int), (ch : Int), i, j]).re, 0⟩) := by
  obtain ⟨inv, -⟩ := mplInit_inv_values lossOpsGrid a h o h' hi ti td hti htd
  rw [hn] at inv
  refine ⟨(if a.scheme = "defocus" then (lossOpsGrid.defocusTargets a.blurSize ti (lossOpsGrid.sliceTargets td (n : Int) ti).2.1 (n : Int) a.blur_ratio
        (lossOpsGrid.sliceTargets td (n : Int) ti).2.2.2 a.multiplier).2 else (lossOpsGrid.sliceTargets td (n : Int) ti).2.1),
    (lossOpsGrid.sliceTargets td (n : Int) ti).2.2.1, (lossOpsGrid.sliceTargets td (n : Int) ti).1, (lossOpsGrid.sliceTargets td (n : Int) ti).2.2.2,
    gen_mplInitG_eq lossOpsGrid a h o h' hi, fun xs zs hv href => ?_, fun ch i j => ?_, fun i j => ?_, fun ch i j => ?_, fun hs k ch i j => ?_⟩
  · obtain ⟨h'', e, -⟩ := mpl_run lossOpsGrid o _ _ _ _ xs h' inv hv zs href
    exact ⟨h'', e⟩
  · rw [sliceTargets_focus_el]
    have := (C16_gen_targets_sum_to_image n hn1 (td.el [i, j]).re (hdep i j).1 (hdep i j).2 (pixelImage ti i j) ch).2.1
    rw [this]; rfl
  · rw [sliceTargets_depth_el]
    obtain ⟨p, hp, e, -⟩ := C16_gen_round_is_plane_index n hn1 (td.el [i, j]).re (hdep i j).1 (hdep i j).2 (pixelImage ti i j)
    exact ⟨p, hp, by rw [e]⟩
  · obtain ⟨⟨⟨k0, ⟨hk0, hm0⟩, huniq⟩, h01⟩, -⟩ := C16_gen_masks_partition n hn1 (td.el [i, j]).re (hdep i j).1 (hdep i j).2 (pixelImage ti i j) ch
    refine ⟨⟨k0, ⟨hk0, by rw [sliceTargets_mask_el, hm0]⟩, ?_⟩, fun k hk => ?_⟩
    · rintro k ⟨hk, hm⟩
      rw [sliceTargets_mask_el] at hm
      exact huniq k ⟨hk, by injection hm⟩
    · rw [sliceTargets_mask_el]
      rcases h01 k hk with e | e
      · left; rw [e]
      · right; rw [e]
  · simp only [hs, if_false]
    rw [sliceTargets_target_el, sliceTargets_mask_el]
    rw [(C16_gen_targets_sum_to_image n hn1 (td.el [i, j]).re (hdep i j).1 (hdep i j).2 (pixelImage ti i j) ch).1 k]
    rfl

/-- in the reference semantics of the previous theorem `get_targets` always has a value: the copies of `(tv, fv, dv / divider)` -/
theorem C16_gen_object_get_targets_value (o : MplObj (Ten ℝ) ℝ) (tv fv dv mv : Ten ℝ) :
    mplRefStep lossOpsGrid o tv fv dv mv () .getTargets =
      some ((), .targets tv fv (lossOpsGrid.div dv (lossOpsGrid.int (if o.number_of_planes - 1 = 0 then 1 else o.number_of_planes - 1)))) := rfl

/-- non-vacuity: for any image and depth tensors of the caller the regenerated `__init__` with the grid-model operations builds the object
    (four planes, no defocus blur) -/
example (ti td : Ten ℝ) :
    (mplInit (lossOpsGrid : LossObjOps (Ten ℝ) ℝ) ⟨0, 1, 1 / 4, 10, 4, [1, 1, 1], 1, "naive", "mean"⟩ ⟨[ti, td]⟩).isSome = true := by
  simp [mplInit, Heap.get]

end Odak
