import OdakProofs.Lemmas.Colour
import OdakProofs.Lemmas.GenColourHsv
import OdakProofs.Lemmas.GenColourLab
import OdakProofs.Lemmas.GenColourLab2
import OdakProofs.Lemmas.GenColourLab3
import OdakProofs.Lemmas.GenColourLms
import OdakProofs.Lemmas.LabRoundTrip

/-! # C15 – colour-space conversions invert each other and match the published standards
  The per-pixel conversion functions are regenerated from `/repo`
  (`odak/learn/perception/color_conversion.py`) as `Odak.Gen.*`; HSV is the hand model of
  `OdakModel/Colour.lean`. -/
namespace Odak
open Odak.Gen

/-! ## YCrCb (BT.601) -/

/-- RGB → YCrCb → RGB returns every channel within 2·10⁻³ on the unit cube (the published rounded
    BT.601 coefficients are not exact inverses of each other; the true worst case, at a cube vertex, is ≈ 2.8·10⁻⁴,
    see `C15_ycrcb_roundtrip_sharp`) -/
theorem C15_ycrcb_roundtrip (c : Vec3 ℝ) (hx : 0 ≤ c.x ∧ c.x ≤ 1) (hy : 0 ≤ c.y ∧ c.y ≤ 1)
    (hz : 0 ≤ c.z ∧ c.z ≤ 1) :
    |(ycrcb2rgb (rgb2ycrcb c)).x - c.x| ≤ 2 / 1000 ∧
    |(ycrcb2rgb (rgb2ycrcb c)).y - c.y| ≤ 2 / 1000 ∧
    |(ycrcb2rgb (rgb2ycrcb c)).z - c.z| ≤ 2 / 1000 := by
  obtain ⟨hx0, hx1⟩ := hx; obtain ⟨hy0, hy1⟩ := hy; obtain ⟨hz0, hz1⟩ := hz
  simp only [rgb2ycrcb, ycrcb2rgb, num_ofSci]
  refine ⟨?_, ?_, ?_⟩ <;> rw [abs_le] <;> constructor <;> norm_num <;> linarith

theorem C15_ycrcb_roundtrip_sharp (c : Vec3 ℝ) (hx : 0 ≤ c.x ∧ c.x ≤ 1) (hy : 0 ≤ c.y ∧ c.y ≤ 1)
    (hz : 0 ≤ c.z ∧ c.z ≤ 1) :
    |(ycrcb2rgb (rgb2ycrcb c)).x - c.x| ≤ 3 / 10000 ∧
    |(ycrcb2rgb (rgb2ycrcb c)).y - c.y| ≤ 3 / 10000 ∧
    |(ycrcb2rgb (rgb2ycrcb c)).z - c.z| ≤ 3 / 10000 := by
  obtain ⟨hx0, hx1⟩ := hx; obtain ⟨hy0, hy1⟩ := hy; obtain ⟨hz0, hz1⟩ := hz
  simp only [rgb2ycrcb, ycrcb2rgb, num_ofSci]
  refine ⟨?_, ?_, ?_⟩ <;> rw [abs_le] <;> constructor <;> norm_num <;> linarith

/-- BT.601 luma, white ↦ Y = 1, greys have zero chroma (offset 0.5) -/
theorem C15_ycrcb_standard :
    (∀ c : Vec3 ℝ, (rgb2ycrcb c).x = 0.299 * c.x + 0.587 * c.y + 0.114 * c.z) ∧
    (rgb2ycrcb (⟨1, 1, 1⟩ : Vec3 ℝ)).x = 1 ∧
    (∀ g : ℝ, (rgb2ycrcb (⟨g, g, g⟩ : Vec3 ℝ)).y = 1 / 2 ∧ (rgb2ycrcb (⟨g, g, g⟩ : Vec3 ℝ)).z = 1 / 2) := by
  refine ⟨?_, ?_, ?_⟩
  · intro c; simp only [rgb2ycrcb, num_ofSci]; norm_num
  · simp only [rgb2ycrcb, num_ofSci]; norm_num
  · intro g; simp only [rgb2ycrcb, num_ofSci]; constructor <;> norm_num <;> ring

/-! ## linear RGB ↔ CIE XYZ (sRGB primaries, D65) -/

/-- linear RGB → XYZ → linear RGB returns every channel within 2·10⁻⁶ on the unit cube
    (six-digit published matrices; true worst case ≈ 1.36·10⁻⁶) -/
theorem C15_xyz_roundtrip (c : Vec3 ℝ) (hx : 0 ≤ c.x ∧ c.x ≤ 1) (hy : 0 ≤ c.y ∧ c.y ≤ 1)
    (hz : 0 ≤ c.z ∧ c.z ≤ 1) :
    |(xyzToLinearRgb (linearRgbToXyz c)).x - c.x| ≤ 2 / 1000000 ∧
    |(xyzToLinearRgb (linearRgbToXyz c)).y - c.y| ≤ 2 / 1000000 ∧
    |(xyzToLinearRgb (linearRgbToXyz c)).z - c.z| ≤ 2 / 1000000 := by
  obtain ⟨hx0, hx1⟩ := hx; obtain ⟨hy0, hy1⟩ := hy; obtain ⟨hz0, hz1⟩ := hz
  simp only [linearRgbToXyz, xyzToLinearRgb, num_ofSci]
  refine ⟨?_, ?_, ?_⟩ <;> rw [abs_le] <;> constructor <;> norm_num <;> linarith

/-- the forward matrix is the published sRGB/D65 matrix and white ↦ Y = 1 -/
theorem C15_xyz_white :
    (∀ c : Vec3 ℝ, linearRgbToXyz c =
      ⟨0.412453 * c.x + 0.357580 * c.y + 0.180423 * c.z,
       0.212671 * c.x + 0.715160 * c.y + 0.072169 * c.z,
       0.019334 * c.x + 0.119193 * c.y + 0.950227 * c.z⟩) ∧
    (linearRgbToXyz (⟨1, 1, 1⟩ : Vec3 ℝ)).y = 1 := by
  constructor
  · intro c
    apply Vec3.ext' <;> simp only [linearRgbToXyz, num_ofSci] <;> norm_num
  · simp only [linearRgbToXyz, num_ofSci]; norm_num

/-- the backward matrix is the published XYZ → linear sRGB matrix -/
theorem C15_xyz_inverse_standard (c : Vec3 ℝ) :
    xyzToLinearRgb c =
      ⟨3.240479 * c.x + -1.537150 * c.y + -0.498535 * c.z,
       -0.969256 * c.x + 1.875992 * c.y + 0.041556 * c.z,
       0.055648 * c.x + -0.204043 * c.y + 1.057311 * c.z⟩ := by
  apply Vec3.ext' <;> simp only [xyzToLinearRgb, num_ofSci] <;> norm_num

/-! ## opponent stage -/

theorem C15_opponent_stage_matches_table (l m s : ℝ) :
    opponentStage (⟨l, m, s⟩ : Vec3 ℝ) = ⟨(m + s) - l, (l + s) - m, l + m + s⟩ := by
  apply Vec3.ext' <;> simp only [opponentStage]

/-! ## sRGB transfer function -/

/-- both branches of both transfer functions are strictly increasing -/
theorem C15_srgb_branches_increasing :
    StrictMonoOn (srgbToLinear : ℝ → ℝ) (Set.Ioi 0.04045) ∧
    StrictMonoOn (srgbToLinear : ℝ → ℝ) (Set.Iic 0.04045) ∧
    StrictMonoOn (linearToSrgb : ℝ → ℝ) (Set.Ioi 0.0031308) ∧
    StrictMonoOn (linearToSrgb : ℝ → ℝ) (Set.Iic 0.0031308) := by
  refine ⟨?_, ?_, ?_, ?_⟩
  · intro x hx y hy hxy
    simp only [Set.mem_Ioi] at hx hy
    rw [srgbToLinear_upper hx, srgbToLinear_upper hy]
    apply rpow_model_lt (by norm_num)
    · apply div_pos _ (by norm_num); norm_num at hx ⊢; linarith
    · apply div_lt_div_of_pos_right _ (by norm_num); linarith
  · intro x hx y hy hxy
    simp only [Set.mem_Iic] at hx hy
    rw [srgbToLinear_lower hx, srgbToLinear_lower hy]
    apply div_lt_div_of_pos_right hxy (by norm_num)
  · intro x hx y hy hxy
    simp only [Set.mem_Ioi] at hx hy
    rw [linearToSrgb_upper hx, linearToSrgb_upper hy]
    have hx0 : 0 < x := by norm_num at hx; linarith
    have := rpow_model_lt (p := 1 / 2.4) (by norm_num) hx0 hxy
    linarith
  · intro x hx y hy hxy
    simp only [Set.mem_Iic] at hx hy
    rw [linearToSrgb_lower hx, linearToSrgb_lower hy]
    linarith

/-- upper branch: sRGB → linear → sRGB is exact -/
theorem C15_srgb_inverse_upper (x : ℝ) (hx : 0.04045 < x) (hy : 0.0031308 < srgbToLinear x) :
    linearToSrgb (srgbToLinear x) = x := by
  rw [linearToSrgb_upper hy, srgbToLinear_upper hx]
  have hr : (0 : ℝ) < (x + 0.055) / 1.055 := by
    apply div_pos _ (by norm_num); norm_num at hx ⊢; linarith
  rw [rpow_model_inv (by norm_num) hr]
  field_simp
  ring

/-- lower branch: sRGB → linear → sRGB is exact up to the *linear* knee `12.92 · 0.0031308`
    (which is slightly below the sRGB knee 0.04045, see `C15_srgb_inverse_lower_gap`) -/
theorem C15_srgb_inverse_lower (x : ℝ) (hx : x ≤ 12.92 * 0.0031308) :
    linearToSrgb (srgbToLinear x) = x := by
  have hx' : x ≤ 0.04045 := by norm_num at hx ⊢; linarith
  rw [srgbToLinear_lower hx']
  have hy : x / 12.92 ≤ 0.0031308 := by
    rw [div_le_iff₀ (by norm_num)]; linarith
  rw [linearToSrgb_lower hy]
  field_simp

/-- upper branch: linear → sRGB → linear is exact -/
theorem C15_linear_inverse_upper (y : ℝ) (hy : 0.0031308 < y) (hx : 0.04045 < linearToSrgb y) :
    srgbToLinear (linearToSrgb y) = y := by
  rw [srgbToLinear_upper hx, linearToSrgb_upper hy]
  have hy0 : 0 < y := by norm_num at hy; linarith
  have e : (1.055 * Real.exp (1 / 2.4 * Real.log y) - 0.055 + 0.055) / 1.055
      = Real.exp (1 / 2.4 * Real.log y) := by field_simp; ring
  rw [e, rpow_model_inv (by norm_num) hy0]

/-- lower branch: linear → sRGB → linear is exact on the whole lower branch -/
theorem C15_linear_inverse_lower (y : ℝ) (hy : y ≤ 0.0031308) :
    srgbToLinear (linearToSrgb y) = y := by
  rw [linearToSrgb_lower hy]
  have hx : 12.92 * y ≤ 0.04045 := by norm_num at hy ⊢; linarith
  rw [srgbToLinear_lower hx]
  field_simp

/-- the two branches of `srgbToLinear` meet at the knee 0.04045 without a downward jump and within
    10⁻⁶ on the next 10⁻⁵ of the upper branch (the one-sided jump itself is ≈ 2.3·10⁻⁹) -/
theorem C15_srgb_knee_gap (x : ℝ) (h1 : 0.04045 < x) (h2 : x ≤ 0.04046) :
    0 < srgbToLinear x - srgbToLinear 0.04045 ∧ srgbToLinear x - srgbToLinear 0.04045 ≤ 1 / 1000000 := by
  rw [srgbToLinear_lower le_rfl, srgbToLinear_upper h1]
  have hk : (0 : ℝ) < (0.04045 + 0.055) / 1.055 := by norm_num
  have hlo : (0.04045 : ℝ) / 12.92 < Real.exp (2.4 * Real.log ((0.04045 + 0.055) / 1.055)) :=
    rpow_model_gt_of_pow 5 12 hk (by norm_num) (by norm_num)
  have hmono : Real.exp (2.4 * Real.log ((0.04045 + 0.055) / 1.055))
      < Real.exp (2.4 * Real.log ((x + 0.055) / 1.055)) :=
    rpow_model_lt (by norm_num) hk (div_lt_div_of_pos_right (by linarith) (by norm_num))
  have hr : (0 : ℝ) < (x + 0.055) / 1.055 := by
    apply div_pos _ (by norm_num); norm_num at h1 ⊢; linarith
  have hhi : Real.exp (2.4 * Real.log ((0.04046 + 0.055) / 1.055)) < 0.04045 / 12.92 + 1 / 1000000 :=
    rpow_model_lt_of_pow 5 12 (by norm_num) (by norm_num) (by norm_num) (by norm_num)
  have hmono2 : Real.exp (2.4 * Real.log ((x + 0.055) / 1.055))
      ≤ Real.exp (2.4 * Real.log ((0.04046 + 0.055) / 1.055)) := by
    rcases h2.lt_or_eq with h | h
    · exact (rpow_model_lt (by norm_num) hr (div_lt_div_of_pos_right (by linarith) (by norm_num))).le
    · rw [h]
  constructor <;> linarith

/-- consequently `srgbToLinear` is strictly increasing on all of ℝ -/
theorem C15_srgb_to_linear_strictMono : StrictMono (srgbToLinear : ℝ → ℝ) := by
  intro x y hxy
  obtain ⟨hU, hL, -, -⟩ := C15_srgb_branches_increasing
  by_cases hx : 0.04045 < x
  · exact hU hx (lt_trans hx hxy) hxy
  · have hx' : x ≤ 0.04045 := not_lt.mp hx
    by_cases hy : 0.04045 < y
    · have h1 : srgbToLinear x ≤ srgbToLinear (0.04045 : ℝ) :=
        hL.monotoneOn hx' (Set.mem_Iic.mpr le_rfl) hx'
      by_cases hy2 : y ≤ 0.04046
      · have := (C15_srgb_knee_gap y hy hy2).1; linarith
      · have h3 := (C15_srgb_knee_gap 0.04046 (by norm_num) le_rfl).1
        have h4 : srgbToLinear (0.04046 : ℝ) < srgbToLinear y :=
          hU (by norm_num) hy (not_le.mp hy2)
        linarith
    · exact hL hx' (not_lt.mp hy) hxy

/-- FINDING: `linearToSrgb` is *not* monotone across its knee: just above 0.0031308 the power
    branch starts ≈ 2.8·10⁻⁸ below the value `12.92 · 0.0031308` of the linear branch -/
theorem C15_linear_to_srgb_knee_drop :
    (0.0031308 : ℝ) < 0.003130801 ∧ linearToSrgb (0.003130801 : ℝ) < linearToSrgb (0.0031308 : ℝ) := by
  refine ⟨by norm_num, ?_⟩
  rw [linearToSrgb_lower le_rfl, linearToSrgb_upper (by norm_num)]
  have h : Real.exp (1 / 2.4 * Real.log (0.003130801 : ℝ)) < (12.92 * 0.0031308 + 0.055) / 1.055 :=
    rpow_model_lt_of_pow 12 5 (by norm_num) (by norm_num) (by norm_num) (by norm_num)
  rw [lt_div_iff₀ (by norm_num)] at h
  linarith

/-- FINDING: on the sliver `(12.92 · 0.0031308, 0.04045]` between the two knees the round trip
    sRGB → linear → sRGB takes the linear branch forth and the power branch back; at the sRGB knee
    itself it does not return the input -/
theorem C15_srgb_inverse_lower_gap : linearToSrgb (srgbToLinear (0.04045 : ℝ)) < 0.04045 := by
  rw [srgbToLinear_lower le_rfl, linearToSrgb_upper (by norm_num)]
  have h : Real.exp (1 / 2.4 * Real.log ((0.04045 : ℝ) / 12.92)) < (0.04045 + 0.055) / 1.055 :=
    rpow_model_lt_of_pow 12 5 (by norm_num) (by norm_num) (by norm_num) (by norm_num)
  rw [lt_div_iff₀ (by norm_num)] at h
  linarith

/-! ## display primaries ↔ LMS -/

/-- primaries → LMS → primaries is the identity whenever the matrix used back is a left inverse
    (for linearly independent primaries `torch.pinverse` returns the inverse – trusted) -/
theorem C15_lms_roundtrip (M Minv : Mat3 ℝ) (h : Minv * M = Mat3.one) (p : Vec3 ℝ) :
    Minv.mulVec (M.mulVec p) = p := by
  rw [← Mat3.mulVec_mul, h, Mat3.one_mulVec]

/-! ## HSV (hexcone model) -/

theorem C15_hsv_grey (eps g : ℝ) : rgbToHsv eps (⟨g, g, g⟩ : Vec3 ℝ) = ⟨0, 0, g⟩ := by
  apply Vec3.ext' <;>
    simp [rgbToHsv, max3, min3, argmax3, maxN_real, minN_real, Num.fmod]

theorem C15_hsv_hue_range (eps : ℝ) (c : Vec3 ℝ) :
    0 ≤ (rgbToHsv eps c).x ∧ (rgbToHsv eps c).x < 2 * Real.pi :=
  hue_range_aux _

/-- `hsv_to_rgb (rgb_to_hsv c)` for every pixel `c` (all six sectors, ties, greys) and every `eps`:
    the maximal channel is returned exactly, the other two are pulled towards it by the factor
    `max / (max + eps)` that the `eps`-regularised saturation introduces -/
theorem C15_hsv_roundtrip (eps : ℝ) (c : Vec3 ℝ) :
    hsvToRgb (rgbToHsv eps c) =
      ⟨max3 c - (max3 c - c.x) * (max3 c / (max3 c + eps)),
       max3 c - (max3 c - c.y) * (max3 c / (max3 c + eps)),
       max3 c - (max3 c - c.z) * (max3 c / (max3 c + eps))⟩ :=
  hsv_roundtrip eps c

/-- without regularisation the round trip is exact (any pixel that is not black/non-positive) -/
theorem C15_hsv_roundtrip_exact (c : Vec3 ℝ) (h : max3 c ≠ 0) : hsvToRgb (rgbToHsv 0 c) = c := by
  rw [hsv_roundtrip]
  apply Vec3.ext' <;> simp only [add_zero, div_self h] <;> ring

/-- with the regularisation `eps > 0` every channel of a non-negative pixel comes back within `eps` -/
theorem C15_hsv_roundtrip_error (eps : ℝ) (heps : 0 < eps) (c : Vec3 ℝ)
    (hx : 0 ≤ c.x) (hy : 0 ≤ c.y) (hz : 0 ≤ c.z) :
    |(hsvToRgb (rgbToHsv eps c)).x - c.x| ≤ eps ∧
    |(hsvToRgb (rgbToHsv eps c)).y - c.y| ≤ eps ∧
    |(hsvToRgb (rgbToHsv eps c)).z - c.z| ≤ eps := by
  rw [hsv_roundtrip]
  obtain ⟨h1, h2, h3⟩ := le_max3 c
  exact ⟨hsv_err heps hx h1, hsv_err heps hy h2, hsv_err heps hz h3⟩

/-! ## CIE L*a*b* -/

/-- sRGB white is Lab white: `L* = 100` exactly and `|a*|, |b*| ≤ 10⁻⁴` (the D65 reference white
    is rounded to 9 digits; the true values are ≈ 4·10⁻⁶ and ≈ 5·10⁻⁷) -/
theorem C15_lab_white :
    (srgbToLab (⟨1, 1, 1⟩ : Vec3 ℝ)).x = 100 ∧
    |(srgbToLab (⟨1, 1, 1⟩ : Vec3 ℝ)).y| ≤ 1 / 10000 ∧
    |(srgbToLab (⟨1, 1, 1⟩ : Vec3 ℝ)).z| ≤ 1 / 10000 := by
  simp only [srgbToLab, powPos_real, num_ofSci, num_ofNat, num_select, Num.maxN]
  refine ⟨?_, ?_, ?_⟩
  · norm_num
  · norm_num
    refine scaled_cbrt_le ?_ ?_ ?_ ?_ <;> norm_num
  · norm_num
    refine scaled_cbrt_le' ?_ ?_ ?_ ?_ <;> norm_num

/-! ## non-vacuity of the hypotheses used above -/

example : ∃ x : ℝ, 0.04045 < x ∧ 0.0031308 < srgbToLinear x := by
  refine ⟨1, by norm_num, ?_⟩
  rw [srgbToLinear_upper (by norm_num)]; norm_num

example : ∃ y : ℝ, 0.0031308 < y ∧ 0.04045 < linearToSrgb y := by
  refine ⟨1, by norm_num, ?_⟩
  rw [linearToSrgb_upper (by norm_num)]; norm_num

example : ∃ x : ℝ, 0 < x ∧ x ≤ 12.92 * 0.0031308 := ⟨0.04, by norm_num, by norm_num⟩

example : ∃ M Minv : Mat3 ℝ, Minv * M = Mat3.one ∧ M ≠ Mat3.one := by
  refine ⟨⟨2, 0, 0, 0, 1, 0, 0, 0, 1⟩, ⟨1 / 2, 0, 0, 0, 1, 0, 0, 0, 1⟩, ?_, ?_⟩
  · apply Mat3.ext' <;> mat3_simp <;> norm_num
  · intro h; have := congrArg Mat3.a00 h; simp [Mat3.one] at this

example : hsvToRgb (rgbToHsv 0 (⟨1 / 4, 1, 1 / 2⟩ : Vec3 ℝ)) = ⟨1 / 4, 1, 1 / 2⟩ := by
  apply C15_hsv_roundtrip_exact
  simp only [max3, maxN_real]; norm_num

/-! ## the tensor-level functions regenerated from the source (`Odak.GenT.*`, `Generated/ColourTensors.lean`)

  Every statement of `color_conversion.py` - including every `unsqueeze` / `permute` / `reshape` / `matmul` / `gather` - is
  translated at the tensor level; the theorems below say what the functions do to IMAGES: for every accepted layout the result
  at batch index `b`, row `i`, column `j` is the per-pixel function of the input pixel at the same `b, i, j`, where the per-pixel
  function is the one the theorems above are about. -/
open Tensor

/-- `[k x 3 x m x n]` batches: all eight NCHW conversions and the opponent stage act pixel by pixel, image by image -/
theorem C15_gen_layout_batch (img : Tensor ℝ) (k m n : Nat) (h : img.shape = [k, 3, m, n]) (b i j : Nat)
    (hb : b < k) (hi : i < m) (hj : j < n) (eps th : ℝ) :
    pixel4 (GenT.rgb_2_ycrcb img) b i j = rgb2ycrcb (pixel4 img b i j) ∧
    pixel4 (GenT.ycrcb_2_rgb img) b i j = ycrcb2rgb (pixel4 img b i j) ∧
    pixel4 (GenT.rgb_to_linear_rgb img th) b i j = Vec3.mapR srgbToLinear (pixel4 img b i j) ∧
    pixel4 (GenT.linear_rgb_to_rgb img GenT.linear_rgb_to_rgb_threshold) b i j = Vec3.mapR linearToSrgb (pixel4 img b i j) ∧
    pixel4 (GenT.linear_rgb_to_xyz img) b i j = linearRgbToXyz (pixel4 img b i j) ∧
    pixel4 (GenT.xyz_to_linear_rgb img) b i j = xyzToLinearRgb (pixel4 img b i j) ∧
    pixel4 (GenT.rgb_to_hsv img eps) b i j = rgbToHsv eps (pixel4 img b i j) ∧
    pixel4 (GenT.hsv_to_rgb img) b i j = hsvToRgb (pixel4 img b i j) ∧
    pixel4 (GenT.second_to_third_stage img) b i j = opponentStage (pixel4 img b i j) :=
  ⟨(rgb_2_ycrcb_layout4 img k m n h b i j hb hi hj).2, (ycrcb_2_rgb_layout4 img k m n h b i j hb hi hj).2,
   (rgb_to_linear_rgb_layout4 img k m n h b i j hb hi hj th).2, (linear_rgb_to_rgb_layout4 img k m n h b i j hb hi hj).2,
   (linear_rgb_to_xyz_layout4 img k m n h b i j hb hi hj).2, (xyz_to_linear_rgb_layout4 img k m n h b i j hb hi hj).2,
   (rgb_to_hsv_layout4 img k m n h b i j hb hi hj eps).2, (hsv_to_rgb_layout4 img k m n h b i j hb hi hj).2,
   (second_to_third_stage_layout4 img k m n h b i j hb hi hj).2⟩

/-- … and return a tensor of the shape of the input -/
theorem C15_gen_layout_batch_shape (img : Tensor ℝ) (k m n : Nat) (h : img.shape = [k, 3, m, n]) (eps th : ℝ) :
    (GenT.rgb_2_ycrcb img).shape = [k, 3, m, n] ∧ (GenT.ycrcb_2_rgb img).shape = [k, 3, m, n] ∧
    (GenT.rgb_to_linear_rgb img th).shape = [k, 3, m, n] ∧
    (GenT.linear_rgb_to_rgb img GenT.linear_rgb_to_rgb_threshold).shape = [k, 3, m, n] ∧
    (GenT.linear_rgb_to_xyz img).shape = [k, 3, m, n] ∧ (GenT.xyz_to_linear_rgb img).shape = [k, 3, m, n] ∧
    (GenT.rgb_to_hsv img eps).shape = [k, 3, m, n] ∧ (GenT.hsv_to_rgb img).shape = [k, 3, m, n] ∧
    (GenT.second_to_third_stage img).shape = [k, 3, m, n] := by
  refine ⟨?_, ?_, ?_, ?_, ?_, ?_, ?_, ?_, ?_⟩
  · tensor_simp [GenT.rgb_2_ycrcb, h]
  · tensor_simp [GenT.ycrcb_2_rgb, h]
  · tensor_simp [GenT.rgb_to_linear_rgb, h]
  · tensor_simp [GenT.linear_rgb_to_rgb, h]
  · tensor_simp [GenT.linear_rgb_to_xyz, h]
  · tensor_simp [GenT.xyz_to_linear_rgb, h]
  · tensor_simp [GenT.rgb_to_hsv, h]
  · tensor_simp [GenT.hsv_to_rgb, h]
  · tensor_simp [GenT.second_to_third_stage, h]

/-- a single `[3 x m x n]` image is unsqueezed: the result is the batch of one `[1 x 3 x m x n]` with the same pixels -/
theorem C15_gen_layout_single (img : Tensor ℝ) (m n : Nat) (h : img.shape = [3, m, n]) (i j : Nat)
    (hi : i < m) (hj : j < n) (eps th : ℝ) :
    ((GenT.rgb_2_ycrcb img).shape = [1, 3, m, n] ∧ pixel4 (GenT.rgb_2_ycrcb img) 0 i j = rgb2ycrcb (pixel3 img i j)) ∧
    ((GenT.ycrcb_2_rgb img).shape = [1, 3, m, n] ∧ pixel4 (GenT.ycrcb_2_rgb img) 0 i j = ycrcb2rgb (pixel3 img i j)) ∧
    ((GenT.rgb_to_linear_rgb img th).shape = [1, 3, m, n] ∧
      pixel4 (GenT.rgb_to_linear_rgb img th) 0 i j = Vec3.mapR srgbToLinear (pixel3 img i j)) ∧
    ((GenT.linear_rgb_to_rgb img GenT.linear_rgb_to_rgb_threshold).shape = [1, 3, m, n] ∧
      pixel4 (GenT.linear_rgb_to_rgb img GenT.linear_rgb_to_rgb_threshold) 0 i j = Vec3.mapR linearToSrgb (pixel3 img i j)) ∧
    ((GenT.linear_rgb_to_xyz img).shape = [1, 3, m, n] ∧ pixel4 (GenT.linear_rgb_to_xyz img) 0 i j = linearRgbToXyz (pixel3 img i j)) ∧
    ((GenT.xyz_to_linear_rgb img).shape = [1, 3, m, n] ∧ pixel4 (GenT.xyz_to_linear_rgb img) 0 i j = xyzToLinearRgb (pixel3 img i j)) ∧
    ((GenT.rgb_to_hsv img eps).shape = [1, 3, m, n] ∧ pixel4 (GenT.rgb_to_hsv img eps) 0 i j = rgbToHsv eps (pixel3 img i j)) ∧
    ((GenT.hsv_to_rgb img).shape = [1, 3, m, n] ∧ pixel4 (GenT.hsv_to_rgb img) 0 i j = hsvToRgb (pixel3 img i j)) :=
  ⟨rgb_2_ycrcb_layout3 img m n h i j hi hj, ycrcb_2_rgb_layout3 img m n h i j hi hj,
   rgb_to_linear_rgb_layout3 img m n h i j hi hj th, linear_rgb_to_rgb_layout3 img m n h i j hi hj,
   linear_rgb_to_xyz_layout3 img m n h i j hi hj, xyz_to_linear_rgb_layout3 img m n h i j hi hj,
   rgb_to_hsv_layout3 img m n h i j hi hj eps, hsv_to_rgb_layout3 img m n h i j hi hj⟩

/-- the Lab pair: a channel-first `[3 x m x n]` image (not exactly 3 pixels wide, see below) and a channel-last `[m x n x 3]`
    image both give the channel-first `[3 x m x n]` result, pixel `(i, j)` computed from input pixel `(i, j)` -/
theorem C15_gen_layout_lab (img : Tensor ℝ) (m n : Nat) (i j : Nat) (hi : i < m) (hj : j < n) :
    (img.shape = [3, m, n] → n ≠ 3 →
      ((GenT.srgb_to_lab img).shape = [3, m, n] ∧ pixel3 (GenT.srgb_to_lab img) i j = srgbToLab (pixel3 img i j)) ∧
      ((GenT.lab_to_srgb img).shape = [3, m, n] ∧ pixel3 (GenT.lab_to_srgb img) i j = labToSrgb (pixel3 img i j))) ∧
    (img.shape = [m, n, 3] →
      ((GenT.srgb_to_lab img).shape = [3, m, n] ∧ pixel3 (GenT.srgb_to_lab img) i j = srgbToLab (pixelLast img i j)) ∧
      ((GenT.lab_to_srgb img).shape = [3, m, n] ∧ pixel3 (GenT.lab_to_srgb img) i j = labToSrgb (pixelLast img i j))) :=
  ⟨fun h hn => ⟨srgb_to_lab_layout_first img m n h hn i j hi hj, lab_to_srgb_layout_first img m n h hn i j hi hj⟩,
   fun h => ⟨srgb_to_lab_layout_last img m n h i j hi hj, lab_to_srgb_layout_last img m n h i j hi hj⟩⟩

/-- OBSERVATION (layout ambiguity of the source, `if image.shape[-1] == 3`): a channel-first image that is exactly three pixels
    wide, `[3 x m x 3]`, is taken for a channel-last `[3 x m x 3]` image of 3 rows and `m` columns: the result has shape
    `[3 x 3 x m]` and its pixel `(i, j)` is computed from the input elements `[i, j, 0], [i, j, 1], [i, j, 2]` -/
theorem C15_gen_lab_width_three_read_as_channel_last (img : Tensor ℝ) (m : Nat) (h : img.shape = [3, m, 3]) (i j : Nat)
    (hi : i < 3) (hj : j < m) :
    (GenT.srgb_to_lab img).shape = [3, 3, m] ∧ pixel3 (GenT.srgb_to_lab img) i j = srgbToLab (pixelLast img i j) :=
  srgb_to_lab_layout_last img 3 m h i j hi hj

/-! ### HSV over the regenerated functions -/

/-- image-level round trip `hsv_to_rgb(rgb_to_hsv(image, eps))`, every sextant, ties and greys, every batch image -/
theorem C15_gen_hsv_roundtrip (img : Tensor ℝ) (k m n : Nat) (h : img.shape = [k, 3, m, n]) (b i j : Nat)
    (hb : b < k) (hi : i < m) (hj : j < n) (eps : ℝ) :
    pixel4 (GenT.hsv_to_rgb (GenT.rgb_to_hsv img eps)) b i j =
      ⟨max3 (pixel4 img b i j) - (max3 (pixel4 img b i j) - (pixel4 img b i j).x) * (max3 (pixel4 img b i j) / (max3 (pixel4 img b i j) + eps)),
       max3 (pixel4 img b i j) - (max3 (pixel4 img b i j) - (pixel4 img b i j).y) * (max3 (pixel4 img b i j) / (max3 (pixel4 img b i j) + eps)),
       max3 (pixel4 img b i j) - (max3 (pixel4 img b i j) - (pixel4 img b i j).z) * (max3 (pixel4 img b i j) / (max3 (pixel4 img b i j) + eps))⟩ := by
  obtain ⟨hs, hp⟩ := rgb_to_hsv_layout4 img k m n h b i j hb hi hj eps
  rw [(hsv_to_rgb_layout4 _ k m n hs b i j hb hi hj).2, hp]
  exact C15_hsv_roundtrip eps _

/-- with the default `eps` of the source (`1e-8`) every channel of a non-negative pixel comes back within `1e-8` -/
theorem C15_gen_hsv_roundtrip_default_eps (img : Tensor ℝ) (k m n : Nat) (h : img.shape = [k, 3, m, n]) (b i j : Nat)
    (hb : b < k) (hi : i < m) (hj : j < n)
    (hx : 0 ≤ (pixel4 img b i j).x) (hy : 0 ≤ (pixel4 img b i j).y) (hz : 0 ≤ (pixel4 img b i j).z) :
    |(pixel4 (GenT.hsv_to_rgb (GenT.rgb_to_hsv img GenT.rgb_to_hsv_eps)) b i j).x - (pixel4 img b i j).x| ≤ 1 / 100000000 ∧
    |(pixel4 (GenT.hsv_to_rgb (GenT.rgb_to_hsv img GenT.rgb_to_hsv_eps)) b i j).y - (pixel4 img b i j).y| ≤ 1 / 100000000 ∧
    |(pixel4 (GenT.hsv_to_rgb (GenT.rgb_to_hsv img GenT.rgb_to_hsv_eps)) b i j).z - (pixel4 img b i j).z| ≤ 1 / 100000000 := by
  obtain ⟨hs, hp⟩ := rgb_to_hsv_layout4 img k m n h b i j hb hi hj GenT.rgb_to_hsv_eps
  rw [(hsv_to_rgb_layout4 _ k m n hs b i j hb hi hj).2, hp, rgb_to_hsv_eps_value]
  exact C15_hsv_roundtrip_error _ (by norm_num) _ hx hy hz

/-- exact round trip without the regularisation -/
theorem C15_gen_hsv_roundtrip_exact (img : Tensor ℝ) (k m n : Nat) (h : img.shape = [k, 3, m, n]) (b i j : Nat)
    (hb : b < k) (hi : i < m) (hj : j < n) (hmax : max3 (pixel4 img b i j) ≠ 0) :
    pixel4 (GenT.hsv_to_rgb (GenT.rgb_to_hsv img 0)) b i j = pixel4 img b i j := by
  obtain ⟨hs, hp⟩ := rgb_to_hsv_layout4 img k m n h b i j hb hi hj 0
  rw [(hsv_to_rgb_layout4 _ k m n hs b i j hb hi hj).2, hp]
  exact C15_hsv_roundtrip_exact _ hmax

/-- hue in `[0, 2π)` at every pixel; greys have hue 0 and saturation 0, value = the grey level -/
theorem C15_gen_hsv_hue_range_and_greys (img : Tensor ℝ) (k m n : Nat) (h : img.shape = [k, 3, m, n]) (b i j : Nat)
    (hb : b < k) (hi : i < m) (hj : j < n) (eps : ℝ) :
    (0 ≤ (pixel4 (GenT.rgb_to_hsv img eps) b i j).x ∧ (pixel4 (GenT.rgb_to_hsv img eps) b i j).x < 2 * Real.pi) ∧
    (∀ g : ℝ, pixel4 img b i j = ⟨g, g, g⟩ → pixel4 (GenT.rgb_to_hsv img eps) b i j = ⟨0, 0, g⟩) := by
  rw [(rgb_to_hsv_layout4 img k m n h b i j hb hi hj eps).2]
  exact ⟨C15_hsv_hue_range eps _, fun g hg => by rw [hg]; exact C15_hsv_grey eps g⟩

/-! ### image-level round trips of the matrix conversions (batch index and pixel position are preserved by both directions) -/

theorem C15_gen_ycrcb_xyz_roundtrip_image (img : Tensor ℝ) (k m n : Nat) (h : img.shape = [k, 3, m, n]) (b i j : Nat)
    (hb : b < k) (hi : i < m) (hj : j < n)
    (hx : 0 ≤ (pixel4 img b i j).x ∧ (pixel4 img b i j).x ≤ 1) (hy : 0 ≤ (pixel4 img b i j).y ∧ (pixel4 img b i j).y ≤ 1)
    (hz : 0 ≤ (pixel4 img b i j).z ∧ (pixel4 img b i j).z ≤ 1) :
    (|(pixel4 (GenT.ycrcb_2_rgb (GenT.rgb_2_ycrcb img)) b i j).x - (pixel4 img b i j).x| ≤ 3 / 10000 ∧
     |(pixel4 (GenT.ycrcb_2_rgb (GenT.rgb_2_ycrcb img)) b i j).y - (pixel4 img b i j).y| ≤ 3 / 10000 ∧
     |(pixel4 (GenT.ycrcb_2_rgb (GenT.rgb_2_ycrcb img)) b i j).z - (pixel4 img b i j).z| ≤ 3 / 10000) ∧
    (|(pixel4 (GenT.xyz_to_linear_rgb (GenT.linear_rgb_to_xyz img)) b i j).x - (pixel4 img b i j).x| ≤ 2 / 1000000 ∧
     |(pixel4 (GenT.xyz_to_linear_rgb (GenT.linear_rgb_to_xyz img)) b i j).y - (pixel4 img b i j).y| ≤ 2 / 1000000 ∧
     |(pixel4 (GenT.xyz_to_linear_rgb (GenT.linear_rgb_to_xyz img)) b i j).z - (pixel4 img b i j).z| ≤ 2 / 1000000) := by
  obtain ⟨hs1, hp1⟩ := rgb_2_ycrcb_layout4 img k m n h b i j hb hi hj
  obtain ⟨hs2, hp2⟩ := linear_rgb_to_xyz_layout4 img k m n h b i j hb hi hj
  rw [(ycrcb_2_rgb_layout4 _ k m n hs1 b i j hb hi hj).2, hp1, (xyz_to_linear_rgb_layout4 _ k m n hs2 b i j hb hi hj).2, hp2]
  exact ⟨C15_ycrcb_roundtrip_sharp _ hx hy hz, C15_xyz_roundtrip _ hx hy hz⟩

/-- a white pixel anywhere in an image of either layout has `L* = 100`, `|a*|, |b*| ≤ 10⁻⁴` -/
theorem C15_gen_lab_white_image (img : Tensor ℝ) (m n : Nat) (i j : Nat) (hi : i < m) (hj : j < n) :
    (img.shape = [3, m, n] → n ≠ 3 → pixel3 img i j = ⟨1, 1, 1⟩ →
      (pixel3 (GenT.srgb_to_lab img) i j).x = 100 ∧ |(pixel3 (GenT.srgb_to_lab img) i j).y| ≤ 1 / 10000 ∧
        |(pixel3 (GenT.srgb_to_lab img) i j).z| ≤ 1 / 10000) ∧
    (img.shape = [m, n, 3] → pixelLast img i j = ⟨1, 1, 1⟩ →
      (pixel3 (GenT.srgb_to_lab img) i j).x = 100 ∧ |(pixel3 (GenT.srgb_to_lab img) i j).y| ≤ 1 / 10000 ∧
        |(pixel3 (GenT.srgb_to_lab img) i j).z| ≤ 1 / 10000) := by
  constructor
  · intro h hn hw
    rw [(srgb_to_lab_layout_first img m n h hn i j hi hj).2, hw]; exact C15_lab_white
  · intro h hw
    rw [(srgb_to_lab_layout_last img m n h i j hi hj).2, hw]; exact C15_lab_white

/-! ### primaries ↔ LMS through the regenerated matrix pipeline -/

/-- `lms_to_primaries(primaries_to_lms(image))` returns every pixel of every batch image when `torch.pinverse` returns a right
    inverse of the `[3 x 3]` LMS matrix (`pinv` is an uninterpreted function; linearly independent primaries) -/
theorem C15_gen_lms_roundtrip (pinv : Tensor ℝ → Tensor ℝ) (L prim : Tensor ℝ) (B H W : Nat) (hL : L.shape = [3, 3])
    (hP : (pinv L).shape = [3, 3]) (hinv : matOf L * matOf (pinv L) = Mat3.one) (h : prim.shape = [B, 3, H, W])
    (b i j : Nat) (hb : b < B) (hi : i < H) (hj : j < W) :
    (GenT.lms_to_primaries pinv L (GenT.primaries_to_lms L prim)).shape = [B, 3, H, W] ∧
    pixel4 (GenT.lms_to_primaries pinv L (GenT.primaries_to_lms L prim)) b i j = pixel4 prim b i j :=
  lms_roundtrip_gen pinv L prim B H W hL hP hinv h b i j hb hi hj

/-- what the two directions compute per pixel: the transposed LMS matrix, resp. the transposed `pinverse` -/
theorem C15_gen_lms_matrices (pinv : Tensor ℝ → Tensor ℝ) (L t : Tensor ℝ) (B H W : Nat) (hL : L.shape = [3, 3])
    (hP : (pinv L).shape = [3, 3]) (h : t.shape = [B, 3, H, W]) (b i j : Nat) (hb : b < B) (hi : i < H) (hj : j < W) :
    pixel4 (GenT.primaries_to_lms L t) b i j = (matOf L).transpose.mulVec (pixel4 t b i j) ∧
    pixel4 (GenT.lms_to_primaries pinv L t) b i j = (matOf (pinv L)).transpose.mulVec (pixel4 t b i j) :=
  ⟨(primaries_to_lms_layout L t B H W hL h b i j hb hi hj).2, (lms_to_primaries_layout pinv L t B H W hP h b i j hb hi hj).2⟩

/-- non-vacuity: an LMS matrix with a right inverse that is not the identity -/
example : ∃ (pinv : Tensor ℝ → Tensor ℝ) (L : Tensor ℝ), L.shape = [3, 3] ∧ (pinv L).shape = [3, 3] ∧
    matOf L * matOf (pinv L) = Mat3.one ∧ matOf L ≠ Mat3.one := by
  refine ⟨fun _ => Tensor.ofFlat [3, 3] [1 / 2, 0, 0, 0, 1, 0, 0, 0, 1], Tensor.ofFlat [3, 3] [2, 0, 0, 0, 1, 0, 0, 0, 1], rfl, rfl, ?_, ?_⟩
  · apply Mat3.ext' <;> simp [matOf, Tensor.ofFlat, Tensor.ravel, Tensor.prod, Mat3.mul_def, Mat3.mul, Mat3.one]
  · intro h
    have := congrArg Mat3.a00 h
    simp [matOf, Tensor.ofFlat, Tensor.ravel, Tensor.prod, Mat3.one] at this

/-! ## sRGB → Lab → sRGB -/

/-- sRGB → L*a*b* → sRGB returns every in-gamut colour within `10⁻⁶` per channel (exact real arithmetic).  The cube root / cube
    pair with their linear toes and the `L* a* b*` affine maps cancel exactly; the two 3x3 matrices and the two white points of the
    source are rounded inverses of each other (`≤ 5.5·10⁻⁸` on linear light); `linear_rgb_to_rgb` amplifies that by at most 12.92
    plus its `3·10⁻⁸` knee jump; the sRGB transfer pair is exact except on the sliver between its two knees (`≤ 1.6·10⁻⁷`). -/
theorem C15_lab_roundtrip (c : Vec3 ℝ) (hx : 0 ≤ c.x ∧ c.x ≤ 1) (hy : 0 ≤ c.y ∧ c.y ≤ 1) (hz : 0 ≤ c.z ∧ c.z ≤ 1) :
    |(labToSrgb (srgbToLab c)).x - c.x| ≤ 1 / 1000000 ∧
    |(labToSrgb (srgbToLab c)).y - c.y| ≤ 1 / 1000000 ∧
    |(labToSrgb (srgbToLab c)).z - c.z| ≤ 1 / 1000000 := by
  have h0 : srgbToLinear (0 : ℝ) = 0 := by rw [srgbToLinear_lower (by norm_num)]; norm_num
  have h1 : srgbToLinear (1 : ℝ) = 1 := by
    rw [srgbToLinear_upper (by norm_num)]
    have : ((1 : ℝ) + 0.055) / 1.055 = 1 := by norm_num
    rw [this, Real.log_one, mul_zero, Real.exp_zero]
  have hm := C15_srgb_to_linear_strictMono.monotone
  have unit : ∀ t : ℝ, 0 ≤ t ∧ t ≤ 1 → 0 ≤ srgbToLinear t ∧ srgbToLinear t ≤ 1 := fun t ht =>
    ⟨h0 ▸ hm ht.1, h1 ▸ hm ht.2⟩
  rw [lab_roundtrip_structure]
  obtain ⟨e1, e2, e3⟩ := lab_linear_error ⟨srgbToLinear c.x, srgbToLinear c.y, srgbToLinear c.z⟩ (unit _ hx) (unit _ hy) (unit _ hz)
  simp only [] at e1 e2 e3 ⊢
  have fin : ∀ r l t : ℝ, |r - l| ≤ 55 / 1000000000 → l = srgbToLinear t → |linearToSrgb r - t| ≤ 1 / 1000000 := by
    intro r l t hr hl
    have a := linearToSrgb_lipschitz l r
    have b := srgb_roundtrip_error t
    rw [← hl] at b
    have tri := abs_sub_le (linearToSrgb r) (linearToSrgb l) t
    have : 12.92 * |r - l| ≤ 12.92 * (55 / 1000000000) := mul_le_mul_of_nonneg_left hr (by norm_num)
    norm_num at this a b ⊢
    linarith
  exact ⟨fin _ _ _ e1 rfl, fin _ _ _ e2 rfl, fin _ _ _ e3 rfl⟩

/-- … and so do whole images through the regenerated tensor-level functions, in both layouts (the result of `srgb_to_lab` is
    channel-first, so an image exactly 3 pixels wide would be re-read as channel-last by `lab_to_srgb`: `n ≠ 3`) -/
theorem C15_gen_lab_roundtrip_image (img : Tensor ℝ) (m n : Nat) (hn : n ≠ 3) (i j : Nat) (hi : i < m) (hj : j < n)
    (p : Vec3 ℝ) (hp : (img.shape = [3, m, n] ∧ p = pixel3 img i j) ∨ (img.shape = [m, n, 3] ∧ p = pixelLast img i j))
    (hx : 0 ≤ p.x ∧ p.x ≤ 1) (hy : 0 ≤ p.y ∧ p.y ≤ 1) (hz : 0 ≤ p.z ∧ p.z ≤ 1) :
    |(pixel3 (GenT.lab_to_srgb (GenT.srgb_to_lab img)) i j).x - p.x| ≤ 1 / 1000000 ∧
    |(pixel3 (GenT.lab_to_srgb (GenT.srgb_to_lab img)) i j).y - p.y| ≤ 1 / 1000000 ∧
    |(pixel3 (GenT.lab_to_srgb (GenT.srgb_to_lab img)) i j).z - p.z| ≤ 1 / 1000000 := by
  have key : (GenT.srgb_to_lab img).shape = [3, m, n] ∧ pixel3 (GenT.srgb_to_lab img) i j = srgbToLab p := by
    rcases hp with ⟨h, rfl⟩ | ⟨h, rfl⟩
    · exact srgb_to_lab_layout_first img m n h hn i j hi hj
    · exact srgb_to_lab_layout_last img m n h i j hi hj
  rw [(lab_to_srgb_layout_first _ m n key.1 hn i j hi hj).2, key.2]
  exact C15_lab_roundtrip p hx hy hz

end Odak
