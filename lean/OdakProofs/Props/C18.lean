import OdakProofs.Lemmas.Pyramid
import OdakProofs.Lemmas.Foveation
import OdakProofs.Lemmas.GenFoveation

/-! # C18 – foveation plumbing: pyramid padding (index part; regenerated expressions `Odak.Gen.pyr*`) -/
namespace Odak
open Odak.Index Odak.Gen

/-- required sizes: both are multiples of `2^n`, at least the image size and less than one block more -/
theorem C18_pyramid_required_sizes (H W n : Nat) :
    let D : Int := 2 ^ n
    (D ∣ pyrReqH H W D ∧ (H : Int) ≤ pyrReqH H W D ∧ pyrReqH H W D < H + D) ∧
    (D ∣ pyrReqW H W D ∧ (W : Int) ≤ pyrReqW H W D ∧ pyrReqW H W D < W + D) := by
  intro D
  have hD : (0 : Int) < D := by positivity
  obtain ⟨a1, a2, a3⟩ := ceil_mul_bounds H D hD
  obtain ⟨b1, b2, b3⟩ := ceil_mul_bounds W D hD
  simp only [pyrReqH, pyrReqW]
  exact ⟨⟨a3, a1, a2⟩, ⟨b3, b1, b2⟩⟩

/-- padding an `H × W` image for an `n`-level pyramid (when the reflection pad is admissible, i.e. the
    missing rows/columns are fewer than the image has): output height and width are the required
    multiples of `2^n` and every original pixel stays at its original position -/
theorem C18_pyramid_pad_content_at_origin (H W n : Nat) (hH : 0 < H) (hW : 0 < W)
    (hpadH : pyrReqH H W (2 ^ n) - H < H) (hpadW : pyrReqW H W (2 ^ n) - W < W) :
    let D : Int := 2 ^ n
    ((pyrPad 0 H W D).1 = true ∧ ((pyrPad 0 H W D).2.len : Int) = pyrReqH H W D ∧ ∀ i, i < H → (pyrPad 0 H W D).2.src i = some i) ∧
    ((pyrPad 1 H W D).1 = true ∧ ((pyrPad 1 H W D).2.len : Int) = pyrReqW H W D ∧ ∀ j, j < W → (pyrPad 1 H W D).2.src j = some j) := by
  intro D
  have hD : (0 : Int) < D := by positivity
  obtain ⟨a1, a2, _⟩ := ceil_mul_bounds H D hD
  obtain ⟨b1, b2, _⟩ := ceil_mul_bounds W D hD
  simp only [pyrReqH, pyrReqW] at hpadH hpadW
  by_cases hneed : pyrNeedsPad H W D = true
  · simp only [pyrPad, hneed, if_true]
    constructor
    · have hb : pyrPadBottom (H : Int) W D = pyrReqH H W D - H := by simp [pyrPadBottom, pyrReqH]
      have ht : pyrPadTop (H : Int) W D = 0 := by simp [pyrPadTop]
      rw [ht, hb]
      obtain ⟨r1, r2, r3⟩ := reflectAxis_origin (H : Int) (pyrReqH H W D - H) (by exact_mod_cast hH)
        (by simp only [pyrReqH]; linarith) (by simp only [pyrReqH]; exact hpadH) H rfl
      refine ⟨r1, ?_, r3⟩
      rw [r2]; simp only [pyrReqH]
      have : (0 : Int) ≤ ↑H + (-(-↑H / D) * D - ↑H) := by linarith
      rw [Int.toNat_of_nonneg this]; ring
    · have hb : pyrPadRight (H : Int) W D = pyrReqW H W D - W := by simp [pyrPadRight, pyrReqW]
      have ht : pyrPadLeft (H : Int) W D = 0 := by simp [pyrPadLeft]
      rw [ht, hb]
      obtain ⟨r1, r2, r3⟩ := reflectAxis_origin (W : Int) (pyrReqW H W D - W) (by exact_mod_cast hW)
        (by simp only [pyrReqW]; linarith) (by simp only [pyrReqW]; exact hpadW) W rfl
      refine ⟨r1, ?_, r3⟩
      rw [r2]; simp only [pyrReqW]
      have : (0 : Int) ≤ ↑W + (-(-↑W / D) * D - ↑W) := by linarith
      rw [Int.toNat_of_nonneg this]; ring
  · -- nothing to pad: both required sizes equal the sizes
    have hn : pyrNeedsPad H W D = false := by simpa using hneed
    have hle := (pyrNeedsPad_eq_false_iff H W D).mp hn
    simp only [pyrReqH, pyrReqW] at hle
    simp only [pyrPad, hn, Bool.false_eq_true, if_false]
    refine ⟨⟨trivial, ?_, fun i _ => trivial⟩, ⟨trivial, ?_, fun j _ => trivial⟩⟩
    · simp only [if_true, pyrReqH]; rw [Int.toNat_of_nonneg (by positivity)]; linarith [hle.1]
    · simp only [pyrReqW, show ((1 : Nat) = 0) = False by simp, if_false]
      rw [Int.toNat_of_nonneg (by positivity)]; linarith [hle.2]

/-- images that already fit (both sides multiples of `2^n`) are returned unchanged -/
theorem C18_pyramid_already_fits_unchanged (H W n : Nat) (hH : ((2 : Int) ^ n) ∣ (H : Int)) (hW : ((2 : Int) ^ n) ∣ (W : Int)) :
    pyrNeedsPad H W (2 ^ n) = false := by
  have hD : (0 : Int) < 2 ^ n := by positivity
  rw [pyrNeedsPad_eq_false_iff]
  simp only [pyrReqH, pyrReqW]
  rw [ceil_mul_eq_of_dvd H _ hD hH, ceil_mul_eq_of_dvd W _ hD hW]
  exact ⟨le_refl _, le_refl _⟩

/-- non-vacuity: a 30 × 20 image and a 3-level pyramid (8-pixel blocks): 2 rows and 4 columns missing -/
example : pyrReqH 30 20 (2 ^ 3) - 30 < 30 ∧ pyrReqW 30 20 (2 ^ 3) - 20 < 20 ∧ pyrReqH 30 20 8 = 32 ∧ pyrReqW 30 20 8 = 24 := by decide

/-! # C18 – foveation plumbing: pooling-size maps and the radially varying blur as an averaging operator
    (scalar part; model `OdakModel/Foveation.lean` at `α := ℝ`) -/

/-! ### the level-of-detail map is non-negative, and zero for sub-pixel pooling sizes -/

/-- the level-of-detail map is non-negative everywhere (the clamp) -/
theorem C18_lod_nonneg (px : ℝ) : 0 ≤ lodOf px := by
  rw [lodOf_real]; exact le_max_left _ _

/-- pooling sizes below one pixel (minus the `1e-6` guard) get level-of-detail 0 -/
theorem C18_lod_zero_of_small (px : ℝ) (h0 : 0 ≤ px) (h1 : px ≤ 1 - 1/1000000) : lodOf px = 0 := by
  rw [lodOf_real]
  apply max_eq_left
  have hlog : Real.log (1 / 1000000 + px) ≤ 0 :=
    Real.log_nonpos (by linarith) (by linarith)
  have h2 : 0 < Real.log 2 := Real.log_pos (by norm_num)
  exact div_nonpos_of_nonpos_of_nonneg hlog h2.le

/-! ### the pooling size vanishes at the gaze point, where the level-of-detail map attains its minimum -/

/-- at the gaze pixel (eccentricity 0) the pooling size is 0 – for every value of the other parameters -/
theorem C18_pooling_zero_at_gaze (quadratic : Bool) (alpha eccC dist width viewDist : ℝ) (npix : Nat) :
    poolingPixel quadratic alpha 0 eccC dist width viewDist npix = 0 := by
  rw [poolingPixel_real]
  simp [tanN_zero]

/-- equirectangular variant -/
theorem C18_equi_pooling_zero_at_gaze (quadratic : Bool) (alpha : ℝ) (h w : Nat) :
    equiPoolingPixel quadratic alpha 0 h w = 0 := by
  rw [equiPoolingPixel_real]
  simp

/-- the gaze pixel has level-of-detail 0, the minimum of the level-of-detail map -/
theorem C18_lod_min_at_gaze (quadratic : Bool) (alpha eccC dist width viewDist : ℝ) (npix : Nat) :
    lodOf (poolingPixel quadratic alpha 0 eccC dist width viewDist npix) = 0 ∧
    ∀ px : ℝ, lodOf (poolingPixel quadratic alpha 0 eccC dist width viewDist npix) ≤ lodOf px := by
  have hz : lodOf (poolingPixel quadratic alpha 0 eccC dist width viewDist npix) = 0 := by
    rw [C18_pooling_zero_at_gaze]
    exact C18_lod_zero_of_small 0 le_rfl (by norm_num)
  exact ⟨hz, fun px => by rw [hz]; exact C18_lod_nonneg px⟩

/-- equirectangular variant -/
theorem C18_equi_lod_min_at_gaze (quadratic : Bool) (alpha : ℝ) (h w : Nat) :
    lodOf (equiPoolingPixel quadratic alpha 0 h w) = 0 ∧
    ∀ px : ℝ, lodOf (equiPoolingPixel quadratic alpha 0 h w) ≤ lodOf px := by
  have hz : lodOf (equiPoolingPixel quadratic alpha 0 h w) = 0 := by
    rw [C18_equi_pooling_zero_at_gaze]
    exact C18_lod_zero_of_small 0 le_rfl (by norm_num)
  exact ⟨hz, fun px => by rw [hz]; exact C18_lod_nonneg px⟩

/-! ### the pooling-size maps are non-negative -/

theorem C18_pooling_nonneg (quadratic : Bool) (alpha ecc eccC dist width viewDist : ℝ) (npix : Nat)
    (hw : 0 < width) : 0 ≤ poolingPixel quadratic alpha ecc eccC dist width viewDist npix := by
  rw [poolingPixel_real]
  exact mul_nonneg (div_nonneg (Real.sqrt_nonneg _) hw.le) (Nat.cast_nonneg _)

theorem C18_equi_pooling_nonneg (quadratic : Bool) (alpha ecc : ℝ) (h w : Nat) :
    0 ≤ equiPoolingPixel quadratic alpha ecc h w := by
  rw [equiPoolingPixel_real]
  exact Real.sqrt_nonneg _

/-! ### the blur is an averaging operator (finite weighted means `wmean` with `IsAvg` weights) -/

/-- constant images stay constant -/
theorem C18_avg_const {n : Nat} {w : Fin n → ℝ} (hw : IsAvg w) (c : ℝ) :
    wmean w (fun _ => c) = c :=
  wmean_const hw c

/-- an average never leaves the value range of its input -/
theorem C18_avg_range {n : Nat} {w : Fin n → ℝ} (hw : IsAvg w) (x : Fin n → ℝ) (lo hi : ℝ)
    (hlo : ∀ i, lo ≤ x i) (hhi : ∀ i, x i ≤ hi) : lo ≤ wmean w x ∧ wmean w x ≤ hi :=
  ⟨wmean_lower hw x lo hlo, wmean_upper hw x hi hhi⟩

/-- blending two mip levels by the fractional level `f ∈ [0, 1]` is again an average, and it is the
    model's `blend` of the two means -/
theorem C18_avg_blend {n : Nat} {u v : Fin n → ℝ} (hu : IsAvg u) (hv : IsAvg v) (f : ℝ)
    (hf0 : 0 ≤ f) (hf1 : f ≤ 1) :
    IsAvg (fun i => (1 - f) * u i + f * v i) ∧
    ∀ x : Fin n → ℝ, wmean (fun i => (1 - f) * u i + f * v i) x = blend f (wmean u x) (wmean v x) :=
  ⟨isAvg_blend hu hv f hf0 hf1, fun x => wmean_blend u v x f⟩

/-- closure under composition (area down-sampling followed by bilinear up-sampling): an average `w` of
    `m` intermediate samples, each an average `W k` of the `n` input pixels, is an average of the input
    pixels, and the composite mean is the mean of the means -/
theorem C18_avg_compose {m n : Nat} {w : Fin m → ℝ} {W : Fin m → Fin n → ℝ} (hw : IsAvg w)
    (hW : ∀ k, IsAvg (W k)) :
    IsAvg (fun i => ∑ k, w k * W k i) ∧
    ∀ x : Fin n → ℝ, wmean (fun i => ∑ k, w k * W k i) x = wmean w (fun k => wmean (W k) x) :=
  ⟨isAvg_compose hw hW, fun x => wmean_compose w W x⟩

/-! ### the gaze pixel is left unblurred -/

/-- fraction 0 returns the finer level unchanged -/
theorem C18_gaze_pixel_unblurred (a b : ℝ) : blend 0 a b = a := by
  simp [blend]

/-- a level-of-detail in `[0, 1)` reads from mip level 0 (the input image itself).  The hypothesis
    `1 ≤ levels` of the informal statement is not needed: `levels - 1` is a natural-number subtraction. -/
theorem C18_gaze_mip_level_zero (levels : Nat) (lod : ℝ) (h0 : 0 ≤ lod) (h1 : lod < 1) :
    mipLevel levels lod = 0 := by
  have hfl : (⌊lod⌋ : ℤ) = 0 := Int.floor_eq_iff.mpr ⟨by simpa using h0, by simpa using h1⟩
  simp only [mipLevel, num_floor, num_ofNat, minN_real, hfl, Int.cast_zero]
  exact min_eq_left (Nat.cast_nonneg _)

/-- at the gaze pixel the blur reads mip level 0 with fractional level 0, i.e. `blend` returns the
    level-0 value `a` (the input pixel) whatever the coarser level `b` holds -/
theorem C18_gaze_selects_input (quadratic : Bool) (alpha eccC dist width viewDist : ℝ) (npix levels : Nat)
    (a b : ℝ) :
    let lod := lodOf (poolingPixel quadratic alpha 0 eccC dist width viewDist npix)
    mipLevel levels lod = 0 ∧ blend (lod - Num.floor lod) a b = a := by
  intro lod
  have h : lod = 0 := (C18_lod_min_at_gaze quadratic alpha eccC dist width viewDist npix).1
  refine ⟨C18_gaze_mip_level_zero levels lod (by rw [h]) (by rw [h]; norm_num), ?_⟩
  rw [h]
  simp [blend]

/-! ### non-vacuity -/

/-- a concrete averaging weight vector on two samples -/
example : IsAvg (![1/4, 3/4] : Fin 2 → ℝ) := by
  constructor
  · intro i; fin_cases i <;> norm_num
  · rw [Fin.sum_univ_two]; norm_num

/-- ... and its mean of the samples `(0, 4)` is `3`, inside `[0, 4]` -/
example : wmean (![1/4, 3/4] : Fin 2 → ℝ) ![0, 4] = 3 := by
  simp only [wmean, Fin.sum_univ_two]; norm_num

/-- a half-pixel pooling size has level-of-detail 0 -/
example : lodOf (1/2 : ℝ) = 0 := C18_lod_zero_of_small _ (by norm_num) (by norm_num)

/-- a two-pixel pooling size has a positive level-of-detail (the map is not identically 0) -/
example : 0 < lodOf (2 : ℝ) := by
  rw [lodOf_real]
  apply lt_max_of_lt_right
  exact div_pos (Real.log_pos (by norm_num)) (Real.log_pos (by norm_num))

/-! # C18 over the definitions REGENERATED from the Python source (`Generated/FoveationGen.lean`)

The statements below are about `Odak.Gen.*`, rewritten from `/repo` on every run; they follow from the tie theorems of
`Lemmas/GenFoveation.lean` and the theorems above. -/

/-- the regenerated level-of-detail maps (flat screen and equirectangular) are non-negative at every pixel -/
theorem C18_gen_lod_nonneg (g0 g1 alpha width dist : ℝ) (h w : Nat) (q : Bool) (i j : Nat) :
    0 ≤ poolingLodG g0 g1 h w alpha width dist q i j ∧ 0 ≤ equiPoolingLodG g0 g1 h w alpha q i j := by
  rw [gen_poolingLodG_eq, gen_equiPoolingLodG_eq]
  exact ⟨C18_lod_nonneg _, C18_lod_nonneg _⟩

/-- the regenerated pooling-size maps are non-negative -/
theorem C18_gen_pooling_nonneg (g0 g1 alpha width dist : ℝ) (h w : Nat) (q : Bool) (i j : Nat) (hw : 0 < width) :
    0 ≤ poolingPixelsG g0 g1 h w alpha width dist q i j ∧ 0 ≤ equiPoolingPixelsG g0 g1 h w alpha q i j := by
  rw [gen_poolingPixelsG_eq, gen_equiPoolingPixelsG_eq]
  exact ⟨C18_pooling_nonneg _ _ _ _ _ _ _ _ hw, C18_equi_pooling_nonneg _ _ _ _ _⟩

/-- at the pixel the user looks at (its screen point is the gaze point; viewing distance non-zero) the regenerated pooling size
    is 0 and the regenerated level of detail is 0, the minimum over all pixels, gazes and parameters -/
theorem C18_gen_lod_min_at_gaze (g0 g1 alpha width dist : ℝ) (h w : Nat) (q : Bool) (i j : Nat) (hd : dist ≠ 0)
    (hg : gazePoint g0 g1 h w width dist = screenPoint h w width dist i j) :
    poolingPixelsG g0 g1 h w alpha width dist q i j = 0 ∧ poolingLodG g0 g1 h w alpha width dist q i j = 0 ∧
    ∀ (g0' g1' alpha' width' dist' : ℝ) (h' w' : Nat) (q' : Bool) (i' j' : Nat),
      poolingLodG g0 g1 h w alpha width dist q i j ≤ poolingLodG g0' g1' h' w' alpha' width' dist' q' i' j' := by
  have he := eccentricityAt_zero_at_gaze g0 g1 h w width dist i j hd hg
  have hp : poolingPixelsG g0 g1 h w alpha width dist q i j = 0 := by
    rw [gen_poolingPixelsG_eq, poolingPixelsAt, he]; exact C18_pooling_zero_at_gaze _ _ _ _ _ _ _
  have hl : poolingLodG g0 g1 h w alpha width dist q i j = 0 := by
    rw [gen_poolingLodG_eq, poolingLodAt, ← gen_poolingPixelsG_eq, hp]
    exact C18_lod_zero_of_small 0 le_rfl (by norm_num)
  exact ⟨hp, hl, fun g0' g1' alpha' width' dist' h' w' q' i' j' => by
    rw [hl]; exact (C18_gen_lod_nonneg g0' g1' alpha' width' dist' h' w' q' i' j').1⟩

/-- in particular for a gaze on a pixel centre, `gaze = (j / (w - 1), i / (h - 1))` (image corners included) -/
theorem C18_gen_lod_zero_at_pixel_centre_gaze (alpha width dist : ℝ) (h w : Nat) (q : Bool) (i j : Nat) (hd : dist ≠ 0)
    (hh : 2 ≤ h) (hw : 2 ≤ w) :
    poolingLodG ((j : ℝ) / ((w - 1 : Nat) : ℝ)) ((i : ℝ) / ((h - 1 : Nat) : ℝ)) h w alpha width dist q i j = 0 :=
  (C18_gen_lod_min_at_gaze _ _ alpha width dist h w q i j hd (gazePoint_pixel_centre h w width dist i j hh hw)).2.1

/-- equirectangular images: at the pixel whose yaw / pitch are the gaze angles the regenerated level of detail is 0, the minimum -/
theorem C18_gen_equi_lod_min_at_gaze (a0 a1 alpha : ℝ) (h w : Nat) (q : Bool) (i j : Nat)
    (hy : equiYaw w j = a0) (hp : equiPitch h i = a1) :
    equiPoolingLodG a0 a1 h w alpha q i j = 0 ∧
    ∀ (a0' a1' alpha' : ℝ) (h' w' : Nat) (q' : Bool) (i' j' : Nat),
      equiPoolingLodG a0 a1 h w alpha q i j ≤ equiPoolingLodG a0' a1' h' w' alpha' q' i' j' := by
  have hl : equiPoolingLodG a0 a1 h w alpha q i j = 0 := by
    rw [gen_equiPoolingLodG_eq, equiPoolingLodAt, equiPoolingPixelsAt, equiEccentricityAt_zero_at_gaze a0 a1 h w i j hy hp,
      C18_equi_pooling_zero_at_gaze]
    exact C18_lod_zero_of_small 0 le_rfl (by norm_num)
  exact ⟨hl, fun a0' a1' alpha' h' w' q' i' j' => by
    rw [hl]; exact (C18_gen_lod_nonneg a0' a1' alpha' 1 1 h' w' q' i' j').2⟩

/-- the regenerated radial map takes its values in `[0, 1]` -/
theorem C18_gen_radial_map_range (s0 s1 : Nat) (g0 g1 : ℝ) (i j : Nat) (hi : i < s0) (hj : j < s1) :
    0 ≤ radialMapG s0 s1 g0 g1 i j ∧ radialMapG s0 s1 g0 g1 i j ≤ 1 := by
  rw [gen_radialMapG_eq]; exact radialMap_range s0 s1 g0 g1 i j hi hj

/-- regenerated `pad_image_for_pyramid` (test, pad call, argument order): both output sides are multiples of `2^n`, at least
    the input sides, and every original pixel keeps its position (admissible reflection pad) -/
theorem C18_gen_pyramid_pad_multiple_and_content_at_origin (H W n : Nat) (hH : 0 < H) (hW : 0 < W)
    (hpadH : ceilMul H (2 ^ n) - H < H) (hpadW : ceilMul W (2 ^ n) - W < W) :
    let D : Int := 2 ^ n
    ((pyrPadG 0 H W D).1 = true ∧ D ∣ ((pyrPadG 0 H W D).2.len : Int) ∧ (H : Int) ≤ (pyrPadG 0 H W D).2.len ∧
      ∀ i, i < H → (pyrPadG 0 H W D).2.src i = some i) ∧
    ((pyrPadG 1 H W D).1 = true ∧ D ∣ ((pyrPadG 1 H W D).2.len : Int) ∧ (W : Int) ≤ (pyrPadG 1 H W D).2.len ∧
      ∀ j, j < W → (pyrPadG 1 H W D).2.src j = some j) := by
  intro D
  obtain ⟨⟨a1, a2, a3⟩, ⟨b1, b2, b3⟩⟩ := C18_pyramid_pad_content_at_origin H W n hH hW hpadH hpadW
  obtain ⟨⟨r1, r2, _⟩, ⟨s1, s2, _⟩⟩ := C18_pyramid_required_sizes H W n
  rw [gen_pyrPadG_eq, gen_pyrPadG_eq]
  exact ⟨⟨a1, by rw [a2]; exact r1, by rw [a2]; exact r2, a3⟩, ⟨b1, by rw [b2]; exact s1, by rw [b2]; exact s2, b3⟩⟩

/-- regenerated early-return test: images whose sides are already multiples of `2^n` are returned as they are -/
theorem C18_gen_pyramid_already_fits_unchanged (H W n : Nat) (hH : ((2 : Int) ^ n) ∣ (H : Int)) (hW : ((2 : Int) ^ n) ∣ (W : Int)) :
    pyrNeedsPadG H W (2 ^ n) = false ∧ (pyrPadG 0 H W (2 ^ n)).2.IsId H ∧ (pyrPadG 1 H W (2 ^ n)).2.IsId W := by
  have hn : pyrNeedsPadG H W (2 ^ n) = false := by
    rw [gen_pyrNeedsPadG_eq]; exact C18_pyramid_already_fits_unchanged H W n hH hW
  refine ⟨hn, ?_, ?_⟩ <;> simp [pyrPadG, hn, keepAxis, AxisMap.IsId]

/-- the pad call is a reflection pad whose only non-zero widths are the missing rows after the last row and the missing columns
    after the last column -/
theorem C18_gen_pyramid_pad_call (H W D : Int) :
    pyrPadModeG = PadMode.reflect ∧ pyrTopG H W D = 0 ∧ pyrLeftG H W D = 0 ∧
    pyrBottomG H W D = ceilMul H D - H ∧ pyrRightG H W D = ceilMul W D - W :=
  ⟨gen_pyrPadModeG_eq, (gen_pyrPadWidths_spec H W D).1, (gen_pyrPadWidths_spec H W D).2.2.1,
    (gen_pyrPadWidths_spec H W D).2.1, (gen_pyrPadWidths_spec H W D).2.2.2⟩

/-- the regenerated blur: with at least two mip levels, a pixel whose level of detail lies in level `l` gets the coarsest level
    itself or a convex combination (`blend` with the regenerated fraction, which lies in `[0, 1)`) of levels `l` and `l + 1` -/
theorem C18_gen_blur_pixel_is_average (levels l : Nat) (lod : ℝ) (mip : Nat → ℝ) (h2 : 2 ≤ levels) (hl : l < levels)
    (h0 : (l : ℝ) ≤ lod) (h1 : l + 1 < levels → lod < (l : ℝ) + 1) :
    blurPixelG levels lod (blurFractionG lod) mip =
      (if l = levels - 1 then mip l else blend (blurFractionG lod) (mip l) (mip (l + 1))) ∧
    (l + 1 < levels → blurFractionG lod = lod - l ∧ 0 ≤ blurFractionG lod ∧ blurFractionG lod < 1) := by
  have hlod : 0 ≤ lod := le_trans (Nat.cast_nonneg l) h0
  refine ⟨(gen_blurPixelG_eq levels l lod _ mip h2 hl h0 h1).1, fun hc => ?_⟩
  have hfl : (⌊lod⌋ : ℤ) = (l : ℤ) := Int.floor_eq_iff.mpr ⟨by exact_mod_cast h0, by exact_mod_cast h1 hc⟩
  have hf : blurFractionG lod = lod - l := by
    rw [gen_blurFractionG_eq lod hlod, lodFraction, num_floor, hfl]; simp
  rw [hf]
  exact ⟨rfl, by linarith, by linarith [h1 hc]⟩

/-- the gaze pixel is left unblurred by the regenerated blur: level of detail 0 selects mip level 0 with fraction 0, and mip
    level 0 is the input image itself (`mipmap = [image]`) -/
theorem C18_gen_blur_gaze_pixel_unblurred (levels : Nat) (mip : Nat → ℝ) (h2 : 2 ≤ levels) (fuel H W : Nat) :
    blurPixelG levels 0 (blurFractionG 0) mip = mip 0 ∧ (mipSizesG fuel H W).head? = some (H, W) := by
  refine ⟨?_, gen_mipSizesG_head fuel H W⟩
  have h := (gen_blurPixelG_eq levels 0 0 (blurFractionG 0) mip h2 (by omega) (by simp) (fun _ => by simp)).1
  rw [h, gen_blurFractionG_eq 0 le_rfl]
  have hne : ¬ (0 = levels - 1) := by omega
  simp [blurSelect, hne, blend, lodFraction]

/-- non-vacuity: a 30 × 20 image, 3 levels - the regenerated pad adds 2 rows and 4 columns, nothing before -/
example : pyrNeedsPadG 30 20 8 = true ∧ pyrBottomG 30 20 8 = 2 ∧ pyrRightG 30 20 8 = 4 ∧ pyrTopG 30 20 8 = 0 ∧ pyrLeftG 30 20 8 = 0 := by
  decide

/-- the sizes of the mip chain of a 8 × 6 image: 8×6, 4×3, 2×1, then the final averaging step down to 1×1 (before the repair of
    finding F15 the last step read the level BEFORE the last one and produced the inconsistent size 1×3, which made `blur` raise) -/
theorem C18_gen_mip_chain_example : mipSizesG 10 8 6 = [(8, 6), (4, 3), (2, 1), (1, 1)] ∧ mipSizesG 10 40 24 = [(40, 24), (20, 12), (10, 6), (5, 3), (2, 1), (1, 1)] := by
  decide

/-- the final averaging steps of the mip chain keep the other side of the LAST level: every level of every chain is at most as large as
    its predecessor in both directions (checked for all image sizes up to 24 × 24 by kernel evaluation) -/
theorem C18_gen_mip_chain_monotone_small :
    ∀ H ∈ List.range 25, ∀ W ∈ List.range 25, 1 ≤ H → 1 ≤ W →
      (let m := mipSizesG 10 H W; (m.zip m.tail).all fun (a, b) => decide (b.1 ≤ a.1 ∧ b.2 ≤ a.2)) = true := by
  decide +kernel

/-- "finite everywhere": in both pooling-size maps the quantity handed to `acos` is a clamped dot product, so it lies in the domain
    `[-1, 1]` of `acos` for EVERY gaze and pixel - also where the dot product of the two unit vectors rounds above 1 (finding F38: the
    equirectangular map had no clamp and returned NaN at the pixel the gaze looks along); and the eccentricities are in `[0, π]` -/
theorem C18_acos_arguments_in_domain (x : ℝ) : -1 ≤ Num.clamp x (-1) 1 ∧ Num.clamp x (-1) 1 ≤ 1 := by
  rw [clamp_real]
  exact ⟨le_min (le_max_right _ _) (by norm_num), min_le_right _ _⟩

theorem C18_equi_eccentricity_range (a0 a1 : ℝ) (h w i j : Nat) :
    0 ≤ equiEccentricityAt a0 a1 h w i j ∧ equiEccentricityAt a0 a1 h w i j ≤ Real.pi := by
  simp only [equiEccentricityAt, num_acos]
  exact ⟨Real.arccos_nonneg _, Real.arccos_le_pi _⟩

end Odak
