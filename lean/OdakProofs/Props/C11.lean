import OdakProofs.Lemmas.Geometry
import OdakProofs.Lemmas.GenGeometry

/-! # C11 – reflection and refraction
  Model: `OdakModel/Geometry.lean` at `α := ℝ`.
  Reflection `reflectDir ε d n = d - 2 (d·n / (n·n + ε)) n` (ε = 0 NumPy, ε = 1e-8 torch).
  Refraction (Spencer–Murty) `refractDir μ τ d n = μ d + τ n`, where τ solves `τ² + 2 a τ + b = 0`,
  `a = refrA μ d n = μ (d·n)/(n·n)`, `b = refrB μ n = (μ² - 1)/(n·n)`, by Newton steps `refrStep a b`. -/
namespace Odak

/-! ## reflection -/

/-- law of reflection for ε = 0, any non-zero normal (any length, either sign), any direction:
    length preserved, normal component flipped, the change is along the normal (coplanar),
    reflecting twice restores the input, and rescaling the normal does not change the result -/
theorem C11_reflect_law (d n : Vec3 ℝ) (hn : n ≠ ⟨0, 0, 0⟩) :
    Vec3.normSq (reflectDir 0 d n) = Vec3.normSq d ∧
    Vec3.dot (reflectDir 0 d n) n = -(Vec3.dot d n) ∧
    (∃ c, reflectDir 0 d n - d = Vec3.smul c n) ∧
    reflectDir 0 (reflectDir 0 d n) n = d ∧
    ∀ c : ℝ, c ≠ 0 → reflectDir 0 d (Vec3.smul c n) = reflectDir 0 d n := by
  have hN : Vec3.normSq n ≠ 0 := Vec3.normSq_ne_zero hn
  have hdot : Vec3.dot (reflectDir 0 d n) n = -(Vec3.dot d n) := by
    rw [reflectDir_zero, Vec3.dot_sub_smul_left, show Vec3.dot n n = Vec3.normSq n from rfl]
    field_simp; ring
  refine ⟨?_, hdot, ?_, ?_, ?_⟩
  · rw [reflectDir_zero, Vec3.normSq_sub_smul]
    field_simp; ring
  · refine ⟨-(2 * (Vec3.dot d n / Vec3.normSq n)), ?_⟩
    rw [reflectDir_zero]
    apply Vec3.ext' <;> simp only [Vec3.sub_def, Vec3.sub, Vec3.smul] <;> ring
  · rw [reflectDir_zero (reflectDir 0 d n) n, hdot, reflectDir_zero d n]
    apply Vec3.ext' <;> simp only [Vec3.sub_def, Vec3.sub, Vec3.smul] <;> ring
  · intro c hc
    rw [reflectDir_zero, reflectDir_zero, Vec3.dot_smul_right, Vec3.normSq_smul]
    apply Vec3.ext' <;> simp only [Vec3.sub_def, Vec3.sub, Vec3.smul] <;> field_simp

/-- the torch ε in the denominator: exact error term with respect to the true reflection -/
theorem C11_reflect_eps_error (eps : ℝ) (d n : Vec3 ℝ) (hn : n ≠ ⟨0, 0, 0⟩) (heps : 0 ≤ eps) :
    reflectDir eps d n - reflectDir 0 d n
      = Vec3.smul (2 * Vec3.dot d n * eps / (Vec3.normSq n * (Vec3.normSq n + eps))) n := by
  have hN : Vec3.normSq n ≠ 0 := Vec3.normSq_ne_zero hn
  have hNe : Vec3.normSq n + eps ≠ 0 := by have := Vec3.normSq_pos hn; positivity
  rw [reflectDir_zero, reflectDir_eq]
  apply Vec3.ext' <;> simp only [Vec3.sub_def, Vec3.sub, Vec3.smul] <;> field_simp <;> ring

/-- refutation of the law of reflection for the torch variant (ε = 1e-8) and a short normal:
    with `n·n = ε` the factor is 1 instead of 2, the normal component is removed instead of flipped -/
theorem C11_reflect_eps_refuted :
    reflectDir ((1 : ℝ) / 100000000) ⟨0, 0, 1⟩ ⟨0, 0, 1 / 10000⟩ = ⟨0, 0, 0⟩ ∧
    Vec3.dot (reflectDir ((1 : ℝ) / 100000000) ⟨0, 0, 1⟩ ⟨0, 0, 1 / 10000⟩) ⟨0, 0, 1 / 10000⟩
      ≠ -(Vec3.dot (⟨0, 0, 1⟩ : Vec3 ℝ) ⟨0, 0, 1 / 10000⟩) := by
  have h : reflectDir ((1 : ℝ) / 100000000) ⟨0, 0, 1⟩ ⟨0, 0, 1 / 10000⟩ = ⟨0, 0, 0⟩ := by
    apply Vec3.ext' <;> geo_simp <;> norm_num
  refine ⟨h, ?_⟩
  rw [h]; simp only [Vec3.dot]; norm_num

/-! ## refraction -/

/-- after a Newton step the residual of the quadratic is the square of the step -/
theorem C11_newton_residual (a b t : ℝ) (hs : t + a ≠ 0) :
    (refrStep a b t) ^ 2 + 2 * a * refrStep a b t + b = (refrStep a b t - t) ^ 2 := by
  simp only [refrStep, num_sq, num_two]
  field_simp; ring

/-- squared length of the refracted direction for a unit input direction -/
theorem C11_refract_length (mu tau : ℝ) (d n : Vec3 ℝ) (hd : Vec3.normSq d = 1) (hn : n ≠ ⟨0, 0, 0⟩) :
    Vec3.normSq (refractDir mu tau d n) - 1
      = Vec3.normSq n * (tau ^ 2 + 2 * refrA mu d n * tau + refrB mu n) := by
  have hN : Vec3.normSq n ≠ 0 := Vec3.normSq_ne_zero hn
  rw [normSq_refractDir, hd]
  simp only [refrA, refrB, num_sq, show Vec3.dot n n = Vec3.normSq n from rfl]
  field_simp; ring

/-- at loop exit (last step not longer than `err`) the output is a unit vector up to `‖n‖² err²` -/
theorem C11_refract_unit_at_exit (mu err t : ℝ) (d n : Vec3 ℝ) (hd : Vec3.normSq d = 1)
    (hn : n ≠ ⟨0, 0, 0⟩) (hs : t + refrA mu d n ≠ 0)
    (hstep : |t - refrStep (refrA mu d n) (refrB mu n) t| ≤ err) :
    |Vec3.normSq (refractDir mu (refrStep (refrA mu d n) (refrB mu n) t) d n) - 1|
      ≤ Vec3.normSq n * err ^ 2 := by
  rw [C11_refract_length mu _ d n hd hn, C11_newton_residual _ _ _ hs,
    abs_of_nonneg (mul_nonneg (Vec3.normSq_nonneg n) (sq_nonneg _))]
  apply mul_le_mul_of_nonneg_left _ (Vec3.normSq_nonneg n)
  rw [← sq_abs, abs_sub_comm]
  exact pow_le_pow_left₀ (abs_nonneg _) hstep 2

/-- Snell's law in vector form, `out × n = μ (d × n)` (i.e. `n₂ sin θ₂ = n₁ sin θ₁` with `μ = n₁/n₂`
    once the output has unit length), and coplanarity of output, input and normal -/
theorem C11_snell (mu tau : ℝ) (d n : Vec3 ℝ) :
    Vec3.cross (refractDir mu tau d n) n = Vec3.smul mu (Vec3.cross d n) ∧
    ∃ x y, refractDir mu tau d n = Vec3.smul x d + Vec3.smul y n := by
  refine ⟨?_, mu, tau, rfl⟩
  apply Vec3.ext' <;> geo_simp <;> ring

/-- normal component of the output, and the sign of every Newton iterate `s_k = t_k + a`:
    it is the sign of `a` (no total internal reflection, `0 ≤ a² - b`) -/
theorem C11_far_side (mu : ℝ) (d n : Vec3 ℝ) (hn : n ≠ ⟨0, 0, 0⟩) :
    (∀ tau, Vec3.dot (refractDir mu tau d n) n = Vec3.normSq n * (tau + refrA mu d n)) ∧
    ∀ a b : ℝ, 0 ≤ a ^ 2 - b → a ≠ 0 → ∀ k,
      (0 < a → 0 < refrIter a b k + a) ∧ (a < 0 → refrIter a b k + a < 0) := by
  have hN : Vec3.normSq n ≠ 0 := Vec3.normSq_ne_zero hn
  constructor
  · intro tau
    rw [dot_refractDir]
    simp only [refrA, show Vec3.dot n n = Vec3.normSq n from rfl]
    field_simp; ring
  · intro a b hD ha k
    obtain ⟨_, _, hp, hneg⟩ := newtonStep_iter_inv hD ha k
    rw [refrIter_add b ha k]
    exact ⟨hp, hneg⟩

/-- hence, for `μ > 0`, every iterate gives an output on the far side of the surface:
    `out · n` has the sign of `d · n` -/
theorem C11_far_side_sign (mu : ℝ) (d n : Vec3 ℝ) (hn : n ≠ ⟨0, 0, 0⟩) (hmu : 0 < mu)
    (hD : 0 ≤ (refrA mu d n) ^ 2 - refrB mu n) (k : Nat) :
    (0 < Vec3.dot d n → 0 < Vec3.dot (refractDir mu (refrIter (refrA mu d n) (refrB mu n) k) d n) n) ∧
    (Vec3.dot d n < 0 → Vec3.dot (refractDir mu (refrIter (refrA mu d n) (refrB mu n) k) d n) n < 0) := by
  have hN : 0 < Vec3.normSq n := Vec3.normSq_pos hn
  have hA : refrA mu d n = mu * Vec3.dot d n / Vec3.normSq n := rfl
  obtain ⟨h1, h2⟩ := C11_far_side mu d n hn
  constructor
  · intro h
    have ha : 0 < refrA mu d n := by rw [hA]; positivity
    rw [h1]
    exact mul_pos hN ((h2 _ _ hD ha.ne' k).1 ha)
  · intro h
    have ha : refrA mu d n < 0 := by
      rw [hA]; exact div_neg_of_neg_of_pos (mul_neg_of_pos_of_neg hmu h) hN
    rw [h1]
    exact mul_neg_of_pos_of_neg hN ((h2 _ _ hD ha.ne k).2 ha)

/-- equal indices (`μ = 1`): `b = 0`, the start value is 0, the first step stays at 0, the loop
    exits after exactly one iteration with `τ = 0`, and the direction is unchanged -/
theorem C11_equal_indices (err : ℝ) (d n : Vec3 ℝ) (_hdn : Vec3.dot d n ≠ 0) (_hn : n ≠ ⟨0, 0, 0⟩)
    (herr : 0 < err) (fuel : Nat) :
    refractTau 1 err d n (fuel + 1) = .ok 0 1 ∧ refractDir 1 0 d n = d := by
  constructor
  · have hb : refrB (1 : ℝ) n = 0 := by simp [refrB, num_sq]
    have h0 : refrStart (refrA 1 d n) 0 = 0 := by simp [refrStart]
    have h1 : refrStep (refrA 1 d n) 0 0 = 0 := by simp [refrStep, num_sq]
    have hD : ¬ (Num.sq (refrA 1 d n) - 0 < 0) := by
      rw [num_sq]; nlinarith [mul_self_nonneg (refrA 1 d n)]
    have he : err < err * Num.two := by rw [num_two]; linarith
    simp only [refractTau, hb, if_neg hD, h0]
    rw [refrLoop, if_pos he, h1]
    simp only [num_abs, sub_self, abs_zero]
    exact refrLoop_done _ _ _ _ _ _ _ (not_lt.mpr herr.le)
  · apply Vec3.ext' <;> geo_simp <;> ring

/-- non-vacuity: glass-to-air style data without total internal reflection
    (`μ = 1/2`, normal incidence): `a = 1/2`, `b = -3/4`, `a² - b = 1 ≥ 0` -/
example : (0 : ℝ) ≤ (refrA (1 / 2) (⟨0, 0, 1⟩ : Vec3 ℝ) ⟨0, 0, 1⟩) ^ 2 - refrB (1 / 2) (⟨0, 0, 1⟩ : Vec3 ℝ)
    ∧ refrA (1 / 2) (⟨0, 0, 1⟩ : Vec3 ℝ) ⟨0, 0, 1⟩ ≠ 0 := by
  geo_simp; norm_num

end Odak

/-! ## The same conclusions for the definitions REGENERATED from the Python source
  (`Generated/GeometryGen.lean`, tied to the model by `Lemmas/GenGeometry.lean`).  `…T` = torch, `…N` = NumPy. -/
namespace Odak
open Odak.Gen

/-- generated NumPy `reflect`: the law of reflection for every non-zero normal (any length, either sign); the returned
    origin is the normal's point -/
theorem C11_gen_reflect_law_n (r n : Ray ℝ) (hn : n.d ≠ ⟨0, 0, 0⟩) :
    (reflectN r n).o = n.o ∧
    Vec3.normSq (reflectN r n).d = Vec3.normSq r.d ∧
    Vec3.dot (reflectN r n).d n.d = -(Vec3.dot r.d n.d) ∧
    (∃ c, (reflectN r n).d - r.d = Vec3.smul c n.d) ∧
    (reflectN ⟨n.o, (reflectN r n).d⟩ n).d = r.d ∧
    ∀ c : ℝ, c ≠ 0 → (reflectN r ⟨n.o, Vec3.smul c n.d⟩).d = (reflectN r n).d := by
  simp only [reflectN_eq, reflectEpsNumpy_eq]
  obtain ⟨h1, h2, h3, h4, h5⟩ := C11_reflect_law r.d n.d hn
  exact ⟨trivial, h1, h2, h3, h4, h5⟩

/-- generated torch `reflect`: the exact error against the mirror image, with the epsilon that is in the source today
    (`1e-8`): the deviation is `2 (d·n) ε / (|n|² (|n|² + ε))` times the normal -/
theorem C11_gen_reflect_eps_error_t (r n : Ray ℝ) (hn : n.d ≠ ⟨0, 0, 0⟩) :
    (reflectT r n).o = n.o ∧
    (reflectT r n).d - reflectDir 0 r.d n.d
      = Vec3.smul (2 * Vec3.dot r.d n.d * (1 / 100000000) / (Vec3.normSq n.d * (Vec3.normSq n.d + 1 / 100000000))) n.d := by
  simp only [reflectT_eq, reflectEpsTorch_eq]
  exact ⟨trivial, C11_reflect_eps_error (1 / 100000000) r.d n.d hn (by norm_num)⟩

/-- hence for a unit normal the generated torch `reflect` is within `2·10⁻⁸ |d·n|` of the mirror image, component by component -/
theorem C11_gen_reflect_unit_normal_t (r n : Ray ℝ) (hn : Vec3.normSq n.d = 1) :
    (reflectT r n).d - reflectDir 0 r.d n.d = Vec3.smul (2 * Vec3.dot r.d n.d * (1 / 100000001)) n.d := by
  have hne : n.d ≠ ⟨0, 0, 0⟩ := by
    intro h; rw [h] at hn; simp [Vec3.normSq, Vec3.dot] at hn
  rw [(C11_gen_reflect_eps_error_t r n hne).2, hn]
  congr 1; ring

/-- the refutation witness for the generated torch `reflect`: a normal of length `1e-4` removes the normal component
    instead of flipping it -/
theorem C11_gen_reflect_eps_refuted_t (o p : Vec3 ℝ) :
    (reflectT ⟨o, ⟨0, 0, 1⟩⟩ ⟨p, ⟨0, 0, 1 / 10000⟩⟩).d = ⟨0, 0, 0⟩ := by
  simp only [reflectT_eq, reflectEpsTorch_eq]
  exact C11_reflect_eps_refuted.1

/-- generated loop body of `refract`: after one pass the residual of the quadratic is the square of the step, and the new
    `eps` is the length of that step -/
theorem C11_gen_newton_residual (a b t : ℝ) (hs : t + a ≠ 0) :
    (refrStepT a b t) ^ 2 + 2 * a * refrStepT a b t + b = (refrStepT a b t - t) ^ 2 ∧
    refrEpsT a b t = |t - refrStepT a b t| := by
  rw [refrEpsT_eq, refrStepT_eq]
  exact ⟨C11_newton_residual a b t hs, rfl⟩

/-- generated `refract` at loop exit (`eps ≤ error`): the output direction is a unit vector up to `‖n‖² error²`, and the
    output starts at the normal's point.  `mu`, `a`, `b`, the step and the output are all the regenerated definitions. -/
theorem C11_gen_refract_unit_at_exit (n1 n2 err t : ℝ) (v n : Ray ℝ) (hd : Vec3.normSq v.d = 1) (hn : n.d ≠ ⟨0, 0, 0⟩)
    (hs : t + refrA_T (refrMuT n1 n2) v n ≠ 0)
    (hexit : refrEpsT (refrA_T (refrMuT n1 n2) v n) (refrB_T (refrMuT n1 n2) n) t ≤ err) :
    (refrOutT (refrMuT n1 n2) (refrStepT (refrA_T (refrMuT n1 n2) v n) (refrB_T (refrMuT n1 n2) n) t) v n).o = n.o ∧
    |Vec3.normSq (refrOutT (refrMuT n1 n2) (refrStepT (refrA_T (refrMuT n1 n2) v n) (refrB_T (refrMuT n1 n2) n) t) v n).d - 1|
      ≤ Vec3.normSq n.d * err ^ 2 := by
  rw [refrEpsT_eq] at hexit
  simp only [refrA_T_eq, refrB_T_eq, refrStepT_eq, refrOutT_eq] at hs hexit ⊢
  exact ⟨trivial, C11_refract_unit_at_exit _ err t v.d n.d hd hn hs hexit⟩

/-- generated `refract` output: Snell's law in vector form and coplanarity, for every `to` -/
theorem C11_gen_snell (mu tau : ℝ) (v n : Ray ℝ) :
    Vec3.cross (refrOutT mu tau v n).d n.d = Vec3.smul mu (Vec3.cross v.d n.d) ∧
    ∃ x y, (refrOutT mu tau v n).d = Vec3.smul x v.d + Vec3.smul y n.d := by
  rw [refrOutT_eq]; exact C11_snell mu tau v.d n.d

/-- generated start value and `mu`: `mu = n1 / n2`, and equal indices give `b = 0`, start value `0` -/
theorem C11_gen_equal_indices (n1 : ℝ) (h1 : n1 ≠ 0) (v n : Ray ℝ) :
    refrMuT n1 n1 = 1 ∧ refrB_T (refrMuT n1 n1) n = 0 ∧
    refrStartT (refrA_T (refrMuT n1 n1) v n) (refrB_T (refrMuT n1 n1) n) = 0 ∧
    (refrOutT (refrMuT n1 n1) 0 v n).d = v.d := by
  have hmu : refrMuT n1 n1 = 1 := by simp only [refrMuT]; exact div_self h1
  have hb : refrB_T (1 : ℝ) n = 0 := by rw [refrB_T_eq]; simp [refrB, num_sq]
  refine ⟨hmu, by rw [hmu, hb], ?_, ?_⟩
  · rw [hmu, hb, refrStartT_eq]; simp [refrStart]
  · rw [hmu, refrOutT_eq]; apply Vec3.ext' <;> geo_simp <;> ring

end Odak
