import OdakProofs.Lemmas.Geometry

/-! # C11 – reflection and refraction
  Model: `OdakModel/Geometry.lean` at `α := ℝ`.
  Reflection `reflectDir ε d n = d - 2 (d·n / (n·n + ε)) n` (ε = 0 NumPy, ε = 1e-8 torch).
  Refraction (Spencer–Murty) `refractDir μ τ d n = μ d + τ n`, where τ solves `τ² + 2 a τ + b = 0`,
  `a = refrA μ d n = μ (d·n)/(n·n)`, `b = refrB μ n = (μ² - 1)/(n·n)`, by Newton steps `refrStep a b`. -/
namespace Odak

/-! ## reflection -/

/-- law of reflection for ε = 0, any non-zero normal (any length, either sign), any direction:
    length preserved, normal component flipped, the change is along the normal (coplanar),
    reflecting twice restores the input, and rescaling the normal does not change the result -/
theorem C11_reflect_law (d n : Vec3 ℝ) (hn : n ≠ ⟨0, 0, 0⟩) :
    Vec3.normSq (reflectDir 0 d n) = Vec3.normSq d ∧
    Vec3.dot (reflectDir 0 d n) n = -(Vec3.dot d n) ∧
    (∃ c, reflectDir 0 d n - d = Vec3.smul c n) ∧
    reflectDir 0 (reflectDir 0 d n) n = d ∧
    ∀ c : ℝ, c ≠ 0 → reflectDir 0 d (Vec3.smul c n) = reflectDir 0 d n := by
  have hN : Vec3.normSq n ≠ 0 := Vec3.normSq_ne_zero hn
  have hdot : Vec3.dot (reflectDir 0 d n) n = -(Vec3.dot d n) := by
    rw [reflectDir_zero, Vec3.dot_sub_smul_left, show Vec3.dot n n = Vec3.normSq n from rfl]
    field_simp; ring
  refine ⟨?_, hdot, ?_, ?_, ?_⟩
  · rw [reflectDir_zero, Vec3.normSq_sub_smul]
    field_simp; ring
  · refine ⟨-(2 * (Vec3.dot d n / Vec3.normSq n)), ?_⟩
    rw [reflectDir_zero]
    apply Vec3.ext' <;> simp only [Vec3.sub_def, Vec3.sub, Vec3.smul] <;> ring
  · rw [reflectDir_zero (reflectDir 0 d n) n, hdot, reflectDir_zero d n]
    apply Vec3.ext' <;> simp only [Vec3.sub_def, Vec3.sub, Vec3.smul] <;> ring
  · intro c hc
    rw [reflectDir_zero, reflectDir_zero, Vec3.dot_smul_right, Vec3.normSq_smul]
    apply Vec3.ext' <;> simp only [Vec3.sub_def, Vec3.sub, Vec3.smul] <;> field_simp

/-- the torch ε in the denominator: exact error term with respect to the true reflection -/
theorem C11_reflect_eps_error (eps : ℝ) (d n : Vec3 ℝ) (hn : n ≠ ⟨0, 0, 0⟩) (heps : 0 ≤ eps) :
    reflectDir eps d n - reflectDir 0 d n
      = Vec3.smul (2 * Vec3.dot d n * eps / (Vec3.normSq n * (Vec3.normSq n + eps))) n := by
  have hN : Vec3.normSq n ≠ 0 := Vec3.normSq_ne_zero hn
  have hNe : Vec3.normSq n + eps ≠ 0 := by have := Vec3.normSq_pos hn; positivity
  rw [reflectDir_zero, reflectDir_eq]
  apply Vec3.ext' <;> simp only [Vec3.sub_def, Vec3.sub, Vec3.smul] <;> field_simp <;> ring

/-- refutation of the law of reflection for the torch variant (ε = 1e-8) and a short normal:
    with `n·n = ε` the factor is 1 instead of 2, the normal component is removed instead of flipped -/
theorem C11_reflect_eps_refuted :
    reflectDir ((1 : ℝ) / 100000000) ⟨0, 0, 1⟩ ⟨0, 0, 1 / 10000⟩ = ⟨0, 0, 0⟩ ∧
    Vec3.dot (reflectDir ((1 : ℝ) / 100000000) ⟨0, 0, 1⟩ ⟨0, 0, 1 / 10000⟩) ⟨0, 0, 1 / 10000⟩
      ≠ -(Vec3.dot (⟨0, 0, 1⟩ : Vec3 ℝ) ⟨0, 0, 1 / 10000⟩) := by
  have h : reflectDir ((1 : ℝ) / 100000000) ⟨0, 0, 1⟩ ⟨0, 0, 1 / 10000⟩ = ⟨0, 0, 0⟩ := by
    apply Vec3.ext' <;> geo_simp <;> norm_num
  refine ⟨h, ?_⟩
  rw [h]; simp only [Vec3.dot]; norm_num

/-! ## refraction -/

/-- after a Newton step the residual of the quadratic is the square of the step -/
theorem C11_newton_residual (a b t : ℝ) (hs : t + a ≠ 0) :
    (refrStep a b t) ^ 2 + 2 * a * refrStep a b t + b = (refrStep a b t - t) ^ 2 := by
  simp only [refrStep, num_sq, num_two]
  field_simp; ring

/-- squared length of the refracted direction for a unit input direction -/
theorem C11_refract_length (mu tau : ℝ) (d n : Vec3 ℝ) (hd : Vec3.normSq d = 1) (hn : n ≠ ⟨0, 0, 0⟩) :
    Vec3.normSq (refractDir mu tau d n) - 1
      = Vec3.normSq n * (tau ^ 2 + 2 * refrA mu d n * tau + refrB mu n) := by
  have hN : Vec3.normSq n ≠ 0 := Vec3.normSq_ne_zero hn
  rw [normSq_refractDir, hd]
  simp only [refrA, refrB, num_sq, show Vec3.dot n n = Vec3.normSq n from rfl]
  field_simp; ring

/-- at loop exit (last step not longer than `err`) the output is a unit vector up to `‖n‖² err²` -/
theorem C11_refract_unit_at_exit (mu err t : ℝ) (d n : Vec3 ℝ) (hd : Vec3.normSq d = 1)
    (hn : n ≠ ⟨0, 0, 0⟩) (hs : t + refrA mu d n ≠ 0)
    (hstep : |t - refrStep (refrA mu d n) (refrB mu n) t| ≤ err) :
    |Vec3.normSq (refractDir mu (refrStep (refrA mu d n) (refrB mu n) t) d n) - 1|
      ≤ Vec3.normSq n * err ^ 2 := by
  rw [C11_refract_length mu _ d n hd hn, C11_newton_residual _ _ _ hs,
    abs_of_nonneg (mul_nonneg (Vec3.normSq_nonneg n) (sq_nonneg _))]
  apply mul_le_mul_of_nonneg_left _ (Vec3.normSq_nonneg n)
  rw [← sq_abs, abs_sub_comm]
  exact pow_le_pow_left₀ (abs_nonneg _) hstep 2

/-- Snell's law in vector form, `out × n = μ (d × n)` (i.e. `n₂ sin θ₂ = n₁ sin θ₁` with `μ = n₁/n₂`
    once the output has unit length), and coplanarity of output, input and normal -/
theorem C11_snell (mu tau : ℝ) (d n : Vec3 ℝ) :
    Vec3.cross (refractDir mu tau d n) n = Vec3.smul mu (Vec3.cross d n) ∧
    ∃ x y, refractDir mu tau d n = Vec3.smul x d + Vec3.smul y n := by
  refine ⟨?_, mu, tau, rfl⟩
  apply Vec3.ext' <;> geo_simp <;> ring

/-- normal component of the output, and the sign of every Newton iterate `s_k = t_k + a`:
    it is the sign of `a` (no total internal reflection, `0 ≤ a² - b`) -/
theorem C11_far_side (mu : ℝ) (d n : Vec3 ℝ) (hn : n ≠ ⟨0, 0, 0⟩) :
    (∀ tau, Vec3.dot (refractDir mu tau d n) n = Vec3.normSq n * (tau + refrA mu d n)) ∧
    ∀ a b : ℝ, 0 ≤ a ^ 2 - b → a ≠ 0 → ∀ k,
      (0 < a → 0 < refrIter a b k + a) ∧ (a < 0 → refrIter a b k + a < 0) := by
  have hN : Vec3.normSq n ≠ 0 := Vec3.normSq_ne_zero hn
  constructor
  · intro tau
    rw [dot_refractDir]
    simp only [refrA, show Vec3.dot n n = Vec3.normSq n from rfl]
    field_simp; ring
  · intro a b hD ha k
    obtain ⟨_, _, hp, hneg⟩ := newtonStep_iter_inv hD ha k
    rw [refrIter_add b ha k]
    exact ⟨hp, hneg⟩

/-- hence, for `μ > 0`, every iterate gives an output on the far side of the surface:
    `out · n` has the sign of `d · n` -/
theorem C11_far_side_sign (mu : ℝ) (d n : Vec3 ℝ) (hn : n ≠ ⟨0, 0, 0⟩) (hmu : 0 < mu)
    (hD : 0 ≤ (refrA mu d n) ^ 2 - refrB mu n) (k : Nat) :
    (0 < Vec3.dot d n → 0 < Vec3.dot (refractDir mu (refrIter (refrA mu d n) (refrB mu n) k) d n) n) ∧
    (Vec3.dot d n < 0 → Vec3.dot (refractDir mu (refrIter (refrA mu d n) (refrB mu n) k) d n) n < 0) := by
  have hN : 0 < Vec3.normSq n := Vec3.normSq_pos hn
  have hA : refrA mu d n = mu * Vec3.dot d n / Vec3.normSq n := rfl
  obtain ⟨h1, h2⟩ := C11_far_side mu d n hn
  constructor
  · intro h
    have ha : 0 < refrA mu d n := by rw [hA]; positivity
    rw [h1]
    exact mul_pos hN ((h2 _ _ hD ha.ne' k).1 ha)
  · intro h
    have ha : refrA mu d n < 0 := by
      rw [hA]; exact div_neg_of_neg_of_pos (mul_neg_of_pos_of_neg hmu h) hN
    rw [h1]
    exact mul_neg_of_pos_of_neg hN ((h2 _ _ hD ha.ne k).2 ha)

/-- equal indices (`μ = 1`): `b = 0`, the start value is 0, the first step stays at 0, the loop
    exits after exactly one iteration with `τ = 0`, and the direction is unchanged -/
theorem C11_equal_indices (err : ℝ) (d n : Vec3 ℝ) (_hdn : Vec3.dot d n ≠ 0) (_hn : n ≠ ⟨0, 0, 0⟩)
    (herr : 0 < err) (fuel : Nat) :
    refractTau 1 err d n (fuel + 1) = .ok 0 1 ∧ refractDir 1 0 d n = d := by
  constructor
  · have hb : refrB (1 : ℝ) n = 0 := by simp [refrB, num_sq]
    have h0 : refrStart (refrA 1 d n) 0 = 0 := by simp [refrStart]
    have h1 : refrStep (refrA 1 d n) 0 0 = 0 := by simp [refrStep, num_sq]
    have hD : ¬ (Num.sq (refrA 1 d n) - 0 < 0) := by
      rw [num_sq]; nlinarith [mul_self_nonneg (refrA 1 d n)]
    have he : err < err * Num.two := by rw [num_two]; linarith
    simp only [refractTau, hb, if_neg hD, h0]
    rw [refrLoop, if_pos he, h1]
    simp only [num_abs, sub_self, abs_zero]
    exact refrLoop_done _ _ _ _ _ _ _ (not_lt.mpr herr.le)
  · apply Vec3.ext' <;> geo_simp <;> ring

/-- non-vacuity: glass-to-air style data without total internal reflection
    (`μ = 1/2`, normal incidence): `a = 1/2`, `b = -3/4`, `a² - b = 1 ≥ 0` -/
example : (0 : ℝ) ≤ (refrA (1 / 2) (⟨0, 0, 1⟩ : Vec3 ℝ) ⟨0, 0, 1⟩) ^ 2 - refrB (1 / 2) (⟨0, 0, 1⟩ : Vec3 ℝ)
    ∧ refrA (1 / 2) (⟨0, 0, 1⟩ : Vec3 ℝ) ⟨0, 0, 1⟩ ≠ 0 := by
  geo_simp; norm_num

end Odak
